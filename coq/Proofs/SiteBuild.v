(** * The stateful construction of the page hierarchy equals the map-free one (C15, C17, C14).

    [from_root_directory_pure]: for a tree whose directories have pairwise distinct entry
    names, [HomePage.from_root_directory] (with the shared [recipe_pages] map threaded through
    all passes) returns exactly what [pure_root] returns - the same home page and category
    trees, or the same error - and leaves in the map, for every recipe source, the closed form
    [expected_final]. *)
From Coq Require Import List NArith Bool Arith Lia String.
From RG Require Import Base.Str Base.Dec Model.Url Model.Href Model.Fs Model.Site Spec.SiteSpec
  Proofs.FsTree Proofs.SiteLinks Proofs.SiteHeap.
Import ListNotations.
Open Scope list_scope.
Open Scope N_scope.

(** ** Entries of a directory *)

Lemma scan_entries_recipes : forall es rd acc rd' rs,
  scan_entries es rd acc = Ok (rd', rs) -> rs = rev acc ++ dir_recipes es.
Proof.
  induction es as [|e es IH]; intros rd acc rd' rs H; simpl in H.
  - inversion H; subst. simpl. symmetry. apply app_nil_r.
  - destruct e as [n d|n|n rn sub]; simpl in H |- *.
    + destruct (is_readme_name n).
      * destruct rd; [discriminate | eapply IH; exact H].
      * destruct (is_md_name n).
        -- apply IH in H. rewrite H. simpl. rewrite <- app_assoc. reflexivity.
        -- eapply IH. exact H.
    + destruct (is_readme_name n).
      * destruct rd; [discriminate | eapply IH; exact H].
      * destruct (is_md_name n).
        -- apply IH in H. rewrite H. simpl. rewrite <- app_assoc. reflexivity.
        -- eapply IH. exact H.
    + eapply IH. exact H.
Qed.

Section Build.
Variable E : env.

Lemma enumerate_recipes dp rn es l : enumerate E dp rn es = Ok l -> l_recipes l = dir_recipes es.
Proof.
  unfold enumerate. destruct (scan_entries es None []) as [[rd rs]|e] eqn:Hs; [|discriminate].
  apply scan_entries_recipes in Hs. simpl in Hs. cbn [bind].
  destruct rd as [[name [d|]]|].
  - destruct (compile_readme E d) as [[title links]|e]; [|discriminate]. cbn [bind].
    intro H. inversion H; subst. reflexivity.
  - discriminate.
  - intro H. inversion H; subst. reflexivity.
Qed.

Lemma dir_recipes_names es name data :
  In (name, data) (dir_recipes es) -> exists e, In e es /\ sname e = name /\ is_sdir e = false.
Proof.
  induction es as [|e es IH]; simpl; [contradiction|].
  destruct (is_sdir e) eqn:Ed.
  - intro H. destruct (IH H) as (e' & H1 & H2 & H3). exists e'. auto.
  - destruct (is_readme_name (sname e)).
    + intro H. destruct (IH H) as (e' & H1 & H2 & H3). exists e'. auto.
    + destruct (is_md_name (sname e)).
      * intros [H|H].
        -- inversion H; subst. exists e. auto.
        -- destruct (IH H) as (e' & H1 & H2 & H3). exists e'. auto.
      * intro H. destruct (IH H) as (e' & H1 & H2 & H3). exists e'. auto.
Qed.

Lemma dir_recipes_nodup es : NoDup (map sname es) -> NoDup (map fst (dir_recipes es)).
Proof.
  induction es as [|e es IH]; simpl; intro H; [constructor|].
  inversion H as [|? ? Hni Hnd]; subst.
  destruct (is_sdir e); [apply IH; exact Hnd|].
  destruct (is_readme_name (sname e)); [apply IH; exact Hnd|].
  destruct (is_md_name (sname e)); [|apply IH; exact Hnd].
  simpl. constructor; [|apply IH; exact Hnd].
  intro Hin. apply Hni. apply in_map_iff in Hin as [[nm d] [Heq Hin]]. simpl in Heq. subst nm.
  apply dir_recipes_names in Hin as (e' & H1 & H2 & _). apply in_map_iff. exists e'. auto.
Qed.

(** ** [N_seq] *)

Lemma N_seq_snoc : forall k a, N_seq a (S k) = N_seq a k ++ [a + N.of_nat k].
Proof.
  induction k as [|k IH]; intro a.
  - simpl. rewrite N.add_0_r. reflexivity.
  - change (N_seq a (S (S k))) with (a :: N_seq (a + 1) (S k)). rewrite IH. simpl. f_equal. f_equal. f_equal. lia.
Qed.

Lemma N_seq_in : forall k a x, In x (N_seq a k) <-> a <= x /\ x < a + N.of_nat k.
Proof.
  induction k as [|k IH]; intros a x; simpl.
  - split; [contradiction | lia].
  - rewrite IH. split.
    + intros [H|H]; lia.
    + intro H. destruct (N.eq_dec a x); [left; assumption | right; lia].
Qed.

Lemma ok_pair_inj {A B} (a a' : A) (b b' : B) : @Ok (A * B) (a, b) = Ok (a', b') -> a = a' /\ b = b'.
Proof. intro H. inversion H. auto. Qed.

(** ** One recipe, one pass *)

Lemma sc_get_pages_absent {A} (f : N -> A) (mkp : N -> rpage) k : forall l,
  ~ In k l -> sc_get (Some k) (map (fun i => (Some i, mkp i)) l) = None.
Proof.
  induction l as [|x l IH]; simpl; intro H; [reflexivity|].
  destruct (N.eqb_spec k x) as [->|Hne]; [exfalso; apply H; left; reflexivity|]. apply IH. tauto.
Qed.

Lemma sc_get_pages_present (mkp : N -> rpage) k : forall l,
  In k l -> sc_get (Some k) (map (fun i => (Some i, mkp i)) l) = Some (mkp k).
Proof.
  induction l as [|x l IH]; simpl; intro H; [contradiction|].
  destruct (N.eqb_spec k x) as [->|Hne]; [reflexivity|]. apply IH. destruct H; [congruence | assumption].
Qed.

Lemma sc_get_pages_none (mkp : N -> rpage) : forall l, sc_get None (map (fun i => (Some i, mkp i)) l) = None.
Proof. induction l as [|x l IH]; simpl; [reflexivity | exact IH]. Qed.

Definition or_nil (m : option scalings) : scalings := match m with Some x => x | None => [] end.

(** A scaled pass extends [expected] by one step. *)
Lemma expected_step mes src data j ref other' :
  from_recipe_source E (N.of_nat (S j)) src data (mes (Some (N.of_nat (S j)))) (or_nil (expected E mes src data j))
    = Ok (ref, other') ->
  expected E mes src data (S j) = Some other'.
Proof.
  unfold from_recipe_source, expected.
  destruct (compile_recipe E data true false) as [doc|e]; [|discriminate]. cbn [bind].
  unfold page_of_doc. destruct (d_title doc) as [title|]; [|discriminate].
  destruct (d_servings doc) as [nv|] eqn:Esv.
  - (* states its servings *)
    destruct (nv =? 0) eqn:E0.
    + apply N.eqb_eq in E0. subst nv. destruct j; simpl; discriminate.
    + destruct j as [|j].
      * unfold or_nil. cbn [sc_get]. destruct nv as [|pn]; [discriminate|].
        intro H. apply ok_pair_inj in H as [_ Ho]. subst other'. reflexivity.
      * unfold or_nil. remember (N.of_nat (S (S j))) as n eqn:Hn.
        rewrite (sc_get_pages_absent (fun i => i)) by (rewrite N_seq_in; lia).
        destruct nv as [|pn]; [discriminate|].
        intro H. apply ok_pair_inj in H as [_ Ho]. subst other'.
        rewrite (N_seq_snoc (S j)). rewrite map_app. cbn [map].
        replace (1 + N.of_nat (S j)) with n by lia.
        rewrite sc_set_absent; [reflexivity|].
        apply (sc_get_pages_absent (fun i => i)). rewrite N_seq_in. lia.
  - (* no serving count: one page, created by the first pass *)
    destruct j.
    + simpl. intro H. inversion H; subst. reflexivity.
    + unfold or_nil. cbn [sc_get opt_N_eqb option_eqb]. intro H. inversion H; subst. reflexivity.
Qed.

(** The reference a scaled pass returns does not depend on the map. *)
Lemma scaled_ref_pure mes src data j ref other' :
  from_recipe_source E (N.of_nat (S j)) src data (mes (Some (N.of_nat (S j)))) (or_nil (expected E mes src data j))
    = Ok (ref, other') ->
  exists doc title, compile_recipe E data true false = Ok doc /\ d_title doc = Some title /\
    ref = {| rr_title := title; rr_name := last src []; rr_source := src;
             rr_key := match d_servings doc with Some _ => Some (N.of_nat (S j)) | None => None end |}.
Proof.
  unfold from_recipe_source, expected.
  destruct (compile_recipe E data true false) as [doc|e]; [|discriminate]. cbn [bind].
  unfold page_of_doc. destruct (d_title doc) as [title|] eqn:Et; [|discriminate].
  intro H. exists doc, title. split; [reflexivity|]. split; [exact Et|].
  destruct (d_servings doc) as [nv|] eqn:Esv.
  - destruct (nv =? 0) eqn:E0.
    + apply N.eqb_eq in E0. subst nv. destruct j; simpl in H; discriminate.
    + destruct j as [|j].
      * unfold or_nil in H. cbn [sc_get] in H. destruct nv as [|pn]; [discriminate|]. inversion H; subst. reflexivity.
      * unfold or_nil in H. rewrite (sc_get_pages_absent (fun i => i)) in H by (rewrite N_seq_in; lia).
        destruct nv as [|pn]; [discriminate|]. inversion H; subst. reflexivity.
  - destruct j.
    + simpl in H. inversion H; subst. reflexivity.
    + unfold or_nil in H. cbn [sc_get opt_N_eqb option_eqb] in H. inversion H; subst. simpl. reflexivity.
Qed.

(** The unscaled pass turns [expected] into [expected_final]. *)
Lemma expected_final_step mes src data j m native p :
  unscaled_lookup (expected E mes src data j) = Ok (m, native, p) ->
  expected_final E mes src data j =
    Some (match native with None => sc_set native (set_parent p (mes None)) m | Some _ => m end).
Proof.
  unfold expected_final, unscaled_lookup.
  destruct (expected E mes src data j) as [m0|] eqn:Ee; [|discriminate].
  unfold expected in Ee. destruct j; [discriminate|].
  destruct (compile_recipe E data true false) as [doc|e]; [|discriminate].
  destruct (d_title doc) as [title|]; [|discriminate].
  destruct (d_servings doc) as [nv|].
  - destruct (nv =? 0); [discriminate|]. inversion Ee; subst m0. clear Ee.
    match goal with |- context [sc_get (Some 1) ?l] =>
      replace (sc_get (Some 1) l) with (Some (mk_page title (mes (Some 1)) (Some 1) (Some nv) src doc (mk_factor 1 nv)))
        by reflexivity end.
    cbn [rp_native mk_page].
    match goal with |- context [sc_get (Some nv) ?l] => destruct (sc_get (Some nv) l) as [p'|] end; [|discriminate].
    intro H. inversion H; subst. reflexivity.
  - inversion Ee; subst m0. clear Ee. simpl. intro H. inversion H; subst. simpl. reflexivity.
Qed.

(** ** One directory's recipes, one pass *)

Definition sv_ok (sv : option N) (j : nat) : Prop :=
  match sv with Some n => n = N.of_nat (S j) | None => True end.

Definition post_exp (sv : option N) (mes : chains) (src : path) (data : option bytes) (j : nat) : option scalings :=
  match sv with Some _ => expected E mes src data (S j) | None => expected_final E mes src data j end.

Definition model_recipes (sv : option N) (dp : path) (me : chain) (rs : list (str * option bytes)) (h : heap)
  : outcome (list rref * heap) :=
  match sv with
  | Some n => add_scaled_recipes E n dp me rs h
  | None => add_unscaled_recipes dp me rs h
  end.

Definition pure_refs (sv : option N) (j : nat) (dp : path) (mes : chains) (rs : list (str * option bytes))
  : outcome (list rref) :=
  match sv with
  | Some _ => pure_refs_scaled E j dp mes rs
  | None => pure_refs_unscaled E j dp mes rs
  end.

Lemma snoc_neq (dp : path) a b : a <> b -> dp ++ [a] <> dp ++ [b].
Proof. intros Hne Heq. apply app_inv_head in Heq. congruence. Qed.

Lemma recipes_pass sv j dp mes : sv_ok sv j -> forall rs h,
  NoDup (map fst rs) ->
  (forall name data, In (name, data) rs -> heap_get (dp ++ [name]) h = expected E mes (dp ++ [name]) data j) ->
  match pure_refs sv j dp mes rs with
  | Ok refs =>
      exists h', model_recipes sv dp (mes sv) rs h = Ok (refs, h') /\
        (forall name data, In (name, data) rs ->
           heap_get (dp ++ [name]) h' = post_exp sv mes (dp ++ [name]) data j) /\
        (forall src, (forall name, In name (map fst rs) -> src <> dp ++ [name]) -> heap_get src h' = heap_get src h)
  | Err e => model_recipes sv dp (mes sv) rs h = Err e
  end.
Proof.
  intro Hsv. induction rs as [|[name data] rs IH]; intros h Hnd Hpre.
  - destruct sv; simpl; exists h; repeat split; auto; intros ? ? [].
  - inversion Hnd as [|? ? Hni Hnd']; subst.
    assert (Hhead := Hpre name data (or_introl eq_refl)).
    destruct sv as [n|].
    + (* scaled *)
      unfold sv_ok in Hsv. subst n. unfold pure_refs, model_recipes in *.
      cbn [pure_refs_scaled add_scaled_recipes]. rewrite Hhead.
      fold (or_nil (expected E mes (dp ++ [name]) data j)).
      destruct (from_recipe_source E (N.of_nat (S j)) (dp ++ [name]) data (mes (Some (N.of_nat (S j))))
                  (or_nil (expected E mes (dp ++ [name]) data j))) as [[ref other']|e] eqn:Hf; [|reflexivity].
      cbn [bind].
      pose proof (expected_step _ _ _ _ _ _ Hf) as Hstep.
      set (h1 := heap_set (dp ++ [name]) other' h).
      specialize (IH h1 Hnd').
      assert (Hpre1 : forall name0 data0, In (name0, data0) rs ->
                heap_get (dp ++ [name0]) h1 = expected E mes (dp ++ [name0]) data0 j).
      { intros name0 data0 Hin. unfold h1. rewrite heap_get_set_other.
        - apply Hpre. right. exact Hin.
        - apply snoc_neq. intro Heq. subst name0. apply Hni. apply in_map_iff. exists (name, data0). auto. }
      specialize (IH Hpre1).
      destruct (pure_refs_scaled E j dp mes rs) as [refs|e]; cbn [bind].
      * destruct IH as (h' & Hm & Hpost & Hframe). exists h'. rewrite Hm. cbn [bind]. split; [reflexivity|]. split.
        -- intros name0 data0 [Hin|Hin].
           ++ inversion Hin; subst name0 data0. rewrite Hframe.
              ** unfold h1. rewrite heap_get_set_same. symmetry. exact Hstep.
              ** intros nm Hnm. apply snoc_neq. intro Heq. subst nm. contradiction.
           ++ apply Hpost. exact Hin.
        -- intros src Hsrc. rewrite Hframe.
           ++ unfold h1. apply heap_get_set_other. intro Heq. apply (Hsrc name); [left; reflexivity | congruence].
           ++ intros nm Hnm. apply Hsrc. right. exact Hnm.
      * rewrite IH. reflexivity.
    + (* unscaled *)
      unfold pure_refs, model_recipes in *.
      cbn [pure_refs_unscaled add_unscaled_recipes]. rewrite Hhead.
      destruct (unscaled_lookup (expected E mes (dp ++ [name]) data j)) as [[[m native] p]|e] eqn:Hl; [|reflexivity].
      cbn [bind].
      pose proof (expected_final_step _ _ _ _ _ _ _ Hl) as Hstep.
      set (h1 := match native with
                 | None => heap_set (dp ++ [name]) (sc_set native (set_parent p (mes None)) m) h
                 | Some _ => h end).
      assert (Hget1 : heap_get (dp ++ [name]) h1 = expected_final E mes (dp ++ [name]) data j).
      { rewrite Hstep. unfold h1. destruct native.
        - rewrite Hhead. unfold unscaled_lookup in Hl.
          destruct (expected E mes (dp ++ [name]) data j) as [m0|]; [|discriminate].
          destruct (match sc_get (Some 1) m0 with Some p0 => Some p0 | None => sc_get None m0 end); [|discriminate].
          destruct (sc_get (rp_native r) m0); [|discriminate]. inversion Hl; subst. reflexivity.
        - apply heap_get_set_same. }
      assert (Hother1 : forall src, src <> dp ++ [name] -> heap_get src h1 = heap_get src h).
      { intros src Hne. unfold h1. destruct native; [reflexivity|]. apply heap_get_set_other. congruence. }
      specialize (IH h1 Hnd').
      assert (Hpre1 : forall name0 data0, In (name0, data0) rs ->
                heap_get (dp ++ [name0]) h1 = expected E mes (dp ++ [name0]) data0 j).
      { intros name0 data0 Hin. rewrite Hother1.
        - apply Hpre. right. exact Hin.
        - apply snoc_neq. intro Heq. subst name0. apply Hni. apply in_map_iff. exists (name, data0). auto. }
      specialize (IH Hpre1).
      destruct (pure_refs_unscaled E j dp mes rs) as [refs|e]; cbn [bind].
      * destruct IH as (h' & Hm & Hpost & Hframe). exists h'. rewrite Hm. cbn [bind]. split; [reflexivity|]. split.
        -- intros name0 data0 [Hin|Hin].
           ++ inversion Hin; subst name0 data0. rewrite Hframe; [exact Hget1|].
              intros nm Hnm. apply snoc_neq. intro Heq. subst nm. contradiction.
           ++ apply Hpost. exact Hin.
        -- intros src Hsrc. rewrite Hframe.
           ++ apply Hother1. apply Hsrc. left. reflexivity.
           ++ intros nm Hnm. apply Hsrc. right. exact Hnm.
      * rewrite IH. reflexivity.
Qed.

(** ** Whole directories *)

Fixpoint msubs (f : stree -> path -> heap -> outcome (cpage * heap)) (dp : path) (l : list stree) (h : heap)
  : outcome (list cpage * heap) :=
  match l with
  | [] => Ok ([], h)
  | e :: r =>
      match e with
      | SDir n _ _ =>
          bind (f e (dp ++ [n]) h) (fun '(c, h1) =>
          bind (msubs f dp r h1) (fun '(cs, h2) => Ok (c :: cs, h2)))
      | _ => msubs f dp r h
      end
  end.

Fixpoint psubs (f : stree -> path -> outcome cpage) (dp : path) (l : list stree) : outcome (list cpage) :=
  match l with
  | [] => Ok []
  | e :: r =>
      match e with
      | SDir n _ _ => bind (f e (dp ++ [n])) (fun c => bind (psubs f dp r) (fun cs => Ok (c :: cs)))
      | _ => psubs f dp r
      end
  end.

Fixpoint asubs {A} (f : stree -> path -> list A) (dp : path) (l : list stree) : list A :=
  match l with
  | [] => []
  | e :: r =>
      match e with
      | SDir n _ _ => f e (dp ++ [n]) ++ asubs f dp r
      | _ => asubs f dp r
      end
  end.

Definition dir_mes (P : chains) (dp : path) (ltitle : str) (is_root : bool) : chains :=
  fun sv' => dir_me sv' (P sv') dp ltitle is_root.

Definition dir_page (sv : option N) (parent : chain) (dp : path) (l : listing) (is_root : bool)
  (cs : list cpage) (refs : list rref) : cpage :=
  CPage (cat_title sv (l_title l) is_root) parent (cat_cpath sv parent dp is_root) sv
        (if is_root then None else l_desc l) (if is_root then None else l_desc_src l) dp
        (sort_by cpage_key cs) (sort_by rref_key refs).

Lemma from_directory_eq sv nm rn es dp parent is_root h :
  from_directory E sv (SDir nm rn es) dp parent is_root h =
  bind (enumerate E dp rn es) (fun l =>
    let me := dir_me sv parent dp (l_title l) is_root in
    bind (msubs (fun e p h0 => from_directory E sv e p me false h0) dp es h) (fun '(cs, h1) =>
    bind (model_recipes sv dp me (l_recipes l) h1) (fun '(refs, h2) =>
    Ok (dir_page sv parent dp l is_root cs refs, h2)))).
Proof.
  cbn [from_directory]. destruct (enumerate E dp rn es) as [l|e]; [|reflexivity]. cbn [bind].
  cbv zeta.
  match goal with |- bind (?F es h) _ = _ =>
    assert (HF : forall l0 h0, F l0 h0 =
       msubs (fun e p h1 => from_directory E sv e p (dir_me sv parent dp (l_title l) is_root) false h1) dp l0 h0) end.
  { induction l0 as [|e r IHr]; intro h0; [reflexivity|].
    destruct e as [fn fd|bn|dn drn des]; cbn [msubs]; try apply IHr.
    unfold dir_me, cat_title, cat_cpath, cat_seg in *.
    destruct (from_directory E sv (SDir dn drn des) (dp ++ [dn]) _ false h0) as [[c h1]|er]; cbn [bind]; [|reflexivity].
    rewrite IHr. reflexivity. }
  rewrite HF. unfold model_recipes, dir_page, dir_me, cat_title, cat_cpath, cat_seg.
  destruct sv; reflexivity.
Qed.

Lemma pure_dir_eq j sv nm rn es dp P is_root :
  pure_dir E j sv (SDir nm rn es) dp P is_root =
  bind (enumerate E dp rn es) (fun l =>
    let mes := dir_mes P dp (l_title l) is_root in
    bind (psubs (fun e p => pure_dir E j sv e p mes false) dp es) (fun cs =>
    bind (pure_refs sv j dp mes (l_recipes l)) (fun refs =>
    Ok (dir_page sv (P sv) dp l is_root cs refs)))).
Proof.
  cbn [pure_dir]. destruct (enumerate E dp rn es) as [l|e]; [|reflexivity]. cbn [bind]. cbv zeta.
  match goal with |- bind (?F es) _ = _ =>
    assert (HF : forall l0, F l0 = psubs (fun e p => pure_dir E j sv e p (dir_mes P dp (l_title l) is_root) false) dp l0) end.
  { induction l0 as [|e r IHr]; [reflexivity|].
    destruct e as [fn fd|bn|dn drn des]; cbn [psubs]; try apply IHr.
    unfold dir_mes.
    destruct (pure_dir E j sv (SDir dn drn des) (dp ++ [dn]) _ false) as [c|er]; cbn [bind]; [|reflexivity].
    rewrite IHr. reflexivity. }
  rewrite HF. unfold pure_refs, dir_page, dir_mes. destruct sv; reflexivity.
Qed.

Lemma asources_eq nm rn es dp P is_root :
  asources E (SDir nm rn es) dp P is_root =
  match enumerate E dp rn es with
  | Err _ => []
  | Ok l =>
      let mes := dir_mes P dp (l_title l) is_root in
      asubs (fun e p => asources E e p mes false) dp es
      ++ map (fun nd => (dp ++ [fst nd], snd nd, mes)) (l_recipes l)
  end.
Proof.
  cbn [asources]. destruct (enumerate E dp rn es) as [l|e]; [|reflexivity]. cbv zeta.
  f_equal. induction es as [|e r IHr]; [reflexivity|].
  destruct e as [fn fd|bn|dn drn des]; cbn [asubs]; try apply IHr.
  rewrite IHr. reflexivity.
Qed.

Lemma uniq_names_dir nm rn es : uniq_names (SDir nm rn es) <-> NoDup (map sname es) /\ Forall uniq_names es.
Proof.
  cbn [uniq_names]. split; intros [H1 H2]; split; try exact H1.
  - induction es as [|e r IHr]; [constructor|]. destruct H2 as [He Hr]. constructor; [exact He|].
    apply IHr; [inversion H1; assumption | exact Hr].
  - clear H1. induction H2 as [|e r He Hr IHr]; [exact I|]. split; assumption.
Qed.

(** Every source of a subtree lies strictly below the subtree's directory. *)
Lemma asources_below : forall t dp P is_root src data mes,
  In (src, data, mes) (asources E t dp P is_root) -> is_prefix dp src /\ src <> dp.
Proof.
  induction t as [n d|n|n rn es IHes] using stree_ind'; intros dp P is_root src data mes Hin;
    try (simpl in Hin; contradiction).
  rewrite asources_eq in Hin. destruct (enumerate E dp rn es) as [l|e]; [|contradiction]. cbv zeta in Hin.
  apply in_app_or in Hin as [Hin|Hin].
  - revert Hin. generalize (dir_mes P dp (l_title l) is_root). intros mes0 Hin.
    induction IHes as [|e r He Hr IHr]; [contradiction|].
    destruct e as [fn fd|bn|dn drn des]; cbn [asubs] in Hin; try (apply IHr; exact Hin).
    apply in_app_or in Hin as [Hin|Hin]; [|apply IHr; exact Hin].
    apply He in Hin as [Hp Hne]. split.
    + eapply is_prefix_trans; [apply is_prefix_app | exact Hp].
    + intro Heq. subst src. destruct Hp as [r0 Hr0]. rewrite <- app_assoc in Hr0.
      apply (f_equal (@List.length _)) in Hr0. rewrite !app_length in Hr0. simpl in Hr0. lia.
  - apply in_map_iff in Hin as [[nm0 d0] [Heq _]]. inversion Heq; subst. split; [apply is_prefix_app|].
    intro Heq'. apply (f_equal (@List.length _)) in Heq'. rewrite app_length in Heq'. simpl in Heq'. lia.
Qed.

Lemma NoDup_map_inj {A B} (f : A -> B) (l : list A) a b :
  NoDup (map f l) -> In a l -> In b l -> f a = f b -> a = b.
Proof.
  induction l as [|x l IH]; simpl; intros Hnd Ha Hb Hf; [contradiction|].
  inversion Hnd as [|? ? Hni Hnd']; subst.
  destruct Ha as [Ha|Ha]; destruct Hb as [Hb|Hb]; subst.
  - reflexivity.
  - exfalso. apply Hni. rewrite Hf. apply in_map. exact Hb.
  - exfalso. apply Hni. rewrite <- Hf. apply in_map. exact Ha.
  - apply IH; assumption.
Qed.

Definition pass_prop (sv : option N) (j : nat) (t : stree) : Prop :=
  uniq_names t -> forall dp P is_root h,
  (forall src data mes, In (src, data, mes) (asources E t dp P is_root) -> heap_get src h = expected E mes src data j) ->
  match pure_dir E j sv t dp P is_root with
  | Ok c =>
      exists h', from_directory E sv t dp (P sv) is_root h = Ok (c, h') /\
        (forall src data mes, In (src, data, mes) (asources E t dp P is_root) ->
           heap_get src h' = post_exp sv mes src data j) /\
        (forall src, ~ is_prefix dp src -> heap_get src h' = heap_get src h)
  | Err e => from_directory E sv t dp (P sv) is_root h = Err e
  end.

Lemma subs_pass sv j dp (mes : chains) : forall l0,
  Forall (pass_prop sv j) l0 -> NoDup (map sname l0) -> Forall uniq_names l0 -> forall h0,
  (forall src data mes', In (src, data, mes') (asubs (fun e p => asources E e p mes false) dp l0) ->
     heap_get src h0 = expected E mes' src data j) ->
  match psubs (fun e p => pure_dir E j sv e p mes false) dp l0 with
  | Ok cs =>
      exists h1, msubs (fun e p h => from_directory E sv e p (mes sv) false h) dp l0 h0 = Ok (cs, h1) /\
        (forall src data mes', In (src, data, mes') (asubs (fun e p => asources E e p mes false) dp l0) ->
           heap_get src h1 = post_exp sv mes' src data j) /\
        (forall src, (forall e, In e l0 -> is_sdir e = true -> ~ is_prefix (dp ++ [sname e]) src) ->
           heap_get src h1 = heap_get src h0)
  | Err e => msubs (fun e p h => from_directory E sv e p (mes sv) false h) dp l0 h0 = Err e
  end.
Proof.
  induction l0 as [|e r IHr]; intros HP Hnd Hu h0 Hpre.
  - simpl. exists h0. repeat split; auto. intros ? ? ? [].
  - inversion HP as [|? ? He HPr]; subst. inversion Hnd as [|? ? Hni Hnd']; subst.
    inversion Hu as [|? ? Hue Hur]; subst.
    destruct e as [fn fd|bn|dn drn des].
    + cbn [psubs msubs asubs] in *. specialize (IHr HPr Hnd' Hur h0 Hpre).
      destruct (psubs _ dp r) as [cs|er]; [|exact IHr].
      destruct IHr as (h1 & Hm & Hpost & Hframe). exists h1. split; [exact Hm|]. split; [exact Hpost|].
      intros src Hsrc. apply Hframe. intros e He' Hd. apply Hsrc; [right; exact He' | exact Hd].
    + cbn [psubs msubs asubs] in *. specialize (IHr HPr Hnd' Hur h0 Hpre).
      destruct (psubs _ dp r) as [cs|er]; [|exact IHr].
      destruct IHr as (h1 & Hm & Hpost & Hframe). exists h1. split; [exact Hm|]. split; [exact Hpost|].
      intros src Hsrc. apply Hframe. intros e He' Hd. apply Hsrc; [right; exact He' | exact Hd].
    + cbn [psubs msubs asubs] in *.
      assert (Hpre_e : forall src data mes', In (src, data, mes') (asources E (SDir dn drn des) (dp ++ [dn]) mes false) ->
                heap_get src h0 = expected E mes' src data j).
      { intros. apply Hpre. apply in_or_app. left. assumption. }
      specialize (He Hue (dp ++ [dn]) mes false h0 Hpre_e).
      destruct (pure_dir E j sv (SDir dn drn des) (dp ++ [dn]) mes false) as [c|er]; cbn [bind].
      * destruct He as (h1 & Hm1 & Hpost1 & Hframe1). rewrite Hm1. cbn [bind].
        assert (Hnot_r : forall src data mes', In (src, data, mes') (asubs (fun e p => asources E e p mes false) dp r) ->
                  ~ is_prefix (dp ++ [dn]) src).
        { intros src data mes' Hin Hp.
          clear - Hin Hp Hni. induction r as [|e' r' IHr']; [contradiction|].
          destruct e' as [fn' fd'|bn'|dn' drn' des']; cbn [asubs] in Hin.
          - apply IHr'; [|exact Hin]. intro H. apply Hni. right. exact H.
          - apply IHr'; [|exact Hin]. intro H. apply Hni. right. exact H.
          - apply in_app_or in Hin as [Hin|Hin].
            + apply asources_below in Hin as [Hp' _].
              apply Hni. left. simpl. eapply is_prefix_snoc_inj; eassumption.
            + apply IHr'; [|exact Hin]. intro H. apply Hni. right. exact H. }
        assert (Hpre_r : forall src data mes', In (src, data, mes') (asubs (fun e p => asources E e p mes false) dp r) ->
                  heap_get src h1 = expected E mes' src data j).
        { intros src data mes' Hin. rewrite Hframe1; [|eapply Hnot_r; exact Hin].
          apply Hpre. apply in_or_app. right. exact Hin. }
        specialize (IHr HPr Hnd' Hur h1 Hpre_r).
        destruct (psubs _ dp r) as [cs|er]; cbn [bind].
        -- destruct IHr as (h2 & Hm2 & Hpost2 & Hframe2). exists h2. rewrite Hm2. cbn [bind].
           split; [reflexivity|]. split.
           ++ intros src data mes' Hin. apply in_app_or in Hin as [Hin|Hin].
              ** rewrite Hframe2; [apply Hpost1; exact Hin|].
                 intros e He' Hd Hp. apply asources_below in Hin as [Hp' _].
                 apply Hni. apply in_map_iff. exists e. split; [|exact He'].
                 eapply is_prefix_snoc_inj; eassumption.
              ** apply Hpost2. exact Hin.
           ++ intros src Hsrc. rewrite Hframe2.
              ** apply Hframe1. apply (Hsrc (SDir dn drn des)); [left; reflexivity | reflexivity].
              ** intros e He' Hd. apply Hsrc; [right; exact He' | exact Hd].
        -- rewrite IHr. reflexivity.
      * rewrite He. reflexivity.
Qed.

Theorem dir_pass sv j : sv_ok sv j -> forall t, pass_prop sv j t.
Proof.
  intro Hsv. induction t as [n d|n|n rn es IHes] using stree_ind'; unfold pass_prop; intros Hu dp P is_root h Hpre.
  - reflexivity.
  - reflexivity.
  - apply uniq_names_dir in Hu as [Hnd Hue].
    rewrite pure_dir_eq, from_directory_eq. rewrite asources_eq in Hpre.
    assert (Hsrc_eq := asources_eq n rn es dp P is_root).
    destruct (enumerate E dp rn es) as [l|e] eqn:Hen; [|reflexivity]. cbn [bind]. cbv zeta in *.
    set (mes := dir_mes P dp (l_title l) is_root) in *.
    change (dir_me sv (P sv) dp (l_title l) is_root) with (mes sv).
    assert (Hpre_s : forall src data mes', In (src, data, mes') (asubs (fun e p => asources E e p mes false) dp es) ->
              heap_get src h = expected E mes' src data j).
    { intros. apply Hpre. apply in_or_app. left. assumption. }
    pose proof (subs_pass sv j dp mes es IHes Hnd Hue h Hpre_s) as Hs.
    destruct (psubs (fun e p => pure_dir E j sv e p mes false) dp es) as [cs|er]; cbn [bind].
    + destruct Hs as (h1 & Hm1 & Hpost1 & Hframe1). rewrite Hm1. cbn [bind].
      pose proof (enumerate_recipes _ _ _ _ Hen) as Hrs.
      assert (Hnd_r : NoDup (map fst (l_recipes l))) by (rewrite Hrs; apply dir_recipes_nodup; exact Hnd).
      assert (Hown_frame : forall name data, In (name, data) (l_recipes l) ->
                forall e, In e es -> is_sdir e = true -> ~ is_prefix (dp ++ [sname e]) (dp ++ [name])).
      { intros name data Hin e He Hd Hp. apply is_prefix_snoc_self in Hp.
        rewrite Hrs in Hin. apply dir_recipes_names in Hin as (e' & He' & Hn' & Hd').
        assert (e = e') by (eapply NoDup_map_inj; [exact Hnd | exact He | exact He' | congruence]).
        subst e'. congruence. }
      assert (Hpre_r : forall name data, In (name, data) (l_recipes l) ->
                heap_get (dp ++ [name]) h1 = expected E mes (dp ++ [name]) data j).
      { intros name data Hin. rewrite Hframe1; [|eapply Hown_frame; exact Hin].
        apply Hpre. apply in_or_app. right. apply in_map_iff. exists (name, data). auto. }
      pose proof (recipes_pass sv j dp mes Hsv (l_recipes l) h1 Hnd_r Hpre_r) as Hr.
      destruct (pure_refs sv j dp mes (l_recipes l)) as [refs|er]; cbn [bind].
      * destruct Hr as (h2 & Hm2 & Hpost2 & Hframe2). exists h2. rewrite Hm2. cbn [bind].
        split; [reflexivity|]. split.
        -- intros src data mes' Hin. rewrite Hsrc_eq in Hin. apply in_app_or in Hin as [Hin|Hin].
           ++ rewrite Hframe2; [apply Hpost1; exact Hin|].
              intros name Hname Heq. subst src.
              clear - Hin. induction es as [|e r IHr]; [contradiction|].
              destruct e as [fn fd|bn|dn drn des]; cbn [asubs] in Hin; try (apply IHr; exact Hin).
              apply in_app_or in Hin as [Hin|Hin]; [|apply IHr; exact Hin].
              apply asources_below in Hin as [Hp Hne]. apply is_prefix_snoc_self in Hp. subst. apply Hne. reflexivity.
           ++ apply in_map_iff in Hin as [[name0 data0] [Heq Hin]]. inversion Heq; subst.
              apply Hpost2. exact Hin.
        -- intros src Hsrc. rewrite Hframe2.
           ++ apply Hframe1. intros e He Hd Hp. apply Hsrc. eapply is_prefix_trans; [apply is_prefix_app | exact Hp].
           ++ intros name Hname Heq. apply Hsrc. subst src. apply is_prefix_app.
      * rewrite Hr. reflexivity.
    + rewrite Hs. reflexivity.
Qed.

(** ** All passes *)

Lemma scaled_loop t root (hc : chain) : uniq_names t -> forall count j h,
  (forall src data mes, In (src, data, mes) (asources E t root (fun _ => hc) true) ->
     heap_get src h = expected E mes src data j) ->
  match pure_scaled E t root (fun _ => hc) j count with
  | Ok cs =>
      exists h', build_scaled E t root hc (N_seq (N.of_nat (S j)) count) h = Ok (cs, h') /\
        (forall src data mes, In (src, data, mes) (asources E t root (fun _ => hc) true) ->
           heap_get src h' = expected E mes src data (j + count))
  | Err e => build_scaled E t root hc (N_seq (N.of_nat (S j)) count) h = Err e
  end.
Proof.
  intro Hu. induction count as [|k IH]; intros j h Hpre.
  - simpl. exists h. split; [reflexivity|]. intros. rewrite Nat.add_0_r. apply Hpre. assumption.
  - cbn [pure_scaled N_seq build_scaled].
    pose proof (dir_pass (Some (N.of_nat (S j))) j eq_refl t Hu root (fun _ => hc) true h Hpre) as Hd.
    cbv beta in Hd.
    destruct (pure_dir E j (Some (N.of_nat (S j))) t root (fun _ => hc) true) as [c|e]; cbn [bind].
    + destruct Hd as (h1 & Hm1 & Hpost1 & _). rewrite Hm1. cbn [bind].
      replace (N.of_nat (S j) + 1) with (N.of_nat (S (S j))) by lia.
      specialize (IH (S j) h1 Hpost1).
      destruct (pure_scaled E t root (fun _ => hc) (S j) k) as [cs|e]; cbn [bind].
      * destruct IH as (h2 & Hm2 & Hpost2). exists h2. rewrite Hm2. cbn [bind]. split; [reflexivity|].
        intros. replace (j + S k)%nat with (S j + k)%nat by lia. apply Hpost2. assumption.
      * rewrite IH. reflexivity.
    + rewrite Hd. reflexivity.
Qed.

(** The stateful construction returns what the map-free one returns, and leaves the closed
    form in the map. *)
Theorem from_root_directory_pure t root M : uniq_names t ->
  match pure_root E t root M with
  | Ok hm => exists h, from_root_directory E t root M = Ok (hm, h) /\ final_heap_ok E t root M h
  | Err e => from_root_directory E t root M = Err e
  end.
Proof.
  intro Hu. unfold pure_root, from_root_directory, final_heap_ok.
  destruct t as [n d|n|n rn es]; try reflexivity.
  destruct (enumerate E root rn es) as [l|e] eqn:Hen; [|reflexivity]. cbn [bind].
  set (hc := [(l_title l, home_path)]).
  pose proof (scaled_loop (SDir n rn es) root hc Hu (N.to_nat M) 0 []) as Hs.
  assert (Hpre0 : forall src data mes, In (src, data, mes) (asources E (SDir n rn es) root (fun _ => hc) true) ->
            heap_get src [] = expected E mes src data 0) by reflexivity.
  specialize (Hs Hpre0). change (N.of_nat 1) with 1 in Hs.
  destruct (pure_scaled E (SDir n rn es) root (fun _ => hc) 0 (N.to_nat M)) as [sc|e]; cbn [bind].
  - destruct Hs as (h1 & Hm1 & Hpost1). rewrite Hm1. cbn [bind]. simpl Nat.add in Hpost1.
    pose proof (dir_pass None (N.to_nat M) I (SDir n rn es) Hu root (fun _ => hc) true h1 Hpost1) as Hd.
    cbv beta in Hd.
    destruct (pure_dir E (N.to_nat M) None (SDir n rn es) root (fun _ => hc) true) as [un|e]; cbn [bind].
    + destruct Hd as (h2 & Hm2 & Hpost2 & _). exists h2. rewrite Hm2. cbn [bind]. split; [reflexivity|].
      exact Hpost2.
    + rewrite Hd. reflexivity.
  - rewrite Hs. reflexivity.
Qed.

End Build.

(** ** [recipe_pages] only ever gets entries for recipe sources *)

Section Keys.
Variable E : env.

Lemma model_recipes_frame sv dp me : forall rs h refs h',
  model_recipes E sv dp me rs h = Ok (refs, h') ->
  forall src, (forall name, In name (map fst rs) -> src <> dp ++ [name]) -> heap_get src h' = heap_get src h.
Proof.
  induction rs as [|[name data] rs IH]; intros h refs h' H src Hsrc.
  - destruct sv; simpl in H; inversion H; reflexivity.
  - destruct sv as [n|]; unfold model_recipes in *.
    + cbn [add_scaled_recipes] in H.
      destruct (from_recipe_source E n (dp ++ [name]) data me _) as [[ref o]|e]; [|discriminate]. cbn [bind] in H.
      destruct (add_scaled_recipes E n dp me rs _) as [[refs0 h0]|e] eqn:Hr; [|discriminate]. cbn [bind] in H.
      inversion H; subst. rewrite (IH _ _ _ Hr src).
      * apply heap_get_set_other. intro Heq. apply (Hsrc name); [left; reflexivity | congruence].
      * intros nm Hnm. apply Hsrc. right. exact Hnm.
    + cbn [add_unscaled_recipes] in H.
      destruct (unscaled_lookup (heap_get (dp ++ [name]) h)) as [[[m native] p]|e]; [|discriminate]. cbn [bind] in H.
      match type of H with bind (add_unscaled_recipes dp me rs ?h1) _ = _ =>
        destruct (add_unscaled_recipes dp me rs h1) as [[refs0 h0]|e] eqn:Hr end; [|discriminate].
      cbn [bind] in H. inversion H; subst. rewrite (IH _ _ _ Hr src).
      * destruct native; [reflexivity|]. apply heap_get_set_other. intro Heq. apply (Hsrc name); [left; reflexivity | congruence].
      * intros nm Hnm. apply Hsrc. right. exact Hnm.
Qed.

Definition not_source (t : stree) (dp : path) (P : chains) (is_root : bool) (src : path) : Prop :=
  forall data mes, ~ In (src, data, mes) (asources E t dp P is_root).

Lemma from_directory_frame : forall t sv dp P is_root h c h',
  from_directory E sv t dp (P sv) is_root h = Ok (c, h') ->
  forall src, not_source t dp P is_root src -> heap_get src h' = heap_get src h.
Proof.
  induction t as [n d|n|n rn es IHes] using stree_ind'; intros sv dp P is_root h c h' H src Hns; try discriminate.
  rewrite from_directory_eq in H. unfold not_source in Hns. rewrite asources_eq in Hns.
  destruct (enumerate E dp rn es) as [l|e] eqn:Hen; [|discriminate]. cbn [bind] in H. cbv zeta in *.
  set (mes := dir_mes P dp (l_title l) is_root) in *.
  change (dir_me sv (P sv) dp (l_title l) is_root) with (mes sv) in H.
  destruct (msubs (fun e p h0 => from_directory E sv e p (mes sv) false h0) dp es h) as [[cs h1]|e] eqn:Hs; [|discriminate].
  cbn [bind] in H. destruct (model_recipes E sv dp (mes sv) (l_recipes l) h1) as [[refs h2]|e] eqn:Hr; [|discriminate].
  cbn [bind] in H. inversion H; subst c h'. clear H.
  rewrite (model_recipes_frame _ _ _ _ _ _ _ Hr src).
  - (* sub-directories *)
    assert (Hsub : forall data mes', ~ In (src, data, mes') (asubs (fun e p => asources E e p mes false) dp es)).
    { intros data mes' Hin. apply (Hns data mes'). apply in_or_app. left. exact Hin. }
    clear - IHes Hs Hsub. revert h cs h1 Hs. induction IHes as [|e r He Hr IHr]; intros h cs h1 Hs.
    + simpl in Hs. inversion Hs. reflexivity.
    + destruct e as [fn fd|bn|dn drn des]; cbn [msubs asubs] in *; try (eapply IHr; eassumption).
      destruct (from_directory E sv (SDir dn drn des) (dp ++ [dn]) (mes sv) false h) as [[c0 h0]|e] eqn:Hf; [|discriminate].
      cbn [bind] in Hs. destruct (msubs _ dp r h0) as [[cs0 h3]|e] eqn:Hm; [|discriminate]. cbn [bind] in Hs.
      inversion Hs; subst. rewrite (IHr (fun data mes' Hin => Hsub data mes' (in_or_app _ _ _ (or_intror Hin))) _ _ _ Hm).
      apply (He sv (dp ++ [dn]) mes false h c0 h0 Hf). intros data mes' Hin. apply (Hsub data mes'). apply in_or_app. left. exact Hin.
  - intros name Hname Heq. apply in_map_iff in Hname as ([nm dt] & Hnm & Hin). simpl in Hnm. subst nm.
    apply (Hns dt mes). apply in_or_app. right. apply in_map_iff. exists (name, dt). split; [rewrite Heq; reflexivity | exact Hin].
Qed.

Theorem from_root_directory_keys t root M hm h :
  from_root_directory E t root M = Ok (hm, h) ->
  forall src, not_source t root (fun _ => [(h_title hm, home_path)]) true src -> heap_get src h = None.
Proof.
  unfold from_root_directory. destruct t as [n d|n|n rn es]; try discriminate.
  destruct (enumerate E root rn es) as [l|e]; [|discriminate]. cbn [bind].
  set (hc := [(l_title l, home_path)]).
  assert (Hloop : forall ns h0 sc h1, build_scaled E (SDir n rn es) root hc ns h0 = Ok (sc, h1) ->
            forall src, not_source (SDir n rn es) root (fun _ => hc) true src -> heap_get src h1 = heap_get src h0).
  { induction ns as [|k ns IH]; intros h0 sc h1 H src Hns; cbn [build_scaled] in H.
    - inversion H. reflexivity.
    - destruct (from_directory E (Some k) (SDir n rn es) root hc true h0) as [[c0 h2]|e] eqn:Hf; [|discriminate].
      cbn [bind] in H. destruct (build_scaled E (SDir n rn es) root hc ns h2) as [[cs h3]|e] eqn:Hb; [|discriminate].
      cbn [bind] in H. inversion H; subst. rewrite (IH _ _ _ Hb src Hns).
      apply (from_directory_frame (SDir n rn es) (Some k) root (fun _ => hc) true h0 c0 h2 Hf src Hns). }
  destruct (build_scaled E (SDir n rn es) root hc (N_seq 1 (N.to_nat M)) []) as [[sc h1]|e] eqn:Hb; [|discriminate].
  cbn [bind]. destruct (from_directory E None (SDir n rn es) root hc true h1) as [[un h2]|e] eqn:Hf; [|discriminate].
  cbn [bind]. intro H. inversion H; subst hm h. cbn [h_title]. intros src Hns.
  rewrite (from_directory_frame (SDir n rn es) None root (fun _ => hc) true h1 un h2 Hf src Hns).
  rewrite (Hloop _ _ _ _ Hb src Hns). reflexivity.
Qed.

End Keys.
