(** * The compile cache never changes what the generator returns (C17).

    Invariant: every cached value is [compile] of its key.  Under it the generator with the
    cache threaded through returns exactly what the cache-free generator returns, and leaves
    a cache that satisfies the invariant - whatever was compiled before, whether or not the
    run raised, and however entries were evicted. *)
From Coq Require Import List NArith Bool Arith Lia String.
From RG Require Import Base.Str Base.Dec Model.Url Model.Href Model.Fs Model.Site Proofs.FsTree.
Import ListNotations.
Open Scope list_scope.
Open Scope N_scope.

Definition cache_ok (compile : bytes -> cres) (c : cache) : Prop :=
  forall k v, In (k, v) c -> v = compile k.

Lemma cache_ok_nil compile : cache_ok compile [].
Proof. intros k v []. Qed.

Lemma bytes_eqb_eq a b : list_eqb N.eqb a b = true <-> a = b.
Proof. apply list_eqb_spec. intros; apply N.eqb_eq. Qed.

Lemma cache_find_ok compile k : forall c v rest,
  cache_ok compile c -> cache_find k c = Some (v, rest) -> v = compile k /\ cache_ok compile rest.
Proof.
  induction c as [|[k' v'] c IH]; intros v rest Hok Hf; simpl in Hf; [discriminate|].
  destruct (list_eqb N.eqb k k') eqn:Ek.
  - apply bytes_eqb_eq in Ek. subst k'. inversion Hf; subst. split.
    + apply Hok. left. reflexivity.
    + intros a b Hin. apply Hok. right. exact Hin.
  - destruct (cache_find k c) as [[v'' r'']|] eqn:Ef; [|discriminate].
    inversion Hf; subst.
    destruct (IH v r'') as [Hv Hr]; [intros a b Hin; apply Hok; right; exact Hin | reflexivity |].
    split; [exact Hv|].
    intros a b [Hin|Hin].
    + inversion Hin; subst. apply Hok. left. reflexivity.
    + apply Hr. exact Hin.
Qed.

Lemma firstn_In' {A} (n : nat) (l : list A) x : In x (firstn n l) -> In x l.
Proof.
  revert l. induction n; intros l H; simpl in H; [contradiction|].
  destruct l; simpl in H; [contradiction|]. destruct H; [left | right]; auto.
Qed.

(** The heart: a hit returns [compile k]; a miss computes it; both keep the invariant. *)
Lemma cached_compile_ok compile c k :
  cache_ok compile c ->
  fst (cached_compile compile c k) = compile k /\ cache_ok compile (snd (cached_compile compile c k)).
Proof.
  intro Hok. unfold cached_compile.
  destruct (cache_find k c) as [[v rest]|] eqn:Ef.
  - destruct (cache_find_ok _ _ _ _ _ Hok Ef) as [Hv Hr]. simpl. split; [exact Hv|].
    intros a b [Hin|Hin]; [inversion Hin; subst; reflexivity | apply Hr; exact Hin].
  - cbn [fst snd]. split; [reflexivity|].
    intros a b Hin. apply firstn_In' in Hin. destruct Hin as [Hin|Hin].
    + inversion Hin; subst. reflexivity.
    + apply Hok. exact Hin.
Qed.

Section Cache.
Variable E : env.
Notation ok := (cache_ok (e_compile E)).

(** [x] run with cache [c] is the cache-free [y], and the cache stays consistent. *)
Definition same {A} (x : st A) (y : outcome A) : Prop := fst x = y /\ ok (snd x).

Lemma same_bind {A B} (x : st A) (y : outcome A) (f : A -> cache -> st B) (g : A -> outcome B) :
  same x y -> (forall a c, ok c -> same (f a c) (g a)) -> same (bind_st x f) (bind y g).
Proof.
  intros [Hx Hc] Hf. destruct x as [[a|e] c]; simpl in *; subst y; simpl.
  - apply Hf. exact Hc.
  - split; [reflexivity | exact Hc].
Qed.

Lemma same_ret {A} (y : outcome A) c : ok c -> same (y, c) y.
Proof. intro H. split; [reflexivity | exact H]. Qed.

Lemma compile_recipe_st_same c data rt rs :
  ok c -> same (compile_recipe_st E c data rt rs) (compile_recipe E data rt rs).
Proof.
  intro Hok. unfold compile_recipe_st, compile_recipe. destruct data as [d|]; [|apply same_ret; exact Hok].
  destruct (cached_compile_ok (e_compile E) c d Hok) as [Hv Hc].
  destruct (cached_compile (e_compile E) c d) as [r c'] eqn:Ec. simpl in *. subst r.
  split; [reflexivity | exact Hc].
Qed.

Lemma from_recipe_source_st_same c n src data parent other :
  ok c -> same (from_recipe_source_st E c n src data parent other) (from_recipe_source E n src data parent other).
Proof.
  intro Hok. unfold from_recipe_source_st, from_recipe_source.
  apply same_bind; [apply compile_recipe_st_same; exact Hok|].
  intros doc c' Hc'. apply same_ret. exact Hc'.
Qed.

Lemma add_scaled_recipes_st_same n dirpath parent : forall rs c h,
  ok c -> same (add_scaled_recipes_st E c n dirpath parent rs h) (add_scaled_recipes E n dirpath parent rs h).
Proof.
  induction rs as [|[name data] rs IH]; intros c h Hok; simpl.
  - apply same_ret. exact Hok.
  - apply same_bind; [apply from_recipe_source_st_same; exact Hok|].
    intros [ref other'] c1 Hc1. apply same_bind; [apply IH; exact Hc1|].
    intros [refs h'] c2 Hc2. apply same_ret. exact Hc2.
Qed.

Lemma from_directory_st_same : forall t c servings dirpath parent is_root h,
  ok c -> same (from_directory_st E c servings t dirpath parent is_root h)
               (from_directory E servings t dirpath parent is_root h).
Proof.
  induction t as [n d|n|n rn es IHes] using stree_ind'; intros c servings dirpath parent is_root h Hok.
  - apply same_ret. exact Hok.
  - apply same_ret. exact Hok.
  - cbn [from_directory_st from_directory].
    unfold bind at 1.
    destruct (enumerate E dirpath rn es) as [l|e]; [|apply same_ret; exact Hok].
    set (title := if is_root then _ else _).
    set (cpath := href_parent _ ++ _).
    set (me := parent ++ _).
    apply same_bind.
    + revert c h Hok. induction IHes as [|e r He Hr IHr]; intros c h Hok.
      * apply same_ret. exact Hok.
      * destruct e as [fn fd|bn|dn drn des].
        -- apply IHr. exact Hok.
        -- apply IHr. exact Hok.
        -- apply same_bind; [apply He; exact Hok|].
           intros [cp h1] c1 Hc1. apply same_bind; [apply IHr; exact Hc1|].
           intros [cs h2] c2 Hc2. apply same_ret. exact Hc2.
    + intros [cs h1] c1 Hc1. apply same_bind.
      * destruct servings as [k|]; [apply add_scaled_recipes_st_same; exact Hc1 | apply same_ret; exact Hc1].
      * intros [refs h2] c2 Hc2. apply same_ret. exact Hc2.
Qed.

Lemma build_scaled_st_same t root hc : forall ns c h,
  ok c -> same (build_scaled_st E c t root hc ns h) (build_scaled E t root hc ns h).
Proof.
  induction ns as [|n ns IH]; intros c h Hok; simpl.
  - apply same_ret. exact Hok.
  - apply same_bind; [apply from_directory_st_same; exact Hok|].
    intros [cp h1] c1 Hc1. apply same_bind; [apply IH; exact Hc1|].
    intros [cs h2] c2 Hc2. apply same_ret. exact Hc2.
Qed.

Lemma from_root_directory_st_same t root M c :
  ok c -> same (from_root_directory_st E c t root M) (from_root_directory E t root M).
Proof.
  intro Hok. unfold from_root_directory_st, from_root_directory.
  destruct t as [n d|n|n rn es]; try (apply same_ret; exact Hok).
  unfold bind at 1. destruct (enumerate E root rn es) as [l|e]; [|apply same_ret; exact Hok].
  apply same_bind; [apply build_scaled_st_same; exact Hok|].
  intros [sc h1] c1 Hc1. apply same_bind; [apply from_directory_st_same; exact Hc1|].
  intros [un h2] c2 Hc2. apply same_ret. exact Hc2.
Qed.

Theorem generate_static_site_st_same fs input M c :
  ok c -> same (generate_static_site_st E c fs input M) (generate_static_site E fs input M).
Proof.
  intro Hok. unfold generate_static_site_st, generate_static_site.
  destruct (realpath fs input) as [root| | |]; try (apply same_ret; exact Hok).
  destruct (view_root fs root) as [t|]; [|apply same_ret; exact Hok].
  apply same_bind; [apply from_root_directory_st_same; exact Hok|].
  intros [hm h] c' Hc'. apply same_ret. exact Hc'.
Qed.

Theorem generate_standalone_page_st_same fs input scale servings embed c :
  ok c -> same (generate_standalone_page_st E c fs input scale servings embed)
               (generate_standalone_page E fs input scale servings embed).
Proof.
  intro Hok. unfold generate_standalone_page_st, generate_standalone_page.
  apply same_bind; [apply compile_recipe_st_same; exact Hok|].
  intros doc c' Hc'. apply same_ret. exact Hc'.
Qed.

(** Any history, from any consistent cache: every generation returns what a fresh process
    would return for the file system as it is at that moment. *)
Theorem run_history_fresh_eq : forall h c fs,
  ok c -> run_history E c fs h = run_history_fresh E fs h.
Proof.
  induction h as [|st h IH]; intros c fs Hok; [reflexivity|].
  destruct st as [p data|input M|input scale servings embed]; simpl.
  - apply IH. exact Hok.
  - destruct (generate_static_site_st_same fs input M c Hok) as [Hv Hc].
    destruct (generate_static_site_st E c fs input M) as [o c']. simpl in *. subst o.
    f_equal. apply IH. exact Hc.
  - destruct (generate_standalone_page_st_same fs input scale servings embed c Hok) as [Hv Hc].
    destruct (generate_standalone_page_st E c fs input scale servings embed) as [o c']. simpl in *. subst o.
    f_equal. apply IH. exact Hc.
Qed.

End Cache.
