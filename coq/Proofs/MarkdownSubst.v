(** * [MarkdownRecipe.render] is the list of substitutions [subs_of] applied in order. *)
From Coq Require Import List ZArith NArith Bool Arith Lia.
From RG Require Import Base.Str Base.Num Model.Recipe Model.Brace Model.Markdown Spec.MarkdownSpec.
Import ListNotations.

Section Subst.
  Variable render_block : num -> str -> list node -> list str.

  Lemma apply_subs_app a b h : apply_subs (a ++ b) h = apply_subs b (apply_subs a h).
  Proof. unfold apply_subs. apply fold_left_app. Qed.

  Lemma subst_svs_subs k : forall l h,
    subst_svs k l h = (a <- subs_svs k l ;; MOk (apply_subs a h)).
  Proof.
    induction l as [|[ph v] l IH]; intros h; [reflexivity|].
    cbn [subst_svs subs_svs]. unfold spec_value.
    destruct (svs_scale k v) as [v'|]; [|reflexivity].
    destruct (render_svs v') as [x|]; [|reflexivity].
    cbn [mbind]. rewrite IH. destruct (subs_svs k l) as [a|e]; reflexivity.
  Qed.

  Lemma subst_recipes_subs k : forall l idx h,
    subst_recipes render_block k idx l h = apply_subs (subs_recipes render_block k idx l) h.
  Proof.
    induction l as [|[ph [first trees]] l IH]; intros idx h; [reflexivity|].
    cbn [subst_recipes subs_recipes]. rewrite IH. reflexivity.
  Qed.

  Lemma subst_header_subs k m h :
    subst_header k m h = (c <- subs_header k m ;; MOk (apply_subs c h)).
  Proof.
    unfold subst_header, subs_header.
    destruct (o_title m); [|reflexivity].
    destruct (o_pre m) as [pre|]; [|reflexivity].
    destruct (o_post m) as [post|]; [|reflexivity].
    destruct (header_note k (o_serv m)) as [note|e]; reflexivity.
  Qed.

  Theorem md_render_compiled_subs k m :
    md_render_compiled render_block k m =
    (subs <- subs_of render_block k m ;; MOk (apply_subs subs (o_html m))).
  Proof.
    unfold md_render_compiled, subs_of.
    rewrite subst_svs_subs.
    destruct (subs_svs k (o_svs m)) as [a|e]; [|reflexivity]. cbn [mbind].
    rewrite subst_header_subs, subst_recipes_subs.
    destruct (subs_header k m) as [c|e]; [|reflexivity]. cbn [mbind].
    rewrite !apply_subs_app. reflexivity.
  Qed.
End Subst.
