(** * Consequences of the round trip: shorthand vs nested steps, trailing commas,
    whitespace choices (C06, quoted family). *)
From Coq Require Import List ZArith NArith Bool Lia Arith String.
From RG Require Import Base.Str Base.Dec Base.Num Gen.GenUnits Model.Recipe Model.Compiler Model.Parser Model.Printer
  Proofs.DecLemmas Proofs.ParserLex Proofs.ParserName Proofs.ParserAmount Proofs.ParserExpr Proofs.ParserTree
  Proofs.ParserStmt Proofs.ParserFuel.
Import ListNotations.
Open Scope list_scope.
Open Scope N_scope.

(** The abstract syntax of an expression does not depend on where it stands,
    except for the offsets. *)
Lemma strip_value_expr : forall h e, (height e <= h)%nat -> forall o o',
  strip_expr (value_expr e o) = strip_expr (value_expr e o').
Proof.
  induction h as [|h IH]; intros e Hh o o'.
  - destruct e; cbn [height] in Hh; lia.
  - destruct e as [[[am w]|] nm | nm w s0 first more trail s1 | s0 e acts s1]; cbn [height] in Hh.
    + reflexivity.
    + reflexivity.
    + rewrite !value_expr_step. cbv zeta. cbn [strip_expr map]. f_equal. f_equal.
      * apply IH. pose proof (height_first more first). lia.
      * assert (G : forall p, In p more -> (height (snd p) <= h)%nat)
          by (intros p Hp; pose proof (height_in more first p Hp); lia).
        clear Hh. generalize (o + len (print_name nm) + len w + 1 + len s0 + len (print_expr first)).
        generalize (o' + len (print_name nm) + len w + 1 + len s0 + len (print_expr first)).
        induction more as [|p more IHm]; intros a b; [reflexivity|]. cbn [value_args map]. f_equal.
        -- apply IH, G. left; reflexivity.
        -- apply IHm. intros q Hq. apply G. right; exact Hq.
    + cbn [value_expr]. unfold fold_acts.
      assert (F : forall (acts0 : list (str * str * name)) a b, strip_expr a = strip_expr b ->
                  strip_expr (fold_left (fun a0 p => AStep (name_val (snd p)) [a0]) acts0 a)
                  = strip_expr (fold_left (fun a0 p => AStep (name_val (snd p)) [a0]) acts0 b)).
      { intro l. induction l as [|p l IHa]; intros a b Hab; [exact Hab|]. cbn [fold_left]. apply IHa.
        cbn [strip_expr map]. rewrite Hab. reflexivity. }
      apply F. apply IH. lia.
Qed.

Lemma strip_fold_acts acc acts :
  strip_expr (fold_acts acc acts) = fold_acts (strip_expr acc) acts.
Proof.
  unfold fold_acts. revert acc. induction acts as [|p acts IH]; intro acc; [reflexivity|].
  cbn [fold_left]. rewrite IH. reflexivity.
Qed.

(** ** Shorthand: [e, f, g] and [g(f(e))] are the same description. *)
Definition short_form (e : pexpr) (w1 w2 : str) (f : name) (w3 w4 : str) (g : name) (eol : str * option (N * str)) : pstmt :=
  mkPS None e [(w1, w2, f); (w3, w4, g)] eol.
Definition nested_form (e : pexpr) (f g : name) (wf s0 s1 wg s2 s3 : str) (eol : str * option (N * str)) : pstmt :=
  mkPS None (XStep g wg s2 (XStep f wf s0 e [] None s1) [] None s3) [] eol.

Theorem shorthand_equiv e w1 w2 f w3 w4 g wf s0 s1 wg s2 s3 eol lead :
  recipe_ok (mkPR lead [short_form e w1 w2 f w3 w4 g eol]) = true ->
  recipe_ok (mkPR lead [nested_form e f g wf s0 s1 wg s2 s3 eol]) = true ->
  exists a1 a2,
    parse (print_recipe (mkPR lead [short_form e w1 w2 f w3 w4 g eol])) = POk a1 /\
    parse (print_recipe (mkPR lead [nested_form e f g wf s0 s1 wg s2 s3 eol])) = POk a2 /\
    strip_offsets a1 = strip_offsets a2.
Proof.
  intros H1 H2. eexists. eexists. split; [exact (recipe_roundtrip _ H1)|]. split; [exact (recipe_roundtrip _ H2)|].
  unfold value_recipe, short_form, nested_form. cbn [pr_stmts pr_lead value_stmts strip_offsets map].
  unfold value_stmt, strip_stmt. cbn [ps_first_out ps_expr ps_acts st_outs st_named st_expr map].
  f_equal. f_equal. rewrite !strip_fold_acts. cbn [fold_acts fold_left snd].
  rewrite !value_expr_step. cbv zeta. cbn [value_args strip_expr map]. rewrite !value_expr_step. cbv zeta.
  cbn [value_args strip_expr map]. do 4 f_equal.
  apply (strip_value_expr (height e) e (le_n _)).
Qed.

(** ** A trailing comma inside a step's parentheses changes nothing at all
    (not even an offset of the step itself). *)
Theorem trailing_comma nm w s0 first more st s1 (k : str) fuel o b :
  expr_ok (XStep nm w s0 first more (Some st) s1) = true -> expr_followb k = true ->
  (cost (XStep nm w s0 first more None s1) <= fuel)%nat ->
  exists v k1 k2,
    p_expr fuel (mkSt (print_expr (XStep nm w s0 first more (Some st) s1) ++ k) o b) = Got v k1 /\
    p_expr fuel (mkSt (print_expr (XStep nm w s0 first more None s1) ++ k) o b) = Got v k2 /\
    rest k1 = k /\ rest k2 = k.
Proof.
  intros Hok Hk Hc.
  assert (Hok' : expr_ok (XStep nm w s0 first more None s1) = true).
  { cbn [expr_ok] in *. apply andb_true_iff in Hok as [Hok Hs1]. apply andb_true_iff in Hok as [Hok _].
    rewrite Hok, Hs1. reflexivity. }
  eexists. eexists. eexists. split; [|split; [|split]].
  - exact (expr_roundtrip _ _ (le_n _) fuel k o b Hok Hk Hc).
  - exact (expr_roundtrip _ _ (le_n _) fuel k o b Hok' Hk Hc).
  - reflexivity.
  - reflexivity.
Qed.

(** ** Any two spellings with the same abstract syntax (up to offsets) parse alike. *)
Theorem same_description r1 r2 :
  recipe_ok r1 = true -> recipe_ok r2 = true ->
  strip_offsets (value_recipe r1) = strip_offsets (value_recipe r2) ->
  exists a1 a2, parse (print_recipe r1) = POk a1 /\ parse (print_recipe r2) = POk a2
                /\ strip_offsets a1 = strip_offsets a2.
Proof.
  intros H1 H2 E. exists (value_recipe r1), (value_recipe r2).
  split; [exact (recipe_roundtrip r1 H1)|]. split; [exact (recipe_roundtrip r2 H2) | exact E].
Qed.
