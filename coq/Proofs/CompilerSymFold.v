(** * Symbolic compilation, part 6: the folding turn preserves the simulation. *)
From Coq Require Import List ZArith NArith Bool Lia Permutation.
From RG Require Import Base.Str Base.Num Model.Recipe Model.Compiler Spec.Valid Spec.CompileSpec Spec.CompileSym
  Proofs.RecipeInd Proofs.NodeEqv Proofs.RecipeValid Proofs.CompilerExpand
  Proofs.CompilerInvSize Proofs.CompilerInvNames Proofs.CompilerInvDefs Proofs.CompilerInvSub
  Proofs.CompilerInvPass1 Proofs.CompilerInvPass2 Proofs.CompilerSymDefs Proofs.CompilerSymCount
  Proofs.CompilerSymPass1 Proofs.CompilerSymCore Proofs.CompilerSymStep Proofs.CompilerSymConserve.
Import ListNotations.
Local Open Scope nat_scope.

Section FoldCase.
  Variable lower : str -> str.
  Notation norm := (normalise_output_name lower).
  Variables (i : nat) (bs : list (list node)) (t : table) (F : forest) (e : entry).
  Variables (body : node) (nm : svs) (sh : bool) (amt : amount) (body_s : sym).
  Variables (pre post : list node) (rpre rpost : list sroot).
  Let D := SubRecipe body [nm] sh.
  Let r := Reference D 0 amt.
  Let new := if e_unwrap e then body else D.
  Let new_s := if e_unwrap e then body_s else YSub body_s [nm] sh.
  Let sg := substitute r new.
  Let k := e_key e.
  Let rootD := mkRoot (YSub body_s [nm] sh) (e_unwrap e).
  Let d := e_def_block e.
  Hypothesis I : Inv2 lower i bs t.
  Hypothesis HS : forall j ej, nth_error t j = Some ej -> i <= j -> Single ej (concat bs).
  Hypothesis HU : Uniq lower (concat bs).
  Hypothesis Hi : nth_error t i = Some e.
  Hypothesis HR : SymR lower i bs t F.
  Hypothesis Hsub : e_sub e = D.
  Hypothesis Hrefs : e_refs e = [(r, d)].
  Hypothesis Hnb : nth_error bs d = Some (pre ++ D :: post).
  Hypothesis HnF : nth_error F d = Some (rpre ++ rootD :: rpost).
  Hypothesis HDm : EmbG lower bs rootD D.
  Hypothesis Hkeep : keepF lower e F bs = firstn d bs ++ (pre ++ post) :: skipn (S d) bs.
  Hypothesis Huniq : forall rt, In rt (concat F) -> defines lower k rt = true -> rt = rootD.

  Lemma folded_eq : folded lower F e rootD = map (froots lower e nm sh (e_unwrap e) body_s) F.
  Proof. reflexivity. Qed.

  Lemma fold_R1 : sym_embed lower (folded lower F e rootD) = (map (map sg) (firstn d bs ++ (pre ++ post) :: skipn (S d) bs), true).
  Proof.
    rewrite folded_eq, <- Hkeep. unfold sym_embed.
    apply (core_forest lower i bs t e body nm sh amt d (e_unwrap e) body_s I Hi Hsub Hrefs HU F [] [] bs).
    - exact (proj1 HR).
    - auto.
    - intros rt Hrt Hdef. rewrite (Huniq rt Hrt Hdef). reflexivity.
    - split; [intros q X H; discriminate|]. split; [intros q X H; discriminate|]. intro H. exfalso. apply H. reflexivity.
  Qed.

  Hypothesis Hfilter : map (filter (fun rt => negb (defines lower k rt))) F =
                       firstn d F ++ (rpre ++ rpost) :: skipn (S d) F.
  Let F1 := firstn d F ++ (rpre ++ rpost) :: skipn (S d) F.

  Lemma folded_F1 : folded lower F e rootD = map (map (groot k new_s)) F1.
  Proof.
    unfold F1. rewrite <- Hfilter, map_map. reflexivity.
  Qed.

  Lemma rootD_no_use : y_count k (r_tree rootD) = 0.
  Proof.
    destruct (y_count k (r_tree rootD)) eqn:E; [reflexivity|exfalso].
    destruct (y_count_pos_occ k (r_tree rootD)) as (q & i0 & a & Ho & Hq); [lia|].
    pose proof (occ_ref_to_D lower i bs t e I Hi rootD D q i0 a HDm) as H.
    rewrite Hsub in H. eapply inside_ref_not_self. apply H; auto.
    apply in_concat. exists (pre ++ D :: post). split; [eapply nth_error_In; eauto | apply in_elt].
  Qed.

  Lemma total_k : count_in k (concat F) = 1.
  Proof.
    destruct HR as (_ & R2 & _). destruct (R2 i e Hi (le_n _)) as [Rc _]. fold k in Rc.
    rewrite <- Rc, Hrefs. reflexivity.
  Qed.

  Lemma block_k : count_in k (rpre ++ rootD :: rpost) = 1.
  Proof.
    destruct HR as (_ & R2 & _). destruct (R2 i e Hi (le_n _)) as [_ Rb]. fold k in Rb.
    assert (H1 : 1 <= count_in k (nth d F [])) by (apply (Rb r d); rewrite Hrefs; left; reflexivity).
    rewrite (nth_error_nth _ _ _ HnF) in H1.
    pose proof (count_in_nth_le k F d) as H2. rewrite (nth_error_nth _ _ _ HnF), total_k in H2. lia.
  Qed.

  Lemma block_k' : count_in k (rpre ++ rpost) = 1.
  Proof. pose proof block_k as H. rewrite count_in_insert, rootD_no_use in H. lia. Qed.

  Lemma new_s_count k' : y_count k' new_s = y_count k' (r_tree rootD).
  Proof. unfold new_s. destruct (e_unwrap e); reflexivity. Qed.

  Lemma concat_F1 : exists la lb, concat F = la ++ rootD :: lb /\ concat F1 = la ++ lb.
  Proof. apply concat_replace_split. exact HnF. Qed.

  (** Use counts of every other key are unchanged, in total and per block. *)
  Lemma total_other k' : svs_eqb k k' = false ->
    count_in k' (concat (folded lower F e rootD)) = count_in k' (concat F).
  Proof.
    intro Hkk. rewrite folded_F1, <- concat_map, (count_in_groots k k' new_s _ Hkk).
    destruct concat_F1 as (la & lb & H1 & H2). rewrite H2.
    pose proof total_k as Ht. rewrite H1, count_in_insert, rootD_no_use in Ht.
    rewrite H1, count_in_insert, new_s_count. nia.
  Qed.

  Lemma nth_of_nth_error {A} (l l' : list (list A)) b :
    nth_error l b = nth_error l' b -> nth b l [] = nth b l' [].
  Proof.
    intro H. destruct (nth_error l' b) as [x|] eqn:E.
    - rewrite (nth_error_nth _ _ _ H), (nth_error_nth _ _ _ E). reflexivity.
    - rewrite !nth_overflow; [reflexivity | now apply nth_error_None | now apply nth_error_None].
  Qed.

  Lemma block_other k' b : svs_eqb k k' = false ->
    1 <= count_in k' (nth b F []) -> 1 <= count_in k' (nth b (folded lower F e rootD) []).
  Proof.
    intros Hkk H. rewrite folded_F1.
    replace (nth b (map (map (groot k new_s)) F1) []) with (map (groot k new_s) (nth b F1 []))
      by (symmetry; apply (map_nth (map (groot k new_s)) F1 [] b)).
    rewrite (count_in_groots k k' new_s _ Hkk).
    assert (Hd : d < length F) by (apply nth_error_Some; rewrite HnF; discriminate).
    destruct (Nat.eqb b d) eqn:Eb.
    - apply Nat.eqb_eq in Eb. subst b.
      assert (E1 : nth d F1 [] = rpre ++ rpost).
      { apply nth_error_nth. unfold F1. rewrite (nth_error_replace _ d F d Hd), Nat.eqb_refl. reflexivity. }
      rewrite E1, block_k', new_s_count.
      rewrite (nth_error_nth _ _ _ HnF), count_in_insert in H. lia.
    - assert (E1 : nth b F1 [] = nth b F []).
      { apply nth_of_nth_error. unfold F1. rewrite (nth_error_replace _ d F b Hd), Eb. reflexivity. }
      rewrite E1. lia.
  Qed.

  Lemma k_is_norm : k = norm nm.
  Proof. exact (proj2 (e_idx_key lower i bs t e body nm sh I Hi Hsub)). Qed.

  Lemma D_in_bs : In D (concat bs).
  Proof. apply in_concat. exists (pre ++ D :: post). split; [eapply nth_error_In; eauto | apply in_elt]. Qed.

  (** A live entry's key is not a name of what is grafted. *)
  Lemma new_s_not_live j ej uwr : nth_error t j = Some ej -> S i <= j ->
    defines lower (e_key ej) (mkRoot new_s uwr) = false.
  Proof.
    intros Hj Hle. destruct (defines lower (e_key ej) (mkRoot new_s uwr)) eqn:Ed; [exfalso|reflexivity].
    assert (Hkk : svs_eqb k (e_key ej) = false).
    { destruct (svs_eqb k (e_key ej)) eqn:E; [|reflexivity].
      assert (i = j) by (eapply keys_distinct_nth; [apply I | exact Hi | exact Hj | exact E]). lia. }
    unfold defines in Ed. simpl r_tree in Ed. unfold new_s in Ed.
    destruct (e_unwrap e) eqn:Euw.
    - (* the body is grafted: a nested sub recipe cannot carry a live key *)
      destruct body_s as [| | |b2 ns2 s2] eqn:Eb; try discriminate.
      apply existsb_exists in Ed. destruct Ed as (n' & Hn' & Hq).
      destruct (embG_sub lower bs rootD body [nm] sh HDm) as (bs0 & en & Htree & G & Hbody).
      simpl in Htree. inversion Htree; subst bs0. clear Htree.
      destruct (embed_shape en _ body Hbody) as [Hsb Hnb']. simpl in Hsb, Hnb'.
      assert (Hcb : chain body D) by (apply chain_body, chain_here).
      destruct (In_nth _ _ [] Hn') as (k0 & Hk0 & Hnth). rewrite <- Hnb' in Hk0.
      destruct (i2_NL _ _ _ _ I D body D_in_bs Hcb Hsb k0 Hk0) as (j' & ej' & Hj' & Hkey & _ & Hsj).
      assert (j' = j).
      { eapply keys_distinct_nth; [apply I | exact Hj' | exact Hj |]. rewrite Hkey, Hnb'.
        replace (nth k0 ns2 []) with n' by (symmetry; exact Hnth). exact Hq. }
      subst j'. rewrite Hj in Hj'. inversion Hj'; subst ej'.
      assert (Hroot : In body (concat bs)).
      { rewrite <- Hsj by lia. destruct (i2_T _ _ _ _ I j ej Hj) as (trees & Hn & Hin); [lia|].
        apply in_concat. exists trees. split; [eapply nth_error_In; eauto | exact Hin]. }
      assert (Hn'' : In n' (names_of body)) by (rewrite Hnb'; exact Hn').
      destruct (in_two _ body D Hroot D_in_bs) as [H|[H|H]].
      + assert (Hsz : node_size body < node_size D) by (unfold D; simpl; lia). rewrite H in Hsz. lia.
      + pose proof (HU body D H body body (chain_here _) Hcb Hsb Hsb n' n' Hn'' Hn'') as Hf.
        rewrite svs_eqb_refl in Hf. discriminate.
      + pose proof (HU D body H body body Hcb (chain_here _) Hsb Hsb n' n' Hn'' Hn'') as Hf.
        rewrite svs_eqb_refl in Hf. discriminate.
    - simpl in Ed. rewrite orb_false_r in Ed. rewrite <- k_is_norm in Ed. congruence.
  Qed.

  Lemma in_F1_in_F rt : In rt (concat F1) -> In rt (concat F).
  Proof.
    destruct concat_F1 as (la & lb & H1 & H2). rewrite H1, H2, !in_app_iff. simpl. tauto.
  Qed.

  Theorem fold_SymR :
    SymR lower (S i) (map (map sg) (firstn d bs ++ (pre ++ post) :: skipn (S d) bs))
         (map (entry_substitute r new) t) (folded lower F e rootD).
  Proof.
    split; [exact fold_R1|]. pose proof HR as (_ & R2 & R3).
    assert (Hent : forall j ej', nth_error (map (entry_substitute r new) t) j = Some ej' -> S i <= j ->
              exists ej, nth_error t j = Some ej /\ ej' = entry_substitute r new ej /\
                         svs_eqb k (e_key ej) = false).
    { intros j ej' Hj Hle. rewrite nth_error_map in Hj.
      destruct (nth_error t j) as [ej|] eqn:Ej; [|discriminate]. simpl in Hj. inversion Hj; subst ej'.
      exists ej. split; [reflexivity|]. split; [reflexivity|].
      destruct (svs_eqb k (e_key ej)) eqn:E; [|reflexivity].
      assert (i = j) by (eapply keys_distinct_nth; [apply I | exact Hi | exact Ej | exact E]). lia. }
    split.
    - intros j ej' Hj Hle. destruct (Hent j ej' Hj Hle) as (ej & Ej & -> & Hkk).
      destruct (R2 j ej Ej) as [Rc Rb]; [lia|]. simpl e_key. simpl e_refs. split.
      + rewrite map_length, Rc. symmetry. apply total_other, Hkk.
      + intros x' b Hin. apply in_map_iff in Hin. destruct Hin as ([x b0] & Heq & Hin).
        simpl in Heq. inversion Heq; subst b0. apply block_other; [exact Hkk|]. eapply Rb; eauto.
    - intros j ej' Hj Hle rt' Hrt' Hdef. destruct (Hent j ej' Hj Hle) as (ej & Ej & -> & Hkk).
      simpl e_key in Hdef. simpl e_unwrap.
      rewrite folded_F1, <- concat_map in Hrt'. apply in_map_iff in Hrt'.
      destruct Hrt' as (rt & <- & Hrt). apply in_F1_in_F in Hrt.
      assert (Hd0 : defines lower (e_key ej) rt = true).
      { unfold groot, defines in Hdef. simpl r_tree in Hdef. unfold defines.
        destruct (r_tree rt) as [d0 q0|d0 ins|q i0 a|b0 ns s1]; simpl in Hdef; try discriminate.
        - exfalso. destruct (svs_eqb q k); [|discriminate].
          pose proof (new_s_not_live j ej true Ej Hle) as Hn. unfold defines in Hn. simpl in Hn. congruence.
        - exact Hdef. }
      unfold groot. simpl r_unwrap. apply (R3 j ej Ej); [lia | exact Hrt | exact Hd0].
  Qed.
  (** Folding conserves the written ingredient and step nodes. *)
  Lemma fold_nodes : Permutation (fnodes (folded lower F e rootD)) (fnodes F).
  Proof.
    unfold fnodes. rewrite folded_F1, <- concat_map.
    eapply Permutation_trans; [apply rnodes_groots|].
    destruct concat_F1 as (la & lb & H1 & H2).
    pose proof block_k' as _. pose proof total_k as Ht. rewrite H1, count_in_insert, rootD_no_use in Ht.
    rewrite H2, H1. replace (count_in k (la ++ lb)) with 1 by lia.
    unfold copies. simpl. rewrite app_nil_r.
    apply Permutation_sym. eapply Permutation_trans; [apply rnodes_insert|].
    apply Permutation_app_head. unfold new_s, rootD. simpl. destruct (e_unwrap e); apply Permutation_refl.
  Qed.
End FoldCase.
