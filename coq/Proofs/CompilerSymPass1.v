(** * Symbolic compilation, part 3: pass 1 of the model computes [sym_resolve],
    embedded, and records as many uses as the symbolic forest has. *)
From Coq Require Import List ZArith NArith Bool Lia.
From RG Require Import Base.Str Base.Num Model.Recipe Model.Compiler Spec.Valid Spec.CompileSpec Spec.CompileSym
  Proofs.RecipeInd Proofs.NodeEqv Proofs.RecipeValid Proofs.CompilerExpand
  Proofs.CompilerInvSize Proofs.CompilerInvNames Proofs.CompilerInvDefs Proofs.CompilerInvSub
  Proofs.CompilerInvPass1 Proofs.CompilerSymDefs Proofs.CompilerSymCount.
Import ListNotations.
Local Open Scope nat_scope.

Section SymP1.
  Variable lower : str -> str.
  Notation norm := (normalise_output_name lower).

  Definition senv_of (t : table) : senv := map (fun e => (e_key e, e_idx e)) t.

  Lemma senv_lookup_of k t : senv_lookup k (senv_of t) = option_map e_idx (lookup k t).
  Proof.
    induction t as [|e t IH]; simpl; [reflexivity|].
    destruct (svs_eqb (e_key e) k); [reflexivity | exact IH].
  Qed.

  (** The embedding environment answers like the table. *)
  Definition EqEnv (een : eenv) (t : table) : Prop :=
    forall q, eenv_lookup q een = option_map e_sub (lookup q t).

  (** What never changes in an entry. *)
  Definition static (e : entry) := (e_key e, e_def_block e, e_sub e, e_idx e, e_unwrap e).

  Lemma static_lookup t t' : map static t' = map static t ->
    forall q, option_map static (lookup q t') = option_map static (lookup q t).
  Proof.
    revert t'. induction t as [|e t IH]; intros [|e' t'] H q; try discriminate; [reflexivity|].
    simpl in H. inversion H as [[Hk Hb Hs Hi Hu Hrest]]. simpl. rewrite Hk.
    destruct (svs_eqb (e_key e) q); [simpl; unfold static; congruence | apply IH, Hrest].
  Qed.

  Lemma static_EqEnv een t t' : map static t' = map static t -> EqEnv een t -> EqEnv een t'.
  Proof.
    intros H E q. rewrite (E q). pose proof (static_lookup t t' H q) as Hl.
    destruct (lookup q t') as [e'|], (lookup q t) as [e|]; simpl in *; try discriminate; [|reflexivity].
    unfold static in Hl. congruence.
  Qed.

  Lemma static_senv t t' : map static t' = map static t -> senv_of t' = senv_of t.
  Proof.
    revert t'. induction t as [|e t IH]; intros [|e' t'] H; try discriminate; [reflexivity|].
    simpl in H. inversion H as [[Hk Hb Hs Hi Hu Hrest]]. simpl. rewrite Hk, Hi. f_equal. apply IH, Hrest.
  Qed.

  Lemma static_keys t t' : map static t' = map static t -> map e_key t' = map e_key t.
  Proof.
    revert t'. induction t as [|e t IH]; intros [|e' t'] H; try discriminate; [reflexivity|].
    simpl in H. inversion H as [[Hk Hb Hs Hi Hu Hrest]]. simpl. rewrite Hk. f_equal. apply IH, Hrest.
  Qed.

  (** Table [t'] is [t] with [c key] more uses, all in block [blk], for every entry. *)
  Definition Grow (blk : nat) (c : svs -> nat) (t t' : table) : Prop :=
    map static t' = map static t /\
    forall j e e', nth_error t j = Some e -> nth_error t' j = Some e' ->
      exists added, e_refs e' = e_refs e ++ added /\ length added = c (e_key e) /\
                    forall x b, In (x, b) added -> b = blk.

  Lemma Grow_refl blk t : Grow blk (fun _ => 0) t t.
  Proof.
    split; [reflexivity|]. intros j e e' H1 H2. rewrite H1 in H2. inversion H2; subst.
    exists []. rewrite app_nil_r. split; [reflexivity|]. split; [reflexivity | intros ? ? []].
  Qed.

  Lemma static_nth t t' j e e' : map static t' = map static t ->
    nth_error t j = Some e -> nth_error t' j = Some e' -> static e' = static e.
  Proof.
    intros H H1 H2. apply (map_nth_error static) in H1, H2. rewrite H in H2. congruence.
  Qed.

  Lemma static_nth_ex t t' j e : map static t' = map static t ->
    nth_error t j = Some e -> exists e', nth_error t' j = Some e'.
  Proof.
    intros H H1. destruct (nth_error t' j) as [e'|] eqn:E; [eauto|].
    apply nth_error_None in E.
    assert (length t' = length t) by (rewrite <- (map_length static t'), H, map_length; reflexivity).
    assert (j < length t) by (apply nth_error_Some; congruence). lia.
  Qed.

  Lemma Grow_trans blk c1 c2 t t1 t2 :
    Grow blk c1 t t1 -> Grow blk c2 t1 t2 -> Grow blk (fun k => c1 k + c2 k) t t2.
  Proof.
    intros [S1 G1] [S2 G2]. split; [congruence|]. intros j e e2 H H2.
    destruct (static_nth_ex t t1 j e S1 H) as (e1 & H1).
    destruct (G1 j e e1 H H1) as (a1 & R1 & L1 & B1).
    destruct (G2 j e1 e2 H1 H2) as (a2 & R2 & L2 & B2).
    exists (a1 ++ a2). rewrite R2, R1, <- app_assoc. split; [reflexivity|]. split.
    - rewrite app_length, L1, L2. pose proof (static_nth t t1 j e e1 S1 H H1) as Hs.
      assert (Hk : e_key e1 = e_key e) by (unfold static in Hs; congruence). now rewrite Hk.
    - intros x b Hin. apply in_app_iff in Hin. destruct Hin; eauto.
  Qed.

  Lemma Grow_add_ref blk t k o x : keys_distinct t -> lookup k t = Some o ->
    Grow blk (fun k0 => if svs_eqb k k0 then 1 else 0) t (add_ref k (x, blk) t).
  Proof.
    intros K Hl. destruct (lookup_split k (x, blk) t o Hl) as (t1 & t2 & Ht & Hko & Hn1 & Ha).
    rewrite Ha. split; [rewrite Ht, !map_app; reflexivity|].
    intros j e e' He He'. rewrite Ht in He.
    assert (Ho : nth_error t (length t1) = Some o).
    { rewrite Ht, nth_error_app2, Nat.sub_diag by lia. reflexivity. }
    destruct (Nat.lt_ge_cases j (length t1)) as [Hlt|Hge].
    - rewrite nth_error_app1 in He, He' by exact Hlt. rewrite He in He'. inversion He'; subst e'.
      exists []. rewrite app_nil_r. split; [reflexivity|]. split; [|intros ? ? []].
      rewrite svs_eqb_sym, (Hn1 e (nth_error_In _ _ He)). reflexivity.
    - rewrite nth_error_app2 in He, He' by exact Hge.
      destruct (j - length t1) as [|m] eqn:Ej; simpl in He, He'.
      + inversion He; inversion He'; subst e e'. exists [(x, blk)]. split; [reflexivity|].
        split; [rewrite svs_eqb_sym, Hko; reflexivity|]. intros x0 b [H|[]]. congruence.
      + rewrite He in He'. inversion He'; subst e'.
        exists []. rewrite app_nil_r. split; [reflexivity|]. split; [|intros ? ? []].
        destruct (svs_eqb k (e_key e)) eqn:E; [exfalso|reflexivity].
        assert (Hj : nth_error t j = Some e).
        { rewrite Ht, nth_error_app2 by exact Hge. rewrite Ej. exact He. }
        assert (length t1 = j); [|lia].
        eapply keys_distinct_nth; [exact K | exact Ho | exact Hj |].
        eapply svs_eqb_trans; eauto.
  Qed.

  (** ** Expressions *)
  Definition y_list (en : senv) :=
    fix go (l : list aexpr) : rres (list sym) :=
      match l with
      | [] => Res []
      | x :: rest =>
          match y_expr lower en x with
          | Res n => match go rest with Res ns => Res (n :: ns) | Rej k o => Rej k o end
          | Rej k o => Rej k o
          end
      end.

  Lemma y_expr_AStep en name ins :
    y_expr lower en (AStep name ins) =
    match y_list en ins with Res ns => Res (YStep name ns) | Rej k o => Rej k o end.
  Proof. reflexivity. Qed.

  (** Every reference of [ts] mentions a key of [t]. *)
  Definition Closed (ts : sym) (t : table) : Prop :=
    forall q i a, yocc q i a ts -> exists k0, In k0 (map e_key t) /\ svs_eqb k0 q = true.

  Definition sim_expr_stmt (blk : nat) (ex : aexpr) : Prop :=
    forall t een, EqEnv een t -> keys_distinct t ->
    match compile_expr lower blk ex t with
    | ROk n t' => exists ts, y_expr lower (senv_of t) ex = Res ts /\ y_embed een ts = (n, true) /\
                             Grow blk (fun k => y_count k ts) t t' /\ Closed ts t
    | RErr k o => y_expr lower (senv_of t) ex = Rej k o
    end.

  Lemma keys_distinct_static t t' : map static t' = map static t -> keys_distinct t -> keys_distinct t'.
  Proof. intros H K. unfold keys_distinct. now rewrite (static_keys t t' H). Qed.

  Lemma sim_expr_ref blk name amt off : sim_expr_stmt blk (ARef name amt off).
  Proof.
    intros t een E K. simpl. rewrite senv_lookup_of.
    destruct (lookup (norm name) t) as [o|] eqn:El; simpl.
    - exists (YRef (norm name) (e_idx o) (amount_or_default amt)). split; [reflexivity|]. split.
      + simpl. rewrite (E (norm name)), El. reflexivity.
      + split.
        * pose proof (Grow_add_ref blk t (norm name) o
                        (Reference (e_sub o) (e_idx o) (amount_or_default amt)) K El) as G.
          exact G.
        * intros q i a Ho. inversion Ho; subst. destruct (lookup_some_in _ _ _ El) as [Hin Hk].
          exists (e_key o). split; [now apply in_map | exact Hk].
    - destruct amt as [[q|p]|]; simpl; try reflexivity.
      + exists (YIng name (Some q)). split; [reflexivity|]. split; [reflexivity|].
        split; [apply Grow_refl | intros ? ? ? Ho; inversion Ho].
      + exists (YIng name None). split; [reflexivity|]. split; [reflexivity|].
        split; [apply Grow_refl | intros ? ? ? Ho; inversion Ho].
  Qed.

  Lemma sim_expr_all blk : forall ex, sim_expr_stmt blk ex.
  Proof.
    induction ex as [name amt off|name ins IH] using aexpr_ind'; [apply sim_expr_ref|].
    intros t een E K. rewrite compile_expr_AStep, y_expr_AStep.
    assert (L : match compile_list lower blk ins t with
                | ROk ns t' => exists tss, y_list (senv_of t) ins = Res tss /\
                    Forall2 (fun ts n => y_embed een ts = (n, true)) tss ns /\
                    Grow blk (fun k => sum_count k tss) t t' /\ Forall (fun ts => Closed ts t) tss
                | RErr k o => y_list (senv_of t) ins = Rej k o
                end).
    { revert t E K. induction IH as [|x l Hx _ IHl]; intros t E K; simpl.
      - exists []. split; [reflexivity|]. split; [constructor|]. split; [apply Grow_refl | constructor].
      - pose proof (Hx t een E K) as H1.
        destruct (compile_expr lower blk x t) as [n1 t1|k o]; [|now rewrite H1].
        destruct H1 as (ts1 & Y1 & E1 & G1 & C1). rewrite Y1.
        pose proof (proj1 G1) as S1.
        specialize (IHl t1 (static_EqEnv een t t1 S1 E) (keys_distinct_static t t1 S1 K)).
        rewrite (static_senv t t1 S1) in IHl.
        destruct (compile_list lower blk l t1) as [ns2 t2|k o]; [|now rewrite IHl].
        destruct IHl as (tss & Y2 & E2 & G2 & C2). rewrite Y2.
        exists (ts1 :: tss). split; [reflexivity|]. split; [constructor; assumption|]. split.
        + exact (Grow_trans blk _ _ t t1 t2 G1 G2).
        + constructor; [exact C1|]. eapply Forall_impl; [|exact C2].
          intros ts Hc q i a Ho. rewrite <- (static_keys t t1 S1). eauto. }
    destruct (compile_list lower blk ins t) as [ns t'|k o]; [|now rewrite L].
    destruct L as (tss & Y & E2 & G & C). rewrite Y. exists (YStep name tss).
    split; [reflexivity|]. split; [|split].
    - rewrite y_embed_step.
      assert (Hm : map (y_embed een) tss = map (fun n => (n, true)) ns).
      { clear -E2. induction E2 as [|ts n l l' H _ IHf]; simpl; [reflexivity|]. now rewrite H, IHf. }
      rewrite Hm, map_map. simpl. rewrite map_id. f_equal.
      clear. induction ns; simpl; auto.
    - exact G.
    - intros q i a Ho. inversion Ho as [|d ins' y Hy Hoy|]; subst.
      rewrite Forall_forall in C. eapply C; eauto.
  Qed.

  (** ** Definitions *)
  Lemma sim_register blk sub unwrap : forall (outs : list (svs * N)) idx t,
    match register lower blk sub unwrap (map fst outs) (map (fun p => Some (snd p)) outs) idx t with
    | inl (ROk _ t2) => y_define lower outs idx (senv_of t) = Res (senv_of t2)
    | inl (RErr k o) => y_define lower outs idx (senv_of t) = Rej k o
    | inr _ => False
    end.
  Proof.
    induction outs as [|[nm off] outs IH]; intros idx t; simpl; [reflexivity|].
    rewrite senv_lookup_of. destruct (lookup (norm nm) t); simpl; [reflexivity|].
    specialize (IH (S idx) (t ++ [mkEntry (norm nm) blk sub idx [] unwrap])).
    assert (Hs : senv_of (t ++ [mkEntry (norm nm) blk sub idx [] unwrap]) = senv_of t ++ [(norm nm, idx)])
      by (unfold senv_of; rewrite map_app; reflexivity).
    rewrite Hs in IH. exact IH.
  Qed.

  Lemma y_expr_not_sub en ex ts : y_expr lower en ex = Res ts -> ynames ts = [] /\ is_ysub ts = false.
  Proof.
    destruct ex as [name ins|name amt off].
    - rewrite y_expr_AStep. destruct (y_list en ins); intro H; inversion H; auto.
    - simpl. destruct (senv_lookup (norm name) en); [intro H; inversion H; auto|].
      destruct amt as [[q|p]|]; intro H; inversion H; auto.
  Qed.

  Definition stmt_post (blk : nat) (st : astmt) (t : table) (een : eenv) (tree : node) (t' : table) : Prop :=
    exists root t1,
      y_stmt lower st (senv_of t) = Res (root, senv_of t') /\
      y_embed een (r_tree root) = (tree, true) /\
      r_unwrap root = negb (st_named st) /\
      Grow blk (fun k => y_count k (r_tree root)) t t1 /\ Closed (r_tree root) t /\
      t' = t1 ++ mk_entries lower blk tree (negb (st_named st)) 0 (ynames (r_tree root)) /\
      (forall e nm, In e t1 -> In nm (ynames (r_tree root)) -> svs_eqb (e_key e) (norm nm) = false) /\
      keys_distinct t'.

  Lemma sim_stmt blk st t een : EqEnv een t -> keys_distinct t ->
    match compile_stmt lower blk st t with
    | SOk tree t' => stmt_post blk st t een tree t'
    | SErr k o => y_stmt lower st (senv_of t) = Rej k o
    | SCrash _ => False
    end.
  Proof.
    intros E K. pose proof (compile_stmt_no_crash lower blk st t) as NC.
    unfold compile_stmt in *. unfold stmt_post.
    pose proof (sim_expr_all blk (st_expr st) t een E K) as HE.
    destruct (compile_expr lower blk (st_expr st) t) as [tr t1|k o] eqn:Ex;
      [|unfold y_stmt; now rewrite HE].
    destruct HE as (ts & Y & Em & G & C).
    pose proof (proj1 G) as S1. pose proof (keys_distinct_static t t1 S1 K) as K1.
    pose proof (static_senv t t1 S1) as Hsenv.
    pose proof (embed_infer_name een ts tr Em) as Hin.
    destruct (st_outs st) as [|[nm0 off0] outs] eqn:Eo.
    - (* no explicit outputs *)
      simpl map in *. cbv iota beta in *.
      destruct (infer_output_name tr) as [n|] eqn:Ei.
      + cbv iota beta in *. simpl in NC |- *.
        pose proof (compile_expr_infer lower blk _ _ _ _ _ Ex Ei) as Hnone.
        rewrite Hnone in *. simpl.
        exists (mkRoot (YSub ts [n] false) (negb (st_named st))), t1. simpl.
        split.
        { unfold y_stmt. rewrite Y, Eo, <- Hin. rewrite <- Hsenv.
          unfold senv_of. rewrite map_app. reflexivity. }
        split; [rewrite Em; reflexivity|]. split; [reflexivity|]. split; [exact G|].
        split; [intros q i a Ho; inversion Ho; subst; eauto|]. split; [reflexivity|]. split.
        * intros e nm He [<-|[]]. apply (lookup_none _ _ Hnone), He.
        * unfold keys_distinct. rewrite map_app. simpl. apply kd_app_one; [exact K1|].
          intros k' Hk'. apply in_map_iff in Hk'. destruct Hk' as (e & <- & He).
          apply (lookup_none _ _ Hnone), He.
      + exists (mkRoot ts (negb (st_named st))), t1. simpl.
        assert (Hy : ynames ts = []) by apply (y_expr_not_sub _ _ _ Y).
        rewrite Hy. simpl. rewrite app_nil_r.
        split; [unfold y_stmt; rewrite Y, Eo, <- Hin, Hsenv; reflexivity|].
        split; [exact Em|]. split; [reflexivity|]. split; [exact G|]. split; [exact C|].
        split; [reflexivity|]. split; [intros ? ? ? []|exact K1].
    - (* explicit outputs *)
      cbv iota beta in *.
      pose proof (sim_register blk (SubRecipe tr (map fst ((nm0, off0) :: outs)) (negb false))
                    (negb (st_named st)) ((nm0, off0) :: outs) 0 t1) as HR.
      cbn [map fst snd] in HR, NC |- *.
      match type of HR with context [register ?a ?b ?c ?d ?e ?f ?g ?h] =>
        destruct (register a b c d e f g h) as [[[] t2|k o]|c0] eqn:Er end;
        [|unfold y_stmt; rewrite Y, Eo, <- Hsenv, HR; reflexivity|contradiction].
      destruct (register_spec lower _ _ _ _ _ _ _ _ Er) as (Ht2 & Hfresh & HK).
      exists (mkRoot (YSub ts (nm0 :: map fst outs) true) (negb (st_named st))), t1. simpl.
      split; [unfold y_stmt; rewrite Y, Eo, <- Hsenv, HR; reflexivity|].
      split; [rewrite Em; reflexivity|]. split; [reflexivity|]. split; [exact G|].
      split; [intros q i a Ho; inversion Ho; subst; eauto|]. split; [exact Ht2|]. split; [exact Hfresh | auto].
  Qed.

  (** ** The embedding environment follows the table *)
  Definition binds (names : list svs) (x : node) : eenv := map (fun n => (norm n, x)) names.

  Lemma lookup_app q t u : lookup q (t ++ u) = match lookup q t with Some e => Some e | None => lookup q u end.
  Proof.
    induction t as [|e t IH]; simpl; [reflexivity|]. destruct (svs_eqb (e_key e) q); [reflexivity | exact IH].
  Qed.

  Lemma eenv_lookup_app q a b :
    eenv_lookup q (a ++ b) = match eenv_lookup q a with Some v => Some v | None => eenv_lookup q b end.
  Proof.
    induction a as [|[k v] a IH]; simpl; [reflexivity|]. destruct (svs_eqb k q); [reflexivity | exact IH].
  Qed.

  Lemma lookup_mk_entries q blk tree unwrap : forall names idx,
    option_map e_sub (lookup q (mk_entries lower blk tree unwrap idx names)) = eenv_lookup q (binds names tree).
  Proof.
    induction names as [|n names IH]; intro idx; simpl; [reflexivity|].
    destruct (svs_eqb (norm n) q); [reflexivity | apply IH].
  Qed.

  Lemma binds_lookup_some q names x v : eenv_lookup q (binds names x) = Some v ->
    v = x /\ exists n, In n names /\ svs_eqb (norm n) q = true.
  Proof.
    induction names as [|n names IH]; simpl; [discriminate|].
    destruct (svs_eqb (norm n) q) eqn:E.
    - intro H. inversion H. split; [reflexivity|]. exists n. auto.
    - intro H. destruct (IH H) as (Hv & n' & Hn & Hq). split; [exact Hv|]. exists n'. auto.
  Qed.

  Lemma EqEnv_extend een t1 blk tree unwrap names :
    EqEnv een t1 -> (forall e nm, In e t1 -> In nm names -> svs_eqb (e_key e) (norm nm) = false) ->
    EqEnv (binds names tree ++ een) (t1 ++ mk_entries lower blk tree unwrap 0 names).
  Proof.
    intros E Hfresh q. rewrite eenv_lookup_app, lookup_app.
    destruct (lookup q t1) as [e|] eqn:El.
    - destruct (eenv_lookup q (binds names tree)) as [v|] eqn:Eb.
      + exfalso. destruct (binds_lookup_some _ _ _ _ Eb) as (_ & n & Hn & Hq).
        destruct (lookup_some_in _ _ _ El) as [He Hk].
        pose proof (Hfresh e n He Hn) as Hf.
        assert (Ht : svs_eqb (e_key e) (norm n) = true)
          by (eapply svs_eqb_trans; [exact Hk|]; now rewrite svs_eqb_sym).
        congruence.
      + rewrite (E q), El. reflexivity.
    - rewrite <- lookup_mk_entries with (blk := blk) (unwrap := unwrap) (idx := 0).
      destruct (lookup q (mk_entries lower blk tree unwrap 0 names)); simpl; [reflexivity|].
      rewrite (E q), El. reflexivity.
  Qed.

  Lemma embed_roots_cons r rest en :
    embed_roots lower (r :: rest) en =
    let '(x, ok) := y_embed en (r_tree r) in
    let '(xs, ok', en2) := embed_roots lower rest (binds (ynames (r_tree r)) x ++ en) in
    (x :: xs, ok && ok', en2).
  Proof.
    simpl. destruct (y_embed en (r_tree r)) as [x ok]. destruct (r_tree r); reflexivity.
  Qed.

  (** ** Recorded uses = symbolic uses *)
  Definition Cnt (t : table) (G : forest) : Prop :=
    forall e, In e t ->
      length (e_refs e) = count_in (e_key e) (concat G) /\
      forall x b, In (x, b) (e_refs e) -> 1 <= count_in (e_key e) (nth b G []).
  Definition ClosedF (G : forest) (t : table) : Prop :=
    forall r, In r (concat G) -> Closed (r_tree r) t.

  Lemma concat_snoc_root (Fd : forest) rsd root :
    concat (Fd ++ [rsd ++ [root]]) = concat (Fd ++ [rsd]) ++ [root].
  Proof. rewrite !concat_app. simpl. rewrite !app_nil_r. now rewrite app_assoc. Qed.

  Lemma nth_snoc_block (Fd : forest) X b :
    nth b (Fd ++ [X]) [] = if Nat.eqb b (length Fd) then X else nth b Fd [].
  Proof.
    revert b. induction Fd as [|y Fd IH]; intros [|b]; simpl; try reflexivity.
    - destruct b; reflexivity.
    - apply IH.
  Qed.

  Lemma closed_fresh_count ts t k : Closed ts t ->
    (forall k0, In k0 (map e_key t) -> svs_eqb k0 k = false) -> y_count k ts = 0.
  Proof.
    intros C Hf. destruct (y_count k ts) eqn:E; [reflexivity|exfalso].
    destruct (y_count_pos_occ k ts) as (q & i & a & Ho & Hq); [lia|].
    destruct (C q i a Ho) as (k0 & Hk0 & Hkq).
    assert (svs_eqb k0 k = true) by (eapply svs_eqb_trans; eauto). rewrite (Hf k0 Hk0) in H. discriminate.
  Qed.

  Lemma closedF_fresh_count G t k : ClosedF G t ->
    (forall k0, In k0 (map e_key t) -> svs_eqb k0 k = false) -> count_in k (concat G) = 0.
  Proof.
    intros C Hf. unfold ClosedF in C. induction (concat G) as [|r l IH]; [reflexivity|].
    rewrite count_in_cons, (closed_fresh_count (r_tree r) t k); [|apply C; left; reflexivity|exact Hf].
    apply IH. intros r' Hr'. apply C. right. exact Hr'.
  Qed.

  Lemma Closed_keys ts t t' : (forall k0, In k0 (map e_key t) -> In k0 (map e_key t')) ->
    Closed ts t -> Closed ts t'.
  Proof. intros H C q i a Ho. destruct (C q i a Ho) as (k0 & Hk & Hq). exists k0. auto. Qed.

  Lemma cnt_step Fd rsd t t1 root tree unwrap blk :
    blk = length Fd ->
    Cnt t (Fd ++ [rsd]) -> ClosedF (Fd ++ [rsd]) t ->
    Grow blk (fun k => y_count k (r_tree root)) t t1 -> Closed (r_tree root) t ->
    (forall e nm, In e t1 -> In nm (ynames (r_tree root)) -> svs_eqb (e_key e) (norm nm) = false) ->
    Cnt (t1 ++ mk_entries lower blk tree unwrap 0 (ynames (r_tree root))) (Fd ++ [rsd ++ [root]]) /\
    ClosedF (Fd ++ [rsd ++ [root]]) (t1 ++ mk_entries lower blk tree unwrap 0 (ynames (r_tree root))).
  Proof.
    intros Hblk HC HCl [S1 G] Croot Hfresh.
    assert (Hkeys : forall k0, In k0 (map e_key t) ->
              In k0 (map e_key (t1 ++ mk_entries lower blk tree unwrap 0 (ynames (r_tree root))))).
    { intros k0 H. rewrite map_app, (static_keys t t1 S1). apply in_app_iff. auto. }
    assert (HClt : ClosedF (Fd ++ [rsd ++ [root]]) t).
    { intros r Hr. rewrite concat_snoc_root in Hr. apply in_app_iff in Hr.
      destruct Hr as [Hr|[<-|[]]]; auto. }
    assert (HCl' : ClosedF (Fd ++ [rsd ++ [root]])
                     (t1 ++ mk_entries lower blk tree unwrap 0 (ynames (r_tree root)))).
    { intros r Hr. eapply Closed_keys; [exact Hkeys | apply HClt, Hr]. }
    split; [|exact HCl'].
    intros e' He'. apply in_app_iff in He'. destruct He' as [He'|He'].
    - apply In_nth_error in He'. destruct He' as (j & Hj').
      assert (Hlen : length t1 = length t) by (rewrite <- (map_length static t1), S1, map_length; reflexivity).
      destruct (nth_error t j) as [e|] eqn:Hj;
        [|apply nth_error_None in Hj; assert (j < length t1) by (apply nth_error_Some; congruence); lia].
      destruct (G j e e' Hj Hj') as (added & Hr & Hl & Hb).
      assert (Hk : e_key e' = e_key e).
      { pose proof (static_nth t t1 j e e' S1 Hj Hj') as Hs. unfold static in Hs. congruence. }
      destruct (HC e (nth_error_In _ _ Hj)) as [HC1 HC2]. rewrite Hk, Hr. split.
      + rewrite app_length, HC1, Hl, concat_snoc_root, count_in_app. unfold count_in at 3. simpl. lia.
      + intros x b Hin. rewrite nth_snoc_block. apply in_app_iff in Hin. destruct Hin as [Hin|Hin].
        * specialize (HC2 x b Hin). rewrite nth_snoc_block in HC2.
          destruct (Nat.eqb b (length Fd)); [rewrite count_in_app; lia | exact HC2].
        * rewrite (Hb x b Hin), Hblk, Nat.eqb_refl, count_in_app. unfold count_in at 2. simpl.
          destruct added; [contradiction|]. simpl in Hl. lia.
    - apply in_mk_entries in He'. destruct He' as (k0 & Hk0 & ->). simpl.
      split; [|intros ? ? []]. symmetry. apply (closedF_fresh_count _ _ _ HClt).
      intros k1 Hk1. rewrite <- (static_keys t t1 S1) in Hk1. apply in_map_iff in Hk1.
      destruct Hk1 as (e1 & <- & He1). apply Hfresh; [exact He1 | now apply nth_In].
  Qed.

  (** Every name of every root has its table entry, with the root's unwrap flag. *)
  Definition UW (t : table) (G : forest) : Prop :=
    forall rt n, In rt (concat G) -> In n (ynames (r_tree rt)) ->
      exists e, In e t /\ e_key e = norm n /\ e_unwrap e = r_unwrap rt.

  Lemma static_In t t' e : map static t' = map static t -> In e t ->
    exists e', In e' t' /\ static e' = static e.
  Proof.
    intros S He. apply In_nth_error in He. destruct He as (j & Hj).
    destruct (static_nth_ex t t' j e S Hj) as (e' & Hj').
    exists e'. split; [eapply nth_error_In; eauto | eapply static_nth; eauto].
  Qed.

  Lemma uw_step Fd rsd t t1 root tree blk :
    UW t (Fd ++ [rsd]) -> map static t1 = map static t ->
    UW (t1 ++ mk_entries lower blk tree (r_unwrap root) 0 (ynames (r_tree root))) (Fd ++ [rsd ++ [root]]).
  Proof.
    intros HU S1 rt n Hrt Hn. rewrite concat_snoc_root in Hrt. apply in_app_iff in Hrt.
    destruct Hrt as [Hrt|[<-|[]]].
    - destruct (HU rt n Hrt Hn) as (e & He & Hk & Hu).
      destruct (static_In t t1 e S1 He) as (e' & He' & Hs). exists e'.
      split; [apply in_app_iff; auto|]. unfold static in Hs. split; congruence.
    - destruct (In_nth _ _ [] Hn) as (k0 & Hk0 & Hnth).
      eexists. split; [apply in_app_iff; right; apply (mk_entries_in lower blk tree (r_unwrap root) _ 0 k0 Hk0)|].
      simpl. split; [f_equal; exact Hnth | reflexivity].
  Qed.

  Definition Acc (t : table) (G : forest) : Prop := Cnt t G /\ ClosedF G t /\ UW t G.

  Lemma sim_block blk : forall sts t een Fd rsd,
    blk = length Fd -> EqEnv een t -> keys_distinct t -> Acc t (Fd ++ [rsd]) ->
    match compile_block lower blk sts t with
    | BOk trees t' => exists rs een',
        y_block lower sts (senv_of t) = Res (rs, senv_of t') /\
        embed_roots lower rs een = (trees, true, een') /\
        EqEnv een' t' /\ keys_distinct t' /\ Acc t' (Fd ++ [rsd ++ rs])
    | BErr k o => y_block lower sts (senv_of t) = Rej k o
    | BCrash _ => False
    end.
  Proof.
    induction sts as [|st sts IH]; intros t een Fd rsd Hblk E K A; simpl.
    - exists [], een. rewrite app_nil_r. auto.
    - pose proof (sim_stmt blk st t een E K) as HS.
      destruct (compile_stmt lower blk st t) as [tree t1|k o|c]; [|now rewrite HS|exact HS].
      destruct HS as (root & t0 & Y & Em & Hu & G & C & Ht1 & Hfresh & K1).
      rewrite Y. destruct A as (AC & ACl & AU).
      destruct (cnt_step Fd rsd t t0 root tree (negb (st_named st)) blk Hblk AC ACl G C Hfresh) as [AC1 ACl1].
      rewrite <- Ht1 in AC1, ACl1.
      pose proof (uw_step Fd rsd t t0 root tree blk AU (proj1 G)) as AU1.
      rewrite Hu, <- Ht1 in AU1.
      assert (E1 : EqEnv (binds (ynames (r_tree root)) tree ++ een) t1).
      { rewrite Ht1. apply EqEnv_extend; [eapply static_EqEnv; [apply G | exact E] | exact Hfresh]. }
      specialize (IH t1 _ Fd (rsd ++ [root]) Hblk E1 K1 (conj AC1 (conj ACl1 AU1))).
      destruct (compile_block lower blk sts t1) as [trees t2|k o|c]; [|now rewrite IH|exact IH].
      destruct IH as (rs & een' & Y2 & Em2 & E2 & K2 & A2). rewrite Y2.
      exists (root :: rs), een'. split; [reflexivity|]. split.
      + rewrite embed_roots_cons, Em, Em2. reflexivity.
      + rewrite <- app_assoc in A2. auto.
  Qed.

  Lemma acc_snoc_nil t Fd : Acc t Fd -> Acc t (Fd ++ [[]]).
  Proof.
    assert (Hc : concat (Fd ++ [[]]) = concat Fd) by (rewrite concat_app; simpl; now rewrite app_nil_r).
    intros (AC & ACl & AU). split; [|split].
    - intros e He. destruct (AC e He) as [H1 H2]. rewrite Hc. split; [exact H1|].
      intros x b Hin. specialize (H2 x b Hin). rewrite nth_snoc_block.
      destruct (Nat.eqb b (length Fd)) eqn:Eb; [|exact H2].
      apply Nat.eqb_eq in Eb. subst b. rewrite nth_overflow in H2 by lia. exact H2.
    - intros r Hr. rewrite Hc in Hr. auto.
    - intros rt n Hrt. rewrite Hc in Hrt. auto.
  Qed.

  Lemma sim_pass1_from : forall p blk t een Fd,
    blk = length Fd -> EqEnv een t -> keys_distinct t -> Acc t Fd ->
    match pass1_from lower blk p t with
    | P1Ok bs t' => exists Fs,
        sym_resolve_from lower blk p (senv_of t) = SResolved Fs (map e_key t') /\
        embed_from lower Fs een = (bs, true) /\ keys_distinct t' /\ Acc t' (Fd ++ Fs)
    | P1Err k b o => sym_resolve_from lower blk p (senv_of t) = SRejected k b o
    | P1Crash _ => False
    end.
  Proof.
    induction p as [|b p IH]; intros blk t een Fd Hblk E K A; simpl.
    - exists []. rewrite app_nil_r. unfold senv_of. rewrite map_map. simpl. auto.
    - pose proof (sim_block blk b t een Fd [] Hblk E K (acc_snoc_nil t Fd A)) as HB.
      destruct (compile_block lower blk b t) as [trees t1|k o|c]; [|now rewrite HB|exact HB].
      destruct HB as (rs & een1 & Y & Em & E1 & K1 & A1). rewrite Y. simpl in A1.
      assert (Hblk' : S blk = length (Fd ++ [rs])) by (rewrite app_length; simpl; lia).
      specialize (IH (S blk) t1 een1 (Fd ++ [rs]) Hblk' E1 K1 A1).
      destruct (pass1_from lower (S blk) p t1) as [bs t2|k bl o|c]; [|now rewrite IH|exact IH].
      destruct IH as (Fs & Y2 & Em2 & K2 & A2). rewrite Y2.
      exists (rs :: Fs). split; [reflexivity|]. split; [simpl; rewrite Em, Em2; reflexivity|].
      split; [exact K2|]. rewrite <- app_assoc in A2. exact A2.
  Qed.

  Theorem sim_pass1 p :
    match pass1 lower p with
    | P1Ok bs t => exists F,
        sym_resolve lower p = SResolved F (map e_key t) /\ sym_embed lower F = (bs, true) /\ Acc t F
    | P1Err k b o => sym_resolve lower p = SRejected k b o
    | P1Crash _ => False
    end.
  Proof.
    unfold pass1, sym_resolve, sym_embed.
    assert (A0 : Acc [] []).
    { split; [intros ? []|]. split; [intros ? []|intros ? ? []]. }
    pose proof (sim_pass1_from p 0 [] [] [] eq_refl (fun q => eq_refl) Logic.I A0) as H.
    simpl senv_of in H.
    destruct (pass1_from lower 0 p []) as [bs t|k b o|c]; [|exact H|exact H].
    destruct H as (Fs & Y & Em & _ & A). exists Fs. auto.
  Qed.
End SymP1.
