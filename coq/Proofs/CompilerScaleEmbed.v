(** * Compilation is parametric in the scalable numbers (3): embedding, and the whole. *)
From Coq Require Import List ZArith NArith Bool Lia.
From RG Require Import Base.Str Base.Num Model.Recipe Model.Compiler Spec.CompileSpec Spec.CompileSym
  Spec.ScaleProg Proofs.RecipeInd Proofs.RecipeScale Proofs.CompilerScaleRel Proofs.CompilerScaleFold.
Import ListNotations.
Local Open Scope nat_scope.

Section Embed.
  Variable Rn : num -> num -> Prop.
  Hypothesis Rn_eqb : forall a a' b b', Rn a a' -> Rn b b' -> num_eqb a' b' = num_eqb a b.
  Notation svsR := (svs_R Rn).
  Notation symR := (sym_R Rn).
  Notation nodeR := (node_R Rn).

  Definition eenv_R : eenv -> eenv -> Prop :=
    Forall2 (fun x y : svs * node => svsR (fst x) (fst y) /\ nodeR (snd x) (snd y)).

  Lemma eenv_lookup_R en en' k k' : eenv_R en en' -> svsR k k' ->
    opt_R nodeR (eenv_lookup k en) (eenv_lookup k' en').
  Proof.
    intros He Hk. induction He as [|[a x] [a' x'] l l' [Ha Hx] _ IH]; [exact I|].
    simpl in *. rewrite (svs_eqb_R Rn Rn_eqb a a' Ha k k' Hk).
    destruct (svs_eqb a k); [exact Hx | exact IH].
  Qed.

  Lemma y_embed_R en en' : eenv_R en en' -> forall t t', symR t t' ->
    nodeR (fst (y_embed en t)) (fst (y_embed en' t')) /\ snd (y_embed en' t') = snd (y_embed en t).
  Proof.
    intros He t t' H.
    induction H as [d d' q q' Hd Hq | d d' ins ins' Hd Hi IH | k k' i a a' Hk Ha | b b' ns ns' sh Hb IHb Hn]
      using sym_R_ind'.
    - simpl. tauto.
    - change (y_embed en (YStep d ins)) with
        (Step d (map fst (map (y_embed en) ins)), forallb snd (map (y_embed en) ins)).
      change (y_embed en' (YStep d' ins')) with
        (Step d' (map fst (map (y_embed en') ins')), forallb snd (map (y_embed en') ins')).
      simpl fst; simpl snd. rewrite node_R_Step. clear Hi.
      induction IH as [|x y l l' [Hxy Hok] _ IHl]; simpl.
      + split; [split; [exact Hd | constructor] | reflexivity].
      + destruct IHl as [[_ Hl] Hokl]. rewrite Hok, Hokl.
        split; [split; [exact Hd | now constructor] | reflexivity].
    - simpl. pose proof (eenv_lookup_R en en' k k' He Hk) as HL.
      destruct (eenv_lookup k en) as [x|], (eenv_lookup k' en') as [x'|]; simpl in HL |- *; try tauto.
      split; [split; [constructor | exact I] | reflexivity].
    - change (y_embed en (YSub b ns sh)) with (SubRecipe (fst (y_embed en b)) ns sh, snd (y_embed en b)).
      change (y_embed en' (YSub b' ns' sh)) with (SubRecipe (fst (y_embed en' b')) ns' sh, snd (y_embed en' b')).
      simpl. tauto.
  Qed.
End Embed.

Section Embed2.
  Variable Rn : num -> num -> Prop.
  Hypothesis Rn_eqb : forall a a' b b', Rn a a' -> Rn b b' -> num_eqb a' b' = num_eqb a b.
  Variable lower : str -> str.
  Notation svsR := (svs_R Rn).
  Notation symR := (sym_R Rn).
  Notation nodeR := (node_R Rn).
  Notation rootR := (sroot_R Rn).
  Notation eenvR := (eenv_R Rn).
  Notation norm := (normalise_output_name lower).

  Definition roots_out_R (a a' : list node * bool * eenv) : Prop :=
    Forall2 nodeR (fst (fst a)) (fst (fst a')) /\ snd (fst a') = snd (fst a) /\ eenvR (snd a) (snd a').

  Lemma embed_roots_R rs rs' : Forall2 rootR rs rs' -> forall en en', eenvR en en' ->
    roots_out_R (embed_roots lower rs en) (embed_roots lower rs' en').
  Proof.
    induction 1 as [|[t u] [t' u'] l l' [Ht _] _ IH]; intros en en' He; simpl in *.
    - split; [constructor | split; [reflexivity | exact He]].
    - destruct (y_embed_R Rn Rn_eqb en en' He t t' Ht) as [HN HO].
      destruct (y_embed en t) as [n ok], (y_embed en' t') as [n' ok']. simpl in HN, HO. subst ok'.
      assert (H1 : eenvR (match t with YSub _ ns _ => map (fun n0 => (norm n0, n)) ns ++ en | _ => en end)
                         (match t' with YSub _ ns _ => map (fun n0 => (norm n0, n')) ns ++ en' | _ => en' end)).
      { destruct Ht; try exact He. apply Forall2_app; [|exact He].
        apply map_R with (R := svsR); [assumption|]. intros x y Hxy. split; simpl; [now apply norm_R | exact HN]. }
      specialize (IH _ _ H1). unfold roots_out_R in IH.
      destruct (embed_roots lower l _) as [[xs ok1] e2], (embed_roots lower l' _) as [[xs' ok1'] e2'].
      simpl in IH. destruct IH as (Hxs & Hok & He2). subst ok1'.
      split; simpl; [now constructor | split; [reflexivity | exact He2]].
  Qed.

  Lemma embed_from_R f f' : forest_R Rn f f' -> forall en en', eenvR en en' ->
    Forall2 (Forall2 nodeR) (fst (embed_from lower f en)) (fst (embed_from lower f' en')) /\
    snd (embed_from lower f' en') = snd (embed_from lower f en).
  Proof.
    induction 1 as [|rs rs' l l' Hrs _ IH]; intros en en' He; simpl.
    - split; [constructor | reflexivity].
    - pose proof (embed_roots_R rs rs' Hrs en en' He) as HR. unfold roots_out_R in HR.
      destruct (embed_roots lower rs en) as [[xs ok] e1], (embed_roots lower rs' en') as [[xs' ok'] e1'].
      simpl in HR. destruct HR as (Hxs & Hok & He1). subst ok'.
      specialize (IH _ _ He1).
      destruct (embed_from lower l e1) as [bs ok2], (embed_from lower l' e1') as [bs' ok2'].
      simpl in IH |- *. destruct IH as [Hbs Hok2]. subst ok2'. split; [now constructor | reflexivity].
  Qed.
End Embed2.

(** ** The whole: related programs have related outcomes *)
Section Whole.
  Variable Rn : num -> num -> Prop.
  Hypothesis Rn_eqb : forall a a' b b', Rn a a' -> Rn b b' -> num_eqb a' b' = num_eqb a b.
  Variable convert : str -> str -> option num.
  Variable tol : Z * positive.
  Variable lower : str -> str.

  Definition outcome_R (o o' : outcome) : Prop :=
    match o, o' with
    | COk bs, COk bs' => Forall2 (Forall2 (node_R Rn)) bs bs'
    | CErr k b off, CErr k' b' off' => k = k' /\ b = b' /\ off = off'
    | CCrash c, CCrash c' => c = c'
    | _, _ => False
    end.

  Theorem sym_compile_R p p' : prog_R Rn p p' ->
    Forall (same_decision Rn convert tol lower) (compared_pairs convert tol lower p) ->
    outcome_R (sym_compile convert tol lower p) (sym_compile convert tol lower p').
  Proof.
    intros Hp Hd. unfold sym_compile. unfold compared_pairs in Hd.
    pose proof (sym_resolve_R Rn lower Rn_eqb p p' Hp) as HR.
    destruct (sym_resolve lower p) as [f keys|k b o], (sym_resolve lower p') as [f' keys'|k' b' o'];
      simpl in HR; try tauto; [|simpl; tauto].
    destruct HR as [Hf Hk].
    pose proof (sym_fold_R Rn Rn_eqb convert tol lower keys keys' Hk f f' Hf Hd) as HF.
    destruct (sym_fold convert tol lower keys f) as [g|], (sym_fold convert tol lower keys' f') as [g'|];
      simpl in HF |- *; try tauto.
    unfold sym_embed.
    destruct (embed_from_R Rn Rn_eqb lower g g' HF [] [] (Forall2_nil _)) as [Hbs Hok].
    destruct (embed_from lower g []) as [bs ok], (embed_from lower g' []) as [bs' ok'].
    simpl in Hbs, Hok. subst ok'. destruct ok; simpl; [exact Hbs | reflexivity].
  Qed.
End Whole.
