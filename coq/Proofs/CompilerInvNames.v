(** * Compiler invariants, part 2: output-name normalisation respects [==]
    of scaled value strings ([svs_eqb]: strings exactly, numbers numerically). *)
From Coq Require Import List ZArith NArith Bool Lia.
From RG Require Import Base.Str Base.Num Model.Recipe Model.Compiler
  Proofs.RecipeInd Proofs.NodeEqv.
Import ListNotations.

Definition peqv (p q : part) : Prop := part_eqb p q = true.
Definition seqv (a b : svs) : Prop := Forall2 peqv a b.

Lemma list_eqb_Forall2 {A} (eqb : A -> A -> bool) a b :
  list_eqb eqb a b = true <-> Forall2 (fun x y => eqb x y = true) a b.
Proof.
  revert b. induction a as [|x a IH]; destruct b as [|y b]; simpl; split; intro H;
    try discriminate; try constructor; try (inversion H; fail).
  - apply andb_true_iff in H. tauto.
  - apply IH. apply andb_true_iff in H. tauto.
  - inversion H; subst. apply andb_true_iff. split; [assumption | now apply IH].
Qed.

Lemma svs_eqb_seqv a b : svs_eqb a b = true <-> seqv a b.
Proof. apply list_eqb_Forall2. Qed.

Lemma peqv_str x p : peqv (PStr x) p -> p = PStr x.
Proof. destruct p; unfold peqv; simpl; [|discriminate]. rewrite str_eqb_eq. congruence. Qed.

Lemma peqv_num v p : peqv (PNum v) p -> exists w, p = PNum w /\ num_eqb v w = true.
Proof. destruct p; unfold peqv; simpl; [discriminate|]. eauto. Qed.

Lemma peqv_refl p : peqv p p.
Proof. apply part_eqb_refl. Qed.

Lemma svs_merge_seqv a b : seqv a b -> seqv (svs_merge a) (svs_merge b).
Proof.
  induction 1 as [|p q a b Hpq Hab IH]; [constructor|].
  destruct p as [x|v].
  - apply peqv_str in Hpq. subst q. simpl.
    inversion IH as [|p' q' a' b' Hpq' Hab' E1 E2].
    + constructor; [apply peqv_refl | constructor].
    + destruct p' as [x'|v'].
      * apply peqv_str in Hpq'. subst q'. constructor; [apply peqv_refl | exact Hab'].
      * destruct (peqv_num _ _ Hpq') as (w & -> & Hw).
        constructor; [apply peqv_refl|]. constructor; [exact Hw | exact Hab'].
  - destruct (peqv_num _ _ Hpq) as (w & -> & Hw). simpl. constructor; [exact Hw | exact IH].
Qed.

Lemma peqv_nonempty p q : peqv p q -> part_nonempty p = part_nonempty q.
Proof.
  destruct p as [x|v]; intro H.
  - apply peqv_str in H. now subst.
  - destruct (peqv_num _ _ H) as (w & -> & _). reflexivity.
Qed.

Lemma filter_seqv a b : seqv a b -> seqv (filter part_nonempty a) (filter part_nonempty b).
Proof.
  induction 1 as [|p q a b Hpq Hab IH]; [constructor|]. simpl.
  rewrite <- (peqv_nonempty _ _ Hpq). destruct (part_nonempty p); [constructor|]; assumption.
Qed.

Lemma svs_norm_seqv a b : seqv a b -> seqv (svs_norm a) (svs_norm b).
Proof. intro H. apply filter_seqv, svs_merge_seqv, H. Qed.

Lemma svs_lstrip_seqv a b : seqv a b -> seqv (svs_lstrip a) (svs_lstrip b).
Proof.
  intro H. inversion H as [|p q a' b' Hpq Hab]; subst; [constructor|].
  destruct p as [x|v].
  - apply peqv_str in Hpq. subst q. simpl. apply svs_norm_seqv.
    constructor; [apply peqv_refl | exact Hab].
  - destruct (peqv_num _ _ Hpq) as (w & -> & Hw). simpl. exact H.
Qed.

Lemma svs_rstrip_raw_seqv a b : seqv a b -> seqv (svs_rstrip_raw a) (svs_rstrip_raw b).
Proof.
  induction 1 as [|p q a b Hpq Hab IH]; [constructor|].
  inversion Hab as [|p' q' a' b' Hpq' Hab']; subst.
  - destruct p as [x|v].
    + apply peqv_str in Hpq. subst q. simpl. constructor; [apply peqv_refl | constructor].
    + destruct (peqv_num _ _ Hpq) as (w & -> & Hw). simpl. constructor; [exact Hw | constructor].
  - change (svs_rstrip_raw (p :: p' :: a')) with
      (match p with PStr _ => p :: svs_rstrip_raw (p' :: a') | PNum _ => p :: svs_rstrip_raw (p' :: a') end).
    change (svs_rstrip_raw (q :: q' :: b')) with
      (match q with PStr _ => q :: svs_rstrip_raw (q' :: b') | PNum _ => q :: svs_rstrip_raw (q' :: b') end).
    destruct p, q; constructor; assumption.
Qed.

Section Lower.
  Variable lower : str -> str.

  Lemma svs_lower_seqv a b : seqv a b -> seqv (svs_lower lower a) (svs_lower lower b).
  Proof.
    intro H. unfold svs_lower. apply svs_norm_seqv.
    induction H as [|p q a b Hpq Hab IH]; simpl; [constructor|]. constructor; [|exact IH].
    destruct p as [x|v].
    - apply peqv_str in Hpq. subst q. apply peqv_refl.
    - destruct (peqv_num _ _ Hpq) as (w & -> & Hw). exact Hw.
  Qed.

  (** Names that are [==] normalise to keys that are [==]. *)
  Lemma normalise_svs_eqb a b :
    svs_eqb a b = true ->
    svs_eqb (normalise_output_name lower a) (normalise_output_name lower b) = true.
  Proof.
    rewrite !svs_eqb_seqv. intro H. unfold normalise_output_name, svs_rstrip.
    apply svs_lower_seqv, svs_norm_seqv, svs_rstrip_raw_seqv, svs_lstrip_seqv, H.
  Qed.
End Lower.
