(** * The [known_unit] scanner: soundness/completeness of the backtracking
    matcher w.r.t. [Matches], and uniqueness of the candidate that is followed
    by a word boundary (from a syntactic check of the alternatives, which is
    then computed over the whole generated regex). *)
From Coq Require Import List ZArith NArith Bool Lia.
From RG Require Import Base.Str Base.Num Gen.GenUnits Model.Recipe Model.Units Spec.UnitsRef.
Import ListNotations.
Open Scope N_scope.

(** ** Small list facts *)
Lemma memN_In c l : memN c l = true <-> In c l.
Proof.
  unfold memN. rewrite existsb_exists. split.
  - intros [x [Hin He]]. apply N.eqb_eq in He. subst. exact Hin.
  - intro Hin. exists c. split; [exact Hin | apply N.eqb_refl].
Qed.

Lemma last_opt_cons c v : v <> [] -> last_opt (c :: v) = last_opt v.
Proof. destruct v as [|d v']; [congruence | reflexivity]. Qed.

Lemma last_opt_app w v : v <> [] -> last_opt (w ++ v) = last_opt v.
Proof.
  intro Hv. induction w as [|c w IH]; [reflexivity|].
  simpl app. rewrite last_opt_cons; [exact IH|].
  destruct w; destruct v; simpl; congruence.
Qed.

Lemma find_exists {A} (f : A -> bool) l y : In y l -> f y = true -> exists z, find f l = Some z.
Proof.
  intros Hin Hf. destruct (find f l) as [z|] eqn:E; [eauto|].
  pose proof (find_none f l E y Hin) as Hn. congruence.
Qed.

(** ** The matcher *)
Lemma ws_splits_spec x : forall w r,
  In (w, r) (ws_splits x) <-> (w <> [] /\ forallb is_ws w = true /\ x = w ++ r).
Proof.
  induction x as [|c t IH]; intros w r; simpl.
  - split; [tauto|]. intros [Hne [_ He]]. destruct w; [congruence | discriminate].
  - destruct (is_ws c) eqn:Hc.
    + rewrite in_app_iff, in_map_iff. split.
      * intros [[[w' r'] [He Hin]] | [He | []]].
        -- unfold cons_fst in He; simpl in He. inversion He; subst.
           apply IH in Hin as [Hne [Hws Hx]]. subst t.
           repeat split; [discriminate | simpl; rewrite Hc; exact Hws].
        -- inversion He; subst. repeat split; [discriminate | simpl; rewrite Hc; reflexivity].
      * intros [Hne [Hws He]]. destruct w as [|c' w']; [congruence|].
        simpl in He. inversion He; subst c' t. simpl in Hws. rewrite Hc in Hws. simpl in Hws.
        destruct w' as [|d w''].
        -- right. left. reflexivity.
        -- left. exists (d :: w'', r). split; [reflexivity|].
           apply IH. repeat split; [discriminate | exact Hws].
    + split; [intros []|]. intros [Hne [Hws He]]. destruct w as [|c' w']; [congruence|].
      simpl in He. inversion He; subst c'. simpl in Hws. rewrite Hc in Hws. discriminate.
Qed.

Lemma match_pieces_sound ps : forall x m r,
  In (m, r) (match_pieces known_unit_ci ps x) -> x = m ++ r /\ Matches ps m.
Proof.
  induction ps as [|p ps IH]; intros x m r Hin; cbn [match_pieces] in Hin.
  - destruct Hin as [He | []]. inversion He; subst. split; [reflexivity | constructor].
  - destruct p as [a|].
    + destruct x as [|c t]; [destruct Hin|].
      destruct (lit_match_with known_unit_ci a c) eqn:Hl; [|destruct Hin].
      apply in_map_iff in Hin as [[m' r'] [He Hin]].
      unfold cons_fst in He; simpl in He. inversion He; subst.
      apply IH in Hin as [Hx HM]. subst t. split; [reflexivity|].
      constructor; [exact Hl | exact HM].
    + apply in_flat_map in Hin as [[w r0] [Hs Hin]]. simpl in Hin.
      apply in_map_iff in Hin as [[m' r'] [He Hin]].
      unfold app_fst in He; simpl in He. inversion He; subst.
      apply ws_splits_spec in Hs as [Hne [Hws Hx]].
      apply IH in Hin as [Hx' HM]. subst. split; [rewrite app_assoc; reflexivity|].
      constructor; assumption.
Qed.

Lemma match_pieces_complete ps m : Matches ps m ->
  forall r, In (m, r) (match_pieces known_unit_ci ps (m ++ r)).
Proof.
  induction 1 as [|a c ps v Hl HM IH | w ps v Hne Hws HM IH]; intro r; cbn [match_pieces app].
  - left. reflexivity.
  - unfold lit_ok in Hl. rewrite Hl. apply in_map_iff. exists (v, r). split; [reflexivity | apply IH].
  - apply in_flat_map. exists (w, v ++ r). split.
    + apply ws_splits_spec. repeat split; [exact Hne | exact Hws | rewrite app_assoc; reflexivity].
    + simpl. apply in_map_iff. exists (v, r). split; [reflexivity | apply IH].
Qed.

(** ** Well-formed alternatives and the shadowing check *)
Definition eff_class (a : N) : list N := if known_unit_ci then ci_class a else [a].

Lemma lit_match_eff a c : lit_match_with known_unit_ci a c = memN c (eff_class a).
Proof.
  unfold lit_match_with, eff_class. destruct known_unit_ci; [reflexivity|].
  unfold memN. simpl. rewrite orb_false_r. apply N.eqb_sym.
Qed.

Definition good_class (a : N) : bool :=
  forallb (fun c => is_word c && negb (is_ws c)) (eff_class a).

Lemma good_class_spec a c : good_class a = true -> lit_ok a c -> is_word c = true /\ is_ws c = false.
Proof.
  unfold good_class, lit_ok. rewrite lit_match_eff, forallb_forall. intros Hg Hm.
  apply memN_In in Hm. apply Hg in Hm. apply andb_true_iff in Hm as [H1 H2].
  split; [exact H1 | apply negb_true_iff; exact H2].
Qed.

Fixpoint wf_tail (ps : list piece) : bool :=
  match ps with
  | [] => true
  | PLit a :: r => good_class a && wf_tail r
  | PWs :: r => match r with PLit _ :: _ => wf_tail r | _ => false end
  end.

Definition last_is_lit (ps : list piece) : bool :=
  match last ps PWs with PLit _ => true | PWs => false end.

Definition wf_alt (ps : list piece) : bool :=
  match ps with PLit _ :: _ => wf_tail ps && last_is_lit ps | _ => false end.

(** [overlap a b]: some character is matched by both literals. *)
Definition overlap (a b : N) : bool := existsb (fun c => memN c (eff_class b)) (eff_class a).

Lemma overlap_spec a b c : lit_ok a c -> lit_ok b c -> overlap a b = true.
Proof.
  unfold lit_ok, overlap. rewrite !lit_match_eff. intros Ha Hb.
  apply existsb_exists. exists c. split; [apply memN_In; exact Ha | exact Hb].
Qed.

(** [conflict pa pb]: a text matched by [pa] could be a proper prefix of a
    text matched by [pb] and end where [pb] has white space (the only place
    where a word boundary can occur inside a spelling). *)
Fixpoint conflict (pa pb : list piece) : bool :=
  match pa, pb with
  | [], PWs :: _ => true
  | [], _ => false
  | PLit a :: pa', PLit b :: pb' => overlap a b && conflict pa' pb'
  | PWs :: pa', PWs :: pb' => conflict pa' pb'
  | _, _ => false
  end.

Lemma ws_run_unique w1 : forall w2 c1 t1 c2 t2,
  forallb is_ws w1 = true -> forallb is_ws w2 = true -> is_ws c1 = false -> is_ws c2 = false ->
  w1 ++ c1 :: t1 = w2 ++ c2 :: t2 -> w1 = w2 /\ c1 :: t1 = c2 :: t2.
Proof.
  induction w1 as [|x w1 IH]; intros w2 c1 t1 c2 t2 H1 H2 Hc1 Hc2 He; destruct w2 as [|y w2]; simpl in *.
  - split; [reflexivity | exact He].
  - inversion He; subst. apply andb_true_iff in H2 as [Hy _]. congruence.
  - inversion He; subst. apply andb_true_iff in H1 as [Hx _]. congruence.
  - inversion He; subst. apply andb_true_iff in H1 as [_ H1]. apply andb_true_iff in H2 as [_ H2].
    destruct (IH w2 c1 t1 c2 t2 H1 H2 Hc1 Hc2 H3) as [Hw Ht]. subst. split; [reflexivity | exact Ht].
Qed.

Lemma Matches_nil_inv m : Matches [] m -> m = [].
Proof. inversion 1; reflexivity. Qed.

Lemma Matches_lit_inv a ps m : Matches (PLit a :: ps) m ->
  exists c v, m = c :: v /\ lit_ok a c /\ Matches ps v.
Proof. inversion 1; subst. eauto. Qed.

Lemma Matches_ws_inv ps m : Matches (PWs :: ps) m ->
  exists w v, m = w ++ v /\ w <> [] /\ forallb is_ws w = true /\ Matches ps v.
Proof. inversion 1; subst. eauto 6. Qed.

(** Key lemma: if [pa] matches a strictly shorter prefix than [pb] of the same
    text and the check finds no conflict, the character after [pa]'s match is
    a word character. *)
Lemma no_boundary_inside pa : forall pb m1 m2 r1 r2,
  wf_tail pa = true -> wf_tail pb = true ->
  Matches pa m1 -> Matches pb m2 -> m1 ++ r1 = m2 ++ r2 ->
  (length m1 < length m2)%nat -> conflict pa pb = false ->
  exists c t, r1 = c :: t /\ is_word c = true.
Proof.
  induction pa as [|p pa IH]; intros pb m1 m2 r1 r2 Wa Wb M1 M2 He Hlen Hc.
  - apply Matches_nil_inv in M1. subst m1. simpl in He, Hlen.
    destruct pb as [|[b|] pb].
    + apply Matches_nil_inv in M2. subst. simpl in Hlen. lia.
    + apply Matches_lit_inv in M2 as [c [v [Hm [Hl _]]]]. subst m2. simpl in He.
      simpl in Wb. apply andb_true_iff in Wb as [Hg _].
      exists c, (v ++ r2). split; [exact He | exact (proj1 (good_class_spec b c Hg Hl))].
    + simpl in Hc. discriminate.
  - destruct p as [a|].
    + apply Matches_lit_inv in M1 as [c [v1 [Hm1 [Hl1 M1]]]]. subst m1.
      simpl in Wa. apply andb_true_iff in Wa as [Hga Wa].
      destruct pb as [|[b|] pb].
      * apply Matches_nil_inv in M2. subst. simpl in Hlen. lia.
      * apply Matches_lit_inv in M2 as [c' [v2 [Hm2 [Hl2 M2]]]]. subst m2.
        simpl in He. inversion He; subst c'.
        simpl in Wb. apply andb_true_iff in Wb as [_ Wb].
        simpl in Hc. rewrite (overlap_spec a b c Hl1 Hl2) in Hc. simpl in Hc.
        simpl in Hlen. apply (IH pb v1 v2 r1 r2 Wa Wb M1 M2 H1); [lia | exact Hc].
      * apply Matches_ws_inv in M2 as [w [v2 [Hm2 [Hne [Hws _]]]]]. subst m2.
        destruct w as [|x w]; [congruence|]. simpl in He. inversion He; subst x.
        simpl in Hws. apply andb_true_iff in Hws as [Hx _].
        pose proof (proj2 (good_class_spec a c Hga Hl1)). congruence.
    + apply Matches_ws_inv in M1 as [w1 [v1 [Hm1 [Hne1 [Hws1 M1]]]]]. subst m1.
      simpl in Wa. destruct pa as [|[a|] pa]; try discriminate.
      pose proof M1 as M1'. apply Matches_lit_inv in M1' as [c1 [v1' [Hv1 [Hl1 _]]]].
      pose proof Wa as Wa'. simpl in Wa'. apply andb_true_iff in Wa' as [Hga _].
      pose proof (proj2 (good_class_spec a c1 Hga Hl1)) as Hc1.
      destruct pb as [|[b|] pb].
      * apply Matches_nil_inv in M2. subst. simpl in Hlen. lia.
      * apply Matches_lit_inv in M2 as [c' [v2 [Hm2 [Hl2 _]]]]. subst m2.
        destruct w1 as [|x w1]; [congruence|]. simpl in He. inversion He; subst x.
        simpl in Hws1. apply andb_true_iff in Hws1 as [Hx _].
        simpl in Wb. apply andb_true_iff in Wb as [Hgb _].
        pose proof (proj2 (good_class_spec b c' Hgb Hl2)). congruence.
      * apply Matches_ws_inv in M2 as [w2 [v2 [Hm2 [Hne2 [Hws2 M2]]]]]. subst m2.
        simpl in Wb. destruct pb as [|[b|] pb]; try discriminate.
        pose proof M2 as M2'. apply Matches_lit_inv in M2' as [c2 [v2' [Hv2 [Hl2 _]]]].
        pose proof Wb as Wb'. simpl in Wb'. apply andb_true_iff in Wb' as [Hgb _].
        pose proof (proj2 (good_class_spec b c2 Hgb Hl2)) as Hc2.
        subst v1 v2. rewrite <- !app_assoc in He. simpl in He.
        destruct (ws_run_unique w1 w2 c1 (v1' ++ r1) c2 (v2' ++ r2) Hws1 Hws2 Hc1 Hc2 He) as [Hw Ht].
        subst w2. rewrite !app_length in Hlen.
        apply (IH (PLit b :: pb) (c1 :: v1') (c2 :: v2') r1 r2 Wa Wb M1 M2); [exact Ht | lia | exact Hc].
Qed.

Lemma Matches_last_word ps m :
  Matches ps m -> ps <> [] -> wf_tail ps = true -> last_is_lit ps = true ->
  exists c, last_opt m = Some c /\ is_word c = true.
Proof.
  induction 1 as [|a c ps v Hl HM IH | w ps v Hne Hws HM IH]; intros Hps Wf Hlast.
  - congruence.
  - simpl in Wf. apply andb_true_iff in Wf as [Hg Wf].
    destruct ps as [|p ps'].
    + apply Matches_nil_inv in HM. subst v. exists c. split; [reflexivity|].
      exact (proj1 (good_class_spec a c Hg Hl)).
    + assert (Hl' : last_is_lit (p :: ps') = true) by exact Hlast.
      destruct (IH ltac:(discriminate) Wf Hl') as [c' [Hc' Hw']].
      exists c'. split; [|exact Hw'].
      rewrite last_opt_cons; [exact Hc'|]. intro; subst v. discriminate.
  - simpl in Wf. destruct ps as [|[b|] ps']; try discriminate.
    assert (Hl' : last_is_lit (PLit b :: ps') = true) by exact Hlast.
    destruct (IH ltac:(discriminate) Wf Hl') as [c' [Hc' Hw']].
    exists c'. split; [|exact Hw'].
    rewrite last_opt_app; [exact Hc'|]. intro; subst v. discriminate.
Qed.

(** ** The table check and the uniqueness of boundary-followed candidates *)
Definition scan_table_ok (alts : list (list piece)) : bool :=
  forallb wf_alt alts &&
  forallb (fun a => forallb (fun b => negb (conflict a b)) alts) alts.

Lemma wf_alt_parts ps : wf_alt ps = true -> ps <> [] /\ wf_tail ps = true /\ last_is_lit ps = true.
Proof.
  unfold wf_alt. destruct ps as [|[a|] ps]; try discriminate.
  intro H. apply andb_true_iff in H as [H1 H2]. repeat split; [discriminate | exact H1 | exact H2].
Qed.

Lemma boundary_word_word m r c c' t :
  last_opt m = Some c -> is_word c = true -> r = c' :: t -> is_word c' = true ->
  word_boundary (last_opt m) (hd_error r) = false.
Proof.
  intros H1 H2 H3 H4. subst r. rewrite H1. unfold word_boundary, opt_word, hd_error.
  rewrite H2, H4. reflexivity.
Qed.

Lemma candidates_unique alts pa pb m1 m2 r1 r2 :
  scan_table_ok alts = true -> In pa alts -> In pb alts ->
  Matches pa m1 -> Matches pb m2 -> m1 ++ r1 = m2 ++ r2 ->
  word_boundary (last_opt m1) (hd_error r1) = true ->
  word_boundary (last_opt m2) (hd_error r2) = true ->
  m1 = m2 /\ r1 = r2.
Proof.
  intros Hok Ha Hb M1 M2 He B1 B2.
  apply andb_true_iff in Hok as [Hwf Hcf]. rewrite forallb_forall in Hwf, Hcf.
  destruct (wf_alt_parts pa (Hwf pa Ha)) as [Na [Wa La]].
  destruct (wf_alt_parts pb (Hwf pb Hb)) as [Nb [Wb Lb]].
  assert (Cab : conflict pa pb = false).
  { pose proof (Hcf pa Ha) as H. rewrite forallb_forall in H. apply negb_true_iff, H, Hb. }
  assert (Cba : conflict pb pa = false).
  { pose proof (Hcf pb Hb) as H. rewrite forallb_forall in H. apply negb_true_iff, H, Ha. }
  destruct (Nat.lt_trichotomy (length m1) (length m2)) as [Hlt | [Heq | Hgt]].
  - destruct (no_boundary_inside pa pb m1 m2 r1 r2 Wa Wb M1 M2 He Hlt Cab) as [c [t [Hr Hw]]].
    destruct (Matches_last_word pa m1 M1 Na Wa La) as [c0 [Hc0 Hw0]].
    rewrite (boundary_word_word m1 r1 c0 c t Hc0 Hw0 Hr Hw) in B1. discriminate.
  - assert (Hm : m1 = m2).
    { clear - He Heq. revert m2 He Heq. induction m1 as [|x m1 IH]; intros [|y m2] He Heq; simpl in *;
        try discriminate; [reflexivity|]. inversion He; subst. f_equal. apply IH; [assumption | lia]. }
    subst m2. split; [reflexivity | exact (app_inv_head m1 r1 r2 He)].
  - symmetry in He.
    destruct (no_boundary_inside pb pa m2 m1 r2 r1 Wb Wa M2 M1 He Hgt Cba) as [c [t [Hr Hw]]].
    destruct (Matches_last_word pb m2 M2 Nb Wb Lb) as [c0 [Hc0 Hw0]].
    rewrite (boundary_word_word m2 r2 c0 c t Hc0 Hw0 Hr Hw) in B2. discriminate.
Qed.

(** ** Consequences for [scan_alts] *)
Lemma scan_alts_sound ci_bd alts x m r :
  ci_bd = true ->
  scan_alts known_unit_ci ci_bd alts x = Some (m, r) ->
  exists pa, In pa alts /\ Matches pa m /\ x = m ++ r /\
             word_boundary (last_opt m) (hd_error r) = true.
Proof.
  intros Hb Hs. subst ci_bd. unfold scan_alts in Hs. apply find_some in Hs as [Hin Hbd].
  apply in_flat_map in Hin as [pa [Hpa Hin]].
  apply match_pieces_sound in Hin as [Hx HM].
  exists pa. repeat split; assumption.
Qed.

Lemma scan_alts_finds alts pa v rest :
  scan_table_ok alts = true -> In pa alts -> Matches pa v ->
  word_boundary (last_opt v) (hd_error rest) = true ->
  scan_alts known_unit_ci true alts (v ++ rest) = Some (v, rest).
Proof.
  intros Hok Hpa HM Hbd.
  assert (Hcand : In (v, rest) (flat_map (fun alt => match_pieces known_unit_ci alt (v ++ rest)) alts)).
  { apply in_flat_map. exists pa. split; [exact Hpa | apply match_pieces_complete; exact HM]. }
  destruct (find_exists (boundary_ok true) _ (v, rest) Hcand Hbd) as [[m' r'] Hf].
  unfold scan_alts. rewrite Hf.
  destruct (scan_alts_sound true alts (v ++ rest) m' r' eq_refl Hf) as [pb [Hpb [HM' [Hx Hbd']]]].
  destruct (candidates_unique alts pa pb v m' rest r' Hok Hpa Hpb HM HM' Hx Hbd Hbd') as [E1 E2].
  subst. reflexivity.
Qed.
