(** * Glue for C13: the whole document with the compiler and renderer models
    as the Markdown model's oracles (Model/RenderDoc.v). *)
From Coq Require Import List ZArith NArith Bool Lia.
From RG Require Import Base.Str Base.Num Model.Recipe Model.Compiler Model.Parser Model.Layout Model.RenderTree
  Model.Markdown Model.RenderDoc Spec.MarkdownSpec
  Proofs.MarkdownText Proofs.MarkdownSubst Proofs.MarkdownCompile Proofs.MarkdownRender
  Proofs.PipelineWf Proofs.GlueValid Proofs.GlueLinks Proofs.GlueMarkdown Proofs.GlueRender.
Import ListNotations.

Lemma compile_src_opt_model srcs : compile_src_opt srcs = compile_model srcs.
Proof. reflexivity. Qed.

Lemma render_block_fast_eq k prefix trees : render_block_fast k prefix trees = render_block_model k prefix trees.
Proof.
  unfold render_block_fast, render_block_model, render_block_with.
  destruct (map_opt (scale_node k) trees); [|reflexivity].
  apply map_ext. intro t. now rewrite render_fast_eq.
Qed.

Theorem compile_src_opt_len_ok : compile_len_ok compile_src_opt.
Proof. exact compile_model_len_ok. Qed.

Theorem document_render_spec alt_escape k d slugs :
  Forall (fun g => slug_ok g = true) slugs ->
  Fresh alt_escape compile_src_opt render_block_model k d slugs ->
  md_render alt_escape compile_src_opt render_block_model k d slugs
  = spec_render alt_escape compile_src_opt render_block_model k d.
Proof. apply render_spec. exact compile_src_opt_len_ok. Qed.

Theorem block_renders_eq k prefix trees hs :
  block_renders k prefix trees hs -> render_block_model k prefix trees = hs.
Proof.
  intros (ts & Hs & HF). unfold render_block_model, render_block_with. rewrite Hs. clear Hs.
  induction HF as [|t h ts hs Ht _ IH]; simpl; [reflexivity|]. rewrite Ht. simpl. f_equal. exact IH.
Qed.

Lemma scale_iter_wf : forall ks bs bs', scale_blocks_iter ks bs = Some bs' ->
  (forall trees t, In trees bs -> In t trees -> wf (ltree_of_node t) = true) ->
  forall trees t, In trees bs' -> In t trees -> wf (ltree_of_node t) = true.
Proof.
  induction ks as [|k ks IH]; intros bs bs' H W; simpl in H.
  - inversion H; subst. exact W.
  - destruct (scale_blocks k bs) as [bs1|] eqn:E; [|discriminate].
    eapply IH; [exact H|]. eapply scale_blocks_wf; eauto.
Qed.

(** Every tree handed to the renderer for a compiled document, at any scale
    the number model accepts, is rendered as specified (Props/C04e2e.v). *)
Theorem document_trees_render alt_escape d slugs m :
  NoDup slugs -> Forall (fun g => slug_ok g = true) slugs ->
  md_compile alt_escape compile_src_opt d slugs = MOk m ->
  forall blocks trees k ts t prefix,
    In blocks (md_recipes m) -> In trees blocks ->
    map_opt (scale_node k) trees = Some ts -> In t ts ->
    renders_as_specified t prefix.
Proof.
  intros Hnd Hok H blocks trees k ts t prefix Hb Ht Hs Hin.
  pose proof (model_recipes_from_source alt_escape d slugs m Hnd Hok H) as HF.
  rewrite Forall_forall in HF. destruct (HF blocks Hb) as (srcs & bs & ks & Hc & Hk).
  apply wf_renders_as_specified.
  destruct (map_opt_In _ _ _ _ Hs Hin) as (t0 & Ht0 & Hsc).
  eapply scale_node_wf; [exact Hsc|].
  assert (Hw : forall trees' t', In trees' blocks -> In t' trees' -> wf (ltree_of_node t') = true).
  { eapply scale_iter_wf; [exact Hk|]. intros trees' t'. eapply compile_src_output_wf; eauto. }
  eapply Hw; eauto.
Qed.
