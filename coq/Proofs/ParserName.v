(** * Names (sequences of quoted / braced segments) and naked prefixes (C06). *)
From Coq Require Import List ZArith NArith Bool Lia Arith.
From RG Require Import Base.Str Base.Dec Base.Num Model.Recipe Model.Compiler Model.Parser Model.Printer
  Proofs.DecLemmas Proofs.ParserLex.
From RG Require Model.Units.
Import ListNotations.
Open Scope list_scope.
Open Scope N_scope.

Lemma note_none_r b : note b None = b.
Proof. destruct b; reflexivity. Qed.

Lemma with_bad_none r o b : with_bad (mkSt r o b) None = mkSt r o b.
Proof. unfold with_bad. cbn [rest off bad]. rewrite note_none_r. reflexivity. Qed.

(** ** Heads of printed things *)
Lemma ntext_head t : ntext_ok t = true -> exists c r, ntext_str t = c :: r /\ is_digit c = true.
Proof.
  assert (H : forall (d r : str), d <> [] -> forallb is_digit d = true ->
                exists c r', d ++ r = c :: r' /\ is_digit c = true).
  { intros d r Hn Hd. destruct d as [|c d']; [contradiction|]. cbn [forallb] in Hd.
    apply andb_true_iff in Hd as [Hc _]. exists c, (d' ++ r). split; [reflexivity | exact Hc]. }
  intro Hok. destruct t as [z n | i f | zn n w2 zd d | zi i wi zn n w1 w2 zd d]; cbn [ntext_str].
  - rewrite <- (app_nil_r (zs z ++ dec_N n)). apply H; [apply zs_dec_nonempty | apply digits_zs_dec].
  - cbn [ntext_ok] in Hok. apply andb_true_iff in Hok as [Hok _]. apply andb_true_iff in Hok as [Hok _].
    apply andb_true_iff in Hok as [Hid Hin]. apply H; [destruct i; [discriminate|discriminate] | exact Hid].
  - rewrite app_assoc. apply H; [apply zs_dec_nonempty | apply digits_zs_dec].
  - rewrite app_assoc. apply H; [apply zs_dec_nonempty | apply digits_zs_dec].
Qed.

Lemma print_char_head raw_ok m c : exists d r, print_char raw_ok m c = d :: r /\ (d = 92 \/ (d = c /\ raw_ok c = true)).
Proof.
  assert (D : exists d r, (if raw_ok c then [c] else [92; c]) = d :: r /\ (d = 92 \/ (d = c /\ raw_ok c = true))).
  { destruct (raw_ok c) eqn:E; [exists c, []; split; [reflexivity | right; split; reflexivity]
                               | exists 92, [c]; split; [reflexivity | left; reflexivity]]. }
  unfold print_char. destruct m; [exact D | | ].
  - destruct (self_esc c); [exists 92, [c]; split; [reflexivity | left; reflexivity] | exact D].
  - destruct (letter_of c) as [l|]; [exists 92, [l]; split; [reflexivity | left; reflexivity] | exact D].
Qed.

Lemma raw_ok_b_not_digit c : raw_ok_b c = true -> is_digit c = false.
Proof.
  unfold raw_ok_b. intro H. apply negb_true_iff in H. repeat (apply orb_false_iff in H as [H _]). exact H.
Qed.

(** The first character after the opening brace is a digit exactly when the
    group starts with a number. *)
Lemma bparts_head bs (r : str) : bparts_ok bs = true ->
  match print_bparts bs ++ 125 :: r with
  | d :: _ => is_digit d = match bs with BNum _ :: _ => true | _ => false end
  | [] => False
  end.
Proof.
  intro Hok. destruct bs as [|[x ms|t] bs']; cbn [print_bparts flat_map print_bpart app].
  - reflexivity.
  - cbn [bparts_ok] in Hok. apply andb_true_iff in Hok as [Hok _]. apply andb_true_iff in Hok as [Hx _].
    destruct x as [|c x']; [discriminate|]. cbn [print_chars].
    destruct (print_char_head raw_ok_b (hd MRaw ms) c) as [d [r' [E [Hd | [Hd Hr]]]]]; rewrite E; cbn [app].
    + subst d. reflexivity.
    + subst d. apply raw_ok_b_not_digit. exact Hr.
  - cbn [bparts_ok] in Hok. apply andb_true_iff in Hok as [Hok _]. apply andb_true_iff in Hok as [Hok _].
    apply andb_true_iff in Hok as [Ht _]. destruct (ntext_head t Ht) as [c [r' [E Hc]]]. rewrite E. cbn [app]. exact Hc.
Qed.

(** ** One segment *)
Theorem braced_roundtrip bs (rest0 : str) o b fuel :
  bparts_ok bs = true -> (items bs < fuel)%nat ->
  p_segment fuel true (mkSt (print_braced bs ++ rest0) o b) =
  Got (map bpart_val bs, seg_first_off (SB bs) o) (mkSt rest0 (o + len (print_braced bs)) b).
Proof.
  intros Hok Hf. unfold p_segment, print_braced. cbn [rest app sc_naked].
  change (naked_edge 123) with false. cbv iota.
  change ((123 =? 39) || (123 =? 34)) with false. cbv iota.
  change (true && (123 =? 123)) with true. cbv iota.
  rewrite <- app_assoc. cbn [app].
  replace fuel with (items bs + S (fuel - items bs - 1))%nat by lia.
  rewrite (braced_body_roundtrip bs _ rest0 Hok).
  pose proof (bparts_head bs rest0 Hok) as Hh.
  destruct (print_bparts bs ++ 125 :: rest0) as [|d t'] eqn:E; [contradiction|].
  unfold advn. cbn [off bad rest]. rewrite with_bad_none. rewrite Hh.
  rewrite len_cons, len_app, len_cons, len_nil.
  replace (o + (len (print_bparts bs) + 1 + 1)) with (o + (1 + (len (print_bparts bs) + (1 + 0)))) by lia.
  destruct bs as [|[x ms|t] bs']; reflexivity.
Qed.

Lemma items_cost bs : seg_cost (SB bs) = S (items bs).
Proof. reflexivity. Qed.

Lemma segment_roundtrip sg (r : str) o b fuel :
  seg_ok sg = true -> (seg_cost sg <= fuel)%nat ->
  p_segment fuel true (mkSt (print_seg sg ++ r) o b) =
  Got (seg_parts sg, seg_first_off sg o) (mkSt r (o + len (print_seg sg)) b).
Proof.
  intros Hok Hf. destruct sg as [q ms x | bs]; cbn [print_seg seg_parts seg_ok] in *.
  - apply quoted_roundtrip. apply orb_true_iff in Hok as [H|H]; apply N.eqb_eq in H; auto.
  - apply braced_roundtrip; [exact Hok|]. rewrite items_cost in Hf. lia.
Qed.

Lemma print_seg_head sg : seg_ok sg = true ->
  exists c r, print_seg sg = c :: r /\ (c = 34 \/ c = 39 \/ c = 123).
Proof.
  destruct sg as [q ms x | bs]; cbn [print_seg seg_ok]; intro H.
  - exists q, (print_chars (raw_ok_q q) ms x ++ [q]). split; [reflexivity|].
    apply orb_true_iff in H as [H|H]; apply N.eqb_eq in H; auto.
  - exists 123, (print_bparts bs ++ [125]). split; [reflexivity | auto].
Qed.

Lemma p_segment_fails (r : str) o b fuel braces : stops seg_start r ->
  p_segment fuel braces (mkSt r o b) = Fail.
Proof.
  intro H. unfold p_segment. cbn [rest]. destruct r as [|c t]; [reflexivity|].
  cbn [stops] in H. unfold seg_start in H.
  apply orb_false_iff in H as [H H123]. apply orb_false_iff in H as [H H39]. apply orb_false_iff in H as [He H34].
  cbn [sc_naked]. rewrite He, H39, H34, H123. cbn [orb]. rewrite andb_false_r. reflexivity.
Qed.

Lemma name_followb_stops k : name_followb k = true -> stops seg_start (snd (span is_hsp k)).
Proof. apply stopsb_stops. Qed.

Lemma span_is_hsp_split (k : str) : exists w r, span is_hsp k = (w, r) /\ k = w ++ r /\ forallb is_hsp w = true.
Proof.
  destruct (span is_hsp k) as [w r] eqn:E. exists w, r. destruct (span_spec _ _ _ _ E) as [A B]. auto.
Qed.

Lemma p_string_unfold f braces s :
  p_string (S f) braces s =
  match p_segment f braces s with
  | Got (ps, o) s1 =>
      match p_string f braces (snd (skip_hsp s1)) with
      | Got (ps2, _) s3 => Got (ps ++ PStr (fst (skip_hsp s1)) :: ps2, o) s3
      | Fail => Got (ps, o) s1
      | Fuel => Fuel
      end
  | Fail => Fail
  | Fuel => Fuel
  end.
Proof.
  cbn [p_string]. destruct (p_segment f braces s) as [[ps o] s1| |]; [|reflexivity|reflexivity].
  destruct (skip_hsp s1) as [w s2]. reflexivity.
Qed.

(** A failing continuation: after a complete name, the next thing is not a string segment. *)
Lemma p_string_stops (k : str) o b f braces : name_followb k = true ->
  p_string (S f) braces (snd (skip_hsp (mkSt k o b))) = Fail.
Proof.
  intro Hk. unfold skip_hsp, opt_hsp. cbn [rest]. apply name_followb_stops in Hk.
  destruct (span is_hsp k) as [w r] eqn:E. cbn [snd] in Hk. rewrite p_string_unfold.
  unfold adv. cbn [off bad snd]. rewrite (p_segment_fails r _ _ f braces Hk). reflexivity.
Qed.

(** ** Whole names *)
Lemma p_string_name : forall more first fuel (k : str) o b,
  seg_ok first = true -> more_ok more = true -> name_followb k = true ->
  (name_cost (mkName first more) <= fuel)%nat ->
  p_string fuel true (mkSt (print_seg first ++ print_more more ++ k) o b) =
  Got (seg_parts first ++ more_parts more, seg_first_off first o)
      (mkSt k (o + len (print_seg first ++ print_more more)) b).
Proof.
  induction more as [|[w sg] more IH]; intros first fuel k o b Hf Hm Hk Hc;
    unfold name_cost in Hc; cbn [nm_first nm_more fold_right snd] in Hc.
  - destruct fuel as [|[|f]]; [lia | lia |]. cbn [print_more more_parts app]. rewrite !app_nil_r.
    rewrite p_string_unfold. rewrite (segment_roundtrip first k o b (S f) Hf) by lia.
    rewrite (p_string_stops k (o + len (print_seg first)) b f true Hk). reflexivity.
  - destruct fuel as [|f]; [lia|]. cbn [more_ok forallb fst snd] in Hm.
    apply andb_true_iff in Hm as [Hw Hm]. apply andb_true_iff in Hw as [Hw Hsg].
    cbn [print_more more_parts]. repeat rewrite <- app_assoc. rewrite p_string_unfold.
    rewrite (segment_roundtrip first _ o b f Hf) by lia.
    destruct (print_seg_head sg Hsg) as [c [r' [Eh Hc3]]].
    assert (Hstop : stops is_hsp (print_seg sg ++ print_more more ++ k)).
    { rewrite Eh. cbn [app stops]. destruct Hc3 as [->|[->| ->]]; reflexivity. }
    rewrite (skip_hsp_run w _ _ _ Hw Hstop). cbn [fst snd].
    rewrite (IH sg f k _ b Hsg Hm Hk) by (unfold name_cost; cbn [nm_first nm_more]; lia).
    repeat rewrite <- app_assoc. cbn [app].
    f_equal. f_equal. rewrite !len_app. lia.
Qed.

Theorem name_roundtrip nm fuel (k : str) o b :
  name_ok nm = true -> name_followb k = true -> (name_cost nm <= fuel)%nat ->
  p_name fuel (mkSt (print_name nm ++ k) o b) =
  Got (name_val nm, name_off nm o) (mkSt k (o + len (print_name nm)) b).
Proof.
  intros Hok Hk Hc. destruct nm as [first more]. unfold name_ok in Hok. cbn [nm_first nm_more] in Hok.
  apply andb_true_iff in Hok as [Hf Hm].
  unfold p_name, print_name. cbn [nm_first nm_more]. rewrite <- app_assoc.
  rewrite (p_string_name more first fuel k o b Hf Hm Hk Hc). reflexivity.
Qed.

(** ** Naked prefixes (how a number / amount text is read when a NAME is tried first) *)
Lemma hsp_naked_mid c : is_hsp c = true -> naked_mid c = true.
Proof.
  unfold is_hsp, Units.is_hsp. intro H. apply orb_true_iff in H as [H|H]; apply N.eqb_eq in H; subst; reflexivity.
Qed.

Lemma naked_tail_ws (w : str) (d : N) (r : str) : forallb is_hsp w = true -> naked_mid d = false ->
  naked_tail (w ++ d :: r) = ([], w ++ d :: r).
Proof.
  intros Hw Hd. induction w as [|c w IH]; cbn [app naked_tail].
  - rewrite Hd. reflexivity.
  - cbn [forallb] in Hw. apply andb_true_iff in Hw as [Hc Hw]. rewrite (hsp_naked_mid c Hc), (IH Hw).
    rewrite (hsp_is_ws c Hc). reflexivity.
Qed.

Lemma naked_tail_run (Y : str) (e : N) (w : str) (d : N) (r : str) :
  forallb naked_mid Y = true -> naked_mid e = true -> is_ws e = false ->
  forallb is_hsp w = true -> naked_mid d = false ->
  naked_tail (Y ++ e :: w ++ d :: r) = (Y ++ [e], w ++ d :: r).
Proof.
  intros HY He Hews Hw Hd. induction Y as [|c Y IH]; cbn [app naked_tail].
  - rewrite He, (naked_tail_ws w d r Hw Hd), Hews. reflexivity.
  - cbn [forallb] in HY. apply andb_true_iff in HY as [Hc HY]. rewrite Hc, (IH HY).
    destruct (Y ++ [e]) eqn:E; [destruct Y; discriminate | reflexivity].
Qed.

(** A text of naked characters that does not end in whitespace, followed by
    horizontal space and a character that cannot continue a naked string, is
    read as one naked string. *)
Definition naked_text (A : str) : Prop :=
  exists c0 A', A = c0 :: A' /\ naked_edge c0 = true /\ forallb naked_mid A' = true /\ is_ws (last A 0) = false.

Lemma sc_naked_text (A w : str) (d : N) (r : str) :
  naked_text A -> forallb is_hsp w = true -> naked_mid d = false ->
  sc_naked (A ++ w ++ d :: r) = Some (A, w ++ d :: r).
Proof.
  intros [c0 [A' [-> [Hc0 [Hmid Hlast]]]]] Hw Hd. cbn [app sc_naked]. rewrite Hc0.
  destruct A' as [|a A''].
  - cbn [app]. rewrite (naked_tail_ws w d r Hw Hd). reflexivity.
  - destruct (exists_last (l := a :: A'') ltac:(discriminate)) as [Y [e EY]]. rewrite EY in *.
    rewrite forallb_app in Hmid. apply andb_true_iff in Hmid as [HY He]. cbn [forallb] in He.
    apply andb_true_iff in He as [He _].
    assert (Hl : last (c0 :: Y ++ [e]) 0 = e).
    { change (c0 :: Y ++ [e]) with ((c0 :: Y) ++ [e]). apply last_last. }
    rewrite Hl in Hlast. rewrite <- app_assoc. cbn [app].
    rewrite (naked_tail_run Y e w d r HY He Hlast Hw Hd). reflexivity.
Qed.

(** ... and a name tried on it continues into the quoted / braced name that follows. *)
Lemma p_string_naked_name (A w : str) nm fuel (k : str) o b :
  naked_text A -> forallb is_hsp w = true -> name_ok nm = true -> name_followb k = true ->
  (S (name_cost nm) <= fuel)%nat ->
  p_string fuel true (mkSt (A ++ w ++ print_name nm ++ k) o b) =
  Got (PStr A :: PStr w :: name_parts nm, o) (mkSt k (o + len (A ++ w ++ print_name nm)) b).
Proof.
  intros HA Hw Hn Hk Hc. destruct fuel as [|f]; [lia|].
  destruct nm as [first more]. unfold name_ok in Hn. cbn [nm_first nm_more] in Hn.
  apply andb_true_iff in Hn as [Hf Hm].
  destruct (print_seg_head first Hf) as [c [r' [Eh Hc3]]].
  unfold print_name. cbn [nm_first nm_more]. rewrite <- app_assoc.
  assert (Hd : naked_mid c = false) by (destruct Hc3 as [->|[->| ->]]; reflexivity).
  assert (Hn : sc_naked (A ++ w ++ print_seg first ++ print_more more ++ k)
               = Some (A, w ++ print_seg first ++ print_more more ++ k)).
  { rewrite Eh. cbn [app]. exact (sc_naked_text A w c _ HA Hw Hd). }
  assert (Hstop : stops is_hsp (print_seg first ++ print_more more ++ k)).
  { rewrite Eh. cbn [app stops]. destruct Hc3 as [->|[->| ->]]; reflexivity. }
  rewrite p_string_unfold. unfold p_segment at 1. cbn [rest]. rewrite Hn. unfold adv. cbn [off bad].
  rewrite (skip_hsp_run w _ _ _ Hw Hstop). cbn [fst snd].
  rewrite (p_string_name more first f k _ b Hf Hm Hk) by lia.
  unfold name_parts. cbn [nm_first nm_more app]. f_equal. f_equal. rewrite !len_app. lia.
Qed.

(** ... while one that runs into a character that can neither continue nor
    follow a string (here: "/") stops there. *)
Lemma p_string_naked_stop (A w : str) (d : N) fuel (r : str) o b :
  naked_text A -> forallb is_hsp w = true -> naked_mid d = false -> seg_start d = false ->
  (2 <= fuel)%nat ->
  p_string fuel true (mkSt (A ++ w ++ d :: r) o b) =
  Got ([PStr A], o) (mkSt (w ++ d :: r) (o + len A) b).
Proof.
  intros HA Hw Hd Hs Hf. destruct fuel as [|[|f]]; [lia|lia|].
  rewrite p_string_unfold. unfold p_segment at 1. cbn [rest]. rewrite (sc_naked_text A w d r HA Hw Hd).
  unfold adv. cbn [off bad].
  assert (Hstop : stops is_hsp (d :: r)).
  { cbn [stops]. destruct (is_hsp d) eqn:E; [|reflexivity]. rewrite (hsp_naked_mid d E) in Hd. discriminate. }
  rewrite (skip_hsp_run w _ _ _ Hw Hstop). cbn [fst snd]. rewrite p_string_unfold.
  rewrite (p_segment_fails (d :: r) _ _ f true Hs). reflexivity.
Qed.

(** After a name: horizontal space then "(" "," "=" ":" or a line end. *)
Lemma name_followb_hsp_then (w : str) c (r : str) : forallb is_hsp w = true -> is_hsp c = false ->
  seg_start c = false -> name_followb (w ++ c :: r) = true.
Proof.
  intros Hw Hch Hc. unfold name_followb. rewrite (span_app is_hsp w (c :: r) Hw Hch). cbn [snd stopsb].
  rewrite Hc. reflexivity.
Qed.

