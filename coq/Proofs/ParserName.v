(** * Names (sequences of quoted / braced segments) and naked prefixes (C06). *)
From Coq Require Import List ZArith NArith Bool Lia Arith.
From RG Require Import Base.Str Base.Dec Base.Num Model.Recipe Model.Compiler Model.Parser Model.Printer
  Proofs.DecLemmas Proofs.ParserLex.
From RG Require Model.Units.
Import ListNotations.
Open Scope list_scope.
Open Scope N_scope.

Lemma note_none_r b : note b None = b.
Proof. destruct b; reflexivity. Qed.

Lemma with_bad_none r o b : with_bad (mkSt r o b) None = mkSt r o b.
Proof. unfold with_bad. cbn [rest off bad]. rewrite note_none_r. reflexivity. Qed.

(** ** Heads of printed things *)
Lemma ntext_head t : ntext_ok t = true -> exists c r, ntext_str t = c :: r /\ is_digit c = true.
Proof.
  assert (H : forall (d r : str), d <> [] -> forallb is_digit d = true ->
                exists c r', d ++ r = c :: r' /\ is_digit c = true).
  { intros d r Hn Hd. destruct d as [|c d']; [contradiction|]. cbn [forallb] in Hd.
    apply andb_true_iff in Hd as [Hc _]. exists c, (d' ++ r). split; [reflexivity | exact Hc]. }
  intro Hok. destruct t as [z n | i f | zn n w2 zd d | zi i wi zn n w1 w2 zd d]; cbn [ntext_str].
  - rewrite <- (app_nil_r (zs z ++ dec_N n)). apply H; [apply zs_dec_nonempty | apply digits_zs_dec].
  - cbn [ntext_ok] in Hok. apply andb_true_iff in Hok as [Hok _]. apply andb_true_iff in Hok as [Hok _].
    apply andb_true_iff in Hok as [Hid Hin]. apply H; [destruct i; [discriminate|discriminate] | exact Hid].
  - rewrite app_assoc. apply H; [apply zs_dec_nonempty | apply digits_zs_dec].
  - rewrite app_assoc. apply H; [apply zs_dec_nonempty | apply digits_zs_dec].
Qed.

Lemma print_char_head raw_ok m c : exists d r, print_char raw_ok m c = d :: r /\ (d = 92 \/ (d = c /\ raw_ok c = true)).
Proof.
  assert (D : exists d r, (if raw_ok c then [c] else [92; c]) = d :: r /\ (d = 92 \/ (d = c /\ raw_ok c = true))).
  { destruct (raw_ok c) eqn:E; [exists c, []; split; [reflexivity | right; split; reflexivity]
                               | exists 92, [c]; split; [reflexivity | left; reflexivity]]. }
  unfold print_char. destruct m; [exact D | | ].
  - destruct (self_esc c); [exists 92, [c]; split; [reflexivity | left; reflexivity] | exact D].
  - destruct (letter_of c) as [l|]; [exists 92, [l]; split; [reflexivity | left; reflexivity] | exact D].
Qed.

Lemma raw_ok_b_not_digit c : raw_ok_b c = true -> is_digit c = false.
Proof.
  unfold raw_ok_b. intro H. apply negb_true_iff in H. repeat (apply orb_false_iff in H as [H _]). exact H.
Qed.

(** The first character after the opening brace is a digit exactly when the
    group starts with a number. *)
Lemma bparts_head bs (r : str) : bparts_ok bs = true ->
  match print_bparts bs ++ 125 :: r with
  | d :: _ => is_digit d = match bs with BNum _ :: _ => true | _ => false end
  | [] => False
  end.
Proof.
  intro Hok. destruct bs as [|[x ms|t] bs']; cbn [print_bparts flat_map print_bpart app].
  - reflexivity.
  - cbn [bparts_ok] in Hok. apply andb_true_iff in Hok as [Hok _]. apply andb_true_iff in Hok as [Hx _].
    destruct x as [|c x']; [discriminate|]. cbn [print_chars].
    destruct (print_char_head raw_ok_b (hd MRaw ms) c) as [d [r' [E [Hd | [Hd Hr]]]]]; rewrite E; cbn [app].
    + subst d. reflexivity.
    + subst d. apply raw_ok_b_not_digit. exact Hr.
  - cbn [bparts_ok] in Hok. apply andb_true_iff in Hok as [Hok _]. apply andb_true_iff in Hok as [Hok _].
    apply andb_true_iff in Hok as [Ht _]. destruct (ntext_head t Ht) as [c [r' [E Hc]]]. rewrite E. cbn [app]. exact Hc.
Qed.

(** ** One segment *)
Theorem braced_roundtrip bs (rest0 : str) o b fuel :
  bparts_ok bs = true -> (items bs < fuel)%nat ->
  p_segment fuel true (mkSt (print_braced bs ++ rest0) o b) =
  Got (map bpart_val bs, seg_first_off (SB bs) o) (mkSt rest0 (o + len (print_braced bs)) b).
Proof.
  intros Hok Hf. unfold p_segment, print_braced. cbn [rest app sc_naked].
  change (naked_edge 123) with false. cbv iota.
  change ((123 =? 39) || (123 =? 34)) with false. cbv iota.
  change (true && (123 =? 123)) with true. cbv iota.
  rewrite <- app_assoc. cbn [app].
  replace fuel with (items bs + S (fuel - items bs - 1))%nat by lia.
  rewrite (braced_body_roundtrip bs _ rest0 Hok).
  pose proof (bparts_head bs rest0 Hok) as Hh.
  destruct (print_bparts bs ++ 125 :: rest0) as [|d t'] eqn:E; [contradiction|].
  unfold advn. cbn [off bad rest]. rewrite with_bad_none. rewrite Hh.
  rewrite len_cons, len_app, len_cons, len_nil.
  replace (o + (len (print_bparts bs) + 1 + 1)) with (o + (1 + (len (print_bparts bs) + (1 + 0)))) by lia.
  destruct bs as [|[x ms|t] bs']; reflexivity.
Qed.

Lemma items_cost bs : seg_cost (SB bs) = S (items bs).
Proof. reflexivity. Qed.

Lemma hsp_naked_mid c : is_hsp c = true -> naked_mid c = true.
Proof.
  unfold is_hsp, Units.is_hsp. intro H. apply orb_true_iff in H as [H|H]; apply N.eqb_eq in H; subst; reflexivity.
Qed.

(** ** Naked chunks *)
Lemma naked_tail_stop : forall r : str, naked_stopb r = true -> naked_tail r = ([], r).
Proof.
  induction r as [|c t IH]; intro H; [reflexivity|]. cbn [naked_tail]. unfold naked_stopb in H.
  destruct (naked_mid c) eqn:Em; [|reflexivity].
  destruct (is_ws c) eqn:Ew.
  - assert (N : nkws c = true) by (unfold nkws; rewrite Ew, Em; reflexivity).
    rewrite (span_cons_true nkws c t N) in H. cbn [snd] in H. rewrite (IH H). reflexivity.
  - assert (N : nkws c = false) by (unfold nkws; rewrite Ew; reflexivity).
    rewrite (span_cons_false nkws c t N) in H. cbn [snd stopsb] in H. rewrite Em in H. discriminate H.
Qed.

Lemma naked_tail_run (Y : str) (e : N) (R : str) :
  forallb naked_mid Y = true -> naked_mid e = true -> is_ws e = false -> naked_stopb R = true ->
  naked_tail (Y ++ e :: R) = (Y ++ [e], R).
Proof.
  intros HY He Hews HR. induction Y as [|c Y IH]; cbn [app naked_tail].
  - rewrite He, (naked_tail_stop R HR), Hews. reflexivity.
  - cbn [forallb] in HY. apply andb_true_iff in HY as [Hc HY]. rewrite Hc, (IH HY).
    destruct (Y ++ [e]) eqn:E; [destruct Y; discriminate | reflexivity].
Qed.

Definition naked_text (A : str) : Prop :=
  exists c0 A', A = c0 :: A' /\ naked_edge c0 = true /\ forallb naked_mid A' = true /\ is_ws (last A 0) = false.

Lemma naked_textb_text (A : str) : naked_textb A = true -> naked_text A.
Proof.
  unfold naked_textb. destruct A as [|c0 A']; [discriminate|]. intro H. apply andb_true_iff in H as [H Hl].
  apply andb_true_iff in H as [He Hm]. apply negb_true_iff in Hl. exists c0, A'. repeat split; assumption.
Qed.

Lemma sc_naked_stop (A R : str) : naked_text A -> naked_stopb R = true -> sc_naked (A ++ R) = Some (A, R).
Proof.
  intros [c0 [A' [-> [Hc0 [Hmid Hlast]]]]] HR. cbn [app sc_naked]. rewrite Hc0.
  destruct A' as [|a A''].
  - cbn [app]. rewrite (naked_tail_stop R HR). reflexivity.
  - destruct (exists_last (l := a :: A'') ltac:(discriminate)) as [Y [e EY]]. rewrite EY in *.
    rewrite forallb_app in Hmid. apply andb_true_iff in Hmid as [HY He]. cbn [forallb] in He.
    apply andb_true_iff in He as [He _].
    assert (Hl : last (c0 :: Y ++ [e]) 0 = e).
    { change (c0 :: Y ++ [e]) with ((c0 :: Y) ++ [e]). apply last_last. }
    rewrite Hl in Hlast. rewrite <- app_assoc. cbn [app].
    rewrite (naked_tail_run Y e R HY He Hlast HR). reflexivity.
Qed.

Lemma naked_stopb_ws_then (w : str) (d : N) (r : str) : forallb is_ws w = true -> naked_mid d = false ->
  naked_stopb (w ++ d :: r) = true.
Proof.
  intros Hw Hd. unfold naked_stopb. induction w as [|c w IH]; cbn [app].
  - assert (N : nkws d = false) by (unfold nkws; rewrite Hd, andb_false_r; reflexivity).
    rewrite (span_cons_false nkws d r N). cbn [snd stopsb]. rewrite Hd. reflexivity.
  - cbn [forallb] in Hw. apply andb_true_iff in Hw as [Hc Hw]. destruct (nkws c) eqn:N.
    + rewrite (span_cons_true nkws c _ N). cbn [snd]. exact (IH Hw).
    + rewrite (span_cons_false nkws c _ N). cbn [snd stopsb]. unfold nkws in N. rewrite Hc in N. cbn [andb] in N.
      rewrite N. reflexivity.
Qed.

Lemma naked_stopb_ws_end (w : str) : forallb is_ws w = true -> naked_stopb w = true.
Proof.
  intros Hw. unfold naked_stopb. induction w as [|c w IH]; [reflexivity|].
  cbn [forallb] in Hw. apply andb_true_iff in Hw as [Hc Hw]. destruct (nkws c) eqn:N.
  - rewrite (span_cons_true nkws c _ N). cbn [snd]. exact (IH Hw).
  - rewrite (span_cons_false nkws c _ N). cbn [snd stopsb]. unfold nkws in N. rewrite Hc in N. cbn [andb] in N.
    rewrite N. reflexivity.
Qed.

Lemma hsp_run_ws (w : str) : forallb is_hsp w = true -> forallb is_ws w = true.
Proof.
  induction w as [|c w IH]; [reflexivity|]. cbn [forallb]. intro H. apply andb_true_iff in H as [Hc Hw].
  rewrite (hsp_is_ws c Hc), (IH Hw). reflexivity.
Qed.

Definition seg_stop (sg : seg) (r : str) : Prop :=
  match sg with SN _ => naked_stopb r = true | _ => True end.

Lemma segment_roundtrip sg (r : str) o b fuel braces :
  seg_ok sg = true -> (seg_cost sg <= fuel)%nat -> seg_stop sg r -> (braces = true \/ static_seg sg = true) ->
  p_segment fuel braces (mkSt (print_seg sg ++ r) o b) =
  Got (seg_parts sg, seg_first_off sg o) (mkSt r (o + len (print_seg sg)) b).
Proof.
  intros Hok Hf Hs Hbr. destruct sg as [q ms x | bs | x]; cbn [print_seg seg_parts seg_ok seg_stop] in *.
  - apply quoted_roundtrip. apply orb_true_iff in Hok as [H|H]; apply N.eqb_eq in H; auto.
  - destruct Hbr as [-> | Hbr]; [|discriminate Hbr]. apply braced_roundtrip; [exact Hok|]. rewrite items_cost in Hf. lia.
  - unfold p_segment. cbn [rest]. rewrite (sc_naked_stop x r (naked_textb_text x Hok) Hs). reflexivity.
Qed.

Definition seg_head (c : N) : Prop := c = 34 \/ c = 39 \/ c = 123 \/ naked_edge c = true.

Lemma seg_head_not_hsp c : seg_head c -> is_hsp c = false.
Proof.
  intros [->|[->|[->|H]]]; try reflexivity. destruct (is_hsp c) eqn:E; [|reflexivity].
  unfold naked_edge in H. rewrite (hsp_is_ws c E), andb_false_r in H. discriminate H.
Qed.

Lemma print_seg_head sg : seg_ok sg = true ->
  exists c r, print_seg sg = c :: r /\ seg_head c /\ (is_naked sg = false -> c = 34 \/ c = 39 \/ c = 123).
Proof.
  destruct sg as [q ms x | bs | x]; cbn [print_seg seg_ok is_naked]; intro H.
  - exists q, (print_chars (raw_ok_q q) ms x ++ [q]). split; [reflexivity|].
    assert (Q : q = 34 \/ q = 39 \/ q = 123) by (apply orb_true_iff in H as [H|H]; apply N.eqb_eq in H; auto).
    split; [destruct Q as [->|[->| ->]]; unfold seg_head; auto | intros _; exact Q].
  - exists 123, (print_bparts bs ++ [125]). split; [reflexivity|]. split; [unfold seg_head; auto | auto].
  - destruct (naked_textb_text x H) as [c0 [A' [-> [He _]]]]. exists c0, A'. split; [reflexivity|].
    split; [unfold seg_head; auto | discriminate].
Qed.

Lemma p_segment_fails (r : str) o b fuel braces : stops seg_start r ->
  p_segment fuel braces (mkSt r o b) = Fail.
Proof.
  intro H. unfold p_segment. cbn [rest]. destruct r as [|c t]; [reflexivity|].
  cbn [stops] in H. unfold seg_start in H.
  apply orb_false_iff in H as [H H123]. apply orb_false_iff in H as [H H39]. apply orb_false_iff in H as [He H34].
  cbn [sc_naked]. rewrite He, H39, H34, H123. cbn [orb]. rewrite andb_false_r. reflexivity.
Qed.

Lemma name_followb_stops k : name_followb k = true -> stops seg_start (snd (span is_hsp k)).
Proof. unfold name_followb. intro H. apply andb_true_iff in H as [H _]. exact (stopsb_stops _ _ H). Qed.
Lemma name_followb_naked k : name_followb k = true -> naked_stopb k = true.
Proof. unfold name_followb. intro H. apply andb_true_iff in H as [_ H]. exact H. Qed.

Lemma span_is_hsp_split (k : str) : exists w r, span is_hsp k = (w, r) /\ k = w ++ r /\ forallb is_hsp w = true.
Proof.
  destruct (span is_hsp k) as [w r] eqn:E. exists w, r. destruct (span_spec _ _ _ _ E) as [A B]. auto.
Qed.

Lemma p_string_unfold f braces s :
  p_string (S f) braces s =
  match p_segment f braces s with
  | Got (ps, o) s1 =>
      match p_string f braces (snd (skip_hsp s1)) with
      | Got (ps2, _) s3 => Got (ps ++ PStr (fst (skip_hsp s1)) :: ps2, o) s3
      | Fail => Got (ps, o) s1
      | Fuel => Fuel
      end
  | Fail => Fail
  | Fuel => Fuel
  end.
Proof.
  cbn [p_string]. destruct (p_segment f braces s) as [[ps o] s1| |]; [|reflexivity|reflexivity].
  destruct (skip_hsp s1) as [w s2]. reflexivity.
Qed.

(** A failing continuation: after a complete name, the next thing is not a string segment. *)
Lemma p_string_stops (k : str) o b f braces : name_followb k = true ->
  p_string (S f) braces (snd (skip_hsp (mkSt k o b))) = Fail.
Proof.
  intro Hk. unfold skip_hsp, opt_hsp. cbn [rest]. apply name_followb_stops in Hk.
  destruct (span is_hsp k) as [w r] eqn:E. cbn [snd] in Hk. rewrite p_string_unfold.
  unfold adv. cbn [off bad snd]. rewrite (p_segment_fails r _ _ f braces Hk). reflexivity.
Qed.

(** ** Whole names *)
Lemma opener_naked_stop (w : str) c (r : str) : forallb is_hsp w = true -> (c = 34 \/ c = 39 \/ c = 123) ->
  naked_stopb (w ++ c :: r) = true.
Proof.
  intros Hw Hc. apply naked_stopb_ws_then; [exact (hsp_run_ws w Hw) | destruct Hc as [->|[->| ->]]; reflexivity].
Qed.

Definition static_more (more : list (str * seg)) : bool := forallb (fun p => static_seg (snd p)) more.

Lemma p_string_name : forall more first fuel braces (k : str) o b,
  seg_ok first = true -> more_ok more = true -> adj_ok first more = true -> name_followb k = true ->
  (braces = true \/ (static_seg first = true /\ static_more more = true)) ->
  (name_cost (mkName first more) <= fuel)%nat ->
  p_string fuel braces (mkSt (print_seg first ++ print_more more ++ k) o b) =
  Got (seg_parts first ++ more_parts more, seg_first_off first o)
      (mkSt k (o + len (print_seg first ++ print_more more)) b).
Proof.
  induction more as [|[w sg] more IH]; intros first fuel braces k o b Hf Hm Ha Hk Hbr Hc;
    unfold name_cost in Hc; cbn [nm_first nm_more fold_right snd] in Hc.
  - assert (Hb1 : braces = true \/ static_seg first = true) by (destruct Hbr as [H|[H _]]; auto).
    destruct fuel as [|[|f]]; [lia | lia |]. cbn [print_more more_parts app]. rewrite !app_nil_r.
    rewrite p_string_unfold. rewrite (segment_roundtrip first k o b (S f) braces Hf); [ | lia | destruct first; cbn; auto; exact (name_followb_naked k Hk) | exact Hb1].
    rewrite (p_string_stops k (o + len (print_seg first)) b f braces Hk). reflexivity.
  - assert (Hb1 : braces = true \/ static_seg first = true) by (destruct Hbr as [H|[H _]]; auto).
    assert (Hb2 : braces = true \/ (static_seg sg = true /\ static_more more = true)).
    { destruct Hbr as [H|[_ H]]; [left; exact H | right]. unfold static_more in H. cbn [forallb snd] in H. apply andb_true_iff in H. exact H. }
    destruct fuel as [|f]; [lia|]. cbn [more_ok forallb fst snd] in Hm.
    apply andb_true_iff in Hm as [Hw Hm]. apply andb_true_iff in Hw as [Hw Hsg].
    cbn [adj_ok] in Ha. apply andb_true_iff in Ha as [Hadj Ha].
    cbn [print_more more_parts]. repeat rewrite <- app_assoc. rewrite p_string_unfold.
    destruct (print_seg_head sg Hsg) as [c [r' [Eh [Hc3 Hop]]]].
    assert (Hstop : stops is_hsp (print_seg sg ++ print_more more ++ k)).
    { rewrite Eh. cbn [app stops]. exact (seg_head_not_hsp c Hc3). }
    assert (Hss : seg_stop first (w ++ print_seg sg ++ print_more more ++ k)).
    { destruct first as [q ms x | bs | x]; cbn [seg_stop]; auto. cbn [is_naked andb] in Hadj.
      apply negb_true_iff in Hadj. rewrite Eh. cbn [app]. apply opener_naked_stop; [exact Hw | exact (Hop Hadj)]. }
    rewrite (segment_roundtrip first _ o b f braces Hf ltac:(lia) Hss Hb1).
    rewrite (skip_hsp_run w _ _ _ Hw Hstop). cbn [fst snd].
    rewrite (IH sg f braces k _ b Hsg Hm Ha Hk Hb2) by (unfold name_cost; cbn [nm_first nm_more]; lia).
    repeat rewrite <- app_assoc. cbn [app].
    f_equal. f_equal. rewrite !len_app. lia.
Qed.

Theorem name_roundtrip nm fuel (k : str) o b :
  name_ok nm = true -> name_followb k = true -> (name_cost nm <= fuel)%nat ->
  p_name fuel (mkSt (print_name nm ++ k) o b) =
  Got (name_val nm, name_off nm o) (mkSt k (o + len (print_name nm)) b).
Proof.
  intros Hok Hk Hc. destruct nm as [first more]. unfold name_ok in Hok. cbn [nm_first nm_more] in Hok.
  apply andb_true_iff in Hok as [Hok Ha]. apply andb_true_iff in Hok as [Hf Hm].
  unfold p_name, print_name. cbn [nm_first nm_more]. rewrite <- app_assoc.
  rewrite (p_string_name more first fuel true k o b Hf Hm Ha Hk (or_introl eq_refl) Hc). reflexivity.
Qed.

(** A free-form unit (static string). *)
Theorem static_roundtrip un fuel (k : str) o b :
  name_ok un = true -> static_name un = true -> name_followb k = true -> (name_cost un <= fuel)%nat ->
  p_static fuel (mkSt (print_name un ++ k) o b) =
  Got (parts_text (name_parts un)) (mkSt k (o + len (print_name un)) b).
Proof.
  intros Hok Hst Hk Hc. destruct un as [first more]. unfold name_ok in Hok. cbn [nm_first nm_more] in Hok.
  apply andb_true_iff in Hok as [Hok Ha]. apply andb_true_iff in Hok as [Hf Hm].
  unfold static_name in Hst. cbn [nm_first nm_more] in Hst. apply andb_true_iff in Hst as [Hs1 Hs2].
  unfold p_static, print_name. cbn [nm_first nm_more]. rewrite <- app_assoc.
  rewrite (p_string_name more first fuel false k o b Hf Hm Ha Hk (or_intror (conj Hs1 Hs2)) Hc). reflexivity.
Qed.

(** A naked text followed by something that stops it and is no string segment. *)
Lemma p_string_naked_stop (A w : str) (d : N) fuel (r : str) o b :
  naked_text A -> forallb is_hsp w = true -> naked_mid d = false -> seg_start d = false ->
  (2 <= fuel)%nat ->
  p_string fuel true (mkSt (A ++ w ++ d :: r) o b) =
  Got ([PStr A], o) (mkSt (w ++ d :: r) (o + len A) b).
Proof.
  intros HA Hw Hd Hs Hf. destruct fuel as [|[|f]]; [lia|lia|].
  rewrite p_string_unfold. unfold p_segment at 1. cbn [rest].
  rewrite (sc_naked_stop A _ HA (naked_stopb_ws_then w d r (hsp_run_ws w Hw) Hd)).
  unfold adv. cbn [off bad].
  assert (Hstop : stops is_hsp (d :: r)).
  { cbn [stops]. destruct (is_hsp d) eqn:E; [|reflexivity]. rewrite (hsp_naked_mid d E) in Hd. discriminate. }
  rewrite (skip_hsp_run w _ _ _ Hw Hstop). cbn [fst snd]. rewrite p_string_unfold.
  rewrite (p_segment_fails (d :: r) _ _ f true Hs). reflexivity.
Qed.

(** After a name: horizontal space then "(" "," "=" ":" "}" ... *)
Lemma name_followb_hsp_then (w : str) c (r : str) : forallb is_hsp w = true -> is_hsp c = false ->
  seg_start c = false -> naked_mid c = false -> name_followb (w ++ c :: r) = true.
Proof.
  intros Hw Hch Hc Hm. unfold name_followb. rewrite (span_app is_hsp w (c :: r) Hw Hch). cbn [snd stopsb].
  rewrite Hc, (naked_stopb_ws_then w c r (hsp_run_ws w Hw) Hm). reflexivity.
Qed.

(** ** Fuel a name needs is bounded by its length *)
Open Scope nat_scope.
Local Notation L := (@List.length N).

Lemma print_char_len raw_ok m c : 1 <= L (print_char raw_ok m c).
Proof.
  unfold print_char. destruct m; [| destruct (self_esc c) | destruct (letter_of c)];
    try (destruct (raw_ok c)); cbn [List.length]; lia.
Qed.

Lemma print_chars_len raw_ok x : forall ms, L x <= L (print_chars raw_ok ms x).
Proof.
  induction x as [|c x IH]; intro ms; cbn [print_chars List.length]; [lia|].
  rewrite app_length. pose proof (print_char_len raw_ok (hd MRaw ms) c). specialize (IH (tl ms)). lia.
Qed.

Lemma ntext_len t : 1 <= L (ntext_str t).
Proof.
  destruct t; cbn [ntext_str]; repeat (rewrite app_length; cbn [List.length]); try lia.
  pose proof (dec_N_nonempty n). destruct (dec_N n); [contradiction | cbn [List.length]; lia].
Qed.

Lemma items_len bs : items bs <= L (print_bparts bs).
Proof.
  induction bs as [|b bs IH]; [reflexivity|]. unfold items, print_bparts in *. cbn [fold_right flat_map].
  rewrite app_length. destruct b as [x ms|t]; cbn [print_bpart].
  - pose proof (print_chars_len raw_ok_b x ms). lia.
  - pose proof (ntext_len t). lia.
Qed.

Lemma seg_cost_len sg : seg_ok sg = true -> S (seg_cost sg) <= L (print_seg sg).
Proof.
  intro Hok. destruct sg as [q ms x | bs | x]; cbn [seg_cost print_seg].
  - unfold print_quoted. cbn [List.length]. rewrite app_length. cbn [List.length]. lia.
  - change (fold_right _ 0 bs) with (items bs). unfold print_braced. cbn [List.length]. rewrite app_length.
    cbn [List.length]. pose proof (items_len bs). lia.
  - cbn [seg_ok] in Hok. destruct x; [discriminate Hok | cbn [List.length]; lia].
Qed.

Lemma name_cost_len nm : name_ok nm = true -> name_cost nm <= S (L (print_name nm)).
Proof.
  intro Hok. destruct nm as [first more]. unfold name_ok in Hok. cbn [nm_first nm_more] in Hok.
  apply andb_true_iff in Hok as [Hok _]. apply andb_true_iff in Hok as [Hf Hm].
  unfold name_cost, print_name. cbn [nm_first nm_more]. rewrite app_length.
  pose proof (seg_cost_len first Hf).
  assert (H2 : fold_right (fun p n => S (seg_cost (snd p) + n)) 0 more <= L (print_more more)).
  { clear H Hf. induction more as [|[w sg] more IH]; [reflexivity|]. cbn [fold_right print_more snd].
    cbn [more_ok forallb fst snd] in Hm. apply andb_true_iff in Hm as [Hw Hm]. apply andb_true_iff in Hw as [_ Hsg].
    rewrite !app_length. pose proof (seg_cost_len sg Hsg). specialize (IH Hm). lia. }
  lia.
Qed.

Close Scope nat_scope.
