(** * Proofs about the lint model (C20). *)
From Coq Require Import List ZArith NArith QArith Qabs Bool Lia Permutation.
From RG Require Import Base.Str Base.Num Model.Recipe Model.NumFmt Model.Units Model.Lint
  Spec.LintSpec Proofs.RecipeInd Proofs.NodeEqv Proofs.RecipeScale Proofs.LintB64.
Import ListNotations.

(** ** Part A.  No ZeroDivisionError *)

Lemma to_float_cases a : (exists f, to_float a = NOk f) \/ to_float a = NOverflow.
Proof.
  unfold to_float. destruct a as [z|n0 d0|m e]; eauto.
  - destruct (to_frac (NInt z)) as [n d]. destruct (b64 n d); eauto.
  - destruct (to_frac (NFrac n0 d0)) as [n d]. destruct (b64 n d); eauto.
Qed.

Lemma round_q_not_zerodiv n d : round_q n d <> NZeroDiv.
Proof. unfold round_q. destruct (b64 n d); discriminate. Qed.

Lemma nmul_not_zerodiv a b : nmul a b <> NZeroDiv.
Proof.
  unfold nmul.
  destruct a, b; try discriminate;
    try (destruct (exact_mul _ _); discriminate);
    match goal with
    | |- context [match to_float ?x with _ => _ end] =>
        destruct (to_float_cases x) as [[fa ->]| ->]
    end;
    try discriminate;
    match goal with
    | |- context [match to_float ?x with _ => _ end] =>
        destruct (to_float_cases x) as [[fb ->]| ->]
    | _ => idtac
    end;
    try discriminate; try (destruct (exact_mul _ _); apply round_q_not_zerodiv).
Qed.

Lemma nadd_not_zerodiv a b : nadd a b <> NZeroDiv.
Proof.
  unfold nadd.
  destruct a, b; try discriminate;
    try (destruct (exact_add _ _); discriminate);
    match goal with
    | |- context [match to_float ?x with _ => _ end] =>
        destruct (to_float_cases x) as [[fa ->]| ->]
    end;
    try discriminate;
    match goal with
    | |- context [match to_float ?x with _ => _ end] =>
        destruct (to_float_cases x) as [[fb ->]| ->]
    | _ => idtac
    end;
    try discriminate; try (destruct (exact_add _ _); apply round_q_not_zerodiv).
Qed.

Lemma exact_div_none a b : exact_div a b = None -> num_is_zero b = true.
Proof.
  unfold exact_div, num_is_zero. destruct (to_frac a) as [n1 d1], (to_frac b) as [n2 d2].
  destruct n2; [reflexivity | discriminate | discriminate].
Qed.

Lemma to_float_float a : is_float a = true -> to_float a = NOk a.
Proof. destruct a; simpl; try discriminate; reflexivity. Qed.

Lemma ndiv_zerodiv a b : ndiv a b = NZeroDiv ->
  num_is_zero b = true \/ exists f, to_float b = NOk f /\ num_is_zero f = true.
Proof.
  unfold ndiv.
  assert (F : forall x y,
    match to_float x, to_float y with
    | NOk fa, NOk fb => match exact_div fa fb with None => NZeroDiv | Some (n, d) => round_q n d end
    | NOverflow, _ | _, NOverflow => NOverflow
    | _, _ => NZeroDiv
    end = NZeroDiv -> exists f, to_float y = NOk f /\ num_is_zero f = true).
  { intros x y. destruct (to_float_cases x) as [[fa ->]| ->], (to_float_cases y) as [[fb ->]| ->];
      try discriminate.
    destruct (exact_div fa fb) as [[n d]|] eqn:E.
    - intro H. exfalso. eapply round_q_not_zerodiv; eauto.
    - intros _. exists fb. split; [reflexivity | eapply exact_div_none; eauto]. }
  assert (L : forall x y,
    match exact_div x y with None => NZeroDiv | Some (n, d) => NOk (mk_frac n d) end = NZeroDiv ->
    num_is_zero y = true).
  { intros x y. destruct (exact_div x y) as [[n d]|] eqn:E; [discriminate|]. intros _. eapply exact_div_none; eauto. }
  destruct a as [x|n1 d1|m1 e1], b as [y|n2 d2|m2 e2]; intro H.
  - left. destruct (exact_div (NInt x) (NInt y)) as [[n d]|] eqn:E; [|eapply exact_div_none; eauto].
    exfalso. eapply round_q_not_zerodiv; eauto.
  - left. exact (L _ _ H).
  - right. exact (F (NInt x) (NFloat m2 e2) H).
  - left. exact (L _ _ H).
  - left. exact (L _ _ H).
  - right. exact (F (NFrac n1 d1) (NFloat m2 e2) H).
  - right. exact (F (NFloat m1 e1) (NInt y) H).
  - right. exact (F (NFloat m1 e1) (NFrac n2 d2) H).
  - right. exact (F (NFloat m1 e1) (NFloat m2 e2) H).
Qed.

(** [sane v]: float(v) is zero only if v is zero (no underflow). *)
Definition sane (v : num) : Prop :=
  forall f, to_float v = NOk f -> num_is_zero f = true -> num_is_zero v = true.

Lemma sane_float v : is_float v = true -> sane v.
Proof. intros H f E Z. rewrite (to_float_float v H) in E. congruence. Qed.

(** Everything that is zero or at least 2^-1074 in magnitude is sane. *)
Definition not_tiny (v : num) : Prop :=
  match v with
  | NFloat _ _ => True
  | _ => fst (to_frac v) = 0%Z \/ (Zpos (snd (to_frac v)) <= Z.abs (fst (to_frac v)) * 2 ^ 1074)%Z
  end.

Lemma not_tiny_sane v : not_tiny v -> sane v.
Proof.
  destruct v as [z|n d|m e]; [| |intros _; now apply sane_float].
  - unfold not_tiny, sane. simpl. intros [->|H] f E Hz; [reflexivity|].
    destruct (b64 z 1) as [f'|] eqn:B; inversion E; subst.
    destruct (Z.eq_dec z 0) as [->|N]; [reflexivity|].
    rewrite (b64_nonzero z 1 f N H B) in Hz. discriminate.
  - unfold not_tiny, sane. simpl. intros [->|H] f E Hz; [reflexivity|].
    destruct (b64 n d) as [f'|] eqn:B; inversion E; subst.
    destruct (Z.eq_dec n 0) as [->|N]; [reflexivity|].
    rewrite (b64_nonzero n d f N H B) in Hz. discriminate.
Qed.

Lemma num_eqb_zero v : num_eqb v (NInt 0) = false -> num_is_zero v = false.
Proof.
  unfold num_eqb, num_is_zero. destruct (to_frac v) as [n d]. simpl.
  rewrite Z.mul_1_r. auto.
Qed.

Lemma of_nres_l_zerodiv r : of_nres_l r = LErr LZeroDivision -> r = NZeroDiv.
Proof. destruct r; simpl; congruence. Qed.

Lemma ref_step_no_zerodiv name total st r :
  (forall tq, total = Some tq -> sane (q_value tq)) ->
  ref_step name total st r <> LErr LZeroDivision.
Proof.
  intros Hs. destruct r as [d q|d ins|sr i a|b ns sh]; try discriminate.
  destruct a as [q|[v pc pr|w pr]]; simpl.
  - destruct total as [tq|]; [|discriminate].
    destruct (num_eqb (q_value tq) (NInt 0)) eqn:Hz; [discriminate|].
    destruct (conversion q tq) as [c|[e|]]; try discriminate.
    destruct (nmul (q_value q) c) as [qu| |] eqn:M; simpl; try discriminate.
    + destruct (ndiv qu (q_value tq)) as [f| |] eqn:D; simpl; try discriminate.
      * destruct (nadd (st_used st) f) as [u| |] eqn:A; simpl; try discriminate.
        exfalso. eapply nadd_not_zerodiv; eauto.
      * exfalso. apply num_eqb_zero in Hz. destruct (ndiv_zerodiv _ _ D) as [K|(f & E & K)]; [congruence|].
        specialize (Hs tq eq_refl f E K). congruence.
    + exfalso. eapply nmul_not_zerodiv; eauto.
  - destruct (nadd (st_used st) v) as [u| |] eqn:A; simpl; try discriminate.
    exfalso. eapply nadd_not_zerodiv; eauto.
  - discriminate.
Qed.

Lemma refs_fold_no_zerodiv name total :
  (forall tq, total = Some tq -> sane (q_value tq)) ->
  forall refs st, refs_fold name total st refs <> LErr LZeroDivision.
Proof.
  intros Hs. induction refs as [|r rest IH]; intro st; simpl; [discriminate|].
  destruct (ref_step name total st r) as [st'|e] eqn:E; [apply IH|].
  intro K. inversion K; subst. eapply ref_step_no_zerodiv; eauto.
Qed.

Lemma final_verdict_no_zerodiv name used : final_verdict name used <> LErr LZeroDivision.
Proof.
  unfold final_verdict. destruct (isclose_with _ _ used f_one) as [[|]|]; try discriminate.
  destruct (num_ltb used f_one); discriminate.
Qed.

Lemma output_lints_no_zerodiv sr idx refs :
  (forall tq, total_quantity sr = Some tq -> sane (q_value tq)) ->
  output_lints sr idx refs <> LErr LZeroDivision.
Proof.
  intro Hs. unfold output_lints. destruct sr as [d q|d ins|sr0 i a|b ns sh]; try discriminate.
  destruct (nth_error ns idx) as [nm|]; [|discriminate].
  destruct (svs_text nm) as [name|]; [|discriminate].
  destruct (refs_fold name _ _ refs) as [st|e] eqn:E.
  - destruct (st_problem st); [discriminate|].
    destruct (final_verdict name (st_used st)) as [v|e] eqn:F; [discriminate|].
    intro K. inversion K; subst. eapply final_verdict_no_zerodiv; eauto.
  - intro K. inversion K; subst. eapply refs_fold_no_zerodiv; eauto.
Qed.

Lemma concat_lres_err {A} (l : list (lres (list A))) e :
  concat_lres l = LErr e -> In (LErr e) l.
Proof.
  induction l as [|[x|e'] r IH]; simpl; [discriminate| |].
  - destruct (concat_lres r) as [y|e'']; [discriminate|]. intro K. inversion K; subst. right. now apply IH.
  - intro K. inversion K; subst. now left.
Qed.

Lemma sum_lints_no_zerodiv m :
  (forall e tq, In e m -> total_quantity (fst e) = Some tq -> sane (q_value tq)) ->
  sum_lints_of m <> LErr LZeroDivision.
Proof.
  intros Hs K. unfold sum_lints_of in K. apply concat_lres_err in K.
  apply in_flat_map in K. destruct K as (e & He & K). apply in_map_iff in K.
  destruct K as (ir & K & _). eapply output_lints_no_zerodiv; [|exact K].
  intros tq. apply (Hs e tq He).
Qed.

Lemma map_lres_err {A B} (f : A -> lres B) l e : map_lres f l = LErr e -> exists x, In x l /\ f x = LErr e.
Proof.
  induction l as [|x r IH]; simpl; [discriminate|].
  destruct (f x) as [y|e'] eqn:E.
  - destruct (map_lres f r) as [ys|e'']; [discriminate|]. intro K. inversion K; subst.
    destruct (IH eq_refl) as (z & Hz & Ez). exists z. auto.
  - intro K. inversion K; subst. exists x. auto.
Qed.

Lemma check_unused_no_zerodiv bs : check_unused bs <> LErr LZeroDivision.
Proof.
  unfold check_unused. destruct (map_lres first_name_text (unused_set bs)) as [names|e] eqn:E; [discriminate|].
  intro K. inversion K; subst. apply map_lres_err in E. destruct E as (x & _ & E).
  unfold first_name_text in E. destruct x as [d q|d ins|sr i a|b [|n r] sh]; try discriminate.
  destruct (svs_text n); discriminate.
Qed.

(** ** Part B.  The visits as folds over the visible references / hidden sub recipes *)

Fixpoint visible_refs (t : node) {struct t} : list node :=
  match t with
  | Reference _ _ _ => [t]
  | SubRecipe b _ _ => visible_refs b
  | Step _ ins => flat_map visible_refs ins
  | Ingredient _ _ => []
  end.

Fixpoint hidden_list (t : node) {struct t} : list node :=
  match t with
  | Reference _ _ _ => []
  | SubRecipe b _ _ => (if is_hidden t then [t] else []) ++ hidden_list b
  | Step _ ins => flat_map hidden_list ins
  | Ingredient _ _ => []
  end.

Definition ref_target (r : node) : node := match r with Reference sr _ _ => sr | _ => r end.

Definition add_ref_node (m : refmap) (r : node) : refmap :=
  match r with Reference sr i _ => add_ref sr i r m | _ => m end.

Definition add_all (l : list node) (s : list node) : list node := fold_left (fun a x => set_add x a) l s.

Lemma visit_refs_fold : forall t m, visit_refs t m = fold_left add_ref_node (visible_refs t) m.
Proof.
  induction t as [d q | d ins IH | sr i a IH | b ns sh IH] using node_ind'; intro m; simpl; try reflexivity.
  - revert m. induction ins as [|x r IHr]; intro m; simpl; [reflexivity|].
    inversion IH; subst. rewrite fold_left_app, <- H1. now apply IHr.
  - apply IH.
Qed.

Lemma visit_unused_fold : forall t st,
  visit_unused t st = (add_all (hidden_list t) (fst st), add_all (map ref_target (visible_refs t)) (snd st)).
Proof.
  induction t as [d q | d ins IH | sr i a IH | b ns sh IH] using node_ind'; intros [imp refd].
  - reflexivity.
  - simpl. revert imp refd. induction ins as [|x r IHr]; intros imp refd; simpl; [reflexivity|].
    inversion IH; subst. rewrite H1. simpl. rewrite IHr by assumption.
    unfold add_all. now rewrite map_app, !fold_left_app.
  - reflexivity.
  - simpl visit_unused. rewrite IH. simpl hidden_list. simpl is_hidden.
    destruct (Nat.eqb (length ns) 1 && negb sh); simpl; reflexivity.
Qed.

Definition all_trees (bs : list (list node)) : list node := concat bs.

Lemma fold_blocks {A} (f : node -> A -> A) (bs : list (list node)) (a : A) :
  fold_left (fun a0 trees => fold_left (fun a' t => f t a') trees a0) bs a =
  fold_left (fun a' t => f t a') (all_trees bs) a.
Proof.
  revert a. induction bs as [|b r IH]; intro a; simpl; [reflexivity|].
  unfold all_trees in *. simpl. now rewrite fold_left_app, IH.
Qed.

Lemma visit_refs_blocks_fold bs :
  visit_refs_blocks bs = fold_left add_ref_node (flat_map visible_refs (all_trees bs)) [].
Proof.
  unfold visit_refs_blocks. rewrite (fold_blocks visit_refs).
  generalize (@nil (node * list (nat * list node))). induction (all_trees bs) as [|t r IH]; intro m; simpl; [reflexivity|].
  now rewrite fold_left_app, <- visit_refs_fold.
Qed.

Lemma visit_unused_blocks_fold bs :
  visit_unused_blocks bs =
  (add_all (flat_map hidden_list (all_trees bs)) [],
   add_all (map ref_target (flat_map visible_refs (all_trees bs))) []).
Proof.
  unfold visit_unused_blocks. rewrite (fold_blocks visit_unused).
  generalize (@nil node) at 1 3. generalize (@nil node).
  induction (all_trees bs) as [|t r IH]; intros s1 s2; simpl; [reflexivity|].
  rewrite visit_unused_fold. simpl. rewrite IH. unfold add_all. now rewrite map_app, !fold_left_app.
Qed.

(** Membership in the views = occurrence outside references. *)
Lemma visible_refs_outside : forall t r,
  In r (visible_refs t) <-> (exists sr i a, r = Reference sr i a) /\ outside r t.
Proof.
  induction t as [d q | d ins IH | sr i a IH | b ns sh IH] using node_ind'; intro r; simpl.
  - split; [tauto|]. intros [(sr & i & a & ->) H]. inversion H.
  - rewrite in_flat_map. rewrite Forall_forall in IH. split.
    + intros (x & Hx & Hr). apply (IH x Hx) in Hr. destruct Hr as [E O]. split; [exact E|]. econstructor; eauto.
    + intros [(sr & i & a & ->) H]. inversion H as [|d' ins' y Hy Ho|]; subst.
      exists y. split; [exact Hy|]. apply (IH y Hy). split; eauto.
  - split.
    + intros [<-|[]]. split; [eauto | constructor].
    + intros [_ H]. inversion H; subst. now left.
  - rewrite IH. split.
    + intros [E O]. split; [exact E | now constructor].
    + intros [(sr & i & a & ->) H]. inversion H; subst. split; eauto.
Qed.

Lemma hidden_list_outside : forall t x,
  In x (hidden_list t) <-> is_hidden x = true /\ outside x t.
Proof.
  induction t as [d q | d ins IH | sr i a IH | b ns sh IH] using node_ind'; intro x.
  - simpl. split; [tauto|]. intros [Hh H]. inversion H; subst. discriminate.
  - simpl. rewrite in_flat_map. rewrite Forall_forall in IH. split.
    + intros (y & Hy & Hx). apply (IH y Hy) in Hx. destruct Hx as [E O]. split; [exact E|]. econstructor; eauto.
    + intros [Hh H]. inversion H as [|d' ins' y Hy Ho|]; subst; [discriminate|].
      exists y. split; [exact Hy|]. apply (IH y Hy). auto.
  - simpl. split; [tauto|]. intros [Hh H]. inversion H; subst. discriminate.
  - change (hidden_list (SubRecipe b ns sh))
      with ((if is_hidden (SubRecipe b ns sh) then [SubRecipe b ns sh] else []) ++ hidden_list b).
    rewrite in_app_iff, IH. split.
    + intros [H|[Hh Ho]].
      * destruct (is_hidden (SubRecipe b ns sh)) eqn:E; [|destruct H].
        destruct H as [<-|[]]. split; [exact E | constructor].
      * split; [exact Hh | now constructor].
    + intros [Hh H]. inversion H; subst.
      * left. rewrite Hh. now left.
      * right. auto.
Qed.

Lemma in_all_trees t bs : In t (all_trees bs) <-> exists trees, In trees bs /\ In t trees.
Proof. unfold all_trees. rewrite in_concat. split; intros (x & A & B); eauto. Qed.

Lemma visible_refs_occurs bs r :
  In r (flat_map visible_refs (all_trees bs)) <-> (exists sr i a, r = Reference sr i a) /\ occurs r bs.
Proof.
  rewrite in_flat_map. unfold occurs. split.
  - intros (t & Ht & Hr). apply visible_refs_outside in Hr. destruct Hr as [E O]. split; [exact E|].
    apply in_all_trees in Ht. destruct Ht as (trees & A & B). eauto.
  - intros [E (trees & t & A & B & O)]. exists t. split; [apply in_all_trees; eauto|].
    apply visible_refs_outside. auto.
Qed.

Lemma hidden_list_occurs bs x :
  In x (flat_map hidden_list (all_trees bs)) <-> is_hidden x = true /\ occurs x bs.
Proof.
  rewrite in_flat_map. unfold occurs. split.
  - intros (t & Ht & Hx). apply hidden_list_outside in Hx. destruct Hx as [E O]. split; [exact E|].
    apply in_all_trees in Ht. destruct Ht as (trees & A & B). eauto.
  - intros [E (trees & t & A & B & O)]. exists t. split; [apply in_all_trees; eauto|].
    apply hidden_list_outside. auto.
Qed.

(** ** Part C.  [lint_check] never raises ZeroDivisionError *)

Lemma add_ref_keys sr i r m k :
  In k (map fst (add_ref sr i r m)) -> In k (map fst m) \/ k = sr.
Proof.
  induction m as [|[k0 d] rest IH]; simpl.
  - intros [<-|[]]. now right.
  - destruct (node_eqb sr k0); simpl.
    + intros [<-|H]; auto.
    + intros [<-|H]; auto. destruct (IH H); auto.
Qed.

Lemma fold_add_ref_keys l m k :
  In k (map fst (fold_left add_ref_node l m)) ->
  In k (map fst m) \/ exists i a, In (Reference k i a) l.
Proof.
  revert m. induction l as [|r rest IH]; intro m; simpl; [auto|].
  intro H. destruct (IH _ H) as [H1|(i & a & H1)]; [|right; eauto].
  destruct r as [d q|d ins|sr i a|b ns sh]; simpl in H1; auto.
  destruct (add_ref_keys _ _ _ _ _ H1) as [H2|H2]; [auto|]. subst k. right. eauto.
Qed.

Lemma outside_numbers x t : outside x t -> incl (numbers x) (numbers t).
Proof.
  induction 1 as [|d ins y Hy Ho IH|b ns sh Ho IH]; intros v Hv.
  - exact Hv.
  - simpl. apply in_app_iff. right. apply in_flat_map. exists y. auto.
  - simpl. apply in_app_iff. left. auto.
Qed.

Lemma single_chain_numbers : forall t, incl (numbers (single_chain t)) (numbers t).
Proof.
  induction t as [d q | d ins IH | sr i a IH | b ns sh IH] using node_ind'; try (intros v Hv; exact Hv).
  destruct ins as [|x [|y r]]; try (intros v Hv; exact Hv).
  simpl single_chain. inversion IH; subst. intros v Hv. simpl. apply in_app_iff. right.
  rewrite app_nil_r. auto.
Qed.

Lemma total_quantity_numbers sr tq : total_quantity sr = Some tq -> In (q_value tq) (numbers sr).
Proof.
  unfold total_quantity. destruct sr as [d q|d ins|sr0 i a|b ns sh]; try discriminate.
  destruct (single_chain b) as [d q|d ins|sr0 i a|b' ns' sh'] eqn:E; try discriminate.
  destruct (Nat.eqb (length ns) 1); [|discriminate]. intros ->.
  simpl. apply in_app_iff. left. apply single_chain_numbers. rewrite E. simpl.
  apply in_app_iff. right. now left.
Qed.

Lemma occurs_numbers x bs : occurs x bs -> incl (numbers x) (blocks_numbers bs).
Proof.
  intros (trees & t & A & B & O) v Hv. unfold blocks_numbers.
  apply in_flat_map. exists trees. split; [exact A|]. apply in_flat_map. exists t. split; [exact B|].
  eapply outside_numbers; eauto.
Qed.

Lemma refmap_key_occurs bs k :
  In k (map fst (visit_refs_blocks bs)) -> exists i a, occurs (Reference k i a) bs.
Proof.
  rewrite visit_refs_blocks_fold. intro H. apply fold_add_ref_keys in H.
  destruct H as [[]|(i & a & H)]. apply visible_refs_occurs in H. destruct H as [_ H]. eauto.
Qed.

Theorem no_zero_division bs :
  Forall sane (blocks_numbers bs) -> lint_check bs <> LErr LZeroDivision.
Proof.
  intros Hs. unfold lint_check.
  destruct (check_unused bs) as [a|e] eqn:U.
  - destruct (check_sums bs) as [b|e] eqn:S; [discriminate|].
    intro K. inversion K; subst. revert S. apply sum_lints_no_zerodiv.
    intros e tq He Ht. rewrite Forall_forall in Hs. apply Hs.
    destruct (refmap_key_occurs bs (fst e)) as (i & am & O); [now apply in_map|].
    apply (occurs_numbers _ _ O). simpl. apply in_app_iff. left. now apply total_quantity_numbers.
  - intro K. inversion K; subst. eapply check_unused_no_zerodiv; eauto.
Qed.

(** ** Part D.  Unused ingredients *)

Lemma set_mem_iff y s : set_mem y s = true <-> exists z, In z s /\ node_eqb y z = true.
Proof. apply existsb_exists. Qed.

Lemma set_mem_add x y s :
  set_mem y (set_add x s) = true <-> set_mem y s = true \/ node_eqb y x = true.
Proof.
  unfold set_add. destruct (set_mem x s) eqn:E.
  - split; [auto|]. intros [H|H]; [exact H|].
    apply set_mem_iff in E. destruct E as (z & Hz & Ez). apply set_mem_iff. exists z. split; [exact Hz|].
    eapply node_eqb_trans; eauto.
  - unfold set_mem. rewrite existsb_app. simpl. rewrite orb_false_r, orb_true_iff. reflexivity.
Qed.

Lemma add_all_mem l : forall s y,
  set_mem y (add_all l s) = true <-> set_mem y s = true \/ exists x, In x l /\ node_eqb y x = true.
Proof.
  induction l as [|x r IH]; intros s y; simpl.
  - split; [auto|]. intros [H|(x & [] & _)]. exact H.
  - unfold add_all in *. simpl. rewrite IH, set_mem_add. split.
    + intros [[H|H]|(z & Hz & Ez)]; eauto.
    + intros [H|(z & [<-|Hz] & Ez)]; eauto.
Qed.

Lemma set_add_in x s z : In z (set_add x s) -> In z s \/ z = x.
Proof.
  unfold set_add. destruct (set_mem x s); [auto|]. rewrite in_app_iff. simpl. intuition.
Qed.

Lemma add_all_in l : forall s z, In z (add_all l s) -> In z s \/ In z l.
Proof.
  induction l as [|x r IH]; intros s z; simpl; [auto|].
  unfold add_all in *. simpl. intro H. destruct (IH _ _ H) as [H1|H1]; [|auto].
  destruct (set_add_in _ _ _ H1); subst; auto.
Qed.

(** No two members are [==]. *)
Fixpoint distinct (s : list node) : Prop :=
  match s with
  | [] => True
  | x :: r => set_mem x r = false /\ distinct r
  end.

Lemma set_mem_app y s t : set_mem y (s ++ t) = set_mem y s || set_mem y t.
Proof. apply existsb_app. Qed.

Lemma distinct_snoc s x : distinct s -> set_mem x s = false -> distinct (s ++ [x]).
Proof.
  induction s as [|y r IH]; simpl; intros D M; [auto|].
  destruct D as [D1 D2]. apply orb_false_iff in M. destruct M as [M1 M2]. split; [|auto].
  rewrite set_mem_app, D1. simpl. now rewrite node_eqb_sym, M1.
Qed.

Lemma set_add_distinct x s : distinct s -> distinct (set_add x s).
Proof. intro D. unfold set_add. destruct (set_mem x s) eqn:E; [exact D | now apply distinct_snoc]. Qed.

Lemma add_all_distinct l : forall s, distinct s -> distinct (add_all l s).
Proof.
  induction l as [|x r IH]; intros s D; simpl; [exact D|].
  unfold add_all in *. simpl. apply IH. now apply set_add_distinct.
Qed.

Lemma set_mem_filter_false (f : node -> bool) y s : set_mem y s = false -> set_mem y (filter f s) = false.
Proof.
  induction s as [|x r IH]; simpl; [auto|]. intro M. apply orb_false_iff in M. destruct M as [M1 M2].
  destruct (f x); simpl; [rewrite M1|]; auto.
Qed.

Lemma filter_distinct (f : node -> bool) s : distinct s -> distinct (filter f s).
Proof.
  induction s as [|x r IH]; simpl; [auto|]. intros [D1 D2]. destruct (f x); simpl; [|auto].
  split; [now apply set_mem_filter_false | auto].
Qed.

Lemma unused_set_eq bs :
  unused_set bs =
  filter (fun x => negb (set_mem x (add_all (map ref_target (flat_map visible_refs (all_trees bs))) [])))
         (add_all (flat_map hidden_list (all_trees bs)) []).
Proof. unfold unused_set. now rewrite visit_unused_blocks_fold. Qed.

Lemma referenced_mem bs x :
  set_mem x (add_all (map ref_target (flat_map visible_refs (all_trees bs))) []) = true <-> is_referenced x bs.
Proof.
  rewrite add_all_mem. unfold is_referenced. split.
  - intros [H|(t & Ht & E)]; [discriminate|].
    apply in_map_iff in Ht. destruct Ht as (r & <- & Hr). apply visible_refs_occurs in Hr.
    destruct Hr as [(sr & i & a & ->) O]. simpl in E. eauto.
  - intros (sr & i & a & O & E). right. exists sr. split; [|exact E].
    apply in_map_iff. exists (Reference sr i a). split; [reflexivity|].
    apply visible_refs_occurs. split; eauto.
Qed.

(** The set the unused-ingredient lints are made from: exactly the hidden
    single-output sub recipes written in the recipe that no written reference
    refers to, each once (up to [==]). *)
Theorem unused_set_spec bs :
  (forall x, In x (unused_set bs) -> is_hidden x = true /\ occurs x bs /\ ~ is_referenced x bs) /\
  (forall x, is_hidden x = true -> occurs x bs -> ~ is_referenced x bs ->
     exists x', In x' (unused_set bs) /\ node_eqb x x' = true) /\
  distinct (unused_set bs).
Proof.
  rewrite unused_set_eq. split; [|split].
  - intros x H. apply filter_In in H. destruct H as [H1 H2].
    apply add_all_in in H1. destruct H1 as [[]|H1]. apply hidden_list_occurs in H1. destruct H1 as [A B].
    split; [exact A|]. split; [exact B|]. intro R. apply referenced_mem in R. rewrite R in H2. discriminate.
  - intros x Hh Ho Hn.
    assert (M : set_mem x (add_all (flat_map hidden_list (all_trees bs)) []) = true).
    { apply add_all_mem. right. exists x. split; [apply hidden_list_occurs; auto | apply node_eqb_refl]. }
    apply set_mem_iff in M. destruct M as (x' & Hx' & E). exists x'. split; [|exact E].
    apply filter_In. split; [exact Hx'|].
    destruct (set_mem x' _) eqn:R; [|reflexivity]. exfalso. apply Hn.
    apply referenced_mem in R. destruct R as (sr & i & a & O & E'). exists sr, i, a. split; [exact O|].
    eapply node_eqb_trans; eauto.
  - apply filter_distinct, add_all_distinct. exact I.
Qed.

(** Sorting is a permutation. *)
Lemma insert_by_perm {A} (lt : A -> A -> bool) x l : Permutation (x :: l) (insert_by lt x l).
Proof.
  induction l as [|y r IH]; simpl; [reflexivity|].
  destruct (lt y x); [|reflexivity].
  eapply perm_trans; [apply perm_swap|]. now apply perm_skip.
Qed.

Lemma sort_by_perm {A} (lt : A -> A -> bool) l : Permutation l (sort_by lt l).
Proof.
  induction l as [|x r IH]; simpl; [reflexivity|].
  eapply perm_trans; [|apply insert_by_perm]. now apply perm_skip.
Qed.

Lemma map_lres_ok {A B} (f : A -> lres B) l ys :
  map_lres f l = LOk ys -> Forall2 (fun x y => f x = LOk y) l ys.
Proof.
  revert ys. induction l as [|x r IH]; intro ys; simpl.
  - intro H. inversion H. constructor.
  - destruct (f x) as [y|e] eqn:E; [|discriminate].
    destruct (map_lres f r) as [ys'|e]; [|discriminate]. intro H. inversion H; subst.
    constructor; auto.
Qed.

(** The lints of [check_for_unused_ingredients]: one per member of
    [unused_set], carrying its (only) output name; nothing else. *)
Theorem check_unused_spec bs l :
  check_unused bs = LOk l ->
  Forall (fun li => fst li = unused_ingredient) l /\
  length l = length (unused_set bs) /\
  (forall name, In (unused_ingredient, name) l <->
     exists x, In x (unused_set bs) /\ first_name_text x = LOk name).
Proof.
  unfold check_unused. destruct (map_lres first_name_text (unused_set bs)) as [names|e] eqn:E; [|discriminate].
  intro H. inversion H; subst. clear H. apply map_lres_ok in E.
  assert (P : Permutation names (sort_texts names)) by apply sort_by_perm.
  split; [|split].
  - apply Forall_forall. intros li Hl. apply in_map_iff in Hl. destruct Hl as (n & <- & _). reflexivity.
  - rewrite map_length, <- (Permutation_length P). symmetry.
    clear P. induction E; simpl; auto.
  - intro name. rewrite in_map_iff. split.
    + intros (n & Hn & Hin). inversion Hn; subst. apply (Permutation_in _ (Permutation_sym P)) in Hin.
      clear P. induction E as [|x y l0 l1 Hxy _ IH]; [destruct Hin|].
      destruct Hin as [->|Hin]; [exists x; split; [now left | exact Hxy]|].
      destruct (IH Hin) as (z & Hz & Ez). exists z. split; [now right | exact Ez].
    + intros (x & Hx & Ex). exists name. split; [reflexivity|]. apply (Permutation_in _ P).
      clear P. induction E as [|x0 y l0 l1 Hxy _ IH]; [destruct Hx|].
      destruct Hx as [->|Hx]; [left; congruence | right; auto].
Qed.

(** ** Part E.  Invariance of the verdicts under exact scaling *)

(** *** E1. Scaling by an exact non-zero factor preserves and reflects [==] *)
Section ScaleRel.
  Variable k : num.
  Hypothesis Hk : exact k.
  Hypothesis Hk0 : ~ to_Q k == 0.

  Definition sc (v v' : num) : Prop := exact v /\ nmul v k = NOk v'.

  Lemma sc_value v v' : sc v v' -> exact v' /\ to_Q v' == to_Q v * to_Q k.
  Proof.
    intros [Hv Hm]. destruct (nmul_exact v k Hv Hk) as (r & Hr & Er & Qr).
    rewrite Hm in Hr. inversion Hr; subst. auto.
  Qed.

  Lemma sc_reflect v v' w w' : sc v v' -> sc w w' -> num_eqb v' w' = num_eqb v w.
  Proof.
    intros Hv Hw. destruct (sc_value _ _ Hv) as [_ Qv]. destruct (sc_value _ _ Hw) as [_ Qw].
    destruct (num_eqb v w) eqn:E.
    - apply num_eqb_Qeq. apply num_eqb_Qeq in E. now rewrite Qv, Qw, E.
    - destruct (num_eqb v' w') eqn:E'; [|reflexivity]. exfalso.
      apply num_eqb_Qeq in E'. rewrite Qv, Qw in E'. apply Qmult_inj_r in E'; [|exact Hk0].
      apply num_eqb_Qeq in E'. congruence.
  Qed.

  Lemma sc_zero v v' : sc v v' -> num_eqb v' (NInt 0) = num_eqb v (NInt 0).
  Proof.
    intros Hv. destruct (sc_value _ _ Hv) as [_ Qv].
    destruct (num_eqb v (NInt 0)) eqn:E.
    - apply num_eqb_Qeq. apply num_eqb_Qeq in E. rewrite Qv, E. reflexivity.
    - destruct (num_eqb v' (NInt 0)) eqn:E'; [|reflexivity]. exfalso.
      apply num_eqb_Qeq in E'. rewrite Qv in E'.
      assert (Z : to_Q (NInt 0) == 0 * to_Q k) by (unfold to_Q; simpl; ring).
      rewrite Z in E'. apply Qmult_inj_r in E'; [|exact Hk0].
      assert (to_Q v == to_Q (NInt 0)) by (rewrite E'; reflexivity).
      apply num_eqb_Qeq in H. congruence.
  Qed.
End ScaleRel.

(** *** E2. A number relation that preserves and reflects [==] lifts to trees *)
Section Reflect.
  Variable Rn : num -> num -> Prop.
  Hypothesis HR : forall v v' w w', Rn v v' -> Rn w w' -> num_eqb v' w' = num_eqb v w.

  Lemma part_R_reflect p p' q q' : part_R Rn p p' -> part_R Rn q q' -> part_eqb p' q' = part_eqb p q.
  Proof. destruct p, p', q, q'; simpl; try tauto; try (intros; subst; reflexivity). apply HR. Qed.

  Lemma list_reflect {A} (RA : A -> A -> Prop) (eqb : A -> A -> bool) :
    (forall a a' b b', RA a a' -> RA b b' -> eqb a' b' = eqb a b) ->
    forall l l' m m', Forall2 RA l l' -> Forall2 RA m m' -> list_eqb eqb l' m' = list_eqb eqb l m.
  Proof.
    intros H l l' m m' Hl. revert m m'. induction Hl as [|a a' l l' Ha _ IH]; intros m m' Hm;
      inversion Hm as [|b b' m0 m0' Hb Hm0]; subst; simpl; try reflexivity.
    now rewrite (H _ _ _ _ Ha Hb), (IH _ _ Hm0).
  Qed.

  Lemma svs_R_reflect d d' e e' : svs_R Rn d d' -> svs_R Rn e e' -> svs_eqb d' e' = svs_eqb d e.
  Proof. apply list_reflect. apply part_R_reflect. Qed.

  Lemma quantity_R_reflect q q' r r' : quantity_R Rn q q' -> quantity_R Rn r r' -> quantity_eqb q' r' = quantity_eqb q r.
  Proof.
    unfold quantity_R, quantity_eqb. intros (A & B & C & D) (A' & B' & C' & D').
    now rewrite (HR _ _ _ _ A A'), <- B, <- C, <- D, <- B', <- C', <- D'.
  Qed.

  Lemma optq_R_reflect q q' r r' : optq_R Rn q q' -> optq_R Rn r r' ->
    option_eqb quantity_eqb q' r' = option_eqb quantity_eqb q r.
  Proof. destruct q, q', r, r'; simpl; try tauto. apply quantity_R_reflect. Qed.

  Lemma amount_R_reflect a a' b b' : amount_R Rn a a' -> amount_R Rn b b' -> amount_eqb a' b' = amount_eqb a b.
  Proof.
    destruct a, a', b, b'; simpl; try tauto; try (intros; subst; reflexivity). apply quantity_R_reflect.
  Qed.

  Lemma node_R_reflect : forall x x' y y', node_R Rn x x' -> node_R Rn y y' -> node_eqb x' y' = node_eqb x y.
  Proof.
    induction x as [d q | d ins IH | sr i a IH | b ns sh IH] using node_ind'; intros x' y y' Hx Hy;
      apply node_R_inv in Hx.
    - destruct Hx as (d' & q' & -> & A & B).
      destruct y as [e r | e js | sr2 i2 a2 | b2 ns2 sh2]; apply node_R_inv in Hy.
      + destruct Hy as (e' & r' & -> & A' & B'). simpl.
        now rewrite (svs_R_reflect _ _ _ _ A A'), (optq_R_reflect _ _ _ _ B B').
      + destruct Hy as (? & ? & -> & _). reflexivity.
      + destruct Hy as (? & ? & -> & _). reflexivity.
      + destruct Hy as (? & ? & -> & _). reflexivity.
    - destruct Hx as (d' & ins' & -> & A & B).
      destruct y as [e r | e js | sr2 i2 a2 | b2 ns2 sh2]; apply node_R_inv in Hy.
      + destruct Hy as (? & ? & -> & _). reflexivity.
      + destruct Hy as (e' & js' & -> & A' & B'). rewrite !node_eqb_Step.
        rewrite (svs_R_reflect _ _ _ _ A A'). f_equal.
        clear A A'. revert js js' B'. induction B as [|u u' l l' Hu _ IHB]; intros js js' B';
          inversion B' as [|w w' m m' Hw Hm]; subst; simpl; try reflexivity.
        inversion IH; subst. rewrite (H1 _ _ _ Hu Hw). f_equal. now apply IHB.
      + destruct Hy as (? & ? & -> & _). reflexivity.
      + destruct Hy as (? & ? & -> & _). reflexivity.
    - destruct Hx as (sr' & a' & -> & A & B).
      destruct y as [e r | e js | sr2 i2 a2 | b2 ns2 sh2]; apply node_R_inv in Hy.
      + destruct Hy as (? & ? & -> & _). reflexivity.
      + destruct Hy as (? & ? & -> & _). reflexivity.
      + destruct Hy as (sr2' & a2' & -> & A' & B'). simpl.
        now rewrite (IH _ _ _ A A'), (amount_R_reflect _ _ _ _ B B').
      + destruct Hy as (? & ? & -> & _). reflexivity.
    - destruct Hx as (b' & ns' & -> & A & B).
      destruct y as [e r | e js | sr2 i2 a2 | b2 ns2 sh2]; apply node_R_inv in Hy.
      + destruct Hy as (? & ? & -> & _). reflexivity.
      + destruct Hy as (? & ? & -> & _). reflexivity.
      + destruct Hy as (? & ? & -> & _). reflexivity.
      + destruct Hy as (b2' & ns2' & -> & A' & B'). simpl.
        rewrite (IH _ _ _ A A'). f_equal. f_equal.
        apply (list_reflect (svs_R Rn) svs_eqb svs_R_reflect _ _ _ _ B B').
  Qed.
End Reflect.

(** *** E3. The visits commute with such a relation *)
Section Equivariant.
  Variable Rn : num -> num -> Prop.
  Hypothesis HR : forall v v' w w', Rn v v' -> Rn w w' -> num_eqb v' w' = num_eqb v w.
  Let NR := node_R Rn.

  Lemma is_hidden_R x x' : NR x x' -> is_hidden x' = is_hidden x.
  Proof.
    intro H. apply node_R_inv in H. destruct x as [d q | d ins | sr i a | b ns sh].
    - destruct H as (? & ? & -> & _). reflexivity.
    - destruct H as (? & ? & -> & _). reflexivity.
    - destruct H as (? & ? & -> & _). reflexivity.
    - destruct H as (b' & ns' & -> & _ & B). simpl.
      assert (L : length ns' = length ns) by (clear - B; induction B; simpl; auto). now rewrite L.
  Qed.

  Lemma Forall2_flat_map_R {A} (P : A -> A -> Prop) (f : node -> list A) l l' :
    Forall2 NR l l' -> Forall (fun x => forall y, NR x y -> Forall2 P (f x) (f y)) l ->
    Forall2 P (flat_map f l) (flat_map f l').
  Proof.
    induction 1 as [|x y l l' Hxy _ IH]; simpl; [constructor|]. intro HF. inversion HF; subst.
    apply Forall2_app; auto.
  Qed.

  Lemma hidden_list_R : forall t t', NR t t' -> Forall2 NR (hidden_list t) (hidden_list t').
  Proof.
    induction t as [d q | d ins IH | sr i a IH | b ns sh IH] using node_ind'; intros t' H;
      pose proof H as H0; apply node_R_inv in H.
    - destruct H as (? & ? & -> & _). constructor.
    - destruct H as (d' & ins' & -> & _ & B). simpl. now apply Forall2_flat_map_R.
    - destruct H as (? & ? & -> & _). constructor.
    - destruct H as (b' & ns' & -> & A & B).
      change (hidden_list (SubRecipe b ns sh))
        with ((if is_hidden (SubRecipe b ns sh) then [SubRecipe b ns sh] else []) ++ hidden_list b).
      change (hidden_list (SubRecipe b' ns' sh))
        with ((if is_hidden (SubRecipe b' ns' sh) then [SubRecipe b' ns' sh] else []) ++ hidden_list b').
      rewrite (is_hidden_R _ _ H0). apply Forall2_app; [|auto].
      destruct (is_hidden (SubRecipe b ns sh)); constructor; [exact H0 | constructor].
  Qed.

  Lemma visible_refs_R : forall t t', NR t t' -> Forall2 NR (visible_refs t) (visible_refs t').
  Proof.
    induction t as [d q | d ins IH | sr i a IH | b ns sh IH] using node_ind'; intros t' H;
      pose proof H as H0; apply node_R_inv in H.
    - destruct H as (? & ? & -> & _). constructor.
    - destruct H as (d' & ins' & -> & _ & B). simpl. now apply Forall2_flat_map_R.
    - destruct H as (? & ? & -> & _). simpl. constructor; [exact H0 | constructor].
    - destruct H as (b' & ns' & -> & A & B). simpl. auto.
  Qed.

  Lemma all_trees_R bs bs' : Forall2 (Forall2 NR) bs bs' -> Forall2 NR (all_trees bs) (all_trees bs').
  Proof. unfold all_trees. induction 1; simpl; [constructor | now apply Forall2_app]. Qed.

  Lemma flat_map_views_R (f : node -> list node) l l' :
    (forall t t', NR t t' -> Forall2 NR (f t) (f t')) -> Forall2 NR l l' ->
    Forall2 NR (flat_map f l) (flat_map f l').
  Proof. intros Hf H. induction H; simpl; [constructor | apply Forall2_app; auto]. Qed.

  Lemma ref_target_R r r' : NR r r' -> NR (ref_target r) (ref_target r').
  Proof.
    intro H. pose proof H as H0. apply node_R_inv in H. destruct r as [d q | d ins | sr i a | b ns sh].
    - destruct H as (? & ? & -> & _). exact H0.
    - destruct H as (? & ? & -> & _). exact H0.
    - destruct H as (sr' & a' & -> & A & _). exact A.
    - destruct H as (? & ? & -> & _). exact H0.
  Qed.

  Lemma Forall2_map_R (f : node -> node) l l' :
    (forall t t', NR t t' -> NR (f t) (f t')) -> Forall2 NR l l' -> Forall2 NR (map f l) (map f l').
  Proof. intros Hf H. induction H; simpl; constructor; auto. Qed.

  Lemma set_mem_R x x' s s' : NR x x' -> Forall2 NR s s' -> set_mem x' s' = set_mem x s.
  Proof.
    intros Hx Hs. induction Hs as [|y y' s s' Hy _ IH]; simpl; [reflexivity|].
    now rewrite (node_R_reflect Rn HR _ _ _ _ Hx Hy), IH.
  Qed.

  Lemma set_add_R x x' s s' : NR x x' -> Forall2 NR s s' -> Forall2 NR (set_add x s) (set_add x' s').
  Proof.
    intros Hx Hs. unfold set_add. rewrite (set_mem_R _ _ _ _ Hx Hs).
    destruct (set_mem x s); [exact Hs|]. apply Forall2_app; [exact Hs|]. constructor; [exact Hx | constructor].
  Qed.

  Lemma add_all_R l l' : Forall2 NR l l' -> forall s s', Forall2 NR s s' -> Forall2 NR (add_all l s) (add_all l' s').
  Proof.
    induction 1 as [|x x' l l' Hx _ IH]; intros s s' Hs; simpl; [exact Hs|].
    unfold add_all in *. simpl. apply IH. now apply set_add_R.
  Qed.

  Lemma filter_R (f f' : node -> bool) s s' :
    (forall x x', NR x x' -> f' x' = f x) -> Forall2 NR s s' -> Forall2 NR (filter f s) (filter f' s').
  Proof.
    intros Hf H. induction H as [|x x' s s' Hx _ IH]; simpl; [constructor|].
    rewrite (Hf _ _ Hx). destruct (f x); [constructor|]; assumption.
  Qed.

  Lemma unused_set_R bs bs' : Forall2 (Forall2 NR) bs bs' -> Forall2 NR (unused_set bs) (unused_set bs').
  Proof.
    intro H. rewrite !unused_set_eq. apply all_trees_R in H.
    assert (Hr : Forall2 NR (add_all (map ref_target (flat_map visible_refs (all_trees bs))) [])
                            (add_all (map ref_target (flat_map visible_refs (all_trees bs'))) [])).
    { apply add_all_R; [|constructor]. apply Forall2_map_R; [apply ref_target_R|].
      apply flat_map_views_R; [apply visible_refs_R | exact H]. }
    apply filter_R.
    - intros x x' Hx. now rewrite (set_mem_R _ _ _ _ Hx Hr).
    - apply add_all_R; [|constructor]. apply flat_map_views_R; [apply hidden_list_R | exact H].
  Qed.

  (** The reference map. *)
  Definition idx_R (ir ir' : nat * list node) : Prop := fst ir = fst ir' /\ Forall2 NR (snd ir) (snd ir').
  Definition entry_R (e e' : node * list (nat * list node)) : Prop :=
    NR (fst e) (fst e') /\ Forall2 idx_R (snd e) (snd e').
  Definition refmap_R : refmap -> refmap -> Prop := Forall2 entry_R.

  Lemma add_idx_R i r r' d d' : NR r r' -> Forall2 idx_R d d' -> Forall2 idx_R (add_idx i r d) (add_idx i r' d').
  Proof.
    intros Hr H. induction H as [|[j l] [j' l'] d d' [Hj Hl] Hd IH]; simpl.
    - constructor; [|constructor]. split; [reflexivity|]. simpl. constructor; [exact Hr | constructor].
    - simpl in Hj, Hl. subst j'. destruct (Nat.eqb i j).
      + constructor; [|assumption]. split; [reflexivity|]. simpl. apply Forall2_app; [exact Hl|].
        constructor; [exact Hr | constructor].
      + constructor; [|exact IH]. split; [reflexivity | exact Hl].
  Qed.

  Lemma add_ref_R sr sr' i r r' m m' :
    NR sr sr' -> NR r r' -> refmap_R m m' -> refmap_R (add_ref sr i r m) (add_ref sr' i r' m').
  Proof.
    intros Hs Hr H. induction H as [|[k d] [k' d'] m m' [Hk Hd] Hm IH]; simpl.
    - constructor; [|constructor]. split; [exact Hs|]. simpl. constructor; [|constructor].
      split; [reflexivity|]. simpl. constructor; [exact Hr | constructor].
    - simpl in Hk, Hd. rewrite (node_R_reflect Rn HR _ _ _ _ Hs Hk). destruct (node_eqb sr k).
      + constructor; [|assumption]. split; [exact Hk|]. simpl. now apply add_idx_R.
      + constructor; [|exact IH]. split; assumption.
  Qed.

  Lemma add_ref_node_R m m' r r' : refmap_R m m' -> NR r r' -> refmap_R (add_ref_node m r) (add_ref_node m' r').
  Proof.
    intros Hm H. pose proof H as H0. apply node_R_inv in H. destruct r as [d q | d ins | sr i a | b ns sh].
    - destruct H as (? & ? & -> & _). exact Hm.
    - destruct H as (? & ? & -> & _). exact Hm.
    - destruct H as (sr' & a' & -> & A & _). simpl. now apply add_ref_R.
    - destruct H as (? & ? & -> & _). exact Hm.
  Qed.

  Lemma visit_refs_blocks_R bs bs' :
    Forall2 (Forall2 NR) bs bs' -> refmap_R (visit_refs_blocks bs) (visit_refs_blocks bs').
  Proof.
    intro H. rewrite !visit_refs_blocks_fold. apply all_trees_R in H.
    assert (L : Forall2 NR (flat_map visible_refs (all_trees bs)) (flat_map visible_refs (all_trees bs')))
      by (apply flat_map_views_R; [apply visible_refs_R | exact H]).
    assert (M : refmap_R [] []) by constructor. revert M. generalize (@nil (node * list (nat * list node))) at 1 3.
    generalize (@nil (node * list (nat * list node))).
    induction L as [|r r' l l' Hr _ IH]; intros m' m Hm; simpl; [exact Hm|].
    apply IH. now apply add_ref_node_R.
  Qed.
End Equivariant.

(** *** E4. The arithmetic of one quantity use depends only on rational values *)

Lemma exact_div_Q a b n d : exact_div a b = Some (n, d) -> n # d == to_Q a / to_Q b.
Proof.
  unfold exact_div, to_Q. destruct (to_frac a) as [n1 d1], (to_frac b) as [n2 d2].
  destruct n2 as [|p|p]; [discriminate| |]; intro H; inversion H; subst;
    unfold Qeq, Qdiv, Qmult, Qinv; simpl; lia.
Qed.

Lemma exact_div_some a b : num_is_zero b = false -> exists n d, exact_div a b = Some (n, d).
Proof.
  unfold exact_div, num_is_zero. destruct (to_frac a) as [n1 d1], (to_frac b) as [n2 d2].
  destruct n2; [discriminate | eauto | eauto].
Qed.

Lemma to_float_mk_frac n d : to_float (mk_frac n d) = round_q n d.
Proof.
  pose proof (to_Q_mk_frac n d) as E. unfold mk_frac in *. unfold to_float, round_q. simpl.
  unfold to_Q, Qeq in E. simpl in E. now rewrite (b64_indep _ _ n d E).
Qed.

Lemma canon_is_float m e : is_float (canon m e) = true.
Proof.
  unfold canon. destruct m as [|p|p]; [reflexivity|..];
    destruct (canon_pos_positive p e) as (m' & e' & ->); reflexivity.
Qed.

Lemma b64_is_float n d f : b64 n d = Some f -> is_float f = true.
Proof.
  unfold b64. destruct n as [|p|p].
  - intro H; inversion H; reflexivity.
  - destruct (b64_pos _ _) as [[m e]|]; [|discriminate]. intro H; inversion H. apply canon_is_float.
  - destruct (b64_pos _ _) as [[m e]|]; [|discriminate]. intro H; inversion H. apply canon_is_float.
Qed.

Lemma round_q_is_float n d f : round_q n d = NOk f -> is_float f = true.
Proof. unfold round_q. destruct (b64 n d) eqn:E; [|discriminate]. intro H; inversion H; subst. eapply b64_is_float; eauto. Qed.

Definition float_add (fa x : num) : nres :=
  match to_float fa, to_float x with
  | NOk a, NOk b => let (n, d) := exact_add a b in round_q n d
  | NOverflow, _ | _, NOverflow => NOverflow
  | _, _ => NZeroDiv
  end.

Lemma nadd_float_l u x : is_float u = true -> nadd u x = float_add u x.
Proof. destruct u; try discriminate. intros _. destruct x; reflexivity. Qed.

Lemma nadd_is_float u x r : is_float u = true -> nadd u x = NOk r -> is_float r = true.
Proof.
  intros Hu. rewrite (nadd_float_l u x Hu). unfold float_add.
  destruct (to_float u); try discriminate; destruct (to_float x); try discriminate.
  destruct (exact_add v v0). apply round_q_is_float.
Qed.

Lemma nadd_float_indep u x y : is_float u = true -> to_float x = to_float y -> nadd u x = nadd u y.
Proof. intros Hu E. rewrite !(nadd_float_l u) by exact Hu. unfold float_add. now rewrite E. Qed.

(** [used += r] where [r] is the outcome of a division. *)
Definition acc (u : num) (r : nres) : nres :=
  match r with NOk f => nadd u f | NZeroDiv => NZeroDiv | NOverflow => NOverflow end.

Lemma acc_mk_frac u n d : is_float u = true -> acc u (NOk (mk_frac n d)) = acc u (round_q n d).
Proof.
  intro Hu. simpl. destruct (round_q n d) as [f| |] eqn:E; simpl.
  - apply nadd_float_indep; [exact Hu|]. rewrite to_float_mk_frac, E.
    symmetry. apply to_float_float. eapply round_q_is_float; eauto.
  - exfalso. eapply round_q_not_zerodiv; eauto.
  - rewrite (nadd_float_l u _ Hu). unfold float_add. rewrite to_float_mk_frac, E.
    destruct (to_float_cases u) as [[fa ->]| ->]; reflexivity.
Qed.

Lemma acc_ndiv_exact u a b : is_float u = true -> exact a -> exact b ->
  acc u (ndiv a b) = match exact_div a b with None => NZeroDiv | Some (n, d) => acc u (round_q n d) end.
Proof.
  unfold exact. intros Hu Ha Hb. destruct a as [x|n1 d1|m1 e1], b as [y|n2 d2|m2 e2]; try discriminate;
    unfold ndiv; destruct (exact_div _ _) as [[n d]|]; try reflexivity; now apply acc_mk_frac.
Qed.

Lemma acc_round_indep u n d n' d' : n # d == n' # d' -> acc u (round_q n d) = acc u (round_q n' d').
Proof. unfold Qeq. simpl. intro E. unfold round_q. now rewrite (b64_indep n d n' d' E). Qed.

Lemma num_is_zero_Q v : num_is_zero v = false <-> ~ to_Q v == 0.
Proof.
  unfold num_is_zero, to_Q. destruct (to_frac v) as [n d]. unfold Qeq. simpl. rewrite Z.mul_1_r.
  rewrite Z.eqb_neq. reflexivity.
Qed.

(** *** E5. The verdict computation under exact scaling *)
Definition lres_R {A} (P : A -> A -> Prop) (r r' : lres A) : Prop :=
  match r, r' with
  | LOk a, LOk b => P a b
  | LErr e, LErr e' => e = e'
  | _, _ => False
  end.

(** The conversion factor of a quantity use is exact (an int or a Fraction),
    or there is none. *)
Definition use_exact (total : option quantity) (r : node) : Prop :=
  match r, total with
  | Reference _ _ (AQty q), Some tq =>
      match conversion q tq with inl c => exact c | inr _ => True end
  | _, _ => True
  end.

Lemma conversion_units q q' tq tq' :
  q_unit q = q_unit q' -> q_unit tq = q_unit tq' -> conversion q tq = conversion q' tq'.
Proof. unfold conversion. now intros -> ->. Qed.

Lemma kinds_snoc l kd name : kinds (l ++ [(kd, name)]) = kinds l ++ [kd].
Proof. unfold kinds. now rewrite map_app. Qed.

Section Invariance.
  Variable k : num.
  Hypothesis Hk : exact k.
  Hypothesis Hk0 : ~ to_Q k == 0.
  Let Rn := sc k.
  Let NR := node_R Rn.

  Definition st_R (st st' : lstate) : Prop :=
    st_problem st = st_problem st' /\ st_used st = st_used st' /\
    kinds (st_out st) = kinds (st_out st') /\ is_float (st_used st) = true.

  Definition chain (u c v t : num) : lres num :=
    match of_nres_l (nmul v c) with
    | LErr e => LErr e
    | LOk qu =>
        match of_nres_l (ndiv qu t) with
        | LErr e => LErr e
        | LOk f => of_nres_l (nadd u f)
        end
    end.

  Lemma chain_acc u c v t qu : nmul v c = NOk qu -> chain u c v t = of_nres_l (acc u (ndiv qu t)).
  Proof. unfold chain. intros ->. simpl. destruct (ndiv qu t); reflexivity. Qed.

  Lemma chain_invariant u c v v' t t' :
    is_float u = true -> exact c -> Rn v v' -> Rn t t' -> num_eqb t (NInt 0) = false ->
    chain u c v t = chain u c v' t'.
  Proof.
    intros Hu Hc Hv Ht Hz.
    destruct (sc_value k Hk _ _ Hv) as [Ev' Qv']. destruct (sc_value k Hk _ _ Ht) as [Et' Qt'].
    destruct Hv as [Ev _]. pose proof Ht as Ht0. destruct Ht as [Et _].
    destruct (nmul_exact v c Ev Hc) as (qu & Hqu & Equ & Qqu).
    destruct (nmul_exact v' c Ev' Hc) as (qu' & Hqu' & Equ' & Qqu').
    rewrite (chain_acc _ _ _ _ _ Hqu), (chain_acc _ _ _ _ _ Hqu'). f_equal.
    rewrite !acc_ndiv_exact by assumption.
    assert (Hz' : num_eqb t' (NInt 0) = false) by (rewrite (sc_zero k Hk Hk0 _ _ Ht0); exact Hz).
    apply num_eqb_zero in Hz, Hz'.
    destruct (exact_div_some qu t Hz) as (n & d & E). destruct (exact_div_some qu' t' Hz') as (n' & d' & E').
    rewrite E, E'. apply acc_round_indep.
    rewrite (exact_div_Q _ _ _ _ E), (exact_div_Q _ _ _ _ E'), Qqu, Qqu', Qv', Qt'.
    apply num_is_zero_Q in Hz. field. split; assumption.
  Qed.

  Lemma chain_float u c v t r : is_float u = true -> chain u c v t = LOk r -> is_float r = true.
  Proof.
    intros Hu. unfold chain. destruct (nmul v c); simpl; try discriminate.
    destruct (ndiv v0 t); simpl; try discriminate.
    destruct (nadd u v1) eqn:E; simpl; try discriminate. intro H; inversion H; subst.
    eapply nadd_is_float; eauto.
  Qed.

  Lemma ref_step_chain name tq st sr i q c :
    num_eqb (q_value tq) (NInt 0) = false -> conversion q tq = inl c ->
    ref_step name (Some tq) st (Reference sr i (AQty q)) =
    match chain (st_used st) c (q_value q) (q_value tq) with
    | LErr e => LErr e
    | LOk u => LOk (mkSt (st_problem st) u (st_out st))
    end.
  Proof.
    intros Hz Hc. simpl. rewrite Hz, Hc. unfold chain.
    destruct (of_nres_l (nmul (q_value q) c)); [|reflexivity].
    destruct (of_nres_l (ndiv a (q_value tq))); [|reflexivity].
    destruct (of_nres_l (nadd (st_used st) a0)); reflexivity.
  Qed.

  Lemma st_R_intro p u o o' : kinds o = kinds o' -> is_float u = true -> st_R (mkSt p u o) (mkSt p u o').
  Proof. intros A B. repeat split; assumption. Qed.

  Lemma ref_step_R name name' total total' st st' r r' :
    NR r r' -> optq_R Rn total total' -> use_exact total r -> st_R st st' ->
    lres_R st_R (ref_step name total st r) (ref_step name' total' st' r').
  Proof.
    intros Hr Ht Hx Hs. destruct st as [p u o], st' as [p' u' o']. destruct Hs as (Sp & Su & So & Sf).
    simpl in Sp, Su, So, Sf. subst p' u'.
    apply node_R_inv in Hr.
    destruct r as [d q | d ins | sr i a | b ns sh].
    - destruct Hr as (? & ? & -> & _). simpl. now apply st_R_intro.
    - destruct Hr as (? & ? & -> & _). simpl. now apply st_R_intro.
    - destruct Hr as (sr' & a' & -> & _ & Ha).
      destruct a as [q|[v pc pr|w pr]], a' as [q'|[v' pc' pr'|w' pr']]; simpl in Ha; try tauto; try discriminate.
      + (* quantity *)
        destruct Ha as (Av & Au & _ & _).
        destruct total as [tq|], total' as [tq'|]; simpl in Ht; try tauto.
        * destruct Ht as (Tv & Tu & _ & _).
          destruct (num_eqb (q_value tq) (NInt 0)) eqn:Hz.
          -- simpl. rewrite Hz. rewrite (sc_zero k Hk Hk0 _ _ Tv), Hz. simpl.
             apply st_R_intro; [|exact Sf]. now rewrite !kinds_snoc, So.
          -- assert (Hz' : num_eqb (q_value tq') (NInt 0) = false) by (rewrite (sc_zero k Hk Hk0 _ _ Tv); exact Hz).
             pose proof (conversion_units q q' tq tq' Au Tu) as Ec.
             simpl in Hx. destruct (conversion q tq) as [c|[e|]] eqn:Cq.
             ++ rewrite (ref_step_chain name tq _ sr i q c Hz Cq).
                rewrite (ref_step_chain name' tq' _ sr' i q' c Hz' (eq_sym Ec)).
                cbn [st_used st_problem st_out].
                rewrite <- (chain_invariant u c _ _ _ _ Sf Hx Av Tv Hz).
                destruct (chain u c (q_value q) (q_value tq)) as [u1|e] eqn:Ch; simpl; [|reflexivity].
                apply st_R_intro; [exact So|]. eapply chain_float; eauto.
             ++ simpl. rewrite Hz, Hz', <- Ec, Cq. reflexivity.
             ++ simpl. rewrite Hz, Hz', <- Ec, Cq. simpl.
                apply st_R_intro; [|exact Sf]. now rewrite !kinds_snoc, So.
        * simpl. apply st_R_intro; [|exact Sf]. now rewrite !kinds_snoc, So.
      + (* proportion value: not scaled *)
        inversion Ha; subst. simpl.
        destruct (nadd u v') as [u1| |] eqn:E; simpl; try reflexivity.
        apply st_R_intro; [exact So|]. eapply nadd_is_float; eauto.
      + (* remainder *)
        inversion Ha; subst. simpl.
        destruct (num_leb f_one u); simpl.
        * apply st_R_intro; [now rewrite !kinds_snoc, So|].
          destruct (num_ltb f_one u); [exact Sf | reflexivity].
        * apply st_R_intro; [exact So|]. destruct (num_ltb f_one u); [exact Sf | reflexivity].
    - destruct Hr as (? & ? & -> & _). simpl. now apply st_R_intro.
  Qed.

  Lemma refs_fold_R name name' total total' :
    optq_R Rn total total' ->
    forall refs refs', Forall2 NR refs refs' -> Forall (use_exact total) refs ->
    forall st st', st_R st st' ->
    lres_R st_R (refs_fold name total st refs) (refs_fold name' total' st' refs').
  Proof.
    intros Ht refs refs' H. induction H as [|r r' l l' Hr _ IH]; intros Hx st st' Hs; simpl; [exact Hs|].
    inversion Hx; subst.
    pose proof (ref_step_R name name' total total' st st' r r' Hr Ht H1 Hs) as S.
    destruct (ref_step name total st r) as [s1|e], (ref_step name' total' st' r') as [s1'|e']; simpl in S; try tauto.
    now apply IH.
  Qed.

  Lemma final_verdict_R name name' u :
    lres_R (fun l l' => kinds l = kinds l') (final_verdict name u) (final_verdict name' u).
  Proof.
    unfold final_verdict. destruct (isclose_with _ _ u f_one) as [[|]|]; simpl; try reflexivity.
    destruct (num_ltb u f_one); reflexivity.
  Qed.

  Lemma single_chain_R : forall t t', NR t t' -> NR (single_chain t) (single_chain t').
  Proof.
    induction t as [d q | d ins IH | sr i a IH | b ns sh IH] using node_ind'; intros t' H;
      pose proof H as H0; apply node_R_inv in H.
    - destruct H as (? & ? & -> & _). exact H0.
    - destruct H as (d' & ins' & -> & A & B).
      destruct B as [|x x' l l' Hx B]; [exact H0|]. destruct B as [|y y' l l' Hy B].
      + simpl. inversion IH; subst. auto.
      + exact H0.
    - destruct H as (? & ? & -> & _). exact H0.
    - destruct H as (? & ? & -> & _). exact H0.
  Qed.

  Lemma total_quantity_R sr sr' : NR sr sr' -> optq_R Rn (total_quantity sr) (total_quantity sr').
  Proof.
    intro H. apply node_R_inv in H. destruct sr as [d q | d ins | sr0 i a | b ns sh].
    - destruct H as (? & ? & -> & _). exact I.
    - destruct H as (? & ? & -> & _). exact I.
    - destruct H as (? & ? & -> & _). exact I.
    - destruct H as (b' & ns' & -> & A & B). simpl.
      assert (L : length ns' = length ns) by (clear - B; induction B; simpl; auto). rewrite L.
      apply single_chain_R in A. apply node_R_inv in A.
      destruct (single_chain b) as [d q | d ins | sr0 i a | b0 ns0 sh0].
      + destruct A as (d' & q' & -> & _ & Q). destruct (Nat.eqb (length ns) 1); [exact Q | exact I].
      + destruct A as (? & ? & -> & _). exact I.
      + destruct A as (? & ? & -> & _). exact I.
      + destruct A as (? & ? & -> & _). exact I.
  Qed.

  Lemma output_lints_R sr sr' idx refs refs' l l' :
    NR sr sr' -> Forall2 NR refs refs' -> Forall (use_exact (total_quantity sr)) refs ->
    output_lints sr idx refs = LOk l -> output_lints sr' idx refs' = LOk l' -> kinds l = kinds l'.
  Proof.
    intros Hs Hr Hx. pose proof (total_quantity_R _ _ Hs) as Ht.
    unfold output_lints. apply node_R_inv in Hs. destruct sr as [d q | d ins | sr0 i a | b ns sh];
      try (destruct Hs as (? & ? & -> & _); discriminate).
    destruct Hs as (b' & ns' & -> & A & B).
    destruct (nth_error ns idx) as [nm|]; [|discriminate]. destruct (svs_text nm) as [name|]; [|discriminate].
    destruct (nth_error ns' idx) as [nm'|]; [|discriminate]. destruct (svs_text nm') as [name'|]; [|discriminate].
    assert (S0 : st_R (mkSt false f_zero []) (mkSt false f_zero [])) by (repeat split).
    pose proof (refs_fold_R name name' _ _ Ht refs refs' Hr Hx _ _ S0) as S.
    destruct (refs_fold name _ _ refs) as [st|e]; [|discriminate].
    destruct (refs_fold name' _ _ refs') as [st'|e']; [|discriminate].
    simpl in S. destruct S as (Sp & Su & So & _). rewrite <- Sp, <- Su.
    destruct (st_problem st).
    - intros E E'. inversion E; inversion E'; subst. exact So.
    - pose proof (final_verdict_R name name' (st_used st)) as F.
      destruct (final_verdict name (st_used st)) as [v|e]; [|discriminate].
      destruct (final_verdict name' (st_used st)) as [v'|e']; [|discriminate].
      simpl in F. intros E E'. inversion E; inversion E'; subst. unfold kinds in *. rewrite !map_app.
      apply f_equal2; [exact So | exact F].
  Qed.

  Lemma concat_lres_ok {A} (l : list (lres (list A))) x :
    concat_lres l = LOk x -> exists ys, Forall2 (fun r y => r = LOk y) l ys /\ x = concat ys.
  Proof.
    revert x. induction l as [|[y|e] r IH]; intro x; simpl.
    - intro H; inversion H. exists []. split; [constructor | reflexivity].
    - destruct (concat_lres r) as [z|e]; [|discriminate]. intro H; inversion H; subst.
      destruct (IH z eq_refl) as (ys & F & ->). exists (y :: ys). split; [constructor; auto | reflexivity].
    - discriminate.
  Qed.

  (** Every group the lint forms converts its quantity uses by exact factors. *)
  Definition exact_conversions (bs : list (list node)) : Prop :=
    Forall (fun e => Forall (fun ir => Forall (use_exact (total_quantity (fst e))) (snd ir)) (snd e))
           (visit_refs_blocks bs).

  Lemma sum_lints_R m m' l l' :
    refmap_R Rn m m' ->
    Forall (fun e => Forall (fun ir => Forall (use_exact (total_quantity (fst e))) (snd ir)) (snd e)) m ->
    sum_lints_of m = LOk l -> sum_lints_of m' = LOk l' -> kinds l = kinds l'.
  Proof.
    unfold sum_lints_of. intros Hm Hx E E'.
    apply concat_lres_ok in E. destruct E as (ys & F & ->).
    apply concat_lres_ok in E'. destruct E' as (ys' & F' & ->).
    unfold kinds. rewrite !concat_map. f_equal.
    revert ys ys' F F'. induction Hm as [|[k0 d] [k0' d'] m m' [Hk0' Hd] Hm IH]; intros ys ys' F F'; simpl in *.
    - inversion F; inversion F'; subst. reflexivity.
    - inversion Hx as [|? ? Hx1 Hx2]; subst. simpl in *.
      apply Forall2_app_inv_l in F. destruct F as (y1 & y2 & F1 & F2 & ->).
      apply Forall2_app_inv_l in F'. destruct F' as (y1' & y2' & F1' & F2' & ->).
      rewrite !map_app. f_equal; [|now apply IH].
      clear IH F2 F2' Hx2 Hm Hx. revert y1 y1' F1 F1' Hx1.
      induction Hd as [|[j rs] [j' rs'] d d' [Hj Hrs] Hd IHd]; intros y1 y1' F1 F1' Hx1; simpl in *.
      + inversion F1; inversion F1'; subst. reflexivity.
      + subst j'. inversion Hx1 as [|? ? Hx11 Hx12]; subst. simpl in *.
        inversion F1 as [|? a1 ? r1 Ha1 Hr1]; subst. inversion F1' as [|? a1' ? r1' Ha1' Hr1']; subst.
        simpl. f_equal; [|now apply IHd].
        exact (output_lints_R k0 k0' j rs rs' a1 a1' Hk0' Hrs Hx11 Ha1 Ha1').
  Qed.

  Lemma check_unused_R bs bs' l l' :
    Forall2 (Forall2 NR) bs bs' -> check_unused bs = LOk l -> check_unused bs' = LOk l' -> kinds l = kinds l'.
  Proof.
    intros H E E'. apply check_unused_spec in E, E'.
    destruct E as (A & B & _), E' as (A' & B' & _).
    pose proof (unused_set_R Rn (sc_reflect k Hk Hk0) bs bs' H) as U.
    assert (L : length l = length l').
    { rewrite B, B'. clear - U. induction U; simpl; auto. }
    clear B B'. revert l' A' L. induction l as [|x r IH]; intros [|x' r'] A' L; simpl in *; try discriminate; [reflexivity|].
    inversion A; inversion A'; subst. f_equal; [congruence|]. apply IH; auto.
  Qed.

  Theorem lint_scale_invariant bs bs' l l' :
    Forall2 (Forall2 NR) bs bs' -> exact_conversions bs ->
    lint_check bs = LOk l -> lint_check bs' = LOk l' -> kinds l = kinds l'.
  Proof.
    intros H Hx. unfold lint_check.
    destruct (check_unused bs) as [a|e] eqn:U; [|discriminate].
    destruct (check_sums bs) as [b|e] eqn:S; [|discriminate].
    destruct (check_unused bs') as [a'|e] eqn:U'; [|discriminate].
    destruct (check_sums bs') as [b'|e] eqn:S'; [|discriminate].
    intros E E'. inversion E; inversion E'; subst. unfold kinds. rewrite !map_app. f_equal.
    - exact (check_unused_R bs bs' a a' H U U').
    - unfold check_sums in *.
      exact (sum_lints_R _ _ b b' (visit_refs_blocks_R Rn (sc_reflect k Hk Hk0) bs bs' H) Hx S S').
  Qed.
End Invariance.

(** ** Part F.  The verdict as a function of the uses (exact runs) *)

(** The abstract use a reference stands for ([None]: not a reference, or the
    unit conversion raised something other than KeyError). *)
Definition use_of (total : option quantity) (r : node) : option use :=
  match r with
  | Reference _ _ (AQty q) =>
      match total with
      | None => Some UUnknown
      | Some tq =>
          if num_eqb (q_value tq) (NInt 0) then Some UUnknown else
          match conversion q tq with
          | inr None => Some UIncompatible
          | inr (Some _) => None
          | inl c => Some (UQuantity (to_Q (q_value q) * to_Q c / to_Q (q_value tq)))
          end
      end
  | Reference _ _ (AProp (PropRem _ _)) => Some URemainder
  | Reference _ _ (AProp (PropVal v _ _)) => Some (UProportion (to_Q v))
  | _ => None
  end.

(** "The float addition performed for this use was exact." *)
Definition step_exact (total : option quantity) (st : lstate) (r : node) (st' : lstate) : Prop :=
  match use_of total r with
  | Some (UProportion p) | Some (UQuantity p) => to_Q (st_used st') == to_Q (st_used st) + p
  | _ => True
  end.

Fixpoint run_exact (name : str) (total : option quantity) (st : lstate) (refs : list node) : Prop :=
  match refs with
  | [] => True
  | r :: rest =>
      match ref_step name total st r with
      | LOk st' => step_exact total st r st' /\ run_exact name total st' rest
      | LErr _ => False
      end
  end.

Definition tracks (st : lstate) (s : sstate) : Prop :=
  let '(used, problem, out) := s in
  to_Q (st_used st) == used /\ st_problem st = problem /\ kinds (st_out st) = out.

Lemma num_leb_one u : num_leb f_one u = Qle_bool 1 (to_Q u).
Proof. unfold num_leb, to_Q, Qle_bool. simpl. destruct (to_frac u) as [n d]. simpl. reflexivity. Qed.

Lemma num_ltb_one u : num_ltb f_one u = negb (Qle_bool (to_Q u) 1).
Proof.
  unfold num_ltb, to_Q, Qle_bool. simpl. destruct (to_frac u) as [n d]. simpl.
  rewrite Z.ltb_antisym. reflexivity.
Qed.

Lemma num_ltb_one_r u : num_ltb u f_one = negb (Qle_bool 1 (to_Q u)).
Proof.
  unfold num_ltb, to_Q, Qle_bool. simpl. destruct (to_frac u) as [n d]. simpl.
  rewrite Z.ltb_antisym. reflexivity.
Qed.

Lemma Qle_bool_eq_l a b c : a == b -> Qle_bool c a = Qle_bool c b.
Proof.
  intro E. destruct (Qle_bool c a) eqn:H1, (Qle_bool c b) eqn:H2; try reflexivity.
  - apply Qle_bool_iff in H1. rewrite E in H1. apply Qle_bool_iff in H1. congruence.
  - apply Qle_bool_iff in H2. rewrite <- E in H2. apply Qle_bool_iff in H2. congruence.
Qed.

Lemma ref_step_tracks name total st r st' s u :
  ref_step name total st r = LOk st' -> use_of total r = Some u -> step_exact total st r st' ->
  tracks st s -> tracks st' (spec_step s u).
Proof.
  destruct s as [[used problem] out]. intros E U X (Tu & <- & <-). unfold step_exact in X. rewrite U in X.
  destruct r as [d q | d ins | sr i a | b ns sh]; try discriminate.
  destruct a as [q|[v pc pr|w pr]]; simpl in E, U.
  - destruct total as [tq|].
    + destruct (num_eqb (q_value tq) (NInt 0)).
      * inversion U; inversion E; subst. simpl. repeat split; auto. now rewrite kinds_snoc.
      * destruct (conversion q tq) as [c|[e|]].
        -- inversion U; subst.
           destruct (of_nres_l (nmul (q_value q) c)) as [qu|]; [|discriminate].
           destruct (of_nres_l (ndiv qu (q_value tq))) as [f|]; [|discriminate].
           destruct (of_nres_l (nadd (st_used st) f)) as [u1|]; [|discriminate].
           inversion E; subst. simpl in *. repeat split; auto. now rewrite X, Tu.
        -- discriminate.
        -- inversion U; inversion E; subst. simpl. repeat split; auto. now rewrite kinds_snoc.
    + inversion U; inversion E; subst. simpl. repeat split; auto. now rewrite kinds_snoc.
  - inversion U; subst. destruct (of_nres_l (nadd (st_used st) v)) as [u1|]; [|discriminate].
    inversion E; subst. simpl in *. repeat split; auto. now rewrite X, Tu.
  - inversion U; subst. inversion E; subst. clear E U X. simpl.
    rewrite <- (Qle_bool_eq_l _ _ 1 Tu), <- num_leb_one.
    destruct (num_leb f_one (st_used st)) eqn:L; simpl.
    + repeat split; [|now rewrite kinds_snoc].
      rewrite num_ltb_one. destruct (Qle_bool (to_Q (st_used st)) 1) eqn:L2; simpl; [|exact Tu].
      rewrite num_leb_one in L. apply Qle_bool_iff in L, L2. rewrite <- Tu.
      change (to_Q f_one) with 1%Q. apply Qle_antisym; [exact L | exact L2].
    + repeat split; auto. rewrite num_ltb_one.
      destruct (Qle_bool (to_Q (st_used st)) 1) eqn:L2; simpl; [reflexivity|].
      exfalso. rewrite num_leb_one in L.
      assert (~ (1 <= to_Q (st_used st))%Q) by (intro K; apply Qle_bool_iff in K; congruence).
      assert (~ (to_Q (st_used st) <= 1)%Q) by (intro K; apply Qle_bool_iff in K; congruence).
      destruct (Qlt_le_dec 1 (to_Q (st_used st))) as [K|K]; [apply Qlt_le_weak in K|]; tauto.
Qed.

Lemma refs_fold_tracks name total : forall refs us st st' s,
  refs_fold name total st refs = LOk st' ->
  Forall2 (fun r u => use_of total r = Some u) refs us ->
  run_exact name total st refs -> tracks st s -> tracks st' (fold_left spec_step us s).
Proof.
  induction refs as [|r rest IH]; intros us st st' s E F X T; inversion F as [|? u ? us' Hu Hrest]; subst; simpl in *.
  - inversion E; subst. exact T.
  - destruct (ref_step name total st r) as [st1|e] eqn:E1; [|discriminate]. destruct X as [X1 X2].
    eapply IH; eauto. eapply ref_step_tracks; eauto.
Qed.

(** The 2% test decided as in exact arithmetic. *)
Definition tolerance_agrees (u : num) : Prop :=
  isclose_with (fst tol_2e2) (snd tol_2e2) u f_one = Some (within_2_percent (to_Q u)).

Lemma Qle_bool_morph a b c d : a == b -> c == d -> Qle_bool a c = Qle_bool b d.
Proof.
  intros E1 E2. destruct (Qle_bool a c) eqn:H1, (Qle_bool b d) eqn:H2; try reflexivity.
  - apply Qle_bool_iff in H1. rewrite E1, E2 in H1. apply Qle_bool_iff in H1. congruence.
  - apply Qle_bool_iff in H2. rewrite <- E1, <- E2 in H2. apply Qle_bool_iff in H2. congruence.
Qed.

Lemma within_2_percent_eq a b : a == b -> within_2_percent a = within_2_percent b.
Proof.
  intro E. unfold within_2_percent. apply Qle_bool_morph.
  - now rewrite E.
  - rewrite (Qle_bool_morph 1 1 a b (Qeq_refl 1) E). destruct (Qle_bool 1 b); [now rewrite E | reflexivity].
Qed.

Lemma spec_final_eq a b : a == b -> spec_final a = spec_final b.
Proof.
  intro E. unfold spec_final. now rewrite (within_2_percent_eq _ _ E), (Qle_bool_morph 1 1 a b (Qeq_refl 1) E).
Qed.

Lemma final_verdict_spec name u l :
  tolerance_agrees u -> final_verdict name u = LOk l -> kinds l = spec_final (to_Q u).
Proof.
  unfold tolerance_agrees, final_verdict, spec_final. intros ->.
  destruct (within_2_percent (to_Q u)); [intro H; inversion H; reflexivity|].
  rewrite num_ltb_one_r. destruct (Qle_bool 1 (to_Q u)); simpl; intro H; inversion H; reflexivity.
Qed.

Theorem verdict_spec_exact_runs sr idx refs us l :
  output_lints sr idx refs = LOk l ->
  Forall2 (fun r u => use_of (total_quantity sr) r = Some u) refs us ->
  (forall name, run_exact name (total_quantity sr) (mkSt false f_zero []) refs) ->
  (forall name st, refs_fold name (total_quantity sr) (mkSt false f_zero []) refs = LOk st ->
     st_problem st = false -> tolerance_agrees (st_used st)) ->
  kinds l = verdict_spec us.
Proof.
  unfold output_lints. destruct sr as [d q | d ins | sr0 i a | b ns sh]; try discriminate.
  destruct (nth_error ns idx) as [nm|]; [|discriminate]. destruct (svs_text nm) as [name|]; [|discriminate].
  intros E F X Tol.
  destruct (refs_fold name _ _ refs) as [st|e] eqn:R; [|discriminate].
  assert (T0 : tracks (mkSt false f_zero []) (0%Q, false, [])) by (repeat split; reflexivity).
  pose proof (refs_fold_tracks name _ refs us _ st _ R F (X name) T0) as T.
  unfold verdict_spec, spec_fold. destruct (fold_left spec_step us (0%Q, false, [])) as [[used problem] out].
  destruct T as (Tu & <- & <-).
  destruct (st_problem st) eqn:P.
  - inversion E; subst. reflexivity.
  - destruct (final_verdict name (st_used st)) as [v|e] eqn:Fv; [|discriminate]. inversion E; subst.
    rewrite <- (spec_final_eq _ _ Tu), <- (final_verdict_spec name _ v (Tol name st R P) Fv).
    unfold kinds. now rewrite map_app.
Qed.

(** ** Part G.  Packaging: scaled blocks are related *)
Lemma scale_blocks_related k bs bs' :
  Forall exact (blocks_numbers bs) -> scale_blocks k bs = Some bs' ->
  Forall2 (Forall2 (node_R (sc k))) bs bs'.
Proof.
  unfold scale_blocks, blocks_numbers. intros He H. apply map_opt_Forall2 in H.
  induction H as [|b b' l l' Hb _ IH]; [constructor|].
  simpl in He. rewrite Forall_app in He. destruct He as [He1 He2]. constructor; [|auto].
  apply map_opt_Forall2 in Hb. clear IH He2.
  induction Hb as [|t t' m m' Ht _ IHb]; [constructor|].
  simpl in He1. rewrite Forall_app in He1. destruct He1 as [Ht1 Ht2]. constructor; [|auto].
  apply scale_node_R in Ht. apply (node_R_restrict _ exact) in Ht; [|exact Ht1]. exact Ht.
Qed.

(** ** Part H.  Statements used by Props/C20.v *)

Theorem no_zero_division_not_tiny bs :
  Forall not_tiny (blocks_numbers bs) -> lint_check bs <> LErr LZeroDivision.
Proof.
  intro H. apply no_zero_division. eapply Forall_impl; [|exact H]. intros v. apply not_tiny_sane.
Qed.

Theorem unused_iff bs l :
  check_unused bs = LOk l ->
  (forall name, In (unused_ingredient, name) l ->
     exists x, is_hidden x = true /\ occurs x bs /\ ~ is_referenced x bs /\ first_name_text x = LOk name) /\
  (forall x, is_hidden x = true -> occurs x bs -> ~ is_referenced x bs ->
     exists x' name, node_eqb x x' = true /\ first_name_text x' = LOk name /\ In (unused_ingredient, name) l) /\
  Forall (fun li => fst li = unused_ingredient) l /\
  length l = length (unused_set bs) /\ distinct (unused_set bs).
Proof.
  intro E. pose proof E as E0. apply check_unused_spec in E. destruct E as (A & B & C).
  destruct (unused_set_spec bs) as (S1 & S2 & S3).
  split; [|split; [|split; [exact A | split; [exact B | exact S3]]]].
  - intros name Hn. apply C in Hn. destruct Hn as (x & Hx & Ex).
    destruct (S1 x Hx) as (H1 & H2 & H3). exists x. auto.
  - intros x H1 H2 H3. destruct (S2 x H1 H2 H3) as (x' & Hx' & Ex).
    unfold check_unused in E0. destruct (map_lres first_name_text (unused_set bs)) as [names|e] eqn:M; [|discriminate].
    apply map_lres_ok in M.
    assert (N : exists name, first_name_text x' = LOk name).
    { clear - M Hx'. induction M as [|y n l0 l1 Hy _ IH]; [destruct Hx'|].
      destruct Hx' as [->|Hx']; eauto. }
    destruct N as (name & Hn). exists x', name. split; [exact Ex|]. split; [exact Hn|].
    apply C. eauto.
Qed.

Theorem scale_invariant_exact k bs bs' l l' :
  exact k -> (0 < to_Q k)%Q -> Forall exact (blocks_numbers bs) -> exact_conversions bs ->
  scale_blocks k bs = Some bs' ->
  lint_check bs = LOk l -> lint_check bs' = LOk l' -> kinds l = kinds l'.
Proof.
  intros Hk Hpos He Hx Hs. assert (Hk0 : ~ to_Q k == 0) by (intro Z0; rewrite Z0 in Hpos; discriminate).
  apply (lint_scale_invariant k Hk Hk0 bs bs' l l'); [|exact Hx].
  now apply scale_blocks_related.
Qed.

(** Boolean versions for the examples. *)
Definition not_tiny_b (v : num) : bool :=
  match v with
  | NFloat _ _ => true
  | _ => (fst (to_frac v) =? 0)%Z || (Zpos (snd (to_frac v)) <=? Z.abs (fst (to_frac v)) * 2 ^ 1074)%Z
  end.

Lemma not_tiny_b_ok v : not_tiny_b v = true -> not_tiny v.
Proof.
  destruct v as [z|n d|m e]; unfold not_tiny_b, not_tiny; [| |trivial];
    rewrite orb_true_iff, Z.eqb_eq, Z.leb_le; trivial.
Qed.

Lemma Forall_not_tiny_b l : forallb not_tiny_b l = true -> Forall not_tiny l.
Proof. rewrite forallb_forall, Forall_forall. intros H v Hv. apply not_tiny_b_ok. auto. Qed.

Definition exact_b (v : num) : bool := negb (is_float v).

Lemma Forall_exact_b l : forallb exact_b l = true -> Forall exact l.
Proof.
  rewrite forallb_forall, Forall_forall. intros H v Hv. specialize (H v Hv).
  unfold exact_b, exact in *. now destruct (is_float v).
Qed.

Definition use_exact_b (total : option quantity) (r : node) : bool :=
  match r, total with
  | Reference _ _ (AQty q), Some tq =>
      match conversion q tq with inl c => negb (is_float c) | inr _ => true end
  | _, _ => true
  end.

Lemma use_exact_b_ok total r : use_exact_b total r = true -> use_exact total r.
Proof.
  unfold use_exact_b, use_exact. destruct r as [d q|d ins|sr i a|b ns sh]; trivial.
  destruct a as [q|p]; trivial. destruct total as [tq|]; trivial.
  destruct (conversion q tq) as [c|e]; trivial. unfold exact. now destruct (is_float c).
Qed.

Definition exact_conversions_b (bs : list (list node)) : bool :=
  forallb (fun e => forallb (fun ir => forallb (use_exact_b (total_quantity (fst e))) (snd ir)) (snd e))
          (visit_refs_blocks bs).

Lemma exact_conversions_b_ok bs : exact_conversions_b bs = true -> exact_conversions bs.
Proof.
  unfold exact_conversions_b, exact_conversions. rewrite forallb_forall, Forall_forall.
  intros H e He. specialize (H e He). rewrite forallb_forall in H. apply Forall_forall. intros ir Hir.
  specialize (H ir Hir). rewrite forallb_forall in H. apply Forall_forall. intros r Hr.
  apply use_exact_b_ok. auto.
Qed.
