From Coq Require Import List NArith Bool Arith Lia String Permutation.
From RG Require Import Base.Str Base.Dec Model.Url Model.Href Model.Fs Model.Site Spec.SiteSpec
  Proofs.FsTree Proofs.SiteLinks Proofs.SiteHeap.
Import ListNotations.
Open Scope list_scope.
Open Scope N_scope.

(** * The abstract file system - and the whole generator - under another listing order (C17).

    [node_perm fs fs'] (Spec/SiteSpec.v): the same files, links and directories, the entries of
    every directory possibly listed in another order.  For a file system with unique names per
    directory: lstat, realpath, stat, is_file and read_file agree, the trees the generator sees
    are related by [stree_perm], and [generate_static_site] returns the same files (or raises in
    both). *)

Section NPInd.
Variable Q : node -> node -> Prop.
Hypothesis Hf : forall d, Q (NFile d) (NFile d).
Hypothesis Hl : forall t, Q (NLink t) (NLink t).
Hypothesis Hd : forall es mid es',
  Forall2 (fun a b => fst a = fst b /\ node_perm (snd a) (snd b)) es mid ->
  Forall2 (fun a b => Q (snd a) (snd b)) es mid -> Permutation mid es' -> Q (NDir es) (NDir es').

Fixpoint nperm_ind' n n' (H : node_perm n n') {struct H} : Q n n' :=
  match H in node_perm n0 n0' return Q n0 n0' with
  | NP_file d => Hf d
  | NP_link t => Hl t
  | NP_dir es mid es' F P =>
      Hd es mid es' F
        ((fix go (a b : list (str * node))
              (F0 : Forall2 (fun a b => fst a = fst b /\ node_perm (snd a) (snd b)) a b) {struct F0}
            : Forall2 (fun a b => Q (snd a) (snd b)) a b :=
            match F0 in Forall2 _ a0 b0 return Forall2 (fun a b => Q (snd a) (snd b)) a0 b0 with
            | Forall2_nil _ => Forall2_nil _
            | Forall2_cons x y h tl => Forall2_cons x y (match h with conj _ hx => nperm_ind' (snd x) (snd y) hx end) (go _ _ tl)
            end) es mid F) P
  end.
End NPInd.

Lemma fs_uniq_dir es : fs_uniq (NDir es) <-> NoDup (map fst es) /\ Forall (fun x => fs_uniq (snd x)) es.
Proof.
  cbn [fs_uniq]. split; intros [H1 H2]; split; try exact H1.
  - clear H1. induction es as [|x r IH]; [constructor|]. destruct H2 as [Hx Hr]. constructor; [exact Hx | apply IH; exact Hr].
  - clear H1. induction H2 as [|x r Hx Hr IH]; [exact I | split; assumption].
Qed.

(** lookup of a name in related / permuted entry lists *)
Definition nrel (o o' : option node) : Prop :=
  match o, o' with Some n, Some n' => node_perm n n' | None, None => True | _, _ => False end.

Lemma assoc_rel k es mid :
  Forall2 (fun a b => fst a = fst b /\ node_perm (snd a) (snd b)) es mid -> nrel (assoc_str k es) (assoc_str k mid).
Proof.
  induction 1 as [|[ka na] [kb nb] l l' [Hk Hn] HF IH]; [exact I|]. simpl in *. subst kb.
  destruct (str_eqb k ka); [exact Hn | exact IH].
Qed.

Lemma assoc_perm (k : str) (l l2 : list (str * node)) : Permutation l l2 -> NoDup (map (@fst str node) l) -> assoc_str k l = assoc_str k l2.
Proof.
  induction 1 as [|[ka na] l l' HP IH|[ka na] [kb nb] l|l l' l'' HP1 IH1 HP2 IH2]; intro Hnd.
  - reflexivity.
  - simpl. inversion Hnd; subst. destruct (str_eqb k ka); [reflexivity | apply IH; assumption].
  - simpl. destruct (str_eqb k kb) eqn:Eb; destruct (str_eqb k ka) eqn:Ea; try reflexivity.
    apply str_eqb_eq in Ea, Eb. subst. simpl in Hnd. inversion Hnd as [|? ? Hni _]. exfalso. apply Hni. left. reflexivity.
  - rewrite IH1 by exact Hnd. apply IH2. eapply Permutation_NoDup; [apply Permutation_map; exact HP1 | exact Hnd].
Qed.

Lemma mid_names (es mid : list (str * node)) :
  Forall2 (fun a b => fst a = fst b /\ node_perm (snd a) (snd b)) es mid -> map (@fst str node) es = map (@fst str node) mid.
Proof. induction 1 as [|a b l l' [Hk _] HF IH]; [reflexivity|]. simpl. congruence. Qed.

Lemma assoc_nperm k es es' : node_perm (NDir es) (NDir es') -> NoDup (map fst es) ->
  nrel (assoc_str k es) (assoc_str k es').
Proof.
  intros H Hnd. inversion H as [| |? mid ? HF HP]; subst.
  rewrite <- (assoc_perm k mid es' HP); [apply assoc_rel; exact HF|]. rewrite <- (mid_names _ _ HF). exact Hnd.
Qed.

Lemma nperm_uniq : forall n n', node_perm n n' -> fs_uniq n -> fs_uniq n'.
Proof.
  intros n n' H. induction H as [d|t|es mid es' HF IH HP] using nperm_ind'; intro Hu; try exact Hu.
  apply fs_uniq_dir in Hu as [Hnd Hall]. apply fs_uniq_dir. split.
  - eapply Permutation_NoDup; [apply Permutation_map; exact HP|]. rewrite <- (mid_names _ _ HF). exact Hnd.
  - assert (Hm : Forall (fun x => fs_uniq (snd x)) mid).
    { clear - IH Hall. induction IH as [|a b l l' Hab HF IHl]; [constructor|]. inversion Hall; subst.
      constructor; [apply Hab; assumption | apply IHl; assumption]. }
    rewrite Forall_forall in *. intros x Hx. apply Hm. eapply Permutation_in; [apply Permutation_sym; exact HP | exact Hx].
Qed.

Lemma assoc_uniq k es n : Forall (fun x => fs_uniq (snd x)) es -> assoc_str k es = Some n -> fs_uniq n.
Proof.
  induction 1 as [|[ka na] l Hx Hl IH]; simpl; [discriminate|]. destruct (str_eqb k ka); [|exact IH].
  intro H. inversion H; subst. exact Hx.
Qed.

(** ** lstat *)
Lemma phys_nperm : forall p n n', node_perm n n' -> fs_uniq n ->
  match phys n p, phys n' p with
  | Some a, Some a' => node_perm a a' /\ fs_uniq a
  | None, None => True
  | _, _ => False
  end.
Proof.
  induction p as [|c p IH]; intros n n' H Hu; [simpl; auto|].
  destruct H as [d|t|es mid es' HF HP]; simpl; auto.
  pose proof (assoc_nperm c es es' (NP_dir es mid es' HF HP)) as Ha.
  apply fs_uniq_dir in Hu as [Hnd Hall]. specialize (Ha Hnd).
  destruct (assoc_str c es) as [a|] eqn:Ea; destruct (assoc_str c es') as [a'|]; simpl in Ha; try contradiction; auto.
  apply IH; [exact Ha | eapply assoc_uniq; eassumption].
Qed.

Lemma nperm_link_inv t n' : node_perm (NLink t) n' -> n' = NLink t.
Proof. intro H. inversion H. reflexivity. Qed.

(** ** realpath *)
Lemma jrp_nperm fs fs' : node_perm fs fs' -> fs_uniq fs ->
  forall fuel cur rest stack, jrp fuel fs cur rest stack = jrp fuel fs' cur rest stack.
Proof.
  intros H Hu. induction fuel as [|f IH]; intros cur rest stack; [reflexivity|]. cbn [jrp].
  destruct rest as [|[n|] r]; [reflexivity| |apply IH].
  destruct (str_eqb n [] || str_eqb n fs_dot); [apply IH|].
  destruct (str_eqb n fs_dotdot); [apply IH|].
  pose proof (phys_nperm (cur ++ [n]) fs fs' H Hu) as Hp.
  destruct (phys fs (cur ++ [n])) as [a|]; destruct (phys fs' (cur ++ [n])) as [a'|]; try contradiction.
  - destruct Hp as [Hp _]. destruct Hp as [d|t|es mid es' HF HP]; try apply IH.
    destruct (existsb (path_eqb (cur ++ [n])) stack); [reflexivity | apply IH].
  - apply IH.
Qed.

Lemma realpath_nperm fs fs' : node_perm fs fs' -> fs_uniq fs -> forall p, realpath fs p = realpath fs' p.
Proof. intros H Hu p. unfold realpath. destruct (existsb has_nul p); [reflexivity|]. apply jrp_nperm; assumption. Qed.

Definition orel (o o' : option node) : Prop :=
  match o, o' with Some n, Some n' => node_perm n n' /\ fs_uniq n | None, None => True | _, _ => False end.

Lemma stat_nperm fs fs' : node_perm fs fs' -> fs_uniq fs -> forall p, orel (stat_node fs p) (stat_node fs' p).
Proof.
  intros H Hu p. unfold stat_node. rewrite <- (realpath_nperm fs fs' H Hu).
  destruct (realpath fs p) as [q| | |]; try exact I.
  pose proof (phys_nperm q fs fs' H Hu) as Hp.
  destruct (phys fs q) as [a|]; destruct (phys fs' q) as [a'|]; try contradiction; [|exact I].
  destruct Hp as [Hp Hua]. destruct Hp; simpl; auto using NP_file. split; [econstructor; eassumption | exact Hua].
Qed.

Lemma is_file_nperm fs fs' : node_perm fs fs' -> fs_uniq fs -> forall p, is_file fs p = is_file fs' p.
Proof.
  intros H Hu p. unfold is_file. pose proof (stat_nperm fs fs' H Hu p) as Hs.
  destruct (stat_node fs p) as [a|]; destruct (stat_node fs' p) as [a'|]; try contradiction; [|reflexivity].
  destruct Hs as [Hs _]. destruct Hs; reflexivity.
Qed.

Lemma read_file_nperm fs fs' : node_perm fs fs' -> fs_uniq fs -> forall p, read_file fs p = read_file fs' p.
Proof.
  intros H Hu p. unfold read_file. pose proof (stat_nperm fs fs' H Hu p) as Hs.
  destruct (stat_node fs p) as [a|]; destruct (stat_node fs' p) as [a'|]; try contradiction; [|reflexivity].
  destruct Hs as [Hs _]. destruct Hs; reflexivity.
Qed.

(** ** The tree the generator sees *)
From RG Require Import Spec.SiteSpec Proofs.SiteSort Proofs.SiteBuild Proofs.SitePages Proofs.SiteOrder.

Fixpoint oseq {A} (f : str -> option A) (l : list str) : option (list A) :=
  match l with
  | [] => Some []
  | n :: r => match f n, oseq f r with Some t, Some ts => Some (t :: ts) | _, _ => None end
  end.

Lemma oseq_some_iff {A} (f : str -> option A) l :
  (exists r, oseq f l = Some r) <-> forall n, In n l -> exists t, f n = Some t.
Proof.
  induction l as [|n l IH]; simpl.
  - split; [intros _ ? [] | eauto].
  - split.
    + intros [r Hr] m [Heq|Hin].
      * subst m. destruct (f n); [eauto | discriminate].
      * destruct (f n); [|discriminate]. destruct (oseq f l) as [ts|] eqn:E; [|discriminate]. apply IH; eauto.
    + intro H. destruct (H n (or_introl eq_refl)) as [t Ht]. rewrite Ht.
      destruct (proj2 IH (fun m Hm => H m (or_intror Hm))) as [ts Hts]. rewrite Hts. eauto.
Qed.

Lemma oseq_perm {A} (f : str -> option A) l l' : Permutation l l' ->
  match oseq f l, oseq f l' with
  | Some r, Some r' => Permutation r r'
  | None, None => True
  | _, _ => False
  end.
Proof.
  induction 1 as [|x l l' HP IH|x y l|l l' l'' HP1 IH1 HP2 IH2]; simpl.
  - constructor.
  - destruct (f x); [|exact I]. destruct (oseq f l); destruct (oseq f l'); try contradiction; auto.
  - destruct (f x), (f y); try exact I; destruct (oseq f l); try exact I. apply perm_swap.
  - destruct (oseq f l); destruct (oseq f l'); destruct (oseq f l''); try contradiction; auto.
    eapply Permutation_trans; eassumption.
Qed.

Lemma oseq_rel (f g : str -> option stree) l :
  (forall n, In n l -> match f n, g n with Some t, Some t' => stree_perm t t' | None, None => True | _, _ => False end) ->
  match oseq f l, oseq g l with
  | Some r, Some r' => Forall2 stree_perm r r'
  | None, None => True
  | _, _ => False
  end.
Proof.
  induction l as [|n l IH]; intro H; simpl; [constructor|].
  pose proof (H n (or_introl eq_refl)) as Hn. specialize (IH (fun m Hm => H m (or_intror Hm))).
  destruct (f n); destruct (g n); try contradiction; [|exact I].
  destruct (oseq f l); destruct (oseq g l); try contradiction; [|exact I]. constructor; assumption.
Qed.

Lemma view_dir_eq fuel fs dirpath name :
  view (S fuel) fs dirpath name =
  let p := dirpath ++ [name] in
  match realpath fs p with
  | ROk q =>
      match phys fs q with
      | Some (NFile d) => Some (SFile name d)
      | Some (NDir es) =>
          match oseq (view fuel fs p) (map fst es) with
          | Some ts => Some (SDir name (last_or q []) ts)
          | None => None
          end
      | _ => Some (SBroken name)
      end
  | RFuel => None
  | _ => Some (SBroken name)
  end.
Proof.
  cbn [view]. cbv zeta. destruct (realpath fs (dirpath ++ [name])) as [q| | |]; try reflexivity.
  destruct (phys fs q) as [[d|es|t]|]; try reflexivity.
  match goal with |- match ?F es with _ => _ end = _ =>
    assert (HF : forall l, F l = oseq (view fuel fs (dirpath ++ [name])) (map fst l)) end.
  { induction l as [|[n x] l IH]; [reflexivity|]. cbn [map fst oseq]. rewrite <- IH. reflexivity. }
  rewrite HF. reflexivity.
Qed.

Definition vrel (o o' : option stree) : Prop :=
  match o, o' with Some t, Some t' => stree_perm t t' | None, None => True | _, _ => False end.

Lemma view_nperm fs fs' : node_perm fs fs' -> fs_uniq fs ->
  forall fuel dirpath name, vrel (view fuel fs dirpath name) (view fuel fs' dirpath name).
Proof.
  intros H Hu. induction fuel as [|f IH]; intros dirpath name; [exact I|].
  rewrite !view_dir_eq. cbv zeta. rewrite <- (realpath_nperm fs fs' H Hu).
  destruct (realpath fs (dirpath ++ [name])) as [q| | |]; try (simpl; constructor).
  pose proof (phys_nperm q fs fs' H Hu) as Hp.
  destruct (phys fs q) as [a|]; destruct (phys fs' q) as [a'|]; try contradiction; [|simpl; constructor].
  destruct Hp as [Hp Hua]. destruct Hp as [d|t|es mid es' HF HP]; try (simpl; constructor).
  apply fs_uniq_dir in Hua as [Hnd _].
  set (p := dirpath ++ [name]).
  pose proof (oseq_rel (view f fs p) (view f fs' p) (map fst es) (fun n _ => IH p n)) as H1.
  assert (Hnames : Permutation (map fst es) (map fst es')).
  { rewrite (mid_names _ _ HF). apply Permutation_map. exact HP. }
  pose proof (oseq_perm (view f fs' p) _ _ Hnames) as H2.
  destruct (oseq (view f fs p) (map fst es)) as [ts|]; destruct (oseq (view f fs' p) (map fst es)) as [tm|];
    try contradiction.
  - destruct (oseq (view f fs' p) (map fst es')) as [ts'|]; [|contradiction]. simpl. econstructor; eassumption.
  - destruct (oseq (view f fs' p) (map fst es')); [contradiction | exact I].
Qed.

Lemma phys_uniq : forall p n a, fs_uniq n -> phys n p = Some a -> fs_uniq a.
Proof.
  induction p as [|c p IH]; intros n a Hu H; simpl in H; [inversion H; subst; exact Hu|].
  destruct n as [d|es|t]; try discriminate. apply fs_uniq_dir in Hu as [_ Hall].
  destruct (assoc_str c es) as [x|] eqn:Ea; [|discriminate]. eapply IH; [|exact H]. eapply assoc_uniq; eassumption.
Qed.

Lemma view_sname fuel fs dirpath name t : view fuel fs dirpath name = Some t -> sname t = name.
Proof.
  destruct fuel as [|f]; [discriminate|]. rewrite view_dir_eq. cbv zeta.
  destruct (realpath fs (dirpath ++ [name])) as [q| | |]; try (intro H; inversion H; reflexivity); try discriminate.
  destruct (phys fs q) as [[d|es|tg]|]; try (intro H; inversion H; reflexivity).
  destruct (oseq _ (map fst es)); [|discriminate]. intro H; inversion H; reflexivity.
Qed.

Lemma oseq_names fuel fs p : forall l ts, oseq (view fuel fs p) l = Some ts -> map sname ts = l.
Proof.
  induction l as [|n l IH]; intros ts H; simpl in H; [inversion H; reflexivity|].
  destruct (view fuel fs p n) as [t|] eqn:Hv; [|discriminate]. destruct (oseq (view fuel fs p) l) as [ts0|]; [|discriminate].
  inversion H; subst. simpl. rewrite (view_sname _ _ _ _ _ Hv), (IH ts0 eq_refl). reflexivity.
Qed.

Lemma view_uniq fs : fs_uniq fs -> forall fuel dirpath name t, view fuel fs dirpath name = Some t -> uniq_names t.
Proof.
  intro Hu. induction fuel as [|f IH]; intros dirpath name t H; [discriminate|].
  rewrite view_dir_eq in H. cbv zeta in H.
  destruct (realpath fs (dirpath ++ [name])) as [q| | |]; try (inversion H; subst; exact I); try discriminate.
  destruct (phys fs q) as [[d|es|tg]|] eqn:Hp; try (inversion H; subst; exact I).
  destruct (oseq (view f fs (dirpath ++ [name])) (map fst es)) as [ts|] eqn:Ho; [|discriminate].
  inversion H; subst t. apply uniq_names_dir. split.
  - rewrite (oseq_names _ _ _ _ _ Ho). pose proof (phys_uniq _ _ _ Hu Hp) as Hd. apply fs_uniq_dir in Hd as [Hnd _]. exact Hnd.
  - clear - IH Ho. revert ts Ho. induction (map fst es) as [|n l IHl]; intros ts Ho; simpl in Ho.
    + inversion Ho. constructor.
    + destruct (view f fs (dirpath ++ [name]) n) as [t|] eqn:Hv; [|discriminate].
      destruct (oseq _ l) as [ts0|]; [|discriminate]. inversion Ho; subst. constructor; [eapply IH; exact Hv | apply IHl; reflexivity].
Qed.

(** ** Rendering only looks at the file system through realpath / is_file / read_file, and at
       [recipe_pages] through lookups *)
From RG Require Import Proofs.SiteAssets.

Section Congr.
Variables fs fs' : node.
Hypothesis Hrp : forall p, realpath fs p = realpath fs' p.
Hypothesis Hif : forall p, is_file fs p = is_file fs' p.
Hypothesis Hrf : forall p, read_file fs p = read_file fs' p.
Variables h h' : heap.
Hypothesis Hh : forall src, heap_get src h = heap_get src h'.

Lemma rewrite_link_congr root source from lookup url :
  rewrite_link fs root source from lookup url = rewrite_link fs' root source from lookup url.
Proof.
  unfold rewrite_link. destruct (urlsplit (str_strip url)) as [parts| |]; try reflexivity.
  destruct (u_scheme parts); [|reflexivity]. destruct (u_netloc parts); [|reflexivity].
  destruct (u_path parts) as [|c pa]; [reflexivity|].
  unfold url_fspath. rewrite Hrp. destruct (realpath fs' _) as [q| | |]; try reflexivity.
  destruct (lookup_last q lookup None) as [[wp sc]|]; [reflexivity|].
  rewrite Hrp. destruct (realpath fs' root) as [rr| | |]; try reflexivity. rewrite Hif. reflexivity.
Qed.

Lemma rewrite_links_congr root source from lookup : forall ls a,
  rewrite_links fs root source from lookup ls a = rewrite_links fs' root source from lookup ls a.
Proof.
  induction ls as [|[attr url] ls IH]; intro a; [reflexivity|]. cbn [rewrite_links]. rewrite rewrite_link_congr.
  destruct (rewrite_link fs' root source from lookup url); try reflexivity; rewrite IH; reflexivity.
Qed.

Lemma render_items_congr root source from lookup menu orig : forall its a,
  render_items fs root source from lookup menu orig its a = render_items fs' root source from lookup menu orig its a.
Proof.
  induction its as [|[attr url|] its IH]; intro a; [reflexivity| |].
  - cbn [render_items]. rewrite rewrite_link_congr.
    destruct (rewrite_link fs' root source from lookup url); try reflexivity; rewrite IH; reflexivity.
  - cbn [render_items]. rewrite IH. reflexivity.
Qed.

Lemma deref_congr r : deref h r = deref h' r.
Proof. unfold deref. rewrite Hh. reflexivity. Qed.

Lemma render_home_congr hm lookup a : render_home fs hm lookup a = render_home fs' hm lookup a.
Proof.
  unfold render_home. destruct (h_welcome hm); destruct (h_welcome_src hm); try reflexivity.
  rewrite rewrite_links_congr. reflexivity.
Qed.

Lemma render_cat_congr hm c lookup a : render_cat fs hm h c lookup a = render_cat fs' hm h' c lookup a.
Proof.
  unfold render_cat. cbv zeta.
  assert (Hfold : forall rs,
    fold_right (fun r acc => bind acc (fun l => match deref h r with
                                                | Some p => Ok ((rp_title p, href_relative_url (cp_path c) (rpage_path p)) :: l)
                                                | None => Err EKeyError end)) (Ok []) rs =
    fold_right (fun r acc => bind acc (fun l => match deref h' r with
                                                | Some p => Ok ((rp_title p, href_relative_url (cp_path c) (rpage_path p)) :: l)
                                                | None => Err EKeyError end)) (Ok []) rs).
  { induction rs as [|r rs IH]; [reflexivity|]. simpl. rewrite IH, deref_congr. reflexivity. }
  rewrite Hfold. destruct (cp_desc c); destruct (cp_desc_src c); try reflexivity.
  rewrite rewrite_links_congr. reflexivity.
Qed.

Lemma render_recipe_congr hm p lookup a : render_recipe fs hm h p lookup a = render_recipe fs' hm h' p lookup a.
Proof.
  unfold render_recipe. cbv zeta. rewrite Hh.
  match goal with |- bind ?x _ = _ => destruct x; [|reflexivity] end. cbn [bind].
  rewrite render_items_congr. reflexivity.
Qed.

Lemma pref_path_congr p : pref_path h p = pref_path h' p.
Proof. destruct p; try reflexivity. simpl. rewrite deref_congr. reflexivity. Qed.

Lemma render_all_congr hm lookup : forall ps a, render_all fs hm h lookup ps a = render_all fs' hm h' lookup ps a.
Proof.
  induction ps as [|p ps IH]; intro a; [reflexivity|]. cbn [render_all].
  assert (Hp : match p with
               | PHome => render_home fs hm lookup a
               | PCat c => render_cat fs hm h c lookup a
               | PRec rr => match deref h rr with Some pg => render_recipe fs hm h pg lookup a | None => Err EKeyError end
               end =
               match p with
               | PHome => render_home fs' hm lookup a
               | PCat c => render_cat fs' hm h' c lookup a
               | PRec rr => match deref h' rr with Some pg => render_recipe fs' hm h' pg lookup a | None => Err EKeyError end
               end).
  { destruct p as [|c|rr]; [apply render_home_congr | apply render_cat_congr|].
    rewrite deref_congr. destruct (deref h' rr); [apply render_recipe_congr | reflexivity]. }
  rewrite Hp. match goal with |- bind ?x _ = _ => destruct x as [[po a1]|e]; [|reflexivity] end. cbn [bind].
  rewrite IH, pref_path_congr. reflexivity.
Qed.

Lemma source_lookup_congr hm : source_lookup hm h = source_lookup hm h'.
Proof.
  unfold source_lookup. induction (all_pages hm) as [|p ps IH]; [reflexivity|]. simpl. rewrite IH. f_equal.
  destruct p; try reflexivity. simpl. rewrite deref_congr. reflexivity.
Qed.

Lemma copy_assets_congr : forall a, copy_assets fs a = copy_assets fs' a.
Proof.
  induction a as [|[src dst] a IH]; [reflexivity|]. simpl. rewrite Hrf, IH. reflexivity.
Qed.

Lemma write_site_congr hm : write_site fs hm h = write_site fs' hm h'.
Proof.
  unfold write_site. rewrite source_lookup_congr, render_all_congr.
  destruct (render_all fs' hm h' (source_lookup hm h') (all_pages hm) []) as [[pages a]|e]; [|reflexivity].
  cbn [bind]. rewrite copy_assets_congr. reflexivity.
Qed.

End Congr.

(** ** The whole generator under another listing order *)

Section Final.
Variable E : env.

Lemma classic_source t root (hm : home) src :
  (exists data mes, In (src, data, mes) (asources E t root (fun _ => [(h_title hm, home_path)]) true)) \/
  not_source E t root (fun _ => [(h_title hm, home_path)]) true src.
Proof.
  unfold not_source. generalize (asources E t root (fun _ => [(h_title hm, home_path)]) true). intro l.
  induction l as [|[[s0 d0] m0] l IH].
  - right. intros data mes [].
  - destruct (path_eqb src s0) eqn:Es.
    + apply path_eqb_eq in Es. subst s0. left. exists d0, m0. left. reflexivity.
    + destruct IH as [(data & mes & Hin)|Hn].
      * left. exists data, mes. right. exact Hin.
      * right. intros data mes [Heq|Hin]; [|exact (Hn data mes Hin)].
        inversion Heq; subst. rewrite path_eqb_refl in Es. discriminate.
Qed.

Theorem generate_static_site_nperm fs fs' input M : node_perm fs fs' -> fs_uniq fs ->
  out_equiv (generate_static_site E fs input M) (generate_static_site E fs' input M).
Proof.
  intros H Hu. unfold generate_static_site. rewrite <- (realpath_nperm fs fs' H Hu).
  destruct (realpath fs input) as [root| | |]; try exact I.
  unfold view_root. pose proof (view_nperm fs fs' H Hu view_fuel (removelast root) (last_or root [])) as Hv.
  destruct (view view_fuel fs (removelast root) (last_or root [])) as [t|] eqn:Hvt;
    destruct (view view_fuel fs' (removelast root) (last_or root [])) as [t'|]; simpl in Hv; try contradiction; [|exact I].
  pose proof (view_uniq fs Hu _ _ _ _ Hvt) as Hut.
  pose proof (from_root_directory_perm E t t' root M Hv Hut) as Hb.
  pose proof (uniq_names_perm _ _ Hv Hut) as Hut'.
  destruct (from_root_directory E t root M) as [[hm h]|e] eqn:Hb1;
    destruct (from_root_directory E t' root M) as [[hm' h']|e'] eqn:Hb2; try contradiction; [|exact I].
  destruct Hb as [Hhm Hheap]. subst hm'. cbn [bind].
  assert (Hext : forall src, heap_get src h = heap_get src h').
  { intro src.
    destruct (classic_source t root hm src) as [(data & mes & Hin)|Hns].
    - eapply Hheap; [exact Hin | reflexivity].
    - rewrite (from_root_directory_keys E t root M hm h Hb1 src Hns).
      symmetry. apply (from_root_directory_keys E t' root M hm h' Hb2 src).
      intros data mes Hin. apply (Hns data mes). apply (asources_perm E _ _ Hv). exact Hin. }
  rewrite (write_site_congr fs fs' (realpath_nperm fs fs' H Hu) (is_file_nperm fs fs' H Hu) (read_file_nperm fs fs' H Hu)
             h h' Hext hm).
  apply out_equiv_refl.
Qed.

End Final.
