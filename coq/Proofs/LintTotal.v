(** * Which exceptions can leave [lint.check] (C20).

    - the unit system answers every [convert_between] with a factor or with
      KeyError (computed over the whole generated table, and a structural
      argument for names that are not in the table);
    - on a strictly valid recipe (Spec/Valid.v: what the compiler and scaling
      produce) [output_names[output_index]] cannot fail.

    So the only exceptions left are numeric range errors (OverflowError) and
    renderings outside Model/NumFmt (negative numbers). *)
From Coq Require Import List ZArith NArith Bool Lia.
From RG Require Import Base.Str Base.Num Gen.GenUnits Model.Recipe Model.NumFmt Model.Units Model.Lint
  Spec.Valid Spec.LintSpec Spec.UnitsRef Proofs.RecipeInd Proofs.RecipeValid Proofs.NodeEqv Proofs.UnitsTable Proofs.RecipeScale Proofs.LintProofs.
Import ListNotations.

(** ** 1. [convert_between] is total up to KeyError *)

Lemma dict_get_none {V} (k : str) (d : list (str * V)) : ~ In k (dict_keys d) -> dict_get k d = None.
Proof.
  induction d as [|[k' v] r IH]; simpl; [reflexivity|]. intro H.
  destruct (str_eqb k k') eqn:E.
  - exfalso. apply H. left. apply str_eqb_eq in E. now subst.
  - apply IH. intro K. apply H. now right.
Qed.

(** Every name of the table lives in a set whose own names are all in the table,
    and normalises there. *)
Definition set_closed (y : usys) (a : str) : bool :=
  match sys_set_of y a with
  | Ok st =>
      match normalise_unit_name st a with Ok _ => true | Err _ => false end &&
      forallb (fun k => str_mem k all_names) (dict_keys (s_map st))
  | Err _ => false
  end.

Definition table_closed : bool :=
  match the_system with
  | Ok y => forallb (set_closed y) all_names
  | Err _ => false
  end.

Lemma table_closed_ok : table_closed = true.
Proof. vm_cast_no_check (eq_refl true). Qed.

Theorem convert_between_total a b :
  (exists f, convert_between a b = Ok f) \/ convert_between a b = Err KeyError.
Proof.
  pose proof table_closed_ok as T. unfold table_closed in T.
  unfold convert_between, with_system. destruct the_system as [y|e] eqn:S; [|discriminate].
  assert (Names : all_names = dict_keys (y_map y)) by (unfold all_names, sys_iter_names; now rewrite S).
  destruct (in_dec (list_eq_dec N.eq_dec) a all_names) as [Ha|Ha].
  - destruct (in_dec (list_eq_dec N.eq_dec) b all_names) as [Hb|Hb].
    + (* both known: the table check of C12 *)
      destruct (pair_facts a b Ha Hb) as (_ & _ & Hs & Hd).
      assert (C : convert_between a b = sys_convert_between y a b)
        by (unfold convert_between, with_system; now rewrite S).
      rewrite <- C. destruct (same_kind a b) eqn:K.
      * destruct (factor_physical a b Ha Hb K) as (f & q & E & _). left. eauto.
      * right. now apply Hd.
    + (* the target name is unknown *)
      rewrite forallb_forall in T. specialize (T a Ha). unfold set_closed in T.
      unfold sys_convert_between. destruct (sys_set_of y a) as [st|e]; [|discriminate].
      apply andb_true_iff in T. destruct T as [T1 T2].
      unfold set_convert_between. destruct (normalise_unit_name st a) as [fa|e]; [|discriminate].
      right. unfold normalise_unit_name. rewrite dict_get_none; [reflexivity|].
      intro K. apply Hb. rewrite forallb_forall in T2. apply str_mem_In. now apply T2.
  - right. unfold sys_convert_between, sys_set_of. rewrite dict_get_none; [reflexivity|].
    now rewrite <- Names.
Qed.

Lemma conversion_no_error q tq e : conversion q tq <> inr (Some e).
Proof.
  unfold conversion. destruct (q_unit q) as [u|], (q_unit tq) as [tu|]; try discriminate.
  destruct (convert_between_total (py_lower u) (py_lower tu)) as [(f & ->)| ->]; discriminate.
Qed.

Lemma ref_step_no_units name total st r e : ref_step name total st r <> LErr (LUnits e).
Proof.
  destruct r as [d q|d ins|sr i a|b ns sh]; try discriminate.
  destruct a as [q|[v pc pr|w pr]]; simpl.
  - destruct total as [tq|]; [|discriminate].
    destruct (num_eqb (q_value tq) (NInt 0)); [discriminate|].
    destruct (conversion q tq) as [c|[e'|]] eqn:C; try discriminate.
    + destruct (nmul (q_value q) c) as [qu| |]; simpl; try discriminate.
      destruct (ndiv qu (q_value tq)) as [f| |]; simpl; try discriminate.
      destruct (nadd (st_used st) f) as [u| |]; simpl; discriminate.
    + exfalso. eapply conversion_no_error; eauto.
  - destruct (nadd (st_used st) v) as [u| |]; simpl; discriminate.
  - discriminate.
Qed.

Lemma refs_fold_no_units name total e : forall refs st, refs_fold name total st refs <> LErr (LUnits e).
Proof.
  induction refs as [|r rest IH]; intro st; simpl; [discriminate|].
  destruct (ref_step name total st r) as [st'|e'] eqn:E; [apply IH|].
  intro K. inversion K; subst. eapply ref_step_no_units; eauto.
Qed.

Lemma output_lints_no_units sr idx refs e : output_lints sr idx refs <> LErr (LUnits e).
Proof.
  unfold output_lints. destruct sr as [d q|d ins|sr0 i a|b ns sh]; try discriminate.
  destruct (nth_error ns idx) as [nm|]; [|discriminate].
  destruct (svs_text nm) as [name|]; [|discriminate].
  destruct (refs_fold name _ _ refs) as [st|e'] eqn:E.
  - destruct (st_problem st); [discriminate|].
    unfold final_verdict. destruct (isclose_with _ _ _ _) as [[|]|]; try discriminate.
    destruct (num_ltb _ _); discriminate.
  - intro K. inversion K; subst. eapply refs_fold_no_units; eauto.
Qed.

Theorem no_units_error bs e : lint_check bs <> LErr (LUnits e).
Proof.
  unfold lint_check. destruct (check_unused bs) as [a|e'] eqn:U.
  - destruct (check_sums bs) as [b|e'] eqn:S; [discriminate|].
    intro K. inversion K; subst. unfold check_sums, sum_lints_of in S. apply concat_lres_err in S.
    apply in_flat_map in S. destruct S as (en & _ & S). apply in_map_iff in S. destruct S as (ir & S & _).
    eapply output_lints_no_units; eauto.
  - intro K. inversion K; subst. unfold check_unused in U.
    destruct (map_lres first_name_text (unused_set bs)) as [names|e'] eqn:E; [discriminate|].
    inversion U; subst. apply map_lres_err in E. destruct E as (x & _ & E).
    unfold first_name_text in E. destruct x as [d q|d ins|sr i a|b [|n r] sh]; try discriminate.
    destruct (svs_text n); discriminate.
Qed.

(** ** 2. No IndexError on strictly valid recipes *)

(** Every list of the reference map holds references to its own index whose
    embedded sub recipe is [==] to the key, and is not empty. *)
Definition refmap_inv (m : refmap) : Prop :=
  forall k d, In (k, d) m -> forall i refs, In (i, refs) d ->
    refs <> [] /\ forall r, In r refs -> exists sr a, r = Reference sr i a /\ node_eqb sr k = true.

Lemma add_idx_inv i r (d : list (nat * list node)) (P : nat -> node -> Prop) :
  P i r ->
  (forall j refs, In (j, refs) d -> refs <> [] /\ forall x, In x refs -> P j x) ->
  forall j refs, In (j, refs) (add_idx i r d) -> refs <> [] /\ forall x, In x refs -> P j x.
Proof.
  intros Hr. induction d as [|[j0 l0] rest IH]; intros Hd j refs Hin; simpl in Hin.
  - destruct Hin as [E|[]]. inversion E; subst. split; [discriminate|]. intros x [<-|[]]. exact Hr.
  - destruct (Nat.eqb i j0) eqn:E.
    + apply Nat.eqb_eq in E. subst j0. destruct Hin as [E|Hin].
      * inversion E; subst. destruct (Hd j l0 (or_introl eq_refl)) as [N A]. split.
        -- destruct l0; discriminate.
        -- intros x Hx. apply in_app_iff in Hx. destruct Hx as [Hx|[<-|[]]]; auto.
      * apply (Hd j refs). now right.
    + destruct Hin as [E'|Hin].
      * inversion E'; subst. apply (Hd j refs). now left.
      * apply IH; [|exact Hin]. intros j' refs' H'. apply (Hd j' refs'). now right.
Qed.

Lemma add_ref_inv sr i a m : refmap_inv m -> refmap_inv (add_ref sr i (Reference sr i a) m).
Proof.
  unfold refmap_inv. induction m as [|[k0 d0] rest IH]; intros Hm k d Hin j refs Hj; simpl in Hin.
  - destruct Hin as [E|[]]. injection E as <- <-. destruct Hj as [E'|[]]. injection E' as <- <-.
    split; [discriminate|]. intros r [<-|[]]. exists sr, a. split; [reflexivity | apply node_eqb_refl].
  - destruct (node_eqb sr k0) eqn:E.
    + destruct Hin as [E'|Hin].
      * injection E' as <- <-.
        apply (add_idx_inv i (Reference sr i a) d0 (fun j x => exists sr' a', x = Reference sr' j a' /\ node_eqb sr' k0 = true)).
        -- exists sr, a. auto.
        -- intros j' refs' H'. apply (Hm k0 d0 (or_introl eq_refl) j' refs' H').
        -- exact Hj.
      * apply (Hm k d (or_intror Hin) j refs Hj).
    + destruct Hin as [E'|Hin].
      * injection E' as <- <-. apply (Hm k0 d0 (or_introl eq_refl) j refs Hj).
      * apply (IH (fun k' d' H' => Hm k' d' (or_intror H')) k d Hin j refs Hj).
Qed.

Lemma fold_add_ref_inv l : forall m, refmap_inv m -> refmap_inv (fold_left add_ref_node l m).
Proof.
  induction l as [|r rest IH]; intros m Hm; simpl; [exact Hm|]. apply IH.
  destruct r as [d q|d ins|sr i a|b ns sh]; simpl; try exact Hm. now apply add_ref_inv.
Qed.

Lemma visit_refs_blocks_inv bs : refmap_inv (visit_refs_blocks bs).
Proof. rewrite visit_refs_blocks_fold. apply fold_add_ref_inv. intros k d []. Qed.

Lemma fold_add_ref_members l : forall m k d i refs r,
  In (k, d) (fold_left add_ref_node l m) -> In (i, refs) d -> In r refs ->
  (exists k' d' i' refs', In (k', d') m /\ In (i', refs') d' /\ In r refs') \/ In r l.
Proof.
  induction l as [|x rest IH]; intros m k d i refs r Hk Hi Hr; simpl in Hk.
  - left. exists k, d, i, refs. auto.
  - destruct (IH _ _ _ _ _ _ Hk Hi Hr) as [(k' & d' & i' & refs' & A & B & C)|H]; [|right; now right].
    destruct x as [dd q|dd ins|sr j a|b ns sh]; simpl in A; try solve [left; exists k', d', i', refs'; auto].
    (* a member of the map after add_ref is an old member or the new reference *)
    assert (G : forall m0, In (k', d') (add_ref sr j (Reference sr j a) m0) ->
                (exists d0 refs0, In (k', d0) m0 /\ ((In (i', refs0) d0 /\ In r refs0))) \/ r = Reference sr j a).
    { induction m0 as [|[k0 d0] rest0 IHm]; simpl; intro Hin.
      - destruct Hin as [E|[]]. inversion E; subst. destruct B as [E'|[]]. inversion E'; subst.
        destruct C as [<-|[]]. now right.
      - destruct (node_eqb sr k0).
        + destruct Hin as [E|Hin].
          * inversion E; subst.
            assert (Q : forall dl, In (i', refs') (add_idx j (Reference sr j a) dl) ->
                        (exists refs0, In (i', refs0) dl /\ In r refs0) \/ r = Reference sr j a).
            { induction dl as [|[j0 l0] restd IHd]; simpl; intro Hd.
              - destruct Hd as [E'|[]]. inversion E'; subst. destruct C as [<-|[]]. now right.
              - destruct (Nat.eqb j j0).
                + destruct Hd as [E'|Hd].
                  * inversion E'; subst. apply in_app_iff in C. destruct C as [C|[<-|[]]]; [|now right].
                    left. exists l0. split; [now left | exact C].
                  * left. exists refs'. split; [now right | exact C].
                + destruct Hd as [E'|Hd].
                  * inversion E'; subst. left. exists refs'. split; [now left | exact C].
                  * destruct (IHd Hd) as [(refs0 & A0 & B0)|R]; [|now right].
                    left. exists refs0. split; [now right | exact B0]. }
            destruct (Q d0 B) as [(refs0 & A0 & B0)|R]; [|now right].
            left. exists d0, refs0. split; [now left | auto].
          * left. exists d', refs'. split; [now right | auto].
        + destruct Hin as [E|Hin].
          * inversion E; subst. left. exists d', refs'. split; [now left | auto].
          * destruct (IHm Hin) as [(d1 & refs1 & A1 & B1)|R]; [|now right].
            left. exists d1, refs1. split; [now right | exact B1]. }
    destruct (G m A) as [(d0 & refs0 & A0 & B0 & C0)|R].
    + left. exists k', d0, i', refs0. auto.
    + right. left. now symmetry.
Qed.

Lemma refmap_member_occurs bs k d i refs r :
  In (k, d) (visit_refs_blocks bs) -> In (i, refs) d -> In r refs -> occurs r bs.
Proof.
  rewrite visit_refs_blocks_fold. intros Hk Hi Hr.
  destruct (fold_add_ref_members _ _ _ _ _ _ _ Hk Hi Hr) as [(k' & d' & i' & refs' & [] & _)|H].
  apply visible_refs_occurs in H. tauto.
Qed.

Lemma outside_inside x t : outside x t -> inside x t.
Proof. induction 1; [constructor | econstructor; eauto | now constructor]. Qed.

Lemma In_subrecipe_roots x l : In x (subrecipe_roots l) -> is_subrecipe x = true.
Proof. unfold subrecipe_roots. intro H. apply filter_In in H. tauto. Qed.

Lemma In_earlier_roots x bs b j : In x (earlier_roots bs b j) -> is_subrecipe x = true.
Proof.
  unfold earlier_roots. rewrite in_app_iff, in_flat_map.
  intros [(l & _ & H)|H]; eapply In_subrecipe_roots; eauto.
Qed.

Lemma node_eqb_subrecipe_names b ns sh k :
  node_eqb (SubRecipe b ns sh) k = true -> exists b' ns' sh', k = SubRecipe b' ns' sh' /\ length ns' = length ns.
Proof.
  destruct k as [d q|d ins|sr i a|b' ns' sh']; simpl; try discriminate.
  intro H. apply andb_true_iff in H. destruct H as [H _]. apply andb_true_iff in H. destruct H as [_ H].
  exists b', ns', sh'. split; [reflexivity|].
  revert ns' H. induction ns as [|x r IH]; destruct ns' as [|y r']; simpl; try discriminate; [reflexivity|].
  intro H. apply andb_true_iff in H. destruct H as [_ H]. f_equal. auto.
Qed.

Lemma ref_step_no_index name total st r : ref_step name total st r <> LErr LIndexError.
Proof.
  destruct r as [d q|d ins|sr i a|b ns sh]; try discriminate.
  destruct a as [q|[v pc pr|w pr]]; simpl.
  - destruct total as [tq|]; [|discriminate].
    destruct (num_eqb (q_value tq) (NInt 0)); [discriminate|].
    destruct (conversion q tq) as [c|[e'|]] eqn:C; try discriminate.
    destruct (nmul (q_value q) c) as [qu| |]; simpl; try discriminate.
    destruct (ndiv qu (q_value tq)) as [f| |]; simpl; try discriminate.
    destruct (nadd (st_used st) f) as [u| |]; simpl; discriminate.
  - destruct (nadd (st_used st) v) as [u| |]; simpl; discriminate.
  - discriminate.
Qed.

Lemma refs_fold_no_index name total : forall refs st, refs_fold name total st refs <> LErr LIndexError.
Proof.
  induction refs as [|r rest IH]; intro st; simpl; [discriminate|].
  destruct (ref_step name total st r) as [st'|e'] eqn:E; [apply IH|].
  intro K. inversion K; subst. eapply ref_step_no_index; eauto.
Qed.

Theorem no_index_error bs : strictly_valid bs -> lint_check bs <> LErr LIndexError.
Proof.
  intros V. unfold lint_check. destruct (check_unused bs) as [a|e] eqn:U.
  - destruct (check_sums bs) as [b|e] eqn:S; [discriminate|].
    intro K. inversion K; subst. unfold check_sums, sum_lints_of in S. apply concat_lres_err in S.
    apply in_flat_map in S. destruct S as ([k d] & Hk & S). apply in_map_iff in S.
    destruct S as ([i refs] & S & Hi). simpl in S, Hi.
    destruct (visit_refs_blocks_inv bs k d Hk i refs Hi) as [Nn Hrefs].
    destruct refs as [|r rest]; [congruence|].
    destruct (Hrefs r (or_introl eq_refl)) as (sr & am & -> & E).
    pose proof (refmap_member_occurs bs k d i _ _ Hk Hi (or_introl eq_refl)) as O.
    destruct O as (trees & t & Ht1 & Ht2 & O). apply outside_inside in O.
    apply In_nth_error in Ht1. destruct Ht1 as (bi & Hb). apply In_nth_error in Ht2. destruct Ht2 as (ji & Hj).
    destruct (V bi ji trees t Hb Hj) as [C R].
    pose proof (R sr i am O) as Hroot. apply In_earlier_roots in Hroot.
    destruct sr as [dd q|dd ins|sr0 i0 a0|b0 ns0 sh0]; try discriminate.
    pose proof (proj1 (constructed_inside t) C _ O) as C'. simpl in C'.
    destruct (Nat.ltb i (length ns0)) eqn:L; [|discriminate]. apply Nat.ltb_lt in L. clear C'.
    destruct (node_eqb_subrecipe_names _ _ _ _ E) as (b' & ns' & sh' & -> & Len).
    unfold output_lints in S.
    destruct (nth_error ns' i) as [nm|] eqn:N; [|apply nth_error_None in N; lia].
    destruct (svs_text nm) as [name|]; [|discriminate].
    destruct (refs_fold name _ _ _) as [st|e] eqn:F.
    + destruct (st_problem st); [discriminate|].
      unfold final_verdict in S. destruct (isclose_with _ _ _ _) as [[|]|]; try discriminate.
      destruct (num_ltb _ _); discriminate.
    + inversion S; subst. eapply refs_fold_no_index; eauto.
  - intro K. inversion K; subst. unfold check_unused in U.
    destruct (map_lres first_name_text (unused_set bs)) as [names|e'] eqn:E; [discriminate|].
    inversion U; subst. apply map_lres_err in E. destruct E as (x & Hx & E).
    destruct (unused_set_spec bs) as (S1 & _ & _). destruct (S1 x Hx) as (Hh & _ & _).
    unfold first_name_text in E. destruct x as [d q|d ins|sr i a|b [|n r] sh]; try discriminate.
    destruct (svs_text n); discriminate.
Qed.

(** On a strictly valid recipe whose numbers do not underflow, [lint.check]
    returns its lints, or fails only for numbers outside the binary64 range
    (OverflowError) / outside the number formatter's model (negative). *)
Theorem only_range_errors bs :
  strictly_valid bs -> Forall not_tiny (blocks_numbers bs) ->
  (exists l, lint_check bs = LOk l) \/ lint_check bs = LErr LOverflow \/ lint_check bs = LErr LOutOfModel.
Proof.
  intros V T. pose proof (no_zero_division_not_tiny bs T) as Z. pose proof (no_index_error bs V) as I.
  destruct (lint_check bs) as [l|[| | |e|]] eqn:E; eauto.
  - congruence.
  - congruence.
  - exfalso. eapply no_units_error; eauto.
Qed.
