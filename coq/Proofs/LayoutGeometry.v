(** * Geometry of the drawing (C02): where every node's cell and rectangle are. *)
From Coq Require Import List Arith NArith Bool Lia ZifyBool.
From RG Require Import Model.Table Model.Layout Spec.LayoutSpec
  Proofs.LayoutTiling Proofs.LayoutArith Proofs.LayoutSpecFacts Proofs.LayoutRefine Proofs.LayoutProps.
Import ListNotations.
Local Open Scope N_scope.

(** ** Following a path *)
Lemma node_rect_app : forall pi t r0 c0 w pi',
  node_rect t r0 c0 w (pi ++ pi')
  = match node_rect t r0 c0 w pi with
    | Some (s, (r, c, _, w')) => node_rect s r c w' pi'
    | None => None
    end.
Proof.
  induction pi as [|i pi IH]; intros t r0 c0 w pi'; [reflexivity|].
  cbn [app node_rect]. destruct t as [ref|ins|b n show]; [reflexivity| |].
  - destruct (nth_error ins i); [apply IH|reflexivity].
  - destruct i; [|reflexivity]. destruct (Nat.eqb n 1); apply IH.
Qed.

Lemma stack_i_nth {A} (f : nat -> ltree -> N -> list A) hgt : forall l i r k x,
  nth_error l k = Some x ->
  incl (f (i + k)%nat x (r + list_sum (map hgt (firstn k l)))) (stack_i f hgt i l r).
Proof.
  induction l as [|y l IH]; intros i r k x Hk; [destruct k; discriminate|].
  destruct k as [|k]; simpl in Hk.
  - inversion Hk; subst. simpl. rewrite Nat.add_0_r, N.add_0_r. apply incl_appl. apply incl_refl.
  - simpl. apply incl_appr.
    replace (i + S k)%nat with (S i + k)%nat by lia.
    replace (r + (hgt y + list_sum (map hgt (firstn k l))))
      with (r + hgt y + list_sum (map hgt (firstn k l))) by lia.
    apply IH. exact Hk.
Qed.

(** Below a node everything is well-formed as a nested tree, and wide enough. *)
Lemma node_rect_wf : forall pi t r0 c0 w s rho b,
  wf_at b t = true -> width t <= w ->
  node_rect t r0 c0 w pi = Some (s, rho) ->
  (pi = [] \/ wf_at false s = true) /\ width s <= r_w rho /\ r_h rho = height s.
Proof.
  induction pi as [|i pi IH]; intros t r0 c0 w s rho b Hwf Hw H.
  - simpl in H. inversion H; subst. unfold r_w, r_h; cbn [fst snd]. auto.
  - cbn [node_rect] in H. destruct t as [ref|ins|body n show]; [discriminate| |].
    + destruct (nth_error ins i) as [x|] eqn:Ex; [|discriminate].
      simpl in Hwf. apply andb_true_iff in Hwf as [_ Hwf].
      assert (Hx : wf_at false x = true).
      { rewrite forallb_forall in Hwf. apply Hwf. eapply nth_error_In; eauto. }
      assert (Hwx : width x <= list_max (map width ins)).
      { apply list_max_ge. apply in_map. eapply nth_error_In; eauto. }
      destruct (IH _ _ _ _ _ _ false Hx Hwx H) as ([->|Hs] & Hw' & Hh').
      * simpl in H. inversion H; subst. split; [right; exact Hx|split; assumption].
      * split; [right; exact Hs|split; assumption].
    + destruct i; [|discriminate].
      simpl in Hwf. apply andb_true_iff in Hwf as [_ Hwf]. cbn [width] in Hw.
      destruct (Nat.eqb n 1).
      * destruct (IH _ _ _ _ _ _ false Hwf Hw H) as ([->|Hs] & Hw' & Hh').
        -- simpl in H. inversion H; subst. split; [right; exact Hwf|split; assumption].
        -- split; [right; exact Hs|split; assumption].
      * destruct (IH _ _ _ _ _ _ false Hwf (N.le_refl _) H) as ([->|Hs] & Hw' & Hh').
        -- simpl in H. inversion H; subst. split; [right; exact Hwf|split; assumption].
        -- split; [right; exact Hs|split; assumption].
Qed.

(** The cells drawn for the subtree at [pi] are cells of the whole drawing. *)
Lemma place_sub : forall pi t p r0 c0 w s r c h w',
  node_rect t r0 c0 w pi = Some (s, (r, c, h, w')) ->
  incl (place (p ++ pi) s r c w') (place p t r0 c0 w).
Proof.
  induction pi as [|i pi IH]; intros t p r0 c0 w s r c h w' H.
  - simpl in H. inversion H; subst. rewrite app_nil_r. apply incl_refl.
  - cbn [node_rect] in H. destruct t as [ref|ins|body n show]; [discriminate| |].
    + destruct (nth_error ins i) as [x|] eqn:Ex; [|discriminate].
      replace (p ++ i :: pi) with ((p ++ [i]) ++ pi) by (rewrite <- app_assoc; reflexivity).
      eapply incl_tran; [apply (IH _ (p ++ [i]) _ _ _ _ _ _ _ _ H)|].
      cbn [place]. apply incl_appl.
      apply (stack_i_nth (fun i x r => place (p ++ [i]) x r c0 (list_max (map width ins)))
                         height ins 0%nat r0 i x Ex).
    + destruct i; [|discriminate].
      replace (p ++ 0%nat :: pi) with ((p ++ [0%nat]) ++ pi) by (rewrite <- app_assoc; reflexivity).
      cbn [place]. destruct (Nat.eqb n 1); [destruct show|].
      * eapply incl_tran; [apply (IH _ (p ++ [0%nat]) _ _ _ _ _ _ _ _ H)|]. apply incl_tl. apply incl_refl.
      * apply (IH _ (p ++ [0%nat]) _ _ _ _ _ _ _ _ H).
      * eapply incl_tran; [apply (IH _ (p ++ [0%nat]) _ _ _ _ _ _ _ _ H)|]. apply incl_appl. apply incl_refl.
Qed.

(** ** The cells of a nested subtree tile its rectangle *)
Lemma place_tiles t p r c w :
  wf_at false t = true -> width t <= w ->
  tiles (r, c, height t, w) (map snd (place p t r c w)).
Proof.
  intros Hwf Hw. destruct (layout_ok t false p Hwf) as [_ HT].
  destruct (right_pad_ok _ w HT) as (_ & (HR & HC & HT') & Hrows & Hcols).
  destruct (alayout_dims t false p Hwf) as [Hr Hc].
  exists (t_cells (apad w (alayout false p t))). split.
  - rewrite Hrows, Hr in HT'. rewrite Hcols, Hc in HT'. replace (N.max w (width t)) with w in HT' by lia.
    exact HT'.
  - rewrite apad_cells by lia. rewrite Hc.
    pose proof (nested_refine t p r c w Hwf Hw) as E. unfold ncells in E.
    apply (f_equal (map e_rect)) in E. rewrite !map_map in E.
    erewrite (map_ext (fun g => e_rect (spec_cell _ g)) snd) in E by (intros; apply spec_cell_rect).
    etransitivity; [symmetry; exact E|].
    unfold shift. rewrite map_map. apply map_ext. intros [[a b] x]. reflexivity.
Qed.

(** ** The statements of C02_geometry, on the specification's placement *)
Section Geometry.
  Variable t : ltree.
  Hypothesis Hwf : wf t = true.
  Let W := width t.
  Let cells := place [] t 0 0 W.

  (** A step: its cell spans exactly the rows of its rectangle, which are the rows of its
      inputs, and lies immediately right of the (padded) inputs; input i occupies the
      rectangle below the inputs before it, at the step's left edge, [win] wide. *)
  Lemma geometry_step pi ins r c h w :
    node_rect t 0 0 W pi = Some (LStep ins, (r, c, h, w)) ->
    let win := list_max (map width ins) in
    In ((KStep, pi), (r, c + win, h, w - win)) cells
    /\ h = list_sum (map height ins) /\ win < w
    /\ forall i x, nth_error ins i = Some x ->
         node_rect t 0 0 W (pi ++ [i])
         = Some (x, (r + list_sum (map height (firstn i ins)), c, height x, win))
         /\ tiles (r + list_sum (map height (firstn i ins)), c, height x, win)
                  (map snd (place (pi ++ [i]) x (r + list_sum (map height (firstn i ins))) c win))
         /\ incl (place (pi ++ [i]) x (r + list_sum (map height (firstn i ins))) c win) cells.
  Proof.
    intros H win.
    destruct (node_rect_wf pi t 0 0 W _ _ true Hwf (N.le_refl _) H) as (Hs & Hw' & Hh').
    unfold r_w, r_h in Hw', Hh'; cbn [fst snd] in Hw', Hh'. cbn [width height] in Hw', Hh'. fold win in Hw'.
    split; [|split; [exact Hh'|split; [lia|]]].
    - apply (place_sub pi t [] 0 0 W _ _ _ _ _ H). cbn [app place]. apply in_or_app. right.
      left. fold win. rewrite Hh'. reflexivity.
    - intros i x Ex.
      assert (Hnr : node_rect t 0 0 W (pi ++ [i])
                    = Some (x, (r + list_sum (map height (firstn i ins)), c, height x, win))).
      { rewrite node_rect_app, H. cbn [node_rect]. rewrite Ex. reflexivity. }
      split; [exact Hnr|].
      destruct (node_rect_wf (pi ++ [i]) t 0 0 W _ _ true Hwf (N.le_refl _) Hnr) as (Hsx & Hwx & _).
      destruct Hsx as [Hnil|Hsx]; [destruct pi; discriminate|].
      unfold r_w in Hwx; cbn [fst snd] in Hwx.
      split; [apply place_tiles; assumption|].
      apply (place_sub (pi ++ [i]) t [] 0 0 W _ _ _ _ _ Hnr).
  Qed.

  (** A titled single-output sub recipe: header over the full width, body directly below. *)
  Lemma geometry_header pi body n r c h w :
    node_rect t 0 0 W pi = Some (LSub body n true, (r, c, h, w)) -> Nat.eqb n 1 = true ->
    In ((KHeader, pi), (r, c, 1, w)) cells
    /\ node_rect t 0 0 W (pi ++ [0%nat]) = Some (body, (r + 1, c, height body, w))
    /\ h = 1 + height body.
  Proof.
    intros H En.
    destruct (node_rect_wf pi t 0 0 W _ _ true Hwf (N.le_refl _) H) as (_ & _ & Hh').
    unfold r_h in Hh'; cbn [fst snd height] in Hh'. rewrite En in Hh'.
    split; [|split; [|exact Hh']].
    - apply (place_sub pi t [] 0 0 W _ _ _ _ _ H). cbn [app place]. rewrite En. left. reflexivity.
    - rewrite node_rect_app, H. cbn [node_rect]. rewrite En. reflexivity.
  Qed.

  (** An untitled one: nothing of its own, the body in the same rectangle. *)
  Lemma geometry_untitled pi body n r c h w :
    node_rect t 0 0 W pi = Some (LSub body n false, (r, c, h, w)) -> Nat.eqb n 1 = true ->
    node_rect t 0 0 W (pi ++ [0%nat]) = Some (body, (r, c, height body, w)) /\ h = height body.
  Proof.
    intros H En.
    destruct (node_rect_wf pi t 0 0 W _ _ true Hwf (N.le_refl _) H) as (_ & _ & Hh').
    unfold r_h in Hh'; cbn [fst snd height] in Hh'. rewrite En in Hh'.
    split; [|exact Hh']. rewrite node_rect_app, H. cbn [node_rect]. rewrite En. reflexivity.
  Qed.

  (** A leaf: one cell, one row high, filling its rectangle. *)
  Lemma geometry_leaf pi ref r c h w :
    node_rect t 0 0 W pi = Some (LLeaf ref, (r, c, h, w)) ->
    In ((leaf_kind ref, pi), (r, c, 1, w)) cells /\ h = 1.
  Proof.
    intros H.
    destruct (node_rect_wf pi t 0 0 W _ _ true Hwf (N.le_refl _) H) as (_ & _ & Hh').
    unfold r_h in Hh'; cbn [fst snd height] in Hh'.
    split; [|exact Hh'].
    apply (place_sub pi t [] 0 0 W _ _ _ _ _ H). cbn [app place]. left. reflexivity.
  Qed.
End Geometry.

(** The placement list is the geometry of the code's table. *)
Lemma table_geometry t tb :
  wf t = true -> recipe_tree_to_table t = Ok tb ->
  map (fun e => (c_label (e_cell e), e_rect e)) (t_cells tb) = place [] t 0 0 (width t).
Proof.
  intros Hwf E. rewrite (layout_refines_spec t Hwf) in E. inversion E; subst.
  unfold spec_table. cbn [t_cells]. rewrite map_map.
  rewrite <- (map_id (place [] t 0 0 (width t))) at 2. apply map_ext.
  intros [lbl [[[r c] h] w]]. reflexivity.
Qed.
