(** * base64: decoding an encoded byte string gives the bytes back (C16 data URLs). *)
From Coq Require Import List NArith ZArith Bool Lia.
From RG Require Import Base.Str Model.Fs Model.Site.
Import ListNotations.
Open Scope N_scope.

Definition is_byte (b : N) : Prop := b < 256.

Lemma b64_val_char v : v < 64 -> b64_val (b64_char v) = v.
Proof.
  intro H. unfold b64_char.
  destruct (v <? 26) eqn:E1.
  { apply N.ltb_lt in E1. unfold b64_val.
    replace ((65 <=? 65 + v) && (65 + v <=? 90)) with true; [lia|].
    symmetry. apply andb_true_iff. split; apply N.leb_le; lia. }
  apply N.ltb_ge in E1.
  destruct (v <? 52) eqn:E2.
  { apply N.ltb_lt in E2. unfold b64_val.
    replace ((65 <=? 71 + v) && (71 + v <=? 90)) with false.
    2:{ symmetry. apply andb_false_iff. right. apply N.leb_gt. lia. }
    replace ((97 <=? 71 + v) && (71 + v <=? 122)) with true; [lia|].
    symmetry. apply andb_true_iff. split; apply N.leb_le; lia. }
  apply N.ltb_ge in E2.
  destruct (v <? 62) eqn:E3.
  { apply N.ltb_lt in E3. unfold b64_val.
    replace ((65 <=? v - 4) && (v - 4 <=? 90)) with false.
    2:{ symmetry. apply andb_false_iff. left. apply N.leb_gt. lia. }
    replace ((97 <=? v - 4) && (v - 4 <=? 122)) with false.
    2:{ symmetry. apply andb_false_iff. left. apply N.leb_gt. lia. }
    replace ((48 <=? v - 4) && (v - 4 <=? 57)) with true; [lia|].
    symmetry. apply andb_true_iff. split; apply N.leb_le; lia. }
  apply N.ltb_ge in E3.
  destruct (v =? 62) eqn:E4.
  { apply N.eqb_eq in E4. subst. reflexivity. }
  apply N.eqb_neq in E4. assert (v = 63) by lia. subst. reflexivity.
Qed.

Lemma b64_char_not_pad v : v < 64 -> (b64_char v =? 61) = false.
Proof.
  intro H. apply N.eqb_neq. unfold b64_char.
  destruct (v <? 26) eqn:E1; [apply N.ltb_lt in E1; lia|]. apply N.ltb_ge in E1.
  destruct (v <? 52) eqn:E2; [apply N.ltb_lt in E2; lia|]. apply N.ltb_ge in E2.
  destruct (v <? 62) eqn:E3; [apply N.ltb_lt in E3; lia|]. apply N.ltb_ge in E3.
  destruct (v =? 62); lia.
Qed.

(** Arithmetic of the 3-bytes / 4-sextets regrouping. *)
Lemma sextet_bounds a b c : a < 256 -> b < 256 -> c < 256 ->
  a / 4 < 64 /\ (a mod 4) * 16 + b / 16 < 64 /\ (b mod 16) * 4 + c / 64 < 64 /\ c mod 64 < 64
  /\ (a mod 4) * 16 < 64 /\ (b mod 16) * 4 < 64.
Proof.
  intros Ha Hb Hc.
  assert (a / 4 < 64) by (apply N.div_lt_upper_bound; lia).
  assert (b / 16 < 16) by (apply N.div_lt_upper_bound; lia).
  assert (c / 64 < 4) by (apply N.div_lt_upper_bound; lia).
  assert (a mod 4 < 4) by (apply N.mod_lt; lia).
  assert (b mod 16 < 16) by (apply N.mod_lt; lia).
  assert (c mod 64 < 64) by (apply N.mod_lt; lia).
  lia.
Qed.

Lemma regroup1 a b : a < 256 -> b < 256 -> (a / 4) * 4 + ((a mod 4) * 16 + b / 16) / 16 = a.
Proof.
  intros Ha Hb.
  assert (b / 16 < 16) by (apply N.div_lt_upper_bound; lia).
  rewrite N.div_add_l by lia. rewrite (N.div_small (b / 16)) by lia.
  pose proof (N.div_mod a 4). lia.
Qed.

Lemma regroup2 a b c : a < 256 -> b < 256 -> c < 256 ->
  (((a mod 4) * 16 + b / 16) mod 16) * 16 + ((b mod 16) * 4 + c / 64) / 4 = b.
Proof.
  intros Ha Hb Hc.
  assert (b / 16 < 16) by (apply N.div_lt_upper_bound; lia).
  assert (c / 64 < 4) by (apply N.div_lt_upper_bound; lia).
  replace ((a mod 4) * 16 + b / 16) with (b / 16 + (a mod 4) * 16) by lia.
  rewrite N.mod_add by lia. rewrite (N.mod_small (b / 16)) by lia.
  rewrite N.div_add_l by lia. rewrite (N.div_small (c / 64)) by lia.
  pose proof (N.div_mod b 16). lia.
Qed.

Lemma regroup3 b c : b < 256 -> c < 256 -> (((b mod 16) * 4 + c / 64) mod 4) * 64 + c mod 64 = c.
Proof.
  intros Hb Hc.
  assert (c / 64 < 4) by (apply N.div_lt_upper_bound; lia).
  replace ((b mod 16) * 4 + c / 64) with (c / 64 + (b mod 16) * 4) by lia.
  rewrite N.mod_add by lia. rewrite (N.mod_small (c / 64)) by lia.
  pose proof (N.div_mod c 64). lia.
Qed.

Lemma regroup1' a : a < 256 -> (a / 4) * 4 + ((a mod 4) * 16) / 16 = a.
Proof.
  intro Ha. rewrite N.div_mul by lia. pose proof (N.div_mod a 4). lia.
Qed.

Lemma regroup2' a b : a < 256 -> b < 256 ->
  (((a mod 4) * 16 + b / 16) mod 16) * 16 + ((b mod 16) * 4) / 4 = b.
Proof.
  intros Ha Hb.
  assert (b / 16 < 16) by (apply N.div_lt_upper_bound; lia).
  replace ((a mod 4) * 16 + b / 16) with (b / 16 + (a mod 4) * 16) by lia.
  rewrite N.mod_add by lia. rewrite (N.mod_small (b / 16)) by lia.
  rewrite N.div_mul by lia. pose proof (N.div_mod b 16). lia.
Qed.

Lemma b64_roundtrip_aux : forall (n : nat) (x : bytes), (List.length x <= n)%nat ->
  Forall is_byte x -> b64_decode (b64_encode x) = x.
Proof.
  induction n as [|n IH]; intros x Hl Hb.
  - destruct x; [reflexivity | simpl in Hl; lia].
  - destruct x as [|a [|b [|c r]]].
    + reflexivity.
    + inversion Hb as [|? ? Ha _]; subst. unfold is_byte in Ha.
      destruct (sextet_bounds a 0 0 Ha) as (B1 & _ & _ & _ & B5 & _); try lia.
      cbn [b64_encode b64_decode].
      rewrite N.eqb_refl.
      rewrite !b64_val_char by assumption.
      rewrite regroup1' by assumption. reflexivity.
    + inversion Hb as [|? ? Ha Hb']; subst. inversion Hb' as [|? ? Hbb _]; subst.
      unfold is_byte in Ha, Hbb.
      destruct (sextet_bounds a b 0 Ha Hbb) as (B1 & B2 & _ & _ & _ & B6); try lia.
      cbn [b64_encode b64_decode].
      rewrite (b64_char_not_pad _ B6). rewrite N.eqb_refl.
      rewrite !b64_val_char by assumption.
      rewrite regroup1, regroup2' by assumption. reflexivity.
    + inversion Hb as [|? ? Ha Hb']; subst. inversion Hb' as [|? ? Hbb Hb'']; subst.
      inversion Hb'' as [|? ? Hc Hr]; subst. unfold is_byte in Ha, Hbb, Hc.
      destruct (sextet_bounds a b c Ha Hbb Hc) as (B1 & B2 & B3 & B4 & _ & _).
      cbn [b64_encode b64_decode].
      rewrite (b64_char_not_pad _ B3), (b64_char_not_pad _ B4).
      rewrite !b64_val_char by assumption.
      rewrite regroup1, regroup2, regroup3 by assumption.
      rewrite IH; [reflexivity | simpl in Hl; lia | assumption].
Qed.

(** [base64.b64decode(base64.b64encode(x)) == x] for every byte string. *)
Theorem b64_roundtrip (x : bytes) : Forall is_byte x -> b64_decode (b64_encode x) = x.
Proof. intro H. apply (b64_roundtrip_aux (List.length x)); [lia | assumption]. Qed.
