(** * Link algebra (C14), part 2: UTF-8 and percent-coding round trip, quoted links. *)
From Coq Require Import List NArith ZArith Bool Arith Lia.
From RG Require Import Base.Str Model.Url Model.Href Proofs.Href.
Import ListNotations.
Ltac Zify.zify_post_hook ::= Z.to_euclidean_division_equations.

Local Open Scope N_scope.

(** ** Decoder steps *)

Lemma dec_ascii b bs : b < 128 -> utf8_dec dinit (b :: bs) = b :: utf8_dec dinit bs.
Proof.
  intro H. cbn [utf8_dec needed dinit]. cbn [N.eqb]. unfold dstart.
  replace (b <? 128) with true by (symmetry; apply N.ltb_lt; lia). reflexivity.
Qed.

Lemma dec_start2 b bs : 194 <= b <= 223 ->
  utf8_dec dinit (b :: bs) = utf8_dec {| needed := 1; acc := b - 192; lo := 128; hi := 191 |} bs.
Proof.
  intro H. cbn [utf8_dec needed dinit]. cbn [N.eqb]. unfold dstart.
  replace (b <? 128) with false by (symmetry; apply N.ltb_ge; lia).
  replace (194 <=? b) with true by (symmetry; apply N.leb_le; lia).
  replace (b <=? 223) with true by (symmetry; apply N.leb_le; lia). reflexivity.
Qed.

Lemma dec_start3 b bs : 224 <= b <= 239 ->
  utf8_dec dinit (b :: bs) =
  utf8_dec {| needed := 2; acc := b - 224; lo := if b =? 224 then 160 else 128;
              hi := if b =? 237 then 159 else 191 |} bs.
Proof.
  intro H. cbn [utf8_dec needed dinit]. cbn [N.eqb]. unfold dstart.
  replace (b <? 128) with false by (symmetry; apply N.ltb_ge; lia).
  replace (194 <=? b) with true by (symmetry; apply N.leb_le; lia).
  replace (b <=? 223) with false by (symmetry; apply N.leb_gt; lia).
  replace (224 <=? b) with true by (symmetry; apply N.leb_le; lia).
  replace (b <=? 239) with true by (symmetry; apply N.leb_le; lia). reflexivity.
Qed.

Lemma dec_start4 b bs : 240 <= b <= 244 ->
  utf8_dec dinit (b :: bs) =
  utf8_dec {| needed := 3; acc := b - 240; lo := if b =? 240 then 144 else 128;
              hi := if b =? 244 then 143 else 191 |} bs.
Proof.
  intro H. cbn [utf8_dec needed dinit]. cbn [N.eqb]. unfold dstart.
  replace (b <? 128) with false by (symmetry; apply N.ltb_ge; lia).
  replace (194 <=? b) with true by (symmetry; apply N.leb_le; lia).
  replace (b <=? 223) with false by (symmetry; apply N.leb_gt; lia).
  replace (224 <=? b) with true by (symmetry; apply N.leb_le; lia).
  replace (b <=? 239) with false by (symmetry; apply N.leb_gt; lia).
  replace (240 <=? b) with true by (symmetry; apply N.leb_le; lia).
  replace (b <=? 244) with true by (symmetry; apply N.leb_le; lia). reflexivity.
Qed.

Lemma dec_cont_last a l h b bs : l <= b <= h ->
  utf8_dec {| needed := 1; acc := a; lo := l; hi := h |} (b :: bs) = (a * 64 + (b - 128)) :: utf8_dec dinit bs.
Proof.
  intro H. cbn [utf8_dec needed acc lo hi]. cbn [N.eqb Pos.eqb].
  replace (l <=? b) with true by (symmetry; apply N.leb_le; lia).
  replace (b <=? h) with true by (symmetry; apply N.leb_le; lia). reflexivity.
Qed.

Lemma dec_cont_more k a l h b bs : 2 <= k -> l <= b <= h ->
  utf8_dec {| needed := k; acc := a; lo := l; hi := h |} (b :: bs) =
  utf8_dec {| needed := k - 1; acc := a * 64 + (b - 128); lo := 128; hi := 191 |} bs.
Proof.
  intros Hk H. cbn [utf8_dec needed acc lo hi].
  replace (k =? 0) with false by (symmetry; apply N.eqb_neq; lia).
  replace (k =? 1) with false by (symmetry; apply N.eqb_neq; lia).
  replace (l <=? b) with true by (symmetry; apply N.leb_le; lia).
  replace (b <=? h) with true by (symmetry; apply N.leb_le; lia). reflexivity.
Qed.

(** ** One character *)

Lemma valid_scalar_true c : valid_scalar c = true -> c < 1114112 /\ (c < 55296 \/ 57343 < c).
Proof.
  unfold valid_scalar, is_surrogate. intro H. apply andb_true_iff in H as [H1 H2].
  apply N.ltb_lt in H1. apply negb_true_iff in H2. apply andb_false_iff in H2.
  rewrite !N.leb_gt in H2. lia.
Qed.

Lemma utf8_char_dec c rest : valid_scalar c = true ->
  utf8_dec dinit (utf8_char c ++ rest) = c :: utf8_dec dinit rest.
Proof.
  intro Hv. apply valid_scalar_true in Hv as [Hmax Hsur]. unfold utf8_char.
  destruct (c <? 128) eqn:E1.
  { apply N.ltb_lt in E1. cbn [app]. apply dec_ascii. exact E1. }
  apply N.ltb_ge in E1. destruct (c <? 2048) eqn:E2.
  { apply N.ltb_lt in E2. cbn [app].
    rewrite dec_start2 by lia. rewrite dec_cont_last by lia. f_equal. lia. }
  apply N.ltb_ge in E2. destruct (c <? 65536) eqn:E3.
  { apply N.ltb_lt in E3. cbn [app].
    rewrite dec_start3 by lia.
    assert (Hlo : (if 224 + c / 4096 =? 224 then 160 else 128) <= 128 + (c / 64) mod 64).
    { destruct (224 + c / 4096 =? 224) eqn:E; [apply N.eqb_eq in E|]; lia. }
    assert (Hhi : 128 + (c / 64) mod 64 <= (if 224 + c / 4096 =? 237 then 159 else 191)).
    { destruct (224 + c / 4096 =? 237) eqn:E; [apply N.eqb_eq in E|]; lia. }
    rewrite dec_cont_more by (try lia; split; assumption).
    cbn [N.sub Pos.sub Pos.pred_double Pos.sub_mask Pos.double_pred_mask].
    change (2 - 1) with 1. rewrite dec_cont_last by lia. f_equal. lia. }
  apply N.ltb_ge in E3. cbn [app].
  rewrite dec_start4 by lia.
  assert (Hlo : (if 240 + c / 262144 =? 240 then 144 else 128) <= 128 + (c / 4096) mod 64).
  { destruct (240 + c / 262144 =? 240) eqn:E; [apply N.eqb_eq in E|]; lia. }
  assert (Hhi : 128 + (c / 4096) mod 64 <= (if 240 + c / 262144 =? 244 then 143 else 191)).
  { destruct (240 + c / 262144 =? 244) eqn:E; [apply N.eqb_eq in E|]; lia. }
  rewrite dec_cont_more by (try lia; split; assumption).
  change (3 - 1) with 2. rewrite dec_cont_more by lia.
  change (2 - 1) with 1. rewrite dec_cont_last by lia. f_equal. lia.
Qed.

Lemma utf8_roundtrip (x : str) : valid_scalars x = true -> utf8_decode (utf8_encode x) = x.
Proof.
  unfold utf8_decode, utf8_encode, valid_scalars. induction x as [|c x IH]; intro H; [reflexivity|].
  cbn [forallb] in H. apply andb_true_iff in H as [Hc H]. cbn [flat_map].
  rewrite (utf8_char_dec c _ Hc), (IH H). reflexivity.
Qed.

(** Bytes of the encoding are bytes. *)
Lemma utf8_char_bytes c : valid_scalar c = true -> Forall (fun b => b < 256) (utf8_char c).
Proof.
  intro Hv. apply valid_scalar_true in Hv as [Hmax _]. unfold utf8_char.
  destruct (c <? 128) eqn:E1; [apply N.ltb_lt in E1; repeat constructor; lia|]. apply N.ltb_ge in E1.
  destruct (c <? 2048) eqn:E2; [apply N.ltb_lt in E2; repeat constructor; lia|]. apply N.ltb_ge in E2.
  destruct (c <? 65536) eqn:E3; [apply N.ltb_lt in E3; repeat constructor; lia|]. apply N.ltb_ge in E3.
  repeat constructor; lia.
Qed.

Lemma utf8_encode_bytes (x : str) : valid_scalars x = true -> Forall (fun b => b < 256) (utf8_encode x).
Proof.
  unfold utf8_encode, valid_scalars. induction x as [|c x IH]; intro H; [constructor|].
  cbn [forallb] in H. apply andb_true_iff in H as [Hc H]. cbn [flat_map].
  apply Forall_app. split; [apply utf8_char_bytes; exact Hc | apply IH; exact H].
Qed.

(** ** quote / unquote *)

Lemma quote_safe_true b : quote_safe b = true ->
  (48 <= b <= 57 \/ 65 <= b <= 90 \/ 97 <= b <= 122 \/ b = 95 \/ b = 46 \/ b = 45 \/ b = 126 \/ b = 47).
Proof.
  unfold quote_safe, is_alnum, is_alpha, is_upper, is_lower, is_digit.
  rewrite !orb_true_iff, !andb_true_iff, !N.leb_le, !N.eqb_eq. tauto.
Qed.

Lemma hex_val_digit v : v < 16 -> hex_val (hex_digit v) = Some v.
Proof.
  intro H. unfold hex_digit. destruct (v <? 10) eqn:E.
  - apply N.ltb_lt in E. unfold hex_val, is_digit.
    replace (48 <=? 48 + v) with true by (symmetry; apply N.leb_le; lia).
    replace (48 + v <=? 57) with true by (symmetry; apply N.leb_le; lia). cbn [andb]. f_equal. lia.
  - apply N.ltb_ge in E. unfold hex_val, is_digit.
    replace (55 + v <=? 57) with false by (symmetry; apply N.leb_gt; lia). rewrite andb_false_r.
    replace (65 <=? 55 + v) with true by (symmetry; apply N.leb_le; lia).
    replace (55 + v <=? 70) with true by (symmetry; apply N.leb_le; lia). cbn [andb]. f_equal. lia.
Qed.

Lemma uitems_quote_byte b (rest : str) : b < 256 -> uitems (quote_byte b ++ rest) = UB b :: uitems rest.
Proof.
  intro Hb. unfold quote_byte. destruct (quote_safe b) eqn:E.
  - apply quote_safe_true in E. cbn [app uitems].
    replace (b =? 37) with false by (symmetry; apply N.eqb_neq; lia).
    replace (b <? 128) with true by (symmetry; apply N.ltb_lt; lia). reflexivity.
  - cbn [app uitems]. cbn [N.eqb Pos.eqb].
    rewrite (hex_val_digit (b / 16)) by lia. rewrite (hex_val_digit (b mod 16)) by lia.
    f_equal. f_equal. lia.
Qed.

Lemma uitems_quote_bytes (bs : list N) : Forall (fun b => b < 256) bs ->
  uitems (flat_map quote_byte bs) = map UB bs.
Proof.
  induction 1 as [|b bs Hb H IH]; [reflexivity|]. cbn [flat_map map].
  rewrite (uitems_quote_byte b _ Hb), IH. reflexivity.
Qed.

Lemma udecode_bytes (bs : list N) : forall pending,
  udecode pending (map UB bs) = utf8_decode (rev pending ++ bs).
Proof.
  induction bs as [|b bs IH]; intro pending; cbn [map udecode].
  - rewrite app_nil_r. reflexivity.
  - rewrite IH. cbn [rev]. rewrite <- app_assoc. reflexivity.
Qed.

Lemma quote_roundtrip (x : str) : valid_scalars x = true -> unquote (quote x) = x.
Proof.
  intro H. unfold unquote, quote.
  rewrite (uitems_quote_bytes _ (utf8_encode_bytes x H)), udecode_bytes. cbn [rev app].
  apply utf8_roundtrip. exact H.
Qed.

Lemma quote_inj (x y : str) : valid_scalars x = true -> valid_scalars y = true -> quote x = quote y -> x = y.
Proof.
  intros Hx Hy E. rewrite <- (quote_roundtrip x Hx), <- (quote_roundtrip y Hy), E. reflexivity.
Qed.

Lemma quote_app (x y : str) : quote (x ++ y) = quote x ++ quote y.
Proof. unfold quote, utf8_encode. rewrite !flat_map_app. reflexivity. Qed.

(** The quoted text is a path-only reference: unreserved characters, "/" and %XX only. *)
Lemma path_only_quote_byte b (rest : str) : b < 256 ->
  path_only_ref (quote_byte b ++ rest) = path_only_ref rest.
Proof.
  intro Hb. unfold quote_byte. destruct (quote_safe b) eqn:E.
  - cbn [app path_only_ref]. rewrite E. apply quote_safe_true in E.
    replace (b =? 37) with false by (symmetry; apply N.eqb_neq; lia). reflexivity.
  - cbn [app path_only_ref]. cbn [N.eqb Pos.eqb].
    rewrite (hex_val_digit (b / 16)) by lia. rewrite (hex_val_digit (b mod 16)) by lia. reflexivity.
Qed.

Lemma quote_path_only (x : str) : valid_scalars x = true -> path_only_ref (quote x) = true.
Proof.
  intro H. unfold quote. assert (B := utf8_encode_bytes x H).
  induction B as [|b bs Hb _ IH]; [reflexivity|]. cbn [flat_map].
  rewrite (path_only_quote_byte b _ Hb). exact IH.
Qed.

(** ** Quoted segments are segments *)

Lemma utf8_char_no47 c : (c =? 47) = false -> forallb (fun b => negb (b =? 47)) (utf8_char c) = true.
Proof.
  intro H. unfold utf8_char.
  destruct (c <? 128); [cbn [forallb]; rewrite H; reflexivity|].
  assert (G : forall v, (128 + v =? 47) = false) by (intro v; apply N.eqb_neq; lia).
  destruct (c <? 2048); [|destruct (c <? 65536)]; cbn [forallb]; rewrite ?G;
    repeat match goal with |- context [?a + ?v =? 47] =>
      replace (a + v =? 47) with false by (symmetry; apply N.eqb_neq; lia) end; reflexivity.
Qed.

Lemma quote_byte_no47 b : (b =? 47) = false -> forallb (fun d => negb (d =? 47)) (quote_byte b) = true.
Proof.
  intro H. unfold quote_byte. destruct (quote_safe b); cbn [forallb]; [rewrite H; reflexivity|].
  cbn [N.eqb Pos.eqb negb andb]. unfold hex_digit.
  destruct (b / 16 <? 10), (b mod 16 <? 10);
    repeat match goal with |- context [?a + ?v =? 47] =>
      replace (a + v =? 47) with false by (symmetry; apply N.eqb_neq; lia) end; reflexivity.
Qed.

Lemma forallb_flat_map {A B} (p : B -> bool) (f : A -> list B) (q : A -> bool) (l : list A) :
  (forall a, q a = true -> forallb p (f a) = true) -> forallb q l = true -> forallb p (flat_map f l) = true.
Proof.
  intros Hf H. induction l as [|a l IH]; [reflexivity|]. cbn [forallb flat_map] in *.
  apply andb_true_iff in H as [Ha H]. rewrite forallb_app, (Hf a Ha), (IH H). reflexivity.
Qed.

Lemma has47_forallb (x : str) : has47 x = false <-> forallb (fun c => negb (c =? 47)) x = true.
Proof.
  unfold has47. induction x as [|c x IH]; [split; reflexivity|]. cbn [existsb forallb].
  rewrite orb_false_iff, andb_true_iff, negb_true_iff, IH. reflexivity.
Qed.

Lemma quote_no47 (sg : str) : has47 sg = false -> has47 (quote sg) = false.
Proof.
  rewrite !has47_forallb. intro H. unfold quote, utf8_encode.
  apply forallb_flat_map with (q := fun b => negb (b =? 47)).
  - intros b Hb. apply quote_byte_no47. apply negb_true_iff. exact Hb.
  - apply forallb_flat_map with (q := fun c => negb (c =? 47)); [|exact H].
    intros c Hc. apply utf8_char_no47. apply negb_true_iff. exact Hc.
Qed.

Lemma valid_dot : valid_scalars dot = true /\ valid_scalars dotdot = true /\ valid_scalars [] = true.
Proof. repeat split; reflexivity. Qed.

Lemma quote_seg_ok (sg : str) : valid_scalars sg = true -> seg_ok sg = true -> seg_ok (quote sg) = true.
Proof.
  intros Hv H. destruct (seg_ok_parts sg H) as [H1 [H2 [H3 H4]]].
  unfold seg_ok. rewrite (quote_no47 sg H4).
  assert (Q1 : quote sg <> []).
  { intro E. apply H1. apply (quote_inj sg [] Hv eq_refl). rewrite E. reflexivity. }
  assert (Q2 : str_eqb (quote sg) dot = false).
  { destruct (str_eqb (quote sg) dot) eqn:E; [|reflexivity]. apply str_eqb_eq in E.
    assert (sg = dot) by (apply (quote_inj sg dot Hv eq_refl); rewrite E; reflexivity).
    subst sg. discriminate H2. }
  assert (Q3 : str_eqb (quote sg) dotdot = false).
  { destruct (str_eqb (quote sg) dotdot) eqn:E; [|reflexivity]. apply str_eqb_eq in E.
    assert (sg = dotdot) by (apply (quote_inj sg dotdot Hv eq_refl); rewrite E; reflexivity).
    subst sg. discriminate H3. }
  rewrite Q2, Q3. destruct (quote sg); [congruence | reflexivity].
Qed.

(** ** quote distributes over paths *)

Lemma quote_slash : quote slash = slash.
Proof. reflexivity. Qed.

Lemma quote_join (segs : list str) : quote (join slash segs) = join slash (map quote segs).
Proof.
  induction segs as [|p segs IH]; [reflexivity|]. destruct segs as [|q segs]; [reflexivity|].
  rewrite join_cons2. cbn [map]. rewrite join_cons2, !quote_app, quote_slash, IH. reflexivity.
Qed.

Lemma quote_path_of (segs : list str) : quote (path_of segs) = path_of (map quote segs).
Proof.
  unfold path_of. change (47 :: join slash segs) with (slash ++ join slash segs).
  rewrite quote_app, quote_slash, quote_join. reflexivity.
Qed.

Lemma quote_dotdots k : map quote (repeat dotdot k) = repeat dotdot k.
Proof. induction k; [reflexivity|]. cbn [repeat map]. rewrite IHk. reflexivity. Qed.

Lemma valid_scalars_app (x y : str) : valid_scalars (x ++ y) = valid_scalars x && valid_scalars y.
Proof. unfold valid_scalars. apply forallb_app. Qed.

Lemma forallb_map_quote_seg_ok (l : list str) :
  forallb valid_scalars l = true -> forallb seg_ok l = true -> forallb seg_ok (map quote l) = true.
Proof.
  induction l as [|p l IH]; intros Hv H; [reflexivity|]. cbn [forallb map] in *.
  apply andb_true_iff in Hv as [Hp Hv]. apply andb_true_iff in H as [Hs H].
  rewrite (quote_seg_ok p Hp Hs), (IH Hv H). reflexivity.
Qed.

Local Close Scope N_scope.

(** The percent-encoded link on the percent-encoded page address resolves to the
    percent-encoded target. *)
Lemma quoted_relative_correct (fd : list str) (ff : str) (ts : list str) :
  forallb valid_scalars (fd ++ [ff]) = true -> forallb valid_scalars ts = true ->
  forallb seg_ok (fd ++ [ff]) = true -> forallb seg_ok ts = true -> is_prefix ts fd = false ->
  url_resolve (quote (path_of (fd ++ [ff]))) (href_relative_url (path_of (fd ++ [ff])) (path_of ts)) =
  quote (path_of ts).
Proof.
  intros Vf Vt Hf Ht Hp.
  assert (Hne : ts <> []) by (intro E; subst ts; discriminate).
  unfold href_relative_url.
  rewrite href_relative_segments; try (apply seg_ok_no47; assumption); try assumption.
  set (n := length (common_prefix fd ts)).
  assert (Hn : n <= length fd) by apply common_prefix_length.
  destruct (common_prefix_spec fd ts) as [C1 C2]. fold n in C1, C2.
  assert (Hdown : skipn n ts <> []).
  { intro E. apply common_prefix_all in E. rewrite E in Hp. discriminate. }
  assert (Hdok : forallb seg_ok (skipn n ts) = true).
  { rewrite <- (firstn_skipn n ts) in Ht. rewrite forallb_app in Ht. apply andb_true_iff in Ht. tauto. }
  assert (Hdv : forallb valid_scalars (skipn n ts) = true).
  { rewrite <- (firstn_skipn n ts) in Vt. rewrite forallb_app in Vt. apply andb_true_iff in Vt. tauto. }
  rewrite !quote_path_of, quote_join.
  rewrite (map_app quote (repeat dotdot (length fd - n)) (skipn n ts)), quote_dotdots.
  rewrite (map_app quote fd [ff]). cbn [map].
  rewrite (resolve_segments (map quote fd) (quote ff) (length fd - n) (map quote (skipn n ts))).
  - rewrite map_length. replace (length fd - (length fd - n)) with n by lia.
    rewrite firstn_map, <- map_app, C1, <- C2, firstn_skipn. reflexivity.
  - change (map quote fd ++ [quote ff]) with (map quote fd ++ map quote [ff]).
    rewrite <- (map_app quote fd [ff]). apply forallb_map_quote_seg_ok; assumption.
  - apply forallb_map_quote_seg_ok; assumption.
  - intro E. apply map_eq_nil in E. contradiction.
  - rewrite map_length. lia.
Qed.
