(** * Scaling commutes with compilation (C03, last clause): instantiation of
    the parametricity theorem (Proofs/CompilerScaleEmbed.v) with
    "v' = v * k, v an int or a Fraction". *)
From Coq Require Import List ZArith NArith QArith Bool Lia.
From RG Require Import Base.Str Base.Num Model.Recipe Model.Compiler Spec.CompileSpec Spec.CompileSym
  Spec.ScaleProg Proofs.RecipeInd Proofs.RecipeScale Proofs.NodeEqv Proofs.CompilerExpand
  Proofs.CompilerScaleRel Proofs.CompilerScaleFold Proofs.CompilerScaleEmbed.
Import ListNotations.
Local Open Scope nat_scope.

(** ** A [mulR]-related tree is the scaled tree (converse of [scale_node_R]) *)
Lemma quantity_R_scale k q q' : quantity_R (mulR k) q q' -> scale_quantity k q = Some q'.
Proof.
  intros (Hv & Hu & Hs & Hp). unfold scale_quantity. apply scale_num_mulR in Hv. rewrite Hv. simpl.
  destruct q'; simpl in *. now subst.
Qed.

Lemma amount_R_scale k a a' : amount_R (mulR k) a a' -> scale_amount k a = Some a'.
Proof.
  destruct a as [q|p], a' as [q'|p']; simpl; try tauto.
  - intro H. now rewrite (quantity_R_scale k q q' H).
  - now intros ->.
Qed.

Lemma node_R_scale k : forall t t', node_R (mulR k) t t' -> scale_node k t = Some t'.
Proof.
  induction t as [d q | d ins IH | sr i a IH | b ns sh IH] using node_ind'; intros t' H;
    apply node_R_inv in H.
  - destruct H as (d' & q' & -> & A & B). simpl. rewrite (svs_R_scale k d d' A).
    destruct q as [q0|], q' as [q0'|]; simpl in B; try tauto.
    now rewrite (quantity_R_scale k q0 q0' B).
  - destruct H as (d' & ins' & -> & A & B). rewrite scale_node_Step, (svs_R_scale k d d' A).
    assert (E : map_opt (scale_node k) ins = Some ins').
    { apply map_opt_Forall2. clear A. induction B as [|x y l l' Hxy _ IHB]; [constructor|].
      inversion IH; subst. constructor; auto. }
    now rewrite E.
  - destruct H as (sr' & a' & -> & A & B). simpl. now rewrite (IH sr' A), (amount_R_scale k a a' B).
  - destruct H as (b' & ns' & -> & A & B). simpl. rewrite (IH b' A).
    assert (E : map_opt (scale_svs k) ns = Some ns').
    { apply map_opt_Forall2. clear -B. induction B; constructor; [now apply svs_R_scale | assumption]. }
    now rewrite E.
Qed.

Lemma blocks_R_scale k bs bs' :
  Forall2 (Forall2 (node_R (mulR k))) bs bs' -> scale_blocks k bs = Some bs'.
Proof.
  intro H. unfold scale_blocks. apply map_opt_Forall2.
  induction H as [|b b' l l' Hb _ IH]; constructor; [|exact IH].
  apply map_opt_Forall2. induction Hb; constructor; [now apply node_R_scale | assumption].
Qed.

(** ** Exact multiplication by a non-zero factor is injective for [==] *)
Definition nonzero (k : num) : Prop := num_eqb k (NInt 0) = false.
Definition positive_num (k : num) : Prop := num_ltb (NInt 0) k = true.

Lemma positive_nonzero k : positive_num k -> nonzero k.
Proof.
  unfold positive_num, nonzero, num_ltb, num_eqb. simpl.
  destruct (to_frac k) as [n d]. intro H. apply Z.ltb_lt in H. apply Z.eqb_neq. lia.
Qed.

Lemma nmul_eqb_inj k a a' b b' :
  exact k -> nonzero k -> exact a -> exact b -> mulR k a a' -> mulR k b b' ->
  num_eqb a' b' = num_eqb a b.
Proof.
  intros Hk Hnz Ha Hb Ma Mb.
  destruct (nmul_exact a k Ha Hk) as (ra & Ea & _ & Qa).
  destruct (nmul_exact b k Hb Hk) as (rb & Eb & _ & Qb).
  unfold mulR in Ma, Mb. rewrite Ea in Ma. rewrite Eb in Mb. inversion Ma; inversion Mb; subst.
  apply eq_true_iff_eq. rewrite !num_eqb_Qeq, Qa, Qb.
  apply Qmult_inj_r. intro E.
  assert (H0 : num_eqb k (NInt 0) = true) by (apply num_eqb_Qeq; exact E).
  unfold nonzero in Hnz. congruence.
Qed.

(** The instance: [v] exact and [v' = v * k]. *)
Definition exmulR (k : num) : num -> num -> Prop := fun v v' => exact v /\ mulR k v v'.

Lemma exmulR_eqb k : exact k -> nonzero k ->
  forall a a' b b', exmulR k a a' -> exmulR k b b' -> num_eqb a' b' = num_eqb a b.
Proof. intros Hk Hnz a a' b b' [Ha Ma] [Hb Mb]. now apply (nmul_eqb_inj k). Qed.

Lemma exmulR_mulR k v v' : exmulR k v v' -> mulR k v v'.
Proof. now intros [_ H]. Qed.

(** ** A scaled exact program is [exmulR]-related to the program *)
Lemma scale_svs_exR k : forall d d', scale_svs k d = Some d' -> Forall exact (svs_nums d) ->
  svs_R (exmulR k) d d'.
Proof.
  induction d as [|p r IH]; intros d' H HF; simpl in H.
  - inversion H. constructor.
  - destruct p as [x|v].
    + destruct (scale_svs k r) as [r'|]; simpl in H; [|discriminate]. inversion H; subst.
      constructor; [reflexivity | now apply IH].
    + simpl in HF. inversion HF as [|? ? Hv Hr]; subst.
      destruct (scale_num k v) as [v'|] eqn:Ev; [|discriminate].
      destruct (scale_svs k r) as [r'|]; [|discriminate]. inversion H; subst.
      constructor; [|now apply IH]. split; [exact Hv | now apply scale_num_mulR].
Qed.

Lemma scale_quantity_exR k q q' : scale_quantity k q = Some q' -> exact (q_value q) ->
  quantity_R (exmulR k) q q'.
Proof.
  intros H He. apply scale_quantity_R in H. destruct H as (Hv & Hr). split; [split; assumption | exact Hr].
Qed.

Lemma scale_opt_amount_exR k a a' : scale_opt_amount k a = Some a' ->
  Forall exact (opt_amount_nums a) -> optamt_R (exmulR k) a a'.
Proof.
  destruct a as [[q|p]|]; simpl; intros H HF.
  - destruct (scale_quantity k q) as [q'|] eqn:Eq; simpl in H; [|discriminate]. inversion H; subst. simpl.
    inversion HF; subst. now apply scale_quantity_exR.
  - inversion H; subst. simpl. reflexivity.
  - inversion H; subst. exact I.
Qed.

Lemma scale_aexpr_exR k : forall e e', scale_aexpr k e = Some e' -> Forall exact (aexpr_nums e) ->
  aexpr_R (exmulR k) e e'.
Proof.
  induction e as [n a o | n ins IH] using aexpr_ind'; intros e' H HF; simpl in H, HF;
    apply Forall_app in HF; destruct HF as [F1 F2].
  - destruct (scale_svs k n) as [n'|] eqn:En; [|discriminate].
    destruct (scale_opt_amount k a) as [a'|] eqn:Ea; [|discriminate]. inversion H; subst.
    constructor; [now apply scale_svs_exR | now apply scale_opt_amount_exR].
  - destruct (scale_svs k n) as [n'|] eqn:En; [|discriminate].
    match type of H with match ?g ins with _ => _ end = _ => set (go := g) in H end.
    destruct (go ins) as [ins'|] eqn:Ei; [|discriminate]. inversion H; subst.
    constructor; [now apply scale_svs_exR|].
    clear H En F1. revert ins' Ei. induction ins as [|x r IHr]; intros ins' Ei; simpl in Ei.
    + inversion Ei. constructor.
    + simpl in F2. apply Forall_app in F2. destruct F2 as [Fx Fr]. inversion IH as [|? ? IHx IHrest]; subst.
      destruct (scale_aexpr k x) as [y|] eqn:Ex; [|discriminate].
      destruct (go r) as [r'|] eqn:Er; [|discriminate]. inversion Ei; subst.
      constructor; [now apply IHx | now apply IHr].
Qed.

Lemma scale_astmt_exR k st st' : scale_astmt k st = Some st' -> Forall exact (astmt_nums st) ->
  astmt_R (exmulR k) st st'.
Proof.
  unfold scale_astmt, astmt_nums. intros H HF. apply Forall_app in HF. destruct HF as [F1 F2].
  destruct (map_opt (scale_out k) (st_outs st)) as [outs|] eqn:Eo; [|discriminate].
  destruct (scale_aexpr k (st_expr st)) as [e|] eqn:Ee; [|discriminate]. inversion H; subst. clear H.
  split; [|split; [reflexivity | now apply scale_aexpr_exR]]. simpl.
  apply map_opt_Forall2 in Eo. induction Eo as [|[n o] [n' o'] l l' Hx _ IH]; [constructor|].
  simpl in F1. apply Forall_app in F1. destruct F1 as [Fn Fl].
  constructor; [|now apply IH]. unfold scale_out in Hx. simpl in Hx.
  destruct (scale_svs k n) as [n2|] eqn:En; simpl in Hx; [|discriminate]. inversion Hx; subst.
  split; simpl; [now apply scale_svs_exR | reflexivity].
Qed.

Lemma scale_prog_exR k p pk : scale_prog k p = Some pk -> exact_prog p -> prog_R (exmulR k) p pk.
Proof.
  unfold scale_prog, exact_prog, prog_nums. intros H HF. apply map_opt_Forall2 in H.
  induction H as [|b b' l l' Hb _ IH]; [constructor|].
  simpl in HF. apply Forall_app in HF. destruct HF as [Fb Fl]. constructor; [|now apply IH].
  apply map_opt_Forall2 in Hb. clear IH Fl. induction Hb as [|st st' r r' Hst _ IHr]; [constructor|].
  simpl in Fb. apply Forall_app in Fb. destruct Fb as [Fs Fr].
  constructor; [now apply scale_astmt_exR | now apply IHr].
Qed.

(** Exact programs can always be scaled by an exact factor. *)
Lemma scale_prog_total k p : exact k -> exact_prog p -> exists pk, scale_prog k p = Some pk.
Proof.
  intros Hk. unfold scale_prog, exact_prog, prog_nums.
  assert (Hsvs : forall d, Forall exact (svs_nums d) -> exists d', scale_svs k d = Some d').
  { intros d HF. destruct (scale_svs_total k d Hk) as (d' & E & _); [|eauto].
    clear -HF. induction d as [|[x|v] r IH]; simpl in *; [constructor | now apply IH |].
    inversion HF; subst. constructor; [assumption | now apply IH]. }
  assert (Hex : forall e, Forall exact (aexpr_nums e) -> exists e', scale_aexpr k e = Some e').
  { induction e as [n a o | n ins IH] using aexpr_ind'; intros HF; simpl in HF;
      apply Forall_app in HF; destruct HF as [F1 F2]; destruct (Hsvs n F1) as (n' & En).
    - simpl. rewrite En. destruct a as [[q|pp]|]; simpl; try (eexists; reflexivity).
      simpl in F2. inversion F2; subst. destruct (nmul_exact _ k H1 Hk) as (w & Hw & _).
      unfold scale_quantity, scale_num. rewrite Hw. simpl. eexists; reflexivity.
    - simpl. rewrite En.
      match goal with |- exists _, match ?g ins with _ => _ end = _ => set (go := g) end.
      assert (G : exists ins', go ins = Some ins').
      { clear En F1. induction ins as [|x r IHr]; simpl; [eexists; reflexivity|].
        simpl in F2. apply Forall_app in F2. destruct F2 as [Fx Fr]. inversion IH; subst.
        destruct (H1 Fx) as (y & Ey). destruct (IHr H2 Fr) as (r' & Er). rewrite Ey, Er. eexists; reflexivity. }
      destruct G as (ins' & Ei). rewrite Ei. eexists; reflexivity. }
  induction p as [|b l IH]; intro HF; simpl; [eexists; reflexivity|].
  simpl in HF. apply Forall_app in HF. destruct HF as [Fb Fl]. destruct (IH Fl) as (l' & El). rewrite El.
  assert (G : exists b', map_opt (scale_astmt k) b = Some b').
  { clear -Fb Hsvs Hex. induction b as [|st r IHr]; simpl; [eexists; reflexivity|].
    simpl in Fb. apply Forall_app in Fb. destruct Fb as [Fs Fr]. destruct (IHr Fr) as (r' & Er). rewrite Er.
    unfold astmt_nums in Fs. apply Forall_app in Fs. destruct Fs as [Fo Fe].
    destruct (Hex _ Fe) as (e' & Ee). unfold scale_astmt. rewrite Ee.
    assert (Go : exists o', map_opt (scale_out k) (st_outs st) = Some o').
    { clear -Fo Hsvs. induction (st_outs st) as [|[n o] t IHt]; simpl; [eexists; reflexivity|].
      simpl in Fo. apply Forall_app in Fo. destruct Fo as [Fn Ft]. destruct (IHt Ft) as (t' & Et).
      destruct (Hsvs n Fn) as (n' & En). unfold scale_out. simpl. rewrite En. simpl.
      unfold scale_out in Et. rewrite Et. eexists; reflexivity. }
    destruct Go as (o' & Eo). rewrite Eo. eexists; reflexivity. }
  destruct G as (b' & Eb). rewrite Eb. eexists; reflexivity.
Qed.

(** ** Scaling commutes with compilation *)
Section Main.
  Variable convert : str -> str -> option num.
  Variable tol : Z * positive.
  Variable lower : str -> str.

  Lemma quantity_exR_scale k q q' : quantity_R (exmulR k) q q' -> scale_quantity k q = Some q'.
  Proof. intros ([_ Hv] & Hr). apply quantity_R_scale. split; assumption. Qed.

  Lemma decisive_same k p : decisive convert tol lower k p ->
    Forall (same_decision (exmulR k) convert tol lower) (compared_pairs convert tol lower p).
  Proof.
    unfold decisive. apply Forall_impl. intros qm H q' m' Hq Hm.
    apply H; now apply quantity_exR_scale.
  Qed.

  Theorem scale_commutes_outcome_R k p pk :
    exact k -> nonzero k -> exact_prog p -> decisive convert tol lower k p ->
    scale_prog k p = Some pk ->
    outcome_R (exmulR k) (sym_compile convert tol lower p) (sym_compile convert tol lower pk).
  Proof.
    intros Hk Hnz Hp Hd Hs.
    apply (sym_compile_R (exmulR k) (exmulR_eqb k Hk Hnz) convert tol lower p pk).
    - now apply scale_prog_exR.
    - now apply decisive_same.
  Qed.

  (** One equation for every outcome: recipes, compile errors, overflow. *)
  Theorem scale_commutes_outcome k p pk :
    exact k -> nonzero k -> exact_prog p -> decisive convert tol lower k p ->
    scale_prog k p = Some pk ->
    scale_outcome k (sym_compile convert tol lower p) = Some (sym_compile convert tol lower pk).
  Proof.
    intros Hk Hnz Hp Hd Hs. pose proof (scale_commutes_outcome_R k p pk Hk Hnz Hp Hd Hs) as H.
    destruct (sym_compile convert tol lower p) as [bs|e b o|c],
             (sym_compile convert tol lower pk) as [bs'|e' b' o'|c']; simpl in H |- *; try tauto.
    - assert (E : scale_blocks k bs = Some bs'); [|now rewrite E].
      apply blocks_R_scale. eapply Forall2_mono; [|exact H]. intros x y Hxy.
      eapply Forall2_mono; [|exact Hxy]. intros t t' Ht.
      eapply node_R_mono; [|exact Ht]. apply exmulR_mulR.
    - destruct H as (-> & -> & ->). reflexivity.
    - now subst.
  Qed.
End Main.

Section Main2.
  Variable convert : str -> str -> option num.
  Variable tol : Z * positive.
  Variable lower : str -> str.

  (** The recipe case: the scaled tables are the very tables of the scaled source. *)
  Theorem scale_commutes_compile k p pk bs :
    exact k -> nonzero k -> exact_prog p -> decisive convert tol lower k p ->
    sym_compile convert tol lower p = COk bs -> scale_prog k p = Some pk ->
    exists bs', scale_blocks k bs = Some bs' /\ sym_compile convert tol lower pk = COk bs'.
  Proof.
    intros Hk Hnz Hp Hd Hc Hs.
    pose proof (scale_commutes_outcome convert tol lower k p pk Hk Hnz Hp Hd Hs) as H.
    rewrite Hc in H. simpl in H. destruct (scale_blocks k bs) as [bs'|]; simpl in H; [|discriminate].
    exists bs'. split; [reflexivity|]. now inversion H.
  Qed.

  (** Errors: same kind, block and source offset. *)
  Theorem scale_commutes_error k p pk o :
    exact k -> nonzero k -> exact_prog p -> decisive convert tol lower k p ->
    sym_compile convert tol lower p = o -> (forall bs, o <> COk bs) -> scale_prog k p = Some pk ->
    sym_compile convert tol lower pk = o.
  Proof.
    intros Hk Hnz Hp Hd Hc Hno Hs.
    pose proof (scale_commutes_outcome convert tol lower k p pk Hk Hnz Hp Hd Hs) as H.
    rewrite Hc in H. destruct o as [bs|e b off|c]; [now destruct (Hno bs) | |]; simpl in H; now inversion H.
  Qed.
End Main2.
