(** * Statements and whole recipes: parse (print t) = value t (C06, quoted family). *)
From Coq Require Import List ZArith NArith Bool Lia Arith String.
From RG Require Import Base.Str Base.Dec Base.Num Gen.GenUnits Model.Recipe Model.Compiler Model.Parser Model.Printer
  Proofs.DecLemmas Proofs.ParserLex Proofs.ParserName Proofs.ParserAmount Proofs.ParserExpr Proofs.ParserTree.
From RG Require Model.Units.
Import ListNotations.
Open Scope string_scope.
Open Scope list_scope.
Open Scope N_scope.

Ltac norm := norm_app; cbn [app].

(** ** Output lists *)
Lemma outputs_more_spec : forall acts n fuel (kk : str) o b,
  acts_ok acts = true -> ltr_followb kk = true -> (List.length acts < n)%nat -> (acts_cost acts <= fuel)%nat ->
  outputs_more n fuel (mkSt (print_acts acts ++ kk) o b) =
  Got (outs_val acts o) (mkSt kk (o + len (print_acts acts)) b).
Proof.
  induction acts as [|[[w1 w2] nm] acts IH]; intros n fuel kk o b Ha Hk Hn Hc.
  - destruct n as [|n]; [cbn [List.length] in Hn; lia|]. cbn [print_acts flat_map app outputs_more outs_val].
    rewrite (no_comma_after_hsp kk o b Hk), len_nil, N.add_0_r. reflexivity.
  - destruct n as [|n]; [cbn [List.length] in Hn; lia|]. cbn [List.length] in Hn.
    cbn [acts_ok forallb fst snd] in Ha. apply andb_true_iff in Ha as [Ha Hacts].
    apply andb_true_iff in Ha as [Ha Hnm]. apply andb_true_iff in Ha as [Hw1 Hw2].
    unfold acts_cost in Hc. cbn [fold_right snd] in Hc. fold (acts_cost acts) in Hc.
    rewrite print_acts_cons. norm.
    destruct (print_name_head nm Hnm) as [c [r [Eh Hco]]].
    assert (Hstop : stops is_hsp (print_name nm ++ print_acts acts ++ kk)) by (rewrite Eh; exact (seg_head_not_hsp c Hco)).
    cbn [outputs_more].
    rewrite (skip_hsp_then w1 44 _ o b Hw1 eq_refl). cbn [snd]. rewrite eat_hit.
    rewrite (skip_hsp_run w2 _ _ b Hw2 Hstop). cbn [snd].
    rewrite (name_roundtrip nm fuel _ _ b Hnm (acts_follow acts kk Hacts Hk)) by lia.
    rewrite (IH n fuel kk _ b Hacts Hk) by lia.
    cbn [outs_val fst snd]. f_equal; [f_equal; [f_equal; f_equal; lia | f_equal; len_simp; lia]|].
    f_equal. len_simp; lia.
Qed.

(** After the outputs / a leading expression: not "=" or ":" (after horizontal space). *)
Definition nosign_followb (k : str) : bool :=
  stopsb (fun c => seg_start c || (c =? 44) || (c =? 58) || (c =? 61)) (snd (span is_hsp k)) && naked_stopb k.

Lemma nosign_ltr k : nosign_followb k = true -> ltr_followb k = true.
Proof.
  unfold nosign_followb, ltr_followb. intro H. apply andb_true_iff in H as [H N0]. apply andb_true_iff. split; [|exact N0].
  destruct (snd (span is_hsp k)) as [|c t]; [reflexivity|].
  cbn [stopsb] in *. apply negb_true_iff in H. apply orb_false_iff in H as [H _]. apply orb_false_iff in H as [H _].
  rewrite H. reflexivity.
Qed.

Lemma no_sign_after_hsp (k : str) o b : nosign_followb k = true ->
  eat 58 (snd (skip_hsp (mkSt k o b))) = None /\ eat 61 (snd (skip_hsp (mkSt k o b))) = None.
Proof.
  unfold nosign_followb, skip_hsp, opt_hsp. cbn [rest]. intro H. apply andb_true_iff in H as [H _]. revert H.
  destruct (span is_hsp k) as [w r]. cbn [snd].
  destruct r as [|c t]; [split; reflexivity|]. cbn [stopsb]. intro H. apply negb_true_iff in H.
  apply orb_false_iff in H as [H H61]. apply orb_false_iff in H as [_ H58].
  apply N.eqb_neq in H58, H61. unfold adv. split; apply eat_miss; assumption.
Qed.

(** ** End of line *)
Definition eol_text_ok (e : str * option (N * str)) (REST : str) : Prop :=
  eol_ok e = true /\ match snd e with Some _ => stops is_ws REST | None => REST = [] end.

Lemma eol_roundtrip e (REST : str) : eol_text_ok e REST ->
  sc_eol (print_eol e ++ REST) = Some (print_eol e, REST).
Proof.
  intros [Hok Hr]. destruct e as [w [[c ws]|]]; unfold eol_ok in Hok; unfold print_eol; cbn [fst snd] in *.
  - apply andb_true_iff in Hok as [Hw Hc]. apply andb_true_iff in Hc as [Hc Hws].
    norm. apply sc_eol_break; [exact Hw | | exact Hws | exact Hr].
    apply orb_true_iff in Hc as [Hc|Hc]; apply N.eqb_eq in Hc; auto.
  - apply andb_true_iff in Hok as [Hw _]. subst REST. rewrite !app_nil_r. exact (sc_eol_end w Hw).
Qed.

Lemma eol_follow e (REST : str) (p : N -> bool) : eol_text_ok e REST ->
  p 10 = false -> p 13 = false -> stopsb p (snd (span is_hsp (print_eol e ++ REST))) = true.
Proof.
  intros [Hok Hr] H10 H13. destruct e as [w [[c ws]|]]; unfold eol_ok in Hok; unfold print_eol; cbn [fst snd] in *.
  - apply andb_true_iff in Hok as [Hw Hc]. apply andb_true_iff in Hc as [Hc Hws]. norm.
    assert (Hch : is_hsp c = false) by (apply orb_true_iff in Hc as [Hc|Hc]; apply N.eqb_eq in Hc; subst; reflexivity).
    rewrite (span_app is_hsp w (c :: ws ++ REST) Hw Hch). cbn [snd stopsb].
    apply orb_true_iff in Hc as [Hc|Hc]; apply N.eqb_eq in Hc; subst c; [rewrite H10 | rewrite H13]; reflexivity.
  - apply andb_true_iff in Hok as [Hw _]. subst REST. rewrite !app_nil_r.
    rewrite <- (app_nil_r w). rewrite (span_app is_hsp w [] Hw I). reflexivity.
Qed.

(** ** Statements *)
Definition body_val (st : pstmt) (o : N) : aexpr := fold_acts (value_expr (ps_expr st) o) (ps_acts st).

Definition print_body (st : pstmt) : str := print_expr (ps_expr st) ++ print_acts (ps_acts st) ++ print_eol (ps_eol st).

Lemma acts_then_eol_follow acts e (REST : str) (p : N -> bool) :
  acts_ok acts = true -> eol_text_ok e REST -> p 10 = false -> p 13 = false -> p 44 = false ->
  stopsb p (snd (span is_hsp (print_acts acts ++ print_eol e ++ REST))) = true.
Proof.
  intros Ha He H10 H13 H44. destruct acts as [|[[w1 w2] nm] acts].
  - cbn [print_acts flat_map app]. exact (eol_follow e REST p He H10 H13).
  - cbn [acts_ok forallb fst snd] in Ha. apply andb_true_iff in Ha as [Ha _].
    apply andb_true_iff in Ha as [Ha _]. apply andb_true_iff in Ha as [Hw1 _].
    rewrite print_acts_cons. norm. rewrite (span_app is_hsp w1 (44 :: _) Hw1 eq_refl). cbn [snd stopsb].
    rewrite H44. reflexivity.
Qed.

Lemma eol_naked e (REST : str) : eol_text_ok e REST -> naked_stopb (print_eol e ++ REST) = true.
Proof.
  intros [Hok Hr]. destruct e as [w [[c ws]|]]; unfold eol_ok in Hok; unfold print_eol; cbn [fst snd] in *.
  - apply andb_true_iff in Hok as [Hw Hc]. apply andb_true_iff in Hc as [Hc Hws]. norm.
    apply naked_stopb_ws_then; [exact (hsp_run_ws w Hw)|].
    apply orb_true_iff in Hc as [Hc|Hc]; apply N.eqb_eq in Hc; subst c; reflexivity.
  - apply andb_true_iff in Hok as [Hw _]. subst REST. rewrite !app_nil_r. exact (naked_stopb_ws_end w (hsp_run_ws w Hw)).
Qed.

Lemma acts_then_eol_naked acts e (REST : str) : acts_ok acts = true -> eol_text_ok e REST ->
  naked_stopb (print_acts acts ++ print_eol e ++ REST) = true.
Proof.
  intros Ha He. destruct acts as [|[[w1 w2] nm] acts].
  - cbn [print_acts flat_map app]. exact (eol_naked e REST He).
  - cbn [acts_ok forallb fst snd] in Ha. apply andb_true_iff in Ha as [Ha _].
    apply andb_true_iff in Ha as [Ha _]. apply andb_true_iff in Ha as [Hw1 _].
    rewrite print_acts_cons. norm. apply naked_stopb_ws_then; [exact (hsp_run_ws w1 Hw1) | reflexivity].
Qed.

Ltac follow_tac Ha Heol :=
  apply andb_true_iff; split;
  [ first [ apply acts_then_eol_follow; [exact Ha | exact Heol | reflexivity ..] | apply eol_follow; [exact Heol | reflexivity ..] ]
  | first [ apply acts_then_eol_naked; [exact Ha | exact Heol] | apply eol_naked; exact Heol ] ].

(** The body of a statement: [ltr_shorthand eol]. *)
Definition p_body (fuel : nat) (s : st) : res aexpr :=
  match p_ltr fuel s with
  | Got e s2 =>
      match sc_eol (rest s2) with
      | Some (m, r) => Got e (adv s2 m r)
      | None => Fail
      end
  | Fail => Fail
  | Fuel => Fuel
  end.

Lemma p_stmt_alt fuel s :
  p_stmt fuel s =
  match p_target fuel s with
  | Got (os, named) s1 =>
      match p_body fuel s1 with
      | Got e s3 => Got (mkStmt os named e) s3
      | Fail => Fail
      | Fuel => Fuel
      end
  | Fail => Fail
  | Fuel => Fuel
  end.
Proof.
  unfold p_stmt, p_body. destruct (p_target fuel s) as [[os named] s1| |]; [|reflexivity|reflexivity].
  destruct (p_ltr fuel s1) as [e s2| |]; [|reflexivity|reflexivity].
  destruct (sc_eol (rest s2)) as [[m r]|]; reflexivity.
Qed.

Lemma body_roundtrip st (REST : str) fuel o b :
  expr_ok (ps_expr st) = true -> acts_ok (ps_acts st) = true -> eol_text_ok (ps_eol st) REST ->
  (cost (ps_expr st) + acts_cost (ps_acts st) < fuel)%nat ->
  p_body fuel (mkSt (print_body st ++ REST) o b) = Got (body_val st o) (mkSt REST (o + len (print_body st)) b).
Proof.
  intros He Ha Heol Hc. unfold p_body, print_body, p_ltr, p_ltr_with. norm.
  assert (Hf : expr_followb (print_acts (ps_acts st) ++ print_eol (ps_eol st) ++ REST) = true)
    by (unfold expr_followb; follow_tac Ha Heol).
  rewrite (expr_roundtrip (height (ps_expr st)) (ps_expr st) (le_n _) fuel _ o b He Hf) by lia.
  assert (Hl : ltr_followb (print_eol (ps_eol st) ++ REST) = true)
    by (unfold ltr_followb; follow_tac Ha Heol).
  rewrite (ltr_more_spec (ps_acts st) fuel fuel _ _ _ b Ha Hl);
    [| pose proof (acts_cost_length (ps_acts st)); lia | lia].
  cbn [rest]. rewrite (eol_roundtrip (ps_eol st) REST Heol). unfold adv, body_val. cbn [off bad].
  f_equal. f_equal. len_simp; lia.
Qed.

(** [(output_list hsp? r":?=" hsp?)?] when the statement has no outputs: nothing is consumed. *)
Lemma p_target_none st (REST : str) fuel o b :
  expr_ok (ps_expr st) = true -> acts_ok (ps_acts st) = true -> eol_text_ok (ps_eol st) REST ->
  (cost (ps_expr st) + acts_cost (ps_acts st) < fuel)%nat ->
  p_target fuel (mkSt (print_body st ++ REST) o b) = Got ([], false) (mkSt (print_body st ++ REST) o b).
Proof.
  intros He Ha Heol Hc. unfold print_body. norm.
  set (KK := print_eol (ps_eol st) ++ REST).
  assert (Hns : nosign_followb KK = true) by (unfold nosign_followb, KK; follow_tac Ha Heol).
  set (K := print_acts (ps_acts st) ++ KK).
  destruct (ps_expr st) as [a nm | nm w s0 first more trail s1 | s0 e acts s1] eqn:Ee.
  - (* reference: the name scanner runs to the end of the reference (or to a "/") *)
    cbn [cost] in Hc.
    assert (Hnf : name_followb K = true) by (unfold name_followb, K, KK; follow_tac Ha Heol).
    destruct (p_name_on_reference a nm K fuel o b He Hnf ltac:(lia)) as [[v1 v2] [H | [w' [R [o' [Hw' H]]]]]];
      unfold p_target, p_output_list; rewrite H.
    + unfold K. rewrite (outputs_more_spec (ps_acts st) fuel fuel KK _ b Ha (nosign_ltr KK Hns));
        [| pose proof (acts_cost_length (ps_acts st)); lia | lia].
      destruct (no_sign_after_hsp KK (o + len (print_expr (XRef a nm)) + len (print_acts (ps_acts st))) b Hns) as [N1 N2].
      destruct (skip_hsp (mkSt KK (o + len (print_expr (XRef a nm)) + len (print_acts (ps_acts st))) b)) as [w0 s2].
      cbn [snd] in N1, N2. rewrite N1, N2. reflexivity.
    + destruct fuel as [|f]; [lia|]. cbn [outputs_more].
      rewrite (skip_hsp_then w' 47 R o' b Hw' eq_refl). cbn [snd]. rewrite eat_miss by discriminate.
      rewrite (skip_hsp_then w' 47 R o' b Hw' eq_refl). rewrite !eat_miss by discriminate. reflexivity.
  - (* step: the output list stops at "(" *)
    cbn [cost] in Hc. cbn [expr_ok] in He. do 6 (apply andb_true_iff in He as [He ?H]).
    rewrite print_expr_step. norm. unfold p_target, p_output_list.
    rewrite (name_roundtrip nm fuel _ o b He (name_followb_hsp_then w 40 _ H4 eq_refl eq_refl eq_refl)) by lia.
    destruct fuel as [|f]; [lia|]. cbn [outputs_more].
    rewrite (skip_hsp_then w 40 _ _ b H4 eq_refl). cbn [snd]. rewrite eat_miss by discriminate.
    rewrite (skip_hsp_then w 40 _ _ b H4 eq_refl). rewrite !eat_miss by discriminate. reflexivity.
  - (* parenthesis: no name at all *)
    cbn [print_expr]. norm. unfold p_target, p_output_list.
    rewrite (p_name_fails_at 40 _ fuel o b eq_refl) by lia. reflexivity.
Qed.

Definition target_ok (t : option (name * list (str * str * name) * str * bool * str)) : bool :=
  match t with
  | None => true
  | Some (n0, more, w1, _, w2) => name_ok n0 && acts_ok more && hsp_run w1 && hsp_run w2
  end.

(** ... and when it has: the outputs with their offsets. *)
Lemma p_target_some n0 more w1 named w2 (BODY : str) fuel o b :
  target_ok (Some (n0, more, w1, named, w2)) = true -> stops is_hsp BODY ->
  (name_cost n0 + acts_cost more < fuel)%nat ->
  p_target fuel (mkSt (print_target (Some (n0, more, w1, named, w2)) ++ BODY) o b) =
  Got ((name_val n0, name_off n0 o) :: outs_val more (o + len (print_name n0)), named)
      (mkSt BODY (o + len (print_target (Some (n0, more, w1, named, w2)))) b).
Proof.
  intros Hok Hb Hc. cbn [target_ok] in Hok. apply andb_true_iff in Hok as [Hok Hw2].
  apply andb_true_iff in Hok as [Hok Hw1]. apply andb_true_iff in Hok as [Hn0 Hmore].
  cbn [print_target]. norm.
  set (sign := if named then [58; 61] else [61]).
  assert (Hsign : exists c r, sign = c :: r /\ (c = 58 \/ c = 61)).
  { unfold sign. destruct named; [exists 58, [61] | exists 61, []]; auto. }
  destruct Hsign as [c [r [Es Hc']]].
  assert (Hkk : ltr_followb (w1 ++ sign ++ w2 ++ BODY) = true).
  { rewrite Es. cbn [app]. unfold ltr_followb. apply andb_true_iff. split.
    - rewrite (span_app is_hsp w1 (c :: _) Hw1) by (destruct Hc' as [->| ->]; reflexivity).
      cbn [snd stopsb]. destruct Hc' as [->| ->]; reflexivity.
    - apply naked_stopb_ws_then; [exact (hsp_run_ws w1 Hw1) | destruct Hc' as [->| ->]; reflexivity]. }
  unfold p_target, p_output_list.
  rewrite (name_roundtrip n0 fuel _ o b Hn0 (acts_follow more _ Hmore Hkk)) by lia.
  rewrite (outputs_more_spec more fuel fuel _ _ b Hmore Hkk); [| pose proof (acts_cost_length more); lia | lia].
  unfold sign. destruct named; cbn [app].
  - rewrite (skip_hsp_then w1 58 _ _ b Hw1 eq_refl), eat_hit, eat_hit.
    rewrite (skip_hsp_run w2 BODY _ b Hw2 Hb). cbn [snd]. f_equal. f_equal. len_simp; lia.
  - rewrite (skip_hsp_then w1 61 _ _ b Hw1 eq_refl). rewrite eat_miss by discriminate. rewrite eat_hit.
    rewrite (skip_hsp_run w2 BODY _ b Hw2 Hb). cbn [snd]. f_equal. f_equal. len_simp; lia.
Qed.

Lemma print_body_stops_hsp st (REST : str) : expr_ok (ps_expr st) = true -> stops is_hsp (print_body st ++ REST).
Proof.
  intro He. unfold print_body. destruct (print_expr_head (ps_expr st) He) as [c [r [E Hc]]]. rewrite E.
  cbn [app stops]. destruct (is_hsp c) eqn:Eh; [|reflexivity].
  pose proof (hsp_is_ws c Eh) as W. pose proof (expr_head_not_ws c Hc). congruence.
Qed.

Lemma print_stmt_split st : print_stmt st = print_target (ps_first_out st) ++ print_body st.
Proof. unfold print_stmt, print_body. norm_app. reflexivity. Qed.

Theorem stmt_roundtrip st (REST : str) fuel o b :
  stmt_ok st = true -> eol_text_ok (ps_eol st) REST -> (stmt_cost st <= fuel)%nat ->
  p_stmt fuel (mkSt (print_stmt st ++ REST) o b) =
  Got (value_stmt st o) (mkSt REST (o + len (print_stmt st)) b).
Proof.
  intros Hok Heol Hc. unfold stmt_ok in Hok. apply andb_true_iff in Hok as [Hok _].
  apply andb_true_iff in Hok as [Hok Ha]. apply andb_true_iff in Hok as [Ht He].
  unfold stmt_cost in Hc. rewrite print_stmt_split, p_stmt_alt. unfold value_stmt.
  destruct (ps_first_out st) as [[[[[n0 more] w1] named] w2]|] eqn:Et.
  - rewrite <- app_assoc.
    rewrite (p_target_some n0 more w1 named w2 _ fuel o b Ht (print_body_stops_hsp st REST He)) by lia.
    rewrite (body_roundtrip st REST fuel _ b He Ha Heol) by lia.
    unfold body_val. f_equal. f_equal. len_simp; lia.
  - cbn [print_target app].
    rewrite (p_target_none st REST fuel o b He Ha Heol) by lia.
    rewrite (body_roundtrip st REST fuel _ b He Ha Heol) by lia. reflexivity.
Qed.

(** ** Recipes *)
Lemma p_stmt_fails_at_end fuel o b : (2 <= fuel)%nat -> p_stmt fuel (mkSt [] o b) = Fail.
Proof.
  intro Hf. destruct fuel as [|[|f]]; [lia|lia|].
  assert (Hn : forall g, (1 <= g)%nat -> p_name g (mkSt [] o b) = Fail).
  { intros g Hg. destruct g as [|g]; [lia|]. unfold p_name. rewrite p_string_unfold. reflexivity. }
  unfold p_stmt, p_target, p_output_list. rewrite (Hn (S (S f))) by lia.
  unfold p_ltr, p_ltr_with. cbn [p_expr]. unfold p_step. rewrite (Hn (S f)) by lia.
  unfold p_reference, p_amount, p_proportion. cbn [rest].
  assert (Hr : sc_remainder [] = None) by reflexivity. rewrite Hr.
  assert (Hp : p_number (mkSt [] o b) = None) by reflexivity. rewrite Hp.
  unfold p_explicit. rewrite eat_nil. unfold p_implicit. rewrite Hp. rewrite (Hn (S f)) by lia.
  rewrite eat_nil. reflexivity.
Qed.

Lemma print_stmt_stops_ws st (X : str) : stmt_ok st = true -> stops is_ws (print_stmt st ++ X).
Proof.
  intro Hok. unfold stmt_ok in Hok. apply andb_true_iff in Hok as [Hok _].
  apply andb_true_iff in Hok as [Hok _]. apply andb_true_iff in Hok as [Ht He].
  rewrite print_stmt_split. destruct (ps_first_out st) as [[[[[n0 more] w1] named] w2]|].
  - do 3 (apply andb_true_iff in Ht as [Ht _]). destruct (print_name_head n0 Ht) as [c [r [E Hc]]].
    cbn [print_target]. rewrite E. cbn [app stops]. exact (expr_head_not_ws c (seg_head_expr c Hc)).
  - cbn [print_target app]. unfold print_body. rewrite <- app_assoc. exact (print_expr_stops_ws _ _ He).
Qed.

Definition stmts_cost (l : list pstmt) : nat := fold_right (fun st n => Nat.max (stmt_cost st) n) 2%nat l.

Lemma stmts_more_spec : forall l n fuel o b,
  stmts_ok l = true -> (List.length l < n)%nat -> (stmts_cost l <= fuel)%nat ->
  stmts_more n fuel (mkSt (print_stmts l) o b) =
  Got (value_stmts l o) (mkSt [] (o + len (print_stmts l)) b).
Proof.
  induction l as [|st l IH]; intros n fuel o b Hok Hn Hc.
  - destruct n as [|n]; [cbn [List.length] in Hn; lia|]. unfold stmts_cost in Hc. cbn [fold_right] in Hc.
    unfold print_stmts. cbn [flat_map stmts_more value_stmts]. rewrite (p_stmt_fails_at_end fuel o b Hc), len_nil, N.add_0_r.
    reflexivity.
  - destruct n as [|n]; [cbn [List.length] in Hn; lia|]. cbn [List.length] in Hn.
    unfold stmts_cost in Hc. cbn [fold_right] in Hc. fold (stmts_cost l) in Hc.
    assert (Hst : stmt_ok st = true /\ stmts_ok l = true /\ eol_text_ok (ps_eol st) (print_stmts l)).
    { cbn [stmts_ok] in Hok. destruct l as [|st' l'].
      - split; [exact Hok|]. split; [reflexivity|]. split.
        + unfold stmt_ok in Hok. apply andb_true_iff in Hok as [_ He]. exact He.
        + destruct (snd (ps_eol st)); reflexivity.
      - apply andb_true_iff in Hok as [Hok Hl]. apply andb_true_iff in Hok as [Hs Hsome].
        split; [exact Hs|]. split; [exact Hl|]. split.
        + unfold stmt_ok in Hs. apply andb_true_iff in Hs as [_ He]. exact He.
        + destruct (snd (ps_eol st)); [|discriminate].
          assert (Hs' : stmt_ok st' = true) by (cbn [stmts_ok] in Hl; destruct l'; [exact Hl | apply andb_true_iff in Hl as [Hl _]; apply andb_true_iff in Hl as [Hl _]; exact Hl]).
          unfold print_stmts. cbn [flat_map]. exact (print_stmt_stops_ws st' _ Hs'). }
    destruct Hst as [Hs [Hl Heol]].
    unfold print_stmts. cbn [flat_map stmts_more value_stmts]. fold (print_stmts l).
    rewrite (stmt_roundtrip st (print_stmts l) fuel o b Hs Heol) by lia.
    rewrite (IH n fuel _ b Hl) by lia.
    f_equal. f_equal. len_simp; lia.
Qed.

(** The round trip: every permitted spelling of the quoted family parses back
    to exactly the abstract syntax it spells, with the offsets where the
    printer put the names and amounts. *)
Theorem recipe_roundtrip_fuel r fuel :
  recipe_ok r = true -> (List.length (pr_stmts r) < fuel)%nat -> (stmts_cost (pr_stmts r) <= fuel)%nat ->
  parse_with fuel (print_recipe r) = POk (value_recipe r).
Proof.
  intros Hok Hn Hc. unfold recipe_ok in Hok. apply andb_true_iff in Hok as [Hok Hs].
  apply andb_true_iff in Hok as [Hl Hne].
  unfold parse_with, p_recipe, print_recipe, value_recipe.
  assert (Hstop : stops is_ws (print_stmts (pr_stmts r))).
  { destruct (pr_stmts r) as [|st l] eqn:E; [exact I|]. unfold print_stmts. cbn [flat_map].
    apply print_stmt_stops_ws. cbn [stmts_ok] in Hs. destruct l; [exact Hs|].
    apply andb_true_iff in Hs as [Hs _]. apply andb_true_iff in Hs as [Hs _]. exact Hs. }
  rewrite (skip_sp_run (pr_lead r) _ 0 None Hl Hstop).
  rewrite (stmts_more_spec (pr_stmts r) fuel fuel _ None Hs Hn Hc).
  destruct (pr_stmts r) as [|st l] eqn:E; [discriminate Hne|]. cbn [value_stmts at_eof rest bad].
  rewrite N.add_0_l. reflexivity.
Qed.
