(** * Relative error of [b64] and the 2% test of the linter (C20). *)
From Coq Require Import List ZArith QArith Qabs Bool Lia Lqa.
From RG Require Import Base.Num Proofs.LintB64.
Import ListNotations.
Open Scope Z_scope.

(** 2^e as a rational. *)
Definition pw (e : Z) : Q := to_Q (NFloat 1 e).

Lemma pw_nonneg_exp e : 0 <= e -> pw e = (2 ^ e # 1).
Proof.
  intro E. unfold pw, to_Q, to_frac. replace (0 <=? e) with true by (symmetry; now apply Z.leb_le).
  now rewrite Z.mul_1_l.
Qed.

Lemma pw_neg_exp e : e < 0 -> pw e = (1 # Z.to_pos (2 ^ (- e))).
Proof.
  intro E. unfold pw, to_Q, to_frac. replace (0 <=? e) with false by (symmetry; now apply Z.leb_gt).
  reflexivity.
Qed.

Lemma pw_pos e : (0 < pw e)%Q.
Proof.
  destruct (Z_le_gt_dec 0 e) as [E|E].
  - rewrite pw_nonneg_exp by exact E. pose proof (pow2_pos' e E). unfold Qlt. cbn [Qnum Qden]. lia.
  - rewrite pw_neg_exp by lia. unfold Qlt. cbn [Qnum Qden]. lia.
Qed.

Lemma to_Q_float m e : (to_Q (NFloat m e) == inject_Z m * pw e)%Q.
Proof.
  destruct (Z_le_gt_dec 0 e) as [E|E].
  - rewrite pw_nonneg_exp by exact E. unfold to_Q, to_frac.
    replace (0 <=? e) with true by (symmetry; now apply Z.leb_le).
    unfold Qeq, inject_Z, Qmult. cbn [Qnum Qden]. lia.
  - rewrite pw_neg_exp by lia. unfold to_Q, to_frac.
    replace (0 <=? e) with false by (symmetry; apply Z.leb_gt; lia).
    unfold Qeq, inject_Z, Qmult. cbn [Qnum Qden]. lia.
Qed.

Lemma pw_succ e : (pw (e + 1) == 2 * pw e)%Q.
Proof.
  destruct (Z_le_gt_dec 0 e) as [E|E].
  - rewrite !pw_nonneg_exp by lia. rewrite Z.pow_add_r by lia. unfold Qeq, Qmult. cbn [Qnum Qden]. lia.
  - destruct (Z.eq_dec e (-1)) as [->|N].
    + reflexivity.
    + rewrite !pw_neg_exp by lia.
      assert (H : 2 ^ (- e) = 2 * 2 ^ (- (e + 1))).
      { replace (- e) with (1 + - (e + 1)) by ring. rewrite Z.pow_add_r by lia. reflexivity. }
      assert (P : 0 < 2 ^ (- (e + 1))) by (apply pow2_pos'; lia).
      unfold Qeq, Qmult. cbn [Qnum Qden]. rewrite Pos2Z.inj_mul, !Z2Pos.id by lia. lia.
Qed.

(** The scaled pair represents value / 2^e. *)
Lemma scaled_value n d e : 0 < d ->
  (n # Z.to_pos d == (fst (scaled n d e) # Z.to_pos (snd (scaled n d e))) * pw e)%Q.
Proof.
  intro Hd. unfold scaled. destruct (0 <=? e) eqn:E; cbn [fst snd].
  - apply Z.leb_le in E. pose proof (pow2_pos' e E). rewrite pw_nonneg_exp by exact E.
    unfold Qeq, Qmult. cbn [Qnum Qden]. rewrite Pos2Z.inj_mul, !Z2Pos.id by nia. ring.
  - apply Z.leb_gt in E. assert (0 < 2 ^ (- e)) by (apply pow2_pos'; lia). rewrite pw_neg_exp by exact E.
    unfold Qeq, Qmult. cbn [Qnum Qden]. rewrite Pos2Z.inj_mul, !Z2Pos.id by lia. ring.
Qed.

(** [canon] does not change the value. *)
Lemma canon_pos_value p : forall e m' e', canon_pos p e = (m', e') ->
  (inject_Z m' * pw e' == inject_Z (Zpos p) * pw e)%Q.
Proof.
  induction p as [p IH|p IH|]; intros e m' e' H; simpl in H; try (inversion H; subst; reflexivity).
  apply IH in H. rewrite H, pw_succ.
  assert (D : (inject_Z (Zpos p~0) == 2 * inject_Z (Zpos p))%Q)
    by (unfold inject_Z, Qeq, Qmult; cbn [Qnum Qden]; lia).
  rewrite D. ring.
Qed.

Lemma canon_value m e : (to_Q (canon m e) == inject_Z m * pw e)%Q.
Proof.
  unfold canon. destruct m as [|p|p].
  - unfold to_Q, Qeq. simpl. reflexivity.
  - destruct (canon_pos p e) as [m' e'] eqn:C. rewrite to_Q_float. now apply canon_pos_value.
  - destruct (canon_pos p e) as [m' e'] eqn:C. rewrite to_Q_float. apply canon_pos_value in C.
    change (inject_Z (Zneg p)) with (- inject_Z (Zpos p))%Q.
    assert (inject_Z (- m') == - inject_Z m')%Q by (unfold inject_Z, Qeq; simpl; ring).
    rewrite H. lra.
Qed.

(** Round-half-even division is within one half. *)
Lemma rne_div_half a b : 0 < b -> 2 * Z.abs (rne_div a b * b - a) <= b.
Proof.
  intro Hb. unfold rne_div.
  pose proof (Z.div_mod a b ltac:(lia)) as DM. pose proof (Z.mod_pos_bound a b Hb) as MB.
  assert (R : a - a / b * b = a mod b) by lia. rewrite R.
  destruct (2 * (a mod b) ?= b) eqn:C.
  - apply Z.compare_eq in C. destruct (Z.even (a / b)); lia.
  - assert (2 * (a mod b) < b) by (apply Z.compare_lt_iff; exact C). lia.
  - assert (b < 2 * (a mod b)) by (apply Z.compare_gt_iff; exact C). lia.
Qed.

(** ** Relative error of [b64] in the normal range *)

Lemma e1_normal n d : 0 < n -> 0 < d -> d <= n * 2 ^ 1022 -> -1074 <= e1_of n d.
Proof.
  intros Hn Hd Hv. destruct (Z_le_gt_dec (-1074) (e1_of n d)) as [|G]; [assumption|]. exfalso.
  pose proof (exp_spec n d Hn Hd) as [_ W].
  pose proof (g_antitone n d (e1_of n d) (-1075 - e1_of n d) Hn Hd ltac:(lia)) as A.
  replace (e1_of n d + (-1075 - e1_of n d)) with (-1075) in A by ring.
  assert (L : 2 ^ 53 <= g n d (-1075)).
  { unfold g, scaled. simpl. apply Z.div_le_lower_bound; [lia|].
    replace (2 ^ 1075) with (2 ^ 1022 * 2 ^ 53) by (rewrite <- Z.pow_add_r by lia; reflexivity). nia. }
  lia.
Qed.

Lemma Qabs_le_iff x y : (Qabs x <= y <-> - y <= x <= y)%Q.
Proof. apply Qabs_Qle_condition. Qed.

Lemma b64_pos_rel_error n d m e : 0 < n -> 0 < d -> d <= n * 2 ^ 1022 ->
  b64_pos n d = Some (m, e) ->
  (Qabs (inject_Z m * pw e - (n # Z.to_pos d)) <= (n # Z.to_pos d) * (1 # Z.to_pos (2 ^ 53)))%Q.
Proof.
  intros Hn Hd Hv. rewrite b64_pos_eq.
  pose proof (e1_normal n d Hn Hd Hv) as En. rewrite Z.max_l by lia.
  pose proof (exp_spec n d Hn Hd) as [W1 W2]. rewrite g_fst_snd in W1, W2.
  pose proof (scaled_value n d (e1_of n d) Hd) as V.
  destruct (scaled_pos n d (e1_of n d) Hn Hd) as [Ha Hb].
  unfold round_at. destruct (scaled n d (e1_of n d)) as [a b]. cbn [fst snd] in *.
  pose proof (rne_div_half a b Hb) as Hh. set (mr := rne_div a b) in *.
  assert (Alow : 2 ^ 52 * b <= a).
  { pose proof (Z.mul_div_le a b Hb). nia. }
  set (P := pw (e1_of n d)) in *. assert (Pp : (0 < P)%Q) by apply pw_pos.
  set (A := (a # Z.to_pos b)%Q) in *.
  assert (A52 : (inject_Z (2 ^ 52) <= A)%Q).
  { unfold A, inject_Z, Qle. cbn [Qnum Qden]. rewrite Z2Pos.id by lia. lia. }
  assert (Mh : (- (1 # 2) <= inject_Z mr - A <= (1 # 2))%Q).
  { unfold A, inject_Z, Qle, Qminus, Qplus, Qopp. cbn [Qnum Qden]. rewrite !Z2Pos.id by lia. split; lia. }
  assert (Core : (Qabs (inject_Z mr * P - (n # Z.to_pos d)) <= (n # Z.to_pos d) * (1 # Z.to_pos (2 ^ 53)))%Q).
  { rewrite V. apply Qabs_le_iff.
    assert (K : ((1 # Z.to_pos (2 ^ 53)) * inject_Z (2 ^ 52) == (1 # 2))%Q) by reflexivity.
    assert (Up : (0 < (1 # Z.to_pos (2 ^ 53)))%Q) by reflexivity.
    assert (T : ((1 # 2) * P <= A * P * (1 # Z.to_pos (2 ^ 53)))%Q).
    { rewrite <- K.
      setoid_replace ((1 # Z.to_pos (2 ^ 53)) * inject_Z (2 ^ 52) * P)%Q
        with (inject_Z (2 ^ 52) * (P * (1 # Z.to_pos (2 ^ 53))))%Q by ring.
      setoid_replace (A * P * (1 # Z.to_pos (2 ^ 53)))%Q with (A * (P * (1 # Z.to_pos (2 ^ 53))))%Q by ring.
      apply Qmult_le_compat_r; [exact A52|]. apply Qlt_le_weak. now apply Qmult_lt_0_compat. }
    destruct Mh as [Mh1 Mh2].
    assert (L1 : ((inject_Z mr - A) * P <= (1 # 2) * P)%Q) by (apply Qmult_le_compat_r; [exact Mh2 | now apply Qlt_le_weak]).
    assert (L2 : (- (1 # 2) * P <= (inject_Z mr - A) * P)%Q) by (apply Qmult_le_compat_r; [exact Mh1 | now apply Qlt_le_weak]).
    split; lra. }
  destruct (mr =? 2 ^ 53) eqn:C.
  - apply Z.eqb_eq in C. destruct (971 <? e1_of n d + 1); [discriminate|]. intro K. inversion K; subst m e.
    rewrite pw_succ. fold P. rewrite C in Core.
    assert (D : (inject_Z (2 ^ 52) * (2 * P) == inject_Z (2 ^ 53) * P)%Q).
    { assert (inject_Z (2 ^ 53) == 2 * inject_Z (2 ^ 52))%Q by reflexivity. rewrite H. ring. }
    rewrite D. exact Core.
  - destruct (971 <? e1_of n d); [discriminate|]. intro K. inversion K; subst m e. exact Core.
Qed.

(** A value of magnitude at least 2^-1022 is rounded with relative error at most 2^-53. *)
Definition u53 : Q := 1 # Z.to_pos (2 ^ 53).

Theorem b64_rel_error n d f : n <> 0 -> Zpos d <= Z.abs n * 2 ^ 1022 -> b64 n d = Some f ->
  (Qabs (to_Q f - (n # d)) <= Qabs (n # d) * u53)%Q.
Proof.
  intros Hn Hv. unfold b64. destruct n as [|p|p]; [congruence|..].
  - destruct (b64_pos (Zpos p) (Zpos d)) as [[m e]|] eqn:B; [|discriminate]. intro K; inversion K; subst.
    rewrite canon_value.
    pose proof (b64_pos_rel_error (Zpos p) (Zpos d) m e ltac:(lia) ltac:(lia) Hv B) as R.
    simpl Z.to_pos in R. rewrite (Qabs_pos (Zpos p # d)) by (unfold Qle; simpl; lia). exact R.
  - destruct (b64_pos (Zpos p) (Zpos d)) as [[m e]|] eqn:B; [|discriminate]. intro K; inversion K; subst.
    rewrite canon_value.
    pose proof (b64_pos_rel_error (Zpos p) (Zpos d) m e ltac:(lia) ltac:(lia) Hv B) as R.
    simpl Z.to_pos in R.
    assert (N : (Zneg p # d == - (Zpos p # d))%Q) by reflexivity.
    assert (M : (inject_Z (- m) == - inject_Z m)%Q) by (unfold inject_Z, Qeq; simpl; ring).
    rewrite N, M, Qabs_opp, (Qabs_pos (Zpos p # d)) by (unfold Qle; simpl; lia).
    setoid_replace (- inject_Z m * pw e - - (Zpos p # d))%Q with (- (inject_Z m * pw e - (Zpos p # d)))%Q by ring.
    rewrite Qabs_opp. exact R.
Qed.

(** ** No overflow for moderate values *)
Lemma e1_upper n d : 0 < n -> 0 < d -> n < d * 2 ^ 1000 -> e1_of n d < 948.
Proof.
  intros Hn Hd Hv. destruct (Z_lt_ge_dec (e1_of n d) 948) as [|G]; [assumption|]. exfalso.
  pose proof (exp_spec n d Hn Hd) as [W _].
  pose proof (g_antitone n d 948 (e1_of n d - 948) Hn Hd ltac:(lia)) as A.
  replace (948 + (e1_of n d - 948)) with (e1_of n d) in A by ring.
  assert (L : g n d 948 < 2 ^ 52).
  { unfold g, scaled. simpl Z.leb. cbv iota. apply Z.div_lt_upper_bound; [nia|].
    replace (d * 2 ^ 948 * 2 ^ 52) with (d * 2 ^ 1000) by (replace (2 ^ 1000) with (2 ^ 948 * 2 ^ 52) by (rewrite <- Z.pow_add_r by lia; reflexivity); ring).
    exact Hv. }
  lia.
Qed.

Lemma b64_pos_some n d : 0 < n -> 0 < d -> n < d * 2 ^ 1000 -> exists m e, b64_pos n d = Some (m, e).
Proof.
  intros Hn Hd Hv. rewrite b64_pos_eq. pose proof (e1_upper n d Hn Hd Hv) as U.
  unfold round_at. destruct (scaled n d (Z.max (e1_of n d) (-1074))) as [a b].
  destruct (rne_div a b =? 2 ^ 53).
  - replace (971 <? Z.max (e1_of n d) (-1074) + 1) with false by (symmetry; apply Z.ltb_ge; lia). eauto.
  - replace (971 <? Z.max (e1_of n d) (-1074)) with false by (symmetry; apply Z.ltb_ge; lia). eauto.
Qed.

Lemma b64_some n d : Z.abs n < Zpos d * 2 ^ 1000 -> exists f, b64 n d = Some f.
Proof.
  intro Hv. unfold b64. destruct n as [|p|p]; [eauto|..].
  - destruct (b64_pos_some (Zpos p) (Zpos d) ltac:(lia) ltac:(lia) Hv) as (m & e & ->). eauto.
  - destruct (b64_pos_some (Zpos p) (Zpos d) ltac:(lia) ltac:(lia) Hv) as (m & e & ->). eauto.
Qed.
