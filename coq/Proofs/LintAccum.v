(** * Rounding-error analysis of the linter's accumulator (C20).

    [used_proportion] starts at 0.0 and every use adds one term: the term is
    rounded to binary64 and the sum is rounded again.  With eps = 2^-53 the
    error obeys  E' <= (1 + eps) E + 3 eps (S + p),  hence after i uses
    |used - S| <= 4 i eps (S + 1)  ([bnd]), as long as i <= 2^20.  A remainder
    either leaves the accumulator alone (more than everything used) or sets
    both the float and the exact sum to exactly 1 ([pinned]).  If every
    decision of the exact run is at least 2e-9 * (S + 1) away from its
    boundary ([decisive_Q]) the float run takes the same decisions, and the
    final 2% test agrees by Proofs/LintTolerance.v. *)
From Coq Require Import List ZArith QArith Qabs Bool Lia Lqa.
From RG Require Import Base.Str Base.Num Model.Recipe Model.Units Model.Lint Spec.LintSpec
  Proofs.RecipeScale Proofs.LintB64 Proofs.LintTol Proofs.LintProofs Proofs.LintTolerance.
Import ListNotations.
Open Scope Q_scope.

(** One accumulated term: neither absurdly small nor large. *)
Definition tiny : Q := 1 # 100000000000000000.       (* 1e-17 *)
Definition term_ok (p : Q) : Prop := tiny <= p /\ p <= 1000000.

Lemma exact_add_Q a b n d : exact_add a b = (n, d) -> (n # d) == to_Q a + to_Q b.
Proof.
  unfold exact_add, to_Q. destruct (to_frac a) as [n1 d1], (to_frac b) as [n2 d2].
  intro H. inversion H; subst. unfold Qeq, Qplus. cbn [Qnum Qden]. rewrite !Pos2Z.inj_mul. ring.
Qed.

(** round_q on a moderate positive value, with a smaller lower limit. *)
Lemma round_q_pos n d :
  e9 * e9 <= (n # d) -> (n # d) <= 1000000000 ->
  exists f, round_q n d = NOk f /\ is_float f = true /\
            (n # d) * (1 - u53) <= to_Q f /\ to_Q f <= (n # d) * (1 + u53).
Proof.
  intros L H. destruct (round_q_moderate n d L H) as (f & R & A & B).
  exists f. split; [exact R|]. split; [eapply round_q_is_float; eauto | split; assumption].
Qed.

(** [used += term] where the term is the rational n/d: two roundings. *)
Lemma acc_step u n d :
  is_float u = true -> 0 <= to_Q u -> to_Q u <= 2000000 -> term_ok (n # d) ->
  exists u', acc u (round_q n d) = NOk u' /\ is_float u' = true /\
    (to_Q u + (n # d) * (1 - u53)) * (1 - u53) <= to_Q u' /\
    to_Q u' <= (to_Q u + (n # d) * (1 + u53)) * (1 + u53).
Proof.
  intros Hf U0 Uh [T1 T2]. unfold tiny in T1.
  destruct u53_small as [E1 E2].
  destruct (round_q_pos n d) as (f & R & Ff & F1 & F2).
  { eapply Qle_trans; [|exact T1]. unfold e9. discriminate. }
  { eapply Qle_trans; [exact T2|]. discriminate. }
  rewrite R. simpl acc. rewrite (nadd_float_l u f Hf). unfold float_add.
  rewrite (to_float_float u Hf), (to_float_float f Ff).
  destruct (exact_add u f) as [N D] eqn:EA. pose proof (exact_add_Q _ _ _ _ EA) as W.
  assert (Flow : tiny * (1 - u53) <= to_Q f).
  { eapply Qle_trans; [|exact F1]. apply Qmult_le_compat_r; [exact T1|]. lra. }
  unfold tiny in Flow.
  destruct (round_q_pos N D) as (u' & R' & Fu' & G1 & G2).
  { rewrite W. unfold e9. change u53 with (1 # 9007199254740992) in *. lra. }
  { rewrite W. change u53 with (1 # 9007199254740992) in *. lra. }
  exists u'. split; [exact R'|]. split; [exact Fu'|]. rewrite W in G1, G2.
  change u53 with (1 # 9007199254740992) in *. split; lra.
Qed.

Definition qn (i : nat) : Q := inject_Z (Z.of_nat i).
Definition eps4 : Q := 4 # 9007199254740992.
(** The proved error bound after [i] uses with exact sum [S]: 4 i 2^-53 (S + 1). *)
Definition bnd (i : nat) (S : Q) : Q := qn i * (S + 1) * eps4.

Lemma qn_nonneg i : 0 <= qn i.
Proof. unfold qn, inject_Z, Qle. simpl. lia. Qed.

Lemma qn_succ i : qn (S i) == qn i + 1.
Proof. unfold qn. rewrite Nat2Z.inj_succ. unfold inject_Z, Qeq, Qplus. simpl. lia. Qed.

Lemma qn_le i j : (i <= j)%nat -> qn i <= qn j.
Proof. intro H. unfold qn, inject_Z, Qle. simpl. lia. Qed.

Lemma qn_cap i : (Z.of_nat i <= 1048576)%Z -> qn i <= 1048576.
Proof. intro H. unfold qn, inject_Z, Qle. simpl. lia. Qed.

Lemma bnd_nonneg i S : 0 <= S -> 0 <= bnd i S.
Proof.
  intro H. unfold bnd, eps4. pose proof (qn_nonneg i).
  assert (0 <= qn i * (S + 1)) by (apply Qmult_le_0_compat; lra).
  assert (0 <= (4 # 9007199254740992)) by discriminate. apply Qmult_le_0_compat; assumption.
Qed.

Lemma bnd_small i S : (Z.of_nat i <= 1048576)%Z -> 0 <= S -> bnd i S <= (1 # 2147483648) * (S + 1).
Proof.
  intros Hi HS. unfold bnd, eps4. pose proof (qn_nonneg i). pose proof (qn_cap i Hi).
  assert (qn i * (S + 1) <= 1048576 * (S + 1)) by (apply Qmult_le_compat_r; lra).
  lra.
Qed.

Lemma bnd_mono i S S' : 0 <= S -> S <= S' -> bnd i S <= bnd i S'.
Proof.
  intros H0 H. unfold bnd, eps4. pose proof (qn_nonneg i).
  assert (qn i * (S + 1) <= qn i * (S' + 1)).
  { rewrite !(Qmult_comm (qn i)). apply Qmult_le_compat_r; lra. }
  lra.
Qed.

Lemma bnd_succ_ge i S : 0 <= S -> bnd i S <= bnd (Datatypes.S i) S.
Proof.
  intro H. unfold bnd, eps4. rewrite qn_succ. pose proof (qn_nonneg i).
  assert (qn i * (S + 1) <= (qn i + 1) * (S + 1)) by (apply Qmult_le_compat_r; lra). lra.
Qed.

(** One more use: the error recurrence E' <= (1+eps) E + 3 eps (S + p). *)
Lemma bnd_step i S p : (Z.of_nat i < 1048576)%Z -> 0 <= S -> 0 <= p ->
  (1 + u53) * bnd i S + 3 * u53 * (S + p) <= bnd (Datatypes.S i) (S + p).
Proof.
  intros Hi HS Hp. unfold bnd, eps4. rewrite qn_succ. change u53 with (1 # 9007199254740992).
  pose proof (qn_nonneg i) as I0. pose proof (qn_cap i ltac:(lia)) as I1.
  set (I := qn i) in *.
  assert (P1 : 0 <= I * p) by (apply Qmult_le_0_compat; assumption).
  assert (P2 : I * (S + 1) <= 1048576 * (S + 1)) by (apply Qmult_le_compat_r; lra).
  assert (P3 : 0 <= I * (S + 1)) by (apply Qmult_le_0_compat; lra).
  setoid_replace ((I + 1) * (S + p + 1)) with (I * (S + 1) + I * p + (S + p + 1)) by ring.
  set (X := I * (S + 1)) in *. set (Y := I * p) in *. lra.
Qed.

(** ** Decisive runs (specification side) *)
Definition dq : Q := 2 # 1000000000.
(** [S] is at least 2e-9 * (S + 1) away from [c]. *)
Definition away (S c : Q) : Prop := dq * (S + 1) <= Qabs (S - c).

(** [pinned]: the last arithmetic event was a remainder that raised the sum to
    exactly 1 (then the float is exactly 1.0 too). *)
Fixpoint dec (pinned : bool) (S : Q) (us : list use) {struct us} : Prop :=
  match us with
  | [] => if pinned then True
          else (S == 0 \/ dq <= S) /\ away S (98 # 100) /\ away S 1 /\ away S (100 # 98)
  | UProportion p :: r => term_ok p /\ S + p <= 500000 /\ dec false (S + p) r
  | UQuantity p :: r => term_ok p /\ S + p <= 500000 /\ dec false (S + p) r
  | URemainder :: r =>
      if pinned then dec true S r
      else away S 1 /\ dec (negb (Qle_bool 1 S)) (if Qle_bool 1 S then S else 1) r
  | UIncompatible :: r => dec pinned S r
  | UUnknown :: r => dec pinned S r
  end.

Definition decisive_Q (us : list use) : Prop := dec false 0 us.

(** The numbers involved in a use are ints / Fractions and the unit conversion factor is exact. *)
Definition ref_exact (total : option quantity) (r : node) : Prop :=
  match r with
  | Reference _ _ (AQty q) =>
      match total with
      | Some tq => exact (q_value q) /\ exact (q_value tq) /\ use_exact total r
      | None => True
      end
  | Reference _ _ (AProp (PropVal v _ _)) => exact v
  | _ => True
  end.

(** ** The invariant between the float run and the exact run *)
Definition inv (i : nat) (pinned : bool) (st : lstate) (s : sstate) : Prop :=
  let '(sm, problem, out) := s in
  is_float (st_used st) = true /\ 0 <= to_Q (st_used st) /\ 0 <= sm /\ sm <= 500000 /\
  Qabs (to_Q (st_used st) - sm) <= bnd i sm /\
  (pinned = true -> to_Q (st_used st) == 1 /\ sm == 1) /\
  (sm == 0 -> to_Q (st_used st) == 0) /\
  st_problem st = problem /\ kinds (st_out st) = out.

Lemma to_float_exact x : exact x -> to_float x = round_q (fst (to_frac x)) (snd (to_frac x)).
Proof.
  unfold exact. destruct x as [z|n d|m e]; try discriminate; intros _; unfold to_float, round_q;
    destruct (to_frac _) as [n0 d0]; reflexivity.
Qed.

Lemma nadd_exact_acc u x : is_float u = true -> exact x ->
  nadd u x = acc u (round_q (fst (to_frac x)) (snd (to_frac x))).
Proof.
  intros Hu Hx. rewrite (nadd_float_l u x Hu). unfold float_add. rewrite (to_float_exact x Hx).
  destruct (round_q _ _) as [f| |] eqn:R; simpl.
  - rewrite (nadd_float_l u f Hu). unfold float_add.
    rewrite (to_float_float f (round_q_is_float _ _ _ R)). reflexivity.
  - exfalso. eapply round_q_not_zerodiv; eauto.
  - destruct (to_float_cases u) as [[fa ->]| ->]; reflexivity.
Qed.

(** Adding one term keeps the invariant. *)
Lemma inv_add i pinned st S problem out n d p u' :
  (Z.of_nat i < 1048576)%Z -> inv i pinned st (S, problem, out) ->
  (n # d) == p -> term_ok p -> S + p <= 500000 ->
  acc (st_used st) (round_q n d) = NOk u' ->
  inv (Datatypes.S i) false (mkSt (st_problem st) u' (st_out st)) (S + p, problem, out).
Proof.
  intros Hi (Hf & U0 & S0 & Sh & E & Pin & Z0 & Pr & Ko) Hp Tk Sp A.
  assert (Tk' : term_ok (n # d)) by (destruct Tk; split; rewrite Hp; assumption).
  pose proof (bnd_small i S ltac:(lia) S0) as Bs.
  apply Qabs_le_iff in E.
  destruct (acc_step (st_used st) n d Hf U0) as (u2 & A2 & F2 & L & H); [lra | exact Tk'|].
  rewrite A in A2. inversion A2; subst u2. clear A2.
  destruct Tk as [T1 T2]. unfold tiny in T1.
  pose proof (bnd_step i S p Hi S0 ltac:(lra)) as St.
  rewrite Hp in L, H.
  unfold inv. cbn [st_used st_problem st_out]. repeat split; try assumption; try discriminate.
  - change u53 with (1 # 9007199254740992) in *. lra.
  - lra.
  - apply Qabs_le_iff. change u53 with (1 # 9007199254740992) in *. split; lra.
  - intro Z. exfalso. lra.
Qed.

Lemma inv_problem i pinned st sm problem out kd name :
  inv i pinned st (sm, problem, out) ->
  inv (Datatypes.S i) pinned (mkSt true (st_used st) (st_out st ++ [(kd, name)])) (sm, true, out ++ [kd]).
Proof.
  intros (Hf & U0 & S0 & Sh & E & Pin & Z0 & Pr & Ko). unfold inv. cbn [st_used st_problem st_out].
  repeat split; try assumption.
  - eapply Qle_trans; [exact E | now apply bnd_succ_ge].
  - now apply Pin.
  - now apply Pin.
  - now rewrite kinds_snoc, Ko.
Qed.

Lemma frac_to_Q v : (fst (to_frac v) # snd (to_frac v)) == to_Q v.
Proof. unfold to_Q. destruct (to_frac v); reflexivity. Qed.

Lemma to_Q_f_one : to_Q f_one == 1.
Proof. reflexivity. Qed.

Lemma ref_step_inv name total i pinned st sm problem out r u rest :
  (Z.of_nat i < 1048576)%Z -> inv i pinned st (sm, problem, out) ->
  use_of total r = Some u -> ref_exact total r -> dec pinned sm (u :: rest) ->
  exists st' pinned',
    ref_step name total st r = LOk st' /\
    inv (Datatypes.S i) pinned' st' (spec_step (sm, problem, out) u) /\
    dec pinned' (fst (fst (spec_step (sm, problem, out) u))) rest.
Proof.
  intros Hi I U X D.
  destruct r as [dd q|dd ins|sr j a|b ns sh]; try discriminate.
  destruct a as [q|[v pc pr|w pr]]; simpl in U.
  - (* a quantity *)
    destruct total as [tq|].
    + destruct (num_eqb (q_value tq) (NInt 0)) eqn:Hz.
      * inversion U; subst u. exists (mkSt true (st_used st) (st_out st ++ [(sub_recipe_quantity_unknown, name)])), pinned.
        split; [simpl; now rewrite Hz|]. split; [eapply inv_problem; exact I | exact D].
      * destruct (conversion q tq) as [c|[e|]] eqn:Cq; [| discriminate |].
        -- inversion U; subst u. clear U. simpl in X. rewrite Cq in X. destruct X as (Ev & Et & Ec).
           destruct D as (Tk & Sp & D).
           destruct (nmul_exact (q_value q) c Ev Ec) as (qu & Hqu & Equ & Qqu).
           pose proof I as (Hf & U0 & S0 & Sh & E & Pin & Z0 & Pr & Ko).
           pose proof (num_eqb_zero _ Hz) as Hz'.
           destruct (exact_div_some qu (q_value tq) Hz') as (n & d & Ed).
           assert (Hp : (n # d) == to_Q (q_value q) * to_Q c / to_Q (q_value tq)).
           { rewrite (exact_div_Q _ _ _ _ Ed), Qqu. reflexivity. }
           assert (Tk' : term_ok (n # d)) by (destruct Tk; split; rewrite Hp; assumption).
           pose proof (bnd_small i sm ltac:(lia) S0) as Bs. pose proof E as E'. apply Qabs_le_iff in E'.
           destruct (acc_step (st_used st) n d Hf U0) as (u' & A & _); [lra | exact Tk'|].
           exists (mkSt (st_problem st) u' (st_out st)), false. split.
           ++ rewrite (ref_step_chain name tq st sr j q c Hz Cq), (chain_acc _ _ _ _ _ Hqu).
              rewrite (acc_ndiv_exact _ _ _ Hf Equ Et), Ed, A. reflexivity.
           ++ split; [|exact D]. eapply (inv_add i pinned st sm problem out n d); eauto.
        -- inversion U; subst u.
           exists (mkSt true (st_used st) (st_out st ++ [(sub_recipe_reference_incompatible_units, name)])), pinned.
           split; [simpl; now rewrite Hz, Cq|]. split; [eapply inv_problem; exact I | exact D].
    + inversion U; subst u. exists (mkSt true (st_used st) (st_out st ++ [(sub_recipe_quantity_unknown, name)])), pinned.
      split; [reflexivity|]. split; [eapply inv_problem; exact I | exact D].
  - (* a proportion *)
    inversion U; subst u. clear U. simpl in X. destruct D as (Tk & Sp & D).
    pose proof I as (Hf & U0 & S0 & Sh & E & Pin & Z0 & Pr & Ko).
    pose proof (frac_to_Q v) as Hp.
    assert (Tk' : term_ok (fst (to_frac v) # snd (to_frac v))) by (destruct Tk; split; rewrite Hp; assumption).
    pose proof (bnd_small i sm ltac:(lia) S0) as Bs. pose proof E as E'. apply Qabs_le_iff in E'.
    destruct (acc_step (st_used st) (fst (to_frac v)) (snd (to_frac v)) Hf U0) as (u' & A & _); [lra | exact Tk'|].
    exists (mkSt (st_problem st) u' (st_out st)), false. split.
    + simpl. rewrite (nadd_exact_acc _ _ Hf X), A. reflexivity.
    + split; [|exact D]. eapply (inv_add i pinned st sm problem out); eauto.
  - (* the remainder *)
    inversion U; subst u. clear U.
    pose proof I as (Hf & U0 & S0 & Sh & E & Pin & Z0 & Pr & Ko).
    simpl ref_step. rewrite num_leb_one, num_ltb_one. cbn [spec_step].
    destruct pinned.
    + destruct (Pin eq_refl) as [P1 P2]. simpl in D.
      assert (A1 : 1 <= to_Q (st_used st)) by lra. assert (A2 : to_Q (st_used st) <= 1) by lra.
      assert (A3 : 1 <= sm) by lra.
      rewrite (Qle_bool_true _ _ A1), (Qle_bool_true _ _ A2), (Qle_bool_true _ _ A3).
      eexists. exists true. split; [reflexivity|]. split; [|exact D].
      unfold inv. cbn [st_used st_problem st_out negb fst]. repeat split; try assumption; try reflexivity.
      * discriminate.
      * change (to_Q f_one) with 1. apply Qabs_le_iff. pose proof (bnd_nonneg (Datatypes.S i) sm S0). split; lra.
      * intro Z. exfalso. lra.
      * now rewrite kinds_snoc, Ko.
    + simpl in D. destruct D as (Aw & D). unfold away, dq in Aw.
      pose proof (bnd_small i sm ltac:(lia) S0) as Bs. apply Qabs_le_iff in E.
      destruct (Qle_bool 1 sm) eqn:L1.
      * apply Qle_bool_iff in L1. rewrite Qabs_pos in Aw by lra.
        rewrite (Qle_bool_true 1 (to_Q (st_used st))) by lra.
        rewrite (Qle_bool_false (to_Q (st_used st)) 1) by lra.
        eexists. exists false. split; [reflexivity|]. split; [|exact D].
        unfold inv. cbn [st_used st_problem st_out negb fst]. repeat split; try assumption; try discriminate.
        -- apply Qabs_le_iff. pose proof (bnd_succ_ge i sm S0). split; lra.
        -- now rewrite kinds_snoc, Ko.
      * assert (L1' : sm < 1).
        { destruct (Qlt_le_dec sm 1) as [K|K]; [exact K|]. apply Qle_bool_iff in K. congruence. }
        rewrite Qabs_neg in Aw by lra.
        rewrite (Qle_bool_false 1 (to_Q (st_used st))) by lra.
        rewrite (Qle_bool_true (to_Q (st_used st)) 1) by lra.
        eexists. exists true. split; [reflexivity|]. split; [|exact D].
        unfold inv. cbn [st_used st_problem st_out negb fst]. repeat split; try assumption; try reflexivity; try discriminate.
Qed.

Lemma refs_fold_inv name total : forall refs us,
  Forall2 (fun r u => use_of total r = Some u) refs us ->
  forall i pinned st s,
  (Z.of_nat (i + length us) <= 1048576)%Z -> inv i pinned st s -> Forall (ref_exact total) refs ->
  dec pinned (fst (fst s)) us ->
  exists st' pinned',
    refs_fold name total st refs = LOk st' /\
    inv (i + length us) pinned' st' (fold_left spec_step us s) /\
    dec pinned' (fst (fst (fold_left spec_step us s))) [].
Proof.
  induction 1 as [|r u refs us Hu _ IH]; intros i pinned st s Hl I X D.
  - exists st, pinned. simpl. rewrite Nat.add_0_r. auto.
  - destruct s as [[sm problem] out]. inversion X as [|? ? X1 X2]; subst. simpl in Hl.
    destruct (ref_step_inv name total i pinned st sm problem out r u us ltac:(lia) I Hu X1 D)
      as (st1 & p1 & E1 & I1 & D1).
    destruct (IH (Datatypes.S i) p1 st1 _ ltac:(lia) I1 X2 D1) as (st' & p' & E' & I' & D').
    exists st', p'. simpl. rewrite E1. split; [exact E'|].
    replace (i + Datatypes.S (length us))%nat with (Datatypes.S i + length us)%nat by lia. auto.
Qed.

(** Stability of the final classification under a small perturbation. *)
Lemma away_transfer S c u m dl : m <= Qabs (S - c) -> Qabs (u - S) <= dl -> m - dl <= Qabs (u - c).
Proof.
  intros A B. pose proof (Qabs_triangle (S - u) (u - c)) as T.
  setoid_replace (S - u + (u - c)) with (S - c) in T by ring.
  assert (Qabs (S - u) == Qabs (u - S)).
  { setoid_replace (S - u) with (- (u - S)) by ring. apply Qabs_opp. }
  lra.
Qed.

Lemma spec_final_stable u S :
  0 <= S -> Qabs (u - S) <= (1 # 2147483648) * (S + 1) ->
  away S (98 # 100) -> away S 1 -> away S (100 # 98) ->
  spec_final u = spec_final S.
Proof.
  intros S0 E A98 A1 A102. unfold away, dq in *. apply Qabs_le_iff in E.
  assert (W : forall x y, within_2_percent x = within_2_percent y -> Qle_bool 1 x = Qle_bool 1 y ->
                     spec_final x = spec_final y).
  { intros x y H1 H2. unfold spec_final. now rewrite H1, H2. }
  apply W; unfold within_2_percent.
  - destruct (Qlt_le_dec S 1) as [Lt|Ge].
    + rewrite Qabs_neg in A1 by lra.
      rewrite (Qle_bool_false 1 S) by lra. rewrite (Qle_bool_false 1 u) by lra.
      rewrite (Qabs_neg (S - 1)) by lra. rewrite (Qabs_neg (u - 1)) by lra.
      destruct (Qlt_le_dec S (98 # 100)) as [L|G].
      * rewrite Qabs_neg in A98 by lra.
        rewrite (Qle_bool_false (- (u - 1))) by lra. rewrite (Qle_bool_false (- (S - 1))) by lra. reflexivity.
      * rewrite Qabs_pos in A98 by lra.
        rewrite (Qle_bool_true (- (u - 1))) by lra. rewrite (Qle_bool_true (- (S - 1))) by lra. reflexivity.
    + rewrite Qabs_pos in A1 by lra.
      rewrite (Qle_bool_true 1 S) by lra. rewrite (Qle_bool_true 1 u) by lra.
      rewrite (Qabs_pos (S - 1)) by lra. rewrite (Qabs_pos (u - 1)) by lra.
      destruct (Qlt_le_dec S (100 # 98)) as [L|G].
      * rewrite Qabs_neg in A102 by lra.
        rewrite (Qle_bool_true (u - 1)) by lra. rewrite (Qle_bool_true (S - 1)) by lra. reflexivity.
      * rewrite Qabs_pos in A102 by lra.
        rewrite (Qle_bool_false (u - 1)) by lra. rewrite (Qle_bool_false (S - 1)) by lra. reflexivity.
  - destruct (Qlt_le_dec S 1) as [Lt|Ge].
    + rewrite Qabs_neg in A1 by lra. rewrite (Qle_bool_false 1 S) by lra. rewrite (Qle_bool_false 1 u) by lra. reflexivity.
    + rewrite Qabs_pos in A1 by lra. rewrite (Qle_bool_true 1 S) by lra. rewrite (Qle_bool_true 1 u) by lra. reflexivity.
Qed.

Lemma decisive_of_exact u S :
  0 <= S -> S <= 500000 -> 0 <= u -> (S == 0 -> u == 0) ->
  Qabs (u - S) <= (1 # 2147483648) * (S + 1) ->
  (S == 0 \/ dq <= S) -> away S (98 # 100) -> away S 1 -> away S (100 # 98) ->
  decisive u.
Proof.
  intros S0 Sh U0 Z E Zs A98 A1 A102. unfold away, dq in *.
  pose proof (away_transfer S (98 # 100) u _ _ A98 E) as T98.
  pose proof (away_transfer S 1 u _ _ A1 E) as T1.
  pose proof (away_transfer S (100 # 98) u _ _ A102 E) as T102.
  apply Qabs_le_iff in E. unfold decisive, e9. repeat split.
  - destruct Zs as [Z0|Z0]; [left; now apply Z | right; lra].
  - lra.
  - right. lra.
  - lra.
  - lra.
Qed.

Lemma decisive_one u : u == 1 -> decisive u.
Proof.
  intro H. unfold decisive, e9. repeat split.
  - right. rewrite H. discriminate.
  - rewrite H. discriminate.
  - now left.
  - rewrite H. discriminate.
  - rewrite H. discriminate.
Qed.

(** ** The verdict of the float run equals the exact-rational verdict. *)
Theorem verdict_spec_full sr idx refs us l :
  output_lints sr idx refs = LOk l ->
  Forall2 (fun r u => use_of (total_quantity sr) r = Some u) refs us ->
  Forall (ref_exact (total_quantity sr)) refs ->
  (Z.of_nat (length us) <= 1048576)%Z -> decisive_Q us ->
  kinds l = verdict_spec us.
Proof.
  unfold output_lints. destruct sr as [d q | d ins | sr0 i a | b ns sh]; try discriminate.
  destruct (nth_error ns idx) as [nm|]; [|discriminate]. destruct (svs_text nm) as [name|]; [|discriminate].
  intros E F X Hl D.
  assert (I0 : inv 0 false (mkSt false f_zero []) (0, false, [])).
  { unfold inv. cbn [st_used st_problem st_out]. repeat split; try reflexivity; try discriminate. }
  destruct (refs_fold_inv name _ refs us F 0%nat false _ _ ltac:(simpl; lia) I0 X D) as (st & pin & R & I & Df).
  rewrite R in E. unfold verdict_spec, spec_fold.
  destruct (fold_left spec_step us (0, false, [])) as [[sm problem] out]. simpl in Df.
  destruct I as (Hf & U0 & S0 & Sh & Eb & Pin & Z0 & <- & <-).
  destruct (st_problem st).
  - inversion E; subst. reflexivity.
  - pose proof (bnd_small (0 + length us) sm Hl S0) as Bs.
    assert (Agree : decisive (to_Q (st_used st)) /\ spec_final (to_Q (st_used st)) = spec_final sm).
    { destruct pin.
      - destruct (Pin eq_refl) as [P1 P2]. split; [now apply decisive_one|].
        apply spec_final_eq. rewrite P1, P2. reflexivity.
      - destruct Df as (Zs & A98 & A1 & A102).
        assert (Eb' : Qabs (to_Q (st_used st) - sm) <= (1 # 2147483648) * (sm + 1)) by lra.
        split; [eapply decisive_of_exact; eauto | now apply spec_final_stable]. }
    destruct Agree as [Dc Sf].
    destruct (final_verdict name (st_used st)) as [v|e] eqn:Fv; [|discriminate]. inversion E; subst.
    rewrite <- Sf, <- (final_verdict_spec name _ v (decisive_tolerance _ Hf Dc) Fv).
    unfold kinds. now rewrite map_app.
Qed.
