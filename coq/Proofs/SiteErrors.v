(** * When construction fails with MaxServingsLowerThanLargestRecipeError (C15). *)
From Coq Require Import List NArith Bool Arith Lia String.
From RG Require Import Base.Str Base.Dec Model.Url Model.Href Model.Fs Model.Site Spec.SiteSpec
  Proofs.FsTree Proofs.SiteLinks Proofs.SiteHeap Proofs.SiteBuild.
Import ListNotations.
Open Scope list_scope.
Open Scope N_scope.

Section Errors.
Variable E : env.

Fixpoint wf_subs (dp : path) (l0 : list stree) : Prop :=
  match l0 with
  | [] => True
  | e :: r => match e with SDir n _ _ => tree_wf E e (dp ++ [n]) /\ wf_subs dp r | _ => wf_subs dp r end
  end.

Lemma tree_wf_eq nm rn es dp :
  tree_wf E (SDir nm rn es) dp <->
  exists l, enumerate E dp rn es = Ok l /\ (forall nd, In nd (l_recipes l) -> doc_ok E (snd nd)) /\ wf_subs dp es.
Proof.
  cbn [tree_wf].
  assert (H : forall l0, (fix subs (l0 : list stree) : Prop :=
                             match l0 with
                             | [] => True
                             | e :: r => match e with SDir n _ _ => tree_wf E e (dp ++ [n]) /\ subs r | _ => subs r end
                             end) l0 <-> wf_subs dp l0).
  { induction l0 as [|e r IHr]; [reflexivity|]. destruct e; cbn [wf_subs]; try exact IHr. rewrite IHr. reflexivity. }
  split; intros (l & H1 & H2 & H3); exists l; repeat split; auto; apply H; exact H3.
Qed.

Fixpoint nat_subs (dp : path) (l0 : list stree) : list N :=
  match l0 with
  | [] => []
  | e :: r => match e with SDir n _ _ => tree_natives E e (dp ++ [n]) ++ nat_subs dp r | _ => nat_subs dp r end
  end.

Definition own_natives (rs : list (str * option bytes)) : list N :=
  flat_map (fun nd => match native_of E (snd nd) with Some nv => [nv] | None => [] end) rs.

Lemma tree_natives_eq nm rn es dp :
  tree_natives E (SDir nm rn es) dp =
  match enumerate E dp rn es with Ok l => own_natives (l_recipes l) | Err _ => [] end ++ nat_subs dp es.
Proof.
  cbn [tree_natives]. f_equal. induction es as [|e r IHr]; [reflexivity|].
  destruct e; cbn [nat_subs]; try exact IHr. rewrite IHr. reflexivity.
Qed.

(** *** scaled passes never fail on a well-formed tree *)

Lemma scaled_refs_ok j dp mes : forall rs,
  (forall nd, In nd rs -> doc_ok E (snd nd)) -> exists refs, pure_refs_scaled E j dp mes rs = Ok refs.
Proof.
  induction rs as [|[name data] rs IH]; intro Hok; [exists []; reflexivity|].
  cbn [pure_refs_scaled].
  destruct (Hok (name, data) (or_introl eq_refl)) as (doc & title & Hc & Ht & Hs). simpl in Hc.
  assert (Hf : exists ref o, from_recipe_source E (N.of_nat (S j)) (dp ++ [name]) data (mes (Some (N.of_nat (S j))))
                   (or_nil (expected E mes (dp ++ [name]) data j)) = Ok (ref, o)).
  { unfold from_recipe_source, expected. rewrite Hc. cbn [bind]. unfold page_of_doc. rewrite Ht.
    destruct (d_servings doc) as [nv|] eqn:Esv.
    - destruct (nv =? 0) eqn:E0; [apply N.eqb_eq in E0; subst; congruence|].
      destruct j as [|j].
      + unfold or_nil. cbn [sc_get]. destruct nv; [congruence|]. eauto.
      + unfold or_nil. rewrite (sc_get_pages_absent (fun i => i)) by (rewrite N_seq_in; lia).
        destruct nv; [congruence|]. eauto.
    - destruct j as [|j]; unfold or_nil; cbn [sc_get opt_N_eqb option_eqb]; eauto. }
  destruct Hf as (ref & o & Hf).
  fold (or_nil (expected E mes (dp ++ [name]) data j)). rewrite Hf. cbn [bind].
  destruct (IH (fun nd H => Hok nd (or_intror H))) as [refs Hr]. rewrite Hr. cbn [bind]. eauto.
Qed.

Lemma scaled_pass_ok j : forall t dp P is_root, tree_wf E t dp ->
  exists c, pure_dir E j (Some (N.of_nat (S j))) t dp P is_root = Ok c.
Proof.
  induction t as [n d|n|n rn es IHes] using stree_ind'; intros dp P is_root Hwf; try contradiction.
  apply tree_wf_eq in Hwf as (l & Hen & Hdocs & Hsubs).
  rewrite pure_dir_eq, Hen. cbn [bind]. cbv zeta.
  set (mes := dir_mes P dp (l_title l) is_root).
  assert (Hs : exists cs, psubs (fun e p => pure_dir E j (Some (N.of_nat (S j))) e p mes false) dp es = Ok cs).
  { clear Hen. induction IHes as [|e r He Hr IHr]; [exists []; reflexivity|].
    destruct e as [fn fd|bn|dn drn des]; cbn [psubs wf_subs] in *; try (apply IHr; exact Hsubs).
    destruct Hsubs as [Hwe Hwr]. destruct (He (dp ++ [dn]) mes false Hwe) as [c Hc]. rewrite Hc. cbn [bind].
    destruct (IHr Hwr) as [cs Hcs]. rewrite Hcs. cbn [bind]. eauto. }
  destruct Hs as [cs Hcs]. rewrite Hcs. cbn [bind]. unfold pure_refs.
  destruct (scaled_refs_ok j dp mes (l_recipes l) Hdocs) as [refs Hr]. rewrite Hr. cbn [bind]. eauto.
Qed.

Lemma scaled_all_ok t root P : tree_wf E t root -> forall count j,
  exists cs, pure_scaled E t root P j count = Ok cs.
Proof.
  intro Hwf. induction count as [|k IH]; intro j; [exists []; reflexivity|].
  cbn [pure_scaled]. destruct (scaled_pass_ok j t root P true Hwf) as [c Hc]. rewrite Hc. cbn [bind].
  destruct (IH (S j)) as [cs Hcs]. rewrite Hcs. cbn [bind]. eauto.
Qed.

(** *** the unscaled pass fails exactly when a stated count exceeds M, and then with MaxServings *)

Lemma unscaled_lookup_expected mes src data j : (1 <= j)%nat -> doc_ok E data ->
  match native_of E data with
  | Some nv =>
      if nv <=? N.of_nat j then exists m p, unscaled_lookup (expected E mes src data j) = Ok (m, Some nv, p)
      else unscaled_lookup (expected E mes src data j) = Err EMaxServings
  | None => exists m p, unscaled_lookup (expected E mes src data j) = Ok (m, None, p)
  end.
Proof.
  intros Hj (doc & title & Hc & Ht & Hs). unfold native_of, expected. rewrite Hc, Ht.
  destruct j as [|j]; [lia|].
  destruct (d_servings doc) as [nv|] eqn:Esv.
  - destruct (nv =? 0) eqn:E0; [apply N.eqb_eq in E0; subst; congruence|]. apply N.eqb_neq in E0.
    unfold unscaled_lookup.
    rewrite (sc_get_pages_present _ 1) by (rewrite N_seq_in; lia).
    cbn [rp_native mk_page].
    destruct (nv <=? N.of_nat (S j)) eqn:Ele.
    + apply N.leb_le in Ele. rewrite (sc_get_pages_present _ nv) by (rewrite N_seq_in; lia). eauto.
    + apply N.leb_gt in Ele. rewrite (sc_get_pages_absent (fun i => i)) by (rewrite N_seq_in; lia). reflexivity.
  - unfold unscaled_lookup. cbn [sc_get opt_N_eqb option_eqb rp_native mk_page]. eauto.
Qed.

Lemma unscaled_refs_result j dp mes : (1 <= j)%nat -> forall rs,
  (forall nd, In nd rs -> doc_ok E (snd nd)) ->
  if forallb (fun nv => nv <=? N.of_nat j) (own_natives rs)
  then exists refs, pure_refs_unscaled E j dp mes rs = Ok refs
  else pure_refs_unscaled E j dp mes rs = Err EMaxServings.
Proof.
  intro Hj. induction rs as [|[name data] rs IH]; intro Hok; [exists []; reflexivity|].
  cbn [pure_refs_unscaled own_natives flat_map snd]. fold (own_natives rs).
  pose proof (unscaled_lookup_expected mes (dp ++ [name]) data j Hj (Hok (name, data) (or_introl eq_refl))) as Hl.
  specialize (IH (fun nd H => Hok nd (or_intror H))).
  destruct (native_of E data) as [nv|].
  - cbn [app forallb]. destruct (nv <=? N.of_nat j).
    + destruct Hl as (m & p & Hl). rewrite Hl. cbn [bind andb].
      destruct (forallb _ (own_natives rs)).
      * destruct IH as [refs Hr]. rewrite Hr. cbn [bind]. eauto.
      * rewrite IH. reflexivity.
    + rewrite Hl. reflexivity.
  - cbn [app]. destruct Hl as (m & p & Hl). rewrite Hl. cbn [bind].
    destruct (forallb _ (own_natives rs)).
    + destruct IH as [refs Hr]. rewrite Hr. cbn [bind]. eauto.
    + rewrite IH. reflexivity.
Qed.

Lemma unscaled_pass_result j : (1 <= j)%nat -> forall t dp P is_root, tree_wf E t dp ->
  if forallb (fun nv => nv <=? N.of_nat j) (tree_natives E t dp)
  then exists c, pure_dir E j None t dp P is_root = Ok c
  else pure_dir E j None t dp P is_root = Err EMaxServings.
Proof.
  intro Hj. induction t as [n d|n|n rn es IHes] using stree_ind'; intros dp P is_root Hwf; try contradiction.
  apply tree_wf_eq in Hwf as (l & Hen & Hdocs & Hsubs).
  rewrite pure_dir_eq, tree_natives_eq, Hen. cbn [bind]. cbv zeta.
  set (mes := dir_mes P dp (l_title l) is_root).
  rewrite forallb_app.
  assert (Hs : if forallb (fun nv => nv <=? N.of_nat j) (nat_subs dp es)
               then exists cs, psubs (fun e p => pure_dir E j None e p mes false) dp es = Ok cs
               else psubs (fun e p => pure_dir E j None e p mes false) dp es = Err EMaxServings).
  { clear Hen. induction IHes as [|e r He Hr IHr]; [exists []; reflexivity|].
    destruct e as [fn fd|bn|dn drn des]; cbn [psubs wf_subs nat_subs] in *; try (apply IHr; exact Hsubs).
    destruct Hsubs as [Hwe Hwr]. rewrite forallb_app.
    specialize (He (dp ++ [dn]) mes false Hwe). specialize (IHr Hwr).
    destruct (forallb _ (tree_natives E (SDir dn drn des) (dp ++ [dn]))).
    - destruct He as [c Hc]. rewrite Hc. cbn [bind andb].
      destruct (forallb _ (nat_subs dp r)).
      + destruct IHr as [cs Hcs]. rewrite Hcs. cbn [bind]. eauto.
      + rewrite IHr. reflexivity.
    - rewrite He. reflexivity. }
  pose proof (unscaled_refs_result j dp mes Hj (l_recipes l) Hdocs) as Hr. unfold pure_refs.
  (* traversal order: sub-directories first, then the directory's own recipes *)
  destruct (forallb _ (nat_subs dp es)).
  - destruct Hs as [cs Hcs]. rewrite Hcs. cbn [bind]. rewrite andb_true_r.
    destruct (forallb _ (own_natives (l_recipes l))).
    + destruct Hr as [refs Hr]. rewrite Hr. cbn [bind]. eauto.
    + rewrite Hr. reflexivity.
  - rewrite Hs. rewrite andb_false_r. reflexivity.
Qed.

(** *** the whole construction *)

Theorem max_servings_error_iff t root M : uniq_names t -> tree_wf E t root -> 1 <= M ->
  (from_root_directory E t root M = Err EMaxServings <-> exists nv, In nv (tree_natives E t root) /\ M < nv) /\
  ((exists hm h, from_root_directory E t root M = Ok (hm, h)) <-> forall nv, In nv (tree_natives E t root) -> nv <= M).
Proof.
  intros Hu Hwf HM.
  pose proof (from_root_directory_pure E t root M Hu) as Hp.
  assert (Hj : (1 <= N.to_nat M)%nat) by lia.
  unfold pure_root in Hp. destruct t as [n d|n|n rn es]; try contradiction.
  pose proof Hwf as Hwf0. apply tree_wf_eq in Hwf0 as (l & Hen & _ & _). rewrite Hen in Hp. cbn [bind] in Hp.
  set (P := fun _ : option N => [(l_title l, home_path)]) in *.
  destruct (scaled_all_ok (SDir n rn es) root P Hwf (N.to_nat M) 0) as [sc Hsc]. rewrite Hsc in Hp. cbn [bind] in Hp.
  pose proof (unscaled_pass_result (N.to_nat M) Hj (SDir n rn es) root P true Hwf) as Hun.
  rewrite N2Nat.id in Hun.
  destruct (forallb (fun nv => nv <=? M) (tree_natives E (SDir n rn es) root)) eqn:Hall.
  - destruct Hun as [un Hun]. rewrite Hun in Hp. cbn [bind] in Hp. destruct Hp as (h & Hb & _).
    rewrite forallb_forall in Hall. split; split.
    + rewrite Hb. discriminate.
    + intros (nv & Hin & Hgt). apply Hall in Hin. apply N.leb_le in Hin. lia.
    + intros _ nv Hin. apply N.leb_le. apply Hall. exact Hin.
    + intros _. eauto.
  - rewrite Hun in Hp. cbn [bind] in Hp.
    assert (Hex : exists nv, In nv (tree_natives E (SDir n rn es) root) /\ M < nv).
    { destruct (forallb_forall (fun nv => nv <=? M) (tree_natives E (SDir n rn es) root)) as [_ Hff].
      destruct (existsb (fun nv => negb (nv <=? M)) (tree_natives E (SDir n rn es) root)) eqn:Hexb.
      - apply existsb_exists in Hexb as (nv & Hin & Hneg). exists nv. split; [exact Hin|].
        apply negb_true_iff in Hneg. apply N.leb_gt in Hneg. exact Hneg.
      - exfalso. rewrite Hff in Hall; [discriminate|]. intros nv Hin.
        destruct (nv <=? M) eqn:El; [reflexivity|]. exfalso.
        assert (existsb (fun nv => negb (nv <=? M)) (tree_natives E (SDir n rn es) root) = true).
        { apply existsb_exists. exists nv. rewrite El. auto. }
        congruence. }
    split; split.
    + intros _. exact Hex.
    + intros _. exact Hp.
    + intros (hm & h & Hb). rewrite Hp in Hb. discriminate.
    + intro Hle. destruct Hex as (nv & Hin & Hgt). apply Hle in Hin. lia.
Qed.

End Errors.
