(** * Proofs about the number formatting model (property C11). *)
From Coq Require Import List ZArith NArith QArith Qabs Bool Lia.
From RG Require Import Base.Str Base.Dec Base.Num Gen.GenConsts
  Model.NumFmt Model.NumParse Proofs.DecLemmas.
Import ListNotations.
Open Scope Z_scope.

(** ** Specification vocabulary *)

(** Number of integer digits the code counts: [len(integer_str.lstrip("-0"))]
    (0 when the integer part is 0). *)
Definition int_digits (i : Z) : nat :=
  if i =? 0 then O else length (dec_N (Z.to_N i)).

(** Number of decimal places [format_float] uses for [x = n / d]:
    [max(0, significant_figures - integer_digits)]. *)
Definition shown_places (sf : nat) (n : Z) (d : positive) : nat :=
  (sf - int_digits (n / Zpos d))%nat.

(** [decade n d e]  means  [10^e <= n/d < 10^(e+1)]  (cross-multiplied). *)
Definition decade (n : Z) (d : positive) (e : Z) : Prop :=
  if 0 <=? e then 10 ^ e * Zpos d <= n /\ n < 10 ^ (e + 1) * Zpos d
  else Zpos d <= 10 ^ (- e) * n /\ 10 ^ (- e - 1) * n < Zpos d.

(** Decimal places at which [sf] significant figures sit for a value in
    decade [e] (none beyond the units once there are [sf] integer digits). *)
Definition sig_places (sf : nat) (e : Z) : nat := Z.to_nat (Z.of_nat sf - 1 - e).

(** ** Round-half-even division *)

Lemma even_plus_1 q : Z.even (q + 1) = negb (Z.even q).
Proof. rewrite Z.even_add. destruct (Z.even q); reflexivity. Qed.

Lemma rne_div_cases a b : 0 < b ->
  exists q0 r, a = q0 * b + r /\ 0 <= r < b /\
    ( (2 * r < b /\ rne_div a b = q0) \/
      (b < 2 * r /\ rne_div a b = q0 + 1) \/
      (2 * r = b /\ Z.even q0 = true /\ rne_div a b = q0) \/
      (2 * r = b /\ Z.even q0 = false /\ rne_div a b = q0 + 1) ).
Proof.
  intros Hb. exists (a / b), (a - a / b * b).
  pose proof (Z.mod_pos_bound a b Hb) as Hm.
  rewrite Z.mod_eq in Hm by lia.
  rewrite (Z.mul_comm b) in Hm.
  unfold rne_div.
  set (q0 := a / b) in *. set (qb := q0 * b) in *.
  split; [lia|]. split; [lia|].
  destruct (Z.compare_spec (2 * (a - qb)) b) as [E|L|G].
  - destruct (Z.even q0) eqn:Ev.
    + right; right; left. auto.
    + right; right; right. auto.
  - left. auto.
  - right; left. split; [lia|reflexivity].
Qed.

(** Error bound and tie rule. *)
Lemma rne_div_spec a b : 0 < b ->
  2 * a - b <= 2 * (rne_div a b * b) <= 2 * a + b /\
  ((2 * (rne_div a b * b) = 2 * a + b \/ 2 * (rne_div a b * b) = 2 * a - b) ->
   Z.even (rne_div a b) = true).
Proof.
  intros Hb. destruct (rne_div_cases a b Hb) as (q0 & r & Ha & Hr & C).
  destruct C as [[H E]|[[H E]|[(H & Ev & E)|(H & Ev & E)]]]; rewrite E;
    rewrite ?Z.mul_add_distr_r, ?Z.mul_1_l; set (qb := q0 * b) in *.
  - split; [lia|]. intros [T|T]; lia.
  - split; [lia|]. intros [T|T]; lia.
  - split; [lia|]. intros _. assumption.
  - split; [lia|]. intros _. rewrite even_plus_1, Ev. reflexivity.
Qed.

(** The nearest integer with the tie rule is unique. *)
Lemma rne_div_unique a b q : 0 < b ->
  2 * a - b <= 2 * (q * b) <= 2 * a + b ->
  ((2 * (q * b) = 2 * a + b \/ 2 * (q * b) = 2 * a - b) -> Z.even q = true) ->
  rne_div a b = q.
Proof.
  intros Hb Hq Tie. destruct (rne_div_cases a b Hb) as (q0 & r & Ha & Hr & C).
  assert (K : q = q0 \/ q = q0 + 1).
  { subst a. assert (0 <= q - q0 <= 1); [|lia].
    assert (E : q * b = q0 * b + (q - q0) * b) by ring.
    rewrite E in Hq. set (k := q - q0) in *. clearbody k. clear E Tie C.
    split; nia. }
  destruct K as [-> | ->].
  - destruct C as [[H E]|[[H E]|[(H & Ev & E)|(H & Ev & E)]]]; rewrite E;
      try reflexivity; exfalso; set (qb := q0 * b) in *.
    + lia.
    + assert (T : Z.even q0 = true) by (apply Tie; lia). congruence.
  - rewrite Z.mul_add_distr_r, Z.mul_1_l in *.
    destruct C as [[H E]|[[H E]|[(H & Ev & E)|(H & Ev & E)]]]; rewrite E;
      try reflexivity; exfalso; set (qb := q0 * b) in *.
    + lia.
    + assert (T : Z.even (q0 + 1) = true) by (apply Tie; lia).
      rewrite even_plus_1, Ev in T. discriminate.
Qed.

(** Adding an even multiple of the divisor shifts the result. *)
Lemma rne_div_add_mul a b k : 0 < b -> Z.even k = true ->
  rne_div (k * b + a) b = k + rne_div a b.
Proof.
  intros Hb Ev. destruct (rne_div_spec a b Hb) as [B T].
  apply rne_div_unique; [assumption| |].
  - rewrite Z.mul_add_distr_r. set (kb := k * b). set (qb := rne_div a b * b) in *. lia.
  - rewrite Z.mul_add_distr_r. set (kb := k * b). intros H.
    rewrite Z.even_add, Ev, T; [reflexivity|].
    set (qb := rne_div a b * b) in *. lia.
Qed.

Lemma rne_div_nonneg a b : 0 <= a -> 0 < b -> 0 <= rne_div a b.
Proof.
  intros Ha Hb. destruct (rne_div_cases a b Hb) as (q0 & r & E & Hr & C).
  assert (Hq0 : 0 <= q0) by nia.
  destruct C as [[H ->]|[[H ->]|[(H & Ev & ->)|(H & Ev & ->)]]]; lia.
Qed.

Lemma rne_div_le a b k : 0 < b -> a <= k * b -> rne_div a b <= k.
Proof.
  intros Hb Ha. destruct (rne_div_spec a b Hb) as [B _].
  set (q := rne_div a b) in *. clearbody q. nia.
Qed.

Lemma rne_div_1 a : rne_div a 1 = a.
Proof. apply rne_div_unique; [lia|lia|]. intros [H|H]; lia. Qed.

(** The carry cases: when the fixed-point rendering of the fractional part
    rounds to 0 or to a full unit, [round(number)] is the integer part or
    the integer part plus one. *)
Lemma carry_zero fr p d i : 0 < d -> 0 <= fr < d -> 2 <= p ->
  rne_div (fr * p) d = 0 -> rne_div (i * d + fr) d = i.
Proof.
  intros Hd Hfr Hp E. destruct (rne_div_spec (fr * p) d Hd) as [B _].
  rewrite E in B.
  assert (H : 2 * fr < d) by nia.
  apply rne_div_unique; [assumption| |]; set (id := i * d).
  - lia.
  - intros [T|T]; lia.
Qed.

Lemma carry_full fr p d i : 0 < d -> 0 <= fr < d -> 2 <= p ->
  rne_div (fr * p) d = p -> rne_div (i * d + fr) d = i + 1.
Proof.
  intros Hd Hfr Hp E. destruct (rne_div_spec (fr * p) d Hd) as [B _].
  rewrite E in B.
  assert (H : d < 2 * fr) by nia.
  apply rne_div_unique; [assumption| |];
    rewrite Z.mul_add_distr_r, Z.mul_1_l; set (id := i * d).
  - lia.
  - intros [T|T]; lia.
Qed.

(** ** Powers of ten, N / Z bridges *)

Lemma Zpow10_N k : Z.of_N (10 ^ N.of_nat k) = 10 ^ Z.of_nat k.
Proof. rewrite N2Z.inj_pow, nat_N_Z. reflexivity. Qed.

Lemma Zpow10_pos k : 0 < 10 ^ Z.of_nat k.
Proof. apply Z.pow_pos_nonneg; lia. Qed.

Lemma Zpow10_S k : 10 ^ Z.of_nat (S k) = 10 * 10 ^ Z.of_nat k.
Proof. rewrite Nat2Z.inj_succ, Z.pow_succ_r by lia. reflexivity. Qed.

Lemma Zpow10_add a b : 10 ^ Z.of_nat (a + b) = 10 ^ Z.of_nat a * 10 ^ Z.of_nat b.
Proof. rewrite Nat2Z.inj_add, Z.pow_add_r by lia. reflexivity. Qed.

Lemma Zpow10_even k : Z.even (10 ^ Z.of_nat (S k)) = true.
Proof. rewrite Zpow10_S, Z.even_mul. reflexivity. Qed.

Lemma Zpow10_ge k : 10 <= 10 ^ Z.of_nat (S k).
Proof. rewrite Zpow10_S. pose proof (Zpow10_pos k). lia. Qed.

(** ** The digits after the point *)

Lemma frac_digits_spec (fd : nat) (r : Z) : 0 <= r < 10 ^ Z.of_nat fd ->
  let f := rstrip0 (digits_fixed fd (Z.to_N r)) in
  all_digits f = true /\ last f 0%N <> 48%N /\
  ((f = [] /\ r = 0) \/
   (f <> [] /\ 0 < r /\ exists k, fd = (length f + k)%nat /\
                                  r = Z.of_N (val_N f) * 10 ^ Z.of_nat k)).
Proof.
  intros Hr f.
  assert (Hv : val_N (digits_fixed fd (Z.to_N r)) = Z.to_N r).
  { apply val_N_digits_fixed_small. apply N2Z.inj_lt.
    rewrite Zpow10_N, Z2N.id; lia. }
  split; [apply rstrip0_all_digits, all_digits_digits_fixed|].
  split; [apply rstrip0_last|].
  destruct (rstrip0_value_k (digits_fixed fd (Z.to_N r))) as (k & Hl & Hk).
  fold f in Hl, Hk. rewrite digits_fixed_length in Hl. rewrite Hv in Hk.
  assert (Hk' : r = Z.of_N (val_N f) * 10 ^ Z.of_nat k).
  { rewrite <- Zpow10_N, <- N2Z.inj_mul, <- Hk, Z2N.id; lia. }
  destruct f as [|c t] eqn:Ef.
  - left. split; [reflexivity|]. rewrite Hk'. reflexivity.
  - right. split; [discriminate|]. split; [|exists k; auto].
    destruct (Z.eq_dec r 0) as [R0|]; [|lia]. exfalso.
    assert (rstrip0 (digits_fixed fd (Z.to_N r)) = []).
    { apply val_N_zero_rstrip0; [apply all_digits_digits_fixed|].
      rewrite Hv, R0. reflexivity. }
    fold f in H. congruence.
Qed.

(** ** Structure of [format_float]'s result *)

Lemma div_decompose n d : 0 <= n -> 0 < d ->
  let i := n / d in let fr := n - i * d in
  0 <= i /\ 0 <= fr < d /\ n = i * d + fr.
Proof.
  intros Hn Hd i fr. pose proof (Z.mod_pos_bound n d Hd) as Hm.
  rewrite Z.mod_eq in Hm by lia. rewrite (Z.mul_comm d) in Hm.
  fold i in Hm. fold fr in Hm.
  split; [apply Z.div_pos; lia|]. split; [assumption|]. unfold fr. lia.
Qed.

(** Either the result is [str(round(x))] and the value rounded at [fd] places
    is that integer, or it is [integer "." f] with [f] the non-empty stripped
    fraction digits, and the rounded value is [i + 0.f]. *)
Lemma format_float_cases sf n d : 0 <= n ->
  let i := n / Zpos d in
  let fd := shown_places sf n d in
  let R := rne_div (n * 10 ^ Z.of_nat fd) (Zpos d) in
  (format_float_sf sf n d = dec_N (Z.to_N (rne_div n (Zpos d))) /\
   R = rne_div n (Zpos d) * 10 ^ Z.of_nat fd)
  \/
  (exists f k, f <> [] /\ all_digits f = true /\ last f 0%N <> 48%N /\
     fd = (length f + k)%nat /\
     format_float_sf sf n d = dec_N (Z.to_N i) ++ [c_dot] ++ f /\
     R = (i * 10 ^ Z.of_nat (length f) + Z.of_N (val_N f)) * 10 ^ Z.of_nat k).
Proof.
  intros Hn i fd R.
  destruct (div_decompose n (Zpos d) Hn eq_refl) as (Hi & Hfr & En).
  fold i in Hi, Hfr, En.
  unfold format_float_sf. fold i.
  change ((sf - (if (i =? 0)%Z then O else length (dec_N (Z.to_N i))))%nat) with fd.
  set (fr := n - i * Zpos d) in *.
  set (p := 10 ^ Z.of_nat fd) in *.
  set (r := rne_div (fr * p) (Zpos d)).
  clearbody fd.
  assert (Hfd : fd = O \/ exists fd', fd = S fd') by (destruct fd; eauto).
  destruct Hfd as [E0|[fd' Efd]].
  - (* no fractional digits: straight to round() *)
    left. subst fd. cbn [digits_fixed rstrip0]. split; [reflexivity|].
    unfold R, p. change (10 ^ Z.of_nat 0) with 1. rewrite !Z.mul_1_r. reflexivity.
  - assert (Hp : 10 <= p) by (unfold p; rewrite Efd; apply Zpow10_ge).
    assert (Ev : Z.even p = true) by (unfold p; rewrite Efd; apply Zpow10_even).
    assert (Hr : 0 <= r <= p).
    { split.
      - apply rne_div_nonneg; [nia|lia].
      - apply rne_div_le; [lia|nia]. }
    assert (ER : R = i * p + r).
    { unfold R. rewrite En.
      replace ((i * Zpos d + fr) * p) with (i * p * Zpos d + fr * p) by ring.
      apply rne_div_add_mul; [lia|]. rewrite Z.even_mul, Ev. apply orb_true_r. }
    assert (Hm : 0 <= r mod p < p) by (apply Z.mod_pos_bound; lia).
    destruct (frac_digits_spec fd (r mod p) Hm) as (Hd & Hl & C).
    set (f := rstrip0 (digits_fixed fd (Z.to_N (r mod p)))) in *.
    destruct C as [[Ef Z0]|(Nf & Pos & k & Hk & Ek)].
    + (* carry cases *)
      left. rewrite Ef. split; [reflexivity|]. rewrite ER.
      assert (Rc : r = 0 \/ r = p).
      { destruct (Z.eq_dec r p) as [|Np]; [right; assumption|left].
        rewrite Z.mod_small in Z0 by lia. assumption. }
      rewrite En at 1. destruct Rc as [R0|Rp].
      * rewrite (carry_zero fr p (Zpos d) i); lia.
      * rewrite (carry_full fr p (Zpos d) i); lia.
    + right. exists f, k.
      assert (Rs : r mod p = r).
      { destruct (Z.eq_dec r p) as [Rp|Np].
        - rewrite Rp, Z.mod_same in Pos by lia. lia.
        - apply Z.mod_small. lia. }
      rewrite Rs in Ek.
      repeat split; try assumption.
      * destruct f; [congruence|reflexivity].
      * rewrite ER, Ek. unfold p. rewrite Hk, Zpow10_add. ring.
Qed.

(** ** Scanner lemmas *)

Lemma digit_not_special c : is_digit c = true ->
  is_blank c = false /\ (c =? c_slash)%N = false /\ (c =? c_dot)%N = false.
Proof.
  unfold is_digit, is_blank, c_space, c_tab, c_slash, c_dot. intros H.
  apply andb_true_iff in H as [H1 H2]. apply N.leb_le in H1, H2.
  repeat split; try apply orb_false_iff; repeat split; apply N.eqb_neq; lia.
Qed.

Definition starts_nondigit (x : str) : bool :=
  match x with [] => true | c :: _ => negb (is_digit c) end.

Lemma span_digits_app : forall a rest,
  all_digits a = true -> starts_nondigit rest = true ->
  span_digits (a ++ rest) = (a, rest).
Proof.
  induction a as [|c t IH]; intros rest Ha Hr.
  - cbn [app]. destruct rest as [|c t]; [reflexivity|].
    cbn [starts_nondigit] in Hr. cbn [span_digits].
    destruct (is_digit c); [discriminate|reflexivity].
  - cbn [all_digits forallb] in Ha. apply andb_true_iff in Ha as [Hc Ht].
    cbn [app span_digits]. rewrite Hc. rewrite (IH rest Ht Hr). reflexivity.
Qed.

Lemma span_digits_all a : all_digits a = true -> span_digits a = (a, []).
Proof.
  intros H. rewrite <- (app_nil_r a) at 1. apply span_digits_app; auto.
Qed.

Lemma dec_N_cons n : exists c t, dec_N n = c :: t /\ is_digit c = true.
Proof.
  pose proof (all_digits_dec_N n) as H. pose proof (dec_N_nonempty n) as Hn.
  destruct (dec_N n) as [|c t]; [congruence|].
  cbn [all_digits forallb] in H. apply andb_true_iff in H as [Hc _].
  exists c, t. auto.
Qed.

Lemma skip_blanks_digit c t : is_digit c = true -> skip_blanks (c :: t) = c :: t.
Proof.
  intros H. cbn [skip_blanks]. destruct (digit_not_special c H) as (-> & _). reflexivity.
Qed.

Lemma skip_blanks_dec_N n : skip_blanks (dec_N n) = dec_N n.
Proof.
  destruct (dec_N_cons n) as (c & t & -> & Hc). apply skip_blanks_digit. assumption.
Qed.

Lemma is_nil_dec_N n : is_nil (dec_N n) = false.
Proof. destruct (dec_N_cons n) as (c & t & -> & _). reflexivity. Qed.

Lemma parse_den_dec_N n : parse_den (dec_N n) = Some n.
Proof.
  unfold parse_den. rewrite skip_blanks_dec_N.
  rewrite span_digits_all by apply all_digits_dec_N.
  rewrite is_nil_dec_N, val_N_dec_N. reflexivity.
Qed.

Lemma parse_slash_den_dec_N n : parse_slash_den (c_slash :: dec_N n) = Some n.
Proof.
  unfold parse_slash_den. cbn [skip_blanks].
  change (is_blank c_slash) with false. cbv iota.
  rewrite N.eqb_refl. apply parse_den_dec_N.
Qed.

(** Reading back a proper fraction text [n/d]. *)
Lemma frac_value_proper n d :
  frac_value (dec_N n ++ [c_slash] ++ dec_N d) = Some (0%N, n, d).
Proof.
  unfold frac_value.
  rewrite span_digits_app; [|apply all_digits_dec_N|reflexivity].
  rewrite is_nil_dec_N. cbn [app skip_blanks].
  change (is_blank c_slash) with false. cbv iota.
  rewrite N.eqb_refl, parse_den_dec_N, val_N_dec_N. reflexivity.
Qed.

(** Reading back a mixed fraction text [i n/d]. *)
Lemma frac_value_mixed i n d :
  frac_value (dec_N i ++ [c_space] ++ dec_N n ++ [c_slash] ++ dec_N d)
  = Some (i, n, d).
Proof.
  unfold frac_value.
  rewrite span_digits_app; [|apply all_digits_dec_N|reflexivity].
  rewrite is_nil_dec_N. cbn [app skip_blanks].
  change (is_blank c_space) with true. cbv iota.
  destruct (dec_N_cons n) as (c & t & E & Hc).
  rewrite E. cbn [app]. rewrite (skip_blanks_digit c _ Hc).
  destruct (digit_not_special c Hc) as (_ & -> & _).
  change (c :: t ++ c_slash :: dec_N d) with ((c :: t) ++ c_slash :: dec_N d).
  rewrite <- E.
  rewrite span_digits_app; [|apply all_digits_dec_N|reflexivity].
  rewrite is_nil_dec_N, parse_slash_den_dec_N, !val_N_dec_N. reflexivity.
Qed.

Lemma dec_value_int n : dec_value (dec_N n) = Some (n, O).
Proof.
  unfold dec_value. rewrite span_digits_all by apply all_digits_dec_N.
  rewrite is_nil_dec_N, val_N_dec_N. reflexivity.
Qed.

Lemma dec_value_point i f : f <> [] -> all_digits f = true ->
  dec_value (dec_N i ++ [c_dot] ++ f) =
  Some ((i * 10 ^ N.of_nat (length f) + val_N f)%N, length f).
Proof.
  intros Nf Hf. unfold dec_value.
  rewrite span_digits_app; [|apply all_digits_dec_N|reflexivity].
  rewrite is_nil_dec_N. cbn [app]. rewrite N.eqb_refl, Hf, val_N_dec_N.
  destruct f; [congruence|reflexivity].
Qed.

Lemma plain_decimal_int n : plain_decimal (dec_N n) = true.
Proof.
  unfold plain_decimal. rewrite span_digits_all by apply all_digits_dec_N.
  rewrite is_nil_dec_N. reflexivity.
Qed.

Lemma plain_decimal_point i f : f <> [] -> all_digits f = true ->
  last f 0%N <> 48%N -> plain_decimal (dec_N i ++ [c_dot] ++ f) = true.
Proof.
  intros Nf Hf Hl. unfold plain_decimal.
  rewrite span_digits_app; [|apply all_digits_dec_N|reflexivity].
  rewrite is_nil_dec_N. cbn [app]. rewrite N.eqb_refl, Hf.
  apply N.eqb_neq in Hl. unfold c_0. rewrite Hl.
  destruct f; [congruence|reflexivity].
Qed.

(** A fraction text is not misread as an int or decimal and vice versa. *)
Lemma frac_value_digits a : all_digits a = true -> frac_value a = None.
Proof.
  intros H. unfold frac_value. rewrite span_digits_all by assumption.
  destruct (is_nil a); reflexivity.
Qed.

Lemma frac_value_point i f :
  frac_value (dec_N i ++ [c_dot] ++ f) = None.
Proof.
  unfold frac_value.
  rewrite span_digits_app; [|apply all_digits_dec_N|reflexivity].
  rewrite is_nil_dec_N. cbn [app skip_blanks].
  change (is_blank c_dot) with false. cbv iota.
  change (c_dot =? c_slash)%N with false. cbv iota. reflexivity.
Qed.

(** ** C11: integers *)

Lemma int_exact z : 0 <= z ->
  format_number (NInt z) = Some (dec_N (Z.to_N z)) /\
  Z.of_N (val_N (dec_N (Z.to_N z))) = z /\
  parse_number (dec_N (Z.to_N z)) = PInt (Z.to_N z).
Proof.
  intros Hz. split; [|split].
  - cbn [format_number format_fraction].
    destruct (Z.ltb_spec z 0); [lia|reflexivity].
  - rewrite val_N_dec_N. apply Z2N.id. assumption.
  - unfold parse_number. rewrite frac_value_digits by apply all_digits_dec_N.
    rewrite is_nil_dec_N, all_digits_dec_N, val_N_dec_N. reflexivity.
Qed.

(** ** C11: fractions with an allowed denominator *)

Lemma fraction_exact n d :
  0 <= n -> Z.gcd n (Zpos d) = 1 -> d <> 1%positive ->
  pos_in d allowed_denominators = true ->
  0 < n /\
  ((Zpos d < n /\
    exists i n', 0 < i /\ 0 < n' < Zpos d /\ Z.gcd n' (Zpos d) = 1 /\
      i * Zpos d + n' = n /\
      format_number (NFrac n d) =
        Some (dec_N (Z.to_N i) ++ [c_space] ++ dec_N (Z.to_N n') ++ [c_slash]
              ++ dec_N (Npos d)) /\
      frac_value (dec_N (Z.to_N i) ++ [c_space] ++ dec_N (Z.to_N n') ++ [c_slash]
                  ++ dec_N (Npos d)) = Some (Z.to_N i, Z.to_N n', Npos d))
   \/
   (n < Zpos d /\
    format_number (NFrac n d) = Some (dec_N (Z.to_N n) ++ [c_slash] ++ dec_N (Npos d)) /\
    frac_value (dec_N (Z.to_N n) ++ [c_slash] ++ dec_N (Npos d))
      = Some (0%N, Z.to_N n, Npos d))).
Proof.
  intros Hn Hg Hd1 Hin.
  assert (Hd : 1 < Zpos d) by lia.
  assert (Hn0 : 0 < n).
  { destruct (Z.eq_dec n 0) as [->|]; [|lia]. rewrite Z.gcd_0_l in Hg. lia. }
  split; [assumption|].
  cbn [format_number format_fraction].
  destruct (Z.ltb_spec n 0) as [|_]; [lia|].
  destruct (Pos.eqb_spec d 1) as [|_]; [congruence|].
  rewrite Hin. cbn [negb].
  destruct (Z.ltb_spec (Zpos d) n) as [L|L].
  - left. split; [assumption|].
    exists (n / Zpos d), (n mod Zpos d).
    pose proof (Z.mod_pos_bound n (Zpos d) eq_refl) as Hm.
    pose proof (Z.div_mod n (Zpos d)) as Hdm.
    assert (Hm0 : n mod Zpos d <> 0).
    { intros E. apply Z.mod_divide in E; [|lia].
      assert (Hdd : (Zpos d | Z.gcd n (Zpos d))) by (apply Z.gcd_greatest; [assumption|reflexivity]).
      rewrite Hg in Hdd. apply Z.divide_1_r_nonneg in Hdd; lia. }
    assert (Hi : 0 < n / Zpos d) by (apply Z.div_str_pos; lia).
    repeat split; try lia.
    + rewrite Z.gcd_mod by lia. rewrite Z.gcd_comm. assumption.
    + apply frac_value_mixed.
  - right.
    assert (n <> Zpos d).
    { intros ->. rewrite Z.gcd_diag in Hg. lia. }
    split; [lia|]. split; [reflexivity|]. apply frac_value_proper.
Qed.

(** ** C11: plain decimal shape *)

Lemma plain_decimal_shape sf n d : 0 <= n ->
  plain_decimal (format_float_sf sf n d) = true.
Proof.
  intros Hn. destruct (format_float_cases sf n d Hn) as [[E _]|(f & k & Nf & Hf & Hl & _ & E & _)];
    rewrite E.
  - apply plain_decimal_int.
  - apply plain_decimal_point; assumption.
Qed.

(** No superfluous leading zero in the integer part: the text is "0", starts
    with "0." or starts with a non-zero digit. *)
Lemma no_leading_zero sf n d : 0 <= n ->
  let out := format_float_sf sf n d in
  hd 0%N out = 48%N -> out = [48%N] \/ exists f, out = 48%N :: c_dot :: f.
Proof.
  intros Hn out.
  destruct (format_float_cases sf n d Hn) as [[E _]|(f & k & Nf & Hf & Hl & _ & E & _)];
    unfold out; rewrite E; intros H.
  - left. apply dec_N_no_leading_zero in H. rewrite H. reflexivity.
  - right. rewrite hd_app_nonempty in H by apply dec_N_nonempty.
    apply dec_N_no_leading_zero in H. rewrite H. exists f. reflexivity.
Qed.

(** ** C11: correctly rounded *)

Lemma correctly_rounded sf n d : 0 <= n ->
  let fd := shown_places sf n d in
  exists m k, dec_value (format_float_sf sf n d) = Some (m, k) /\
    (k <= fd)%nat /\
    Z.of_N m * 10 ^ Z.of_nat fd =
    rne_div (n * 10 ^ Z.of_nat fd) (Zpos d) * 10 ^ Z.of_nat k.
Proof.
  intros Hn fd.
  destruct (format_float_cases sf n d Hn) as [[E ER]|(f & k & Nf & Hf & Hl & Hk & E & ER)];
    fold fd in ER; rewrite E.
  - exists (Z.to_N (rne_div n (Zpos d))), O. split; [apply dec_value_int|].
    split; [lia|]. rewrite ER, Z2N.id by (apply rne_div_nonneg; lia).
    change (10 ^ Z.of_nat 0) with 1. ring.
  - fold fd in Hk.
    exists (Z.to_N (n / Zpos d) * 10 ^ N.of_nat (length f) + val_N f)%N, (length f).
    split; [apply dec_value_point; assumption|]. split; [lia|].
    rewrite ER, N2Z.inj_add, N2Z.inj_mul, Zpow10_N, Z2N.id by (apply Z.div_pos; lia).
    rewrite Hk, Zpow10_add. ring.
Qed.

(** Error of the shown value: at most half a unit of the last place used. *)
Lemma readback sf n d : 0 <= n ->
  let fd := shown_places sf n d in
  exists m k, dec_value (format_float_sf sf n d) = Some (m, k) /\
    (k <= fd)%nat /\
    2 * Z.abs (Z.of_N m * Zpos d * 10 ^ Z.of_nat fd - n * 10 ^ Z.of_nat k * 10 ^ Z.of_nat fd)
      <= Zpos d * 10 ^ Z.of_nat k.
Proof.
  intros Hn fd. destruct (correctly_rounded sf n d Hn) as (m & k & E & Hk & V).
  fold fd in V. exists m, k. split; [assumption|]. split; [assumption|].
  destruct (rne_div_spec (n * 10 ^ Z.of_nat fd) (Zpos d) eq_refl) as [B _].
  set (R := rne_div (n * 10 ^ Z.of_nat fd) (Zpos d)) in *.
  replace (Z.of_N m * Zpos d * 10 ^ Z.of_nat fd) with (R * Zpos d * 10 ^ Z.of_nat k)
    by (rewrite <- (Z.mul_assoc (Z.of_N m)), (Z.mul_comm (Zpos d)), Z.mul_assoc, V; ring).
  replace (R * Zpos d * 10 ^ Z.of_nat k - n * 10 ^ Z.of_nat k * 10 ^ Z.of_nat fd)
    with ((R * Zpos d - n * 10 ^ Z.of_nat fd) * 10 ^ Z.of_nat k) by ring.
  pose proof (Zpow10_pos k) as Pk.
  rewrite Z.abs_mul, (Z.abs_eq (10 ^ Z.of_nat k)) by lia.
  assert (A : 2 * Z.abs (R * Zpos d - n * 10 ^ Z.of_nat fd) <= Zpos d) by lia.
  nia.
Qed.

(** ** C11: three significant figures from one tenth upwards *)

Lemma int_digits_spec i : 0 < i ->
  exists k, int_digits i = S k /\ 10 ^ Z.of_nat k <= i < 10 ^ Z.of_nat (S k).
Proof.
  intros Hi. unfold int_digits.
  destruct (Z.eqb_spec i 0) as [|_]; [lia|].
  destruct (dec_N_length (Z.to_N i)) as (k & Hl & Lo & Hi'); [lia|].
  exists k. split; [assumption|].
  apply N2Z.inj_le in Lo. apply N2Z.inj_lt in Hi'.
  rewrite Zpow10_N, Z2N.id in * by lia. lia.
Qed.

Lemma three_sig_figs sf n d : 0 <= n -> Zpos d <= 10 * n ->
  exists e, -1 <= e /\ decade n d e /\ shown_places sf n d = sig_places sf e.
Proof.
  intros Hn Hx.
  destruct (div_decompose n (Zpos d) Hn eq_refl) as (Hi & Hfr & En).
  unfold shown_places. set (i := n / Zpos d) in *.
  destruct (Z.eq_dec i 0) as [I0|I0].
  - exists (-1). split; [lia|]. split.
    + unfold decade. cbn [Z.leb Z.compare]. cbv iota.
      change (10 ^ (- -1)) with 10. change (10 ^ (- -1 - 1)) with 1. lia.
    + rewrite I0. unfold int_digits, sig_places. cbn [Z.eqb]. lia.
  - destruct (int_digits_spec i) as (k & Ek & Lo & Hi'); [lia|].
    exists (Z.of_nat k). split; [lia|]. split.
    + unfold decade. destruct (Z.leb_spec 0 (Z.of_nat k)); [|lia].
      replace (Z.of_nat k + 1) with (Z.of_nat (S k)) by lia.
      set (a := 10 ^ Z.of_nat k) in *. set (b := 10 ^ Z.of_nat (S k)) in *.
      split; nia.
    + rewrite Ek. unfold sig_places. lia.
Qed.

(** ** Which values take the decimal path, and with which exact operand *)

(** The exact rational [format_float] is applied to: a float is its own exact
    value; a Fraction whose denominator is not allowed is first converted
    with [float()] (correctly rounded, [b64]). *)
Definition decimal_operand (a : num) : option (Z * positive) :=
  match a with
  | NFloat m e => if m <? 0 then None else Some (to_frac a)
  | NFrac n d =>
      if (n <? 0) || (d =? 1)%positive || pos_in d allowed_denominators then None
      else match b64 n d with Some f => Some (to_frac f) | None => None end
  | NInt _ => None
  end.

Lemma canon_pos_pos : forall p e, exists p' e', canon_pos p e = (Zpos p', e').
Proof.
  induction p as [p IH|p IH|]; intros e; cbn [canon_pos]; eauto.
Qed.

Lemma to_frac_canon_nonneg m e : 0 <= m -> 0 <= fst (to_frac (canon m e)).
Proof.
  intros Hm. destruct m as [|p|p]; [cbn; lia| |lia].
  cbn [canon]. destruct (canon_pos_pos p e) as (p' & e' & ->).
  cbn [to_frac]. destruct (0 <=? e'); cbn [fst]; [|lia].
  apply Z.mul_nonneg_nonneg; [lia|]. apply Z.pow_nonneg. lia.
Qed.

Lemma b64_pos_nonneg n d m e : 0 < n -> 0 < d -> b64_pos n d = Some (m, e) -> 0 <= m.
Proof.
  intros Hn Hd. unfold b64_pos.
  set (e2 := Z.max _ (-1074)).
  assert (S : exists a b, scaled n d e2 = (a, b) /\ 0 <= a /\ 0 < b).
  { unfold scaled. clearbody e2. destruct (Z.leb_spec 0 e2).
    - exists n, (d * 2 ^ e2). repeat split; [lia|].
      apply Z.mul_pos_pos; [lia|]. apply Z.pow_pos_nonneg; lia.
    - exists (n * 2 ^ (- e2)), d. repeat split; [|lia].
      apply Z.mul_nonneg_nonneg; [lia|]. apply Z.pow_nonneg. lia. }
  destruct S as (a & b & -> & Ha & Hb).
  pose proof (rne_div_nonneg a b Ha Hb) as Hr.
  destruct (rne_div a b =? 2 ^ 53).
  - destruct (971 <? e2 + 1); [discriminate|]. intros [= <- _]. lia.
  - destruct (971 <? e2); [discriminate|]. intros [= <- _]. assumption.
Qed.

Lemma b64_nonneg n d f : 0 <= n -> b64 n d = Some f -> 0 <= fst (to_frac f).
Proof.
  intros Hn. unfold b64. destruct n as [|p|p]; [| |lia].
  - intros [= <-]. cbn. lia.
  - destruct (b64_pos (Zpos p) (Zpos d)) as [[m e]|] eqn:E; [|discriminate].
    intros [= <-]. apply to_frac_canon_nonneg.
    apply (b64_pos_nonneg (Zpos p) (Zpos d) m e); [lia|lia|assumption].
Qed.

Lemma decimal_path a n d : decimal_operand a = Some (n, d) ->
  0 <= n /\ format_number a = Some (format_float_sf significant_figures n d).
Proof.
  destruct a as [z|fn fd|m e]; cbn [decimal_operand]; [discriminate| |].
  - destruct (Z.ltb_spec fn 0) as [|Hn]; [discriminate|]. cbn [orb].
    destruct (fd =? 1)%positive eqn:E1; [discriminate|]. cbn [orb].
    destruct (pos_in fd allowed_denominators) eqn:Ein; [discriminate|].
    destruct (b64 fn fd) as [f|] eqn:Eb; [|discriminate].
    intros [= H]. split.
    + pose proof (b64_nonneg fn fd f Hn Eb) as Hf. rewrite H in Hf. exact Hf.
    + cbn [format_number format_fraction].
      destruct (Z.ltb_spec fn 0); [lia|]. rewrite E1, Ein, Eb. cbn [negb].
      rewrite H. reflexivity.
  - destruct (Z.ltb_spec m 0) as [|Hm]; [discriminate|].
    intros [= H]. split.
    + cbn [to_frac] in H. destruct (0 <=? e).
      * injection H as <- _. apply Z.mul_nonneg_nonneg; [lia|]. apply Z.pow_nonneg. lia.
      * injection H as <- _. assumption.
    + cbn [format_number to_frac] in H |- *. destruct (Z.ltb_spec m 0); [lia|]. rewrite H. reflexivity.
Qed.

(** Every number the model formats takes exactly one of the three paths. *)
Lemma format_number_paths a out : format_number a = Some out ->
  (exists z, 0 <= z /\ (a = NInt z \/ a = NFrac z 1) /\ out = dec_N (Z.to_N z))
  \/ (exists n d, a = NFrac n d /\ 0 <= n /\ d <> 1%positive /\
        pos_in d allowed_denominators = true)
  \/ (exists n d, decimal_operand a = Some (n, d) /\
        out = format_float_sf significant_figures n d).
Proof.
  destruct a as [z|n d|m e]; cbn [format_number format_fraction].
  - destruct (Z.ltb_spec z 0); [discriminate|]. intros [= <-].
    left. exists z. auto.
  - destruct (Z.ltb_spec n 0) as [|Hn]; [discriminate|].
    destruct (Pos.eqb_spec d 1) as [->|Hd].
    + intros [= <-]. left. exists n. auto.
    + destruct (pos_in d allowed_denominators) eqn:Ein; cbn [negb].
      * intros _. right; left. exists n, d. auto.
      * destruct (b64 n d) as [f|] eqn:Eb; [|discriminate].
        destruct (to_frac f) as [fn fd] eqn:Ef. intros [= <-].
        right; right. exists fn, fd. split; [|reflexivity].
        cbn [decimal_operand]. destruct (Z.ltb_spec n 0); [lia|].
        destruct (Pos.eqb_spec d 1); [congruence|]. rewrite Ein, Eb, Ef. reflexivity.
  - destruct (Z.ltb_spec m 0) as [|Hm]; [discriminate|].
    destruct (to_frac (NFloat m e)) as [fn fd] eqn:Ef. intros [= <-].
    right; right. exists fn, fd. split; [|reflexivity].
    cbn [decimal_operand]. destruct (Z.ltb_spec m 0); [lia|]. rewrite Ef. reflexivity.
Qed.

(** ** Below one tenth: three decimal places, not three significant figures *)

Lemma sigfig_below_tenth_refuted :
  exists m e n d ex out mm k,
    0 < m /\ to_frac (NFloat m e) = (n, d) /\
    10 * n < Zpos d /\ decade n d ex /\
    format_number (NFloat m e) = Some out /\
    dec_value out = Some (mm, k) /\
    shown_places 3 n d <> sig_places 3 ex /\
    Z.of_N mm * 10 ^ Z.of_nat (sig_places 3 ex) <>
    rne_div (n * 10 ^ Z.of_nat (sig_places 3 ex)) (Zpos d) * 10 ^ Z.of_nat k.
Proof.
  (* the binary64 value written 0.012345: shown "0.012"; 3 s.f. is 0.0123 *)
  exists 7116407987185763, (-59), 7116407987185763, (Z.to_pos (2 ^ 59)), (-2),
    [48; 46; 48; 49; 50]%N, 12%N, 3%nat.
  split; [lia|]. split; [reflexivity|]. split; [vm_compute; reflexivity|].
  split; [vm_compute; split; [discriminate|reflexivity]|].
  split; [vm_compute; reflexivity|]. split; [vm_compute; reflexivity|].
  split; vm_compute; discriminate.
Qed.

(** Same with an exact rational operand, and the case pinned by the
    project's own tests: 0.00045 is shown as "0". *)
Lemma sigfig_below_tenth_examples :
  format_float_sf 3 12345 1000000 = [48; 46; 48; 49; 50]%N /\
  decade 12345 1000000 (-2) /\ sig_places 3 (-2) = 4%nat /\
  rne_div (12345 * 10 ^ 4) 1000000 = 123 /\
  format_float_sf 3 45 100000 = [48]%N /\
  decade 45 100000 (-4) /\ sig_places 3 (-4) = 6%nat /\
  rne_div (45 * 10 ^ 6) 100000 = 450.
Proof.
  vm_compute. repeat split; try reflexivity; discriminate.
Qed.

(** ** The same facts over Q *)

(** [x] rounded half-even at [fd] decimal places. *)
Definition round_places (fd : nat) (x : Q) : Q :=
  rne_div (Qnum x * 10 ^ Z.of_nat fd) (Zpos (Qden x)) # pow10pos fd.

Lemma pow10pos_Z k : Zpos (pow10pos k) = 10 ^ Z.of_nat k.
Proof. unfold pow10pos. apply Z2Pos.id. apply Zpow10_pos. Qed.

Lemma correctly_rounded_Q sf n d : 0 <= n ->
  exists q, dec_Q (format_float_sf sf n d) = Some q /\
            (q == round_places (shown_places sf n d) (n # d))%Q.
Proof.
  intros Hn. destruct (correctly_rounded sf n d Hn) as (m & k & E & _ & V).
  exists (Z.of_N m # pow10pos k). unfold dec_Q. rewrite E. split; [reflexivity|].
  unfold Qeq, round_places. cbn [Qnum Qden]. rewrite !pow10pos_Z. exact V.
Qed.

Lemma readback_Q sf n d : 0 <= n ->
  exists q, dec_Q (format_float_sf sf n d) = Some q /\
            (Qabs (q - (n # d)) <= 1 # (2 * pow10pos (shown_places sf n d)))%Q.
Proof.
  intros Hn. destruct (readback sf n d Hn) as (m & k & E & _ & V).
  exists (Z.of_N m # pow10pos k). unfold dec_Q. rewrite E. split; [reflexivity|].
  set (fd := shown_places sf n d) in *.
  apply Qabs_Qle_condition.
  unfold Qle, Qminus, Qplus, Qopp. cbn [Qnum Qden].
  rewrite !Pos2Z.inj_mul, !pow10pos_Z.
  set (P := 10 ^ Z.of_nat fd) in *. set (K := 10 ^ Z.of_nat k) in *.
  set (M := Z.of_N m) in *. set (D := Zpos d) in *.
  assert (E1 : (M * D + - n * K) * (2 * P) = 2 * (M * D * P - n * K * P)) by ring.
  rewrite E1. clear E1. set (X := M * D * P - n * K * P) in *.
  rewrite (Z.mul_comm K D). set (DK := D * K) in *. lia.
Qed.

Lemma fraction_value_Q (i n' n : Z) (d : positive) :
  i * Zpos d + n' = n -> (inject_Z i + (n' # d) == n # d)%Q.
Proof.
  intros H. unfold Qeq, Qplus, inject_Z. cbn [Qnum Qden].
  rewrite Pos.mul_1_l. rewrite <- H. ring.
Qed.

(** ** Reading the shown text back with the tool's own number syntax *)

Lemma all_digits_with_dot a f : all_digits (a ++ [c_dot] ++ f) = false.
Proof.
  rewrite !all_digits_app. cbn [all_digits forallb].
  change (is_digit c_dot) with false. cbn [andb]. apply andb_false_r.
Qed.

Lemma parse_number_float_out sf n d : 0 <= n ->
  exists m k, dec_value (format_float_sf sf n d) = Some (m, k) /\
    parsed_Q (parse_number (format_float_sf sf n d)) = Some (Z.of_N m # pow10pos k).
Proof.
  intros Hn.
  destruct (format_float_cases sf n d Hn) as [[E _]|(f & k & Nf & Hf & Hl & _ & E & _)];
    rewrite E.
  - exists (Z.to_N (rne_div n (Zpos d))), O. split; [apply dec_value_int|].
    unfold parse_number. rewrite frac_value_digits by apply all_digits_dec_N.
    rewrite is_nil_dec_N, all_digits_dec_N, val_N_dec_N. reflexivity.
  - eexists _, _. split; [apply dec_value_point; assumption|].
    unfold parse_number. rewrite frac_value_point, all_digits_with_dot, andb_false_r.
    rewrite dec_value_point by assumption. reflexivity.
Qed.

(** Lowest terms, as Python's Fraction guarantees. *)
Definition num_wf (a : num) : Prop :=
  match a with NFrac n d => Z.gcd n (Zpos d) = 1 | _ => True end.

(** Whatever is shown reads back exactly (ints, fractions) or within half a
    unit of the last decimal place used (decimals). *)
Lemma readback_number a out : num_wf a -> format_number a = Some out ->
  exists q, parsed_Q (parse_number out) = Some q /\
    match decimal_operand a with
    | None => (q == to_Q a)%Q
    | Some (n, d) =>
        (Qabs (q - (n # d)) <= 1 # (2 * pow10pos (shown_places significant_figures n d)))%Q
    end.
Proof.
  intros Wf F. destruct (format_number_paths a out F) as
    [(z & Hz & Ha & ->)|[(n & d & -> & Hn & Hd & Hin)|(n & d & Op & ->)]].
  - destruct (int_exact z Hz) as (_ & _ & P). rewrite P.
    exists (inject_Z z). cbn [parsed_Q]. rewrite Z2N.id by assumption.
    split; [reflexivity|].
    destruct Ha as [-> | ->]; cbn [decimal_operand].
    + reflexivity.
    + change (1 =? 1)%positive with true. rewrite orb_true_r. cbn [orb]. reflexivity.
  - cbn [num_wf] in Wf.
    assert (Op : decimal_operand (NFrac n d) = None).
    { cbn [decimal_operand]. rewrite Hin, !orb_true_r. reflexivity. }
    rewrite Op.
    destruct (fraction_exact n d Hn Wf Hd Hin) as (Hn0 & [(L & i & n' & Hi & Hn' & _ & Ev & Fo & Pa)|(L & Fo & Pa)]);
      rewrite Fo in F; injection F as <-; unfold parse_number; cbn [app] in Pa |- *; rewrite Pa;
      cbn [N.eqb parsed_Q].
    + eexists. split; [reflexivity|]. rewrite !Z2N.id by lia.
      apply fraction_value_Q. assumption.
    + eexists. split; [reflexivity|]. rewrite Z2N.id by lia.
      apply fraction_value_Q. cbn. lia.
  - rewrite Op. destruct (decimal_path a n d Op) as [Hn _].
    destruct (parse_number_float_out significant_figures n d Hn) as (m & k & E & P).
    destruct (readback_Q significant_figures n d Hn) as (q & Eq & B).
    unfold dec_Q in Eq. rewrite E in Eq. injection Eq as <-.
    eexists. split; [exact P|exact B].
Qed.
