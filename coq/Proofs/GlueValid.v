(** * Glue for C08: compiled recipes and all their scalings are strictly valid.

    Composition of [compile_strictly_valid] (Proofs/CompilerInvMain.v) with
    [scale_preserves_strict] / [strict_implies_ok] (Proofs/RecipeValid.v),
    from ASTs and from source text, for one factor and for any sequence of
    factors. *)
From Coq Require Import List ZArith NArith Bool Lia.
From RG Require Import Base.Str Base.Num Model.Recipe Model.Compiler Model.CompilerInst Model.Parser Spec.Valid
  Proofs.RecipeInd Proofs.RecipeValid Proofs.CompilerInvMain.
Import ListNotations.

(** [recipe.scale(k1).scale(k2)...]: [None] as soon as one scaling leaves the number model. *)
Fixpoint scale_blocks_iter (ks : list num) (bs : list (list node)) : option (list (list node)) :=
  match ks with
  | [] => Some bs
  | k :: ks' => match scale_blocks k bs with Some bs1 => scale_blocks_iter ks' bs1 | None => None end
  end.

Lemma scale_iter_preserves_strict : forall ks bs bs',
  strictly_valid bs -> scale_blocks_iter ks bs = Some bs' -> strictly_valid bs'.
Proof.
  induction ks as [|k ks IH]; intros bs bs' Hv H; simpl in H.
  - inversion H; subst; exact Hv.
  - destruct (scale_blocks k bs) as [bs1|] eqn:E; [|discriminate].
    eapply IH; [|exact H]. eapply scale_preserves_strict; eauto.
Qed.

Section Compiled.
  Variable convert : str -> str -> option num.
  Variable tol : Z * positive.
  Variable lower : str -> str.

  Theorem compiled_valid_ok p bs :
    compile_ast convert tol lower p = COk bs -> strictly_valid bs /\ recipe_ok bs = true.
  Proof.
    intro H. pose proof (compile_strictly_valid convert tol lower p bs H) as Hv.
    split; [exact Hv|now apply strict_implies_ok].
  Qed.

  Theorem compiled_scaled_valid p bs k bs' :
    compile_ast convert tol lower p = COk bs -> scale_blocks k bs = Some bs' -> strictly_valid bs'.
  Proof. intros H Hs. eapply scale_preserves_strict; [|exact Hs]. eapply compile_strictly_valid; eauto. Qed.

  Theorem compiled_scaled_ok p bs k bs' :
    compile_ast convert tol lower p = COk bs -> scale_blocks k bs = Some bs' -> recipe_ok bs' = true.
  Proof. intros H Hs. apply strict_implies_ok. eapply compiled_scaled_valid; eauto. Qed.

  Theorem compiled_iter_scaled_valid p bs ks bs' :
    compile_ast convert tol lower p = COk bs -> scale_blocks_iter ks bs = Some bs' ->
    strictly_valid bs' /\ recipe_ok bs' = true.
  Proof.
    intros H Hs. assert (Hv : strictly_valid bs').
    { eapply scale_iter_preserves_strict; [|exact Hs]. eapply compile_strictly_valid; eauto. }
    split; [exact Hv|now apply strict_implies_ok].
  Qed.
End Compiled.

(** ** From source text *)
Lemma compile_src_ok_inv srcs bs : compile_src srcs = SrcOk bs ->
  exists p, parse_blocks 0 srcs = inr p /\ compile_ast_inst p = COk bs.
Proof.
  unfold compile_src, compile_src_with. intro H.
  destruct (parse_blocks 0 srcs) as [e|p] eqn:Ep.
  - subst e. exfalso. revert Ep. generalize 0%nat.
    induction srcs as [|x r IH]; intros i Ep; simpl in Ep; [discriminate|].
    destruct (parse x); try discriminate. destruct (parse_blocks (S i) r) eqn:E2; [|discriminate].
    inversion Ep; subst. eapply IH; eauto.
  - exists p. split; [reflexivity|].
    destruct (compile_ast_inst p) as [bs0|k b o|c]; try discriminate. inversion H; reflexivity.
Qed.

Theorem src_valid_ok srcs bs :
  compile_src srcs = SrcOk bs -> strictly_valid bs /\ recipe_ok bs = true.
Proof. intro H. destruct (compile_src_ok_inv _ _ H) as (p & _ & Hc). eapply compiled_valid_ok; exact Hc. Qed.

Theorem src_iter_scaled_valid srcs bs ks bs' :
  compile_src srcs = SrcOk bs -> scale_blocks_iter ks bs = Some bs' ->
  strictly_valid bs' /\ recipe_ok bs' = true.
Proof.
  intros H Hs. destruct (compile_src_ok_inv _ _ H) as (p & _ & Hc).
  eapply compiled_iter_scaled_valid; [exact Hc|exact Hs].
Qed.

Theorem src_scaled_valid srcs bs k bs' :
  compile_src srcs = SrcOk bs -> scale_blocks k bs = Some bs' ->
  strictly_valid bs' /\ recipe_ok bs' = true.
Proof.
  intros H Hs. apply (src_iter_scaled_valid srcs bs [k] bs' H). simpl. rewrite Hs. reflexivity.
Qed.
