(** * Scaling (C03): which parts of a recipe tree are scalable numbers, and
    how [scale_node] acts on them.

    [numbers t]: every scalable number of [t] in the order the scale methods
    visit them (description before quantity / inputs, sub tree before output
    names, embedded sub recipe before the reference's amount; the sub recipes
    embedded in references are included).  Proportion values are NOT scalable.
    [skeleton t]: [t] with every scalable number replaced by the token
    [NInt 0]; it contains everything else: structure, texts, units, spacing,
    prepositions, proportions, output indices, flags.

    [node_R Rn t t']: [t] and [t'] have the same skeleton and their numbers
    are pairwise related by [Rn].  Scaling by [k] relates [t] to its result by
    "v' = v * k" (Python arithmetic, [nmul]).  Identity, composition and
    equality results are obtained by reasoning on [Rn] pointwise. *)
From Coq Require Import List ZArith NArith QArith Bool Lia.
From RG Require Import Base.Str Base.Num Model.Recipe Proofs.RecipeInd.
Import ListNotations.

(** ** Views *)
Definition token : num := NInt 0.

Definition part_numbers (p : part) : list num := match p with PNum v => [v] | PStr _ => [] end.
Definition part_skeleton (p : part) : part := match p with PNum _ => PNum token | PStr x => PStr x end.
Definition svs_numbers (d : svs) : list num := flat_map part_numbers d.
Definition svs_skeleton (d : svs) : svs := map part_skeleton d.

Definition quantity_skeleton (q : quantity) : quantity := mkQ token (q_unit q) (q_spacing q) (q_prep q).
Definition optq_numbers (q : option quantity) : list num := match q with Some q0 => [q_value q0] | None => [] end.
Definition amount_numbers (a : amount) : list num := match a with AQty q => [q_value q] | AProp _ => [] end.
Definition amount_skeleton (a : amount) : amount :=
  match a with AQty q => AQty (quantity_skeleton q) | AProp p => AProp p end.

Fixpoint numbers (t : node) {struct t} : list num :=
  match t with
  | Ingredient d q => svs_numbers d ++ optq_numbers q
  | Step d ins => svs_numbers d ++ flat_map numbers ins
  | Reference sr _ a => numbers sr ++ amount_numbers a
  | SubRecipe b ns _ => numbers b ++ flat_map svs_numbers ns
  end.

Fixpoint skeleton (t : node) {struct t} : node :=
  match t with
  | Ingredient d q => Ingredient (svs_skeleton d) (option_map quantity_skeleton q)
  | Step d ins => Step (svs_skeleton d) (map skeleton ins)
  | Reference sr i a => Reference (skeleton sr) i (amount_skeleton a)
  | SubRecipe b ns sh => SubRecipe (skeleton b) (map svs_skeleton ns) sh
  end.

Definition blocks_numbers (bs : list (list node)) : list num := flat_map (flat_map numbers) bs.

(** ** The structural relation *)
Section Rel.
  Variable Rn : num -> num -> Prop.

  Definition part_R (p p' : part) : Prop :=
    match p, p' with
    | PStr x, PStr y => x = y
    | PNum v, PNum v' => Rn v v'
    | _, _ => False
    end.
  Definition svs_R : svs -> svs -> Prop := Forall2 part_R.

  Definition quantity_R (q q' : quantity) : Prop :=
    Rn (q_value q) (q_value q') /\ q_unit q = q_unit q' /\ q_spacing q = q_spacing q' /\ q_prep q = q_prep q'.
  Definition optq_R (q q' : option quantity) : Prop :=
    match q, q' with
    | Some a, Some b => quantity_R a b
    | None, None => True
    | _, _ => False
    end.
  Definition amount_R (a a' : amount) : Prop :=
    match a, a' with
    | AQty q, AQty q' => quantity_R q q'
    | AProp p, AProp p' => p = p'
    | _, _ => False
    end.

  Fixpoint node_R (t t' : node) {struct t} : Prop :=
    match t, t' with
    | Ingredient d q, Ingredient d' q' => svs_R d d' /\ optq_R q q'
    | Step d ins, Step d' ins' =>
        svs_R d d' /\
        (fix go (l l' : list node) {struct l} : Prop :=
           match l, l' with
           | [], [] => True
           | x :: r, y :: r' => node_R x y /\ go r r'
           | _, _ => False
           end) ins ins'
    | Reference sr i a, Reference sr' i' a' => node_R sr sr' /\ i = i' /\ amount_R a a'
    | SubRecipe b ns sh, SubRecipe b' ns' sh' => node_R b b' /\ Forall2 svs_R ns ns' /\ sh = sh'
    | _, _ => False
    end.

  Lemma node_R_list_Forall2 l l' :
    (fix go (l l' : list node) {struct l} : Prop :=
       match l, l' with
       | [], [] => True
       | x :: r, y :: r' => node_R x y /\ go r r'
       | _, _ => False
       end) l l' <-> Forall2 node_R l l'.
  Proof.
    revert l'; induction l as [|x r IH]; destruct l' as [|y r'].
    - split; [constructor | trivial].
    - split; [tauto | intro H; inversion H].
    - split; [tauto | intro H; inversion H].
    - rewrite IH. split; [intros [A B]; now constructor | intro H; inversion H; tauto].
  Qed.

  Lemma node_R_Step d ins d' ins' :
    node_R (Step d ins) (Step d' ins') <-> svs_R d d' /\ Forall2 node_R ins ins'.
  Proof. simpl. now rewrite node_R_list_Forall2. Qed.
End Rel.

(** Inversion: the right-hand side has the same constructor. *)
Lemma node_R_inv Rn t t' : node_R Rn t t' ->
  match t with
  | Ingredient d q => exists d' q', t' = Ingredient d' q' /\ svs_R Rn d d' /\ optq_R Rn q q'
  | Step d ins => exists d' ins', t' = Step d' ins' /\ svs_R Rn d d' /\ Forall2 (node_R Rn) ins ins'
  | Reference sr i a => exists sr' a', t' = Reference sr' i a' /\ node_R Rn sr sr' /\ amount_R Rn a a'
  | SubRecipe b ns sh => exists b' ns', t' = SubRecipe b' ns' sh /\ node_R Rn b b' /\ Forall2 (svs_R Rn) ns ns'
  end.
Proof.
  destruct t as [d q | d ins | sr i a | b ns sh]; destruct t' as [d' q' | d' ins' | sr' i' a' | b' ns' sh'];
    try (simpl; tauto).
  - simpl. intros [A B]. eauto.
  - rewrite node_R_Step. intros [A B]. eauto.
  - simpl. intros (A & -> & B). eauto.
  - simpl. intros (A & B & ->). eauto.
Qed.

(** ** Generic facts about [node_R] *)

Lemma Forall2_impl_In {A B} (R R' : A -> B -> Prop) l l' :
  Forall (fun x => forall y, R x y -> R' x y) l -> Forall2 R l l' -> Forall2 R' l l'.
Proof.
  intros HF H. induction H as [|x y l l' Hxy _ IH]; [constructor|].
  inversion HF; subst. constructor; auto.
Qed.

Lemma Forall2_mono {A B} (R R' : A -> B -> Prop) l l' :
  (forall x y, R x y -> R' x y) -> Forall2 R l l' -> Forall2 R' l l'.
Proof. intros H HF. induction HF; constructor; auto. Qed.

Section Mono.
  Variables R R' : num -> num -> Prop.
  Hypothesis HR : forall v v', R v v' -> R' v v'.

  Lemma part_R_mono p p' : part_R R p p' -> part_R R' p p'.
  Proof. destruct p, p'; simpl; auto. Qed.
  Lemma svs_R_mono d d' : svs_R R d d' -> svs_R R' d d'.
  Proof. apply Forall2_mono, part_R_mono. Qed.
  Lemma quantity_R_mono q q' : quantity_R R q q' -> quantity_R R' q q'.
  Proof. unfold quantity_R. intuition. Qed.
  Lemma optq_R_mono q q' : optq_R R q q' -> optq_R R' q q'.
  Proof. destruct q, q'; simpl; auto using quantity_R_mono. Qed.
  Lemma amount_R_mono a a' : amount_R R a a' -> amount_R R' a a'.
  Proof. destruct a, a'; simpl; auto using quantity_R_mono. Qed.

  Lemma node_R_mono : forall t t', node_R R t t' -> node_R R' t t'.
  Proof.
    induction t as [d q | d ins IH | sr i a IH | b ns sh IH] using node_ind'; intros t' H;
      apply node_R_inv in H.
    - destruct H as (d' & q' & -> & A & B). simpl. auto using svs_R_mono, optq_R_mono.
    - destruct H as (d' & ins' & -> & A & B). apply node_R_Step. split; [now apply svs_R_mono|].
      eapply Forall2_impl_In; eauto.
    - destruct H as (sr' & a' & -> & A & B). simpl. auto using amount_R_mono.
    - destruct H as (b' & ns' & -> & A & B). simpl. repeat split; auto.
      eapply Forall2_mono; [apply svs_R_mono | exact B].
  Qed.
End Mono.

(** Flip. *)
Definition flipR (R : num -> num -> Prop) : num -> num -> Prop := fun a b => R b a.

Lemma Forall2_flip {A B} (R : A -> B -> Prop) l l' : Forall2 R l l' -> Forall2 (fun y x => R x y) l' l.
Proof. induction 1; constructor; auto. Qed.

Section Sym.
  Variable R : num -> num -> Prop.
  Lemma part_R_sym p p' : part_R R p p' -> part_R (flipR R) p' p.
  Proof. destruct p, p'; simpl; unfold flipR; auto. Qed.
  Lemma svs_R_sym d d' : svs_R R d d' -> svs_R (flipR R) d' d.
  Proof. intro H. apply Forall2_flip in H. eapply Forall2_mono; [|exact H]. intros; now apply part_R_sym. Qed.
  Lemma quantity_R_sym q q' : quantity_R R q q' -> quantity_R (flipR R) q' q.
  Proof. unfold quantity_R, flipR. intuition. Qed.
  Lemma optq_R_sym q q' : optq_R R q q' -> optq_R (flipR R) q' q.
  Proof. destruct q, q'; simpl; auto using quantity_R_sym. Qed.
  Lemma amount_R_sym a a' : amount_R R a a' -> amount_R (flipR R) a' a.
  Proof. destruct a, a'; simpl; auto using quantity_R_sym. Qed.

  Lemma Forall2_flip_In {A} (P Q : A -> A -> Prop) l l' :
    Forall (fun x => forall y, P x y -> Q y x) l -> Forall2 P l l' -> Forall2 Q l' l.
  Proof.
    intros HF H. induction H as [|x y l l' Hxy _ IH]; [constructor|].
    inversion HF; subst. constructor; auto.
  Qed.

  Lemma node_R_sym : forall t t', node_R R t t' -> node_R (flipR R) t' t.
  Proof.
    induction t as [d q | d ins IH | sr i a IH | b ns sh IH] using node_ind'; intros t' H;
      apply node_R_inv in H.
    - destruct H as (d' & q' & -> & A & B). simpl. auto using svs_R_sym, optq_R_sym.
    - destruct H as (d' & ins' & -> & A & B). apply node_R_Step. split; [now apply svs_R_sym|].
      eapply Forall2_flip_In; eauto.
    - destruct H as (sr' & a' & -> & A & B). simpl. auto using amount_R_sym.
    - destruct H as (b' & ns' & -> & A & B). simpl. repeat split; auto.
      apply Forall2_flip in B. eapply Forall2_mono; [|exact B]. intros; now apply svs_R_sym.
  Qed.
End Sym.

(** Composition. *)
Definition compR (R1 R2 : num -> num -> Prop) : num -> num -> Prop :=
  fun a c => exists b, R1 a b /\ R2 b c.

Lemma Forall2_trans {A} (P Q S : A -> A -> Prop) l1 l2 l3 :
  (forall x y z, P x y -> Q y z -> S x z) -> Forall2 P l1 l2 -> Forall2 Q l2 l3 -> Forall2 S l1 l3.
Proof.
  intros H H1. revert l3. induction H1 as [|x y l l' Hxy _ IH]; intros l3 H2; inversion H2; subst; constructor; eauto.
Qed.

Section Trans.
  Variables R1 R2 : num -> num -> Prop.
  Lemma part_R_trans p1 p2 p3 : part_R R1 p1 p2 -> part_R R2 p2 p3 -> part_R (compR R1 R2) p1 p3.
  Proof. destruct p1, p2, p3; simpl; try tauto; try congruence. intros; eexists; eauto. Qed.
  Lemma svs_R_trans d1 d2 d3 : svs_R R1 d1 d2 -> svs_R R2 d2 d3 -> svs_R (compR R1 R2) d1 d3.
  Proof. apply Forall2_trans, part_R_trans. Qed.
  Lemma quantity_R_trans q1 q2 q3 : quantity_R R1 q1 q2 -> quantity_R R2 q2 q3 -> quantity_R (compR R1 R2) q1 q3.
  Proof.
    unfold quantity_R. intros (A & B & C & D) (A' & B' & C' & D').
    repeat split; try congruence. eexists; eauto.
  Qed.
  Lemma optq_R_trans q1 q2 q3 : optq_R R1 q1 q2 -> optq_R R2 q2 q3 -> optq_R (compR R1 R2) q1 q3.
  Proof. destruct q1, q2, q3; simpl; try tauto. apply quantity_R_trans. Qed.
  Lemma amount_R_trans a1 a2 a3 : amount_R R1 a1 a2 -> amount_R R2 a2 a3 -> amount_R (compR R1 R2) a1 a3.
  Proof. destruct a1, a2, a3; simpl; try tauto; try congruence. apply quantity_R_trans. Qed.

  Lemma Forall2_trans_In {A} (P Q S : A -> A -> Prop) l1 l2 l3 :
    Forall (fun x => forall y z, P x y -> Q y z -> S x z) l1 ->
    Forall2 P l1 l2 -> Forall2 Q l2 l3 -> Forall2 S l1 l3.
  Proof.
    intros HF H1. revert l3. induction H1 as [|x y l l' Hxy _ IH]; intros l3 H2;
      inversion H2; subst; [constructor|]. inversion HF; subst. constructor; eauto.
  Qed.

  Lemma node_R_trans : forall t1 t2 t3, node_R R1 t1 t2 -> node_R R2 t2 t3 -> node_R (compR R1 R2) t1 t3.
  Proof.
    induction t1 as [d q | d ins IH | sr i a IH | b ns sh IH] using node_ind'; intros t2 t3 H1 H2;
      apply node_R_inv in H1.
    - destruct H1 as (d' & q' & -> & A & B). apply node_R_inv in H2.
      destruct H2 as (d'' & q'' & -> & A' & B'). simpl. eauto using svs_R_trans, optq_R_trans.
    - destruct H1 as (d' & ins' & -> & A & B). apply node_R_inv in H2.
      destruct H2 as (d'' & ins'' & -> & A' & B'). apply node_R_Step.
      split; [eapply svs_R_trans; eauto|]. eapply Forall2_trans_In; eauto.
    - destruct H1 as (sr' & a' & -> & A & B). apply node_R_inv in H2.
      destruct H2 as (sr'' & a'' & -> & A' & B'). simpl. eauto using amount_R_trans.
    - destruct H1 as (b' & ns' & -> & A & B). apply node_R_inv in H2.
      destruct H2 as (b'' & ns'' & -> & A' & B'). simpl. repeat split; eauto.
      eapply Forall2_trans; [|exact B|exact B']. intros; eapply svs_R_trans; eauto.
  Qed.
End Trans.

(** Restriction to a property of the left numbers. *)
Section Restrict.
  Variable R : num -> num -> Prop.
  Variable P : num -> Prop.
  Let RP : num -> num -> Prop := fun v v' => P v /\ R v v'.

  Lemma svs_R_restrict d d' : svs_R R d d' -> Forall P (svs_numbers d) -> svs_R RP d d'.
  Proof.
    induction 1 as [|p p' l l' Hp _ IH]; simpl; [constructor|].
    rewrite Forall_app. intros [A B]. constructor; [|exact (IH B)].
    destruct p, p'; simpl in *; try tauto. inversion A; subst. split; assumption.
  Qed.

  Lemma optq_R_restrict q q' : optq_R R q q' -> Forall P (optq_numbers q) -> optq_R RP q q'.
  Proof.
    destruct q, q'; simpl; try tauto. unfold quantity_R. intros (A & B) HF. inversion HF; subst.
    split; [split|]; assumption.
  Qed.

  Lemma amount_R_restrict a a' : amount_R R a a' -> Forall P (amount_numbers a) -> amount_R RP a a'.
  Proof.
    destruct a, a'; simpl; try tauto. unfold quantity_R. intros (A & B) HF. inversion HF; subst.
    split; [split|]; assumption.
  Qed.

  Lemma Forall_flat_map_inv {A B} (Q : B -> Prop) (f : A -> list B) l :
    Forall Q (flat_map f l) -> Forall (fun x => Forall Q (f x)) l.
  Proof.
    induction l as [|x r IH]; simpl; [constructor|]. rewrite Forall_app. intros [A1 A2]. constructor; auto.
  Qed.

  Lemma node_R_restrict : forall t t', node_R R t t' -> Forall P (numbers t) -> node_R RP t t'.
  Proof.
    induction t as [d q | d ins IH | sr i a IH | b ns sh IH] using node_ind'; intros t' H HF;
      apply node_R_inv in H; simpl in HF; rewrite Forall_app in HF; destruct HF as [F1 F2].
    - destruct H as (d' & q' & -> & A & B). simpl. auto using svs_R_restrict, optq_R_restrict.
    - destruct H as (d' & ins' & -> & A & B). apply node_R_Step. split; [now apply svs_R_restrict|].
      apply Forall_flat_map_inv in F2. clear A F1. induction B as [|x y l l' Hxy _ IHB]; [constructor|].
      inversion IH; inversion F2; subst. constructor; auto.
    - destruct H as (sr' & a' & -> & A & B). simpl. auto using amount_R_restrict.
    - destruct H as (b' & ns' & -> & A & B). simpl. repeat split; auto.
      apply Forall_flat_map_inv in F2. clear A F1. induction B as [|x y l l' Hxy _ IHB]; [constructor|].
      inversion F2; subst. constructor; auto using svs_R_restrict.
  Qed.
End Restrict.

(** Numbers related pointwise by Python [==] give [==] trees. *)
Section Eqb.
  Variable R : num -> num -> Prop.
  Hypothesis HR : forall v v', R v v' -> num_eqb v v' = true.

  Lemma svs_R_eqb d d' : svs_R R d d' -> svs_eqb d d' = true.
  Proof.
    induction 1 as [|p p' l l' Hp _ IH]; simpl; [reflexivity|].
    apply andb_true_iff. split; [|exact IH].
    destruct p, p'; simpl in *; try tauto; [subst; apply str_eqb_refl | auto].
  Qed.

  Lemma quantity_R_eqb q q' : quantity_R R q q' -> quantity_eqb q q' = true.
  Proof.
    unfold quantity_R, quantity_eqb. intros (A & B & C & D). rewrite (HR _ _ A), B, C, D.
    now rewrite (option_eqb_refl str_eqb str_eqb_refl), !str_eqb_refl.
  Qed.

  Lemma node_R_eqb : forall t t', node_R R t t' -> node_eqb t t' = true.
  Proof.
    induction t as [d q | d ins IH | sr i a IH | b ns sh IH] using node_ind'; intros t' H;
      apply node_R_inv in H.
    - destruct H as (d' & q' & -> & A & B). simpl. rewrite (svs_R_eqb _ _ A). simpl.
      destruct q, q'; simpl in *; try tauto. now apply quantity_R_eqb.
    - destruct H as (d' & ins' & -> & A & B). rewrite node_eqb_Step, (svs_R_eqb _ _ A). simpl.
      induction B as [|x y l l' Hxy _ IHB]; simpl; [reflexivity|].
      inversion IH; subst. rewrite (H1 y Hxy). simpl. auto.
    - destruct H as (sr' & a' & -> & A & B). simpl. rewrite (IH _ A), Nat.eqb_refl. simpl.
      destruct a, a'; simpl in *; try tauto; [now apply quantity_R_eqb | subst; apply proportion_eqb_refl].
    - destruct H as (b' & ns' & -> & A & B). simpl. rewrite (IH _ A), bool_eqb_refl, andb_true_r. simpl.
      induction B as [|x y l l' Hxy _ IHB]; simpl; [reflexivity|].
      now rewrite (svs_R_eqb _ _ Hxy), IHB.
  Qed.
End Eqb.

(** Numbers related by Leibniz equality give equal trees. *)
Lemma svs_R_eq d d' : svs_R (fun v v' => v' = v) d d' -> d' = d.
Proof.
  induction 1 as [|p p' l l' Hp _ IH]; [reflexivity|]. subst.
  destruct p, p'; simpl in *; try tauto; congruence.
Qed.

Lemma quantity_R_eq q q' : quantity_R (fun v v' => v' = v) q q' -> q' = q.
Proof. destruct q, q'; unfold quantity_R; simpl. intros (A & B & C & D). congruence. Qed.

Lemma node_R_eq : forall t t', node_R (fun v v' => v' = v) t t' -> t' = t.
Proof.
  induction t as [d q | d ins IH | sr i a IH | b ns sh IH] using node_ind'; intros t' H;
    apply node_R_inv in H.
  - destruct H as (d' & q' & -> & A & B). apply svs_R_eq in A. subst.
    destruct q, q'; simpl in *; try tauto. apply quantity_R_eq in B. congruence.
  - destruct H as (d' & ins' & -> & A & B). apply svs_R_eq in A. subst. f_equal.
    induction B as [|x y l l' Hxy _ IHB]; [reflexivity|]. inversion IH; subst.
    rewrite (H1 y Hxy). f_equal. auto.
  - destruct H as (sr' & a' & -> & A & B). rewrite (IH _ A). f_equal.
    destruct a, a'; simpl in *; try tauto; [apply quantity_R_eq in B | ]; congruence.
  - destruct H as (b' & ns' & -> & A & B). rewrite (IH _ A). f_equal.
    induction B as [|x y l l' Hxy _ IHB]; [reflexivity|]. rewrite (svs_R_eq _ _ Hxy). f_equal. auto.
Qed.

(** [node_R] = same skeleton and pointwise related numbers. *)
Lemma svs_R_views R d d' : svs_R R d d' -> svs_skeleton d' = svs_skeleton d /\ Forall2 R (svs_numbers d) (svs_numbers d').
Proof.
  induction 1 as [|p p' l l' Hp _ [IH1 IH2]]; simpl; [split; [reflexivity|constructor]|].
  destruct p, p'; simpl in *; try tauto; subst; (split; [congruence|]); [exact IH2 | now constructor].
Qed.

Lemma quantity_R_views R q q' : quantity_R R q q' -> quantity_skeleton q' = quantity_skeleton q /\ R (q_value q) (q_value q').
Proof. unfold quantity_R, quantity_skeleton. intros (A & B & C & D). split; [congruence | exact A]. Qed.

Lemma Forall2_flat_map {A B} (R : B -> B -> Prop) (f : A -> list B) (Q : A -> A -> Prop) l l' :
  Forall2 Q l l' -> Forall (fun x => forall y, Q x y -> Forall2 R (f x) (f y)) l ->
  Forall2 R (flat_map f l) (flat_map f l').
Proof.
  induction 1 as [|x y l l' Hxy _ IH]; simpl; [constructor|]. intro HF. inversion HF; subst.
  apply Forall2_app; auto.
Qed.

Lemma node_R_views R : forall t t', node_R R t t' ->
  skeleton t' = skeleton t /\ Forall2 R (numbers t) (numbers t').
Proof.
  induction t as [d q | d ins IH | sr i a IH | b ns sh IH] using node_ind'; intros t' H;
    apply node_R_inv in H.
  - destruct H as (d' & q' & -> & A & B). apply svs_R_views in A. destruct A as [A1 A2]. simpl.
    destruct q, q'; simpl in *; try tauto.
    + apply quantity_R_views in B. destruct B as [B1 B2]. split; [congruence|].
      apply Forall2_app; [exact A2 | now constructor].
    + split; [congruence|]. apply Forall2_app; [exact A2 | constructor].
  - destruct H as (d' & ins' & -> & A & B). apply svs_R_views in A. destruct A as [A1 A2]. simpl. split.
    + rewrite A1. f_equal. clear A1 A2. induction B as [|x y l l' Hxy _ IHB]; simpl; [reflexivity|].
      inversion IH; subst. rewrite (proj1 (H1 y Hxy)). f_equal. auto.
    + apply Forall2_app; [exact A2|]. eapply Forall2_flat_map; [exact B|].
      eapply Forall_impl; [|exact IH]. intros x Hx y Hxy. apply (Hx y Hxy).
  - destruct H as (sr' & a' & -> & A & B). destruct (IH _ A) as [I1 I2]. simpl. rewrite I1.
    destruct a, a'; simpl in *; try tauto.
    + apply quantity_R_views in B. destruct B as [B1 B2]. split; [congruence|].
      apply Forall2_app; [exact I2 | now constructor].
    + subst. split; [reflexivity|]. apply Forall2_app; [exact I2 | constructor].
  - destruct H as (b' & ns' & -> & A & B). destruct (IH _ A) as [I1 I2]. simpl. rewrite I1. split.
    + f_equal. clear - B. induction B as [|x y l l' Hxy _ IHB]; simpl; [reflexivity|].
      rewrite (proj1 (svs_R_views _ _ _ Hxy)). f_equal. auto.
    + apply Forall2_app; [exact I2|]. clear - B. induction B as [|x y l l' Hxy _ IHB]; simpl; [constructor|].
      apply Forall2_app; [exact (proj2 (svs_R_views _ _ _ Hxy)) | exact IHB].
Qed.

(** ** Scaling relates a tree to its result by "times k" *)
Definition mulR (k : num) : num -> num -> Prop := fun v v' => nmul v k = NOk v'.

Lemma scale_num_mulR k v v' : scale_num k v = Some v' <-> mulR k v v'.
Proof.
  unfold scale_num, mulR. destruct (nmul v k); split; intro H; try discriminate; congruence.
Qed.

Lemma scale_svs_R k : forall d d', scale_svs k d = Some d' -> svs_R (mulR k) d d'.
Proof.
  induction d as [|p r IH]; intros d' H; simpl in H.
  - inversion H. constructor.
  - destruct p as [x|v].
    + destruct (scale_svs k r) as [r'|]; [|discriminate]. inversion H; subst.
      constructor; [reflexivity | now apply IH].
    + destruct (scale_num k v) as [v'|] eqn:E; [|discriminate].
      destruct (scale_svs k r) as [r'|]; [|discriminate]. inversion H; subst.
      constructor; [now apply scale_num_mulR | now apply IH].
Qed.

Lemma svs_R_scale k : forall d d', svs_R (mulR k) d d' -> scale_svs k d = Some d'.
Proof.
  induction 1 as [|p p' l l' Hp _ IH]; [reflexivity|]. simpl.
  destruct p, p'; simpl in Hp; try tauto.
  - subst. now rewrite IH.
  - apply scale_num_mulR in Hp. now rewrite Hp, IH.
Qed.

Lemma scale_quantity_R k q q' : scale_quantity k q = Some q' -> quantity_R (mulR k) q q'.
Proof.
  unfold scale_quantity. destruct (scale_num k (q_value q)) as [v'|] eqn:E; [|discriminate].
  intro H. inversion H; subst. unfold quantity_R. simpl. repeat split. now apply scale_num_mulR.
Qed.

Lemma scale_amount_R k a a' : scale_amount k a = Some a' -> amount_R (mulR k) a a'.
Proof.
  destruct a as [q|p]; simpl.
  - destruct (scale_quantity k q) as [q'|] eqn:E; [|discriminate]. intro H; inversion H; subst.
    now apply scale_quantity_R.
  - intro H; inversion H; subst. reflexivity.
Qed.

Lemma scale_node_R k : forall t t', scale_node k t = Some t' -> node_R (mulR k) t t'.
Proof.
  induction t as [d q | d ins IH | sr i a IH | b ns sh IH] using node_ind'; intros t' H.
  - simpl in H. destruct (scale_svs k d) as [d'|] eqn:Ed; [|discriminate].
    apply scale_svs_R in Ed. destruct q as [q0|].
    + destruct (scale_quantity k q0) as [q'|] eqn:Eq; [|discriminate]. inversion H; subst.
      simpl. split; [exact Ed | now apply scale_quantity_R].
    + inversion H; subst. simpl. auto.
  - rewrite scale_node_Step in H. destruct (scale_svs k d) as [d'|] eqn:Ed; [|discriminate].
    destruct (map_opt (scale_node k) ins) as [ins'|] eqn:Ei; inversion H; subst.
    apply node_R_Step. split; [now apply scale_svs_R|].
    apply map_opt_Forall2 in Ei. eapply Forall2_impl_In; [|exact Ei]. exact IH.
  - simpl in H. destruct (scale_node k sr) as [sr'|] eqn:Es; [|discriminate].
    destruct (scale_amount k a) as [a'|] eqn:Ea; inversion H; subst.
    simpl. repeat split; [auto | now apply scale_amount_R].
  - simpl in H. destruct (scale_node k b) as [b'|] eqn:Eb; [|discriminate].
    destruct (map_opt (scale_svs k) ns) as [ns'|] eqn:En; inversion H; subst.
    simpl. repeat split; [auto|]. apply map_opt_Forall2 in En.
    eapply Forall2_mono; [|exact En]. intros; now apply scale_svs_R.
Qed.

(** Characterisation (C03): nothing but the scalable numbers changes, and
    each becomes [v * k] in Python arithmetic. *)
Lemma scale_characterised k t t' :
  scale_node k t = Some t' ->
  skeleton t' = skeleton t /\ Forall2 (fun v v' => nmul v k = NOk v') (numbers t) (numbers t').
Proof. intro H. apply scale_node_R in H. now apply node_R_views in H. Qed.

(** ** Normalised scaled-value strings stay normalised *)

Definition part_shape_R : part -> part -> Prop := part_R (fun _ _ => True).

Definition merge_cons (p : part) (r : svs) : svs :=
  match p, r with
  | PStr a, PStr b :: r' => PStr (a ++ b) :: r'
  | _, _ => p :: r
  end.

Lemma svs_merge_cons p r : svs_merge (p :: r) = merge_cons p (svs_merge r).
Proof. destruct p; simpl; [destruct (svs_merge r) as [|[b|v] r']; reflexivity | reflexivity]. Qed.

Lemma merge_cons_R R p p' r r' :
  part_R R p p' -> svs_R R r r' -> svs_R R (merge_cons p r) (merge_cons p' r').
Proof.
  intros Hp Hr. destruct p as [a|v], p' as [a'|v']; simpl in Hp; try tauto.
  - subst. inversion Hr as [|q q' l l' Hq Hl]; subst; simpl.
    + constructor; [reflexivity | constructor].
    + destruct q as [b|w], q' as [b'|w']; simpl in Hq; try tauto.
      * subst. constructor; [reflexivity | exact Hl].
      * constructor; [reflexivity|]. constructor; assumption.
  - simpl. constructor; assumption.
Qed.

Lemma svs_merge_R R d d' : svs_R R d d' -> svs_R R (svs_merge d) (svs_merge d').
Proof.
  induction 1 as [|p p' l l' Hp _ IH]; [constructor|].
  rewrite !svs_merge_cons. now apply merge_cons_R.
Qed.

Lemma filter_nonempty_R R d d' :
  svs_R R d d' -> svs_R R (filter part_nonempty d) (filter part_nonempty d').
Proof.
  induction 1 as [|p p' l l' Hp _ IH]; [constructor|]. simpl.
  destruct p as [a|v], p' as [a'|v']; simpl in Hp; try tauto.
  - subst. destruct a'; simpl; [exact IH | constructor; [reflexivity | exact IH]].
  - simpl. constructor; assumption.
Qed.

Lemma svs_norm_R R d d' : svs_R R d d' -> svs_R R (svs_norm d) (svs_norm d').
Proof. intro H. unfold svs_norm. now apply filter_nonempty_R, svs_merge_R. Qed.

Lemma svs_R_functional (R : num -> num -> Prop) :
  (forall v a b, R v a -> R v b -> a = b) -> forall d d1 d2, svs_R R d d1 -> svs_R R d d2 -> d1 = d2.
Proof.
  intros HF d d1 d2 H1. revert d2. induction H1 as [|p p1 l l1 Hp _ IH]; intros d2 H2; inversion H2; subst; [reflexivity|].
  f_equal; [|auto]. destruct p, p1, y; simpl in *; try tauto; try congruence. f_equal. eauto.
Qed.

Lemma mulR_functional k v a b : mulR k v a -> mulR k v b -> a = b.
Proof. unfold mulR. congruence. Qed.

(** [ScaledValueString.scale] re-normalises its result; on a normalised
    value this changes nothing (so the model's [scale_svs], which does not
    re-normalise, is faithful on normalised values). *)
Lemma svs_normal_preserved k d d' :
  svs_norm d = d -> scale_svs k d = Some d' -> svs_norm d' = d'.
Proof.
  intros Hn H. apply scale_svs_R in H.
  pose proof (svs_norm_R _ _ _ H) as Hn'. rewrite Hn in Hn'.
  eapply svs_R_functional; [apply (mulR_functional k) | exact Hn' | exact H].
Qed.

(** ** Exact numbers: values in Q *)

Definition exact (v : num) : Prop := is_float v = false.
Definition exact_numbers (t : node) : Prop := Forall exact (numbers t).
Definition reduced (v : num) : Prop :=
  match v with NFrac n d => Z.gcd n (Zpos d) = 1%Z | _ => True end.

Lemma num_eqb_Qeq a b : num_eqb a b = true <-> to_Q a == to_Q b.
Proof.
  unfold num_eqb, to_Q. destruct (to_frac a) as [n1 d1], (to_frac b) as [n2 d2].
  unfold Qeq. simpl. apply Z.eqb_eq.
Qed.

Lemma to_Q_mk_frac n d : to_Q (mk_frac n d) == n # d.
Proof.
  unfold mk_frac, to_Q. simpl. unfold Qeq. simpl.
  set (g := Z.gcd n (Zpos d)).
  assert (Hg : (0 < g)%Z).
  { assert (0 <= g)%Z by apply Z.gcd_nonneg.
    assert (g <> 0)%Z; [|lia]. unfold g. intro E. apply Z.gcd_eq_0_r in E. discriminate. }
  destruct (Z.gcd_divide_l n (Zpos d)) as [n' Hn'].
  destruct (Z.gcd_divide_r n (Zpos d)) as [d' Hd'].
  fold g in Hn', Hd'.
  assert (En : (n / g = n')%Z) by (rewrite Hn'; apply Z.div_mul; lia).
  assert (Ed : (Zpos d / g = d')%Z) by (rewrite Hd'; apply Z.div_mul; lia).
  assert (Hd'pos : (0 < d')%Z) by nia.
  rewrite En, Ed, Z2Pos.id by exact Hd'pos.
  nia.
Qed.

Lemma nmul_exact a b : exact a -> exact b ->
  exists r, nmul a b = NOk r /\ exact r /\ to_Q r == to_Q a * to_Q b.
Proof.
  unfold exact. destruct a as [x|n1 d1|m1 e1], b as [y|n2 d2|m2 e2]; simpl; try discriminate; intros _ _.
  - exists (NInt (x * y)). split; [reflexivity|]. split; [reflexivity|]. unfold to_Q, Qeq. simpl. ring.
  - eexists. split; [reflexivity|]. split; [reflexivity|]. rewrite to_Q_mk_frac. unfold to_Q, Qeq. simpl. ring.
  - eexists. split; [reflexivity|]. split; [reflexivity|]. rewrite to_Q_mk_frac. unfold to_Q, Qeq. simpl. ring.
  - eexists. split; [reflexivity|]. split; [reflexivity|]. rewrite to_Q_mk_frac. unfold to_Q, Qeq. simpl. ring.
Qed.

Lemma mk_frac_reduced n d : Z.gcd n (Zpos d) = 1%Z -> mk_frac n d = NFrac n d.
Proof. unfold mk_frac. intros ->. now rewrite Z.div_1_r, Z.div_1_r. Qed.

Lemma nmul_one_identity v : exact v -> reduced v -> nmul v (NInt 1) = NOk v.
Proof.
  unfold exact. destruct v as [x|n d|m e]; simpl; try discriminate; intros _ Hr.
  - now rewrite Z.mul_1_r.
  - rewrite Z.mul_1_r, Pos.mul_1_r. now rewrite mk_frac_reduced.
Qed.

(** ** Scaling by a unit factor *)

Lemma mulR_unit_eqb k v v' : exact k -> to_Q k == 1 -> exact v -> mulR k v v' -> num_eqb v v' = true.
Proof.
  intros Hk H1 Hv H. destruct (nmul_exact v k Hv Hk) as (r & Hr & _ & Hq).
  unfold mulR in H. rewrite Hr in H. inversion H; subst.
  apply num_eqb_Qeq. rewrite Hq, H1. ring.
Qed.

(** Scaling by an exact factor of value one (the int 1, Fraction(1)) gives a
    tree [==] to the original, for trees without floats. *)
Lemma scale_unit_exact k t t' :
  exact k -> to_Q k == 1 -> exact_numbers t -> scale_node k t = Some t' -> node_eqb t t' = true.
Proof.
  intros Hk H1 He H. apply scale_node_R in H.
  apply (node_R_restrict _ exact) in H; [|exact He].
  eapply node_R_eqb; [|exact H]. intros v v' [Hv Hm]. exact (mulR_unit_eqb k v v' Hk H1 Hv Hm).
Qed.

(** Floats: [x * 1] is [x] itself whenever the product of the exact value by
    one rounds back to the same float ([float_stable]); with that, any tree. *)
Definition float_stable (v : num) : Prop := is_float v = true -> nmul v (NInt 1) = NOk v.

Lemma scale_one_stable t t' :
  Forall float_stable (numbers t) -> scale_node (NInt 1) t = Some t' -> node_eqb t t' = true.
Proof.
  intros He H. apply scale_node_R in H.
  apply (node_R_restrict _ float_stable) in H; [|exact He].
  eapply node_R_eqb; [|exact H]. intros v v' [Hv Hm].
  destruct (is_float v) eqn:Ef.
  - unfold mulR in Hm. rewrite (Hv Ef) in Hm. inversion Hm; subst. apply num_eqb_refl.
  - apply (mulR_unit_eqb (NInt 1) v v'); [reflexivity | reflexivity | exact Ef | exact Hm].
Qed.

(** With fractions in lowest terms (as Python's Fraction keeps them) scaling
    by the int 1 returns the very same tree. *)
Lemma scale_one_identity t t' :
  Forall (fun v => (exact v /\ reduced v) \/ nmul v (NInt 1) = NOk v) (numbers t) ->
  scale_node (NInt 1) t = Some t' -> t' = t.
Proof.
  intros He H. apply scale_node_R in H.
  apply (node_R_restrict _ _ _ _ H) in He.
  apply node_R_eq. eapply node_R_mono; [|exact He].
  intros v v' [[[Hv Hr]|Hs] Hm]; unfold mulR in Hm.
  - rewrite (nmul_one_identity v Hv Hr) in Hm. congruence.
  - congruence.
Qed.

(** ** Exact scaling never leaves the model and keeps numbers exact *)

Lemma scale_svs_total k d : exact k -> Forall exact (svs_numbers d) ->
  exists d', scale_svs k d = Some d' /\ Forall exact (svs_numbers d').
Proof.
  intros Hk. induction d as [|p r IH]; simpl; intro HF; [exists []; split; [reflexivity|constructor]|].
  rewrite Forall_app in HF. destruct HF as [F1 F2]. destruct (IH F2) as (r' & Er & Fr).
  destruct p as [x|v]; simpl.
  - rewrite Er. simpl. eexists; split; [reflexivity | exact Fr].
  - inversion F1; subst. destruct (nmul_exact v k H1 Hk) as (w & Hw & Ew & _).
    unfold scale_num. rewrite Hw, Er. eexists; split; [reflexivity|]. simpl. now constructor.
Qed.

Lemma scale_node_total k : exact k -> forall t, exact_numbers t ->
  exists t', scale_node k t = Some t' /\ exact_numbers t'.
Proof.
  intro Hk. unfold exact_numbers.
  induction t as [d q | d ins IH | sr i a IH | b ns sh IH] using node_ind'; intro HF; simpl in HF;
    rewrite Forall_app in HF; destruct HF as [F1 F2].
  - simpl. destruct (scale_svs_total k d Hk F1) as (d' & Ed & Fd). rewrite Ed.
    destruct q as [q0|]; simpl in *.
    + inversion F2; subst. destruct (nmul_exact _ k H1 Hk) as (w & Hw & Ew & _).
      unfold scale_quantity, scale_num. rewrite Hw. simpl. eexists; split; [reflexivity|].
      simpl. apply Forall_app. split; [exact Fd | now constructor].
    + eexists; split; [reflexivity|]. simpl. apply Forall_app. split; [exact Fd | constructor].
  - destruct (scale_svs_total k d Hk F1) as (d' & Ed & Fd).
    assert (Hins : exists ins', map_opt (scale_node k) ins = Some ins' /\ Forall exact (flat_map numbers ins')).
    { clear Ed Fd F1. induction ins as [|x r IHr]; simpl; [exists []; split; [reflexivity|constructor]|].
      simpl in F2. rewrite Forall_app in F2. destruct F2 as [Fx Fr]. inversion IH; subst.
      destruct (H1 Fx) as (x' & Ex & Fx'). destruct (IHr H2 Fr) as (r' & Er & Fr').
      rewrite Ex, Er. eexists; split; [reflexivity|]. simpl. apply Forall_app. split; assumption. }
    destruct Hins as (ins' & Ei & Fi).
    exists (Step d' ins'). split.
    + rewrite scale_node_Step, Ed, Ei. reflexivity.
    + simpl. apply Forall_app. split; assumption.
  - simpl. destruct (IH F1) as (sr' & Es & Fs). rewrite Es.
    destruct a as [q|p]; simpl in *.
    + inversion F2; subst. destruct (nmul_exact _ k H1 Hk) as (w & Hw & Ew & _).
      unfold scale_quantity, scale_num. rewrite Hw. simpl. eexists; split; [reflexivity|].
      simpl. apply Forall_app. split; [exact Fs | now constructor].
    + eexists; split; [reflexivity|]. simpl. apply Forall_app. split; [exact Fs | constructor].
  - simpl. destruct (IH F1) as (b' & Eb & Fb). rewrite Eb.
    assert (Hns : exists ns', map_opt (scale_svs k) ns = Some ns' /\ Forall exact (flat_map svs_numbers ns')).
    { clear - Hk F2. induction ns as [|x r IHr]; simpl; [exists []; split; [reflexivity|constructor]|].
      simpl in F2. rewrite Forall_app in F2. destruct F2 as [Fx Fr].
      destruct (scale_svs_total k x Hk Fx) as (x' & Ex & Fx'). destruct (IHr Fr) as (r' & Er & Fr').
      rewrite Ex, Er. eexists; split; [reflexivity|]. simpl. apply Forall_app. split; assumption. }
    destruct Hns as (ns' & En & Fn). rewrite En. eexists; split; [reflexivity|].
    simpl. apply Forall_app. split; assumption.
Qed.

(** ** Composition on exact data *)
Lemma scale_compose a b ab t t1 t2 t3 :
  exact_numbers t -> exact a -> exact b -> nmul a b = NOk ab ->
  scale_node a t = Some t1 -> scale_node b t1 = Some t2 -> scale_node ab t = Some t3 ->
  node_eqb t2 t3 = true.
Proof.
  intros He Ha Hb Hab H1 H2 H3.
  destruct (nmul_exact a b Ha Hb) as (ab' & Hab' & Eab & Qab). rewrite Hab in Hab'. inversion Hab'; subst ab'.
  apply scale_node_R in H1, H2, H3.
  apply (node_R_restrict _ exact) in H1; [|exact He].
  apply (node_R_restrict _ exact) in H3; [|exact He].
  pose proof (node_R_trans _ _ _ _ _ H1 H2) as H12.
  apply node_R_sym in H12.
  pose proof (node_R_trans _ _ _ _ _ H12 H3) as H.
  eapply node_R_eqb; [|exact H].
  intros v2 v3 (v & Hflip & [Hv Hm3]). unfold flipR, compR in Hflip.
  destruct Hflip as (v1 & [_ Hm1] & Hm2). unfold mulR in *.
  destruct (nmul_exact v a Hv Ha) as (r1 & Hr1 & Er1 & Q1). rewrite Hm1 in Hr1. inversion Hr1; subst r1.
  destruct (nmul_exact v1 b Er1 Hb) as (r2 & Hr2 & Er2 & Q2). rewrite Hm2 in Hr2. inversion Hr2; subst r2.
  destruct (nmul_exact v ab Hv Eab) as (r3 & Hr3 & Er3 & Q3). rewrite Hm3 in Hr3. inversion Hr3; subst r3.
  apply num_eqb_Qeq. rewrite Q2, Q1, Q3, Qab. ring.
Qed.

(** The three scalings of the composition law all succeed on exact data. *)
Lemma scale_compose_defined a b t :
  exact_numbers t -> exact a -> exact b ->
  exists ab t1 t2 t3, nmul a b = NOk ab /\ exact ab /\
    scale_node a t = Some t1 /\ scale_node b t1 = Some t2 /\ scale_node ab t = Some t3.
Proof.
  intros He Ha Hb.
  destruct (nmul_exact a b Ha Hb) as (ab & Hab & Eab & _).
  destruct (scale_node_total a Ha t He) as (t1 & H1 & E1).
  destruct (scale_node_total b Hb t1 E1) as (t2 & H2 & _).
  destruct (scale_node_total ab Eab t He) as (t3 & H3 & _).
  exists ab, t1, t2, t3. auto.
Qed.

(** ** Whole recipes (lists of blocks) *)
Lemma scale_trees_characterised k ts ts' :
  map_opt (scale_node k) ts = Some ts' ->
  map skeleton ts' = map skeleton ts /\
  Forall2 (fun v v' => nmul v k = NOk v') (flat_map numbers ts) (flat_map numbers ts').
Proof.
  intro H. apply map_opt_Forall2 in H.
  induction H as [|x y l l' Hxy _ [IH1 IH2]]; simpl; [split; [reflexivity | constructor]|].
  destruct (scale_characterised k x y Hxy) as [A B]. split; [congruence | now apply Forall2_app].
Qed.

Lemma scale_blocks_characterised k bs bs' :
  scale_blocks k bs = Some bs' ->
  map (map skeleton) bs' = map (map skeleton) bs /\
  Forall2 (fun v v' => nmul v k = NOk v') (blocks_numbers bs) (blocks_numbers bs').
Proof.
  unfold scale_blocks, blocks_numbers. intro H. apply map_opt_Forall2 in H.
  induction H as [|x y l l' Hxy _ [IH1 IH2]]; simpl; [split; [reflexivity | constructor]|].
  destruct (scale_trees_characterised k x y Hxy) as [A B]. split; [congruence | now apply Forall2_app].
Qed.
