(** * C07: the parser never reports a failed literal evaluation when the input
    has no run of more than 308 digits (structural part: every parser function
    only ever moves to a suffix of its input and only [sc_number] sets the flag). *)
From Coq Require Import List ZArith NArith Bool Lia Arith String.
From RG Require Import Base.Str Base.Dec Base.Num Gen.GenUnits Model.Recipe Model.Compiler Model.Parser Model.Printer
  Proofs.DecLemmas Proofs.ParserLex Proofs.ParserName Proofs.ParserSafeNum.
From RG Require Model.Units Spec.UnitsRef Proofs.UnitsScan Proofs.UnitsTable Proofs.UnitsTail.
Import ListNotations.
Open Scope string_scope.
Open Scope list_scope.
Open Scope N_scope.

Definition suffix (y x : str) : Prop := exists p : str, x = p ++ y.

Lemma suffix_refl x : suffix x x. Proof. exists []. reflexivity. Qed.
Lemma suffix_trans z y x : suffix z y -> suffix y x -> suffix z x.
Proof. intros [p ->] [q ->]. exists (q ++ p). rewrite app_assoc. reflexivity. Qed.
Lemma suffix_app (m r : str) : suffix r (m ++ r). Proof. exists m. reflexivity. Qed.
Lemma suffix_cons (c : N) (r : str) : suffix r (c :: r). Proof. exists [c]. reflexivity. Qed.
Lemma suffix_cons2 (c d : N) (r : str) : suffix r (c :: d :: r). Proof. exists [c; d]. reflexivity. Qed.

(** No run of more than 308 digits. *)
Definition NL (x : str) : Prop :=
  forall p d q : str, x = p ++ d ++ q -> forallb is_digit d = true -> (List.length d <= 308)%nat.

Lemma NL_suffix y x : NL x -> suffix y x -> NL y.
Proof. intros H [p0 ->] p d q E Hd. apply (H (p0 ++ p) d q); [rewrite E, app_assoc; reflexivity | exact Hd]. Qed.

(** ** Scanners return a suffix of their input *)
Lemma span_suffix p (x w r : str) : span p x = (w, r) -> x = w ++ r /\ forallb p w = true.
Proof. apply ParserLex.span_spec. Qed.

Lemma sc_digits_sound (x d r : str) : sc_digits x = Some (d, r) -> x = d ++ r /\ forallb is_digit d = true.
Proof.
  unfold sc_digits. destruct (span is_digit x) as [d' r'] eqn:E. destruct d'; [discriminate|].
  intro H. inversion H; subst. exact (span_suffix _ _ _ _ E).
Qed.

Lemma sc_hsp_sound (x w r : str) : sc_hsp x = Some (w, r) -> x = w ++ r.
Proof.
  unfold sc_hsp, Units.hsp. change (Units.span Units.is_hsp x) with (span is_hsp x).
  destruct (span is_hsp x) as [w' r'] eqn:E. destruct w'; [discriminate|].
  intro H. inversion H; subst. exact (proj1 (span_suffix _ _ _ _ E)).
Qed.

Lemma opt_hsp_sound (x w r : str) : opt_hsp x = (w, r) -> x = w ++ r.
Proof. intro H. exact (proj1 (span_suffix _ _ _ _ H)). Qed.

Lemma sc_denominator_sound (x d r : str) : sc_denominator x = Some (d, r) ->
  x = d ++ r /\ forallb is_digit d = true /\ forallb (fun c => c =? 48) d = false.
Proof.
  unfold sc_denominator. destruct (span is_digit x) as [d' r'] eqn:E.
  destruct (forallb (fun c => c =? 48) d') eqn:Z; [discriminate|]. intro H. inversion H; subst.
  destruct (span_suffix _ _ _ _ E). auto.
Qed.

(** ** Literals are clean *)
Lemma sc_decimal_clean (x : str) v b n r : NL x -> sc_decimal x = Some ((v, b), n, r) ->
  b = None /\ pct_ok v /\ suffix r x.
Proof.
  intros HN. unfold sc_decimal. destruct (sc_digits x) as [[i r0]|] eqn:Ed; [|discriminate].
  destruct (sc_digits_sound _ _ _ Ed) as [Ex Hi].
  assert (Li : (List.length i <= 308)%nat) by (apply (HN [] i r0); [exact Ex | exact Hi]).
  destruct r0 as [|c r1].
  - intro H. inversion H; subst. destruct (int_of_float_clean i Hi Li) as [z [E P]]. rewrite E in H1.
    inversion H1; subst. repeat split; [exact P | apply suffix_app].
  - destruct (N.eq_dec c 46) as [->|Hne].
    + destruct (span is_digit r1) as [f r2] eqn:Ef. destruct (span_suffix _ _ _ _ Ef) as [E1 Hf].
      intro H. inversion H; subst. destruct (float_of_text_clean i f Hi Li Hf) as [v' [E P]]. rewrite E in H1.
      inversion H1; subst. repeat split; [exact P|]. exists (i ++ 46 :: f). rewrite <- app_assoc. reflexivity.
    + assert (G : Some (int_of_float_text i, len i, c :: r1) = Some (v, b, n, r) -> b = None /\ pct_ok v /\ suffix r x).
      { intro H. inversion H; subst. destruct (int_of_float_clean i Hi Li) as [z [E P]]. rewrite E in H1.
        inversion H1; subst. repeat split; [exact P | apply suffix_app]. }
      destruct c as [|p]; [exact G|]. do 6 (destruct p as [p|p|]; try exact G). contradiction Hne. reflexivity.
Qed.

Lemma sc_fraction_tail_clean (i : option str) k0 (x : str) v b n r :
  NL x -> match i with Some a => (List.length a <= 308)%nat | None => True end ->
  sc_fraction_tail i k0 x = Some ((v, b), n, r) -> b = None /\ pct_ok v /\ suffix r x.
Proof.
  intros HN Hi. unfold sc_fraction_tail. destruct (sc_digits x) as [[nn r2]|] eqn:Ed; [|discriminate].
  destruct (sc_digits_sound _ _ _ Ed) as [Ex Hn].
  destruct (opt_hsp r2) as [w1 r3] eqn:E1. pose proof (opt_hsp_sound _ _ _ E1) as X1.
  destruct r3 as [|c r4]; [discriminate|].
  assert (G : c = 47 \/ c <> 47) by (destruct (N.eq_dec c 47); auto). destruct G as [->|Hne].
  - destruct (opt_hsp r4) as [w2 r5] eqn:E2. pose proof (opt_hsp_sound _ _ _ E2) as X2.
    destruct (sc_denominator r5) as [[d r6]|] eqn:E3; [|discriminate].
    destruct (sc_denominator_sound _ _ _ E3) as [X3 [Hd Hz]].
    intro H. inversion H; subst.
    assert (Ln : (List.length nn <= 308)%nat) by (apply (HN [] nn (w1 ++ 47 :: w2 ++ d ++ r)); [reflexivity | exact Hn]).
    assert (Ld : (List.length d <= 308)%nat).
    { apply (HN (nn ++ w1 ++ 47 :: w2) d r); [|exact Hd]. norm_app. reflexivity. }
    destruct (frac_value_clean i nn d Ln Ld Hi Hd Hz) as [v' [E P]]. rewrite E in H1. inversion H1; subst.
    repeat split; [exact P|]. exists (nn ++ w1 ++ 47 :: w2 ++ d). norm_app. reflexivity.
  - destruct c as [|p]; [discriminate|]. do 6 (destruct p as [p|p|]; try discriminate). contradiction Hne. reflexivity.
Qed.

Lemma sc_number_clean (x : str) v b n r : NL x -> sc_number x = Some ((v, b), n, r) ->
  b = None /\ pct_ok v /\ suffix r x.
Proof.
  intros HN. unfold sc_number. destruct (sc_fraction x) as [[[[v' b'] n'] r']|] eqn:Ef.
  - intro H. inversion H; subst. clear H. unfold sc_fraction in Ef.
    destruct (sc_digits x) as [[a r0]|] eqn:Ed.
    + destruct (sc_digits_sound _ _ _ Ed) as [Ex Ha].
      destruct (sc_hsp r0) as [[w r1]|] eqn:Eh.
      * pose proof (sc_hsp_sound _ _ _ Eh) as Xh.
        assert (La : (List.length a <= 308)%nat) by (apply (HN [] a r0); [exact Ex | exact Ha]).
        assert (S1 : suffix r1 x) by (exists (a ++ w); rewrite Ex, Xh, app_assoc; reflexivity).
        destruct (sc_fraction_tail_clean (Some a) _ r1 v b n r (NL_suffix _ _ HN S1) La Ef) as [A [B C]].
        repeat split; [exact A | exact B | exact (suffix_trans _ _ _ C S1)].
      * exact (sc_fraction_tail_clean None 0 x v b n r HN I Ef).
    + exact (sc_fraction_tail_clean None 0 x v b n r HN I Ef).
  - exact (sc_decimal_clean x v b n r HN).
Qed.

(** ** Strings *)
Lemma naked_tail_sound : forall (x g r : str), naked_tail x = (g, r) -> x = g ++ r.
Proof.
  induction x as [|c t IH]; intros g r H; cbn [naked_tail] in H.
  - inversion H. reflexivity.
  - destruct (naked_mid c); [|inversion H; reflexivity].
    destruct (naked_tail t) as [g' r'] eqn:E. specialize (IH g' r' eq_refl).
    destruct g' as [|a g''].
    + destruct (is_ws c); inversion H; subst; reflexivity.
    + inversion H; subst. reflexivity.
Qed.

Lemma sc_naked_sound (x m r : str) : sc_naked x = Some (m, r) -> x = m ++ r.
Proof.
  unfold sc_naked. destruct x as [|c t]; [discriminate|]. destruct (naked_edge c); [|discriminate].
  destruct (naked_tail t) as [g r'] eqn:E. intro H. inversion H; subst. rewrite (naked_tail_sound _ _ _ E). reflexivity.
Qed.

Lemma q_body_suffix q : forall (x v : str) n (r : str), q_body q x = Some (v, n, r) -> suffix r x.
Proof.
  fix IH 1. intros x v n r. destruct x as [|c t]; cbn [q_body]; [discriminate|].
  destruct (c =? 92).
  - destruct t as [|e t']; [discriminate|]. destruct (q_body q t') as [[[v' n'] r']|] eqn:E; [|discriminate].
    intro H. inversion H; subst. exact (suffix_trans _ _ _ (IH _ _ _ _ E) (suffix_cons2 c e t')).
  - destruct (c =? q); [intro H; inversion H; subst; apply suffix_cons|].
    destruct ((c =? 10) || (c =? 13)); [discriminate|].
    destruct (q_body q t) as [[[v' n'] r']|] eqn:E; [|discriminate].
    intro H. inversion H; subst. exact (suffix_trans _ _ _ (IH _ _ _ _ E) (suffix_cons c t)).
Qed.

Lemma br_body_clean : forall fuel (x : str) ps b n r, NL x ->
  br_body fuel x = Some (Some (ps, b, n, r)) -> b = None /\ suffix r x.
Proof.
  induction fuel as [|f IH]; intros x ps b n r HN; cbn [br_body]; [discriminate|].
  destruct (sc_number x) as [[[[v bb] k] r0]|] eqn:En.
  - destruct (sc_number_clean x v bb k r0 HN En) as [-> [_ S0]].
    destruct (br_body f r0) as [[[[[ps' b'] k'] r']|]|] eqn:E; try discriminate.
    intro H. cbn [note] in H. inversion H; subst. destruct (IH r0 ps' b k' r (NL_suffix _ _ HN S0) E) as [-> S1].
    split; [reflexivity | exact (suffix_trans _ _ _ S1 S0)].
  - destruct x as [|c t]; [discriminate|]. destruct (c =? 92).
    + destruct t as [|e t']; [discriminate|].
      destruct (br_body f t') as [[[[[ps' b'] k'] r']|]|] eqn:E; try discriminate.
      intro H. inversion H; subst.
      destruct (IH t' ps' b k' r (NL_suffix _ _ HN (suffix_cons2 c e t')) E) as [-> S1].
      split; [reflexivity | exact (suffix_trans _ _ _ S1 (suffix_cons2 c e t'))].
    + destruct (c =? 125); [intro H; inversion H; subst; split; [reflexivity | apply suffix_cons]|].
      destruct ((c =? 123) || (c =? 10) || (c =? 13)); [discriminate|].
      destruct (br_body f t) as [[[[[ps' b'] k'] r']|]|] eqn:E; try discriminate.
      intro H. inversion H; subst.
      destruct (IH t ps' b k' r (NL_suffix _ _ HN (suffix_cons c t)) E) as [-> S1].
      split; [reflexivity | exact (suffix_trans _ _ _ S1 (suffix_cons c t))].
Qed.

(** ** The invariant of parser states *)
Definition Inv (s : st) : Prop := bad s = None /\ NL (rest s).
Definition Sfx (s' s : st) : Prop := suffix (rest s') (rest s).

Definition ok {A} (s : st) (r : res A) : Prop :=
  match r with Got _ s' => Inv s' /\ Sfx s' s | _ => True end.
Definition oko {A} (s : st) (r : option (A * st)) : Prop :=
  match r with Some (_, s') => Inv s' /\ Sfx s' s | None => True end.

Lemma Inv_move s (r : str) o : Inv s -> suffix r (rest s) -> Inv (mkSt r o (bad s)) /\ Sfx (mkSt r o (bad s)) s.
Proof. intros [B N0] S. repeat split; [exact B | exact (NL_suffix _ _ N0 S) | exact S]. Qed.

Lemma Inv_adv s (m r : str) : Inv s -> suffix r (rest s) -> Inv (adv s m r) /\ Sfx (adv s m r) s.
Proof. apply Inv_move. Qed.
Lemma Inv_advn s n (r : str) : Inv s -> suffix r (rest s) -> Inv (advn s n r) /\ Sfx (advn s n r) s.
Proof. apply Inv_move. Qed.

Lemma Sfx_refl s : Sfx s s. Proof. apply suffix_refl. Qed.
Lemma Sfx_trans a b c : Sfx a b -> Sfx b c -> Sfx a c. Proof. apply suffix_trans. Qed.

Lemma Inv_eat c s s' : Inv s -> eat c s = Some s' -> Inv s' /\ Sfx s' s.
Proof.
  unfold eat. intros Hi. destruct (rest s) as [|d t] eqn:E; [discriminate|]. destruct (d =? c); [|discriminate].
  intro H. inversion H; subst. destruct Hi as [B N0]. unfold Sfx. cbn [rest bad]. rewrite E in *.
  repeat split; [exact B | exact (NL_suffix _ _ N0 (suffix_cons d t)) | apply suffix_cons].
Qed.

Lemma Inv_skip_hsp s : Inv s -> Inv (snd (skip_hsp s)) /\ Sfx (snd (skip_hsp s)) s.
Proof.
  intro Hi. unfold skip_hsp. destruct (opt_hsp (rest s)) as [w r] eqn:E. cbn [snd].
  apply Inv_adv; [exact Hi|]. rewrite (opt_hsp_sound _ _ _ E). apply suffix_app.
Qed.
Lemma Inv_skip_sp s : Inv s -> Inv (skip_sp s) /\ Sfx (skip_sp s) s.
Proof.
  intro Hi. unfold skip_sp. destruct (opt_sp (rest s)) as [w r] eqn:E.
  apply Inv_adv; [exact Hi|]. rewrite (proj1 (span_suffix _ _ _ _ E)). apply suffix_app.
Qed.

Lemma p_number_ok s : Inv s -> match p_number s with Some (v, s') => Inv s' /\ Sfx s' s /\ pct_ok v | None => True end.
Proof.
  intros [B N0]. unfold p_number. destruct (sc_number (rest s)) as [[[[v b] n] r]|] eqn:E; [|exact I].
  destruct (sc_number_clean _ _ _ _ _ N0 E) as [-> [P S]].
  unfold with_bad, advn. cbn [rest off bad]. rewrite B. cbn [note]. unfold Inv, Sfx. cbn [rest bad].
  repeat split; [exact (NL_suffix _ _ N0 S) | exact S | exact P].
Qed.

Lemma p_segment_ok fuel braces s : Inv s -> ok s (p_segment fuel braces s).
Proof.
  intros Hi. unfold p_segment. destruct (sc_naked (rest s)) as [[m r]|] eqn:En.
  - cbn [ok]. apply Inv_adv; [exact Hi|]. rewrite (sc_naked_sound _ _ _ En). apply suffix_app.
  - destruct (rest s) as [|c t] eqn:Er; [exact I|].
    destruct ((c =? 39) || (c =? 34)).
    + destruct (q_body c t) as [[[v n] r]|] eqn:Eq; [|exact I]. cbn [ok].
      apply Inv_advn; [exact Hi|]. rewrite Er. exact (suffix_trans _ _ _ (q_body_suffix _ _ _ _ _ Eq) (suffix_cons c t)).
    + destruct (braces && (c =? 123)); [|exact I].
      destruct Hi as [B N0]. rewrite Er in N0.
      destruct (br_body fuel t) as [[[[[ps b] n] r]|]|] eqn:Eb; try exact I.
      destruct (br_body_clean _ _ _ _ _ _ (NL_suffix _ _ N0 (suffix_cons c t)) Eb) as [-> S].
      cbn [ok]. unfold with_bad, advn, Inv, Sfx. cbn [rest off bad]. rewrite B, Er. cbn [note].
      pose proof (suffix_trans _ _ _ S (suffix_cons c t)) as S'.
      repeat split; [exact (NL_suffix _ _ N0 S') | exact S'].
Qed.

Lemma p_string_ok : forall fuel braces s, Inv s -> ok s (p_string fuel braces s).
Proof.
  induction fuel as [|f IH]; intros braces s Hi; [exact I|]. rewrite p_string_unfold.
  pose proof (p_segment_ok f braces s Hi) as H1. destruct (p_segment f braces s) as [[ps o] s1| |]; try exact I.
  destruct H1 as [I1 S1]. destruct (Inv_skip_hsp s1 I1) as [I2 S2].
  pose proof (IH braces (snd (skip_hsp s1)) I2) as H3.
  destruct (p_string f braces (snd (skip_hsp s1))) as [[ps2 o2] s3| |]; cbn [ok] in *.
  - destruct H3 as [I3 S3]. split; [exact I3 | exact (Sfx_trans _ _ _ S3 (Sfx_trans _ _ _ S2 S1))].
  - split; assumption.
  - exact I.
Qed.

Lemma p_name_ok fuel s : Inv s -> ok s (p_name fuel s).
Proof.
  intro Hi. unfold p_name. pose proof (p_string_ok fuel true s Hi) as H.
  destruct (p_string fuel true s) as [[ps o] s'| |]; exact H.
Qed.

Lemma p_static_ok fuel s : Inv s -> ok s (p_static fuel s).
Proof.
  intro Hi. unfold p_static. pose proof (p_string_ok fuel false s Hi) as H.
  destruct (p_string fuel false s) as [[ps o] s'| |]; exact H.
Qed.

(** ** Amounts *)
Lemma match_ci_sound w (x m r : str) : Units.match_ci_lit w x = Some (m, r) -> x = m ++ r.
Proof. apply UnitsTail.match_ci_lit_sound. Qed.

Lemma sc_remainder_sound (x m r : str) : sc_remainder x = Some (m, r) -> x = m ++ r.
Proof.
  assert (B : forall p : option (str * str), (forall m0 r0, p = Some (m0, r0) -> x = m0 ++ r0) ->
              forall m0 r0, with_boundary p = Some (m0, r0) -> x = m0 ++ r0).
  { intros p Hp m0 r0. unfold with_boundary. destruct p as [[m' r']|]; [|discriminate].
    destruct (word_end_ok m' r'); [|discriminate]. intro H. inversion H; subst. exact (Hp _ _ eq_refl). }
  assert (L : forall m0 r0, sc_left_over x = Some (m0, r0) -> x = m0 ++ r0).
  { intros m0 r0. unfold sc_left_over. destruct (Units.match_ci_lit (s "left") x) as [[m1 r1]|] eqn:E1; [|discriminate].
    destruct (span is_hsp r1) as [w r2] eqn:E2. destruct (Units.match_ci_lit (s "over") r2) as [[m2 r3]|] eqn:E3; [|discriminate].
    intro H. inversion H; subst. rewrite (match_ci_sound _ _ _ _ E1), (proj1 (span_suffix _ _ _ _ E2)), (match_ci_sound _ _ _ _ E3).
    repeat rewrite <- app_assoc. reflexivity. }
  unfold sc_remainder, first_some.
  destruct (with_boundary (Units.match_ci_lit (s "remaining") x)) as [[m1 r1]|] eqn:E1.
  { intro H. inversion H; subst. exact (B _ (match_ci_sound _ x) _ _ E1). }
  destruct (with_boundary (Units.match_ci_lit (s "remainder") x)) as [[m2 r2]|] eqn:E2.
  { intro H. inversion H; subst. exact (B _ (match_ci_sound _ x) _ _ E2). }
  destruct (with_boundary (Units.match_ci_lit (s "rest") x)) as [[m3 r3]|] eqn:E3.
  { intro H. inversion H; subst. exact (B _ (match_ci_sound _ x) _ _ E3). }
  intro H. exact (B _ L _ _ H).
Qed.

Lemma opt_hsp_prep_sound (x p r : str) : opt_hsp_prep x = (p, r) -> x = p ++ r.
Proof.
  unfold opt_hsp_prep. destruct (sc_hsp x) as [[w r1]|] eqn:Eh.
  - destruct (Units.preposition r1) as [[pp r2]|] eqn:Ep.
    + intro H. inversion H; subst. rewrite (sc_hsp_sound _ _ _ Eh), (UnitsTail.preposition_sound _ _ _ Ep), app_assoc. reflexivity.
    + intro H. inversion H; subst. reflexivity.
  - intro H. inversion H; subst. reflexivity.
Qed.

Lemma known_unit_sound (x m r : str) : Units.known_unit x = Some (m, r) -> x = m ++ r.
Proof.
  unfold Units.known_unit. intro H.
  destruct (UnitsScan.scan_alts_sound known_unit_boundary unit_regex_alts x m r UnitsTable.table_boundary H) as [pa [_ [_ [E _]]]].
  exact E.
Qed.

Lemma implicit_tail_suffix (x sp u pr r : str) : Units.implicit_tail x = Some (sp, u, pr, r) -> suffix r x.
Proof.
  unfold Units.implicit_tail.
  assert (H0 : forall sp0 r0, (match Units.hsp x with Some (w, r1) => (w, r1) | None => ([], x) end) = (sp0, r0) -> x = sp0 ++ r0).
  { intros sp0 r0. destruct (Units.hsp x) as [[w r1]|] eqn:E; intro H; inversion H; subst; [exact (sc_hsp_sound _ _ _ E) | reflexivity]. }
  destruct (match Units.hsp x with Some (w, r1) => (w, r1) | None => ([], x) end) as [sp0 r0] eqn:E0.
  specialize (H0 _ _ eq_refl). destruct (Units.known_unit r0) as [[u0 r1]|] eqn:Ek; [|discriminate].
  pose proof (known_unit_sound _ _ _ Ek) as X1.
  assert (S1 : suffix r1 x) by (exists (sp0 ++ u0); rewrite H0, X1, app_assoc; reflexivity).
  destruct (Units.hsp r1) as [[w r2]|] eqn:Eh.
  - destruct (Units.preposition r2) as [[p r3]|] eqn:Ep.
    + intro H. inversion H; subst. apply (suffix_trans _ r1); [|exact S1].
      exists (w ++ p). rewrite (sc_hsp_sound _ _ _ Eh), (UnitsTail.preposition_sound _ _ _ Ep), app_assoc. reflexivity.
    + intro H. inversion H; subst. exact S1.
  - intro H. inversion H; subst. exact S1.
Qed.

Lemma Inv_with_bad_none s : Inv s -> Inv (with_bad s None) /\ Sfx (with_bad s None) s.
Proof.
  intros [B N0]. unfold with_bad, Inv, Sfx. cbn [rest bad]. rewrite B. cbn [note].
  repeat split; [exact N0 | apply suffix_refl].
Qed.

Lemma p_proportion_ok s : Inv s -> oko s (p_proportion s).
Proof.
  intro Hi. unfold p_proportion. destruct (sc_remainder (rest s)) as [[m r]|] eqn:Er.
  - destruct (Inv_adv s m r Hi ltac:(rewrite (sc_remainder_sound _ _ _ Er); apply suffix_app)) as [I1 S1].
    unfold adv_pair. destruct (opt_hsp_prep (rest (adv s m r))) as [p r'] eqn:Ep. cbn [fst snd oko].
    destruct (Inv_adv (adv s m r) p r' I1 ltac:(rewrite (opt_hsp_prep_sound _ _ _ Ep); apply suffix_app)) as [I2 S2].
    split; [exact I2 | exact (Sfx_trans _ _ _ S2 S1)].
  - pose proof (p_number_ok s Hi) as Hn. destruct (p_number s) as [[v s1]|]; [|exact I].
    destruct Hn as [I1 [S1 P]].
    destruct (sc_hsp (rest s1)) as [[w r]|] eqn:Eh.
    + destruct (Units.preposition r) as [[p r']|] eqn:Ep.
      * cbn [oko].
        destruct (Inv_adv s1 (w ++ p) r' I1) as [I2 S2].
        { rewrite (sc_hsp_sound _ _ _ Eh), (UnitsTail.preposition_sound _ _ _ Ep), app_assoc. apply suffix_app. }
        split; [exact I2 | exact (Sfx_trans _ _ _ S2 S1)].
      * (* second and third alternatives *)
        destruct (Inv_skip_hsp s1 I1) as [I2 S2]. destruct (skip_hsp s1) as [w0 s2]. cbn [snd] in I2, S2.
        destruct (eat 37 s2) as [s3|] eqn:E37.
        -- destruct (Inv_eat 37 s2 s3 I2 E37) as [I3 S3]. unfold adv_pair.
           destruct (opt_hsp_prep (rest s3)) as [pp r''] eqn:Ep2. cbn [fst snd].
           destruct (Inv_adv s3 pp r'' I3 ltac:(rewrite (opt_hsp_prep_sound _ _ _ Ep2); apply suffix_app)) as [I4 S4].
           destruct P as [q Pq]. rewrite Pq. cbn [oko]. destruct (Inv_with_bad_none _ I4) as [I5 S5].
           split; [exact I5 | exact (Sfx_trans _ _ _ S5 (Sfx_trans _ _ _ S4 (Sfx_trans _ _ _ S3 (Sfx_trans _ _ _ S2 S1))))].
        -- destruct (eat 42 s2) as [s3|] eqn:E42; [|exact I]. destruct (Inv_eat 42 s2 s3 I2 E42) as [I3 S3]. cbn [oko].
           split; [exact I3 | exact (Sfx_trans _ _ _ S3 (Sfx_trans _ _ _ S2 S1))].
    + destruct (Inv_skip_hsp s1 I1) as [I2 S2]. destruct (skip_hsp s1) as [w0 s2]. cbn [snd] in I2, S2.
      destruct (eat 37 s2) as [s3|] eqn:E37.
      * destruct (Inv_eat 37 s2 s3 I2 E37) as [I3 S3]. unfold adv_pair.
        destruct (opt_hsp_prep (rest s3)) as [pp r''] eqn:Ep2. cbn [fst snd].
        destruct (Inv_adv s3 pp r'' I3 ltac:(rewrite (opt_hsp_prep_sound _ _ _ Ep2); apply suffix_app)) as [I4 S4].
        destruct P as [q Pq]. rewrite Pq. cbn [oko]. destruct (Inv_with_bad_none _ I4) as [I5 S5].
        split; [exact I5 | exact (Sfx_trans _ _ _ S5 (Sfx_trans _ _ _ S4 (Sfx_trans _ _ _ S3 (Sfx_trans _ _ _ S2 S1))))].
      * destruct (eat 42 s2) as [s3|] eqn:E42; [|exact I]. destruct (Inv_eat 42 s2 s3 I2 E42) as [I3 S3]. cbn [oko].
        split; [exact I3 | exact (Sfx_trans _ _ _ S3 (Sfx_trans _ _ _ S2 S1))].
Qed.

Lemma p_explicit_ok fuel s : Inv s -> ok s (p_explicit fuel s).
Proof.
  intro Hi. unfold p_explicit. destruct (eat 123 s) as [s1|] eqn:E1; [|exact I].
  destruct (Inv_eat _ _ _ Hi E1) as [I1 S1]. destruct (Inv_skip_hsp s1 I1) as [I2 S2].
  destruct (skip_hsp s1) as [w0 s2]. cbn [snd] in I2, S2.
  pose proof (p_number_ok s2 I2) as Hn. destruct (p_number s2) as [[v s3]|]; [|exact I]. destruct Hn as [I3 [S3 _]].
  destruct (Inv_skip_hsp s3 I3) as [I4 S4]. destruct (skip_hsp s3) as [w s4]. cbn [snd] in I4, S4.
  pose proof (p_static_ok fuel s4 I4) as Hu.
  assert (G : forall (up : option str * str) s5, Inv s5 -> Sfx s5 s3 ->
            ok s (let (_, s6) := skip_hsp s5 in
                  match eat 125 s6 with
                  | None => Fail
                  | Some s7 => let (pr, s8) := adv_pair s7 (opt_hsp_prep (rest s7)) in Got (mkQ v (fst up) (snd up) pr) s8
                  end)).
  { intros up s5 I5 S5. destruct (Inv_skip_hsp s5 I5) as [I6 S6]. destruct (skip_hsp s5) as [w6 s6]. cbn [snd] in I6, S6.
    destruct (eat 125 s6) as [s7|] eqn:E7; [|exact I]. destruct (Inv_eat _ _ _ I6 E7) as [I7 S7].
    unfold adv_pair. destruct (opt_hsp_prep (rest s7)) as [pp r''] eqn:Ep. cbn [fst snd ok].
    destruct (Inv_adv s7 pp r'' I7 ltac:(rewrite (opt_hsp_prep_sound _ _ _ Ep); apply suffix_app)) as [I8 S8].
    split; [exact I8|].
    exact (Sfx_trans _ _ _ S8 (Sfx_trans _ _ _ S7 (Sfx_trans _ _ _ S6 (Sfx_trans _ _ _ S5 (Sfx_trans _ _ _ S3 (Sfx_trans _ _ _ S2 S1)))))). }
  destruct (p_static fuel s4) as [u s5| |]; cbn [ok] in Hu.
  - destruct Hu as [I5 S5]. exact (G (Some u, w) s5 I5 (Sfx_trans _ _ _ S5 S4)).
  - exact (G (None, []) s3 I3 (Sfx_refl _)).
  - exact I.
Qed.

Lemma p_implicit_ok s : Inv s -> oko s (p_implicit s).
Proof.
  intro Hi. unfold p_implicit. pose proof (p_number_ok s Hi) as Hn. destruct (p_number s) as [[v s1]|]; [|exact I].
  destruct Hn as [I1 [S1 _]]. destruct (Units.implicit_tail (rest s1)) as [[[[sp u] pr] r]|] eqn:Et; cbn [oko].
  - destruct (Inv_advn s1 (len sp + len u + len pr) r I1 (implicit_tail_suffix _ _ _ _ _ Et)) as [I2 S2].
    split; [exact I2 | exact (Sfx_trans _ _ _ S2 S1)].
  - split; assumption.
Qed.

Lemma p_amount_ok fuel s : Inv s -> ok s (p_amount fuel s).
Proof.
  intro Hi. unfold p_amount. pose proof (p_proportion_ok s Hi) as H1. destruct (p_proportion s) as [[p s']|]; [exact H1|].
  pose proof (p_explicit_ok fuel s Hi) as H2. destruct (p_explicit fuel s) as [q s'| |]; [exact H2| |exact I].
  pose proof (p_implicit_ok s Hi) as H3. destruct (p_implicit s) as [[q s']|]; [exact H3 | exact I].
Qed.

Lemma p_reference_ok fuel s : Inv s -> ok s (p_reference fuel s).
Proof.
  intro Hi. unfold p_reference. pose proof (p_amount_ok fuel s Hi) as H1. destruct (p_amount fuel s) as [a s1| |]; [| |exact I].
  - destruct H1 as [I1 S1]. destruct (Inv_skip_hsp s1 I1) as [I2 S2]. destruct (skip_hsp s1) as [w s2]. cbn [snd] in I2, S2.
    pose proof (p_name_ok fuel s2 I2) as H3. destruct (p_name fuel s2) as [[nm o] s3| |]; try exact I.
    destruct H3 as [I3 S3]. split; [exact I3 | exact (Sfx_trans _ _ _ S3 (Sfx_trans _ _ _ S2 S1))].
  - pose proof (p_name_ok fuel s Hi) as H3. destruct (p_name fuel s) as [[nm o] s3| |]; try exact I. exact H3.
Qed.

(** ** Expressions *)
Section WithE.
  Variable E : st -> res aexpr.
  Hypothesis E_ok : forall s, Inv s -> ok s (E s).

  Lemma step_more_ok : forall k s, Inv s -> ok s (step_more E k s).
  Proof.
    induction k as [|k IH]; intros s Hi; [exact I|]. cbn [step_more].
    destruct (Inv_skip_sp s Hi) as [I1 S1].
    destruct (eat 44 (skip_sp s)) as [s1|] eqn:E1; [|split; [exact Hi | apply Sfx_refl]].
    destruct (Inv_eat _ _ _ I1 E1) as [I2 S2]. destruct (Inv_skip_sp s1 I2) as [I3 S3].
    pose proof (E_ok _ I3) as H4. destruct (E (skip_sp s1)) as [e s2| |]; [| split; [exact Hi | apply Sfx_refl] | exact I].
    destruct H4 as [I4 S4]. pose proof (IH s2 I4) as H5. destruct (step_more E k s2) as [es s3| |]; try exact I.
    destruct H5 as [I5 S5]. split; [exact I5|].
    exact (Sfx_trans _ _ _ S5 (Sfx_trans _ _ _ S4 (Sfx_trans _ _ _ S3 (Sfx_trans _ _ _ S2 S1)))).
  Qed.

  Lemma p_step_ok fuel s : Inv s -> ok s (p_step E fuel s).
  Proof.
    intro Hi. unfold p_step. pose proof (p_name_ok fuel s Hi) as H1. destruct (p_name fuel s) as [[nm o] s1| |]; try exact I.
    destruct H1 as [I1 S1]. destruct (Inv_skip_hsp s1 I1) as [I2 S2]. destruct (skip_hsp s1) as [w s2]. cbn [snd] in I2, S2.
    destruct (eat 40 s2) as [s3|] eqn:E3; [|exact I]. destruct (Inv_eat _ _ _ I2 E3) as [I3 S3].
    destruct (Inv_skip_sp s3 I3) as [I4 S4]. pose proof (E_ok _ I4) as H5.
    destruct (E (skip_sp s3)) as [e s4| |]; try exact I. destruct H5 as [I5 S5].
    pose proof (step_more_ok fuel s4 I5) as H6. destruct (step_more E fuel s4) as [es s5| |]; try exact I.
    destruct H6 as [I6 S6].
    assert (G : exists s6, (match eat 44 (skip_sp s5) with Some s' => s' | None => s5 end) = s6 /\ Inv s6 /\ Sfx s6 s5).
    { destruct (Inv_skip_sp s5 I6) as [I7 S7]. destruct (eat 44 (skip_sp s5)) as [s'|] eqn:E7.
      - destruct (Inv_eat _ _ _ I7 E7) as [I8 S8]. exists s'. repeat split; [exact (proj1 I8) | exact (proj2 I8) | exact (Sfx_trans _ _ _ S8 S7)].
      - exists s5. repeat split; [exact (proj1 I6) | exact (proj2 I6) | apply Sfx_refl]. }
    destruct G as [s6 [-> [I8 S8]]]. destruct (Inv_skip_sp s6 I8) as [I9 S9].
    destruct (eat 41 (skip_sp s6)) as [s7|] eqn:E9; [|exact I]. destruct (Inv_eat _ _ _ I9 E9) as [I10 S10].
    split; [exact I10|].
    exact (Sfx_trans _ _ _ S10 (Sfx_trans _ _ _ S9 (Sfx_trans _ _ _ S8 (Sfx_trans _ _ _ S6 (Sfx_trans _ _ _ S5
          (Sfx_trans _ _ _ S4 (Sfx_trans _ _ _ S3 (Sfx_trans _ _ _ S2 S1)))))))).
  Qed.
End WithE.

Lemma ltr_more_ok : forall k fuel acc s, Inv s -> ok s (ltr_more k fuel acc s).
Proof.
  induction k as [|k IH]; intros fuel acc s Hi; [exact I|]. cbn [ltr_more].
  destruct (Inv_skip_hsp s Hi) as [I1 S1].
  destruct (eat 44 (snd (skip_hsp s))) as [s1|] eqn:E1; [|split; [exact Hi | apply Sfx_refl]].
  destruct (Inv_eat _ _ _ I1 E1) as [I2 S2]. destruct (Inv_skip_hsp s1 I2) as [I3 S3].
  pose proof (p_name_ok fuel _ I3) as H4.
  destruct (p_name fuel (snd (skip_hsp s1))) as [[nm o] s2| |]; [| split; [exact Hi | apply Sfx_refl] | exact I].
  destruct H4 as [I4 S4]. pose proof (IH fuel (AStep nm [acc]) s2 I4) as H5.
  destruct (ltr_more k fuel (AStep nm [acc]) s2) as [e s3| |]; try exact I. destruct H5 as [I5 S5].
  split; [exact I5 | exact (Sfx_trans _ _ _ S5 (Sfx_trans _ _ _ S4 (Sfx_trans _ _ _ S3 (Sfx_trans _ _ _ S2 S1))))].
Qed.

Lemma p_ltr_with_ok E0 fuel s : (forall s, Inv s -> ok s (E0 s)) -> Inv s -> ok s (p_ltr_with E0 fuel s).
Proof.
  intros HE Hi. unfold p_ltr_with. pose proof (HE s Hi) as H1. destruct (E0 s) as [e s1| |]; try exact I.
  destruct H1 as [I1 S1]. pose proof (ltr_more_ok fuel fuel e s1 I1) as H2.
  destruct (ltr_more fuel fuel e s1) as [e' s2| |]; try exact I. destruct H2 as [I2 S2].
  split; [exact I2 | exact (Sfx_trans _ _ _ S2 S1)].
Qed.

Lemma p_expr_ok : forall fuel s, Inv s -> ok s (p_expr fuel s).
Proof.
  induction fuel as [|f IH]; intros s Hi; [exact I|]. cbn [p_expr].
  pose proof (p_step_ok (p_expr f) IH f s Hi) as H1. destruct (p_step (p_expr f) f s) as [e s'| |]; [exact H1| |exact I].
  pose proof (p_reference_ok f s Hi) as H2. destruct (p_reference f s) as [e s'| |]; [exact H2| |exact I].
  destruct (eat 40 s) as [s1|] eqn:E1; [|exact I]. destruct (Inv_eat _ _ _ Hi E1) as [I1 S1].
  destruct (Inv_skip_sp s1 I1) as [I2 S2].
  pose proof (p_ltr_with_ok (p_expr f) f _ IH I2) as H3.
  destruct (p_ltr_with (p_expr f) f (skip_sp s1)) as [e s2| |]; try exact I. destruct H3 as [I3 S3].
  destruct (Inv_skip_sp s2 I3) as [I4 S4]. destruct (eat 41 (skip_sp s2)) as [s3|] eqn:E4; [|exact I].
  destruct (Inv_eat _ _ _ I4 E4) as [I5 S5]. split; [exact I5|].
  exact (Sfx_trans _ _ _ S5 (Sfx_trans _ _ _ S4 (Sfx_trans _ _ _ S3 (Sfx_trans _ _ _ S2 S1)))).
Qed.

(** ** Statements and recipes *)
Lemma outputs_more_ok : forall k fuel s, Inv s -> ok s (outputs_more k fuel s).
Proof.
  induction k as [|k IH]; intros fuel s Hi; [exact I|]. cbn [outputs_more].
  destruct (Inv_skip_hsp s Hi) as [I1 S1].
  destruct (eat 44 (snd (skip_hsp s))) as [s1|] eqn:E1; [|split; [exact Hi | apply Sfx_refl]].
  destruct (Inv_eat _ _ _ I1 E1) as [I2 S2]. destruct (Inv_skip_hsp s1 I2) as [I3 S3].
  pose proof (p_name_ok fuel _ I3) as H4.
  destruct (p_name fuel (snd (skip_hsp s1))) as [o s2| |]; [| split; [exact Hi | apply Sfx_refl] | exact I].
  destruct H4 as [I4 S4]. pose proof (IH fuel s2 I4) as H5.
  destruct (outputs_more k fuel s2) as [os s3| |]; try exact I. destruct H5 as [I5 S5].
  split; [exact I5 | exact (Sfx_trans _ _ _ S5 (Sfx_trans _ _ _ S4 (Sfx_trans _ _ _ S3 (Sfx_trans _ _ _ S2 S1))))].
Qed.

Lemma p_target_ok fuel s : Inv s -> ok s (p_target fuel s).
Proof.
  intro Hi. unfold p_target, p_output_list.
  pose proof (p_name_ok fuel s Hi) as H1. destruct (p_name fuel s) as [o s1| |]; [| split; [exact Hi | apply Sfx_refl] | exact I].
  destruct H1 as [I1 S1]. pose proof (outputs_more_ok fuel fuel s1 I1) as H2.
  destruct (outputs_more fuel fuel s1) as [os s2| |]; [| split; [exact Hi | apply Sfx_refl] | exact I].
  destruct H2 as [I2 S2]. destruct (Inv_skip_hsp s2 I2) as [I3 S3]. destruct (skip_hsp s2) as [w s3]. cbn [snd] in I3, S3.
  assert (S03 : Sfx s3 s) by exact (Sfx_trans _ _ _ S3 (Sfx_trans _ _ _ S2 S1)).
  destruct (eat 58 s3) as [s4|] eqn:E4.
  - destruct (Inv_eat _ _ _ I3 E4) as [I4 S4]. destruct (eat 61 s4) as [s5|] eqn:E5; [|split; [exact Hi | apply Sfx_refl]].
    destruct (Inv_eat _ _ _ I4 E5) as [I5 S5]. destruct (Inv_skip_hsp s5 I5) as [I6 S6]. cbn [ok].
    split; [exact I6 | exact (Sfx_trans _ _ _ S6 (Sfx_trans _ _ _ S5 (Sfx_trans _ _ _ S4 S03)))].
  - destruct (eat 61 s3) as [s5|] eqn:E5; [|split; [exact Hi | apply Sfx_refl]].
    destruct (Inv_eat _ _ _ I3 E5) as [I5 S5]. destruct (Inv_skip_hsp s5 I5) as [I6 S6]. cbn [ok].
    split; [exact I6 | exact (Sfx_trans _ _ _ S6 (Sfx_trans _ _ _ S5 S03))].
Qed.

Lemma sc_eol_sound (x m r : str) : sc_eol x = Some (m, r) -> x = m ++ r.
Proof.
  unfold sc_eol. destruct (span is_hsp x) as [w r0] eqn:E. pose proof (proj1 (span_suffix _ _ _ _ E)) as X.
  destruct r0 as [|c t].
  - intro H. inversion H; subst. reflexivity.
  - destruct ((c =? 13) || (c =? 10)); [|discriminate]. destruct (span is_ws t) as [w2 r2] eqn:E2.
    intro H. inversion H; subst. rewrite (proj1 (span_suffix _ _ _ _ E2)). rewrite <- app_assoc. reflexivity.
Qed.

Lemma p_stmt_ok fuel s : Inv s -> ok s (p_stmt fuel s).
Proof.
  intro Hi. unfold p_stmt. pose proof (p_target_ok fuel s Hi) as H1. destruct (p_target fuel s) as [[os named] s1| |]; try exact I.
  destruct H1 as [I1 S1]. pose proof (p_ltr_with_ok (p_expr fuel) fuel s1 (p_expr_ok fuel) I1) as H2.
  unfold p_ltr. destruct (p_ltr_with (p_expr fuel) fuel s1) as [e s2| |]; try exact I. destruct H2 as [I2 S2].
  destruct (sc_eol (rest s2)) as [[m r]|] eqn:Ee; [|exact I]. cbn [ok].
  destruct (Inv_adv s2 m r I2 ltac:(rewrite (sc_eol_sound _ _ _ Ee); apply suffix_app)) as [I3 S3].
  split; [exact I3 | exact (Sfx_trans _ _ _ S3 (Sfx_trans _ _ _ S2 S1))].
Qed.

Lemma stmts_more_ok : forall k fuel s, Inv s -> ok s (stmts_more k fuel s).
Proof.
  induction k as [|k IH]; intros fuel s Hi; [exact I|]. cbn [stmts_more].
  pose proof (p_stmt_ok fuel s Hi) as H1. destruct (p_stmt fuel s) as [a s1| |]; [| split; [exact Hi | apply Sfx_refl] | exact I].
  destruct H1 as [I1 S1]. pose proof (IH fuel s1 I1) as H2. destruct (stmts_more k fuel s1) as [l s2| |]; try exact I.
  destruct H2 as [I2 S2]. split; [exact I2 | exact (Sfx_trans _ _ _ S2 S1)].
Qed.

(** The parser reports a failed literal evaluation only when the text has a
    run of more than 308 digits. *)
Theorem parse_no_crash x : NL x -> forall c, parse x <> PCrash c.
Proof.
  intros HN c. unfold parse, parse_with, p_recipe.
  assert (I0 : Inv (mkSt x 0 None)) by (split; [reflexivity | exact HN]).
  destruct (Inv_skip_sp _ I0) as [I1 _].
  pose proof (stmts_more_ok (fuel_for x) (fuel_for x) _ I1) as H.
  destruct (stmts_more (fuel_for x) (fuel_for x) (skip_sp (mkSt x 0 None))) as [l s1| |]; try discriminate.
  destruct H as [[B _] _]. destruct l; [discriminate|]. destruct (at_eof (rest s1)); [|discriminate].
  rewrite B. discriminate.
Qed.

Theorem compile_src_no_parse_crash srcs : Forall NL srcs -> forall b c, compile_src srcs <> SrcParseCrash b c.
Proof.
  intros HN b c. unfold compile_src, compile_src_with.
  destruct (parse_blocks 0 srcs) as [e|p] eqn:Ep.
  - intro H. subst e. revert Ep. generalize 0%nat. induction HN as [|x l Hx Hl IH]; intros i Ep; cbn [parse_blocks] in Ep; [discriminate|].
    pose proof (parse_no_crash x Hx) as Nc. destruct (parse x) as [a| |c'|]; try discriminate Ep.
    + destruct (parse_blocks (S i) l) eqn:E2; [|discriminate Ep]. inversion Ep; subst. exact (IH (S i) E2).
    + exact (Nc c' eq_refl).
  - destruct (CompilerInst.compile_ast_inst p); discriminate.
Qed.

(** A text of at most 308 characters certainly has no longer digit run. *)
Lemma NL_short (x : str) : (List.length x <= 308)%nat -> NL x.
Proof.
  intros Hx p d q E _. rewrite E in Hx. rewrite !app_length in Hx. lia.
Qed.
