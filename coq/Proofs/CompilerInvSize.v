(** * Compiler invariants, part 1: sizes, occurrences and value substitution.

    [inside] (Spec/Valid.v) is deep occurrence (through step inputs, sub recipe
    bodies and the sub recipes embedded in references).  A node occurring in a
    tree is not larger than the tree, [==]-equal nodes have equal sizes, and
    [substitute old new] leaves alone every tree smaller than [old]. *)
From Coq Require Import List ZArith NArith Bool Lia.
From RG Require Import Base.Str Base.Num Model.Recipe Spec.Valid
  Proofs.RecipeInd Proofs.NodeEqv Proofs.RecipeValid Proofs.CompilerExpand.
Import ListNotations.

Lemma inside_size x t : inside x t -> (node_size x <= node_size t)%nat.
Proof.
  induction 1 as [|d ins y Hy _ IH|sr i a _ IH|b ns sh _ IH]; simpl; try lia.
  apply In_size_le in Hy. lia.
Qed.

Lemma inside_trans x y z : inside x y -> inside y z -> inside x z.
Proof.
  intros Hxy Hyz. induction Hyz as [|d ins w Hw _ IH|sr i a _ IH|b ns sh _ IH].
  - exact Hxy.
  - eapply inside_step; eauto.
  - apply inside_ref; auto.
  - apply inside_sub; auto.
Qed.

Lemma list_eqb_size (l l' : list node) :
  Forall (fun x => forall y, node_eqb x y = true -> node_size x = node_size y) l ->
  list_eqb node_eqb l l' = true ->
  fold_right (fun y acc => node_size y + acc)%nat 0%nat l =
  fold_right (fun y acc => node_size y + acc)%nat 0%nat l'.
Proof.
  intros HF. revert l'. induction HF as [|x l Hx _ IH]; destruct l' as [|y l']; simpl; try discriminate; auto.
  rewrite andb_true_iff. intros [H1 H2]. rewrite (Hx y H1), (IH l' H2). reflexivity.
Qed.

Lemma node_eqb_size : forall a b, node_eqb a b = true -> node_size a = node_size b.
Proof.
  induction a as [d q|d ins IH|sr i am IH|bd ns sh IH] using node_ind';
    destruct b as [d' q'|d' ins'|sr' i' am'|bd' ns' sh']; try (simpl; discriminate).
  - reflexivity.
  - rewrite node_eqb_Step, andb_true_iff. intros [_ H]. simpl. f_equal. now apply list_eqb_size.
  - rewrite node_eqb_Reference, !andb_true_iff. intros [[H _] _]. simpl. f_equal. auto.
  - rewrite node_eqb_SubRecipe, !andb_true_iff. intros [[H _] _]. simpl. f_equal. auto.
Qed.

(** ** Fixed points of substitution *)
Lemma map_id_in {A} (f : A -> A) l : (forall x, In x l -> f x = x) -> map f l = l.
Proof.
  induction l as [|x l IH]; simpl; intro H; [reflexivity|].
  rewrite H by (left; reflexivity). f_equal. apply IH. intros; apply H; right; assumption.
Qed.

Lemma substitute_fixed old new : forall t,
  (forall x, inside x t -> node_eqb x old = false) -> substitute old new t = t.
Proof.
  induction t as [d q|d ins IH|sr i am IH|bd ns sh IH] using node_ind'; intro H;
    rewrite substitute_unfold; rewrite (H _ (inside_here _)).
  - reflexivity.
  - f_equal. apply map_id_in. intros x Hx. rewrite Forall_forall in IH. apply IH; [exact Hx|].
    intros y Hy. apply H. eapply inside_step; eauto.
  - f_equal. apply IH. intros y Hy. apply H. now apply inside_ref.
  - f_equal. apply IH. intros y Hy. apply H. now apply inside_sub.
Qed.

Lemma node_eqb_size_neq a b : node_size a <> node_size b -> node_eqb a b = false.
Proof.
  intro H. destruct (node_eqb a b) eqn:E; [|reflexivity]. apply node_eqb_size in E. contradiction.
Qed.

Lemma substitute_small old new t :
  (node_size t < node_size old)%nat -> substitute old new t = t.
Proof.
  intro H. apply substitute_fixed. intros x Hx. apply node_eqb_size_neq.
  apply inside_size in Hx. lia.
Qed.

(** [substitute] at a node that is not [==] to [old]. *)
Lemma substitute_Reference old new sr i a :
  node_eqb (Reference sr i a) old = false ->
  substitute old new (Reference sr i a) = Reference (substitute old new sr) i a.
Proof. intro H. rewrite substitute_unfold, H. reflexivity. Qed.

Lemma substitute_SubRecipe old new b ns sh :
  node_eqb (SubRecipe b ns sh) old = false ->
  substitute old new (SubRecipe b ns sh) = SubRecipe (substitute old new b) ns sh.
Proof. intro H. rewrite substitute_unfold, H. reflexivity. Qed.

Lemma substitute_SubRecipe_ref sr i a new b ns sh :
  substitute (Reference sr i a) new (SubRecipe b ns sh) =
  SubRecipe (substitute (Reference sr i a) new b) ns sh.
Proof. apply substitute_SubRecipe. reflexivity. Qed.

(** ** References occurring in a substituted tree.
    Either (a) the image of a reference of the tree that was not itself
    replaced, or (b) a reference of [new], and then something of the tree was
    replaced. *)
Lemma inside_ref_substitute old new : forall t Y i a,
  inside (Reference Y i a) (substitute old new t) ->
  (exists X, Y = substitute old new X /\ inside (Reference X i a) t /\
             node_eqb (Reference X i a) old = false)
  \/ (inside (Reference Y i a) new /\ exists x, inside x t /\ node_eqb x old = true).
Proof.
  induction t as [d q|d ins IH|sr i0 a0 IH|bd ns sh IH] using node_ind'; intros Y i a H;
    rewrite substitute_unfold in H;
    match type of H with context [node_eqb ?x old] => destruct (node_eqb x old) eqn:E end;
    try (right; split; [exact H|]; eexists; split; [apply inside_here | exact E]).
  - inversion H.
  - inversion H as [|d' ins' y Hy Hin| |]; subst.
    apply in_map_iff in Hy. destruct Hy as (y0 & <- & Hy0).
    rewrite Forall_forall in IH.
    destruct (IH y0 Hy0 Y i a Hin) as [(X & HX & Hi & Hn)|(Hi & x & Hx & Hxe)].
    + left. exists X. repeat split; auto. eapply inside_step; eauto.
    + right. split; [exact Hi|]. exists x. split; [eapply inside_step; eauto | exact Hxe].
  - inversion H as [| |sr' i' a' Hin|]; subst.
    + left. exists sr. repeat split; auto. apply inside_here.
    + destruct (IH Y i a Hin) as [(X & HX & Hi & Hn)|(Hi & x & Hx & Hxe)].
      * left. exists X. repeat split; auto. now apply inside_ref.
      * right. split; [exact Hi|]. exists x. split; [now apply inside_ref | exact Hxe].
  - inversion H as [| | |b' ns' sh' Hin]; subst.
    destruct (IH Y i a Hin) as [(X & HX & Hi & Hn)|(Hi & x & Hx & Hxe)].
    + left. exists X. repeat split; auto. now apply inside_sub.
    + right. split; [exact Hi|]. exists x. split; [now apply inside_sub | exact Hxe].
Qed.

(** ** Substituting a reference keeps every node constructible *)
Definition refs_to_sub (t : node) : Prop :=
  forall sr i a, inside (Reference sr i a) t -> is_subrecipe sr = true.

Lemma can_be_child_substitute old new x :
  can_be_child new = true -> can_be_child x = true -> can_be_child (substitute old new x) = true.
Proof.
  intros Hn Hx. rewrite substitute_unfold. destruct (node_eqb x old); [exact Hn|].
  destruct x; simpl in *; auto.
Qed.

Lemma substitute_constructed osr oi oa new :
  constructed new = true -> can_be_child new = true ->
  forall t, constructed t = true -> refs_to_sub t ->
    constructed (substitute (Reference osr oi oa) new t) = true.
Proof.
  intros Hcn Hchn. set (old := Reference osr oi oa).
  induction t as [d q|d ins IH|sr i a IH|bd ns sh IH] using node_ind'; intros Hc Hr;
    rewrite substitute_unfold;
    match goal with |- context [node_eqb ?x old] => destruct (node_eqb x old) eqn:E end;
    try exact Hcn.
  - exact Hc.
  - apply constructed_unfold in Hc. destruct Hc as [Hp Hc]. apply constructed_unfold. split.
    + simpl in Hp |- *. destruct (forallb can_be_child ins) eqn:Ef; [|discriminate].
      rewrite forallb_forall in Ef.
      replace (forallb can_be_child (map (substitute old new) ins)) with true; [reflexivity|].
      symmetry. apply forallb_forall. intros y Hy. apply in_map_iff in Hy.
      destruct Hy as (y0 & <- & Hy0). apply can_be_child_substitute; auto.
    + apply Forall_forall. intros y Hy. apply in_map_iff in Hy. destruct Hy as (y0 & <- & Hy0).
      rewrite Forall_forall in IH, Hc. apply IH; auto.
      intros sr i a Hi. apply (Hr sr i a). eapply inside_step; eauto.
  - apply constructed_unfold in Hc. destruct Hc as [Hp Hc].
    assert (Hs : is_subrecipe sr = true) by (apply (Hr sr i a), inside_here).
    destruct sr as [| | |b0 ns0 sh0]; try discriminate.
    assert (Hc' : constructed (substitute old new (SubRecipe b0 ns0 sh0)) = true).
    { apply IH; [exact Hc|]. intros sr' i' a' Hi. apply (Hr sr' i' a'). now apply inside_ref. }
    unfold old in Hc' |- *. rewrite substitute_SubRecipe_ref in Hc' |- *.
    apply constructed_unfold. split; [|exact Hc']. simpl in Hp |- *. exact Hp.
  - apply constructed_unfold in Hc. destruct Hc as [Hp Hc]. apply constructed_unfold.
    assert (Hc' : constructed (substitute old new bd) = true).
    { apply IH; [exact Hc|]. intros sr' i' a' Hi. apply (Hr sr' i' a'). now apply inside_sub. }
    split; [|exact Hc']. simpl in Hp |- *.
    destruct (can_be_child bd) eqn:Eb; simpl in Hp; [|discriminate].
    rewrite (can_be_child_substitute old new bd Hchn Eb). simpl. exact Hp.
Qed.

(** ** The chain of sub recipes at the top of a tree: the root, and, as long
    as these are sub recipes, the body, the body of the body ... *)
Inductive chain (x : node) : node -> Prop :=
| chain_here : chain x x
| chain_body b ns sh : chain x b -> chain x (SubRecipe b ns sh).

Lemma chain_inside x t : chain x t -> inside x t.
Proof. induction 1; [apply inside_here | now apply inside_sub]. Qed.

Lemma chain_substitute osr oi oa new : forall t S,
  chain S (substitute (Reference osr oi oa) new t) -> is_subrecipe S = true ->
  (exists S0, chain S0 t /\ is_subrecipe S0 = true /\ S = substitute (Reference osr oi oa) new S0)
  \/ chain S new.
Proof.
  set (old := Reference osr oi oa).
  induction t as [d q|d ins IH|sr i a IH|bd ns sh IH] using node_ind'; intros S H HS;
    rewrite substitute_unfold in H;
    match type of H with context [node_eqb ?x old] => destruct (node_eqb x old) eqn:E end;
    try (right; exact H).
  - inversion H; subst; discriminate.
  - inversion H; subst; discriminate.
  - inversion H; subst; discriminate.
  - inversion H as [|b' ns' sh' Hc]; subst.
    + left. exists (SubRecipe bd ns sh). split; [apply chain_here|]. split; [reflexivity|].
      unfold old. now rewrite substitute_SubRecipe_ref.
    + destruct (IH S Hc HS) as [(S0 & Hc0 & Hs0 & ->)|Hn]; [left|right; exact Hn].
      exists S0. split; [now apply chain_body|]. split; [exact Hs0 | reflexivity].
Qed.

(** Names of a sub recipe (empty for other nodes). *)
Definition names_of (t : node) : list svs :=
  match t with SubRecipe _ ns _ => ns | _ => [] end.

Lemma names_of_substitute_ref osr oi oa new S :
  is_subrecipe S = true -> names_of (substitute (Reference osr oi oa) new S) = names_of S.
Proof. destruct S; try discriminate. intros _. now rewrite substitute_SubRecipe_ref. Qed.

Lemma is_subrecipe_substitute_ref osr oi oa new S :
  is_subrecipe S = true -> is_subrecipe (substitute (Reference osr oi oa) new S) = true.
Proof. destruct S; try discriminate. intros _. now rewrite substitute_SubRecipe_ref. Qed.
