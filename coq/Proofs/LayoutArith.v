(** * The layout in arithmetic form (C02).

    [alayout] has the recursion structure of [layout] (Model/Layout.v) but uses
    the total, purely arithmetic table operations of Proofs/LayoutTiling.v.
    [layout_ok]: on every well-formed tree the model of the code succeeds, equals
    [alayout], and the result is a tiling.  This is the step that deals with
    [from_dict]'s checks and with the look-ups through the grid's back
    references; everything after it is list arithmetic. *)
From Coq Require Import List Arith NArith Bool Lia ZifyBool.
From RG Require Import Model.Table Model.Layout Spec.LayoutSpec Proofs.LayoutTiling.
Import ListNotations.
Local Open Scope N_scope.

(** ** Induction over skeletons *)
Section ltree_induction.
  Variable P : ltree -> Prop.
  Hypothesis Hleaf : forall ref, P (LLeaf ref).
  Hypothesis Hstep : forall ins, Forall P ins -> P (LStep ins).
  Hypothesis Hsub : forall b n show, P b -> P (LSub b n show).

  Fixpoint ltree_ind2 (t : ltree) : P t :=
    match t with
    | LLeaf ref => Hleaf ref
    | LStep ins =>
        Hstep ins ((fix go (l : list ltree) : Forall P l :=
                      match l with
                      | [] => Forall_nil P
                      | x :: l' => Forall_cons x (ltree_ind2 x) (go l')
                      end) ins)
    | LSub b n show => Hsub b n show (ltree_ind2 b)
    end.
End ltree_induction.

(** ** Arithmetic table operations *)
Definition apad (w : N) (t : table) : table :=
  if w <=? t_cols t then t
  else mkTable (t_rows t) w (pad_spec (t_cols t) w (t_cells t)).
Definition aborder (b : border) (t : table) : table :=
  mkTable (t_rows t) (t_cols t) (border_spec (t_rows t) (t_cols t) b (t_cells t)).
Definition avstack (C : N) (ts : list table) : table :=
  mkTable (list_sum (map t_rows ts)) C (combine_go true 0 0 ts).
Definition ahjuxt (a b : table) : table :=
  mkTable (t_rows a) (t_cols a + t_cols b) (combine_go false 0 0 [a; b]).
Definition asingle (c : cell) : table := mkTable (c_rows c) (c_cols c) [(0, 0, c)].

Definition map_i {A B} (f : nat -> A -> B) : nat -> list A -> list B :=
  fix go (i : nat) (l : list A) {struct l} : list B :=
    match l with
    | [] => []
    | x :: l' => f i x :: go (S i) l'
    end.

Fixpoint alayout (root : bool) (p : path) (t : ltree) {struct t} : table :=
  match t with
  | LLeaf ref =>
      let tb := mkTable 1 1 [(0, 0, plain (if ref then KReference else KIngredient, p) 1 1)] in
      if root then aborder BSub tb else tb
  | LStep ins =>
      let its := map_i (fun i x => alayout false (p ++ [i]) x) 0%nat ins in
      let ic := list_max (map t_cols its) in
      let combined := avstack ic (map (apad ic) its) in
      let tb := ahjuxt combined (asingle (plain (KStep, p) (t_rows combined) 1)) in
      if root then aborder BSub tb else tb
  | LSub body n show =>
      let sub := alayout false (p ++ [0%nat]) body in
      if Nat.eqb n 1 then
        if show then
          aborder BSub (avstack (t_cols sub) [asingle (plain (KHeader, p) 1 (t_cols sub)); sub])
        else aborder BSub sub
      else
        ahjuxt (aborder BSub sub)
               (asingle (mkCell (KOutputs, p) (t_rows sub) 1 BNormal BNone BNone BNone))
  end.

(** ** The model's operations on tilings *)
Lemma table_eta t : mkTable (t_rows t) (t_cols t) (t_cells t) = t.
Proof. destruct t; reflexivity. Qed.

Lemma right_pad_ok t w :
  TilingT t ->
  right_pad t w = Ok (apad w t) /\ TilingT (apad w t)
  /\ t_rows (apad w t) = t_rows t /\ t_cols (apad w t) = N.max w (t_cols t).
Proof.
  intros (HR & HC & HT). unfold apad. destruct (w <=? t_cols t) eqn:E.
  - unfold right_pad. rewrite E.
    split; [reflexivity|]. split; [exact (conj HR (conj HC HT))|]. split; [reflexivity|lia].
  - rewrite <- (table_eta t) at 1. rewrite right_pad_tiling by (auto; lia).
    split; [reflexivity|]. split; [|split; [reflexivity|simpl; lia]].
    split; [exact HR|]. split; [simpl; lia|]. simpl. apply tiling_pad; auto. lia.
Qed.

Lemma set_border_ok t b :
  TilingT t -> set_border t b = Ok (aborder b t) /\ TilingT (aborder b t).
Proof.
  intros (HR & HC & HT). rewrite <- (table_eta t) at 1.
  rewrite set_border_tiling by auto. unfold aborder.
  split; [reflexivity|]. split; [exact HR|]. split; [exact HC|].
  simpl. apply tiling_border. assumption.
Qed.

Lemma single_ok c :
  1 <= c_rows c -> 1 <= c_cols c -> single c = Ok (asingle c) /\ TilingT (asingle c).
Proof.
  intros Hr Hc. pose proof (tiling_single c Hr Hc) as HT. unfold single, asingle.
  rewrite (from_dict_tiling _ _ _ HT) by lia.
  split; [reflexivity|]. split; [simpl; lia|]. split; [simpl; lia|exact HT].
Qed.

Lemma combine_go_shift v a b ts : forall ro co,
  combine_go v (ro + a) (co + b) ts = shift a b (combine_go v ro co ts).
Proof.
  induction ts as [|t ts IH]; intros ro co; [reflexivity|].
  simpl. rewrite shift_app, shift_shift. f_equal.
  destruct v.
  - replace (ro + a + t_rows t) with (ro + t_rows t + a) by lia. apply IH.
  - replace (co + b + t_cols t) with (co + t_cols t + b) by lia. apply IH.
Qed.

Lemma tiling_empty C : Tiling 0 C [].
Proof. split; [intros e []|intros r c Hr; lia]. Qed.

Lemma tiling_vstack C ts :
  Forall (fun t => TilingT t /\ t_cols t = C) ts ->
  Tiling (list_sum (map t_rows ts)) C (combine_go true 0 0 ts).
Proof.
  induction 1 as [|t ts [(HR & HC & HT) Hcols] _ IH]; [apply tiling_empty|].
  simpl. rewrite shift_0.
  change (combine_go true (t_rows t) 0 ts) with (combine_go true (0 + t_rows t) (0 + 0) ts).
  rewrite (combine_go_shift true (t_rows t) 0 ts 0 0).
  apply tiling_stack; [rewrite <- Hcols; assumption|assumption].
Qed.

Lemma vstack_ok C ts :
  ts <> [] -> Forall (fun t => TilingT t /\ t_cols t = C) ts ->
  combine true ts = Ok (avstack C ts) /\ TilingT (avstack C ts).
Proof.
  intros Hne HF. pose proof (tiling_vstack C ts HF) as HT.
  assert (HR : 0 < list_sum (map t_rows ts)).
  { destruct HF as [|t ts' [(HR & _) _] _]; [congruence|]. simpl. lia. }
  assert (HC : 0 < C).
  { destruct HF as [|t ts' [(_ & HC & _) Hc] _]; [congruence|]. lia. }
  unfold combine, avstack. rewrite (from_dict_tiling _ _ _ HT) by assumption.
  split; [reflexivity|]. split; [exact HR|]. split; [exact HC|exact HT].
Qed.

Lemma hjuxt_ok a b :
  TilingT a -> TilingT b -> t_rows a = t_rows b ->
  combine false [a; b] = Ok (ahjuxt a b) /\ TilingT (ahjuxt a b).
Proof.
  intros (HRa & HCa & HTa) (HRb & HCb & HTb) Hrows.
  assert (HT : Tiling (t_rows a) (t_cols a + t_cols b) (combine_go false 0 0 [a; b])).
  { simpl. rewrite shift_0, app_nil_r.
    apply tiling_juxt; [assumption|rewrite Hrows; assumption]. }
  unfold combine, ahjuxt. rewrite (from_dict_tiling _ _ _ HT) by lia.
  split; [reflexivity|]. split; [exact HRa|]. split; [simpl; lia|exact HT].
Qed.

(** ** The model equals the arithmetic layout and produces tilings *)
Lemma list_max_ge l x : In x l -> x <= list_max l.
Proof.
  induction l as [|y l IH]; simpl; [tauto|]. intros [<-|H]; [lia|]. specialize (IH H). lia.
Qed.

Lemma inputs_ok p ins :
  Forall (fun x => forall b q, wf_at b x = true ->
                     layout b q x = Ok (alayout b q x) /\ TilingT (alayout b q x)) ins ->
  forallb (wf_at false) ins = true ->
  forall i,
    map_res_i (fun i x => layout false (p ++ [i]) x) i ins
    = Ok (map_i (fun i x => alayout false (p ++ [i]) x) i ins)
    /\ Forall TilingT (map_i (fun i x => alayout false (p ++ [i]) x) i ins).
Proof.
  induction 1 as [|x ins Hx _ IH]; intros Hwf i; [split; [reflexivity|constructor]|].
  simpl in Hwf. apply andb_true_iff in Hwf as [Hwx Hwf].
  destruct (Hx false (p ++ [i]) Hwx) as [E1 T1].
  destruct (IH Hwf (S i)) as [E2 T2].
  simpl. rewrite E1. simpl. rewrite E2. simpl. split; [reflexivity|constructor; assumption].
Qed.

Lemma pads_ok ic its :
  Forall TilingT its -> (forall t, In t its -> t_cols t <= ic) ->
  map_res (fun tb => right_pad tb ic) its = Ok (map (apad ic) its)
  /\ Forall (fun t => TilingT t /\ t_cols t = ic) (map (apad ic) its).
Proof.
  induction 1 as [|t its Ht _ IH]; intros Hle; [split; [reflexivity|constructor]|].
  destruct (right_pad_ok t ic Ht) as (E & T & _ & Hc).
  destruct IH as [E2 F2]; [intros t' Ht'; apply Hle; right; assumption|].
  simpl. rewrite E. simpl. rewrite E2. simpl. split; [reflexivity|].
  constructor; [|assumption]. split; [assumption|].
  specialize (Hle t (or_introl eq_refl)). lia.
Qed.

Theorem layout_ok : forall t b p,
  wf_at b t = true -> layout b p t = Ok (alayout b p t) /\ TilingT (alayout b p t).
Proof.
  induction t as [ref|ins IH|body n show IH] using ltree_ind2; intros b p Hwf.
  - (* leaf *)
    assert (HT : TilingT (mkTable 1 1 [(0, 0, plain (if ref then KReference else KIngredient, p) 1 1)])).
    { split; [simpl; lia|]. split; [simpl; lia|]. simpl.
      apply (tiling_single (plain (if ref then KReference else KIngredient, p) 1 1)); simpl; lia. }
    simpl. destruct b; [apply set_border_ok; assumption|split; [reflexivity|assumption]].
  - (* step *)
    simpl in Hwf. apply andb_true_iff in Hwf as [Hne Hwf].
    destruct (inputs_ok p ins IH Hwf 0%nat) as [E1 T1].
    cbn [layout bind]. rewrite E1. cbn [bind].
    set (its := map_i (fun i x => alayout false (p ++ [i]) x) 0%nat ins) in *.
    assert (Hits : its <> []).
    { unfold its. destruct ins; [discriminate|]. simpl. discriminate. }
    destruct its as [|t0 its0] eqn:Eits; [congruence|]. rewrite <- Eits in *.
    set (ic := list_max (map t_cols its)).
    destruct (pads_ok ic its T1) as [E2 F2].
    { intros t Ht. apply list_max_ge. apply in_map. assumption. }
    rewrite E2. cbn [bind].
    destruct (vstack_ok ic (map (apad ic) its)) as [E3 T3]; [rewrite Eits; discriminate|assumption|].
    rewrite E3. cbn [bind].
    set (combined := avstack ic (map (apad ic) its)) in *.
    destruct (single_ok (plain (KStep, p) (t_rows combined) 1)) as [E4 T4];
      [destruct T3 as (H0 & _); unfold plain; cbn [c_rows]; lia|simpl; lia|].
    rewrite E4. cbn [bind].
    destruct (hjuxt_ok combined _ T3 T4 eq_refl) as [E5 T5].
    rewrite E5. cbn [bind].
    destruct b; [apply set_border_ok; assumption|split; [reflexivity|assumption]].
  - (* sub recipe *)
    simpl in Hwf. apply andb_true_iff in Hwf as [Hn Hwf].
    destruct (IH false (p ++ [0%nat]) Hwf) as [E1 T1].
    cbn [layout alayout bind]. rewrite E1. cbn [bind].
    set (sub := alayout false (p ++ [0%nat]) body) in *.
    destruct (Nat.eqb n 1) eqn:En.
    + destruct show.
      * destruct (single_ok (plain (KHeader, p) 1 (t_cols sub))) as [E2 T2];
          [simpl; lia|destruct T1 as (_ & H0 & _); unfold plain; cbn [c_cols]; lia|].
        rewrite E2. cbn [bind].
        destruct (vstack_ok (t_cols sub) [asingle (plain (KHeader, p) 1 (t_cols sub)); sub])
          as [E3 T3]; [discriminate| |].
        { constructor; [split; [assumption|reflexivity]|].
          constructor; [split; [assumption|reflexivity]|constructor]. }
        rewrite E3. cbn [bind]. apply set_border_ok. assumption.
      * apply set_border_ok. assumption.
    + destruct (set_border_ok sub BSub T1) as [E2 T2]. rewrite E2. cbn [bind].
      destruct (single_ok (mkCell (KOutputs, p) (t_rows sub) 1 BNormal BNone BNone BNone))
        as [E3 T3]; [destruct T1 as (H0 & _); cbn [c_rows]; lia|simpl; lia|].
      rewrite E3. cbn [bind]. apply hjuxt_ok; auto.
Qed.
