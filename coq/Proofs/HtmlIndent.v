(** * C10: [t]'s newline / indent rule ([textwrap.indent], [rstrip]) only inserts
    spaces and removes white space in the data state, hence keeps the tag
    skeleton; "good" HTML fragments and their closure under concatenation and
    under [t]. *)
From Coq Require Import List NArith Bool Lia String.
From RG Require Import Base.Str Gen.GenUnits Model.Units Model.Html Model.HtmlTok Proofs.HtmlEscape Proofs.HtmlSim.
Import ListNotations.
Open Scope N_scope.

(** ** [indent2] as an insertion of spaces *)
Definition ind_line (l : str) : str := if forallb is_space l then l else 32 :: 32 :: l.

(** the text from a position inside a line: the rest of that line unchanged, the following lines indented *)
Definition indent_cont (h : str) : str :=
  match splitlines_keep h with [] => [] | l :: ls => l ++ flat_map ind_line ls end.

Lemma indent2_cont h : indent2 h = indent_cont h \/ indent2 h = 32 :: 32 :: indent_cont h.
Proof.
  unfold indent2, indent_cont. fold ind_line. destruct (splitlines_keep h) as [|l ls]; [left; reflexivity|].
  cbn [flat_map]. unfold ind_line at 1. destruct (forallb is_space l); [left | right]; reflexivity.
Qed.

Lemma indent_cont_plain c t : c <> 13 -> is_linebreak c = false -> indent_cont (c :: t) = c :: indent_cont t.
Proof.
  intros N13 Hlb. unfold indent_cont. cbn [splitlines_keep]. apply N.eqb_neq in N13. rewrite N13, Hlb.
  destruct (splitlines_keep t) as [|l ls]; reflexivity.
Qed.

Lemma indent_cont_break c t : c <> 13 -> is_linebreak c = true -> indent_cont (c :: t) = c :: indent2 t.
Proof.
  intros N13 Hlb. unfold indent_cont, indent2. fold ind_line. cbn [splitlines_keep]. apply N.eqb_neq in N13.
  rewrite N13, Hlb. reflexivity.
Qed.

Lemma indent_cont_crlf t : indent_cont (13 :: 10 :: t) = 13 :: 10 :: indent2 t.
Proof. reflexivity. Qed.

Lemma indent_cont_cr t : (match t with 10 :: _ => False | _ => True end) -> indent_cont (13 :: t) = 13 :: indent2 t.
Proof.
  intro H. unfold indent_cont, indent2. fold ind_line. cbn [splitlines_keep]. change (13 =? 13) with true. cbv iota.
  destruct t as [|d t']; [reflexivity|]. destruct (d =? 10) eqn:E; [|reflexivity].
  apply N.eqb_eq in E. subst d. contradiction.
Qed.

Lemma linebreak_plain c : is_linebreak c = true -> plain c = true.
Proof.
  unfold is_linebreak. intro H. apply memN_In_iff in H. cbn in H.
  repeat (destruct H as [<- | H]; [reflexivity|]). destruct H.
Qed.

Lemma step_data_break a c : is_linebreak c = true -> fst (step (SData a) c) = SData (a ++ [c]).
Proof. intro H. rewrite (step_data_plain a c (linebreak_plain c H)). reflexivity. Qed.

Lemma indent_Ins n : forall h st, (List.length h <= n)%nat -> break_safe st h ->
  Ins st h (indent_cont h) /\ (is_data st -> Ins st h (indent2 h)).
Proof.
  induction n as [|n IH]; intros h st Hlen Hb.
  - destruct h; [|cbn in Hlen; lia]. split; [constructor | intros _; constructor].
  - assert (Hcont : Ins st h (indent_cont h)).
    { destruct h as [|c t]; [constructor|]. cbn [List.length] in Hlen. destruct Hb as [Hb1 Hb2].
      destruct (N.eq_dec c 13) as [->|N13].
      - (* carriage return *)
        assert (Hd : is_data st) by (apply Hb1; reflexivity).
        destruct st as [a| | | | | | | | | | | | | |]; try contradiction.
        rewrite (step_data_break a 13 eq_refl) in Hb2.
        destruct t as [|d t'].
        + rewrite indent_cont_cr by exact I. constructor. rewrite (step_data_break a 13 eq_refl). constructor.
        + destruct (N.eq_dec d 10) as [->|N10].
          * rewrite indent_cont_crlf. destruct Hb2 as [_ Hb3]. rewrite (step_data_break _ 10 eq_refl) in Hb3.
            constructor. rewrite (step_data_break a 13 eq_refl).
            constructor. rewrite (step_data_break _ 10 eq_refl).
            apply (IH t' _); [cbn [List.length] in Hlen; lia | exact Hb3 | exact I].
          * rewrite indent_cont_cr by (destruct d as [|[p|p|]]; try exact I; destruct p as [p|p|]; try exact I;
                                        destruct p as [p|p|]; try exact I; destruct p as [p|p|]; try exact I; congruence).
            constructor. rewrite (step_data_break a 13 eq_refl).
            apply (IH (d :: t') _); [lia | exact Hb2 | exact I].
      - destruct (is_linebreak c) eqn:Hlb.
        + assert (Hd : is_data st) by (apply Hb1; reflexivity).
          destruct st as [a| | | | | | | | | | | | | |]; try contradiction.
          rewrite (step_data_break a c Hlb) in Hb2.
          rewrite (indent_cont_break c t N13 Hlb). constructor. rewrite (step_data_break a c Hlb).
          apply (IH t _); [lia | exact Hb2 | exact I].
        + rewrite (indent_cont_plain c t N13 Hlb). constructor. apply (IH t _); [lia | exact Hb2]. }
    split; [exact Hcont|]. intro Hd.
    destruct (indent2_cont h) as [-> | ->]; [exact Hcont|].
    constructor; [exact Hd|]. constructor; [exact Hd | exact Hcont].
Qed.

Lemma indent2_Ins st h : is_data st -> break_safe st h -> Ins st h (indent2 h).
Proof. intros Hd Hb. exact (proj2 (indent_Ins (List.length h) h st (le_n _) Hb) Hd). Qed.

(** ** [rstrip] *)
Lemma rstrip_split p x : exists w, x = rstrip_by p x ++ w /\ forallb p w = true.
Proof.
  induction x as [|c x [w [E Hw]]]; [exists []; split; reflexivity|].
  cbn [rstrip_by]. destruct (rstrip_by p x) as [|d r] eqn:Er.
  - destruct (p c) eqn:Hc.
    + exists (c :: x). split; [reflexivity|]. cbn [forallb]. rewrite Hc. cbn [app] in E. rewrite E. exact Hw.
    + exists x. split; [reflexivity|]. cbn [app] in E. rewrite E. exact Hw.
  - exists w. split; [|exact Hw]. cbn [app]. f_equal. exact E.
Qed.

(** ** The effect of [t_body] *)
Lemma no_lb_break_safe h : forall st, forallb (fun c => negb (is_linebreak c)) h = true -> break_safe st h.
Proof.
  induction h as [|c h IH]; intros st H; [exact I|]. cbn [forallb] in H. apply andb_true_iff in H as [Hc Hh].
  split; [intro E; rewrite E in Hc; discriminate | apply IH; exact Hh].
Qed.

Lemma t_body_effect b st st' :
  is_data st -> sim st st' -> break_safe st b -> is_data (fst (steps st b)) ->
  break_safe st' (t_body b) /\ is_data (fst (steps st' (t_body b))) /\
  tag_skeleton (snd (steps st' (t_body b))) = tag_skeleton (snd (steps st b)).
Proof.
  intros Hd Hs Hb He. unfold t_body. destruct (memN 10 b).
  - (* newline, indented body without trailing white space, newline *)
    destruct st as [a| | | | | | | | | | | | | |]; try contradiction.
    destruct (sim_data_l a st' Hs) as [a' ->].
    pose proof (indent2_Ins (SData a) b I Hb) as HI.
    set (X := indent2 b) in *. destruct (rstrip_split is_space X) as [W [EX HW]].
    set (Y := rstrip_by is_space X) in *.
    assert (S1 : steps (SData a') [10] = (SData (a' ++ [10]), [])) by reflexivity.
    destruct (Ins_steps _ _ _ HI (SData (a' ++ [10])) (sim_data _ _)) as [HsX HoX].
    pose proof (Ins_break_safe _ _ _ HI (SData (a' ++ [10])) (sim_data _ _) Hb) as HbX.
    (* the state after X is a data state, hence so is the state after Y *)
    assert (HdX : exists ax, fst (steps (SData (a' ++ [10])) X) = SData ax).
    { destruct (fst (steps (SData a) b)) as [ab| | | | | | | | | | | | | |] eqn:Eb; try contradiction.
      destruct (sim_data_l _ _ HsX) as [ax Eax]. eauto. }
    destruct HdX as [ax Eax]. rewrite EX, steps_app in Eax. cbn [fst] in Eax.
    destruct (ws_tail_data W _ ax HW Eax) as [ay Eay].
    assert (PW : forallb plain W = true).
    { rewrite forallb_forall in *. intros c Hc. exact (proj1 (space_char c (HW c Hc))). }
    (* assemble *)
    assert (SY : steps (SData a') ([10] ++ Y ++ [10])
                 = (SData (ay ++ [10]), snd (steps (SData (a' ++ [10])) Y))).
    { rewrite steps_app, S1. cbn [fst snd app]. rewrite steps_app, Eay. cbn [fst snd].
      change (steps (SData ay) [10]) with (SData (ay ++ [10]), @nil token). cbn [fst snd]. rewrite app_nil_r.
      reflexivity. }
    assert (OX : snd (steps (SData (a' ++ [10])) X) = snd (steps (SData (a' ++ [10])) Y)).
    { rewrite EX, steps_app. cbn [snd]. rewrite Eay, (steps_data_plain W ay PW). cbn [snd]. apply app_nil_r. }
    split; [|split].
    + apply break_safe_app. split; [split; [intros _; exact I | exact I]|].
      rewrite S1. cbn [fst]. apply break_safe_app. rewrite EX in HbX. apply break_safe_app in HbX as [HbY _].
      split; [exact HbY|]. rewrite Eay. split; [intros _; exact I | exact I].
    + rewrite SY. exact I.
    + rewrite SY. cbn [snd]. rewrite <- OX. symmetry. exact HoX.
  - destruct (steps_sim b st st' Hs) as [Hs' Ho']. split; [|split].
    + exact (break_safe_sim b st st' Hs Hb).
    + exact (is_data_sim _ _ Hs' He).
    + symmetry. exact Ho'.
Qed.

(** ** Good fragments: from any data state, line breaks are only met in the
    data state, the fragment ends in the data state, and its tag skeleton is [k]. *)
Definition Good (h : str) (k : list skel) : Prop :=
  forall a, break_safe (SData a) h /\ is_data (fst (steps (SData a) h)) /\
            tag_skeleton (snd (steps (SData a) h)) = k.

Lemma Good_nil : Good [] [].
Proof. intro a. repeat split. Qed.

Lemma Good_app h1 k1 h2 k2 : Good h1 k1 -> Good h2 k2 -> Good (h1 ++ h2) (k1 ++ k2).
Proof.
  intros G1 G2 a. destruct (G1 a) as [B1 [D1 K1]].
  destruct (fst (steps (SData a) h1)) as [a1| | | | | | | | | | | | | |] eqn:E1; try contradiction.
  destruct (G2 a1) as [B2 [D2 K2]]. rewrite steps_app, E1. cbn [fst snd].
  repeat split.
  - apply break_safe_app. rewrite E1. split; assumption.
  - exact D2.
  - rewrite tag_skeleton_app, K1, K2. reflexivity.
Qed.

Lemma Good_plain w : forallb plain w = true -> Good w [].
Proof.
  intros Hw a. rewrite (steps_data_plain w a Hw). cbn [fst snd]. repeat split.
  clear - Hw. revert a. induction w as [|c w IH]; intro a; [exact I|].
  cbn [forallb] in Hw. apply andb_true_iff in Hw as [Hc Hw]. split; [intros _; exact I|].
  rewrite (step_data_plain a c Hc). apply IH. exact Hw.
Qed.

Lemma Good_escape_char c : Good (html_escape [c]) [].
Proof.
  destruct (N.eq_dec c 38) as [->|N1]; [intro a; cbn; repeat split; discriminate|].
  destruct (N.eq_dec c 60) as [->|N2]; [intro a; cbn; repeat split; discriminate|].
  destruct (N.eq_dec c 62) as [->|N3]; [intro a; cbn; repeat split; discriminate|].
  destruct (N.eq_dec c 34) as [->|N4]; [intro a; cbn; repeat split; discriminate|].
  destruct (N.eq_dec c 39) as [->|N5]; [intro a; cbn; repeat split; discriminate|].
  rewrite html_escape_plain by assumption. apply Good_plain. cbn [forallb]. unfold plain.
  apply N.eqb_neq in N1, N2. rewrite N1, N2. reflexivity.
Qed.

Lemma Good_escape x : Good (html_escape x) [].
Proof.
  induction x as [|c x IH]; [apply Good_nil|]. rewrite html_escape_cons.
  apply (Good_app _ [] _ [] (Good_escape_char c) IH).
Qed.
