(** * Link algebra (C14), part 1: [href_relative] followed by RFC 3986 resolution. *)
From Coq Require Import List NArith Bool Arith Lia.
From RG Require Import Base.Str Model.Url Model.Href.
Import ListNotations.

Local Open Scope nat_scope.

(** ** Segments and paths *)

Definition has47 (x : str) : bool := existsb (fun c => (c =? 47)%N) x.

(** A path segment: non-empty, not "." or "..", no "/". *)
Definition seg_ok (sg : str) : bool :=
  match sg with [] => false | _ => true end &&
  negb (str_eqb sg dot) && negb (str_eqb sg dotdot) && negb (has47 sg).

(** "/" ++ "/".join(segs) *)
Definition path_of (segs : list str) : str := 47%N :: join slash segs.

Fixpoint is_prefix (a b : list str) : bool :=
  match a, b with
  | [], _ => true
  | x :: a', y :: b' => str_eqb x y && is_prefix a' b'
  | _ :: _, [] => false
  end.

(** ** split / join *)

Lemma join_cons2 sep (p q : str) (rest : list str) :
  join sep (p :: q :: rest) = p ++ sep ++ join sep (q :: rest).
Proof. reflexivity. Qed.

Lemma join_app sep (l1 l2 : list str) : l1 <> [] -> l2 <> [] ->
  join sep (l1 ++ l2) = join sep l1 ++ sep ++ join sep l2.
Proof.
  intros H1 H2. induction l1 as [|p l1 IH]; [congruence|].
  destruct l1 as [|q l1].
  - cbn [app]. destruct l2 as [|r l2]; [congruence|]. reflexivity.
  - change ((p :: q :: l1) ++ l2) with (p :: q :: (l1 ++ l2)). rewrite !join_cons2.
    change (q :: l1 ++ l2) with ((q :: l1) ++ l2). rewrite IH by discriminate.
    rewrite <- !app_assoc. reflexivity.
Qed.

Lemma split_on_no47 (x : str) : has47 x = false -> split_on 47%N x = [x].
Proof.
  induction x as [|c x IH]; intro H; [reflexivity|]. cbn [has47 existsb] in H.
  apply orb_false_iff in H as [Hc H]. cbn [split_on]. rewrite Hc, (IH H). reflexivity.
Qed.

Lemma split_on_app47 (x y : str) : has47 x = false ->
  split_on 47%N (x ++ 47%N :: y) = x :: split_on 47%N y.
Proof.
  induction x as [|c x IH]; intro H.
  - reflexivity.
  - cbn [has47 existsb] in H. apply orb_false_iff in H as [Hc H].
    cbn [app split_on]. rewrite Hc, (IH H). reflexivity.
Qed.

Lemma split_on_join (segs : list str) : segs <> [] -> forallb (fun sg => negb (has47 sg)) segs = true ->
  split_on 47%N (join slash segs) = segs.
Proof.
  induction segs as [|p segs IH]; intros Hne H; [congruence|].
  cbn [forallb] in H. apply andb_true_iff in H as [Hp H]. apply negb_true_iff in Hp.
  destruct segs as [|q segs].
  - cbn [join]. apply split_on_no47. exact Hp.
  - rewrite join_cons2. unfold slash. cbn [app]. rewrite (split_on_app47 _ _ Hp).
    f_equal. apply IH; [discriminate | exact H].
Qed.

Lemma split_on_path_of (segs : list str) : segs <> [] -> forallb (fun sg => negb (has47 sg)) segs = true ->
  split_on 47%N (path_of segs) = [] :: segs.
Proof.
  intros Hne H. unfold path_of.
  change (47%N :: join slash segs) with ([] ++ 47%N :: join slash segs).
  rewrite (split_on_app47 [] _ eq_refl). f_equal. apply split_on_join; assumption.
Qed.

Lemma seg_ok_parts sg : seg_ok sg = true ->
  sg <> [] /\ str_eqb sg dot = false /\ str_eqb sg dotdot = false /\ has47 sg = false.
Proof.
  unfold seg_ok. intro H. apply andb_true_iff in H as [H H4]. apply andb_true_iff in H as [H H3].
  apply andb_true_iff in H as [H1 H2]. apply negb_true_iff in H2, H3, H4.
  repeat split; try assumption. destruct sg; [discriminate | discriminate].
Qed.

Lemma seg_ok_no47 (segs : list str) : forallb seg_ok segs = true ->
  forallb (fun sg => negb (has47 sg)) segs = true.
Proof.
  induction segs as [|p segs IH]; intro H; [reflexivity|]. cbn [forallb] in *.
  apply andb_true_iff in H as [Hp H]. destruct (seg_ok_parts p Hp) as [_ [_ [_ H4]]].
  rewrite H4, (IH H). reflexivity.
Qed.

(** ** remove_dot_segments on segment lists *)

Lemma rds_go_push (l : list str) : forall out rest,
  forallb (fun sg => negb (str_eqb sg dot) && negb (str_eqb sg dotdot)) l = true ->
  rds_go out (l ++ rest) = rds_go (rev l ++ out) rest.
Proof.
  induction l as [|sg l IH]; intros out rest H; [reflexivity|].
  cbn [forallb] in H. apply andb_true_iff in H as [Hs H]. apply andb_true_iff in Hs as [H1 H2].
  apply negb_true_iff in H1, H2. cbn [app rds_go]. rewrite H1, H2, (IH _ _ H).
  cbn [rev]. rewrite <- app_assoc. reflexivity.
Qed.

Lemma rds_go_dotdot out (rest : list str) : rest <> [] ->
  rds_go out (dotdot :: rest) = rds_go (tl out) rest.
Proof.
  intro Hne. destruct rest as [|r rest]; [congruence|]. cbn [rds_go].
  replace (str_eqb dotdot dot) with false by reflexivity.
  replace (str_eqb dotdot dotdot) with true by reflexivity.
  destruct out; reflexivity.
Qed.

Lemma rds_go_pop k : forall out rest, rest <> [] ->
  rds_go out (repeat dotdot k ++ rest) = rds_go (skipn k out) rest.
Proof.
  induction k as [|k IH]; intros out rest Hne; [reflexivity|].
  cbn [repeat app]. rewrite rds_go_dotdot.
  - rewrite IH by exact Hne. destruct out as [|o out]; [|reflexivity].
    cbn [tl]. rewrite skipn_nil. reflexivity.
  - intro E. apply app_eq_nil in E. destruct E. contradiction.
Qed.

Lemma rds_go_nil out : rds_go out [] = rev out.
Proof. reflexivity. Qed.

Lemma seg_ok_nodots (l : list str) : forallb seg_ok l = true ->
  forallb (fun sg => negb (str_eqb sg dot) && negb (str_eqb sg dotdot)) l = true.
Proof.
  induction l as [|p l IH]; intro H; [reflexivity|]. cbn [forallb] in *.
  apply andb_true_iff in H as [Hp H]. destruct (seg_ok_parts p Hp) as [_ [H2 [H3 _]]].
  rewrite H2, H3, (IH H). reflexivity.
Qed.

(** ** The base directory *)

Lemma merge_base_path_of (fd : list str) (ff : str) :
  forallb seg_ok (fd ++ [ff]) = true ->
  merge_base (path_of (fd ++ [ff])) = join slash ([] :: fd) ++ slash.
Proof.
  intro H. unfold merge_base.
  rewrite split_on_path_of; [| destruct fd; discriminate | apply seg_ok_no47; exact H].
  change ([] :: fd ++ [ff]) with (([] :: fd) ++ [ff]). rewrite rev_app_distr.
  change (rev [ff]) with [ff]. cbn [app].
  assert (A : forall l : list str, l <> [] ->
            match l with [] => [] | _ :: _ => join [47%N] (rev l) ++ [47%N] end = join [47%N] (rev l) ++ [47%N])
    by (intros l Hl; destruct l; [congruence | reflexivity]).
  rewrite A.
  - rewrite rev_involutive. reflexivity.
  - intro E. apply (f_equal (@rev str)) in E. rewrite rev_involutive in E. discriminate.
Qed.

(** ** Resolution of  "../" * k ++ down  against  /fd/ff *)

Lemma first_char_not_slash (sg : str) (rest : str) : sg <> [] -> has47 sg = false ->
  exists c tl, sg ++ rest = c :: tl /\ (c =? 47)%N = false.
Proof.
  destruct sg as [|c sg]; [congruence|]. intros _ H. cbn [has47 existsb] in H.
  apply orb_false_iff in H as [Hc _]. exists c, (sg ++ rest). split; [reflexivity | exact Hc].
Qed.

Lemma join_head (l : list str) : l <> [] -> exists p rest, join slash l = p ++ rest /\ hd [] l = p.
Proof.
  destruct l as [|p l]; [congruence|]. intros _. destruct l as [|q l].
  - exists p, []. rewrite app_nil_r. split; reflexivity.
  - exists p, (slash ++ join slash (q :: l)). split; reflexivity.
Qed.

Lemma resolve_segments (fd : list str) (ff : str) (k : nat) (down : list str) :
  forallb seg_ok (fd ++ [ff]) = true -> forallb seg_ok down = true -> down <> [] -> k <= length fd ->
  url_resolve (path_of (fd ++ [ff])) (join slash (repeat dotdot k ++ down)) =
  path_of (firstn (length fd - k) fd ++ down).
Proof.
  intros Hf Hd Hne Hk.
  assert (Hfd : forallb seg_ok fd = true) by (rewrite forallb_app in Hf; apply andb_true_iff in Hf; tauto).
  set (ref := repeat dotdot k ++ down).
  assert (Hrne : ref <> []) by (subst ref; intro E; apply app_eq_nil in E; destruct E; contradiction).
  (* every segment of the reference is non-empty and has no "/" *)
  assert (Hr47 : forallb (fun sg => negb (has47 sg)) ref = true).
  { subst ref. rewrite forallb_app. apply andb_true_iff. split; [|apply seg_ok_no47; exact Hd].
    clear. induction k; [reflexivity|]. cbn [repeat forallb]. rewrite IHk. reflexivity. }
  assert (Hhd : hd [] ref <> [] /\ has47 (hd [] ref) = false).
  { subst ref. destruct k as [|k]; cbn [repeat app hd].
    - destruct down as [|d down]; [congruence|]. cbn [forallb] in Hd. apply andb_true_iff in Hd as [Hd _].
      destruct (seg_ok_parts d Hd) as [A [_ [_ B]]]. split; assumption.
    - split; [discriminate | reflexivity]. }
  destruct (join_head ref Hrne) as [p [rest [Ej Ep]]]. rewrite Ep in Hhd. destruct Hhd as [Hp0 Hp47].
  destruct (first_char_not_slash p rest Hp0 Hp47) as [c [tl [Ec Hc]]].
  unfold url_resolve. rewrite Ej, Ec, Hc. rewrite <- Ec, <- Ej.
  rewrite (merge_base_path_of fd ff Hf).
  (* the merged path *)
  assert (Em : (join slash ([] :: fd) ++ slash) ++ join slash ref = path_of (fd ++ ref)).
  { unfold path_of. destruct fd as [|f0 fd'].
    - reflexivity.
    - rewrite (join_app slash (f0 :: fd') ref) by (assumption || discriminate).
      rewrite join_cons2. unfold slash. cbn [app]. rewrite <- !app_assoc. reflexivity. }
  rewrite Em. unfold path_of at 1. unfold remove_dot_segments. rewrite N.eqb_refl.
  rewrite split_on_join.
  2:{ destruct fd; [exact Hrne | discriminate]. }
  2:{ rewrite forallb_app, (seg_ok_no47 fd Hfd), Hr47. reflexivity. }
  subst ref.
  rewrite (rds_go_push fd [] _ (seg_ok_nodots fd Hfd)), app_nil_r.
  rewrite (rds_go_pop k _ down Hne).
  replace down with (down ++ []) at 1 by apply app_nil_r.
  rewrite (rds_go_push down _ [] (seg_ok_nodots down Hd)), rds_go_nil.
  rewrite rev_app_distr, rev_involutive. unfold path_of. f_equal. f_equal. f_equal.
  (* rev (skipn k (rev fd)) = firstn (length fd - k) fd *)
  rewrite skipn_rev, rev_involutive. reflexivity.
Qed.

(** ** [href_relative] on segment lists *)

Lemma str_eqb_sym (x y : str) : str_eqb x y = str_eqb y x.
Proof.
  destruct (str_eqb x y) eqn:E.
  - apply str_eqb_eq in E. subst. symmetry. apply str_eqb_refl.
  - destruct (str_eqb y x) eqn:E2; [|reflexivity]. apply str_eqb_eq in E2. subst.
    rewrite str_eqb_refl in E. discriminate.
Qed.

Lemma common_prefix_spec (a b : list str) :
  firstn (length (common_prefix a b)) a = common_prefix a b /\
  firstn (length (common_prefix a b)) b = common_prefix a b.
Proof.
  revert b. induction a as [|x a IH]; intro b; [split; reflexivity|].
  destruct b as [|y b]; [split; reflexivity|]. cbn [common_prefix].
  destruct (str_eqb x y) eqn:E; [|split; reflexivity].
  apply str_eqb_eq in E. subst y. destruct (IH b) as [H1 H2].
  cbn [length firstn]. rewrite H1, H2. split; reflexivity.
Qed.

Lemma common_prefix_length (a b : list str) : length (common_prefix a b) <= length a.
Proof.
  revert b. induction a as [|x a IH]; intro b; [cbn; lia|].
  destruct b as [|y b]; [cbn; lia|]. cbn [common_prefix]. destruct (str_eqb x y); [|cbn; lia].
  cbn [length]. specialize (IH b). lia.
Qed.

Lemma common_prefix_all (a b : list str) :
  skipn (length (common_prefix a b)) b = [] -> is_prefix b a = true.
Proof.
  revert b. induction a as [|x a IH]; intros b H.
  - cbn [common_prefix length skipn] in H. subst b. reflexivity.
  - destruct b as [|y b]; [reflexivity|]. cbn [common_prefix] in H.
    destruct (str_eqb x y) eqn:E.
    + cbn [length skipn] in H. cbn [is_prefix]. rewrite str_eqb_sym, E. apply IH. exact H.
    + cbn [length skipn] in H. discriminate.
Qed.

Lemma href_relative_segments (fd : list str) (ff : str) (ts : list str) :
  forallb (fun sg => negb (has47 sg)) (fd ++ [ff]) = true ->
  forallb (fun sg => negb (has47 sg)) ts = true -> ts <> [] ->
  href_relative (path_of (fd ++ [ff])) (path_of ts) =
  join slash (repeat dotdot (length fd - length (common_prefix fd ts)) ++
              skipn (length (common_prefix fd ts)) ts).
Proof.
  intros Hf Ht Hne. unfold href_relative.
  rewrite (split_on_path_of (fd ++ [ff])) by (try assumption; destruct fd; discriminate).
  rewrite (split_on_path_of ts) by assumption.
  change ([] :: fd ++ [ff]) with (([] :: fd) ++ [ff]). rewrite removelast_last.
  cbn [common_prefix]. replace (str_eqb [] []) with true by reflexivity.
  cbn [length skipn Nat.sub]. reflexivity.
Qed.

(** The link written on page [/fd/ff] for target [/ts] resolves to [/ts]. *)
Lemma relative_correct (fd : list str) (ff : str) (ts : list str) :
  forallb seg_ok (fd ++ [ff]) = true -> forallb seg_ok ts = true -> is_prefix ts fd = false ->
  url_resolve (path_of (fd ++ [ff])) (href_relative (path_of (fd ++ [ff])) (path_of ts)) = path_of ts.
Proof.
  intros Hf Ht Hp.
  assert (Hne : ts <> []) by (intro E; subst ts; discriminate).
  rewrite href_relative_segments; try (apply seg_ok_no47; assumption); try assumption.
  set (n := length (common_prefix fd ts)).
  assert (Hn : n <= length fd) by apply common_prefix_length.
  destruct (common_prefix_spec fd ts) as [C1 C2]. fold n in C1, C2.
  assert (Hdown : skipn n ts <> []).
  { intro E. apply common_prefix_all in E. rewrite E in Hp. discriminate. }
  assert (Hdok : forallb seg_ok (skipn n ts) = true).
  { rewrite <- (firstn_skipn n ts) in Ht. rewrite forallb_app in Ht. apply andb_true_iff in Ht. tauto. }
  rewrite (resolve_segments fd ff (length fd - n) (skipn n ts) Hf Hdok Hdown) by lia.
  replace (length fd - (length fd - n)) with n by lia.
  rewrite C1, <- C2, firstn_skipn. reflexivity.
Qed.
