(** * Glue for C09: pages made of compiled (and scaled) recipes satisfy
    [page_valid], the hypothesis of [page_target_exists] (Proofs/HtmlLinks.v).

    [page_valid] asks, for every independent recipe of the page (its blocks
    concatenated): every DRAWN reference embeds a tree that comes earlier and
    is a sub recipe with the output index in range.  [strictly_valid]
    (Spec/Valid.v) gives this: the embedded value is Leibniz-equal to an
    earlier sub recipe root, and the reference passes its constructor check. *)
From Coq Require Import List ZArith NArith Bool Lia.
From RG Require Import Base.Str Base.Num Model.Recipe Model.Compiler Model.CompilerInst Model.Parser Spec.Valid
  Proofs.RecipeInd Proofs.RecipeValid Proofs.CompilerInvMain Proofs.GlueValid.
From RG Require Model.Html Proofs.HtmlLinks.
Import ListNotations.

Module H := RG.Model.Html.
Module L := RG.Proofs.HtmlLinks.

Lemma html_refs_in_Step d ins : H.refs_in (Step d ins) = flat_map H.refs_in ins.
Proof.
  simpl. induction ins as [|x r IH]; [reflexivity|]. simpl. now rewrite IH.
Qed.

Definition all_sub (seen : list node) : Prop := forall x, In x seen -> is_subrecipe x = true.

(** One tree. *)
Lemma tree_refs_valid seen : all_sub seen -> forall t,
  constructed t = true -> Spec.Valid.refs_in seen t -> Forall (L.ref_valid seen) (H.refs_in t).
Proof.
  intros Hsub.
  induction t as [d q|d ins IH|sr i am IH|bd ns sh IH] using node_ind'; intros Hc Hr.
  - constructor.
  - rewrite html_refs_in_Step. apply Forall_flat_map.
    apply constructed_unfold in Hc. destruct Hc as [_ Hc]. apply refs_in_Step in Hr.
    rewrite Forall_forall in *. intros x Hx. apply IH; auto.
  - simpl. constructor; [|constructor]. destruct Hr as [Hin _].
    split; [exact Hin|]. simpl.
    apply constructed_unfold in Hc. destruct Hc as [Hp _].
    pose proof (Hsub sr Hin) as Hs. destruct sr as [| | |b names sh0]; try discriminate.
    exists b, names, sh0. split; [reflexivity|]. simpl in Hp.
    destruct (Nat.ltb i (length names)) eqn:E; [|discriminate]. now apply Nat.ltb_lt.
  - simpl. apply constructed_unfold in Hc. destruct Hc as [_ Hc]. simpl in Hr. auto.
Qed.

Lemma ref_valid_incl e e' r : incl e e' -> L.ref_valid e r -> L.ref_valid e' r.
Proof. intros Hi [H1 H2]. split; [apply Hi; exact H1|exact H2]. Qed.

Lemma trees_valid_incl : forall trees e e', incl e e' -> L.trees_valid e trees -> L.trees_valid e' trees.
Proof.
  induction trees as [|t rest IH]; intros e e' Hi H; simpl in *; [exact I|].
  destruct H as [H1 H2]. split.
  - eapply Forall_impl; [|exact H1]. intros r. now apply ref_valid_incl.
  - eapply IH; [|exact H2]. apply incl_app; [apply incl_appl; exact Hi|apply incl_appr, incl_refl].
Qed.

Lemma trees_valid_app : forall l1 l2 e,
  L.trees_valid e l1 -> L.trees_valid (e ++ l1) l2 -> L.trees_valid e (l1 ++ l2).
Proof.
  induction l1 as [|t l1 IH]; intros l2 e H1 H2; simpl in *.
  - now rewrite app_nil_r in H2.
  - destruct H1 as [Ha Hb]. split; [exact Ha|]. apply IH; [exact Hb|].
    now rewrite <- app_assoc.
Qed.

(** One block. *)
Lemma block_trees_valid : forall trees seen earlier,
  all_sub seen -> incl seen earlier -> block_valid seen trees -> L.trees_valid earlier trees.
Proof.
  induction trees as [|t rest IH]; intros seen earlier Hs Hi Hv; simpl in *; [exact I|].
  destruct Hv as [[Hc Hr] Hrest]. split.
  - eapply Forall_impl; [|apply (tree_refs_valid seen Hs t Hc Hr)]. intros r. now apply ref_valid_incl.
  - eapply IH; [| |exact Hrest].
    + destruct (is_subrecipe t) eqn:E; [|exact Hs]. intros x [<-|Hx]; [exact E|now apply Hs].
    + destruct (is_subrecipe t).
      * intros x [<-|Hx]; [apply in_or_app; right; now left|apply in_or_app; left; now apply Hi].
      * apply incl_appl. exact Hi.
Qed.

Lemma roots_all_sub b seen : all_sub seen -> all_sub (subrecipe_roots b ++ seen).
Proof.
  intros Hs x Hx. apply in_app_or in Hx. destruct Hx as [Hx|Hx]; [|now apply Hs].
  unfold subrecipe_roots in Hx. apply filter_In in Hx. apply Hx.
Qed.

(** A 'follows' chain of blocks. *)
Lemma blocks_trees_valid : forall bs seen earlier,
  all_sub seen -> incl seen earlier -> blocks_valid_from seen bs -> L.trees_valid earlier (concat bs).
Proof.
  induction bs as [|b rest IH]; intros seen earlier Hs Hi Hv; simpl in *; [exact I|].
  destruct Hv as [Hb Hrest]. apply trees_valid_app.
  - eapply block_trees_valid; eauto.
  - eapply IH; [apply roots_all_sub; exact Hs| |exact Hrest].
    apply incl_app.
    + apply incl_appr. unfold subrecipe_roots. intros x Hx. apply filter_In in Hx. apply Hx.
    + apply incl_appl. exact Hi.
Qed.

Theorem strictly_valid_trees_valid bs : strictly_valid bs -> L.trees_valid [] (concat bs).
Proof.
  intro Hv. apply strictly_valid_iff_rec in Hv. unfold strictly_valid_rec in Hv.
  eapply blocks_trees_valid; [|apply incl_refl|exact Hv]. intros x [].
Qed.

Theorem strictly_valid_page_valid (p : H.page) : Forall strictly_valid p -> L.page_valid p.
Proof.
  intro Hp. unfold L.page_valid. eapply Forall_impl; [|exact Hp].
  intros bs. apply strictly_valid_trees_valid.
Qed.

(** ** Pages of compiled recipes *)

(** One independent recipe of the page is what some compilation returned,
    scaled by any sequence of factors ([[]] = not scaled). *)
Definition compiled_recipe (blocks : list (list node)) : Prop :=
  exists convert tol lower p bs ks,
    compile_ast convert tol lower p = COk bs /\ scale_blocks_iter ks bs = Some blocks.

Definition compiled_page (p : H.page) : Prop := Forall compiled_recipe p.

(** The same from source text (parse + compile with the generated unit system). *)
Definition source_recipe (blocks : list (list node)) : Prop :=
  exists srcs bs ks, compile_src srcs = SrcOk bs /\ scale_blocks_iter ks bs = Some blocks.

Lemma source_recipe_compiled blocks : source_recipe blocks -> compiled_recipe blocks.
Proof.
  intros (srcs & bs & ks & Hc & Hs). destruct (compile_src_ok_inv _ _ Hc) as (p & _ & Hp).
  unfold compile_ast_inst in Hp. unfold compiled_recipe. eauto 10.
Qed.

Lemma compiled_recipe_valid blocks : compiled_recipe blocks -> strictly_valid blocks.
Proof.
  intros (convert & tol & lower & p & bs & ks & Hc & Hs).
  exact (proj1 (compiled_iter_scaled_valid convert tol lower p bs ks blocks Hc Hs)).
Qed.

Theorem compiled_page_valid p : compiled_page p -> L.page_valid p.
Proof.
  intro Hp. apply strictly_valid_page_valid. eapply Forall_impl; [|exact Hp].
  exact compiled_recipe_valid.
Qed.

Theorem source_page_valid p : Forall source_recipe p -> L.page_valid p.
Proof.
  intro Hp. apply compiled_page_valid. eapply Forall_impl; [|exact Hp]. exact source_recipe_compiled.
Qed.
