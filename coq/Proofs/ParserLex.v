(** * Lexical round trips for the grammar interpreter (C06): quoted strings,
    whitespace leaves, number literals. *)
From Coq Require Import List ZArith NArith Bool Lia.
From RG Require Import Base.Str Base.Dec Base.Num Model.Recipe Model.Compiler Model.Parser Model.Printer
  Proofs.DecLemmas.
From RG Require Model.Units.
Import ListNotations.
Open Scope list_scope.
Open Scope N_scope.

(** ** [len] *)
Lemma len_fold : forall x a, fold_left (fun n (_ : N) => N.succ n) x a = a + len x.
Proof.
  unfold len. induction x as [|c t IH]; intro a; cbn [fold_left].
  - lia.
  - rewrite IH, (IH (N.succ 0)). lia.
Qed.
Lemma len_nil : len [] = 0. Proof. reflexivity. Qed.
Lemma len_cons c x : len (c :: x) = 1 + len x.
Proof. unfold len at 1. cbn [fold_left]. rewrite len_fold. lia. Qed.
Lemma len_app x y : len (x ++ y) = len x + len y.
Proof. induction x as [|c t IH]; cbn [app]; [rewrite len_nil; lia|]. rewrite !len_cons, IH. lia. Qed.
Lemma len_length x : len x = N.of_nat (List.length x).
Proof. induction x as [|c t IH]; [reflexivity|]. rewrite len_cons, IH. cbn [List.length]. lia. Qed.

(** What may follow a run: nothing, or a character outside the class. *)
Definition stops (p : N -> bool) (r : str) : Prop := match r with [] => True | c :: _ => p c = false end.

(** ** [span] *)
Lemma span_app p (w r : str) : forallb p w = true -> stops p r -> span p (w ++ r) = (w, r).
Proof.
  unfold span. intros Hw Hr. induction w as [|c w IH]; cbn [app Units.span].
  - destruct r as [|c t]; [reflexivity|]. cbn [Units.span]. cbn [stops] in Hr. rewrite Hr. reflexivity.
  - cbn [forallb] in Hw. apply andb_true_iff in Hw as [Hc Hw]. rewrite Hc, (IH Hw). reflexivity.
Qed.

Lemma span_spec p (x : str) : forall (w r : str), span p x = (w, r) -> x = w ++ r /\ forallb p w = true.
Proof.
  unfold span. induction x as [|c t IH]; intros w r H; cbn [Units.span] in H.
  - inversion H. split; reflexivity.
  - destruct (p c) eqn:Hc.
    + destruct (Units.span p t) as [a b]. inversion H; subst. destruct (IH a r eq_refl) as [E F].
      subst t. split; [reflexivity | cbn [forallb]; rewrite Hc; exact F].
    + inversion H. split; reflexivity.
Qed.

(** ** Whitespace leaves: the run that is written is the run that is skipped,
    whatever it is. *)
Lemma opt_hsp_run w r : forallb is_hsp w = true -> stops is_hsp r -> opt_hsp (w ++ r) = (w, r).
Proof. intros. apply span_app; assumption. Qed.
Lemma opt_sp_run w r : forallb is_ws w = true -> stops is_ws r -> opt_sp (w ++ r) = (w, r).
Proof. intros. apply span_app; assumption. Qed.

Lemma sc_hsp_run w r : w <> [] -> forallb is_hsp w = true -> stops is_hsp r -> sc_hsp (w ++ r) = Some (w, r).
Proof.
  intros Hn Hw Hr. unfold sc_hsp, Units.hsp. change (Units.span Units.is_hsp) with (span is_hsp).
  rewrite (span_app _ _ _ Hw Hr). destruct w; [contradiction|reflexivity].
Qed.
Lemma sc_sp_run w r : w <> [] -> forallb is_ws w = true -> stops is_ws r -> sc_sp (w ++ r) = Some (w, r).
Proof.
  intros Hn Hw Hr. unfold sc_sp. rewrite (span_app _ _ _ Hw Hr). destruct w; [contradiction|reflexivity].
Qed.

Lemma skip_hsp_run w r o b : forallb is_hsp w = true -> stops is_hsp r ->
  skip_hsp (mkSt (w ++ r) o b) = (w, mkSt r (o + len w) b).
Proof. intros Hw Hr. unfold skip_hsp. cbn [rest]. rewrite (opt_hsp_run _ _ Hw Hr). reflexivity. Qed.
Lemma skip_sp_run w r o b : forallb is_ws w = true -> stops is_ws r ->
  skip_sp (mkSt (w ++ r) o b) = mkSt r (o + len w) b.
Proof. intros Hw Hr. unfold skip_sp. cbn [rest]. rewrite (opt_sp_run _ _ Hw Hr). reflexivity. Qed.

(** Two different runs at the same optional position leave the same input. *)
Lemma hsp_insignificant w1 w2 r o1 o2 b :
  forallb is_hsp w1 = true -> forallb is_hsp w2 = true -> stops is_hsp r ->
  rest (snd (skip_hsp (mkSt (w1 ++ r) o1 b))) = rest (snd (skip_hsp (mkSt (w2 ++ r) o2 b))).
Proof. intros H1 H2 Hr. rewrite !skip_hsp_run by assumption. reflexivity. Qed.
Lemma sp_insignificant w1 w2 r o1 o2 b :
  forallb is_ws w1 = true -> forallb is_ws w2 = true -> stops is_ws r ->
  rest (skip_sp (mkSt (w1 ++ r) o1 b)) = rest (skip_sp (mkSt (w2 ++ r) o2 b)).
Proof. intros H1 H2 Hr. rewrite !skip_sp_run by assumption. reflexivity. Qed.

Lemma hsp_is_ws c : is_hsp c = true -> is_ws c = true.
Proof.
  unfold is_hsp, Units.is_hsp. intro H. apply orb_true_iff in H as [H|H]; apply N.eqb_eq in H; subst; reflexivity.
Qed.

(** [eol]: trailing horizontal space, the line break, blank lines and the next
    line's indentation are all skipped, whatever they are. *)
Lemma sc_eol_break w c ws r :
  forallb is_hsp w = true -> c = 10 \/ c = 13 -> forallb is_ws ws = true -> stops is_ws r ->
  sc_eol (w ++ c :: ws ++ r) = Some (w ++ c :: ws, r).
Proof.
  intros Hw Hc Hws Hr. unfold sc_eol.
  assert (Hstop : stops is_hsp (c :: ws ++ r)) by (destruct Hc; subst; reflexivity).
  rewrite (span_app _ _ _ Hw Hstop).
  assert (E : (c =? 13) || (c =? 10) = true) by (destruct Hc; subst; reflexivity).
  rewrite E, (span_app _ _ _ Hws Hr). reflexivity.
Qed.
Lemma sc_eol_end w : forallb is_hsp w = true -> sc_eol w = Some (w, []).
Proof.
  intro Hw. unfold sc_eol. rewrite <- (app_nil_r w) at 1. rewrite (span_app is_hsp w [] Hw I). reflexivity.
Qed.

(** ** Quoted strings *)
Lemma unescape_letter c l : letter_of c = Some l -> unescape l = c.
Proof.
  unfold letter_of.
  repeat match goal with
  | |- (if ?a =? ?k then _ else _) = Some _ -> _ =>
      let E := fresh "E" in destruct (a =? k) eqn:E;
      [apply N.eqb_eq in E; subst; let H := fresh "H" in intro H; inversion H; reflexivity|]
  end.
  discriminate.
Qed.

Lemma q_body_char q c m tail :
  (q = 34 \/ q = 39) ->
  q_body q (print_char (raw_ok_q q) m c ++ tail) =
  match q_body q tail with
  | Some (v, n, r) => Some (c :: v, n + len (print_char (raw_ok_q q) m c), r)
  | None => None
  end.
Proof.
  intro Hq.
  assert (Hraw : raw_ok_q q c = true -> q_body q (c :: tail) =
            match q_body q tail with Some (v, n, r) => Some (c :: v, n + 1, r) | None => None end).
  { unfold raw_ok_q. intro H. apply negb_true_iff in H. apply orb_false_iff in H as [H H4].
    apply orb_false_iff in H as [H H3]. apply orb_false_iff in H as [H1 H2].
    cbn [q_body]. rewrite H2, H1, H3, H4. cbn [orb]. reflexivity. }
  assert (Hesc : forall e, unescape e = c -> q_body q (92 :: e :: tail) =
            match q_body q tail with Some (v, n, r) => Some (c :: v, n + 2, r) | None => None end).
  { intros e He. cbn [q_body]. change (92 =? 92) with true. cbv iota. rewrite He. reflexivity. }
  assert (Hself : raw_ok_q q c = false -> unescape c = c).
  { unfold raw_ok_q. intro H. apply negb_false_iff in H.
    repeat (apply orb_true_iff in H as [H|H]); apply N.eqb_eq in H; subst c; try reflexivity.
    destruct Hq; subst q; reflexivity. }
  assert (Hdflt : q_body q ((if raw_ok_q q c then [c] else [92; c]) ++ tail) =
            match q_body q tail with
            | Some (v, n, r) => Some (c :: v, n + len (if raw_ok_q q c then [c] else [92; c]), r)
            | None => None end).
  { destruct (raw_ok_q q c) eqn:R.
    - cbn [app]. rewrite (Hraw eq_refl). reflexivity.
    - cbn [app]. rewrite (Hesc c (Hself eq_refl)). reflexivity. }
  unfold print_char. destruct m.
  - exact Hdflt.
  - unfold self_esc. destruct (unescape c =? c) eqn:E; [|exact Hdflt].
    apply N.eqb_eq in E. cbn [app]. rewrite (Hesc c E). reflexivity.
  - destruct (letter_of c) as [l|] eqn:E; [|exact Hdflt].
    cbn [app]. rewrite (Hesc l (unescape_letter _ _ E)). reflexivity.
Qed.

Lemma q_body_chars q : (q = 34 \/ q = 39) -> forall x ms rest,
  q_body q (print_chars (raw_ok_q q) ms x ++ q :: rest) =
  Some (x, len (print_chars (raw_ok_q q) ms x) + 1, rest).
Proof.
  intros Hq x. induction x as [|c t IH]; intros ms rest0; cbn [print_chars].
  - cbn [app q_body]. assert (E : (q =? 92) = false) by (destruct Hq; subst; reflexivity).
    rewrite E, N.eqb_refl. reflexivity.
  - rewrite <- app_assoc, (q_body_char q c _ _ Hq), IH. rewrite len_app. f_equal. f_equal. f_equal. lia.
Qed.

(** Any string, either quote character, every character written raw or
    escaped as the spelling vector says: the scanner returns the string and
    the rest of the input. *)
Theorem quoted_roundtrip q ms x rest0 o b fuel braces :
  (q = 34 \/ q = 39) ->
  p_segment fuel braces (mkSt (print_quoted q ms x ++ rest0) o b) =
  Got ([PStr x], o) (mkSt rest0 (o + len (print_quoted q ms x)) b).
Proof.
  intro Hq. unfold p_segment, print_quoted. cbn [rest app].
  assert (Hn : sc_naked (q :: (print_chars (raw_ok_q q) ms x ++ [q]) ++ rest0) = None).
  { unfold sc_naked. assert (E : naked_edge q = false) by (destruct Hq; subst; reflexivity). rewrite E. reflexivity. }
  rewrite Hn.
  assert (E : (q =? 39) || (q =? 34) = true) by (destruct Hq; subst; reflexivity). rewrite E.
  rewrite <- app_assoc. cbn [app]. rewrite (q_body_chars q Hq). unfold advn. cbn [off bad].
  rewrite len_cons, len_app, len_cons, len_nil. f_equal. f_equal. lia.
Qed.

(** ** Numbers *)
Lemma forallb_repeat {A} (p : A -> bool) a k : p a = true -> forallb p (repeat a k) = true.
Proof. intro H. induction k; cbn; [reflexivity|]. rewrite H, IHk. reflexivity. Qed.

Lemma all_digits_zs k : forallb is_digit (zs k) = true.
Proof. apply forallb_repeat. reflexivity. Qed.

Lemma forallb_app' {A} (p : A -> bool) x y : forallb p (x ++ y) = forallb p x && forallb p y.
Proof. apply forallb_app. Qed.

Lemma digits_zs_dec k n : forallb is_digit (zs k ++ dec_N n) = true.
Proof. rewrite forallb_app, all_digits_zs. exact (all_digits_dec_N n). Qed.

Lemma val_zs_dec k n : val_N (zs k ++ dec_N n) = n.
Proof.
  rewrite val_N_app, val_N_dec_N. unfold zs. rewrite val_N_repeat0. lia.
Qed.

Lemma zs_dec_nonempty k n : zs k ++ dec_N n <> [].
Proof. intro H. apply app_eq_nil in H as [_ H]. exact (dec_N_nonempty n H). Qed.

Lemma sc_digits_run (d r : str) : d <> [] -> forallb is_digit d = true -> stops is_digit r ->
  sc_digits (d ++ r) = Some (d, r).
Proof.
  intros Hn Hd Hr. unfold sc_digits. rewrite (span_app _ _ _ Hd Hr). destruct d; [contradiction|reflexivity].
Qed.

Lemma sc_digits_none (x : str) : stops is_digit x -> sc_digits x = None.
Proof.
  intro H. unfold sc_digits. destruct x as [|c t]; [reflexivity|]. unfold span. cbn [Units.span].
  cbn [stops] in H. rewrite H. reflexivity.
Qed.

Lemma span_cons_true p (c : N) (t : str) : p c = true -> span p (c :: t) = (c :: fst (span p t), snd (span p t)).
Proof. unfold span. cbn [Units.span]. intros ->. destruct (Units.span p t); reflexivity. Qed.
Lemma span_cons_false p (c : N) (t : str) : p c = false -> span p (c :: t) = ([], c :: t).
Proof. unfold span. cbn [Units.span]. intros ->. reflexivity. Qed.

(** What may follow an integer literal: not a digit, "." or "/"; after
    horizontal space not a digit. *)
Definition int_follow (r : str) : Prop :=
  match r with
  | [] => True
  | c :: _ =>
      if is_hsp c then stops is_digit (snd (span is_hsp r))
      else is_digit c = false /\ c <> 46 /\ c <> 47
  end.

Lemma hsp_not_digit c : is_hsp c = true -> is_digit c = false.
Proof.
  unfold is_hsp, Units.is_hsp. intro H. apply orb_true_iff in H as [H|H]; apply N.eqb_eq in H; subst; reflexivity.
Qed.

Lemma int_follow_stops r : int_follow r -> stops is_digit r.
Proof.
  destruct r as [|c t]; [trivial|]. cbn [int_follow stops]. destruct (is_hsp c) eqn:E.
  - intros _. apply hsp_not_digit. exact E.
  - intros [H _]. exact H.
Qed.

Lemma sc_fraction_tail_none i k0 (x : str) : stops is_digit x -> sc_fraction_tail i k0 x = None.
Proof. intro H. unfold sc_fraction_tail. rewrite (sc_digits_none x H). reflexivity. Qed.

Lemma sc_fraction_int (d r : str) : d <> [] -> forallb is_digit d = true -> int_follow r ->
  sc_fraction (d ++ r) = None.
Proof.
  intros Hn Hd Hr. unfold sc_fraction.
  rewrite (sc_digits_run d r Hn Hd (int_follow_stops _ Hr)).
  destruct r as [|c t].
  - unfold sc_hsp, Units.hsp. cbn [Units.span]. unfold sc_fraction_tail.
    rewrite (sc_digits_run d [] Hn Hd I). reflexivity.
  - cbn [int_follow] in Hr. destruct (is_hsp c) eqn:E.
    + (* the optional integer part matches, then the numerator is missing *)
      destruct (span is_hsp (c :: t)) as [w r'] eqn:Es. cbn [snd] in Hr.
      destruct (span_spec _ _ _ _ Es) as [Hx Hw].
      assert (Hwn : w <> []).
      { intro Hw0. subst w. rewrite (span_cons_true _ _ _ E) in Es. discriminate Es. }
      unfold sc_hsp, Units.hsp. change (Units.span Units.is_hsp (c :: t)) with (span is_hsp (c :: t)).
      rewrite Es. destruct w as [|c' w']; [contradiction|].
      apply sc_fraction_tail_none. exact Hr.
    + destruct Hr as [Hd' [H46 H47]].
      unfold sc_hsp, Units.hsp. cbn [Units.span]. change (Units.is_hsp c) with (is_hsp c). rewrite E.
      unfold sc_fraction_tail.
      rewrite (sc_digits_run d (c :: t) Hn Hd Hd').
      unfold opt_hsp, span. cbn [Units.span]. change (Units.is_hsp c) with (is_hsp c). rewrite E.
      destruct (N.eq_dec c 47) as [->|Hne]; [contradiction|].
      destruct c as [|p]; [reflexivity|].
      do 6 (destruct p as [p|p|]; try reflexivity). exfalso. apply H47. reflexivity.
Qed.

Lemma int_of_float_small d : (Z.of_N (val_N d) <? 2 ^ 53)%Z = true ->
  int_of_float_text d = (NInt (Z.of_N (val_N d)), None).
Proof. intro H. unfold int_of_float_text. rewrite H. reflexivity. Qed.

Lemma sc_decimal_int (d r : str) : d <> [] -> forallb is_digit d = true -> int_follow r ->
  sc_decimal (d ++ r) = Some (int_of_float_text d, len d, r).
Proof.
  intros Hn Hd Hr. unfold sc_decimal. rewrite (sc_digits_run d r Hn Hd (int_follow_stops _ Hr)).
  destruct r as [|c t]; [reflexivity|].
  cbn [int_follow] in Hr. destruct (is_hsp c) eqn:E.
  - destruct c as [|p]; [reflexivity|]. do 6 (destruct p as [p|p|]; try reflexivity). discriminate E.
  - destruct Hr as [_ [H46 _]]. destruct c as [|p]; [reflexivity|].
    do 6 (destruct p as [p|p|]; try reflexivity). exfalso. apply H46. reflexivity.
Qed.

Lemma not_hsp_stops (c : N) (t : str) : is_hsp c = false -> stops is_hsp (c :: t).
Proof. intro H. exact H. Qed.

Lemma digit_not_hsp c : is_digit c = true -> is_hsp c = false.
Proof.
  intro H. destruct (is_hsp c) eqn:E; [|reflexivity]. rewrite (hsp_not_digit _ E) in H. discriminate.
Qed.

Lemma digits_stop_hsp (d r : str) : d <> [] -> forallb is_digit d = true -> stops is_hsp (d ++ r).
Proof.
  intros Hn Hd. destruct d as [|c d']; [contradiction|]. cbn [app stops]. cbn [forallb] in Hd.
  apply andb_true_iff in Hd as [Hc _]. apply digit_not_hsp. exact Hc.
Qed.

Lemma hsp_or_slash_stops_digit (w r : str) : forallb is_hsp w = true -> stops is_digit (w ++ 47 :: r).
Proof.
  intro Hw. destruct w as [|c w']; [reflexivity|]. cbn [app stops]. cbn [forallb] in Hw.
  apply andb_true_iff in Hw as [Hc _]. apply hsp_not_digit. exact Hc.
Qed.

Lemma all_zero_val (x : str) : forallb (fun c => c =? 48) x = true -> val_N x = 0.
Proof.
  intro H. assert (E : x = repeat 48 (List.length x)).
  { induction x as [|c t IH]; [reflexivity|]. cbn [forallb] in H. apply andb_true_iff in H as [Hc Ht].
    apply N.eqb_eq in Hc. subst c. cbn [List.length repeat]. f_equal. exact (IH Ht). }
  rewrite E. apply val_N_repeat0.
Qed.

Lemma sc_denominator_run k d (r : str) : stops is_digit r ->
  sc_denominator (zs k ++ dec_pos d ++ r) = Some (zs k ++ dec_pos d, r).
Proof.
  intro Hr. unfold sc_denominator. rewrite app_assoc.
  rewrite (span_app is_digit (zs k ++ dec_pos d) r (digits_zs_dec k (Npos d)) Hr).
  destruct (forallb (fun c => c =? 48) (zs k ++ dec_pos d)) eqn:E; [|reflexivity].
  apply all_zero_val in E. unfold dec_pos in E. rewrite val_zs_dec in E. discriminate.
Qed.

Lemma len_zs_dec k x : len (zs k ++ x) = N.of_nat k + len x.
Proof. rewrite len_app, len_length. unfold zs. rewrite repeat_length. reflexivity. Qed.

Lemma too_long_ok k x : digits_ok k x = true -> too_long (zs k ++ x) = false.
Proof.
  unfold digits_ok, too_long. intro H. apply N.leb_le in H. apply N.ltb_ge. rewrite len_zs_dec. exact H.
Qed.

(** The tail of a fraction after the numerator: [w1 "/" w2 denominator]. *)
Lemma fraction_tail (i : option str) (k0 : N) (nn : str) w1 w2 zd d (r : str) :
  nn <> [] -> forallb is_digit nn = true -> forallb is_hsp w1 = true -> forallb is_hsp w2 = true ->
  stops is_digit r ->
  sc_fraction_tail i k0 (nn ++ w1 ++ 47 :: w2 ++ zs zd ++ dec_pos d ++ r)
  = Some (frac_value i nn (zs zd ++ dec_pos d),
          k0 + len nn + len w1 + 1 + len w2 + len (zs zd ++ dec_pos d), r).
Proof.
  intros Hn Hd H1 H2 Hr. unfold sc_fraction_tail.
  rewrite (sc_digits_run nn _ Hn Hd (hsp_or_slash_stops_digit w1 _ H1)).
  rewrite (opt_hsp_run w1 (47 :: w2 ++ zs zd ++ dec_pos d ++ r) H1 eq_refl).
  assert (Hs : stops is_hsp (zs zd ++ dec_pos d ++ r)).
  { rewrite app_assoc. apply digits_stop_hsp; [apply zs_dec_nonempty | apply digits_zs_dec]. }
  rewrite (opt_hsp_run w2 _ H2 Hs), (sc_denominator_run zd d r Hr). reflexivity.
Qed.

Ltac norm_app := repeat (rewrite <- app_assoc || rewrite <- app_comm_cons).
Ltac fin := match goal with |- Some (_, ?n, _) = Some (_, ?n', _) => replace n with n' by lia; reflexivity end.

Definition num_follow (t : ntext) (r : str) : Prop :=
  match t with NTInt _ _ => int_follow r | _ => stops is_digit r end.

Lemma andb_true_l a b : a && b = true -> a = true. Proof. intro H. apply andb_true_iff in H. tauto. Qed.
Lemma andb_true_r a b : a && b = true -> b = true. Proof. intro H. apply andb_true_iff in H. tauto. Qed.

(** Every literal layout - integer with leading zeros, decimal, fraction,
    mixed fraction with any horizontal space around the parts - is read back
    as exactly the value it denotes, consuming exactly its own text. *)
Theorem number_roundtrip t (r : str) : ntext_ok t = true -> num_follow t r ->
  sc_number (ntext_str t ++ r) = Some ((ntext_val t, None), len (ntext_str t), r).
Proof.
  intros Hok Hf. destruct t as [z n | i f | zn n w2 zd d | zi i wi zn n w1 w2 zd d];
    cbn [ntext_ok ntext_str ntext_val num_follow] in *.
  - (* integer *)
    apply N.ltb_lt in Hok. unfold sc_number.
    rewrite (sc_fraction_int (zs z ++ dec_N n) r (zs_dec_nonempty z n) (digits_zs_dec z n) Hf).
    rewrite (sc_decimal_int (zs z ++ dec_N n) r (zs_dec_nonempty z n) (digits_zs_dec z n) Hf).
    rewrite int_of_float_small; rewrite val_zs_dec; [reflexivity|].
    apply Z.ltb_lt. change (2 ^ 53)%Z with (Z.of_N (2 ^ 53)). lia.
  - (* decimal *)
    apply andb_true_iff in Hok as [Hok Hinf]. apply andb_true_iff in Hok as [Hok Hfd].
    apply andb_true_iff in Hok as [Hid Hin].
    assert (Hne : i <> []) by (destruct i; [discriminate|discriminate]).
    assert (Hd1 : sc_digits (i ++ 46 :: f ++ r) = Some (i, 46 :: f ++ r))
      by (apply sc_digits_run; [exact Hne | exact Hid | reflexivity]).
    unfold sc_number, sc_fraction. norm_app. rewrite Hd1.
    assert (Hh : sc_hsp (46 :: f ++ r) = None) by reflexivity. rewrite Hh.
    unfold sc_fraction_tail. rewrite Hd1.
    assert (Ho : opt_hsp (46 :: f ++ r) = ([], 46 :: f ++ r)) by reflexivity. rewrite Ho.
    unfold sc_decimal. rewrite Hd1. rewrite (span_app is_digit f r Hfd Hf).
    destruct (float_of_text i f) as [v b] eqn:Ef. cbn [fst snd] in *. destruct b; [discriminate|].
    rewrite !len_app, !len_cons. fin.
  - (* n / d *)
    apply andb_true_iff in Hok as [Hok Hdd]. apply andb_true_iff in Hok as [Hw2 Hdn].
    unfold sc_number, sc_fraction. norm_app.
    assert (Hd1 : sc_digits (zs zn ++ dec_N n ++ 47 :: w2 ++ zs zd ++ dec_pos d ++ r)
                  = Some (zs zn ++ dec_N n, 47 :: w2 ++ zs zd ++ dec_pos d ++ r)).
    { rewrite app_assoc. apply sc_digits_run; [apply zs_dec_nonempty | apply digits_zs_dec | reflexivity]. }
    rewrite Hd1. assert (Hh : sc_hsp (47 :: w2 ++ zs zd ++ dec_pos d ++ r) = None) by reflexivity. rewrite Hh.
    pose proof (fraction_tail None 0 (zs zn ++ dec_N n) [] w2 zd d r (zs_dec_nonempty zn n) (digits_zs_dec zn n)
                  eq_refl Hw2 Hf) as T.
    cbn [app] in T. rewrite <- app_assoc in T. rewrite T. clear T.
    unfold frac_value. rewrite (too_long_ok _ _ Hdn), (too_long_ok _ _ Hdd). cbn [orb].
    unfold dec_pos. rewrite !val_zs_dec. cbn [Z.of_N]. rewrite Z.mul_0_l, Z.add_0_l.
    rewrite !len_app, !len_cons, len_nil, !len_app. fin.
  - (* i n / d *)
    apply andb_true_iff in Hok as [Hok Hdd]. apply andb_true_iff in Hok as [Hok Hdn].
    apply andb_true_iff in Hok as [Hok Hdi]. apply andb_true_iff in Hok as [Hok Hw2].
    apply andb_true_iff in Hok as [Hok Hw1]. apply andb_true_iff in Hok as [Hwi Hwin].
    assert (Hwne : wi <> []) by (destruct wi; [discriminate|discriminate]).
    unfold sc_number, sc_fraction. norm_app.
    assert (Hd1 : sc_digits (zs zi ++ dec_N i ++ wi ++ zs zn ++ dec_N n ++ w1 ++ 47 :: w2 ++ zs zd ++ dec_pos d ++ r)
                  = Some (zs zi ++ dec_N i, wi ++ zs zn ++ dec_N n ++ w1 ++ 47 :: w2 ++ zs zd ++ dec_pos d ++ r)).
    { rewrite app_assoc. apply sc_digits_run; [apply zs_dec_nonempty | apply digits_zs_dec |].
      destruct wi as [|c wi']; [contradiction|]. cbn [app stops]. cbn [hsp_run forallb] in Hwi.
      apply andb_true_iff in Hwi as [Hc _]. apply hsp_not_digit. exact Hc. }
    rewrite Hd1.
    assert (Hh : sc_hsp (wi ++ zs zn ++ dec_N n ++ w1 ++ 47 :: w2 ++ zs zd ++ dec_pos d ++ r)
                 = Some (wi, zs zn ++ dec_N n ++ w1 ++ 47 :: w2 ++ zs zd ++ dec_pos d ++ r)).
    { apply sc_hsp_run; [exact Hwne | exact Hwi |]. rewrite app_assoc.
      apply digits_stop_hsp; [apply zs_dec_nonempty | apply digits_zs_dec]. }
    rewrite Hh.
    pose proof (fraction_tail (@Some str (zs zi ++ dec_N i)) (len (zs zi ++ dec_N i) + len wi) (zs zn ++ dec_N n) w1 w2 zd d r
                  (zs_dec_nonempty zn n) (digits_zs_dec zn n) Hw1 Hw2 Hf) as T.
    rewrite <- app_assoc in T. rewrite T. clear T.
    unfold frac_value. rewrite (too_long_ok _ _ Hdn), (too_long_ok _ _ Hdd), (too_long_ok _ _ Hdi). cbn [orb].
    unfold dec_pos. rewrite !val_zs_dec. cbn [Z.of_N].
    rewrite !len_app, !len_cons, !len_app. fin.
Qed.

(** ** Decidable follow conditions *)
Lemma stopsb_stops p r : stopsb p r = true -> stops p r.
Proof. destruct r as [|c t]; [intros _; exact I|]. cbn [stopsb stops]. intro H. apply negb_true_iff in H. exact H. Qed.

Lemma int_followb_follow r : int_followb r = true -> int_follow r.
Proof.
  destruct r as [|c t]; [intros _; exact I|]. cbn [int_followb int_follow]. destruct (is_hsp c).
  - apply stopsb_stops.
  - intro H. apply andb_true_iff in H as [H H47]. apply andb_true_iff in H as [Hd H46].
    apply negb_true_iff in Hd, H46, H47. apply N.eqb_neq in H46, H47. auto.
Qed.

Lemma num_followb_follow t r : num_followb t r = true -> num_follow t r.
Proof. destruct t; cbn [num_followb num_follow]; [apply int_followb_follow | apply stopsb_stops ..]. Qed.

(** The conditions only look at the text up to the first character that is
    not horizontal space: extending the text after such a character changes
    nothing. *)
Lemma span_head_ext p (P : str) a (r2 : str) : p a = false ->
  stopsb is_digit (snd (span p (P ++ [a]))) = stopsb is_digit (snd (span p (P ++ a :: r2))).
Proof.
  intro Ha. induction P as [|c P' IH]; cbn [app].
  - rewrite !(span_cons_false p a _ Ha). reflexivity.
  - destruct (p c) eqn:Hc.
    + rewrite !(span_cons_true p c _ Hc). cbn [snd]. exact IH.
    + rewrite !(span_cons_false p c _ Hc). reflexivity.
Qed.

Lemma int_followb_ext (P : str) a (r2 : str) : is_hsp a = false ->
  int_followb (P ++ [a]) = int_followb (P ++ a :: r2).
Proof.
  intro Ha. destruct P as [|c P']; cbn [app int_followb].
  - rewrite Ha. reflexivity.
  - destruct (is_hsp c) eqn:Hc; [|reflexivity].
    exact (span_head_ext is_hsp (c :: P') a r2 Ha).
Qed.

Lemma stopsb_ext p (P : str) a (r2 : str) : stopsb p (P ++ [a]) = stopsb p (P ++ a :: r2).
Proof. destruct P; reflexivity. Qed.

Lemma num_followb_ext t (P : str) a (r2 : str) : is_hsp a = false ->
  num_followb t (P ++ [a]) = num_followb t (P ++ a :: r2).
Proof. intro Ha. destruct t; cbn [num_followb]; [apply int_followb_ext; exact Ha | apply stopsb_ext ..]. Qed.

Ltac fin2 := match goal with |- Some (Some (_, _, ?n, _)) = Some (Some (_, _, ?n', _)) => replace n with n' by lia; reflexivity end.

(** ** Brace groups *)
Lemma sc_number_nondigit (c : N) (t : str) : is_digit c = false -> sc_number (c :: t) = None.
Proof.
  intro H. assert (S : stops is_digit (c :: t)) by exact H.
  unfold sc_number, sc_fraction, sc_decimal. rewrite (sc_digits_none _ S).
  rewrite (sc_fraction_tail_none None 0 _ S). reflexivity.
Qed.

Definition br_lift (c : N) (k : N) (x : option (option (svs * option pcrash * N * str)))
  : option (option (svs * option pcrash * N * str)) :=
  match x with
  | None => None
  | Some None => Some None
  | Some (Some (ps, b, n, r)) => Some (Some (push_char c ps, b, n + k, r))
  end.

Lemma raw_ok_b_false_self c : raw_ok_b c = false -> unescape c = c.
Proof.
  unfold raw_ok_b. intro H. apply negb_false_iff in H.
  repeat (apply orb_true_iff in H as [H|H]); try (apply N.eqb_eq in H; subst c; reflexivity).
  unfold is_digit in H. apply andb_true_iff in H as [H1 H2]. apply N.leb_le in H1, H2.
  unfold unescape, escape_table, Units.assocN.
  repeat match goal with |- context [c =? ?k] => let E := fresh in destruct (c =? k) eqn:E; [apply N.eqb_eq in E; lia|] end.
  reflexivity.
Qed.

Lemma br_body_char f c m (tail : str) :
  br_body (S f) (print_char raw_ok_b m c ++ tail) =
  br_lift c (len (print_char raw_ok_b m c)) (br_body f tail).
Proof.
  assert (Hraw : raw_ok_b c = true -> br_body (S f) (c :: tail) = br_lift c 1 (br_body f tail)).
  { unfold raw_ok_b. intro H. apply negb_true_iff in H.
    apply orb_false_iff in H as [H H13]. apply orb_false_iff in H as [H H10].
    apply orb_false_iff in H as [H H92]. apply orb_false_iff in H as [H H125].
    apply orb_false_iff in H as [Hd H123].
    cbn [br_body]. rewrite (sc_number_nondigit c tail Hd), H92, H125, H123, H10, H13. cbn [orb].
    destruct (br_body f tail) as [[[[[ps b] k] r]|]|]; reflexivity. }
  assert (Hesc : forall e, unescape e = c -> br_body (S f) (92 :: e :: tail) = br_lift c 2 (br_body f tail)).
  { intros e He. cbn [br_body]. rewrite (sc_number_nondigit 92 (e :: tail) eq_refl).
    change (92 =? 92) with true. cbv iota. rewrite He.
    destruct (br_body f tail) as [[[[[ps b] k] r]|]|]; reflexivity. }
  assert (Hdflt : br_body (S f) ((if raw_ok_b c then [c] else [92; c]) ++ tail) =
                  br_lift c (len (if raw_ok_b c then [c] else [92; c])) (br_body f tail)).
  { destruct (raw_ok_b c) eqn:R; cbn [app].
    - exact (Hraw eq_refl).
    - exact (Hesc c (raw_ok_b_false_self c R)). }
  unfold print_char. destruct m.
  - exact Hdflt.
  - unfold self_esc. destruct (unescape c =? c) eqn:E; [|exact Hdflt].
    apply N.eqb_eq in E. cbn [app]. exact (Hesc c E).
  - destruct (letter_of c) as [l|] eqn:E; [|exact Hdflt].
    cbn [app]. exact (Hesc l (unescape_letter _ _ E)).
Qed.

(** All the characters of a text part. *)
Definition push_str (x : str) (ps : svs) : svs := fold_right push_char ps x.

Definition br_lift_str (x : str) (k : N) (y : option (option (svs * option pcrash * N * str)))
  : option (option (svs * option pcrash * N * str)) :=
  match y with
  | None => None
  | Some None => Some None
  | Some (Some (ps, b, n, r)) => Some (Some (push_str x ps, b, n + k, r))
  end.

Lemma br_body_chars (x : str) : forall ms f (tail : str),
  br_body (List.length x + f) (print_chars raw_ok_b ms x ++ tail) =
  br_lift_str x (len (print_chars raw_ok_b ms x)) (br_body f tail).
Proof.
  induction x as [|c t IH]; intros ms f tail; cbn [print_chars List.length plus app].
  - destruct (br_body f tail) as [[[[[ps b] k] r]|]|]; cbn [br_lift_str push_str fold_right]; try reflexivity.
    rewrite len_nil, N.add_0_r. reflexivity.
  - rewrite <- app_assoc, br_body_char, IH.
    destruct (br_body f tail) as [[[[[ps b] k] r]|]|]; cbn [br_lift_str br_lift push_str fold_right]; try reflexivity.
    rewrite len_app. fin2.
Qed.

Lemma push_str_fresh (x : str) (ps : svs) :
  x <> [] -> (match ps with PStr _ :: _ => False | _ => True end) -> push_str x ps = PStr x :: ps.
Proof.
  intros Hx Hps. induction x as [|c t IH]; [contradiction|].
  cbn [push_str fold_right]. destruct t as [|c' t'].
  - cbn [fold_right]. destruct ps as [|[y|v] ps']; [reflexivity|contradiction|reflexivity].
  - fold (push_str (c' :: t') ps). rewrite IH by discriminate. reflexivity.
Qed.

Definition items (bs : list bpart) : nat :=
  fold_right (fun b n => (match b with BStr x _ => List.length x | BNum _ => 1 end + n)%nat) O bs.

(** A brace group holding any permitted sequence of text parts and numbers
    is read back as exactly those parts. *)
Theorem braced_body_roundtrip (bs : list bpart) : forall f (rest0 : str),
  bparts_ok bs = true ->
  br_body (items bs + S f) (print_bparts bs ++ 125 :: rest0) =
  Some (Some (map bpart_val bs, None, len (print_bparts bs) + 1, rest0)).
Proof.
  induction bs as [|b bs IH]; intros f rest0 Hok.
  - cbn [items fold_right print_bparts flat_map app plus br_body].
    rewrite (sc_number_nondigit 125 rest0 eq_refl). reflexivity.
  - destruct b as [x ms | t]; cbn [bparts_ok] in Hok.
    + apply andb_true_iff in Hok as [Hok Hrest]. apply andb_true_iff in Hok as [Hx Hadj].
      assert (Hxn : x <> []) by (destruct x; [discriminate|discriminate]).
      cbn [items fold_right print_bparts flat_map print_bpart map bpart_val].
      fold (items bs). fold (print_bparts bs). rewrite <- app_assoc, <- Nat.add_assoc.
      rewrite br_body_chars, (IH f rest0 Hrest). cbn [br_lift_str].
      rewrite push_str_fresh; [| exact Hxn | destruct bs as [|[y ms'|t'] bs']; cbn [map bpart_val]; [exact I | discriminate Hadj | exact I]].
      rewrite len_app. fin2.
    + apply andb_true_iff in Hok as [Hok Hrest]. apply andb_true_iff in Hok as [Hok Hfol].
      apply andb_true_iff in Hok as [Ht Hadj].
      cbn [items fold_right print_bparts flat_map print_bpart map bpart_val].
      fold (items bs). fold (print_bparts bs). rewrite <- app_assoc. cbn [plus br_body].
      rewrite (num_followb_ext t (print_bparts bs) 125 rest0 eq_refl) in Hfol.
      rewrite (number_roundtrip t _ Ht (num_followb_follow _ _ Hfol)), (IH f rest0 Hrest).
      cbn [note]. rewrite len_app. fin2.
Qed.
