(** * C12: facts computed over the WHOLE generated unit table (finite,
    enumerated completely with [vm_compute]) and lifted to universally
    quantified statements with [forallb_forall]. Re-proved on every run
    against the table regenerated from the checkout. *)
From Coq Require Import List ZArith NArith QArith Qabs Bool Lia.
From RG Require Import Base.Str Base.Num Gen.GenUnits Model.Recipe Model.Units Spec.UnitsRef Proofs.UnitsScan.
Import ListNotations.

(** ** Reflection helpers *)
Lemma num_same_eq a b : num_same a b = true -> a = b.
Proof.
  destruct a, b; cbn [num_same]; try discriminate; intro H.
  - apply Z.eqb_eq in H. congruence.
  - apply andb_true_iff in H as [H1 H2]. apply Z.eqb_eq in H1. apply Z.eqb_eq in H2. inversion H2. congruence.
  - apply andb_true_iff in H as [H1 H2]. apply Z.eqb_eq in H1. apply Z.eqb_eq in H2. congruence.
Qed.

Lemma res_same_eq {A} (eq : A -> A -> bool) (H : forall x y, eq x y = true -> x = y) a b :
  res_same eq a b = true -> a = b.
Proof.
  destruct a as [x|e], b as [y|e']; simpl; try discriminate; intro E.
  - f_equal. apply H. exact E.
  - destruct e, e'; simpl in E; try discriminate; reflexivity.
Qed.

Lemma option_eqb_nat_eq (x y : option nat) : option_eqb Nat.eqb x y = true -> x = y.
Proof.
  destruct x, y; cbn [option_eqb]; try discriminate; [|reflexivity].
  intro H. f_equal. apply Nat.eqb_eq. exact H.
Qed.

Fixpoint nodup_b (l : list str) : bool :=
  match l with
  | [] => true
  | x :: t => negb (str_mem x t) && nodup_b t
  end.

Lemma str_mem_In x l : str_mem x l = true <-> In x l.
Proof.
  unfold str_mem. rewrite existsb_exists. split.
  - intros [y [Hin He]]. apply str_eqb_eq in He. subst. exact Hin.
  - intro Hin. exists x. split; [exact Hin | apply str_eqb_refl].
Qed.

Lemma nodup_b_NoDup l : nodup_b l = true -> NoDup l.
Proof.
  induction l as [|x t IH]; simpl; intro H; [constructor|].
  apply andb_true_iff in H as [H1 H2]. constructor; [|apply IH; exact H2].
  intro Hin. apply str_mem_In in Hin. rewrite Hin in H1. discriminate.
Qed.

Definition incl_b (a b : list str) : bool := forallb (fun x => str_mem x b) a.
Lemma incl_b_spec a b : incl_b a b = true -> incl a b.
Proof.
  unfold incl_b. rewrite forallb_forall. intros H x Hx. apply str_mem_In, H, Hx.
Qed.

Definition all_pairs (P : str -> str -> bool) : bool :=
  forallb (fun a => forallb (P a) all_names) all_names.

Lemma all_pairs_spec P : all_pairs P = true ->
  forall a b, In a all_names -> In b all_names -> P a b = true.
Proof.
  unfold all_pairs. rewrite forallb_forall. intros H a b Ha Hb.
  specialize (H a Ha). rewrite forallb_forall in H. exact (H b Hb).
Qed.

(** ** Names *)
Definition piece_eqb (a b : piece) : bool :=
  match a, b with PLit x, PLit y => N.eqb x y | PWs, PWs => true | _, _ => false end.

Lemma table_builds : exists y, the_system = Ok y.
Proof. vm_compute. eexists. reflexivity. Qed.

Lemma table_names_documented : all_names = documented_names.
Proof. vm_compute. reflexivity. Qed.

Lemma table_iter_names : all_names = impl_iter_names.
Proof. vm_compute. reflexivity. Qed.

Lemma table_names_nodup : nodup_b all_names = true.
Proof. vm_compute. reflexivity. Qed.

Lemma table_alts_names : unit_regex_alts = map pieces_of_name all_names.
Proof. vm_compute. reflexivity. Qed.

Lemma table_scan_ok : scan_table_ok unit_regex_alts = true.
Proof. vm_compute. reflexivity. Qed.

Lemma table_boundary : known_unit_boundary = true.
Proof. reflexivity. Qed.

Lemma table_ci : known_unit_ci = true.
Proof. reflexivity. Qed.

(** the grammar around the unit is the one the model transcribes *)
Lemma pin_hsp : hsp_pattern = [91; 32; 9; 93; 43]%N.                    (* [ \t]+ *)
Proof. reflexivity. Qed.
Lemma pin_preposition :
  preposition_pattern = [40;63;105;41;111;102;40;91;32;9;93;43;116;104;101;41;63;92;98]%N.   (* (?i)of([ \t]+the)?\b *)
Proof. reflexivity. Qed.

(** per character of every name: it matches itself and its ASCII capital;
    a space is white space; lower-casing the capital gives the character. *)
Definition lower1 (c : N) : str := match assocN c lower_table with Some l => l | None => [c] end.

Definition char_case_ok (c : N) : bool :=
  if (c =? 32)%N then is_ws 32
  else lit_match_with known_unit_ci c c && lit_match_with known_unit_ci c (ascii_upper c).

Definition char_lower_ok (c : N) : bool :=
  str_eqb (lower1 c) [c] && str_eqb (lower1 (ascii_upper c)) [c].

Lemma table_chars_ok : forallb (forallb (fun c => char_case_ok c && char_lower_ok c)) all_names = true.
Proof. vm_compute. reflexivity. Qed.

Lemma name_chars_ok n : In n all_names -> Forall (fun c => char_case_ok c = true /\ char_lower_ok c = true) n.
Proof.
  intro Hn. pose proof table_chars_ok as H. rewrite forallb_forall in H. specialize (H n Hn).
  rewrite forallb_forall in H. apply Forall_forall. intros c Hc. apply andb_true_iff, H, Hc.
Qed.

Lemma case_variant_spelled n v : In n all_names -> case_variant n v -> spelled n v.
Proof.
  intros Hn Hcv. pose proof (name_chars_ok n Hn) as Hall. clear Hn. unfold spelled.
  induction Hcv as [|c n v Hcv IH | c n v Hcv IH]; [constructor| |];
    inversion Hall as [|c' n' [Hc _] Hall']; subst; specialize (IH Hall');
    unfold pieces_of_name; cbn [map]; unfold piece_of_char, char_case_ok in *;
    destruct (c =? 32)%N eqn:E.
  - apply N.eqb_eq in E. subst c. apply (M_ws [32%N]); [discriminate | |exact IH].
    cbn [forallb]. rewrite Hc. reflexivity.
  - apply andb_true_iff in Hc as [H1 _]. constructor; [exact H1 | exact IH].
  - apply N.eqb_eq in E. subst c. change (ascii_upper 32) with 32%N.
    apply (M_ws [32%N]); [discriminate | |exact IH]. cbn [forallb]. rewrite Hc. reflexivity.
  - apply andb_true_iff in Hc as [_ H2]. constructor; [exact H2 | exact IH].
Qed.

Lemma py_lower_cons c v : py_lower (c :: v) = lower1 c ++ py_lower v.
Proof. reflexivity. Qed.

Lemma case_variant_lower n v : In n all_names -> case_variant n v -> py_lower v = n.
Proof.
  intros Hn Hcv. pose proof (name_chars_ok n Hn) as Hall. clear Hn.
  induction Hcv as [|c n v Hcv IH | c n v Hcv IH]; [reflexivity| |];
    inversion Hall as [|c' n' [_ Hc] Hall']; subst; specialize (IH Hall');
    rewrite py_lower_cons, IH; unfold char_lower_ok in Hc; apply andb_true_iff in Hc as [H1 H2];
    apply str_eqb_eq in H1, H2.
  - rewrite H1. reflexivity.
  - rewrite H2. reflexivity.
Qed.

Lemma case_variant_refl n : case_variant n n.
Proof. induction n; constructor; assumption. Qed.

(** ** Recognition *)
Lemma alt_of_name n : In n all_names -> In (pieces_of_name n) unit_regex_alts.
Proof. intro H. rewrite table_alts_names. apply in_map. exact H. Qed.

Lemma spelled_boundary n v rest : In n all_names -> spelled n v -> boundary_after rest ->
  word_boundary (last_opt v) (hd_error rest) = true.
Proof.
  intros Hn Hs Hb.
  pose proof table_scan_ok as Hok. apply andb_true_iff in Hok as [Hwf _]. rewrite forallb_forall in Hwf.
  destruct (wf_alt_parts _ (Hwf _ (alt_of_name n Hn))) as [Ne [Wf Ll]].
  destruct (Matches_last_word _ v Hs Ne Wf Ll) as [c [Hc Hw]].
  rewrite Hc. unfold word_boundary, opt_word. rewrite Hw.
  destruct rest as [|c' t]; [reflexivity|]. simpl in Hb. cbn [hd_error]. rewrite Hb. reflexivity.
Qed.

Theorem every_name_recognised n v rest :
  In n all_names -> spelled n v -> boundary_after rest -> known_unit (v ++ rest) = Some (v, rest).
Proof.
  intros Hn Hs Hb. unfold known_unit. rewrite table_boundary.
  apply (scan_alts_finds unit_regex_alts (pieces_of_name n)).
  - exact table_scan_ok.
  - exact (alt_of_name n Hn).
  - exact Hs.
  - exact (spelled_boundary n v rest Hn Hs Hb).
Qed.

(** Whatever the scanner returns on any input, no documented name that is
    followed by a word boundary at that position is cut short or skipped. *)
Theorem longest_wins x m r n v r' :
  known_unit x = Some (m, r) -> In n all_names -> spelled n v -> x = v ++ r' -> boundary_after r' ->
  m = v /\ r = r'.
Proof.
  intros Hk Hn Hs Hx Hb. subst x.
  rewrite (every_name_recognised n v r' Hn Hs Hb) in Hk. inversion Hk. split; reflexivity.
Qed.

(** and what it returns is always a spelling of a documented name followed by a boundary *)
Theorem known_unit_sound x m r :
  known_unit x = Some (m, r) ->
  x = m ++ r /\ exists n, In n all_names /\ spelled n m /\ word_boundary (last_opt m) (hd_error r) = true.
Proof.
  intro Hk. unfold known_unit in Hk.
  destruct (scan_alts_sound known_unit_boundary unit_regex_alts x m r table_boundary Hk)
    as [pa [Hpa [HM [Hx Hbd]]]].
  split; [exact Hx|]. rewrite table_alts_names in Hpa. apply in_map_iff in Hpa as [n [Hn Hin]].
  exists n. subst pa. repeat split; assumption.
Qed.

(** Proper-prefix pairs exist (the statement above is not vacuous): for each
    of them the shorter alternative comes FIRST in the alternation. *)
Definition proper_prefix (a b : str) : bool := starts_with a b && negb (str_eqb a b).
Definition prefix_pairs : list (str * str) :=
  flat_map (fun a => map (fun b => (a, b)) (filter (proper_prefix a) all_names)) all_names.

(** ** Conversions: every ordered pair of names *)
Definition tol50 : Q := 1 # (2 ^ 50).

Definition q_close (x y tol : Q) : bool := Qle_bool (Qabs (x - y)) (y * tol).

Definition exact_b (v : num) : bool :=
  match v with
  | NInt _ => true
  | NFrac n d => (Z.gcd n (Zpos d) =? 1)%Z
  | NFloat _ _ => false
  end.
Lemma exact_b_spec v : exact_b v = true -> exact_num v.
Proof. destruct v; simpl; try discriminate; [trivial|]. intro H. apply Z.eqb_eq. exact H. Qed.

Definition factor_ok (a b : str) : bool :=
  match convert_between a b, ideal a b with
  | Ok f, Some q => q_close (to_Q f) q (ideal_tol a b) && (is_float f || (exact_b f && Qeq_bool (to_Q f) q))
  | _, _ => false
  end.

Definition recip_ok (a b : str) : bool :=
  match convert_between a b, convert_between b a with
  | Ok f, Ok g => q_close (to_Q f * to_Q g) 1 tol50
                  && (is_float f || is_float g || Qeq_bool (to_Q f * to_Q g) 1)
  | _, _ => false
  end.

Definition canon_ok (a b : str) : bool :=
  match canon a, canon b with
  | Some a', Some b' =>
      res_same num_same (convert_between a b) (convert_between a' b')
      && str_mem a' all_names && str_mem b' all_names
      && option_eqb Nat.eqb (kind_of a') (kind_of a) && option_eqb Nat.eqb (kind_of b') (kind_of b)
      && option_eqb str_eqb (canon a') (Some a')
  | _, _ => false
  end.

Definition kind_agrees (a : str) : bool :=
  match kind_name a, ref_size a with
  | Some k, Some (k', _) => str_eqb k k'
  | _, _ => false
  end.

Definition pair_ok (a b : str) : bool :=
  kind_agrees a && canon_ok a b &&
  if same_kind a b then factor_ok a b && recip_ok a b
  else res_same num_same (convert_between a b) (Err KeyError).

Lemma table_pairs_ok : all_pairs pair_ok = true.
Proof. vm_cast_no_check (eq_refl true). Qed.

Lemma pair_facts a b : In a all_names -> In b all_names ->
  kind_agrees a = true /\ canon_ok a b = true /\
  (same_kind a b = true -> factor_ok a b = true /\ recip_ok a b = true) /\
  (same_kind a b = false -> convert_between a b = Err KeyError).
Proof.
  intros Ha Hb. pose proof (all_pairs_spec _ table_pairs_ok a b Ha Hb) as H.
  unfold pair_ok in H. apply andb_true_iff in H as [H H3]. apply andb_true_iff in H as [H1 H2].
  repeat split; try assumption.
  - rewrite H in H3. apply andb_true_iff in H3. tauto.
  - rewrite H in H3. apply andb_true_iff in H3. tauto.
  - intro Hk. rewrite Hk in H3. apply (res_same_eq num_same num_same_eq). exact H3.
Qed.

Lemma q_close_spec x y tol : q_close x y tol = true -> (Qabs (x - y) <= y * tol)%Q.
Proof. unfold q_close. apply Qle_bool_iff. Qed.

Theorem factor_physical a b : In a all_names -> In b all_names -> same_kind a b = true ->
  exists f q, convert_between a b = Ok f /\ ideal a b = Some q /\
              (Qabs (to_Q f - q) <= q * ideal_tol a b)%Q /\ (is_float f = false -> exact_num f /\ (to_Q f == q)%Q).
Proof.
  intros Ha Hb Hk. destruct (pair_facts a b Ha Hb) as [_ [_ [H _]]]. destruct (H Hk) as [Hf _].
  unfold factor_ok in Hf.
  destruct (convert_between a b) as [f|]; [|discriminate]. destruct (ideal a b) as [q|]; [|discriminate].
  apply andb_true_iff in Hf as [H1 H2]. exists f, q.
  split; [reflexivity|]. split; [reflexivity|]. split; [apply q_close_spec; exact H1|].
  intro Hfl. rewrite Hfl in H2. cbn [orb] in H2. apply andb_true_iff in H2 as [H2 H3].
  split; [apply exact_b_spec; exact H2 | apply Qeq_bool_iff; exact H3].
Qed.

Theorem reciprocal a b : In a all_names -> In b all_names -> same_kind a b = true ->
  exists f g, convert_between a b = Ok f /\ convert_between b a = Ok g /\
              (Qabs (to_Q f * to_Q g - 1) <= 1 * tol50)%Q /\
              (is_float f = false -> is_float g = false -> (to_Q f * to_Q g == 1)%Q).
Proof.
  intros Ha Hb Hk. destruct (pair_facts a b Ha Hb) as [_ [_ [H _]]]. destruct (H Hk) as [_ Hr].
  unfold recip_ok in Hr.
  destruct (convert_between a b) as [f|]; [|discriminate]. destruct (convert_between b a) as [g|]; [|discriminate].
  apply andb_true_iff in Hr as [H1 H2]. exists f, g. repeat split; [apply q_close_spec; exact H1|].
  intros Hf Hg. rewrite Hf, Hg in H2. simpl in H2. apply Qeq_bool_iff. exact H2.
Qed.

Theorem refused_across_kinds a b : In a all_names -> In b all_names -> same_kind a b = false ->
  convert_between a b = Err KeyError.
Proof. intros Ha Hb Hk. destruct (pair_facts a b Ha Hb) as [_ [_ [_ H]]]. exact (H Hk). Qed.

(** ** Transitivity: all triples, through the canonical names *)
Definition canon_names : list str :=
  filter (fun a => option_eqb str_eqb (canon a) (Some a)) all_names.

Definition trans_ok (a b c : str) : bool :=
  if same_kind a b && same_kind b c then
    match convert_between a b, convert_between b c, convert_between a c with
    | Ok f, Ok g, Ok h =>
        q_close (to_Q f * to_Q g) (to_Q h) tol50
        && (is_float f || is_float g || is_float h || Qeq_bool (to_Q f * to_Q g) (to_Q h))
    | _, _, _ => false
    end
  else true.

Lemma table_triples_ok :
  forallb (fun a => forallb (fun b => forallb (trans_ok a b) canon_names) canon_names) canon_names = true.
Proof. vm_cast_no_check (eq_refl true). Qed.

Lemma canon_facts a b : In a all_names -> In b all_names ->
  exists a' b', canon a = Some a' /\ canon b = Some b' /\
    convert_between a b = convert_between a' b' /\ In a' canon_names /\ In b' canon_names /\
    kind_of a' = kind_of a /\ kind_of b' = kind_of b.
Proof.
  intros Ha Hb. destruct (pair_facts a b Ha Hb) as [_ [Hc _]]. unfold canon_ok in Hc.
  destruct (canon a) as [a'|] eqn:Ea; [|discriminate]. destruct (canon b) as [b'|] eqn:Eb; [|discriminate].
  repeat (apply andb_true_iff in Hc as [Hc ?]).
  exists a', b'. repeat split.
  - apply (res_same_eq num_same num_same_eq). exact Hc.
  - apply filter_In. split; [apply str_mem_In; assumption | assumption].
  - destruct (pair_facts b a Hb Ha) as [_ [Hc' _]]. unfold canon_ok in Hc'. rewrite Ea, Eb in Hc'.
    repeat (apply andb_true_iff in Hc' as [Hc' ?]).
    apply filter_In. split; [apply str_mem_In; assumption | assumption].
  - apply option_eqb_nat_eq. assumption.
  - apply option_eqb_nat_eq. assumption.
Qed.

Theorem transitive a b c : In a all_names -> In b all_names -> In c all_names ->
  same_kind a b = true -> same_kind b c = true ->
  exists f g h, convert_between a b = Ok f /\ convert_between b c = Ok g /\ convert_between a c = Ok h /\
    (Qabs (to_Q f * to_Q g - to_Q h) <= to_Q h * tol50)%Q /\
    (is_float f = false -> is_float g = false -> is_float h = false -> (to_Q f * to_Q g == to_Q h)%Q).
Proof.
  intros Ha Hb Hc Kab Kbc.
  destruct (canon_facts a b Ha Hb) as [a' [b' [Ea [Eb [Eab [Ia [Ib [Ka Kb]]]]]]]].
  destruct (canon_facts b c Hb Hc) as [b2 [c' [Eb2 [Ec [Ebc [_ [Ic [_ Kc]]]]]]]].
  destruct (canon_facts a c Ha Hc) as [a2 [c2 [Ea2 [Ec2 [Eac _]]]]].
  rewrite Eb in Eb2. inversion Eb2; subst b2. rewrite Ea in Ea2. inversion Ea2; subst a2.
  rewrite Ec in Ec2. inversion Ec2; subst c2.
  pose proof table_triples_ok as T. rewrite forallb_forall in T. specialize (T a' Ia).
  rewrite forallb_forall in T. specialize (T b' Ib). rewrite forallb_forall in T. specialize (T c' Ic).
  unfold trans_ok in T.
  assert (K1 : same_kind a' b' = true) by (unfold same_kind in *; rewrite Ka, Kb; exact Kab).
  assert (K2 : same_kind b' c' = true) by (unfold same_kind in *; rewrite Kb, Kc; exact Kbc).
  rewrite K1, K2 in T. simpl in T. rewrite Eab, Ebc, Eac.
  destruct (convert_between a' b') as [f|]; [|discriminate].
  destruct (convert_between b' c') as [g|]; [|discriminate].
  destruct (convert_between a' c') as [h|]; [|discriminate].
  apply andb_true_iff in T as [T1 T2]. exists f, g, h. repeat split; [apply q_close_spec; exact T1|].
  intros Hf Hg Hh. rewrite Hf, Hg, Hh in T2. simpl in T2. apply Qeq_bool_iff. exact T2.
Qed.
