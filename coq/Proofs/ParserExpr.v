(** * References, steps, shorthand, parenthesised expressions (C06 round trip, quoted family). *)
From Coq Require Import List ZArith NArith Bool Lia Arith String.
From RG Require Import Base.Str Base.Dec Base.Num Gen.GenUnits Model.Recipe Model.Compiler Model.Parser Model.Printer
  Proofs.DecLemmas Proofs.ParserLex Proofs.ParserName Proofs.ParserAmount Proofs.UnitsScan.
From RG Require Model.Units.
Import ListNotations.
Open Scope string_scope.
Open Scope list_scope.
Open Scope N_scope.

(** ** Whitespace is never punctuation or the start of a string *)
Definition plain_ws (c : N) : bool :=
  negb (seg_start c) && negb (c =? 40) && negb (c =? 41) && negb (c =? 44) && negb (c =? 58) && negb (c =? 61)
  && negb (is_digit c) && inert c.

Lemma ws_table_plain : forallb plain_ws ws_chars = true.
Proof. vm_compute. reflexivity. Qed.

Lemma ws_plain c : is_ws c = true -> plain_ws c = true.
Proof.
  unfold is_ws, Units.is_ws. intro H. apply memN_In in H.
  pose proof ws_table_plain as T. rewrite forallb_forall in T. exact (T c H).
Qed.

Ltac plain_split H :=
  unfold plain_ws in H;
  repeat match type of H with _ && _ = true => let H' := fresh H in apply andb_true_iff in H as [H H'] end.

(** Punctuation that can follow an expression or a name. *)
Definition closer (c : N) : Prop := c = 44 \/ c = 41.

Lemma followb_ws_then (s : str) c (r : str) (p : N -> bool) :
  forallb is_ws s = true -> p c = false -> (forall d, is_ws d = true -> is_hsp d = false -> p d = false) ->
  is_hsp c = false ->
  stopsb p (snd (span is_hsp (s ++ c :: r))) = true.
Proof.
  intros Hs Hc Hp Hch. induction s as [|h s IH]; cbn [app].
  - rewrite (span_cons_false is_hsp c r Hch). cbn [snd stopsb]. rewrite Hc. reflexivity.
  - cbn [forallb] in Hs. apply andb_true_iff in Hs as [Hh Hs]. destruct (is_hsp h) eqn:E.
    + rewrite (span_cons_true is_hsp h _ E). cbn [snd]. exact (IH Hs).
    + rewrite (span_cons_false is_hsp h _ E). cbn [snd stopsb]. rewrite (Hp h Hh E). reflexivity.
Qed.

Lemma expr_followb_ws_closer (s : str) c (r : str) : forallb is_ws s = true -> closer c ->
  expr_followb (s ++ c :: r) = true.
Proof.
  intros Hs Hc. unfold expr_followb. apply followb_ws_then; [exact Hs | destruct Hc as [->| ->]; reflexivity | | destruct Hc as [->| ->]; reflexivity].
  intros d Hd _. pose proof (ws_plain d Hd) as P. plain_split P.
  apply negb_true_iff in P, P6. rewrite P, P6. reflexivity.
Qed.

Lemma expr_followb_name k : expr_followb k = true -> name_followb k = true.
Proof.
  unfold expr_followb, name_followb. destruct (snd (span is_hsp k)) as [|c t]; [reflexivity|].
  cbn [stopsb]. intro H. apply negb_true_iff in H. apply orb_false_iff in H as [H _]. rewrite H. reflexivity.
Qed.

Lemma hsp_run_ws (w : str) : forallb is_hsp w = true -> forallb is_ws w = true.
Proof.
  induction w as [|c w IH]; [reflexivity|]. cbn [forallb]. intro H. apply andb_true_iff in H as [Hc Hw].
  rewrite (hsp_is_ws c Hc), (IH Hw). reflexivity.
Qed.

(** ** Heads of printed expressions *)
Lemma print_name_head nm : name_ok nm = true -> exists c r, print_name nm = c :: r /\ opener c.
Proof.
  intro H. unfold name_ok in H. apply andb_true_iff in H as [Hf _].
  destruct (print_seg_head (nm_first nm) Hf) as [c [r [E Hc]]]. unfold print_name. rewrite E.
  exists c, (r ++ print_more (nm_more nm)). split; [reflexivity | exact Hc].
Qed.

(** First character of an expression: an opener, a digit or "(". *)
Definition expr_head (c : N) : Prop := opener c \/ naked_edge c = true \/ c = 40.

Lemma digit_edge0 c : is_digit c = true -> naked_edge c = true.
Proof. intro H. destruct (digit_cases c H) as [->|[->|[->|[->|[->|[->|[->|[->|[->| ->]]]]]]]]]; reflexivity. Qed.

Lemma naked_textb_text (A : str) : naked_textb A = true -> naked_text A.
Proof.
  unfold naked_textb. destruct A as [|c0 A']; [discriminate|]. intro H. apply andb_true_iff in H as [H Hl].
  apply andb_true_iff in H as [He Hm]. apply negb_true_iff in Hl. exists c0, A'. repeat split; assumption.
Qed.

Lemma print_amt_head am : amt_ok am = true -> exists c r, print_amt am = c :: r /\ expr_head c.
Proof.
  intro H. destruct (amt_ok_parts am H) as [Hn _]. unfold print_amt.
  destruct am as [rw p | t | t sp n v p | t w0 pw | t w0 p | t w0 | t w0 u w1 p]; cbn [lead_ok amt_lead amt_num] in *.
  1: { apply andb_true_iff in Hn as [_ Hn]. destruct (naked_textb_text _ Hn) as [c0 [A' [E [He _]]]]. rewrite E.
       exists c0, (A' ++ amt_tail (AmRem rw p)). split; [reflexivity | right; left; exact He]. }
  6: { eexists 123, _. split; [reflexivity | left; right; right; reflexivity]. }
  all: destruct (ntext_head t Hn) as [c [r [E Hc]]]; rewrite E; eexists c, _; split; [reflexivity | right; left; exact (digit_edge0 c Hc)].
Qed.

Lemma print_expr_head e : expr_ok e = true -> exists c r, print_expr e = c :: r /\ expr_head c.
Proof.
  destruct e as [[[am w]|] nm | nm w s0 first more trail s1 | s0 e acts s1]; cbn [expr_ok print_expr]; intro H.
  - apply andb_true_iff in H as [H _]. apply andb_true_iff in H as [H _].
    destruct (print_amt_head am H) as [c [r [E Hc]]]. rewrite E.
    exists c, ((r ++ w) ++ print_name nm). split; [reflexivity | exact Hc].
  - apply andb_true_iff in H as [H _]. destruct (print_name_head nm H) as [c [r [E Hc]]]. rewrite E.
    exists c, r. split; [reflexivity | left; exact Hc].
  - do 6 (apply andb_true_iff in H as [H _]). destruct (print_name_head nm H) as [c [r [E Hc]]]. rewrite E.
    eexists c, _. split; [reflexivity | left; exact Hc].
  - eexists 40, _. split; [reflexivity | right; right; reflexivity].
Qed.

Lemma expr_head_not_ws c : expr_head c -> is_ws c = false.
Proof.
  intros [[->|[->| ->]]|[H| ->]]; try reflexivity.
  unfold naked_edge in H. apply andb_true_iff in H as [_ H]. apply negb_true_iff in H. exact H.
Qed.

Lemma print_expr_stops_ws e (X : str) : expr_ok e = true -> stops is_ws (print_expr e ++ X).
Proof.
  intro H. destruct (print_expr_head e H) as [c [r [E Hc]]]. rewrite E. cbn [app stops].
  exact (expr_head_not_ws c Hc).
Qed.

(** ** References *)
Lemma p_number_stops (r : str) o b : stops is_digit r -> p_number (mkSt r o b) = None.
Proof.
  intro H. destruct r as [|c t]; [reflexivity|]. exact (p_number_none c t o b H).
Qed.

Lemma p_amount_name_fails nm (k : str) fuel o b :
  name_ok nm = true -> ref_name_ok nm = true ->
  p_amount fuel (mkSt (print_name nm ++ k) o b) = Fail.
Proof.
  intros Hok Href. destruct nm as [first more]. unfold name_ok in Hok. cbn [nm_first nm_more] in Hok.
  apply andb_true_iff in Hok as [Hf _]. unfold ref_name_ok in Href. cbn [nm_first] in Href.
  unfold print_name. cbn [nm_first nm_more].
  destruct first as [q ms x | bs]; cbn [print_seg seg_ok] in *.
  - assert (Hq : opener q) by (apply orb_true_iff in Hf as [H|H]; apply N.eqb_eq in H; subst; [left | right; left]; reflexivity).
    unfold print_quoted. cbn [app].
    unfold p_amount, p_proportion. cbn [rest].
    rewrite (sc_remainder_inert q _ (opener_inert q Hq)), (p_number_none q _ o b (opener_not_digit q Hq)).
    unfold p_explicit. rewrite (eat_miss 123 q _ o b) by (destruct Hq as [->|[->| ->]]; [discriminate | discriminate | ]; apply orb_true_iff in Hf as [H|H]; discriminate H).
    unfold p_implicit. rewrite (p_number_none q _ o b (opener_not_digit q Hq)). reflexivity.
  - unfold print_braced. cbn [app].
    unfold p_amount, p_proportion. cbn [rest].
    rewrite (sc_remainder_inert 123 _ eq_refl), (p_number_none 123 _ o b eq_refl).
    unfold p_explicit. rewrite (eat_hit 123 _ o b).
    repeat rewrite <- app_assoc. cbn [app].
    rewrite (span_head_ext is_hsp (print_bparts bs) 125 (print_more more ++ k) eq_refl) in Href.
    unfold skip_hsp, opt_hsp. cbn [rest].
    destruct (span is_hsp (print_bparts bs ++ 125 :: print_more more ++ k)) as [w' r0] eqn:Es. cbn [snd] in Href.
    unfold adv. cbn [off bad]. rewrite (p_number_stops r0 _ b (stopsb_stops _ _ Href)).
    unfold p_implicit. rewrite (p_number_none 123 _ o b eq_refl). reflexivity.
Qed.

Definition ref_val (a : option (amt * str)) (nm : name) (o : N) : aexpr :=
  match a with
  | None => ARef (name_val nm) None (name_off nm o)
  | Some (am, _) => ARef (name_val nm) (Some (amt_val am)) o
  end.

Theorem reference_roundtrip a nm (k : str) fuel o b :
  expr_ok (XRef a nm) = true -> name_followb k = true -> (name_cost nm <= fuel)%nat ->
  p_reference fuel (mkSt (print_expr (XRef a nm) ++ k) o b) =
  Got (value_expr (XRef a nm) o) (mkSt k (o + len (print_expr (XRef a nm))) b).
Proof.
  intros Hok Hk Hc. destruct a as [[am w]|]; cbn [expr_ok print_expr value_expr] in *.
  - apply andb_true_iff in Hok as [Hok Hn]. apply andb_true_iff in Hok as [Ha Hw].
    destruct (print_name_head nm Hn) as [c [r [E Hc']]].
    unfold p_reference. repeat rewrite <- app_assoc.
    assert (Ea : p_amount fuel (mkSt (print_amt am ++ w ++ print_name nm ++ k) o b) =
                 Got (amt_val am) (mkSt (w ++ print_name nm ++ k) (o + len (print_amt am)) b)).
    { rewrite E. cbn [app]. apply (amount_roundtrip am w c _ o b fuel Ha Hw Hc'). unfold name_cost in Hc. lia. }
    rewrite Ea.
    assert (Hstop : stops is_hsp (print_name nm ++ k)) by (rewrite E; exact (opener_not_hsp c Hc')).
    rewrite (skip_hsp_run w _ _ b Hw Hstop).
    rewrite (name_roundtrip nm fuel k _ b Hn Hk Hc). cbn [off].
    f_equal. f_equal. rewrite !len_app. lia.
  - apply andb_true_iff in Hok as [Hn Href]. cbn [app].
    unfold p_reference. rewrite (p_amount_name_fails nm k fuel o b Hn Href).
    rewrite (name_roundtrip nm fuel k o b Hn Hk Hc). reflexivity.
Qed.

(** ** A step is tried first: on a reference it fails *)

(** Characters of a number / amount text. *)
Definition amt_char (c : N) : bool := is_digit c || is_hsp c || (c =? 46) || (c =? 42) || (c =? 37).

Lemma amt_char_mid c : amt_char c = true -> naked_mid c = true.
Proof.
  unfold amt_char. intro H.
  apply orb_true_iff in H as [H|H]; [|apply N.eqb_eq in H; subst; reflexivity].
  apply orb_true_iff in H as [H|H]; [|apply N.eqb_eq in H; subst; reflexivity].
  apply orb_true_iff in H as [H|H]; [|apply N.eqb_eq in H; subst; reflexivity].
  apply orb_true_iff in H as [H|H]; [|exact (hsp_naked_mid c H)].
  destruct (digit_cases c H) as [->|[->|[->|[->|[->|[->|[->|[->|[->| ->]]]]]]]]]; reflexivity.
Qed.

Lemma digit_edge c : is_digit c = true -> naked_edge c = true.
Proof. intro H. destruct (digit_cases c H) as [->|[->|[->|[->|[->|[->|[->|[->|[->| ->]]]]]]]]]; reflexivity. Qed.

Lemma digit_not_ws c : is_digit c = true -> is_ws c = false.
Proof. intro H. destruct (digit_cases c H) as [->|[->|[->|[->|[->|[->|[->|[->|[->| ->]]]]]]]]]; reflexivity. Qed.

Lemma forallb_impl {A} (p q : A -> bool) l : (forall x, p x = true -> q x = true) -> forallb p l = true -> forallb q l = true.
Proof.
  intros Hpq. induction l as [|x l IH]; [reflexivity|]. cbn [forallb]. intro H. apply andb_true_iff in H as [Hx Hl].
  rewrite (Hpq x Hx), (IH Hl). reflexivity.
Qed.

Lemma naked_text_of (A : str) : A <> [] -> forallb amt_char A = true -> is_digit (hd 0 A) = true ->
  is_ws (last A 0) = false -> naked_text A.
Proof.
  intros Hn Hall Hh Hl. destruct A as [|c0 A']; [contradiction|]. exists c0, A'. cbn [hd] in Hh.
  cbn [forallb] in Hall. apply andb_true_iff in Hall as [_ Hall].
  repeat split; [exact (digit_edge c0 Hh) | exact (forallb_impl _ _ _ amt_char_mid Hall) | exact Hl].
Qed.

Lemma digits_amt_char (d : str) : forallb is_digit d = true -> forallb amt_char d = true.
Proof. apply forallb_impl. intros x H. unfold amt_char. rewrite H. reflexivity. Qed.
Lemma hsp_amt_char (w : str) : forallb is_hsp w = true -> forallb amt_char w = true.
Proof. apply forallb_impl. intros x H. unfold amt_char. rewrite H, orb_true_r. reflexivity. Qed.

Lemma last_digits (d : str) : d <> [] -> forallb is_digit d = true -> is_digit (last d 0) = true.
Proof.
  intros Hn Hd. destruct (exists_last Hn) as [Y [e ->]]. rewrite last_last.
  rewrite forallb_app in Hd. apply andb_true_iff in Hd as [_ He]. cbn [forallb] in He.
  apply andb_true_iff in He as [He _]. exact He.
Qed.

Lemma last_app_nonempty {A} (x y : list A) d : y <> [] -> last (x ++ y) d = last y d.
Proof.
  intro Hy. induction x as [|a x IH]; [reflexivity|]. cbn [app]. destruct (x ++ y) eqn:E.
  - apply app_eq_nil in E as [_ E]. contradiction.
  - cbn [last]. exact IH.
Qed.

Lemma hd_app_nonempty' {A} (x y : list A) d : x <> [] -> hd d (x ++ y) = hd d x.
Proof. destruct x; [contradiction | reflexivity]. Qed.

(** The part of a number text a naked string would swallow: all of it, or -
    for a fraction - what precedes the "/" (then horizontal space [w'], "/"). *)
Inductive num_shape (T : str) (cst : nat) : Prop :=
| ShapeWhole : naked_text T -> forallb amt_char T = true -> num_shape T cst
| ShapeWhole2 : naked_text T -> num_shape T cst
| ShapeBraced (bs : list bpart) (TT : str) : T = print_braced bs ++ TT -> bparts_ok bs = true ->
    seg_cost (SB bs) = cst ->
    (TT = [] \/ exists wp Q : str, TT = wp ++ Q /\ forallb is_hsp wp = true /\ naked_text Q) -> num_shape T cst
| ShapeSlash (Y w' R : str) : T = Y ++ w' ++ 47 :: R -> naked_text Y -> forallb is_hsp w' = true -> num_shape T cst.

Lemma zs_dec_digit_text k n : naked_text (zs k ++ dec_N n) /\ forallb amt_char (zs k ++ dec_N n) = true.
Proof.
  pose proof (digits_zs_dec k n) as Hd. pose proof (zs_dec_nonempty k n) as Hn. split.
  - apply naked_text_of; [exact Hn | exact (digits_amt_char _ Hd) | |].
    + destruct (zs k ++ dec_N n) as [|c t] eqn:E; [contradiction|]. cbn [hd]. cbn [forallb] in Hd.
      apply andb_true_iff in Hd as [Hc _]. exact Hc.
    + apply digit_not_ws, last_digits; assumption.
  - exact (digits_amt_char _ Hd).
Qed.

Lemma ntext_shape t : ntext_ok t = true -> num_shape (ntext_str t) O.
Proof.
  intro Hok. destruct t as [z n | i f | zn n w2 zd d | zi i wi zn n w1 w2 zd d]; cbn [ntext_str ntext_ok] in *.
  - destruct (zs_dec_digit_text z n) as [A B]. exact (ShapeWhole _ _ A B).
  - apply andb_true_iff in Hok as [Hok _]. apply andb_true_iff in Hok as [Hok Hf].
    apply andb_true_iff in Hok as [Hi Hin].
    assert (Hne : i <> []) by (destruct i; [discriminate|discriminate]).
    assert (Hall : forallb amt_char (i ++ 46 :: f) = true).
    { rewrite forallb_app, (digits_amt_char i Hi). cbn [forallb]. rewrite (digits_amt_char f Hf). reflexivity. }
    apply ShapeWhole; [|exact Hall]. apply naked_text_of; [destruct i; discriminate | exact Hall | |].
    + rewrite hd_app_nonempty' by exact Hne. destruct i as [|c i']; [contradiction|]. cbn [hd forallb] in *.
      apply andb_true_iff in Hi as [Hc _]. exact Hc.
    + rewrite last_app_nonempty by discriminate. destruct f as [|c f'].
      * reflexivity.
      * change (46 :: c :: f') with ([46] ++ c :: f'). rewrite last_app_nonempty by discriminate.
        apply digit_not_ws, last_digits; [discriminate | exact Hf].
  - destruct (zs_dec_digit_text zn n) as [A _].
    apply (ShapeSlash _ _ (zs zn ++ dec_N n) [] (w2 ++ zs zd ++ dec_pos d)); [| exact A | reflexivity].
    rewrite <- app_assoc. reflexivity.
  - repeat (apply andb_true_iff in Hok as [Hok ?H]).
    apply (ShapeSlash _ _ (zs zi ++ dec_N i ++ wi ++ zs zn ++ dec_N n) w1 (w2 ++ zs zd ++ dec_pos d)).
    + repeat rewrite <- app_assoc. reflexivity.
    + assert (Hall : forallb amt_char (zs zi ++ dec_N i ++ wi ++ zs zn ++ dec_N n) = true).
      { rewrite app_assoc, forallb_app, (digits_amt_char _ (digits_zs_dec zi i)).
        rewrite forallb_app, (hsp_amt_char wi Hok), (digits_amt_char _ (digits_zs_dec zn n)). reflexivity. }
      apply naked_text_of; [ | exact Hall | | ].
      * intro E. apply app_eq_nil in E as [_ E]. apply app_eq_nil in E as [E _]. exact (dec_N_nonempty i E).
      * rewrite app_assoc, hd_app_nonempty' by apply zs_dec_nonempty.
        pose proof (digits_zs_dec zi i) as Hd. destruct (zs zi ++ dec_N i) as [|c t] eqn:E; [exact (False_ind _ (zs_dec_nonempty zi i E))|].
        cbn [hd forallb] in *. apply andb_true_iff in Hd as [Hc _]. exact Hc.
      * rewrite app_assoc, app_assoc, last_app_nonempty by apply zs_dec_nonempty.
        apply digit_not_ws, last_digits; [apply zs_dec_nonempty | apply digits_zs_dec].
    + exact H3.
Qed.

Lemma naked_text_app (A T : str) : naked_text A -> tail_text_ok T = true -> naked_text (A ++ T).
Proof.
  intros [c0 [A' [-> [He [Hm Hl]]]]] HT. unfold tail_text_ok in HT. apply andb_true_iff in HT as [Hmid Hlast].
  exists c0, (A' ++ T). repeat split.
  - exact He.
  - rewrite forallb_app, Hm, Hmid. reflexivity.
  - destruct T as [|t0 T'].
    + rewrite app_nil_r. exact Hl.
    + cbn [is_nil orb] in Hlast. apply negb_true_iff in Hlast.
      change (c0 :: A' ++ t0 :: T') with ((c0 :: A') ++ t0 :: T'). rewrite last_app_nonempty by discriminate. exact Hlast.
Qed.

Lemma ntext_not_braced t bs (TT : str) : ntext_ok t = true -> ntext_str t = print_braced bs ++ TT -> False.
Proof.
  intros Ht E. destruct (ntext_head t Ht) as [c [r [Eh Hc]]]. rewrite Eh in E. unfold print_braced in E.
  cbn [app] in E. inversion E; subst. discriminate Hc.
Qed.

Lemma o_class_edge c : Units.lit_match_with true 111 c = true -> naked_edge c = true.
Proof.
  intro H. unfold Units.lit_match_with in H. apply UnitsScan.memN_In in H.
  assert (T : forallb naked_edge (Units.ci_class 111) = true) by (vm_compute; reflexivity).
  rewrite forallb_forall in T. exact (T c H).
Qed.

Lemma hsp_raw_ok_b (w : str) : forallb is_hsp w = true -> forallb raw_ok_b w = true.
Proof.
  apply forallb_impl. intros x H. unfold is_hsp, Units.is_hsp in H.
  apply orb_true_iff in H as [H|H]; apply N.eqb_eq in H; subst; reflexivity.
Qed.

Lemma explicit_print t w0 u w1 :
  hsp_run w0 = true -> hsp_run w1 = true ->
  match u with Some (sp, q, x) => hsp_run sp && ((q =? 34) || (q =? 39)) && forallb (unit_char q) x | None => true end = true ->
  print_bparts (explicit_bparts t w0 u w1) = w0 ++ ntext_str t ++ unit_text u ++ w1.
Proof.
  intros Hw0 Hw1 Hu.
  assert (HT : forallb raw_ok_b (unit_text u ++ w1) = true).
  { rewrite forallb_app. apply andb_true_iff. split; [|exact (hsp_raw_ok_b w1 Hw1)]. destruct u as [[[sp q] x]|]; [|reflexivity].
    apply andb_true_iff in Hu as [Hu Hx]. apply andb_true_iff in Hu as [Hsp Hq]. cbn [unit_text].
    assert (Hqb : raw_ok_b q = true) by (apply orb_true_iff in Hq as [H|H]; apply N.eqb_eq in H; subst; reflexivity).
    rewrite forallb_app, (hsp_raw_ok_b sp Hsp). cbn [forallb]. rewrite Hqb, forallb_app. cbn [forallb]. rewrite Hqb.
    rewrite (forallb_impl (unit_char q) raw_ok_b x); [reflexivity | | exact Hx].
    intros y Hy. unfold unit_char in Hy. apply andb_true_iff in Hy. tauto. }
  unfold explicit_bparts, print_bparts. rewrite flat_map_app. cbn [flat_map print_bpart].
  assert (E0 : flat_map print_bpart (match w0 with [] => [] | _ :: _ => [BStr w0 []] end) = w0).
  { destruct w0 as [|h w0']; [reflexivity|]. cbn [flat_map print_bpart]. rewrite app_nil_r.
    exact (print_chars_raw raw_ok_b _ (hsp_raw_ok_b _ Hw0)). }
  rewrite E0. f_equal. f_equal.
  destruct (unit_text u ++ w1) as [|h T'] eqn:ET; [reflexivity|]. cbn [flat_map print_bpart]. rewrite app_nil_r.
  exact (print_chars_raw raw_ok_b _ HT).
Qed.

Lemma amt_shape am : amt_ok am = true -> num_shape (print_amt am) (amt_cost am).
Proof.
  intro Hok. destruct (amt_ok_parts am Hok) as [Hn HT]. unfold print_amt.
  assert (G : forall t, amt_lead am = ntext_str t -> ntext_ok t = true -> num_shape (amt_lead am ++ amt_tail am) (amt_cost am)).
  { intros t E Ht. rewrite E. destruct (ntext_shape t Ht) as [A B | A | bs TT E' _ _ _ | Y w' R E' HY Hw']; [ | | exfalso | ].
    - exact (ShapeWhole2 _ _ (naked_text_app _ _ A HT)).
    - exact (ShapeWhole2 _ _ (naked_text_app _ _ A HT)).
    - exact (ntext_not_braced t bs TT Ht E').
    - apply (ShapeSlash _ _ Y w' (R ++ amt_tail am)); [|exact HY|exact Hw']. rewrite E'. repeat rewrite <- app_assoc. reflexivity. }
  destruct am as [rw p | t | t sp n v p | t w0 pw | t w0 p | t w0 | t w0 u w1 p]; cbn [lead_ok amt_lead amt_num] in *;
    try (exact (G _ eq_refl Hn)).
  - apply andb_true_iff in Hn as [_ Hn]. exact (ShapeWhole2 _ _ (naked_text_app _ _ (naked_textb_text _ Hn) HT)).
  - (* explicit quantity: a brace group, then the optional preposition *)
    apply andb_true_iff in Hn as [Hn Hbp]. apply andb_true_iff in Hn as [Hn Hu].
    apply andb_true_iff in Hn as [Hn Hw1]. apply andb_true_iff in Hn as [Ht Hw0].
    apply (ShapeBraced _ _ (explicit_bparts t w0 u w1) (oprep_str p)); [ | exact Hbp | reflexivity | ].
    + unfold print_braced. rewrite (explicit_print t w0 u w1 Hw0 Hw1 Hu). cbn [amt_tail]. norm_app. reflexivity.
    + cbn [amt_tail] in HT. unfold amt_ok in Hok. apply andb_true_iff in Hok as [_ Hp]. cbn in Hp.
      destruct p as [[w' pw]|]; [right | left; reflexivity]. cbn [oprep_ok oprep_str] in *.
      apply andb_true_iff in Hp as [Hp Hpw]. apply andb_true_iff in Hp as [Hw' _].
      exists w', (pword_str pw). split; [reflexivity|]. split; [exact Hw'|].
      unfold tail_text_ok in HT. apply andb_true_iff in HT as [Hmid Hlast].
      rewrite forallb_app in Hmid. apply andb_true_iff in Hmid as [_ Hmid].
      assert (Ho : exists c0 A', pword_str pw = c0 :: A' /\ naked_edge c0 = true).
      { destruct pw as [o | o w2 th]; cbn [pword_ok pword_str] in *.
        - pose proof (ci_wordb_word _ _ Hpw) as W. inversion W as [|a c' w'' m' Hac _]; subst.
          exists c', m'. split; [reflexivity | exact (o_class_edge c' Hac)].
        - do 3 (apply andb_true_iff in Hpw as [Hpw _]). pose proof (ci_wordb_word _ _ Hpw) as W.
          inversion W as [|a c' w'' m' Hac _]; subst. exists c', (m' ++ w2 ++ th). split; [reflexivity | exact (o_class_edge c' Hac)]. }
      destruct Ho as [c0 [A' [E He]]]. exists c0, A'. rewrite E in *. cbn [forallb] in Hmid.
      apply andb_true_iff in Hmid as [_ Hmid]. repeat split; [exact He | exact Hmid |].
      destruct (w' ++ c0 :: A') as [|z Z] eqn:EZ; [destruct w'; discriminate EZ|].
      cbn [is_nil orb] in Hlast. apply negb_true_iff in Hlast. rewrite <- EZ in Hlast.
      rewrite last_app_nonempty in Hlast by discriminate. exact Hlast.
Qed.

(** Where a NAME tried on a reference text stops: at the end of the whole
    reference, or before the "/" of a fraction. *)
Lemma naked_text_head_not_hsp (Q X : str) : naked_text Q -> stops is_hsp (Q ++ X).
Proof.
  intros [c0 [A' [-> [He _]]]]. cbn [app stops]. destruct (is_hsp c0) eqn:E; [|reflexivity].
  unfold naked_edge in He. rewrite (hsp_is_ws c0 E), andb_false_r in He. discriminate He.
Qed.

Lemma p_name_on_reference a nm (k : str) fuel o b :
  expr_ok (XRef a nm) = true -> name_followb k = true -> (S (name_cost nm + ref_amt_cost a) <= fuel)%nat ->
  exists v, p_name fuel (mkSt (print_expr (XRef a nm) ++ k) o b) = Got v (mkSt k (o + len (print_expr (XRef a nm))) b)
  \/ exists (w' R : str) o', forallb is_hsp w' = true /\
       p_name fuel (mkSt (print_expr (XRef a nm) ++ k) o b) = Got v (mkSt (w' ++ 47 :: R) o' b).
Proof.
  intros Hok Hk Hc. destruct a as [[am w]|]; cbn [expr_ok print_expr ref_amt_cost] in *.
  - apply andb_true_iff in Hok as [Hok Hn]. apply andb_true_iff in Hok as [Ha Hw].
    destruct (amt_shape am Ha) as [A B | A | bs TT E Hbs Hcost HTT | Y w' R E HY Hw'].
    + eexists. left. unfold p_name. repeat rewrite <- app_assoc.
      rewrite (p_string_naked_name (print_amt am) w nm fuel k o b A Hw Hn Hk) by lia. reflexivity.
    + eexists. left. unfold p_name. repeat rewrite <- app_assoc.
      rewrite (p_string_naked_name (print_amt am) w nm fuel k o b A Hw Hn Hk) by lia. reflexivity.
    + (* explicit quantity: read as a brace group, then on into the name *)
      destruct fuel as [|f]; [lia|]. destruct nm as [first more].
      set (nm := mkName first more) in *.
      assert (F : (seg_cost (SB bs) <= f /\ S (name_cost nm) <= f)%nat).
      { rewrite <- Hcost in Hc. cbn [seg_cost] in *. generalize dependent (name_cost nm). intros. lia. }
      destruct F as [F2 F3]. assert (F1 : (name_cost nm <= f)%nat) by (generalize dependent (name_cost nm); intros; lia).
      pose proof Hn as Hn0. unfold name_ok in Hn. unfold nm in Hn. cbn [nm_first nm_more] in Hn.
      apply andb_true_iff in Hn as [Hf Hm].
      destruct HTT as [-> | [wp [Q [-> [Hwp HQ]]]]].
      * eexists. left. unfold p_name. rewrite E. repeat rewrite <- app_assoc.
        rewrite p_string_unfold. change (print_braced bs) with (print_seg (SB bs)).
        rewrite (segment_roundtrip (SB bs) _ o b f Hbs F2).
        cbn [app]. destruct (print_name_head nm Hn0) as [c [r [Eh Hco]]].
        assert (Hstop : stops is_hsp (print_name nm ++ k)) by (rewrite Eh; exact (opener_not_hsp c Hco)).
        rewrite (skip_hsp_run w _ _ b Hw Hstop). cbn [fst snd]. unfold print_name, nm. cbn [nm_first nm_more].
        rewrite <- app_assoc.
        rewrite (p_string_name more first f k _ b Hf Hm Hk F1).
        match goal with |- Got _ {| rest := _; off := ?x; bad := _ |} = Got _ {| rest := _; off := ?y; bad := _ |} =>
          replace x with y by (repeat rewrite len_app; lia) end. reflexivity.
      * eexists. left. unfold p_name. rewrite E. repeat rewrite <- app_assoc.
        rewrite p_string_unfold. change (print_braced bs) with (print_seg (SB bs)).
        rewrite (segment_roundtrip (SB bs) _ o b f Hbs F2).
        rewrite (skip_hsp_run wp _ _ b Hwp (naked_text_head_not_hsp Q _ HQ)). cbn [fst snd].
        rewrite (p_string_naked_name Q w nm f k _ b HQ Hw Hn0 Hk F3).
        match goal with |- Got _ {| rest := _; off := ?x; bad := _ |} = Got _ {| rest := _; off := ?y; bad := _ |} =>
          replace x with y by (repeat rewrite len_app; lia) end. reflexivity.
    + eexists. right. exists w', (R ++ w ++ print_name nm ++ k). eexists. split; [exact Hw'|].
      unfold p_name. rewrite E. repeat rewrite <- app_assoc. cbn [app].
      rewrite (p_string_naked_stop Y w' 47 fuel _ o b HY Hw' eq_refl eq_refl) by (unfold name_cost in Hc; lia). reflexivity.
  - apply andb_true_iff in Hok as [Hn _]. eexists. left. cbn [app].
    rewrite (name_roundtrip nm fuel k o b Hn Hk) by lia. reflexivity.
Qed.

Lemma not_open_after_hsp (k : str) o b : expr_followb k = true -> eat 40 (snd (skip_hsp (mkSt k o b))) = None.
Proof.
  unfold expr_followb, skip_hsp, opt_hsp. cbn [rest]. destruct (span is_hsp k) as [w r]. cbn [snd].
  destruct r as [|c t]; [reflexivity|]. cbn [stopsb]. intro H. apply negb_true_iff in H.
  apply orb_false_iff in H as [_ H]. apply N.eqb_neq in H. unfold adv. apply eat_miss. exact H.
Qed.

Lemma p_step_fails_on_reference E a nm (k : str) fuel o b :
  expr_ok (XRef a nm) = true -> expr_followb k = true -> (S (name_cost nm + ref_amt_cost a) <= fuel)%nat ->
  p_step E fuel (mkSt (print_expr (XRef a nm) ++ k) o b) = Fail.
Proof.
  intros Hok Hk Hc.
  destruct (p_name_on_reference a nm k fuel o b Hok (expr_followb_name k Hk) Hc) as [[v1 v2] [H | [w' [R [o' [Hw' H]]]]]];
    unfold p_step; rewrite H.
  - pose proof (not_open_after_hsp k (o + len (print_expr (XRef a nm))) b Hk) as N0.
    destruct (skip_hsp (mkSt k (o + len (print_expr (XRef a nm))) b)) as [w0 s2]. cbn [snd] in N0. rewrite N0. reflexivity.
  - rewrite (skip_hsp_run w' (47 :: R) o' b Hw' eq_refl). rewrite eat_miss by discriminate. reflexivity.
Qed.
