(** * References, steps, shorthand, parenthesised expressions (C06 round trip, quoted family). *)
From Coq Require Import List ZArith NArith Bool Lia Arith String.
From RG Require Import Base.Str Base.Dec Base.Num Gen.GenUnits Model.Recipe Model.Compiler Model.Parser Model.Printer
  Proofs.DecLemmas Proofs.ParserLex Proofs.ParserName Proofs.ParserAmount Proofs.UnitsScan.
From RG Require Model.Units.
Import ListNotations.
Open Scope string_scope.
Open Scope list_scope.
Open Scope N_scope.

(** ** Whitespace is never punctuation or the start of a string *)
Definition plain_ws (c : N) : bool :=
  negb (seg_start c) && negb (c =? 40) && negb (c =? 41) && negb (c =? 44) && negb (c =? 58) && negb (c =? 61)
  && negb (is_digit c) && inert c.

Lemma ws_table_plain : forallb plain_ws ws_chars = true.
Proof. vm_compute. reflexivity. Qed.

Lemma ws_plain c : is_ws c = true -> plain_ws c = true.
Proof.
  unfold is_ws, Units.is_ws. intro H. apply memN_In in H.
  pose proof ws_table_plain as T. rewrite forallb_forall in T. exact (T c H).
Qed.

Ltac plain_split H :=
  unfold plain_ws in H;
  repeat match type of H with _ && _ = true => let H' := fresh H in apply andb_true_iff in H as [H H'] end.

(** Punctuation that can follow an expression or a name. *)
Definition closer (c : N) : Prop := c = 44 \/ c = 41.

Lemma followb_ws_then (s : str) c (r : str) (p : N -> bool) :
  forallb is_ws s = true -> p c = false -> (forall d, is_ws d = true -> is_hsp d = false -> p d = false) ->
  is_hsp c = false ->
  stopsb p (snd (span is_hsp (s ++ c :: r))) = true.
Proof.
  intros Hs Hc Hp Hch. induction s as [|h s IH]; cbn [app].
  - rewrite (span_cons_false is_hsp c r Hch). cbn [snd stopsb]. rewrite Hc. reflexivity.
  - cbn [forallb] in Hs. apply andb_true_iff in Hs as [Hh Hs]. destruct (is_hsp h) eqn:E.
    + rewrite (span_cons_true is_hsp h _ E). cbn [snd]. exact (IH Hs).
    + rewrite (span_cons_false is_hsp h _ E). cbn [snd stopsb]. rewrite (Hp h Hh E). reflexivity.
Qed.

Lemma expr_followb_ws_closer (s : str) c (r : str) : forallb is_ws s = true -> closer c ->
  expr_followb (s ++ c :: r) = true.
Proof.
  intros Hs Hc. unfold expr_followb. apply andb_true_iff. split.
  - apply followb_ws_then; [exact Hs | destruct Hc as [->| ->]; reflexivity | | destruct Hc as [->| ->]; reflexivity].
    intros d Hd _. pose proof (ws_plain d Hd) as P. plain_split P.
    apply negb_true_iff in P, P6. rewrite P, P6. reflexivity.
  - apply naked_stopb_ws_then; [exact Hs | destruct Hc as [->| ->]; reflexivity].
Qed.

Lemma expr_followb_name k : expr_followb k = true -> name_followb k = true.
Proof.
  unfold expr_followb, name_followb. intro H. apply andb_true_iff in H as [H N0]. apply andb_true_iff. split; [|exact N0].
  destruct (snd (span is_hsp k)) as [|c t]; [reflexivity|].
  cbn [stopsb] in *. apply negb_true_iff in H. apply orb_false_iff in H as [H _]. rewrite H. reflexivity.
Qed.

(** ** Heads of printed expressions *)
Lemma print_name_head nm : name_ok nm = true -> exists c r, print_name nm = c :: r /\ seg_head c.
Proof.
  intro H. unfold name_ok in H. apply andb_true_iff in H as [H _]. apply andb_true_iff in H as [Hf _].
  destruct (print_seg_head (nm_first nm) Hf) as [c [r [E [Hc _]]]]. unfold print_name. rewrite E.
  exists c, (r ++ print_more (nm_more nm)). split; [reflexivity | exact Hc].
Qed.

Lemma print_name_head_op nm : name_ok nm = true -> is_naked (nm_first nm) = false ->
  exists c r, print_name nm = c :: r /\ opener c.
Proof.
  intros H Hn. unfold name_ok in H. apply andb_true_iff in H as [H _]. apply andb_true_iff in H as [Hf _].
  destruct (print_seg_head (nm_first nm) Hf) as [c [r [E [_ Hc]]]]. unfold print_name. rewrite E.
  exists c, (r ++ print_more (nm_more nm)). split; [reflexivity | exact (Hc Hn)].
Qed.

Lemma seg_head_expr c : seg_head c -> opener c \/ naked_edge c = true \/ c = 40.
Proof. intros [H|[H|[H|H]]]; [left; left | left; right; left | left; right; right | right; left]; exact H. Qed.

(** First character of an expression: an opener, a digit or "(". *)
Definition expr_head (c : N) : Prop := opener c \/ naked_edge c = true \/ c = 40.

Lemma digit_edge0 c : is_digit c = true -> naked_edge c = true.
Proof. intro H. destruct (digit_cases c H) as [->|[->|[->|[->|[->|[->|[->|[->|[->| ->]]]]]]]]]; reflexivity. Qed.

Lemma print_amt_head am : amt_ok am = true -> exists c r, print_amt am = c :: r /\ expr_head c.
Proof.
  intro H. destruct (amt_ok_parts am H) as [Hn _]. unfold print_amt.
  destruct am as [rw p | t | t sp n v p | t w0 pw | t w0 p | t w0 | t w0 u w1 p]; cbn [lead_ok amt_lead amt_num] in *.
  1: { apply andb_true_iff in Hn as [_ Hn]. destruct (naked_textb_text _ Hn) as [c0 [A' [E [He _]]]]. rewrite E.
       exists c0, (A' ++ amt_tail (AmRem rw p)). split; [reflexivity | right; left; exact He]. }
  6: { eexists 123, _. split; [reflexivity | left; right; right; reflexivity]. }
  all: destruct (ntext_head t Hn) as [c [r [E Hc]]]; rewrite E; eexists c, _; split; [reflexivity | right; left; exact (digit_edge0 c Hc)].
Qed.

Lemma print_expr_head e : expr_ok e = true -> exists c r, print_expr e = c :: r /\ expr_head c.
Proof.
  destruct e as [[[am w]|] nm | nm w s0 first more trail s1 | s0 e acts s1]; cbn [expr_ok print_expr]; intro H.
  - do 3 (apply andb_true_iff in H as [H _]).
    destruct (print_amt_head am H) as [c [r [E Hc]]]. rewrite E.
    exists c, ((r ++ w) ++ print_name nm). split; [reflexivity | exact Hc].
  - apply andb_true_iff in H as [H _]. destruct (print_name_head nm H) as [c [r [E Hc]]]. rewrite E.
    exists c, r. split; [reflexivity | exact (seg_head_expr c Hc)].
  - do 6 (apply andb_true_iff in H as [H _]). destruct (print_name_head nm H) as [c [r [E Hc]]]. rewrite E.
    eexists c, _. split; [reflexivity | exact (seg_head_expr c Hc)].
  - eexists 40, _. split; [reflexivity | right; right; reflexivity].
Qed.

Lemma expr_head_not_ws c : expr_head c -> is_ws c = false.
Proof.
  intros [[->|[->| ->]]|[H| ->]]; try reflexivity.
  unfold naked_edge in H. apply andb_true_iff in H as [_ H]. apply negb_true_iff in H. exact H.
Qed.

Lemma print_expr_stops_ws e (X : str) : expr_ok e = true -> stops is_ws (print_expr e ++ X).
Proof.
  intro H. destruct (print_expr_head e H) as [c [r [E Hc]]]. rewrite E. cbn [app stops].
  exact (expr_head_not_ws c Hc).
Qed.

(** ** Locality of the keyword scanners: what they do on a naked chunk [X]
    followed by [F] depends on [F] only through the fact that [F] does not
    start (after horizontal space) with a word character. *)
Definition inertF (F : str) : Prop := match F with [] => True | c :: _ => Units.is_word c = false end.
Definition inertF2 (F : str) : Prop := inertF (snd (span is_hsp F)).

Lemma inertF2_inertF F : inertF2 F -> inertF F.
Proof.
  unfold inertF2. destruct F as [|c t]; [trivial|]. destruct (is_hsp c) eqn:E.
  - intros _. exact (not_word_hsp c E).
  - rewrite (span_cons_false is_hsp c t E). trivial.
Qed.

Definition wordsb (w : str) : bool := forallb (fun a => forallb Units.is_word (Units.ci_class a)) w.

Lemma lm_word a c : forallb Units.is_word (Units.ci_class a) = true -> Units.lit_match_with true a c = true ->
  Units.is_word c = true.
Proof.
  intros Hw H. unfold Units.lit_match_with in H. apply UnitsScan.memN_In in H. rewrite forallb_forall in Hw. exact (Hw c H).
Qed.

Lemma match_ci_word w : forall (x m r : str), Units.match_ci_lit w x = Some (m, r) -> UnitsTail.ci_word w m /\ x = m ++ r.
Proof.
  induction w as [|a w IH]; intros x m r H; cbn [Units.match_ci_lit] in H.
  - inversion H; subst. split; [constructor | reflexivity].
  - destruct x as [|c t]; [discriminate|]. destruct (Units.lit_match_with true a c) eqn:E; [|discriminate].
    destruct (Units.match_ci_lit w t) as [[m' r']|] eqn:E2; [|discriminate]. inversion H; subst.
    destruct (IH t m' r E2) as [W X]. split; [constructor; assumption | rewrite X; reflexivity].
Qed.

Lemma match_ci_local w : wordsb w = true -> forall (X F m r : str), inertF F ->
  Units.match_ci_lit w (X ++ F) = Some (m, r) -> exists X2, X = m ++ X2 /\ r = X2 ++ F.
Proof.
  induction w as [|a w IH]; intros Hw X F m r HF H; cbn [Units.match_ci_lit] in H.
  - inversion H; subst. exists X. split; reflexivity.
  - cbn [wordsb forallb] in Hw. apply andb_true_iff in Hw as [Ha Hw].
    destruct X as [|c X'].
    + cbn [app] in H. destruct F as [|c t]; [discriminate|]. cbn [inertF] in HF.
      destruct (Units.lit_match_with true a c) eqn:E; [|discriminate]. rewrite (lm_word a c Ha E) in HF. discriminate.
    + cbn [app] in H. destruct (Units.lit_match_with true a c) eqn:E; [|discriminate].
      destruct (Units.match_ci_lit w (X' ++ F)) as [[m' r']|] eqn:E2; [|discriminate]. inversion H; subst.
      destruct (IH Hw X' F m' r HF E2) as [X2 [EX Er]]. exists X2. split; [rewrite EX; reflexivity | exact Er].
Qed.

Lemma inertF_opt F : inertF F -> Units.opt_word (hd_error F) = false.
Proof. destruct F as [|c t]; [reflexivity|]. cbn [inertF hd_error Units.opt_word]. intro H. exact H. Qed.

Lemma word_end_local (m X2 F G : str) : inertF F -> inertF G -> word_end_ok m (X2 ++ F) = word_end_ok m (X2 ++ G).
Proof.
  intros HF HG. unfold word_end_ok. destruct X2 as [|c t]; [|reflexivity]. cbn [app]. unfold Units.word_boundary.
  rewrite (inertF_opt F HF), (inertF_opt G HG). reflexivity.
Qed.

(** [None] on the probe [G] gives [None] on [F]. *)
Lemma wb_transfer w (X F G : str) : wordsb w = true -> inertF F -> inertF G ->
  with_boundary (Units.match_ci_lit w (X ++ G)) = None -> with_boundary (Units.match_ci_lit w (X ++ F)) = None.
Proof.
  intros Hw HF HG H. destruct (Units.match_ci_lit w (X ++ F)) as [[m r]|] eqn:E; [|reflexivity].
  destruct (match_ci_local w Hw X F m r HF E) as [X2 [EX Er]]. destruct (match_ci_word w _ _ _ E) as [W _].
  subst X r. rewrite <- app_assoc in H. rewrite (UnitsTail.match_ci_lit_complete w m W (X2 ++ G)) in H.
  unfold with_boundary in *. rewrite (word_end_local m X2 F G HF HG). destruct (word_end_ok m (X2 ++ G)); [discriminate H | reflexivity].
Qed.

Lemma span_app_left p (X2 F w X3 : str) : span p X2 = (w, X3) -> X3 <> [] -> span p (X2 ++ F) = (w, X3 ++ F).
Proof.
  revert w X3. induction X2 as [|c t IH]; intros w X3 H Hn.
  - unfold span in H. cbn [Units.span] in H. inversion H; subst. contradiction.
  - destruct (p c) eqn:E.
    + rewrite (span_cons_true p c t E) in H. inversion H; subst. cbn [app].
      rewrite (span_cons_true p c (t ++ F) E). rewrite (IH (fst (span p t)) (snd (span p t))); [reflexivity | destruct (span p t); reflexivity | exact Hn].
    + rewrite (span_cons_false p c t E) in H. inversion H; subst. cbn [app]. rewrite (span_cons_false p c (t ++ F) E). reflexivity.
Qed.

Lemma last_app_r {A} (x y : list A) d : y <> [] -> last (x ++ y) d = last y d.
Proof.
  intro Hy. induction x as [|a x IH]; [reflexivity|]. cbn [app]. destruct (x ++ y) eqn:E.
  - apply app_eq_nil in E as [_ E]. contradiction.
  - cbn [last]. exact IH.
Qed.

Lemma span_hsp_nonempty_rest (X2 : str) : X2 <> [] -> is_ws (last X2 0) = false -> snd (span is_hsp X2) <> [].
Proof.
  intros Hn Hl. destruct (span is_hsp X2) as [w X3] eqn:E. destruct (span_spec _ _ _ _ E) as [EX Hw]. cbn [snd].
  intro H0. subst X3. rewrite app_nil_r in EX. subst X2.
  destruct (exists_last Hn) as [Y [e EY]]. rewrite EY in *. rewrite last_last in Hl.
  rewrite forallb_app in Hw. apply andb_true_iff in Hw as [_ He]. cbn [forallb] in He. apply andb_true_iff in He as [He _].
  rewrite (hsp_is_ws e He) in Hl. discriminate.
Qed.

Lemma kw_words : wordsb (s "remaining") = true /\ wordsb (s "remainder") = true /\ wordsb (s "rest") = true /\
  wordsb (s "left") = true /\ wordsb (s "over") = true /\ wordsb [111; 102] = true /\ wordsb [116; 104; 101] = true.
Proof. vm_compute. repeat split; reflexivity. Qed.

Lemma left_over_transfer (X F G : str) : X <> [] -> is_ws (last X 0) = false -> inertF2 F -> inertF G ->
  with_boundary (sc_left_over (X ++ G)) = None -> with_boundary (sc_left_over (X ++ F)) = None.
Proof.
  intros Hn Hl HF2 HG H. pose proof (inertF2_inertF F HF2) as HF.
  destruct kw_words as [_ [_ [_ [Wl [Wo _]]]]].
  destruct (sc_left_over (X ++ F)) as [[m r]|] eqn:E; [|reflexivity].
  unfold sc_left_over in E. destruct (Units.match_ci_lit (s "left") (X ++ F)) as [[m1 r1]|] eqn:E1; [|discriminate].
  destruct (match_ci_local _ Wl X F m1 r1 HF E1) as [X2 [EX Er]]. destruct (match_ci_word _ _ _ _ E1) as [W1 _]. subst r1.
  destruct (span is_hsp (X2 ++ F)) as [w r2] eqn:Es.
  destruct (Units.match_ci_lit (s "over") r2) as [[m2 r3]|] eqn:E2; [|discriminate]. inversion E; subst m r. clear E.
  destruct (match_ci_word _ _ _ _ E2) as [W2 _].
  destruct X2 as [|c2 X2'].
  - (* "left" is all of X: what follows horizontal space in F is no word *)
    exfalso. cbn [app] in Es. unfold inertF2 in HF2. rewrite Es in HF2. cbn [snd] in HF2.
    destruct (match_ci_local _ Wo [] r2 m2 r3 HF2 E2) as [X2' [EX' _]].
    symmetry in EX'. apply app_eq_nil in EX' as [EX' _]. subst m2. inversion W2.
  - assert (Hl2 : is_ws (last (c2 :: X2') 0) = false) by (rewrite EX in Hl; rewrite last_app_r in Hl by discriminate; exact Hl).
    pose proof (span_hsp_nonempty_rest (c2 :: X2') ltac:(discriminate) Hl2) as Hne.
    destruct (span is_hsp (c2 :: X2')) as [w' X3] eqn:Es'. cbn [snd] in Hne.
    rewrite (span_app_left is_hsp _ F w' X3 Es' Hne) in Es. inversion Es; subst w r2.
    destruct (match_ci_local _ Wo X3 F m2 r3 HF E2) as [X4 [EX3 Er3]]. subst X3 r3.
    (* the same happens on the probe *)
    unfold sc_left_over in H. rewrite EX in H. rewrite <- app_assoc in H.
    rewrite (UnitsTail.match_ci_lit_complete _ m1 W1 ((c2 :: X2') ++ G)) in H.
    rewrite (span_app_left is_hsp _ G w' (m2 ++ X4) Es' Hne) in H. rewrite <- app_assoc in H.
    rewrite (UnitsTail.match_ci_lit_complete _ m2 W2 (X4 ++ G)) in H.
    unfold with_boundary in *. rewrite (word_end_local _ X4 F G HF HG).
    destruct (word_end_ok (m1 ++ w' ++ m2) (X4 ++ G)); [discriminate H | reflexivity].
Qed.

Lemma first_some_none {A} (a b : option A) : first_some a b = None -> a = None /\ b = None.
Proof. destruct a; [discriminate | intro H; split; [reflexivity | exact H]]. Qed.

(** No remainder word on the probe [X ++ ","] : none on [X ++ F]. *)
Lemma sc_remainder_local (X F : str) : X <> [] -> is_ws (last X 0) = false -> inertF2 F ->
  sc_remainder (X ++ [44]) = None -> sc_remainder (X ++ F) = None.
Proof.
  intros Hn Hl HF2 H. pose proof (inertF2_inertF F HF2) as HF.
  assert (HG : inertF [44]) by reflexivity.
  destruct kw_words as [W0 [W1 [W2 _]]].
  unfold sc_remainder in *. apply first_some_none in H as [H0 H]. apply first_some_none in H as [H1 H].
  apply first_some_none in H as [H2 H3].
  rewrite (wb_transfer _ X F [44] W0 HF HG H0), (wb_transfer _ X F [44] W1 HF HG H1), (wb_transfer _ X F [44] W2 HF HG H2).
  cbn [first_some]. exact (left_over_transfer X F [44] Hn Hl HF2 HG H3).
Qed.

(** No preposition on the probe: none on [X ++ F]. *)
Lemma hsp_local (X2 F : str) : X2 <> [] -> is_ws (last X2 0) = false ->
  Units.hsp (X2 ++ F) = match Units.hsp X2 with Some (w, X3) => Some (w, X3 ++ F) | None => None end
  /\ (forall w X3, Units.hsp X2 = Some (w, X3) -> X3 <> [] /\ is_ws (last X3 0) = false).
Proof.
  intros Hn Hl. pose proof (span_hsp_nonempty_rest X2 Hn Hl) as Hne.
  unfold Units.hsp. change (Units.span Units.is_hsp) with (span is_hsp).
  destruct (span is_hsp X2) as [w X3] eqn:Es. cbn [snd] in Hne.
  rewrite (span_app_left is_hsp X2 F w X3 Es Hne). split.
  - destruct w; reflexivity.
  - intros w0 X30 H. destruct w; [discriminate H|]. inversion H; subst. split; [exact Hne|].
    destruct (span_spec _ _ _ _ Es) as [EX _]. rewrite EX in Hl. rewrite last_app_r in Hl by exact Hne. exact Hl.
Qed.

Lemma preposition_local (X F : str) : X <> [] -> is_ws (last X 0) = false -> inertF2 F ->
  Units.preposition (X ++ [44]) = None -> Units.preposition (X ++ F) = None.
Proof.
  intros Hn Hl HF2 H. pose proof (inertF2_inertF F HF2) as HF. assert (HG : inertF [44]) by reflexivity.
  destruct kw_words as [_ [_ [_ [_ [_ [Wof Wthe]]]]]].
  unfold Units.preposition in *.
  destruct (Units.match_ci_lit [111; 102] (X ++ F)) as [[m1 r1]|] eqn:E1; [|reflexivity].
  destruct (match_ci_local _ Wof X F m1 r1 HF E1) as [X2 [EX Er]]. destruct (match_ci_word _ _ _ _ E1) as [W1 _]. subst r1.
  rewrite EX in H. rewrite <- app_assoc in H. rewrite (UnitsTail.match_ci_lit_complete _ m1 W1 (X2 ++ [44])) in H.
  (* the fallback boundary is the same on both sides *)
  assert (Hb : Units.word_boundary (Units.last_opt m1) (hd_error (X2 ++ F)) = Units.word_boundary (Units.last_opt m1) (hd_error (X2 ++ [44])))
    by exact (word_end_local m1 X2 F [44] HF HG).
  destruct X2 as [|c2 X2'].
  - (* "of" is all of X *)
    cbn [app] in *.
    assert (T : match Units.hsp F with
                | Some (w, r2) => match Units.match_ci_lit [116; 104; 101] r2 with
                                  | Some (m2, r3) => if Units.word_boundary (Units.last_opt m2) (hd_error r3) then Some (m1 ++ w ++ m2, r3) else None
                                  | None => None end
                | None => None end = None).
    { destruct (Units.hsp F) as [[w r2]|] eqn:Eh; [|reflexivity].
      assert (Hr2 : inertF r2).
      { unfold inertF2 in HF2. unfold Units.hsp in Eh. change (Units.span Units.is_hsp F) with (span is_hsp F) in Eh.
        destruct (span is_hsp F) as [w' r'] eqn:Es. destruct w'; [discriminate Eh|]. inversion Eh; subst. exact HF2. }
      destruct (Units.match_ci_lit [116; 104; 101] r2) as [[m2 r3]|] eqn:E2; [|reflexivity]. exfalso.
      destruct (match_ci_local _ Wthe [] r2 m2 r3 Hr2 E2) as [X2' [EX' _]]. destruct (match_ci_word _ _ _ _ E2) as [W2 _].
      symmetry in EX'. apply app_eq_nil in EX' as [EX' _]. subst m2. inversion W2. }
    rewrite T. rewrite Hb. cbn [Units.hsp Units.span] in H.
    destruct (Units.word_boundary (Units.last_opt m1) (hd_error [44])); [discriminate H | reflexivity].
  - assert (Hl2 : is_ws (last (c2 :: X2') 0) = false) by (rewrite EX in Hl; rewrite last_app_r in Hl by discriminate; exact Hl).
    destruct (hsp_local (c2 :: X2') F ltac:(discriminate) Hl2) as [HhF Hh3].
    destruct (hsp_local (c2 :: X2') [44] ltac:(discriminate) Hl2) as [HhG _].
    rewrite HhF. rewrite HhG in H.
    destruct (Units.hsp (c2 :: X2')) as [[w X3]|] eqn:Eh.
    + destruct (Hh3 w X3 eq_refl) as [Hne3 Hl3].
      destruct (Units.match_ci_lit [116; 104; 101] (X3 ++ F)) as [[m2 r3]|] eqn:E2.
      * destruct (match_ci_local _ Wthe X3 F m2 r3 HF E2) as [X4 [EX3 Er3]]. destruct (match_ci_word _ _ _ _ E2) as [W2 _].
        subst r3. rewrite EX3 in H. rewrite <- app_assoc in H. rewrite (UnitsTail.match_ci_lit_complete _ m2 W2 (X4 ++ [44])) in H.
        pose proof (word_end_local m2 X4 F [44] HF HG) as Hb2. unfold word_end_ok in Hb2. rewrite Hb2.
        destruct (Units.word_boundary (Units.last_opt m2) (hd_error (X4 ++ [44]))); [discriminate H|].
        rewrite Hb. destruct (Units.word_boundary (Units.last_opt m1) (hd_error ((c2 :: X2') ++ [44]))); [discriminate H | reflexivity].
      * rewrite Hb.
        destruct (Units.match_ci_lit [116; 104; 101] (X3 ++ [44])) as [[m2' r3']|];
          [destruct (Units.word_boundary (Units.last_opt m2') (hd_error r3')); [discriminate H|]|];
          (destruct (Units.word_boundary (Units.last_opt m1) (hd_error ((c2 :: X2') ++ [44]))); [discriminate H | reflexivity]).
    + rewrite Hb. destruct (Units.word_boundary (Units.last_opt m1) (hd_error ((c2 :: X2') ++ [44]))); [discriminate H | reflexivity].
Qed.

(** ** Locality of the unit scanner *)
Lemma wf_tail_cons p ps : UnitsScan.wf_tail (p :: ps) = true -> UnitsScan.wf_tail ps = true.
Proof.
  destruct p as [a|]; cbn [UnitsScan.wf_tail]; intro H.
  - apply andb_true_iff in H. tauto.
  - destruct ps as [|[a|] r]; [discriminate H | exact H | discriminate H].
Qed.

Lemma Matches_chars ps m : UnitsRef.Matches ps m -> UnitsScan.wf_tail ps = true ->
  forallb (fun c => Units.is_word c || is_ws c) m = true.
Proof.
  induction 1 as [|a c ps v Hl HM IH | w ps v Hne Hws HM IH]; intro Wf; [reflexivity | |].
  - cbn [forallb]. pose proof (wf_tail_cons _ _ Wf) as Wf'. cbn [UnitsScan.wf_tail] in Wf. apply andb_true_iff in Wf as [Hg _].
    destruct (UnitsScan.good_class_spec a c Hg Hl) as [Hw _]. rewrite Hw, (IH Wf'). reflexivity.
  - rewrite forallb_app. apply andb_true_iff. split; [|exact (IH (wf_tail_cons _ _ Wf))].
    apply (forallb_impl Units.is_ws); [|exact Hws]. intros x Hx. change (is_ws x) with (Units.is_ws x). rewrite Hx, orb_true_r. reflexivity.
Qed.

(** A match that runs past the end of [X] into whitespace: [X] is spelled by
    the pieces before one of the alternative's [\s+]. *)
Lemma Matches_split ps m : UnitsRef.Matches ps m -> UnitsScan.wf_tail ps = true ->
  forall (X : str) (c : N) (f : str), m = X ++ c :: f -> X <> [] -> is_ws (last X 0) = false -> is_ws c = true ->
  exists p1 p2, ps = p1 ++ PWs :: p2 /\ UnitsRef.Matches p1 X.
Proof.
  induction 1 as [|a c0 ps v Hl HM IH | w ps v Hne Hws HM IH]; intros Wf X c f E Hn Hlast Hc.
  - destruct X; discriminate E.
  - destruct X as [|x0 X']; [contradiction|]. cbn [app] in E. inversion E; subst x0. clear E.
    pose proof (wf_tail_cons _ _ Wf) as Wf'.
    destruct X' as [|x1 X''].
    + cbn [app] in H1. subst v. (* the next piece must be the whitespace *)
      destruct ps as [|[a'|] ps'].
      * inversion HM.
      * exfalso. inversion HM as [|a'' c' ps'' v' Hl' _|]; subst. cbn [UnitsScan.wf_tail] in Wf'. apply andb_true_iff in Wf' as [Hg _].
        destruct (UnitsScan.good_class_spec a' c Hg Hl') as [_ Hnw]. change (is_ws c) with (Units.is_ws c) in Hc. congruence.
      * exists [PLit a], ps'. split; [reflexivity|]. constructor; [exact Hl | constructor].
    + assert (Hl2 : is_ws (last (x1 :: X'') 0) = false) by exact Hlast.
      destruct (IH Wf' (x1 :: X'') c f H1 ltac:(discriminate) Hl2 Hc) as [p1 [p2 [Ep HM1]]].
      exists (PLit a :: p1), p2. split; [rewrite Ep; reflexivity | constructor; assumption].
  - pose proof (wf_tail_cons _ _ Wf) as Wf'.
    apply app_eq_app in E as [l [[Ew Ev] | [EX Ev]]].
    + (* X is inside the whitespace run: impossible *)
      exfalso. rewrite Ew in Hws. rewrite forallb_app in Hws. apply andb_true_iff in Hws as [HX _].
      destruct (exists_last Hn) as [Y [e EY]]. rewrite EY in *. rewrite last_last in Hlast.
      rewrite forallb_app in HX. apply andb_true_iff in HX as [_ He]. cbn [forallb] in He. apply andb_true_iff in He as [He _].
      change (is_ws e) with (Units.is_ws e) in Hlast. congruence.
    + destruct l as [|l0 l'].
      * exfalso. rewrite app_nil_r in EX. subst X.
        destruct (exists_last Hn) as [Y [e EY]]. rewrite EY in *. rewrite last_last in Hlast.
        rewrite forallb_app in Hws. apply andb_true_iff in Hws as [_ He]. cbn [forallb] in He. apply andb_true_iff in He as [He _].
        change (is_ws e) with (Units.is_ws e) in Hlast. congruence.
      * assert (Hl2 : is_ws (last (l0 :: l') 0) = false) by (rewrite EX in Hlast; rewrite last_app_r in Hlast by discriminate; exact Hlast).
        destruct (IH Wf' (l0 :: l') c f Ev ltac:(discriminate) Hl2 Hc) as [p1 [p2 [Ep HM1]]].
        exists (PWs :: p1), p2. split; [rewrite Ep; reflexivity|]. rewrite EX. constructor; assumption.
Qed.

Lemma ws_prefixes_in p1 p2 : In p1 (ws_prefixes (p1 ++ PWs :: p2)).
Proof.
  induction p1 as [|[a|] p1 IH]; cbn [app ws_prefixes].
  - left. reflexivity.
  - apply in_map. exact IH.
  - right. apply in_map. exact IH.
Qed.

Lemma known_unit_local (X F : str) : X <> [] -> is_ws (last X 0) = false -> inertF F ->
  Units.known_unit (X ++ [44]) = None -> not_unit_prefix X = true -> Units.known_unit (X ++ F) = None.
Proof.
  intros Hn Hl HF Hprobe Hpre. destruct (Units.known_unit (X ++ F)) as [[m r]|] eqn:E; [|reflexivity]. exfalso.
  unfold Units.known_unit in E.
  destruct (UnitsScan.scan_alts_sound known_unit_boundary unit_regex_alts _ m r UnitsTable.table_boundary E) as [pa [Hpa [HM [Ex Hbd]]]].
  pose proof UnitsTable.table_scan_ok as Tok. pose proof Tok as Tok2. unfold UnitsScan.scan_table_ok in Tok2.
  apply andb_true_iff in Tok2 as [Twf _]. rewrite forallb_forall in Twf. specialize (Twf pa Hpa).
  destruct (UnitsScan.wf_alt_parts pa Twf) as [Hpne [Wf Hlast]].
  apply app_eq_app in Ex as [l [[EX Er] | [Em EF]]].
  - (* the match lies inside X: it would also be found on the probe *)
    assert (Hb : Units.word_boundary (Units.last_opt m) (hd_error (l ++ [44])) = true).
    { pose proof (word_end_local m l F [44] HF ltac:(reflexivity)) as W. unfold word_end_ok in W. rewrite <- W, <- Er. exact Hbd. }
    pose proof (UnitsScan.scan_alts_finds unit_regex_alts pa m (l ++ [44]) Tok Hpa HM Hb) as Fd.
    unfold Units.known_unit in Hprobe. rewrite UnitsTable.table_boundary in Hprobe. rewrite EX, <- app_assoc in Hprobe.
    rewrite Fd in Hprobe. discriminate Hprobe.
  - destruct l as [|c l'].
    + (* m = X exactly: same as above with l = [] *)
      rewrite app_nil_r in Em. subst m. cbn [app] in EF. subst r.
      assert (Hb : Units.word_boundary (Units.last_opt X) (hd_error ([] ++ [44])) = true).
      { pose proof (word_end_local X [] F [44] HF ltac:(reflexivity)) as W. unfold word_end_ok in W. cbn [app] in W. cbn [app]. rewrite <- W. exact Hbd. }
      pose proof (UnitsScan.scan_alts_finds unit_regex_alts pa X ([] ++ [44]) Tok Hpa HM Hb) as Fd.
      unfold Units.known_unit in Hprobe. rewrite UnitsTable.table_boundary in Hprobe. cbn [app] in Fd. rewrite Fd in Hprobe. discriminate Hprobe.
    + (* the match runs past X: its next character is whitespace, and X spells a unit prefix *)
      pose proof (Matches_chars pa m HM Wf) as Hch. rewrite Em in Hch. rewrite forallb_app in Hch.
      apply andb_true_iff in Hch as [_ Hch]. cbn [forallb] in Hch. apply andb_true_iff in Hch as [Hc _].
      assert (Hcw : is_ws c = true).
      { rewrite EF in HF. cbn [app inertF] in HF. rewrite HF in Hc. exact Hc. }
      destruct (Matches_split pa m HM Wf X c l' Em Hn Hl Hcw) as [p1 [p2 [Ep HM1]]].
      unfold not_unit_prefix in Hpre. rewrite forallb_forall in Hpre. specialize (Hpre pa Hpa).
      rewrite forallb_forall in Hpre. rewrite Ep in Hpre. specialize (Hpre p1 (ws_prefixes_in p1 p2)).
      apply negb_true_iff in Hpre. unfold matches_all in Hpre.
      pose proof (UnitsScan.match_pieces_complete p1 X HM1 []) as Hin. rewrite app_nil_r in Hin.
      assert (Hex : existsb (fun p => is_nil (snd p)) (Units.match_pieces known_unit_ci p1 X) = true).
      { apply existsb_exists. exists (X, []). split; [exact Hin | reflexivity]. }
      rewrite Hex in Hpre. discriminate Hpre.
Qed.

(** What follows a name's first segment / a whole name starts, after horizontal space, with no word character. *)
Lemma word_is_edge c : Units.is_word c = true -> naked_edge c = true.
Proof.
  intro H. unfold naked_edge. apply andb_true_iff. split; apply negb_true_iff.
  - destruct (naked_special c) eqn:E; [|reflexivity]. unfold naked_special in E. apply UnitsScan.memN_In in E.
    assert (T : forallb (fun x => negb (Units.is_word x)) [34; 39; 44; 58; 61; 47; 40; 41; 123; 125] = true) by (vm_compute; reflexivity).
    rewrite forallb_forall in T. specialize (T c E). rewrite H in T. discriminate T.
  - destruct (is_ws c) eqn:E; [|reflexivity]. unfold is_ws, Units.is_ws in E. apply UnitsScan.memN_In in E.
    assert (T : forallb (fun x => negb (Units.is_word x)) ws_chars = true) by (vm_compute; reflexivity).
    rewrite forallb_forall in T. specialize (T c E). rewrite H in T. discriminate T.
Qed.

Lemma name_followb_inert k : name_followb k = true -> inertF2 k.
Proof.
  intro H. apply name_followb_stops in H. unfold inertF2. destruct (snd (span is_hsp k)) as [|c t]; [exact I|].
  cbn [stops inertF] in *. destruct (Units.is_word c) eqn:E; [|reflexivity].
  unfold seg_start in H. rewrite (word_is_edge c E) in H. discriminate H.
Qed.

Lemma after_first_inert first more (k : str) : more_ok more = true -> adj_ok first more = true ->
  is_naked first = true -> name_followb k = true -> inertF2 (print_more more ++ k).
Proof.
  intros Hm Ha Hn Hk. destruct more as [|[w sg] more]; [exact (name_followb_inert k Hk)|].
  cbn [more_ok forallb fst snd] in Hm. apply andb_true_iff in Hm as [Hw _]. apply andb_true_iff in Hw as [Hw Hsg].
  cbn [adj_ok] in Ha. apply andb_true_iff in Ha as [Hadj _]. rewrite Hn in Hadj. cbn [andb] in Hadj. apply negb_true_iff in Hadj.
  destruct (print_seg_head sg Hsg) as [c [r [E [_ Hop]]]]. specialize (Hop Hadj).
  cbn [print_more]. rewrite E. repeat rewrite <- app_assoc. cbn [app]. unfold inertF2.
  rewrite (span_app is_hsp w (c :: _) Hw) by (destruct Hop as [->|[->| ->]]; reflexivity). cbn [snd inertF].
  destruct Hop as [->|[->| ->]]; vm_compute; reflexivity.
Qed.

(** ** References *)
Lemma p_number_stops (r : str) o b : stops is_digit r -> p_number (mkSt r o b) = None.
Proof.
  intro H. destruct r as [|c t]; [reflexivity|]. exact (p_number_none c t o b H).
Qed.

Lemma p_amount_name_fails nm (k : str) fuel o b :
  name_ok nm = true -> ref_name_ok nm = true -> name_followb k = true ->
  p_amount fuel (mkSt (print_name nm ++ k) o b) = Fail.
Proof.
  intros Hok Href Hk. destruct nm as [first more]. unfold name_ok in Hok. cbn [nm_first nm_more] in Hok.
  apply andb_true_iff in Hok as [Hok Hadj]. apply andb_true_iff in Hok as [Hf Hmore].
  unfold ref_name_ok in Href. cbn [nm_first] in Href.
  unfold print_name. cbn [nm_first nm_more].
  destruct first as [q ms x | bs | x]; cbn [print_seg seg_ok] in *.
  - assert (Hq : opener q) by (apply orb_true_iff in Hf as [H|H]; apply N.eqb_eq in H; subst; [left | right; left]; reflexivity).
    unfold print_quoted. cbn [app].
    unfold p_amount, p_proportion. cbn [rest].
    rewrite (sc_remainder_inert q _ (opener_inert q Hq)), (p_number_none q _ o b (opener_not_digit q Hq)).
    unfold p_explicit. rewrite (eat_miss 123 q _ o b) by (destruct Hq as [->|[->| ->]]; [discriminate | discriminate | ]; apply orb_true_iff in Hf as [H|H]; discriminate H).
    unfold p_implicit. rewrite (p_number_none q _ o b (opener_not_digit q Hq)). reflexivity.
  - unfold print_braced. cbn [app].
    unfold p_amount, p_proportion. cbn [rest].
    rewrite (sc_remainder_inert 123 _ eq_refl), (p_number_none 123 _ o b eq_refl).
    unfold p_explicit. rewrite (eat_hit 123 _ o b).
    repeat rewrite <- app_assoc. cbn [app].
    rewrite (span_head_ext is_hsp (print_bparts bs) 125 (print_more more ++ k) eq_refl) in Href.
    unfold skip_hsp, opt_hsp. cbn [rest].
    destruct (span is_hsp (print_bparts bs ++ 125 :: print_more more ++ k)) as [w' r0] eqn:Es. cbn [snd] in Href.
    unfold adv. cbn [off bad]. rewrite (p_number_stops r0 _ b (stopsb_stops _ _ Href)).
    unfold p_implicit. rewrite (p_number_none 123 _ o b eq_refl). reflexivity.
  - (* naked first chunk: no number, no remainder word *)
    apply andb_true_iff in Href as [Hd Hrem].
    destruct (naked_textb_text x Hf) as [c0 [A' [Ex [He [_ Hl]]]]].
    assert (Hd0 : is_digit c0 = false) by (rewrite Ex in Hd; apply negb_true_iff in Hd; exact Hd).
    assert (Hr : sc_remainder (x ++ print_more more ++ k) = None).
    { apply sc_remainder_local; [rewrite Ex; discriminate | exact Hl | exact (after_first_inert (SN x) more k Hmore Hadj eq_refl Hk) |].
      destruct (sc_remainder (x ++ [44])); [discriminate Hrem | reflexivity]. }
    rewrite <- app_assoc. unfold p_amount, p_proportion. cbn [rest]. rewrite Hr. rewrite Ex. cbn [app].
    rewrite (p_number_none c0 _ o b Hd0).
    assert (H123 : c0 <> 123) by (intro; subst c0; discriminate He).
    unfold p_explicit. rewrite (eat_miss 123 c0 _ o b H123).
    unfold p_implicit. rewrite (p_number_none c0 _ o b Hd0). reflexivity.
Qed.

(** The text after an amount, when the name starts with a naked chunk. *)
Lemma edge_mid c : naked_edge c = true -> naked_mid c = true.
Proof.
  unfold naked_edge, naked_mid. intro H. apply andb_true_iff in H as [Hs Hw]. rewrite Hs. cbn [andb].
  apply negb_true_iff in Hw. destruct (c =? 10) eqn:E1; [apply N.eqb_eq in E1; subst c; discriminate Hw|].
  destruct (c =? 13) eqn:E2; [apply N.eqb_eq in E2; subst c; discriminate Hw | reflexivity].
Qed.

Lemma naked_fol am (w X F : str) : naked_textb X = true -> naked_after_amt_ok am w X = true -> inertF2 F ->
  forallb is_hsp w = true ->
  exists c X', X = c :: X' /\ fol w c (X' ++ F) /\ (needs_bnd am = true -> UnitsRef.boundary_after (w ++ c :: X' ++ F)).
Proof.
  intros Hx Hok HF2 Hw. destruct (naked_textb_text X Hx) as [c [X' [EX [He [_ Hl]]]]]. subst X.
  exists c, X'. split; [reflexivity|]. pose proof (inertF2_inertF F HF2) as HF.
  cbn [naked_after_amt_ok] in Hok.
  apply andb_true_iff in Hok as [Hok Hb]. apply andb_true_iff in Hok as [Hok Hpre]. apply andb_true_iff in Hok as [Hok Hu].
  apply andb_true_iff in Hok as [Hok Hthe]. apply andb_true_iff in Hok as [Hok Hp]. apply andb_true_iff in Hok as [Hok H42].
  apply andb_true_iff in Hok as [Hok H37]. apply andb_true_iff in Hok as [Hd H46].
  apply negb_true_iff in Hd, H46, H37, H42. apply N.eqb_neq in H46, H37, H42.
  assert (Hne : c :: X' <> []) by discriminate.
  split.
  - constructor.
    + destruct (is_hsp c) eqn:E; [|reflexivity]. unfold naked_edge in He. rewrite (hsp_is_ws c E), andb_false_r in He. discriminate He.
    + exact Hd.
    + exact H46.
    + intro E. subst c. discriminate He.
    + exact H37.
    + exact H42.
    + change (c :: X' ++ F) with ((c :: X') ++ F). apply preposition_local; [exact Hne | exact Hl | exact HF2 |].
      destruct (Units.preposition ((c :: X') ++ [44])); [discriminate Hp | reflexivity].
    + change (c :: X' ++ F) with ((c :: X') ++ F). destruct kw_words as [_ [_ [_ [_ [_ [_ Wthe]]]]]].
      apply (wb_transfer _ (c :: X') F [44] Wthe HF ltac:(reflexivity)).
      unfold the_probe in Hthe. destruct (with_boundary (Units.match_ci_lit [116; 104; 101] ((c :: X') ++ [44]))); [discriminate Hthe | reflexivity].
    + change (c :: X' ++ F) with ((c :: X') ++ F). apply known_unit_local; [exact Hne | exact Hl | exact HF | | exact Hpre].
      destruct (Units.known_unit ((c :: X') ++ [44])); [discriminate Hu | reflexivity].
  - intro Hnb. rewrite Hnb in Hb. cbn [negb orb] in Hb. destruct w as [|h w'].
    + cbn [is_nil negb orb app] in *. apply negb_true_iff in Hb. exact Hb.
    + apply boundary_hsp_then; [exact Hw | discriminate].
Qed.

Lemma name_fol am (w : str) nm (k : str) : name_ok nm = true -> after_amt_ok am w nm = true -> name_followb k = true ->
  forallb is_hsp w = true ->
  exists c R, print_name nm ++ k = c :: R /\ fol w c R /\ (needs_bnd am = true -> UnitsRef.boundary_after (w ++ c :: R)).
Proof.
  intros Hn Haft Hk Hw. destruct nm as [first more]. unfold name_ok in Hn. cbn [nm_first nm_more] in Hn.
  apply andb_true_iff in Hn as [Hn Hadj]. apply andb_true_iff in Hn as [Hf Hm].
  unfold after_amt_ok in Haft. cbn [nm_first] in Haft. unfold print_name. cbn [nm_first nm_more].
  destruct first as [q ms x | bs | X].
  - destruct (print_seg_head (SQ q ms x) Hf) as [c [r [E [_ Hop]]]]. specialize (Hop eq_refl). rewrite E.
    exists c, ((r ++ print_more more) ++ k). split; [reflexivity|]. split; [exact (opener_fol w c _ Hop) | intros _; exact (boundary_hsp_opener w c _ Hw Hop)].
  - destruct (print_seg_head (SB bs) Hf) as [c [r [E [_ Hop]]]]. specialize (Hop eq_refl). rewrite E.
    exists c, ((r ++ print_more more) ++ k). split; [reflexivity|]. split; [exact (opener_fol w c _ Hop) | intros _; exact (boundary_hsp_opener w c _ Hw Hop)].
  - cbn [seg_ok] in Hf. cbn [print_seg].
    destruct (naked_fol am w X (print_more more ++ k) Hf Haft (after_first_inert (SN X) more k Hm Hadj eq_refl Hk) Hw) as [c [X' [EX [Fo Hb]]]].
    exists c, (X' ++ print_more more ++ k). split; [rewrite EX, <- app_assoc; reflexivity | split; assumption].
Qed.

Definition ref_val (a : option (amt * str)) (nm : name) (o : N) : aexpr :=
  match a with
  | None => ARef (name_val nm) None (name_off nm o)
  | Some (am, _) => ARef (name_val nm) (Some (amt_val am)) o
  end.

Theorem reference_roundtrip a nm (k : str) fuel o b :
  expr_ok (XRef a nm) = true -> name_followb k = true -> (name_cost nm + ref_amt_cost a <= fuel)%nat ->
  p_reference fuel (mkSt (print_expr (XRef a nm) ++ k) o b) =
  Got (value_expr (XRef a nm) o) (mkSt k (o + len (print_expr (XRef a nm))) b).
Proof.
  intros Hok Hk Hc0. assert (Hc : (name_cost nm <= fuel)%nat) by (generalize dependent (name_cost nm); intros; lia).
  destruct a as [[am w]|]; cbn [expr_ok print_expr value_expr ref_amt_cost] in *.
  - apply andb_true_iff in Hok as [Hok Haft]. apply andb_true_iff in Hok as [Hok Hn]. apply andb_true_iff in Hok as [Ha Hw].
    destruct (name_fol am w nm k Hn Haft Hk Hw) as [c [R [E [Fo Hb]]]].
    unfold p_reference. repeat rewrite <- app_assoc.
    assert (Ea : p_amount fuel (mkSt (print_amt am ++ w ++ print_name nm ++ k) o b) =
                 Got (amt_val am) (mkSt (w ++ print_name nm ++ k) (o + len (print_amt am)) b)).
    { rewrite E. apply (amount_roundtrip am w c R o b fuel Ha Hw Fo Hb); [unfold name_cost in Hc; lia | generalize dependent (name_cost nm); generalize dependent (amt_cost am); intros; lia]. }
    rewrite Ea.
    assert (Hstop : stops is_hsp (print_name nm ++ k)) by (rewrite E; exact (f_hsp _ _ _ Fo)).
    rewrite (skip_hsp_run w _ _ b Hw Hstop).
    rewrite (name_roundtrip nm fuel k _ b Hn Hk Hc). cbn [off].
    f_equal. f_equal. rewrite !len_app. lia.
  - apply andb_true_iff in Hok as [Hn Href]. cbn [app].
    unfold p_reference. rewrite (p_amount_name_fails nm k fuel o b Hn Href Hk).
    rewrite (name_roundtrip nm fuel k o b Hn Hk Hc). reflexivity.
Qed.

(** ** A step is tried first: on a reference it fails *)

(** Characters of a number / amount text. *)
Definition amt_char (c : N) : bool := is_digit c || is_hsp c || (c =? 46) || (c =? 42) || (c =? 37).

Lemma amt_char_mid c : amt_char c = true -> naked_mid c = true.
Proof.
  unfold amt_char. intro H.
  apply orb_true_iff in H as [H|H]; [|apply N.eqb_eq in H; subst; reflexivity].
  apply orb_true_iff in H as [H|H]; [|apply N.eqb_eq in H; subst; reflexivity].
  apply orb_true_iff in H as [H|H]; [|apply N.eqb_eq in H; subst; reflexivity].
  apply orb_true_iff in H as [H|H]; [|exact (hsp_naked_mid c H)].
  destruct (digit_cases c H) as [->|[->|[->|[->|[->|[->|[->|[->|[->| ->]]]]]]]]]; reflexivity.
Qed.

Lemma digit_edge c : is_digit c = true -> naked_edge c = true.
Proof. intro H. destruct (digit_cases c H) as [->|[->|[->|[->|[->|[->|[->|[->|[->| ->]]]]]]]]]; reflexivity. Qed.

Lemma digit_not_ws c : is_digit c = true -> is_ws c = false.
Proof. intro H. destruct (digit_cases c H) as [->|[->|[->|[->|[->|[->|[->|[->|[->| ->]]]]]]]]]; reflexivity. Qed.

Lemma forallb_impl {A} (p q : A -> bool) l : (forall x, p x = true -> q x = true) -> forallb p l = true -> forallb q l = true.
Proof.
  intros Hpq. induction l as [|x l IH]; [reflexivity|]. cbn [forallb]. intro H. apply andb_true_iff in H as [Hx Hl].
  rewrite (Hpq x Hx), (IH Hl). reflexivity.
Qed.

Lemma naked_text_of (A : str) : A <> [] -> forallb amt_char A = true -> is_digit (hd 0 A) = true ->
  is_ws (last A 0) = false -> naked_text A.
Proof.
  intros Hn Hall Hh Hl. destruct A as [|c0 A']; [contradiction|]. exists c0, A'. cbn [hd] in Hh.
  cbn [forallb] in Hall. apply andb_true_iff in Hall as [_ Hall].
  repeat split; [exact (digit_edge c0 Hh) | exact (forallb_impl _ _ _ amt_char_mid Hall) | exact Hl].
Qed.

Lemma digits_amt_char (d : str) : forallb is_digit d = true -> forallb amt_char d = true.
Proof. apply forallb_impl. intros x H. unfold amt_char. rewrite H. reflexivity. Qed.
Lemma hsp_amt_char (w : str) : forallb is_hsp w = true -> forallb amt_char w = true.
Proof. apply forallb_impl. intros x H. unfold amt_char. rewrite H, orb_true_r. reflexivity. Qed.

Lemma last_digits (d : str) : d <> [] -> forallb is_digit d = true -> is_digit (last d 0) = true.
Proof.
  intros Hn Hd. destruct (exists_last Hn) as [Y [e ->]]. rewrite last_last.
  rewrite forallb_app in Hd. apply andb_true_iff in Hd as [_ He]. cbn [forallb] in He.
  apply andb_true_iff in He as [He _]. exact He.
Qed.

Lemma last_app_nonempty {A} (x y : list A) d : y <> [] -> last (x ++ y) d = last y d.
Proof.
  intro Hy. induction x as [|a x IH]; [reflexivity|]. cbn [app]. destruct (x ++ y) eqn:E.
  - apply app_eq_nil in E as [_ E]. contradiction.
  - cbn [last]. exact IH.
Qed.

Lemma hd_app_nonempty' {A} (x y : list A) d : x <> [] -> hd d (x ++ y) = hd d x.
Proof. destruct x; [contradiction | reflexivity]. Qed.

(** The part of a number text a naked string would swallow: all of it, or -
    for a fraction - what precedes the "/" (then horizontal space [w'], "/"). *)
Inductive num_shape (T : str) (cst : nat) : Prop :=
| ShapeWhole : naked_text T -> forallb amt_char T = true -> num_shape T cst
| ShapeWhole2 : naked_text T -> num_shape T cst
| ShapeBraced (bs : list bpart) (TT : str) : T = print_braced bs ++ TT -> bparts_ok bs = true ->
    S (seg_cost (SB bs)) = cst ->
    (TT = [] \/ exists wp Q : str, TT = wp ++ Q /\ forallb is_hsp wp = true /\ naked_text Q) -> num_shape T cst
| ShapeSlash (Y w' R : str) : T = Y ++ w' ++ 47 :: R -> naked_text Y -> forallb is_hsp w' = true -> num_shape T cst.

Lemma zs_dec_digit_text k n : naked_text (zs k ++ dec_N n) /\ forallb amt_char (zs k ++ dec_N n) = true.
Proof.
  pose proof (digits_zs_dec k n) as Hd. pose proof (zs_dec_nonempty k n) as Hn. split.
  - apply naked_text_of; [exact Hn | exact (digits_amt_char _ Hd) | |].
    + destruct (zs k ++ dec_N n) as [|c t] eqn:E; [contradiction|]. cbn [hd]. cbn [forallb] in Hd.
      apply andb_true_iff in Hd as [Hc _]. exact Hc.
    + apply digit_not_ws, last_digits; assumption.
  - exact (digits_amt_char _ Hd).
Qed.

Lemma ntext_shape t : ntext_ok t = true -> num_shape (ntext_str t) O.
Proof.
  intro Hok. destruct t as [z n | i f | zn n w2 zd d | zi i wi zn n w1 w2 zd d]; cbn [ntext_str ntext_ok] in *.
  - destruct (zs_dec_digit_text z n) as [A B]. exact (ShapeWhole _ _ A B).
  - apply andb_true_iff in Hok as [Hok _]. apply andb_true_iff in Hok as [Hok Hf].
    apply andb_true_iff in Hok as [Hi Hin].
    assert (Hne : i <> []) by (destruct i; [discriminate|discriminate]).
    assert (Hall : forallb amt_char (i ++ 46 :: f) = true).
    { rewrite forallb_app, (digits_amt_char i Hi). cbn [forallb]. rewrite (digits_amt_char f Hf). reflexivity. }
    apply ShapeWhole; [|exact Hall]. apply naked_text_of; [destruct i; discriminate | exact Hall | |].
    + rewrite hd_app_nonempty' by exact Hne. destruct i as [|c i']; [contradiction|]. cbn [hd forallb] in *.
      apply andb_true_iff in Hi as [Hc _]. exact Hc.
    + rewrite last_app_nonempty by discriminate. destruct f as [|c f'].
      * reflexivity.
      * change (46 :: c :: f') with ([46] ++ c :: f'). rewrite last_app_nonempty by discriminate.
        apply digit_not_ws, last_digits; [discriminate | exact Hf].
  - destruct (zs_dec_digit_text zn n) as [A _].
    apply (ShapeSlash _ _ (zs zn ++ dec_N n) [] (w2 ++ zs zd ++ dec_pos d)); [| exact A | reflexivity].
    rewrite <- app_assoc. reflexivity.
  - repeat (apply andb_true_iff in Hok as [Hok ?H]).
    apply (ShapeSlash _ _ (zs zi ++ dec_N i ++ wi ++ zs zn ++ dec_N n) w1 (w2 ++ zs zd ++ dec_pos d)).
    + repeat rewrite <- app_assoc. reflexivity.
    + assert (Hall : forallb amt_char (zs zi ++ dec_N i ++ wi ++ zs zn ++ dec_N n) = true).
      { rewrite app_assoc, forallb_app, (digits_amt_char _ (digits_zs_dec zi i)).
        rewrite forallb_app, (hsp_amt_char wi Hok), (digits_amt_char _ (digits_zs_dec zn n)). reflexivity. }
      apply naked_text_of; [ | exact Hall | | ].
      * intro E. apply app_eq_nil in E as [_ E]. apply app_eq_nil in E as [E _]. exact (dec_N_nonempty i E).
      * rewrite app_assoc, hd_app_nonempty' by apply zs_dec_nonempty.
        pose proof (digits_zs_dec zi i) as Hd. destruct (zs zi ++ dec_N i) as [|c t] eqn:E; [exact (False_ind _ (zs_dec_nonempty zi i E))|].
        cbn [hd forallb] in *. apply andb_true_iff in Hd as [Hc _]. exact Hc.
      * rewrite app_assoc, app_assoc, last_app_nonempty by apply zs_dec_nonempty.
        apply digit_not_ws, last_digits; [apply zs_dec_nonempty | apply digits_zs_dec].
    + exact H3.
Qed.

Lemma naked_text_app (A T : str) : naked_text A -> tail_text_ok T = true -> naked_text (A ++ T).
Proof.
  intros [c0 [A' [-> [He [Hm Hl]]]]] HT. unfold tail_text_ok in HT. apply andb_true_iff in HT as [Hmid Hlast].
  exists c0, (A' ++ T). repeat split.
  - exact He.
  - rewrite forallb_app, Hm, Hmid. reflexivity.
  - destruct T as [|t0 T'].
    + rewrite app_nil_r. exact Hl.
    + cbn [is_nil orb] in Hlast. apply negb_true_iff in Hlast.
      change (c0 :: A' ++ t0 :: T') with ((c0 :: A') ++ t0 :: T'). rewrite last_app_nonempty by discriminate. exact Hlast.
Qed.

Lemma ntext_not_braced t bs (TT : str) : ntext_ok t = true -> ntext_str t = print_braced bs ++ TT -> False.
Proof.
  intros Ht E. destruct (ntext_head t Ht) as [c [r [Eh Hc]]]. rewrite Eh in E. unfold print_braced in E.
  cbn [app] in E. inversion E; subst. discriminate Hc.
Qed.

Lemma o_class_edge c : Units.lit_match_with true 111 c = true -> naked_edge c = true.
Proof.
  intro H. unfold Units.lit_match_with in H. apply UnitsScan.memN_In in H.
  assert (T : forallb naked_edge (Units.ci_class 111) = true) by (vm_compute; reflexivity).
  rewrite forallb_forall in T. exact (T c H).
Qed.

Lemma amt_shape am : amt_ok am = true -> num_shape (print_amt am) (amt_cost am).
Proof.
  intro Hok. destruct (amt_ok_parts am Hok) as [Hn HT]. unfold print_amt.
  assert (G : forall t, amt_lead am = ntext_str t -> ntext_ok t = true -> num_shape (amt_lead am ++ amt_tail am) (amt_cost am)).
  { intros t E Ht. rewrite E. destruct (ntext_shape t Ht) as [A B | A | bs TT E' _ _ _ | Y w' R E' HY Hw']; [ | | exfalso | ].
    - exact (ShapeWhole2 _ _ (naked_text_app _ _ A HT)).
    - exact (ShapeWhole2 _ _ (naked_text_app _ _ A HT)).
    - exact (ntext_not_braced t bs TT Ht E').
    - apply (ShapeSlash _ _ Y w' (R ++ amt_tail am)); [|exact HY|exact Hw']. rewrite E'. repeat rewrite <- app_assoc. reflexivity. }
  destruct am as [rw p | t | t sp n v p | t w0 pw | t w0 p | t w0 | t w0 u w1 p]; cbn [lead_ok amt_lead amt_num] in *;
    try (exact (G _ eq_refl Hn)).
  - apply andb_true_iff in Hn as [_ Hn]. exact (ShapeWhole2 _ _ (naked_text_app _ _ (naked_textb_text _ Hn) HT)).
  - (* explicit quantity: a brace group, then the optional preposition *)
    apply andb_true_iff in Hn as [Hn Hbp]. apply andb_true_iff in Hn as [Hn Hu].
    apply andb_true_iff in Hn as [Hn Hw1]. apply andb_true_iff in Hn as [Ht Hw0].
    apply (ShapeBraced _ _ (explicit_bparts t w0 u w1) (oprep_str p)); [ | exact Hbp | reflexivity | ].
    + unfold print_braced. rewrite (explicit_print t w0 u w1 Hw0 Hw1 Hu). cbn [amt_tail]. norm_app. reflexivity.
    + cbn [amt_tail] in HT. unfold amt_ok in Hok. apply andb_true_iff in Hok as [_ Hp]. cbn in Hp.
      destruct p as [[w' pw]|]; [right | left; reflexivity]. cbn [oprep_ok oprep_str] in *.
      apply andb_true_iff in Hp as [Hp Hpw]. apply andb_true_iff in Hp as [Hw' _].
      exists w', (pword_str pw). split; [reflexivity|]. split; [exact Hw'|].
      unfold tail_text_ok in HT. apply andb_true_iff in HT as [Hmid Hlast].
      rewrite forallb_app in Hmid. apply andb_true_iff in Hmid as [_ Hmid].
      assert (Ho : exists c0 A', pword_str pw = c0 :: A' /\ naked_edge c0 = true).
      { destruct pw as [o | o w2 th]; cbn [pword_ok pword_str] in *.
        - pose proof (ci_wordb_word _ _ Hpw) as W. inversion W as [|a c' w'' m' Hac _]; subst.
          exists c', m'. split; [reflexivity | exact (o_class_edge c' Hac)].
        - do 3 (apply andb_true_iff in Hpw as [Hpw _]). pose proof (ci_wordb_word _ _ Hpw) as W.
          inversion W as [|a c' w'' m' Hac _]; subst. exists c', (m' ++ w2 ++ th). split; [reflexivity | exact (o_class_edge c' Hac)]. }
      destruct Ho as [c0 [A' [E He]]]. exists c0, A'. rewrite E in *. cbn [forallb] in Hmid.
      apply andb_true_iff in Hmid as [_ Hmid]. repeat split; [exact He | exact Hmid |].
      destruct (w' ++ c0 :: A') as [|z Z] eqn:EZ; [destruct w'; discriminate EZ|].
      cbn [is_nil orb] in Hlast. apply negb_true_iff in Hlast. rewrite <- EZ in Hlast.
      rewrite last_app_nonempty in Hlast by discriminate. exact Hlast.
Qed.

(** Where a NAME tried on a reference text stops: at the end of the whole
    reference, or before the "/" of a fraction. *)
Lemma naked_text_textb (A : str) : naked_text A -> naked_textb A = true.
Proof.
  intros [c0 [A' [-> [He [Hm Hl]]]]]. unfold naked_textb. rewrite He, Hm, Hl. reflexivity.
Qed.

(** The text of an amount followed by a name, read as ONE name: the naked
    amount text is its first segment. *)
Lemma p_name_glued (first' : seg) (more' : list (str * seg)) (T : str) fuel (k : str) o b :
  T = print_seg first' ++ print_more more' ->
  seg_ok first' = true -> more_ok more' = true -> adj_ok first' more' = true -> name_followb k = true ->
  (name_cost (mkName first' more') <= fuel)%nat ->
  exists v, p_name fuel (mkSt (T ++ k) o b) = Got v (mkSt k (o + len T) b).
Proof.
  intros ET Hf Hm Ha Hk Hc. eexists. unfold p_name. rewrite ET, <- app_assoc.
  rewrite (p_string_name more' first' fuel true k o b Hf Hm Ha Hk (or_introl eq_refl) Hc). reflexivity.
Qed.

(** Naked amount text, horizontal space, name: ONE name.  When the name itself
    starts with a naked chunk, amount text, space and chunk are one naked chunk. *)
Definition glue (A w : str) (first : seg) (more : list (str * seg)) : seg * list (str * seg) :=
  match first with SN X => (SN (A ++ w ++ X), more) | _ => (SN A, (w, first) :: more) end.

Lemma naked_text_join (A w X : str) : naked_text A -> forallb is_hsp w = true -> naked_text X -> naked_text (A ++ w ++ X).
Proof.
  intros [c0 [A' [-> [He [Hm Hl]]]]] Hw [c1 [X' [-> [He1 [Hm1 Hl1]]]]].
  exists c0, (A' ++ w ++ c1 :: X'). repeat split; [exact He | |].
  - rewrite forallb_app, Hm, forallb_app, (forallb_impl _ _ _ hsp_naked_mid Hw). cbn [forallb]. rewrite (edge_mid c1 He1), Hm1. reflexivity.
  - change (c0 :: A' ++ w ++ c1 :: X') with ((c0 :: A') ++ w ++ c1 :: X'). rewrite app_assoc, last_app_r by discriminate. exact Hl1.
Qed.

Lemma glue_ok (A w : str) first more : naked_text A -> forallb is_hsp w = true ->
  seg_ok first = true -> more_ok more = true -> adj_ok first more = true ->
  A ++ w ++ print_seg first ++ print_more more = print_seg (fst (glue A w first more)) ++ print_more (snd (glue A w first more))
  /\ seg_ok (fst (glue A w first more)) = true /\ more_ok (snd (glue A w first more)) = true
  /\ adj_ok (fst (glue A w first more)) (snd (glue A w first more)) = true
  /\ is_naked (fst (glue A w first more)) = true
  /\ (name_cost (mkName (fst (glue A w first more)) (snd (glue A w first more))) <= S (name_cost (mkName first more)))%nat.
Proof.
  intros HA Hw Hf Hm Hadj. unfold glue. destruct first as [q ms x | bs | X]; cbn [fst snd].
  - split; [|split; [|split; [|split; [|split]]]].
    + cbn [print_seg print_more]. reflexivity.
    + exact (naked_text_textb A HA).
    + cbn [more_ok forallb fst snd]. unfold hsp_run. rewrite Hw, Hf. exact Hm.
    + cbn [adj_ok is_naked andb negb]. exact Hadj.
    + reflexivity.
    + unfold name_cost. cbn [nm_first nm_more fold_right snd seg_cost]. lia.
  - split; [|split; [|split; [|split; [|split]]]].
    + cbn [print_seg print_more]. reflexivity.
    + exact (naked_text_textb A HA).
    + cbn [more_ok forallb fst snd]. unfold hsp_run. rewrite Hw, Hf. exact Hm.
    + cbn [adj_ok is_naked andb negb]. exact Hadj.
    + reflexivity.
    + unfold name_cost. cbn [nm_first nm_more fold_right snd seg_cost]. lia.
  - cbn [seg_ok] in Hf. split; [|split; [|split; [|split; [|split]]]].
    + cbn [print_seg]. repeat rewrite <- app_assoc. reflexivity.
    + cbn [seg_ok]. exact (naked_text_textb _ (naked_text_join A w X HA Hw (naked_textb_text X Hf))).
    + exact Hm.
    + destruct more as [|[w1 sg] more']; [reflexivity|]. cbn [adj_ok is_naked] in *. exact Hadj.
    + reflexivity.
    + unfold name_cost. cbn [nm_first nm_more seg_cost]. lia.
Qed.

Lemma p_name_on_reference a nm (k : str) fuel o b :
  expr_ok (XRef a nm) = true -> name_followb k = true -> (S (name_cost nm + ref_amt_cost a) <= fuel)%nat ->
  exists v, p_name fuel (mkSt (print_expr (XRef a nm) ++ k) o b) = Got v (mkSt k (o + len (print_expr (XRef a nm))) b)
  \/ exists (w' R : str) o', forallb is_hsp w' = true /\
       p_name fuel (mkSt (print_expr (XRef a nm) ++ k) o b) = Got v (mkSt (w' ++ 47 :: R) o' b).
Proof.
  intros Hok Hk Hc. destruct a as [[am w]|]; cbn [expr_ok print_expr ref_amt_cost] in *.
  - apply andb_true_iff in Hok as [Hok Haft]. apply andb_true_iff in Hok as [Hok Hn]. apply andb_true_iff in Hok as [Ha Hw].
    destruct nm as [first more]. pose proof Hn as Hn0. unfold name_ok in Hn. cbn [nm_first nm_more] in Hn.
    apply andb_true_iff in Hn as [Hn Hadj]. apply andb_true_iff in Hn as [Hf Hm].
    set (NC := name_cost (mkName first more)) in *.
    destruct (amt_shape am Ha) as [A B | A | bs TT E Hbs Hcst HTT | Y w' R E HY Hw'].
    + destruct (glue_ok (print_amt am) w first more A Hw Hf Hm Hadj) as [G1 [G2 [G3 [G4 [_ G6]]]]].
      assert (ET : (print_amt am ++ w) ++ print_name (mkName first more)
                   = print_seg (fst (glue (print_amt am) w first more)) ++ print_more (snd (glue (print_amt am) w first more))).
      { unfold print_name. cbn [nm_first nm_more]. rewrite <- G1. repeat rewrite <- app_assoc. reflexivity. }
      assert (HC : (name_cost (mkName (fst (glue (print_amt am) w first more)) (snd (glue (print_amt am) w first more))) <= fuel)%nat)
        by (fold NC in G6; lia).
      destruct (p_name_glued _ _ _ fuel k o b ET G2 G3 G4 Hk HC) as [v Hv].
      exists v. left. exact Hv.
    + destruct (glue_ok (print_amt am) w first more A Hw Hf Hm Hadj) as [G1 [G2 [G3 [G4 [_ G6]]]]].
      assert (ET : (print_amt am ++ w) ++ print_name (mkName first more)
                   = print_seg (fst (glue (print_amt am) w first more)) ++ print_more (snd (glue (print_amt am) w first more))).
      { unfold print_name. cbn [nm_first nm_more]. rewrite <- G1. repeat rewrite <- app_assoc. reflexivity. }
      assert (HC : (name_cost (mkName (fst (glue (print_amt am) w first more)) (snd (glue (print_amt am) w first more))) <= fuel)%nat)
        by (fold NC in G6; lia).
      destruct (p_name_glued _ _ _ fuel k o b ET G2 G3 G4 Hk HC) as [v Hv].
      exists v. left. exact Hv.
    + (* explicit quantity: a brace group, the optional preposition as a naked chunk, then the name *)
      rewrite <- Hcst in Hc.
      destruct HTT as [-> | [wp [Q [-> [Hwp HQ]]]]].
      * destruct (p_name_glued (SB bs) ((w, first) :: more) ((print_amt am ++ w) ++ print_name (mkName first more)) fuel k o b) as [v Hv].
        -- rewrite E. unfold print_name. cbn [print_seg print_more nm_first nm_more]. repeat rewrite <- app_assoc. reflexivity.
        -- exact Hbs.
        -- cbn [more_ok forallb fst snd]. unfold hsp_run in *. rewrite Hw, Hf. exact Hm.
        -- cbn [adj_ok is_naked andb negb]. exact Hadj.
        -- exact Hk.
        -- unfold NC, name_cost in *. cbn [nm_first nm_more fold_right snd] in *. lia.
        -- exists v. left. exact Hv.
      * destruct (glue_ok Q w first more HQ Hw Hf Hm Hadj) as [G1 [G2 [G3 [G4 [G5 G6]]]]].
        destruct (p_name_glued (SB bs) ((wp, fst (glue Q w first more)) :: snd (glue Q w first more))
                    ((print_amt am ++ w) ++ print_name (mkName first more)) fuel k o b) as [v Hv].
        -- rewrite E. unfold print_name. cbn [print_seg print_more nm_first nm_more]. rewrite <- G1. repeat rewrite <- app_assoc. reflexivity.
        -- exact Hbs.
        -- cbn [more_ok forallb fst snd]. unfold hsp_run in *. rewrite Hwp, G2. exact G3.
        -- cbn [adj_ok is_naked andb negb]. exact G4.
        -- exact Hk.
        -- fold NC in G6. unfold name_cost in *. cbn [nm_first nm_more fold_right snd] in *. lia.
        -- exists v. left. exact Hv.
    + eexists. right. exists w', (R ++ w ++ print_name (mkName first more) ++ k). eexists. split; [exact Hw'|].
      unfold p_name. rewrite E. repeat rewrite <- app_assoc. cbn [app].
      rewrite (p_string_naked_stop Y w' 47 fuel _ o b HY Hw' eq_refl eq_refl) by (unfold NC, name_cost in Hc; lia). reflexivity.
  - apply andb_true_iff in Hok as [Hn _]. eexists. left. cbn [app].
    rewrite (name_roundtrip nm fuel k o b Hn Hk) by lia. reflexivity.
Qed.

Lemma not_open_after_hsp (k : str) o b : expr_followb k = true -> eat 40 (snd (skip_hsp (mkSt k o b))) = None.
Proof.
  unfold expr_followb, skip_hsp, opt_hsp. cbn [rest]. intro H. apply andb_true_iff in H as [H _]. revert H.
  destruct (span is_hsp k) as [w r]. cbn [snd].
  destruct r as [|c t]; [reflexivity|]. cbn [stopsb]. intro H. apply negb_true_iff in H.
  apply orb_false_iff in H as [_ H]. apply N.eqb_neq in H. unfold adv. apply eat_miss. exact H.
Qed.

Lemma p_step_fails_on_reference E a nm (k : str) fuel o b :
  expr_ok (XRef a nm) = true -> expr_followb k = true -> (S (name_cost nm + ref_amt_cost a) <= fuel)%nat ->
  p_step E fuel (mkSt (print_expr (XRef a nm) ++ k) o b) = Fail.
Proof.
  intros Hok Hk Hc.
  destruct (p_name_on_reference a nm k fuel o b Hok (expr_followb_name k Hk) Hc) as [[v1 v2] [H | [w' [R [o' [Hw' H]]]]]];
    unfold p_step; rewrite H.
  - pose proof (not_open_after_hsp k (o + len (print_expr (XRef a nm))) b Hk) as N0.
    destruct (skip_hsp (mkSt k (o + len (print_expr (XRef a nm))) b)) as [w0 s2]. cbn [snd] in N0. rewrite N0. reflexivity.
  - rewrite (skip_hsp_run w' (47 :: R) o' b Hw' eq_refl). rewrite eat_miss by discriminate. reflexivity.
Qed.
