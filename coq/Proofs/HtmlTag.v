(** * C10: [t tag body attrs] is a good fragment whose skeleton is the start
    tag with the attribute names, the skeleton of the body, the end tag -
    whatever the attribute values and the text of the body are. *)
From Coq Require Import List NArith Bool Lia String.
From RG Require Import Base.Str Gen.GenUnits Model.Units Model.Html Model.HtmlTok
  Proofs.HtmlEscape Proofs.HtmlSim Proofs.HtmlIndent.
Import ListNotations.
Open Scope N_scope.

Definition name_char (c : N) : bool := is_lower c || (c =? 45).
Definition tag_ok (tag : str) : Prop := tag <> [] /\ forallb is_lower tag = true.
Definition aname_ok (n : str) : Prop := n <> [] /\ forallb name_char n = true.
Definition no_lb (h : str) : bool := forallb (fun c => negb (is_linebreak c)) h.
(** attribute values: no line-break character and no U+0000 *)
Definition val_ok (v : str) : Prop := forallb (fun c => negb (is_linebreak c) && negb (c =? 0)) v = true.

Lemma no_lb_app a b : no_lb (a ++ b) = no_lb a && no_lb b.
Proof. apply forallb_app. Qed.

Lemma is_lower_facts c : is_lower c = true ->
  tok_lower c = c /\ is_alpha c = true /\ tok_ws c = false /\ c <> 47 /\ c <> 62 /\ c <> 0 /\ c <> 60 /\
  c <> 61 /\ c <> 34 /\ c <> 39 /\ is_linebreak c = false.
Proof.
  unfold is_lower. intro H. apply andb_true_iff in H as [H1 H2]. apply N.leb_le in H1, H2.
  assert (Hu : is_upper c = false) by (unfold is_upper; apply andb_false_iff; right; apply N.leb_gt; lia).
  repeat split; try lia.
  - unfold tok_lower, ascii_lower. rewrite Hu. reflexivity.
  - unfold is_alpha, is_lower. rewrite Hu. cbn [orb]. apply andb_true_iff. split; apply N.leb_le; lia.
  - unfold tok_ws. repeat (apply orb_false_iff; split); apply N.eqb_neq; lia.
  - unfold is_linebreak, memN. cbn [existsb]. repeat (apply orb_false_iff; split); try reflexivity; apply N.eqb_neq; lia.
Qed.

Lemma name_char_facts c : name_char c = true ->
  tok_lower c = c /\ tok_ws c = false /\ c <> 47 /\ c <> 62 /\ c <> 0 /\ c <> 60 /\
  c <> 61 /\ c <> 34 /\ c <> 39 /\ is_linebreak c = false.
Proof.
  unfold name_char. intro H. apply orb_true_iff in H as [H | H].
  - destruct (is_lower_facts c H) as [A [_ B]]. tauto.
  - apply N.eqb_eq in H. subst c. repeat split; try reflexivity; discriminate.
Qed.

Ltac neqb H := apply N.eqb_neq in H.

Lemma steps_cons st c h :
  steps st (c :: h) = (fst (steps (fst (step st c)) h), snd (step st c) ++ snd (steps (fst (step st c)) h)).
Proof. cbn [steps]. destruct (step st c) as [st' o]. cbn [fst snd]. destruct (steps st' h). reflexivity. Qed.

Lemma step_tagopen_lower (c : N) : is_lower c = true -> step STagOpen c = (STagName [c], []).
Proof.
  intro H. destruct (is_lower_facts c H) as [L [A _]]. cbn [step]. rewrite A, L. reflexivity.
Qed.

Lemma step_endopen_lower (c : N) : is_lower c = true -> step SEndTagOpen c = (SEndTagName [c], []).
Proof.
  intro H. destruct (is_lower_facts c H) as [L [A _]]. cbn [step]. rewrite A, L. reflexivity.
Qed.

(** ** Tag and attribute names *)
Lemma tag_name_steps w : forall n, forallb is_lower w = true -> steps (STagName n) w = (STagName (n ++ w), []).
Proof.
  induction w as [|c w IH]; intros n H; [rewrite app_nil_r; reflexivity|].
  cbn [forallb] in H. apply andb_true_iff in H as [Hc Hw].
  destruct (is_lower_facts c Hc) as [L [_ [W [N1 [N2 [N3 [N4 _]]]]]]]. neqb N1. neqb N2. neqb N3. neqb N4.
  cbn [steps step]. rewrite W, N1, N2, N3, N4, L. cbn [orb]. rewrite (IH _ Hw), <- app_assoc. reflexivity.
Qed.

Lemma open_name_steps a tag : tag_ok tag -> steps (SData a) (60 :: tag) = (STagName tag, flush a).
Proof.
  intros [Hne Hl]. destruct tag as [|c w]; [congruence|]. cbn [forallb] in Hl. apply andb_true_iff in Hl as [Hc Hw].
  rewrite steps_cons. change (step (SData a) 60) with (STagOpen, flush a). cbn [fst snd].
  rewrite steps_cons, (step_tagopen_lower c Hc). cbn [fst snd]. rewrite (tag_name_steps w [c] Hw).
  cbn [fst snd app]. rewrite app_nil_r. reflexivity.
Qed.

Lemma attr_name_steps w : forall tag attrs n, forallb name_char w = true ->
  steps (SAttrName tag attrs n) w = (SAttrName tag attrs (n ++ w), []).
Proof.
  induction w as [|c w IH]; intros tag attrs n H; [rewrite app_nil_r; reflexivity|].
  cbn [forallb] in H. apply andb_true_iff in H as [Hc Hw].
  destruct (name_char_facts c Hc) as [L [W [N1 [N2 [N3 [N4 [N5 [N6 [N7 _]]]]]]]]].
  neqb N1. neqb N2. neqb N3. neqb N4. neqb N5. neqb N6. neqb N7.
  cbn [steps step]. rewrite W, N1, N2, N3, N4, N5, N6, N7, L. cbn [orb].
  rewrite (IH _ _ _ Hw), <- app_assoc. reflexivity.
Qed.

Lemma before_attr_name_steps tag attrs n : aname_ok n ->
  steps (SBeforeAttrName tag attrs) n = (SAttrName tag attrs n, []).
Proof.
  intros [Hne Hl]. destruct n as [|c w]; [congruence|]. cbn [forallb] in Hl. apply andb_true_iff in Hl as [Hc Hw].
  destruct (name_char_facts c Hc) as [L [W [N1 [N2 [N3 [N4 [N5 [N6 [N7 _]]]]]]]]].
  neqb N1. neqb N2. neqb N3. neqb N4. neqb N5. neqb N6. neqb N7.
  cbn [steps step]. rewrite W, N1, N2, N3, N4, N5, N6, N7, L. cbn [orb].
  rewrite (attr_name_steps w tag attrs [c] Hw). reflexivity.
Qed.

(** ** [quoteattr] in [steps] form *)
Lemma attr_flat_steps tag attrs an dq (e : N -> str) v :
  (forall c, In c v -> forall acc,
     steps (SAttrValue dq tag attrs an acc) (e c) = (SAttrValue dq tag attrs an (acc ++ [c]), [])) ->
  forall acc, steps (SAttrValue dq tag attrs an acc) (flat_map e v) = (SAttrValue dq tag attrs an (acc ++ v), []).
Proof.
  induction v as [|c v IH]; intros H acc; [rewrite app_nil_r; reflexivity|].
  cbn [flat_map]. rewrite steps_app, (H c (or_introl eq_refl) acc). cbn [fst snd].
  rewrite IH by (intros; apply H; right; assumption). rewrite <- app_assoc. reflexivity.
Qed.

Lemma val_ok_no0 v : val_ok v -> ~ In 0 v.
Proof.
  unfold val_ok. rewrite forallb_forall. intros H Hin. specialize (H 0 Hin). cbn in H. discriminate.
Qed.

Lemma quoteattr_steps tag attrs an v : ~ In 0 v ->
  steps (SBeforeAttrValue tag attrs an) (quoteattr v) = (SAfterAttrValue tag (attrs ++ [(an, v)]), []).
Proof.
  intro H0. unfold quoteattr.
  assert (Hne : forall c, In c v -> c <> 0) by (intros c Hc E; subst; contradiction).
  destruct (memN 34 (sax_escape v)) eqn:E34.
  - destruct (memN 39 (sax_escape v)) eqn:E39.
    + rewrite quot_flat. rewrite steps_app. change (steps (SBeforeAttrValue tag attrs an) [34])
        with (SAttrValue true tag attrs an [], @nil token). cbn [fst snd app]. rewrite steps_app.
      rewrite (attr_flat_steps tag attrs an true (quot_escape) v) by (intros c Hc acc; apply quot_char, Hne, Hc).
      reflexivity.
    + assert (H39 : ~ In 39 v).
      { intro Hin. apply (memN_false _ _ E39). apply sax_keeps; [exact Hin | discriminate..]. }
      rewrite sax_escape_flat, steps_app. change (steps (SBeforeAttrValue tag attrs an) [39])
        with (SAttrValue false tag attrs an [], @nil token). cbn [fst snd app]. rewrite steps_app.
      rewrite (attr_flat_steps tag attrs an false (fun c => sax_escape [c]) v).
      * reflexivity.
      * intros c Hc acc. apply sax_char; [intro E; subst; contradiction | apply Hne, Hc].
  - assert (H34 : ~ In 34 v).
    { intro Hin. apply (memN_false _ _ E34). apply sax_keeps; [exact Hin | discriminate..]. }
    rewrite sax_escape_flat, steps_app. change (steps (SBeforeAttrValue tag attrs an) [34])
      with (SAttrValue true tag attrs an [], @nil token). cbn [fst snd app]. rewrite steps_app.
    rewrite (attr_flat_steps tag attrs an true (fun c => sax_escape [c]) v).
    + reflexivity.
    + intros c Hc acc. apply sax_char; [intro E; subst; contradiction | apply Hne, Hc].
Qed.

(** no line break survives [quoteattr] of a value without line breaks *)
Lemma forallb_flat_map {A B} (P : B -> bool) (f : A -> list B) l :
  (forall x, In x l -> forallb P (f x) = true) -> forallb P (flat_map f l) = true.
Proof.
  induction l as [|x l IH]; intro H; [reflexivity|]. cbn [flat_map]. rewrite forallb_app.
  rewrite (H x (or_introl eq_refl)), IH; [reflexivity | intros; apply H; right; assumption].
Qed.

Lemma sax_char_no_lb c : is_linebreak c = false -> no_lb (sax_escape [c]) = true.
Proof.
  intro H.
  destruct (N.eq_dec c 38) as [->|N1]; [reflexivity|]. destruct (N.eq_dec c 60) as [->|N2]; [reflexivity|].
  destruct (N.eq_dec c 62) as [->|N3]; [reflexivity|]. destruct (N.eq_dec c 10) as [->|N4]; [reflexivity|].
  destruct (N.eq_dec c 13) as [->|N5]; [reflexivity|]. destruct (N.eq_dec c 9) as [->|N6]; [reflexivity|].
  rewrite sax_escape_plain by assumption. unfold no_lb. cbn [forallb]. rewrite H. reflexivity.
Qed.

Lemma replace1_no_lb c r x : no_lb r = true -> no_lb x = true -> no_lb (replace1 c r x) = true.
Proof.
  intros Hr Hx. unfold replace1. apply forallb_flat_map. intros d Hd.
  destruct (d =? c); [exact Hr|]. unfold no_lb in Hx. rewrite forallb_forall in Hx. cbn [forallb].
  rewrite (Hx d Hd). reflexivity.
Qed.

Lemma quoteattr_no_lb v : val_ok v -> no_lb (quoteattr v) = true.
Proof.
  intro Hv. assert (Hs : no_lb (sax_escape v) = true).
  { rewrite sax_escape_flat. apply forallb_flat_map. intros c Hc. apply sax_char_no_lb.
    unfold val_ok in Hv. rewrite forallb_forall in Hv. specialize (Hv c Hc).
    apply andb_true_iff in Hv as [Hv _]. apply negb_true_iff. exact Hv. }
  unfold quoteattr. destruct (memN 34 (sax_escape v)); [destruct (memN 39 (sax_escape v))|];
    rewrite !no_lb_app; cbn [no_lb forallb andb]; rewrite ?Hs, ?andb_true_r; try reflexivity.
  apply replace1_no_lb; [reflexivity | exact Hs].
Qed.

Lemma quoteattr_last v : exists x q, quoteattr v = x ++ [q] /\ is_space q = false.
Proof.
  unfold quoteattr. destruct (memN 34 (sax_escape v)); [destruct (memN 39 (sax_escape v))|].
  - exists ([34] ++ replace1 34 (s "&quot;") (sax_escape v)), 34. split; [rewrite <- app_assoc; reflexivity | vm_compute; reflexivity].
  - exists ([39] ++ sax_escape v), 39. split; [rewrite <- app_assoc; reflexivity | vm_compute; reflexivity].
  - exists ([34] ++ sax_escape v), 34. split; [rewrite <- app_assoc; reflexivity | vm_compute; reflexivity].
Qed.

Lemma rstrip_by_keep p x q : p q = false -> rstrip_by p (x ++ [q]) = x ++ [q].
Proof.
  intro Hq. induction x as [|c x IH]; cbn [app rstrip_by]; [rewrite Hq; reflexivity|].
  rewrite IH. destruct (x ++ [q]) eqn:E; [destruct x; discriminate | reflexivity].
Qed.

(** ** The attribute list *)
Definition attrs_ok (attrs : list (str * str)) : Prop :=
  Forall (fun p => aname_ok (attr_name (fst p)) /\ val_ok (snd p)) attrs.
Definition out_attrs (attrs : list (str * str)) : list (str * str) :=
  map (fun p => (attr_name (fst p), snd p)) attrs.

Definition attr_item (a : str * str) : str := attr_name (fst a) ++ [61] ++ quoteattr (snd a).

Lemma attr_item_steps tag done a : aname_ok (attr_name (fst a)) -> val_ok (snd a) ->
  steps (SBeforeAttrName tag done) (attr_item a)
  = (SAfterAttrValue tag (done ++ [(attr_name (fst a), snd a)]), []).
Proof.
  intros Hn Hv. unfold attr_item. rewrite steps_app, (before_attr_name_steps tag done _ Hn). cbn [fst snd app].
  rewrite steps_cons. change (step (SAttrName tag done (attr_name (fst a))) 61)
    with (SBeforeAttrValue tag done (attr_name (fst a)), @nil token). cbn [fst snd app].
  rewrite (quoteattr_steps tag done _ (snd a) (val_ok_no0 _ Hv)). reflexivity.
Qed.

Lemma attrs_join_steps attrs : forall tag done a, attrs_ok (a :: attrs) ->
  steps (SBeforeAttrName tag done) (join [32] (map attr_item (a :: attrs)))
  = (SAfterAttrValue tag (done ++ out_attrs (a :: attrs)), []).
Proof.
  induction attrs as [|b attrs IH]; intros tag done a Hok; inversion Hok as [|? ? [Hn Hv] Hrest]; subst.
  - cbn [map join out_attrs]. apply attr_item_steps; assumption.
  - change (join [32] (map attr_item (a :: b :: attrs)))
      with (attr_item a ++ [32] ++ join [32] (map attr_item (b :: attrs))).
    rewrite steps_app, (attr_item_steps tag done a Hn Hv). cbn [fst snd app].
    rewrite steps_cons. change (step (SAfterAttrValue tag (done ++ [(attr_name (fst a), snd a)])) 32)
      with (SBeforeAttrName tag (done ++ [(attr_name (fst a), snd a)]), @nil token). cbn [fst snd app].
    rewrite (IH tag _ b Hrest). cbn [out_attrs map fst snd]. rewrite <- app_assoc. reflexivity.
Qed.

Lemma attrs_str_eq attrs : attrs_str attrs = join [32] (map attr_item attrs).
Proof. reflexivity. Qed.

Lemma join_no_lb l : Forall (fun x => no_lb x = true) l -> no_lb (join [32] l) = true.
Proof.
  induction 1 as [|x l Hx Hl IH]; [reflexivity|]. destruct l as [|y l']; [exact Hx|].
  change (join [32] (x :: y :: l')) with (x ++ [32] ++ join [32] (y :: l')).
  rewrite !no_lb_app, Hx, IH. reflexivity.
Qed.

Lemma name_no_lb n : forallb name_char n = true -> no_lb n = true.
Proof.
  unfold no_lb. rewrite !forallb_forall. intros H c Hc. apply negb_true_iff.
  destruct (name_char_facts c (H c Hc)) as [_ [_ [_ [_ [_ [_ [_ [_ [_ L]]]]]]]]]. exact L.
Qed.

Lemma attrs_str_no_lb attrs : attrs_ok attrs -> no_lb (attrs_str attrs) = true.
Proof.
  intro Hok. rewrite attrs_str_eq. apply join_no_lb. apply Forall_map.
  eapply Forall_impl; [|exact Hok]. intros a [[_ Hn] Hv]. unfold attr_item.
  rewrite !no_lb_app, (name_no_lb _ Hn), (quoteattr_no_lb _ Hv). reflexivity.
Qed.

(** the open tag *)
Definition open_tag (tag : str) (attrs : list (str * str)) : str :=
  [60] ++ tag ++ rstrip_by is_space ([32] ++ attrs_str attrs) ++ [62].

Lemma attrs_rstrip attrs : attrs <> [] ->
  rstrip_by is_space ([32] ++ attrs_str attrs) = [32] ++ attrs_str attrs.
Proof.
  intro Hne. destruct attrs as [|a attrs]; [congruence|].
  assert (E : exists x q, attrs_str (a :: attrs) = x ++ [q] /\ is_space q = false).
  { rewrite attrs_str_eq. clear Hne. revert a. induction attrs as [|b attrs IH]; intro a.
    - cbn [map join]. unfold attr_item. destruct (quoteattr_last (snd a)) as [x [q [E Hq]]].
      exists (attr_name (fst a) ++ [61] ++ x), q. rewrite E, <- !app_assoc. split; [reflexivity | exact Hq].
    - destruct (IH b) as [x [q [E Hq]]].
      change (join [32] (map attr_item (a :: b :: attrs)))
        with (attr_item a ++ [32] ++ join [32] (map attr_item (b :: attrs))).
      rewrite E. exists (attr_item a ++ [32] ++ x), q. rewrite <- !app_assoc. split; [reflexivity | exact Hq]. }
  destruct E as [x [q [E Hq]]]. rewrite E, app_assoc. apply rstrip_by_keep. exact Hq.
Qed.

Lemma step_gt_tagname tag : step (STagName tag) 62 = (SData [], [StartTag tag [] false]).
Proof. reflexivity. Qed.
Lemma step_gt_aftervalue tag attrs : step (SAfterAttrValue tag attrs) 62 = (SData [], [StartTag tag attrs false]).
Proof. reflexivity. Qed.

Lemma open_tag_steps a tag attrs : tag_ok tag -> attrs_ok attrs ->
  steps (SData a) (open_tag tag attrs) = (SData [], flush a ++ [StartTag tag (out_attrs attrs) false]).
Proof.
  intros Ht Ha. unfold open_tag. change ([60] ++ tag ++ ?x) with ((60 :: tag) ++ x).
  rewrite steps_app, (open_name_steps a tag Ht). cbn [fst snd].
  destruct attrs as [|b attrs].
  - change (rstrip_by is_space ([32] ++ attrs_str [])) with (@nil N). cbn [app].
    rewrite steps_cons, step_gt_tagname. reflexivity.
  - rewrite attrs_rstrip by discriminate. rewrite <- app_assoc. cbn [app].
    rewrite steps_cons. change (step (STagName tag) 32) with (SBeforeAttrName tag [], @nil token). cbn [fst snd app].
    rewrite steps_app, attrs_str_eq, (attrs_join_steps attrs tag [] b Ha). cbn [fst snd app].
    rewrite steps_cons, step_gt_aftervalue. reflexivity.
Qed.

Lemma tag_no_lb tag : tag_ok tag -> no_lb tag = true.
Proof.
  intros [_ H]. unfold no_lb. rewrite !forallb_forall in *. intros c Hc. apply negb_true_iff.
  destruct (is_lower_facts c (H c Hc)) as [_ [_ [_ [_ [_ [_ [_ [_ [_ [_ L]]]]]]]]]]. exact L.
Qed.

Lemma rstrip_no_lb p x : no_lb x = true -> no_lb (rstrip_by p x) = true.
Proof.
  intro H. destruct (rstrip_split p x) as [w [E _]]. rewrite E, no_lb_app in H.
  apply andb_true_iff in H as [H _]. exact H.
Qed.

Lemma open_tag_no_lb tag attrs : tag_ok tag -> attrs_ok attrs -> no_lb (open_tag tag attrs) = true.
Proof.
  intros Ht Ha. unfold open_tag. rewrite !no_lb_app, (tag_no_lb tag Ht).
  rewrite rstrip_no_lb by (rewrite no_lb_app, (attrs_str_no_lb attrs Ha); reflexivity). reflexivity.
Qed.

(** the close tag *)
Definition close_tag (tag : str) : str := s "</" ++ tag ++ [62].

Lemma end_name_steps w : forall n, forallb is_lower w = true -> steps (SEndTagName n) w = (SEndTagName (n ++ w), []).
Proof.
  induction w as [|c w IH]; intros n H; [rewrite app_nil_r; reflexivity|].
  cbn [forallb] in H. apply andb_true_iff in H as [Hc Hw].
  destruct (is_lower_facts c Hc) as [L [_ [W [N1 [N2 [N3 [N4 _]]]]]]]. neqb N1. neqb N2. neqb N3. neqb N4.
  cbn [steps step]. rewrite N2, W, N1, N3, N4, L. cbn [orb]. rewrite (IH _ Hw), <- app_assoc. reflexivity.
Qed.

Lemma step_gt_endname n : step (SEndTagName n) 62 = (SData [], [EndTag n]).
Proof. reflexivity. Qed.

Lemma close_tag_steps a tag : tag_ok tag ->
  steps (SData a) (close_tag tag) = (SData [], flush a ++ [EndTag tag]).
Proof.
  intros [Hne Hl]. unfold close_tag. destruct tag as [|c w]; [congruence|].
  cbn [forallb] in Hl. apply andb_true_iff in Hl as [Hc Hw].
  change (s "</" ++ (c :: w) ++ [62]) with (60 :: 47 :: c :: (w ++ [62])).
  rewrite steps_cons. change (step (SData a) 60) with (STagOpen, flush a). cbn [fst snd].
  rewrite steps_cons. change (step STagOpen 47) with (SEndTagOpen, @nil token). cbn [fst snd app].
  rewrite steps_cons, (step_endopen_lower c Hc). cbn [fst snd app].
  rewrite steps_app, (end_name_steps w [c] Hw). cbn [fst snd app].
  rewrite steps_cons, step_gt_endname. reflexivity.
Qed.

Lemma close_tag_no_lb tag : tag_ok tag -> no_lb (close_tag tag) = true.
Proof.
  intro Ht. unfold close_tag. rewrite !no_lb_app, (tag_no_lb tag Ht). reflexivity.
Qed.

(** ** [t] *)
Lemma t_eq tag body attrs :
  t tag (Some body) attrs = open_tag tag attrs ++ t_body body ++ close_tag tag.
Proof. unfold t, open_tag, close_tag. rewrite <- !app_assoc. reflexivity. Qed.

Theorem Good_t tag body attrs k :
  tag_ok tag -> attrs_ok attrs -> Good body k ->
  Good (t tag (Some body) attrs) (KStart tag (map fst (out_attrs attrs)) false :: k ++ [KEnd tag]).
Proof.
  intros Ht Ha Gb a. rewrite t_eq.
  pose proof (open_tag_steps a tag attrs Ht Ha) as SO.
  destruct (Gb []) as [Bb [Db Kb]].
  destruct (t_body_effect body (SData []) (SData []) I (sim_eq _) Bb Db) as [Bt [Dt Kt]].
  destruct (fst (steps (SData []) (t_body body))) as [a2| | | | | | | | | | | | | |] eqn:E2; try contradiction.
  pose proof (close_tag_steps a2 tag Ht) as SC.
  split; [|split].
  - apply break_safe_app. split; [apply no_lb_break_safe, open_tag_no_lb; assumption|].
    rewrite SO. cbn [fst]. apply break_safe_app. split; [exact Bt|].
    rewrite E2. apply no_lb_break_safe, close_tag_no_lb. exact Ht.
  - rewrite steps_app, SO. cbn [fst]. rewrite steps_app, E2. cbn [fst]. rewrite SC. exact I.
  - rewrite steps_app, SO. cbn [fst snd]. rewrite steps_app, E2. cbn [fst snd]. rewrite SC. cbn [snd].
    rewrite !tag_skeleton_app, !tag_skeleton_flush, Kt, Kb. reflexivity.
Qed.
