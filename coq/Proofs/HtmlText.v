(** * C04 (cell text): visible text of token lists, up to white space.

    [visible_text] concatenates the decoded text tokens that are not inside a
    [<ul class="rg-quantity-conversions">] element.  [sq] deletes every white
    space character ([str.isspace]): [t]'s newline / indent / rstrip rule
    inserts and removes white space only, so statements about the text of
    rendered cells are made up to [sq].  This file: the state relation
    "equal up to white space in the gathered text", its preservation by the
    tokenizer, by space insertion ([Ins]) and by [t_body]; fragments with a
    known visible text ([Vis]) and their closure under concatenation and [t]. *)
From Coq Require Import List NArith Bool Lia String.
From RG Require Import Base.Str Gen.GenUnits Model.Units Model.Html Model.HtmlTok
  Proofs.HtmlEscape Proofs.HtmlSim Proofs.HtmlIndent Proofs.HtmlTag.
Import ListNotations.
Local Open Scope N_scope.

(** ** Deleting white space *)
Definition sq (x : str) : str := filter (fun c => negb (is_space c)) x.

Lemma sq_app a b : sq (a ++ b) = sq a ++ sq b.
Proof. apply filter_app. Qed.

Lemma sq_ws w : forallb is_space w = true -> sq w = [].
Proof.
  induction w as [|c w IH]; intro H; [reflexivity|]. cbn [forallb] in H. apply andb_true_iff in H as [Hc Hw].
  cbn [sq filter]. rewrite Hc. cbn [negb]. exact (IH Hw).
Qed.

Lemma sq_snoc_ws a c : is_space c = true -> sq (a ++ [c]) = sq a.
Proof. intro H. rewrite sq_app. cbn [sq filter]. rewrite H. cbn [negb]. apply app_nil_r. Qed.

(** ** Visible text *)
Definition conv_class : str := s "rg-quantity-conversions".
Definition is_conv_ul (name : str) (attrs : list (str * str)) : bool :=
  str_eqb name (s "ul") && existsb (fun a => str_eqb (fst a) (s "class") && str_eqb (snd a) conv_class) attrs.

(** [skip]: inside a conversions list (it contains no nested [ul]) *)
Fixpoint vis (skip : bool) (l : list token) : str :=
  match l with
  | [] => []
  | Text x :: r => (if skip then [] else x) ++ vis skip r
  | StartTag n a _ :: r => vis (skip || is_conv_ul n a) r
  | EndTag n :: r => vis (if str_eqb n (s "ul") then false else skip) r
  | TError :: r => vis skip r
  end.

Fixpoint vis_end (skip : bool) (l : list token) : bool :=
  match l with
  | [] => skip
  | Text _ :: r => vis_end skip r
  | StartTag n a _ :: r => vis_end (skip || is_conv_ul n a) r
  | EndTag n :: r => vis_end (if str_eqb n (s "ul") then false else skip) r
  | TError :: r => vis_end skip r
  end.

Definition visible_text (l : list token) : str := vis false l.

Lemma vis_app l1 : forall sk l2, vis sk (l1 ++ l2) = vis sk l1 ++ vis (vis_end sk l1) l2.
Proof.
  induction l1 as [|tk l1 IH]; intros sk l2; [reflexivity|].
  destruct tk; cbn [app vis vis_end]; rewrite IH; try reflexivity. apply app_assoc.
Qed.

Lemma vis_end_app l1 : forall sk l2, vis_end sk (l1 ++ l2) = vis_end (vis_end sk l1) l2.
Proof. induction l1 as [|tk l1 IH]; intros sk l2; [reflexivity|]. destruct tk; cbn [app vis_end]; apply IH. Qed.

Lemma vis_flush sk a : vis sk (flush a) = if sk then [] else a.
Proof. destruct a; cbn [flush vis]; destruct sk; rewrite ?app_nil_r; reflexivity. Qed.

Lemma vis_end_flush sk a : vis_end sk (flush a) = sk.
Proof. destruct a; reflexivity. Qed.

(** ** States equal up to white space in the gathered text *)
Inductive wsim : state -> state -> Prop :=
| wsim_eq st : wsim st st
| wsim_data a b : sq a = sq b -> wsim (SData a) (SData b)
| wsim_ref a b buf : sq a = sq b -> wsim (SRef (RData a) buf) (SRef (RData b) buf).

(** token lists with the same tags and, up to white space, the same text *)
Definition teq (o1 o2 : list token) : Prop :=
  forall sk, sq (vis sk o1) = sq (vis sk o2) /\ vis_end sk o1 = vis_end sk o2.

Lemma teq_refl o : teq o o.
Proof. intro sk. split; reflexivity. Qed.

Lemma teq_app a a' b b' : teq a a' -> teq b b' -> teq (a ++ b) (a' ++ b').
Proof.
  intros Ha Hb sk. destruct (Ha sk) as [H1 H2]. rewrite !vis_app, !vis_end_app, !sq_app, H1, H2.
  destruct (Hb (vis_end sk a')) as [H3 H4]. rewrite H3, H4. split; reflexivity.
Qed.

Lemma teq_flush a b : sq a = sq b -> teq (flush a) (flush b).
Proof. intros H sk. rewrite !vis_flush, !vis_end_flush. destruct sk; split; auto. Qed.

Lemma teq_flush_app a b o : sq a = sq b -> teq (flush a ++ o) (flush b ++ o).
Proof. intro H. apply teq_app; [apply teq_flush, H | apply teq_refl]. Qed.

Lemma teq_sym a b : teq a b -> teq b a.
Proof. intros H sk. destruct (H sk). split; symmetry; assumption. Qed.

Lemma teq_trans a b c : teq a b -> teq b c -> teq a c.
Proof. intros H1 H2 sk. destruct (H1 sk), (H2 sk). split; congruence. Qed.

Lemma wsim_data_l a st : wsim (SData a) st -> exists b, st = SData b /\ sq a = sq b.
Proof. inversion 1; subst; eauto. Qed.

Lemma wsim_sym a b : wsim a b -> wsim b a.
Proof. destruct 1; constructor; symmetry; assumption. Qed.

Lemma is_data_wsim a b : wsim a b -> is_data a -> is_data b.
Proof. destruct 1; auto. Qed.

Lemma step_wsim a b c : wsim a b ->
  wsim (fst (step a c)) (fst (step b c)) /\ teq (snd (step a c)) (snd (step b c)).
Proof.
  destruct 1 as [st|x y E|x y buf E].
  - split; [constructor | apply teq_refl].
  - cbn [step]. destruct (c =? 60).
    + cbn [fst snd]. split; [constructor | apply teq_flush, E].
    + destruct (c =? 38); cbn [fst snd]; split; try apply teq_refl; constructor; try exact E.
      rewrite !sq_app, E. reflexivity.
  - cbn [step]. destruct (c =? 59).
    + destruct (decode_ref buf) as [d|]; cbn [fst snd resume pending].
      * split; [constructor; rewrite !sq_app, E; reflexivity | apply teq_refl].
      * split; [constructor | apply teq_flush_app, E].
    + destruct (is_alnum c || (c =? 35)); cbn [fst snd pending].
      * split; [constructor; exact E | apply teq_refl].
      * split; [constructor | apply teq_flush_app, E].
Qed.

Lemma steps_wsim x : forall a b, wsim a b ->
  wsim (fst (steps a x)) (fst (steps b x)) /\ teq (snd (steps a x)) (snd (steps b x)).
Proof.
  induction x as [|c x IH]; intros a b H; cbn [steps]; [split; [exact H | apply teq_refl]|].
  destruct (step_wsim a b c H) as [Hs Ho].
  destruct (step a c) as [a' oa], (step b c) as [b' ob]. cbn [fst snd] in *.
  destruct (IH a' b' Hs) as [Hs' Ho'].
  destruct (steps a' x) as [a'' oa'], (steps b' x) as [b'' ob']. cbn [fst snd] in *.
  split; [exact Hs' | apply teq_app; assumption].
Qed.

Lemma Ins_wsteps st h h' : Ins st h h' -> forall st', wsim st st' ->
  wsim (fst (steps st h)) (fst (steps st' h')) /\ teq (snd (steps st h)) (snd (steps st' h')).
Proof.
  induction 1 as [st|st c h h' H IH|st h h' Hd H IH]; intros st' Hs; cbn [steps].
  - split; [exact Hs | apply teq_refl].
  - destruct (step_wsim st st' c Hs) as [Hs1 Ho1].
    destruct (step st c) as [s1 o1], (step st' c) as [s1' o1']. cbn [fst snd] in *.
    destruct (IH s1' Hs1) as [Hs2 Ho2].
    destruct (steps s1 h) as [s2 o2], (steps s1' h') as [s2' o2']. cbn [fst snd] in *.
    split; [exact Hs2 | apply teq_app; assumption].
  - destruct st as [a| | | | | | | | | | | | | |]; try contradiction.
    destruct (wsim_data_l a st' Hs) as [b [-> E]].
    rewrite (step_data_plain b 32 eq_refl).
    assert (Hs' : wsim (SData a) (SData (b ++ [32]))).
    { constructor. rewrite sq_snoc_ws by (vm_compute; reflexivity). exact E. }
    destruct (IH (SData (b ++ [32])) Hs') as [Hs2 Ho2].
    destruct (steps (SData (b ++ [32])) h') as [s2' o2']. cbn [fst snd] in *.
    split; [exact Hs2 | exact Ho2].
Qed.

(** ** [t_body] up to white space *)
Lemma t_body_weffect b a a' :
  sq a = sq a' -> break_safe (SData a) b -> is_data (fst (steps (SData a) b)) ->
  wsim (fst (steps (SData a) b)) (fst (steps (SData a') (t_body b))) /\
  teq (snd (steps (SData a) b)) (snd (steps (SData a') (t_body b))).
Proof.
  intros E Hb He. unfold t_body. destruct (memN 10 b).
  - pose proof (indent2_Ins (SData a) b I Hb) as HI.
    set (X := indent2 b) in *. destruct (rstrip_split is_space X) as [W [EX HW]].
    set (Y := rstrip_by is_space X) in *.
    assert (S1 : steps (SData a') [10] = (SData (a' ++ [10]), [])) by reflexivity.
    assert (W1 : wsim (SData a) (SData (a' ++ [10]))).
    { constructor. rewrite sq_snoc_ws by (vm_compute; reflexivity). exact E. }
    destruct (Ins_wsteps _ _ _ HI (SData (a' ++ [10])) W1) as [HsX HoX].
    assert (HdX : exists ax, fst (steps (SData (a' ++ [10])) X) = SData ax).
    { destruct (fst (steps (SData a) b)) as [ab| | | | | | | | | | | | | |] eqn:Eb; try contradiction.
      destruct (wsim_data_l _ _ HsX) as [ax [Eax _]]. eauto. }
    destruct HdX as [ax Eax]. pose proof Eax as Eax'. rewrite EX, steps_app in Eax'. cbn [fst] in Eax'.
    destruct (ws_tail_data W _ ax HW Eax') as [ay Eay].
    assert (PW : forallb plain W = true).
    { rewrite forallb_forall in *. intros c Hc. exact (proj1 (space_char c (HW c Hc))). }
    assert (SX : steps (SData (a' ++ [10])) X = (SData (ay ++ W), snd (steps (SData (a' ++ [10])) Y))).
    { rewrite EX, steps_app, Eay, (steps_data_plain W ay PW). cbn [fst snd]. rewrite app_nil_r. reflexivity. }
    assert (SY : steps (SData a') ([10] ++ Y ++ [10])
                 = (SData (ay ++ [10]), snd (steps (SData (a' ++ [10])) Y))).
    { rewrite steps_app, S1. cbn [fst snd app]. rewrite steps_app, Eay. cbn [fst snd].
      change (steps (SData ay) [10]) with (SData (ay ++ [10]), @nil token). cbn [fst snd]. rewrite app_nil_r.
      reflexivity. }
    rewrite SX in HsX, HoX. cbn [fst snd] in HsX, HoX. rewrite SY. cbn [fst snd]. split; [|exact HoX].
    destruct (fst (steps (SData a) b)) as [ab| | | | | | | | | | | | | |]; try contradiction.
    destruct (wsim_data_l _ _ HsX) as [z [Ez Esq]]. inversion Ez; subst z. constructor.
    rewrite Esq, !sq_app, (sq_ws W HW). cbn [sq filter]. change (is_space 10) with true. reflexivity.
  - apply steps_wsim. constructor. exact E.
Qed.

(** ** Fragments with a known visible text *)
Definition acc_of (st : state) : str := match st with SData a => a | _ => [] end.

(** [Vis h T]: from any data state, [h] ends in a data state, leaves the
    conversions-list flag unset, and adds exactly [T] to the visible text, up
    to white space. *)
Definition Vis (h : str) (T : str) : Prop :=
  forall a, is_data (fst (steps (SData a) h)) /\
            vis_end false (snd (steps (SData a) h)) = false /\
            sq (vis false (snd (steps (SData a) h)) ++ acc_of (fst (steps (SData a) h))) = sq (a ++ T).

Lemma Vis_nil : Vis [] [].
Proof. intro a. cbn. rewrite app_nil_r. repeat split. Qed.

Lemma Vis_app h1 T1 h2 T2 : Vis h1 T1 -> Vis h2 T2 -> Vis (h1 ++ h2) (T1 ++ T2).
Proof.
  intros V1 V2 a. destruct (V1 a) as [D1 [E1 X1]].
  destruct (fst (steps (SData a) h1)) as [a1| | | | | | | | | | | | | |] eqn:S1; try contradiction.
  destruct (V2 a1) as [D2 [E2 X2]]. rewrite steps_app, S1. cbn [fst snd acc_of] in *.
  split; [exact D2|]. split; [rewrite vis_end_app, E1; exact E2|].
  rewrite vis_app, E1, <- app_assoc. rewrite (sq_app (vis false _) (_ ++ _)). rewrite X2.
  rewrite (sq_app a1 T2), app_assoc, <- (sq_app (vis false _) a1), X1, <- sq_app, <- app_assoc. reflexivity.
Qed.

Lemma Vis_plain w : forallb plain w = true -> Vis w w.
Proof. intros Hw a. rewrite (steps_data_plain w a Hw). cbn. repeat split. Qed.

Lemma Vis_escape_char c : Vis (html_escape [c]) [c].
Proof. intro a. rewrite (escape_char_data c a). cbn. repeat split. Qed.

Lemma Vis_escape x : Vis (html_escape x) x.
Proof.
  induction x as [|c x IH]; [apply Vis_nil|]. rewrite html_escape_cons.
  change (c :: x) with ([c] ++ x). apply Vis_app; [apply Vis_escape_char | exact IH].
Qed.

(** a string that only adds white space to the text *)
Lemma Vis_sq_eq h T T' : sq T = sq T' -> Vis h T -> Vis h T'.
Proof. intros E V a. destruct (V a) as [D [En X]]. repeat split; try assumption. rewrite X, !sq_app, E. reflexivity. Qed.

(** ** [t] keeps the visible text of its body (for every element but the conversions list) *)
Lemma tag_skeleton_teq_end o o' : teq o o' -> forall sk, vis_end sk o = vis_end sk o'.
Proof. intros H sk. exact (proj2 (H sk)). Qed.

Theorem Vis_t tag body attrs k T :
  tag_ok tag -> attrs_ok attrs -> is_conv_ul tag (out_attrs attrs) = false ->
  Good body k -> Vis body T -> Vis (t tag (Some body) attrs) T.
Proof.
  intros Ht Ha Hc Gb Vb a. rewrite t_eq.
  pose proof (open_tag_steps a tag attrs Ht Ha) as SO.
  destruct (Gb []) as [Bb [Db _]]. destruct (Vb []) as [_ [Eb Xb]].
  destruct (t_body_weffect body [] [] eq_refl Bb Db) as [Ws Wo].
  destruct (fst (steps (SData []) body)) as [ab| | | | | | | | | | | | | |] eqn:S1; try contradiction.
  destruct (wsim_data_l _ _ Ws) as [a2 [S2 Eab]].
  pose proof (close_tag_steps a2 tag Ht) as SC.
  rewrite steps_app, SO. cbn [fst snd]. rewrite steps_app, S2. cbn [fst snd]. rewrite SC. cbn [fst snd acc_of].
  destruct (Wo false) as [Wv We].
  assert (Hul : vis_end false [EndTag tag] = false) by (cbn [vis_end]; destruct (str_eqb tag (s "ul")); reflexivity).
  split; [exact I|]. split.
  - rewrite !vis_end_app. cbn [vis_end]. rewrite !vis_end_flush, Hc. cbn [orb]. rewrite <- We, Eb.
    destruct (str_eqb tag (s "ul")); reflexivity.
  - rewrite app_nil_r. rewrite !vis_app, !vis_end_app. cbn [vis vis_end]. rewrite !vis_flush, !vis_end_flush, Hc.
    cbn [orb]. rewrite <- We, Eb. rewrite !app_nil_r.
    cbn [acc_of app] in Xb. rewrite !sq_app in *. rewrite <- Wv, <- Eab, Xb. reflexivity.
Qed.

(** ** The conversions list is invisible *)
Fixpoint no_end_ul (l : list skel) : bool :=
  match l with
  | [] => true
  | KEnd n :: r => negb (str_eqb n (s "ul")) && no_end_ul r
  | _ :: r => no_end_ul r
  end.

Lemma hidden_tokens o : no_end_ul (tag_skeleton o) = true -> vis true o = [] /\ vis_end true o = true.
Proof.
  induction o as [|tk o IH]; intro H; [split; reflexivity|].
  destruct tk as [n a sc|n|x|]; cbn [tag_skeleton no_end_ul vis vis_end orb] in *.
  - apply IH. exact H.
  - apply andb_true_iff in H as [Hn H]. apply negb_true_iff in Hn. rewrite Hn. apply IH. exact H.
  - apply IH. exact H.
  - apply IH. exact H.
Qed.

Theorem Vis_conv body k :
  Good body k -> no_end_ul k = true ->
  Vis (t (s "ul") (Some body) [cls "rg-quantity-conversions"]) [].
Proof.
  intros Gb Hk a. rewrite t_eq.
  assert (Ht : tag_ok (s "ul")) by (split; [discriminate | reflexivity]).
  assert (Ha : attrs_ok [cls "rg-quantity-conversions"]).
  { constructor; [|constructor]. split; [split; [vm_compute; discriminate | vm_compute; reflexivity] | vm_compute; reflexivity]. }
  pose proof (open_tag_steps a (s "ul") _ Ht Ha) as SO.
  destruct (Gb []) as [Bb [Db Kb]].
  destruct (t_body_effect body (SData []) (SData []) I (sim_eq _) Bb Db) as [_ [Dt Kt]].
  destruct (fst (steps (SData []) (t_body body))) as [a2| | | | | | | | | | | | | |] eqn:S2; try contradiction.
  pose proof (close_tag_steps a2 (s "ul") Ht) as SC.
  rewrite steps_app, SO. cbn [fst snd]. rewrite steps_app, S2. cbn [fst snd]. rewrite SC. cbn [fst snd acc_of].
  assert (Hh : no_end_ul (tag_skeleton (snd (steps (SData []) (t_body body)))) = true) by (rewrite Kt, Kb; exact Hk).
  destruct (hidden_tokens _ Hh) as [Hv He].
  assert (Hc : is_conv_ul (s "ul") (out_attrs [cls "rg-quantity-conversions"]) = true) by (vm_compute; reflexivity).
  split; [exact I|]. split.
  - rewrite !vis_end_app. cbn [vis_end]. rewrite !vis_end_flush, Hc. cbn [orb]. rewrite He. reflexivity.
  - rewrite app_nil_r. rewrite !vis_app, !vis_end_app. cbn [vis vis_end]. rewrite !vis_flush, !vis_end_flush, Hc.
    cbn [orb]. rewrite Hv, He. rewrite !app_nil_r. reflexivity.
Qed.
