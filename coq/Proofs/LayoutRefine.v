(** * The arithmetic layout equals the specification (C02).

    [nested_refine]: for a well-formed nested tree, the cells of its table padded to any
    width [w >= width t] and moved to (r0, c0) are exactly the specified cells
    [spec_cell (regions ...) (place ...)], in the same order.
    [alayout_spec]: the table of a whole tree is [spec_table]. *)
From Coq Require Import List Arith NArith Bool Lia ZifyBool.
From RG Require Import Model.Table Model.Layout Spec.LayoutSpec
  Proofs.LayoutTiling Proofs.LayoutArith Proofs.LayoutSpecFacts.
Import ListNotations.
Local Open Scope N_scope.

(** ** Entries *)
Lemma set_cols_id e : set_cols e (e_cols e) = e.
Proof. destruct e as [[r c] [lbl h w bl br bt bb]]. reflexivity. Qed.

Lemma pad_spec_id C l : pad_spec C C l = l.
Proof.
  unfold pad_spec. rewrite <- (map_id l) at 2. apply map_ext. intros e. unfold pad_entry.
  destruct (e_col e + e_cols e =? C) eqn:E; [|reflexivity].
  replace (C - e_col e) with (e_cols e) by lia. apply set_cols_id.
Qed.

Lemma apad_cells w t : t_cols t <= w -> t_cells (apad w t) = pad_spec (t_cols t) w (t_cells t).
Proof.
  intros H. unfold apad. destruct (w <=? t_cols t) eqn:E; [|reflexivity].
  replace w with (t_cols t) by lia. symmetry. apply pad_spec_id.
Qed.

Lemma map_id_in {A} (f : A -> A) l : (forall x, In x l -> f x = x) -> map f l = l.
Proof.
  intros H. rewrite <- (map_id l) at 2. apply map_ext_in. exact H.
Qed.

Lemma pad_noop C w l : (forall e, In e l -> e_col e + e_cols e < C) -> pad_spec C w l = l.
Proof.
  intros H. apply map_id_in. intros e He. unfold pad_entry. specialize (H e He).
  replace (e_col e + e_cols e =? C) with false by lia. reflexivity.
Qed.

Lemma pad_app C w l1 l2 : pad_spec C w (l1 ++ l2) = pad_spec C w l1 ++ pad_spec C w l2.
Proof. apply map_app. Qed.

Lemma shift_pad_entry dr dc C w e :
  shift_entry dr dc (pad_entry C w e) = pad_entry (C + dc) (w + dc) (shift_entry dr dc e).
Proof.
  destruct e as [[r c] [lbl h w0 bl br bt bb]].
  unfold pad_entry, shift_entry, set_cols, e_row, e_col, e_cols, e_cell; cbn [fst snd c_cols].
  replace (c + dc + w0 =? C + dc) with (c + w0 =? C) by lia.
  destruct (c + w0 =? C); [|reflexivity].
  cbn [fst snd c_label c_rows c_bl c_br c_bt c_bb]. f_equal. f_equal. lia.
Qed.

Lemma shift_pad dr dc C w l :
  shift dr dc (pad_spec C w l) = pad_spec (C + dc) (w + dc) (shift dr dc l).
Proof.
  unfold shift, pad_spec. rewrite !map_map. apply map_ext. intros e. apply shift_pad_entry.
Qed.

Lemma pad_shift_rows dr C w l : pad_spec C w (shift dr 0 l) = shift dr 0 (pad_spec C w l).
Proof. rewrite shift_pad, !N.add_0_r. reflexivity. Qed.

(** Borders set around the rectangle [rho]. *)
Definition border_entry_at (rho : rect) (b : border) (e : entry) : entry :=
  with_borders e b (e_col e =? r_col rho) (e_col e + e_cols e =? r_col rho + r_w rho)
               (e_row e =? r_row rho) (e_row e + e_rows e =? r_row rho + r_h rho).

Lemma with_borders_ext e b x1 x2 x3 x4 y1 y2 y3 y4 :
  x1 = y1 -> x2 = y2 -> x3 = y3 -> x4 = y4 ->
  with_borders e b x1 x2 x3 x4 = with_borders e b y1 y2 y3 y4.
Proof. intros; subst; reflexivity. Qed.

Lemma shift_with_borders dr dc e b x1 x2 x3 x4 :
  shift_entry dr dc (with_borders e b x1 x2 x3 x4)
  = with_borders (shift_entry dr dc e) b x1 x2 x3 x4.
Proof. destruct e as [[r c] x]. reflexivity. Qed.

Lemma shift_border dr dc R C b l :
  shift dr dc (border_spec R C b l) = map (border_entry_at (dr, dc, R, C) b) (shift dr dc l).
Proof.
  unfold shift, border_spec. rewrite !map_map. apply map_ext. intros e.
  unfold border_entry, border_entry_at. rewrite shift_with_borders.
  destruct e as [[r c] x].
  apply with_borders_ext;
    unfold shift_entry, r_row, r_col, r_h, r_w, e_row, e_col, e_rows, e_cols, e_cell;
    cbn [fst snd]; lia.
Qed.

Lemma set_cols_with_borders e b x1 x2 x3 x4 n :
  set_cols (with_borders e b x1 x2 x3 x4) n = with_borders (set_cols e n) b x1 x2 x3 x4.
Proof. destruct e as [[r c] x]. reflexivity. Qed.

Lemma pad_border R C w b l :
  (forall e, In e l -> e_col e + e_cols e <= C) -> C <= w ->
  pad_spec C w (border_spec R C b l) = border_spec R w b (pad_spec C w l).
Proof.
  intros Hb Hw. unfold pad_spec, border_spec. rewrite !map_map. apply map_ext_in. intros e He.
  specialize (Hb e He). unfold pad_entry, border_entry.
  change (e_col (with_borders e b (e_col e =? 0) (e_col e + e_cols e =? C) (e_row e =? 0)
                              (e_row e + e_rows e =? R))) with (e_col e).
  change (e_cols (with_borders e b (e_col e =? 0) (e_col e + e_cols e =? C) (e_row e =? 0)
                               (e_row e + e_rows e =? R))) with (e_cols e).
  destruct (e_col e + e_cols e =? C) eqn:E.
  - rewrite set_cols_with_borders. destruct e as [[r c] x].
    apply with_borders_ext; unfold set_cols, e_row, e_col, e_rows, e_cols, e_cell in *;
      cbn [fst snd c_cols c_rows] in *; lia.
  - apply with_borders_ext; try reflexivity. lia.
Qed.

(** ** Specified cells *)
Lemma edge_cons rho regs on d g :
  edge (rho :: regs) on d g = if on g rho then BSub else edge regs on d g.
Proof. unfold edge; simpl. destruct (on g rho); reflexivity. Qed.

Lemma border_at_spec rho regs g :
  inside (snd g) rho = true ->
  border_entry_at rho BSub (spec_cell regs g) = spec_cell (rho :: regs) g.
Proof.
  destruct g as [lbl [[[r c] h] w]], rho as [[[r' c'] h'] w']. cbn [snd]. intros Hin.
  unfold spec_cell. rewrite !edge_cons.
  unfold on_left, on_right, on_top, on_bottom. rewrite Hin. cbn [andb].
  unfold border_entry_at, with_borders, r_row, r_col, r_h, r_w, e_row, e_col, e_rows, e_cols, e_cell.
  cbn [fst snd c_label c_rows c_cols c_bl c_br c_bt c_bb]. reflexivity.
Qed.

Lemma existsb_false {A} (f : A -> bool) l : (forall x, In x l -> f x = false) -> existsb f l = false.
Proof.
  induction l as [|x l IH]; intros H; [reflexivity|]. simpl.
  rewrite (H x (or_introl eq_refl)), IH; [reflexivity|]. intros y Hy. apply H. right. exact Hy.
Qed.

Lemma edge_app_r regs1 regs2 on d g :
  (forall rho, In rho regs2 -> on g rho = false) -> edge (regs1 ++ regs2) on d g = edge regs1 on d g.
Proof. intros H. unfold edge. rewrite existsb_app, (existsb_false _ regs2 H), orb_false_r. reflexivity. Qed.

Lemma edge_app_l regs1 regs2 on d g :
  (forall rho, In rho regs1 -> on g rho = false) -> edge (regs1 ++ regs2) on d g = edge regs2 on d g.
Proof. intros H. unfold edge. rewrite existsb_app, (existsb_false _ regs1 H). reflexivity. Qed.

Lemma on_false g rho :
  inside g rho = false ->
  on_left g rho = false /\ on_right g rho = false /\ on_top g rho = false /\ on_bottom g rho = false.
Proof. intros H. unfold on_left, on_right, on_top, on_bottom. rewrite H. auto. Qed.

Lemma spec_cell_app_r regs1 regs2 g :
  (forall rho, In rho regs2 -> inside (snd g) rho = false) ->
  spec_cell (regs1 ++ regs2) g = spec_cell regs1 g.
Proof.
  destruct g as [lbl [[[r c] h] w]]. cbn [snd]. intros H. unfold spec_cell.
  rewrite !edge_app_r; try reflexivity; intros rho Hr; apply (on_false _ _ (H rho Hr)).
Qed.

Lemma spec_cell_app_l regs1 regs2 g :
  (forall rho, In rho regs1 -> inside (snd g) rho = false) ->
  spec_cell (regs1 ++ regs2) g = spec_cell regs2 g.
Proof.
  destruct g as [lbl [[[r c] h] w]]. cbn [snd]. intros H. unfold spec_cell.
  rewrite !edge_app_l; try reflexivity; intros rho Hr; apply (on_false _ _ (H rho Hr)).
Qed.

Lemma spec_cell_none regs g :
  (forall rho, In rho regs -> inside (snd g) rho = false) -> spec_cell regs g = spec_cell [] g.
Proof. intros H. apply (spec_cell_app_r [] regs g H). Qed.

Lemma spec_cell_dup rho regs g : spec_cell (rho :: rho :: regs) g = spec_cell (rho :: regs) g.
Proof.
  destruct g as [lbl [[[r c] h] w]]. unfold spec_cell. rewrite !edge_cons.
  destruct (on_left _ rho), (on_right _ rho), (on_top _ rho), (on_bottom _ rho); reflexivity.
Qed.

Lemma inside_spec g rho :
  inside g rho = true <->
  r_row rho <= r_row g /\ r_row g + r_h g <= r_row rho + r_h rho
  /\ r_col rho <= r_col g /\ r_col g + r_w g <= r_col rho + r_w rho.
Proof.
  destruct g as [[[r c] h] w], rho as [[[r' c'] h'] w'].
  unfold inside, r_row, r_col, r_h, r_w; cbn [fst snd]. lia.
Qed.

Lemma within_inside g r c h w : within g r c h w -> inside g (r, c, h, w) = true.
Proof. intros H. apply inside_spec. unfold within, r_row, r_col, r_h, r_w in *. cbn [fst snd]. lia. Qed.

Lemma not_inside g rho :
  positive g ->
  (r_row g < r_row rho \/ r_row rho + r_h rho <= r_row g
   \/ r_col g < r_col rho \/ r_col rho + r_w rho <= r_col g) ->
  inside g rho = false.
Proof.
  intros [Hh Hw] H. destruct (inside g rho) eqn:E; [|reflexivity].
  apply inside_spec in E. lia.
Qed.

Definition ncells (p : path) (t : ltree) (r0 c0 w : N) : list entry :=
  map (spec_cell (regions t r0 c0 w)) (place p t r0 c0 w).

(** ** Stacked inputs *)
Section Inputs.
  Variables (p : path) (c0 win : N).

  Definition IHprop (x : ltree) : Prop :=
    forall q r0 c0 w, wf_at false x = true -> width x <= w ->
      shift r0 c0 (pad_spec (width x) w (t_cells (alayout false q x))) = ncells q x r0 c0 w.

  (** The stacked, padded input tables are the inputs' specified cells, band by band. *)
  Lemma inputs_cells r0 : forall l i ro,
    Forall IHprop l -> forallb (wf_at false) l = true -> (forall x, In x l -> width x <= win) ->
    shift r0 c0 (combine_go true ro 0
                   (map (apad win) (map_i (fun i x => alayout false (p ++ [i]) x) i l)))
    = stack_i (fun i x r => ncells (p ++ [i]) x r c0 win) height i l (r0 + ro).
  Proof.
    induction l as [|x l IH]; intros i ro HF Hwf Hw; [reflexivity|].
    inversion HF as [|? ? Hx HF']; subst.
    simpl in Hwf. apply andb_true_iff in Hwf as [Hwx Hwf].
    assert (Hwin : width x <= win) by (apply Hw; left; reflexivity).
    destruct (alayout_dims x false (p ++ [i]) Hwx) as [Hr Hc].
    cbn [map_i map combine_go stack_i]. rewrite shift_app, shift_shift.
    rewrite apad_rows, Hr, apad_cells by lia. rewrite Hc.
    replace (ro + r0) with (r0 + ro) by lia. rewrite N.add_0_l.
    rewrite (Hx (p ++ [i]) (r0 + ro) c0 win Hwx Hwin). f_equal.
    rewrite (IH (S i) (ro + height x) HF' Hwf (fun y Hy => Hw y (or_intror Hy))).
    f_equal. lia.
  Qed.

  Lemma stack_regions_rows : forall l i r rho,
    forallb (wf_at false) l = true -> (forall x, In x l -> width x <= win) ->
    In rho (stack_i (fun _ x r => regions x r c0 win) height i l r) ->
    r <= r_row rho /\ r_col rho + r_w rho <= c0 + win.
  Proof.
    intros l i r rho Hwf Hw Hin.
    apply in_stack_i in Hin as (pre & x & post & -> & Hin).
    rewrite forallb_app in Hwf. apply andb_true_iff in Hwf as [_ Hwf].
    simpl in Hwf. apply andb_true_iff in Hwf as [Hx _].
    assert (Hwx : width x <= win) by (apply Hw; apply in_or_app; right; left; reflexivity).
    pose proof (regions_within x _ _ _ Hx Hwx rho Hin) as Hin'. unfold within in Hin'. lia.
  Qed.

  (** Regions of other bands do not touch a band's cells. *)
  Lemma inputs_spec : forall l i r pre,
    forallb (wf_at false) l = true -> (forall x, In x l -> width x <= win) ->
    (forall rho, In rho pre -> r_row rho + r_h rho <= r) ->
    map (spec_cell (pre ++ stack_i (fun _ x r => regions x r c0 win) height i l r))
        (stack_i (fun i x r => place (p ++ [i]) x r c0 win) height i l r)
    = stack_i (fun i x r => ncells (p ++ [i]) x r c0 win) height i l r.
  Proof.
    induction l as [|x l IH]; intros i r pre Hwf Hw Hpre; [reflexivity|].
    assert (Hwl := Hwf). simpl in Hwf. apply andb_true_iff in Hwf as [Hwx Hwf].
    assert (Hwin : width x <= win) by (apply Hw; left; reflexivity).
    cbn [stack_i]. rewrite map_app. f_equal.
    - unfold ncells. apply map_ext_in. intros g Hg.
      destruct (place_within x _ _ _ _ Hwx Hwin g Hg) as [Hin Hpos]. unfold within in Hin.
      rewrite spec_cell_app_l.
      2:{ intros rho Hrho. apply not_inside; [exact Hpos|]. specialize (Hpre rho Hrho). lia. }
      apply spec_cell_app_r. intros rho Hrho. apply not_inside; [exact Hpos|].
      apply stack_regions_rows in Hrho as [Hrow _]; auto.
      + destruct Hpos. lia.
      + intros y Hy. apply Hw. right. exact Hy.
    - rewrite app_assoc. apply IH; auto.
      + intros y Hy. apply Hw. right. exact Hy.
      + intros rho Hrho. apply in_app_or in Hrho as [Hrho|Hrho].
        * specialize (Hpre rho Hrho). lia.
        * pose proof (regions_within x _ _ _ Hwx Hwin rho Hrho) as Hin. unfold within in Hin. lia.
  Qed.
End Inputs.

Lemma entry1_eq (a b a' b' : N) lbl (h w h' w' : N) bl br bt bb :
  a = a' -> b = b' -> h = h' -> w = w' ->
  [(a, b, mkCell lbl h w bl br bt bb)] = [(a', b', mkCell lbl h' w' bl br bt bb)].
Proof. intros; subst; reflexivity. Qed.

Lemma entry_eq (a b a' b' : N) lbl (h w h' w' : N) bl br bt bb :
  a = a' -> b = b' -> h = h' -> w = w' ->
  (a, b, mkCell lbl h w bl br bt bb) = (a', b', mkCell lbl h' w' bl br bt bb).
Proof. intros; subst; reflexivity. Qed.

Lemma plain_leaf_cell (ref : bool) q r0 c0 w :
  shift r0 c0 (pad_spec 1 w [(0, 0, plain (if ref then KReference else KIngredient, q) 1 1)])
  = ncells q (LLeaf ref) r0 c0 w.
Proof.
  unfold ncells, pad_spec, pad_entry, shift, shift_entry, set_cols, spec_cell, edge, plain,
    e_row, e_col, e_cols, e_cell.
  cbn [map fst snd c_cols c_rows c_label c_bl c_br c_bt c_bb place regions existsb].
  replace (0 + 1 =? 1) with true by reflexivity. cbn [fst snd c_cols c_rows c_label c_bl c_br c_bt c_bb].
  destruct ref; unfold is_outputs, leaf_kind; cbn [fst]; apply entry1_eq; lia.
Qed.

Theorem nested_refine : forall t, IHprop t.
Proof.
  induction t as [ref|ins IH|body n show IH] using ltree_ind2; intros q r0 c0 w Hwf Hw.
  - (* leaf *) apply plain_leaf_cell.
  - (* step *)
    assert (Hwf' := Hwf). simpl in Hwf. apply andb_true_iff in Hwf as [Hne Hwf].
    set (win := list_max (map width ins)) in *.
    assert (Hwin : forall x, In x ins -> width x <= win).
    { intros x Hx. apply list_max_ge. apply in_map. exact Hx. }
    cbn [width] in Hw. fold win in Hw.
    assert (Hdims : Forall (fun x => forall q', t_rows (alayout false q' x) = height x
                                              /\ t_cols (alayout false q' x) = width x) ins).
    { apply Forall_forall. intros x Hx q'. apply alayout_dims.
      rewrite forallb_forall in Hwf. auto. }
    assert (Hic : list_max (map t_cols (map_i (fun i x => alayout false (q ++ [i]) x) 0%nat ins)) = win).
    { unfold win. f_equal. apply map_i_ext. eapply Forall_impl; [|exact Hdims].
      intros x Hx q'. apply Hx. }
    (* the tilings of the intermediate tables *)
    assert (HT : Forall (fun x => forall b q', wf_at b x = true ->
                           layout b q' x = Ok (alayout b q' x) /\ TilingT (alayout b q' x)) ins).
    { apply Forall_forall. intros x _ b q'. apply layout_ok. }
    destruct (inputs_ok q ins HT Hwf 0%nat) as [_ T1].
    set (its := map_i (fun i x => alayout false (q ++ [i]) x) 0%nat ins) in *.
    destruct (pads_ok win its T1) as [_ F2].
    { intros t Ht. rewrite <- Hic. apply list_max_ge. apply in_map. exact Ht. }
    assert (Hits : map (apad win) its <> []).
    { unfold its. destruct ins; [discriminate|]. simpl. discriminate. }
    destruct (vstack_ok win (map (apad win) its) Hits F2) as [_ (HRc & HCc & HTc)].
    (* unfold the table *)
    cbn [alayout]. fold its. rewrite Hic.
    set (combined := avstack win (map (apad win) its)) in *.
    assert (Hrows : t_rows combined = list_sum (map height ins)).
    { unfold combined, avstack. cbn [t_rows]. rewrite map_map.
      erewrite (map_ext _ t_rows) by (intros; apply apad_rows).
      unfold its. apply f_equal. apply map_i_ext. eapply Forall_impl; [|exact Hdims].
      intros x Hx q'. apply Hx. }
    unfold ahjuxt, asingle. cbn [t_cells combine_go t_cols c_cols plain].
    rewrite shift_0, app_nil_r. cbn [width]. fold win.
    rewrite pad_app, shift_app.
    rewrite pad_noop.
    2:{ intros e He. apply (tiling_bounds _ _ _ _ HTc) in He. unfold in_bounds in He.
        unfold combined, avstack in He. cbn [t_cols] in He. lia. }
    change (t_cols combined) with win.
    unfold ncells. cbn [place regions]. fold win. rewrite map_app. f_equal.
    + (* the inputs *)
      unfold combined, avstack. cbn [t_cells]. unfold its.
      rewrite (inputs_cells q c0 win r0 ins 0%nat 0 IH Hwf Hwin), N.add_0_r.
      symmetry. apply (inputs_spec q c0 win ins 0%nat r0 [] Hwf Hwin). intros rho [].
    + (* the step's own cell *)
      cbn [map]. rewrite spec_cell_none.
      2:{ intros rho Hrho. cbn [snd].
          apply stack_regions_rows in Hrho as [_ Hcol]; auto.
          assert (Hh : 1 <= list_sum (map height ins)).
          { rewrite <- Hrows. lia. }
          apply not_inside.
          - unfold positive, r_h, r_w; cbn [fst snd]. lia.
          - unfold r_row, r_col, r_h, r_w in *; cbn [fst snd] in *. lia. }
      rewrite Hrows.
      unfold pad_spec, pad_entry, shift, shift_entry, set_cols, spec_cell, edge, plain,
        e_row, e_col, e_cols, e_cell.
      cbn [map fst snd c_cols c_rows c_label c_bl c_br c_bt c_bb existsb].
      replace (0 + (0 + win) + 1 =? win + 1) with true by lia.
      cbn [fst snd c_cols c_rows c_label c_bl c_br c_bt c_bb].
      unfold is_outputs; cbn [fst]. apply entry1_eq; lia.
  - (* single-output sub recipe *)
    simpl in Hwf. apply andb_true_iff in Hwf as [Hn Hwf].
    assert (En : Nat.eqb n 1 = true) by (apply andb_true_iff in Hn as [_ Hn]; exact Hn).
    destruct (layout_ok body false (q ++ [0%nat]) Hwf) as [_ (HR & HC & HT)].
    destruct (alayout_dims body false (q ++ [0%nat]) Hwf) as [Hr Hc].
    destruct (dims_pos body false Hwf) as [Hh1 Hw1].
    cbn [width] in Hw. rewrite En in Hw.
    unfold ncells. cbn [alayout place regions width height]. rewrite En.
    set (sub := alayout false (q ++ [0%nat]) body) in *.
    specialize (IH (q ++ [0%nat])). fold sub in IH.
    destruct show.
    + (* titled: header above the body *)
      unfold aborder, avstack, asingle.
      cbn [t_cells t_rows t_cols combine_go map list_sum fold_right c_rows c_cols plain].
      rewrite shift_0, app_nil_r, N.add_0_r, N.add_0_l, Hr, Hc.
      rewrite pad_border.
      2:{ intros e [<-|He].
          - unfold e_col, e_cols, e_cell, plain; cbn [fst snd c_cols]. lia.
          - apply in_map_iff in He as (e0 & <- & He0).
            apply (tiling_bounds _ _ _ _ HT) in He0. unfold in_bounds in He0.
            unfold shift_entry, e_col, e_cols, e_cell in *; cbn [fst snd] in *. lia. }
      2:{ exact Hw. }
      rewrite shift_border.
      rewrite pad_app, pad_shift_rows, shift_app, shift_shift, N.add_0_l.
      replace (1 + r0) with (r0 + 1) by lia.
      rewrite (IH (r0 + 1) c0 w Hwf Hw).
      rewrite map_app.
      match goal with |- _ = ?x :: ?C => change (x :: C) with ([x] ++ C) end.
      f_equal.
      * (* the header *)
        rewrite <- (border_at_spec (r0, c0, 1 + height body, w) (regions body (r0 + 1) c0 w)).
        2:{ cbn [snd]. apply within_inside. unfold within, r_row, r_col, r_h, r_w; cbn [fst snd]. lia. }
        match goal with |- _ = [border_entry_at ?rho ?b ?x] =>
          change [border_entry_at rho b x] with (map (border_entry_at rho b) [x]) end.
        f_equal. rewrite spec_cell_none.
        2:{ intros rho Hrho. cbn [snd].
            pose proof (regions_within body _ _ _ Hwf Hw rho Hrho) as Hin. unfold within in Hin.
            apply not_inside.
            - unfold positive, r_h, r_w; cbn [fst snd]. lia.
            - unfold r_row, r_col, r_h, r_w in *; cbn [fst snd] in *. lia. }
        unfold pad_spec, pad_entry, shift, shift_entry, set_cols, spec_cell, edge, plain,
          e_row, e_col, e_cols, e_cell.
        cbn [map fst snd c_cols c_rows c_label c_bl c_br c_bt c_bb existsb].
        replace (0 + width body =? width body) with true by lia.
        cbn [fst snd c_cols c_rows c_label c_bl c_br c_bt c_bb].
        unfold is_outputs; cbn [fst]. apply entry1_eq; lia.
      * (* the body *)
        unfold ncells. rewrite map_map. apply map_ext_in. intros g Hg.
        apply border_at_spec.
        destruct (place_within body _ _ _ _ Hwf Hw g Hg) as [Hin _].
        apply within_inside. unfold within in *. lia.
    + (* untitled: the body with a border *)
      unfold aborder. cbn [t_cells t_rows t_cols]. rewrite Hr, Hc.
      rewrite pad_border.
      2:{ intros e He. apply (tiling_bounds _ _ _ _ HT) in He. unfold in_bounds in He.
          rewrite Hc in He. lia. }
      2:{ exact Hw. }
      rewrite shift_border. rewrite (IH r0 c0 w Hwf Hw).
      unfold ncells. rewrite map_map. apply map_ext_in. intros g Hg.
      apply border_at_spec.
      destruct (place_within body _ _ _ _ Hwf Hw g Hg) as [Hin _].
      apply within_inside. exact Hin.
Qed.

(** ** Whole tables *)
Lemma nested_cells t p :
  wf_at false t = true -> t_cells (alayout false p t) = ncells p t 0 0 (width t).
Proof.
  intros Hwf. rewrite <- (nested_refine t p 0 0 (width t) Hwf (N.le_refl _)).
  rewrite pad_spec_id, shift_0. reflexivity.
Qed.

Lemma bordered_cells t p :
  wf_at false t = true ->
  border_spec (height t) (width t) BSub (t_cells (alayout false p t))
  = map (spec_cell ((0, 0, height t, width t) :: regions t 0 0 (width t)))
        (place p t 0 0 (width t)).
Proof.
  intros Hwf. rewrite <- (shift_0 (border_spec _ _ _ _)), shift_border, shift_0.
  rewrite (nested_cells t p Hwf). unfold ncells. rewrite map_map. apply map_ext_in. intros g Hg.
  apply border_at_spec.
  destruct (place_within t _ _ _ _ Hwf (N.le_refl _) g Hg) as [Hin _].
  apply within_inside. exact Hin.
Qed.

Theorem alayout_spec t : wf t = true -> alayout true [] t = spec_table t.
Proof.
  unfold wf, spec_table, bordered_regions. intros Hwf. destruct t as [ref|ins|body n show].
  - destruct ref; reflexivity.
  - assert (Hwf' : wf_at false (LStep ins) = true) by exact Hwf.
    destruct (alayout_dims (LStep ins) false [] Hwf') as [Hr Hc].
    change (alayout true [] (LStep ins)) with (aborder BSub (alayout false [] (LStep ins))).
    unfold aborder. rewrite Hr, Hc. f_equal. apply (bordered_cells (LStep ins) [] Hwf').
  - simpl in Hwf. apply andb_true_iff in Hwf as [Hn Hwf].
    destruct (Nat.eqb n 1) eqn:En.
    + assert (Hwf' : wf_at false (LSub body n show) = true).
      { simpl. rewrite En, Hwf. apply andb_true_iff in Hn as [Hn _]. rewrite Hn. reflexivity. }
      change (alayout true [] (LSub body n show)) with (alayout false [] (LSub body n show)).
      destruct (alayout_dims _ false [] Hwf') as [Hr Hc].
      rewrite <- (table_eta (alayout false [] (LSub body n show))). rewrite Hr, Hc. f_equal.
      rewrite (nested_cells _ [] Hwf'). unfold ncells. apply map_ext. intros g.
      unfold root_region. cbn [regions]. rewrite En. symmetry. apply spec_cell_dup.
    + destruct (alayout_dims body false [0%nat] Hwf) as [Hr Hc].
      destruct (dims_pos body false Hwf) as [Hh1 Hw1].
      cbn [alayout place regions height width root_region app]. rewrite En.
      unfold ahjuxt, aborder, asingle.
      cbn [t_rows t_cols t_cells combine_go c_rows c_cols]. rewrite Hr, Hc.
      f_equal. rewrite shift_0, app_nil_r, map_app. f_equal.
      * apply (bordered_cells body [0%nat] Hwf).
      * cbn [map]. rewrite spec_cell_none.
        2:{ intros rho Hrho. cbn [snd]. apply not_inside.
            - unfold positive, r_h, r_w; cbn [fst snd]. lia.
            - destruct Hrho as [<-|Hrho].
              + unfold r_row, r_col, r_h, r_w; cbn [fst snd]. lia.
              + pose proof (regions_within body _ _ _ Hwf (N.le_refl _) rho Hrho) as Hin.
                unfold within, r_row, r_col, r_h, r_w in *; cbn [fst snd] in *. lia. }
        unfold shift, shift_entry, spec_cell, edge, e_row, e_col, e_cell.
        cbn [map fst snd existsb]. unfold is_outputs; cbn [fst]. apply entry1_eq; lia.
Qed.

(** The model of the code equals the specification. *)
Theorem layout_refines_spec t :
  wf t = true -> recipe_tree_to_table t = Ok (spec_table t).
Proof.
  intros Hwf. unfold recipe_tree_to_table.
  destruct (layout_ok t true [] Hwf) as [E _]. rewrite E, (alayout_spec t Hwf). reflexivity.
Qed.
