(** * Glue: iterated scaling keeps the drawing.

    [recipe.scale(k1).scale(k2)...] of anything compiled from source text: every
    tree keeps its skeleton (so the table - positions, extents, borders, labels
    - is the one of the unscaled tree, block by block and tree by tree), is well
    formed for layout and is drawable.  On top of Proofs/PipelineWf.v (one
    factor) and Proofs/GlueValid.v ([scale_blocks_iter]). *)
From Coq Require Import List ZArith NArith Bool.
From RG Require Import Base.Str Base.Num Model.Recipe Model.Compiler Model.CompilerInst Model.Parser
  Model.Table Model.Layout Model.HtmlTable Spec.LayoutSpec Proofs.PipelineWf Proofs.GlueValid.
Import ListNotations.

Lemma map_opt_skeleton k : forall ts ts', map_opt (scale_node k) ts = Some ts' ->
  map ltree_of_node ts' = map ltree_of_node ts.
Proof.
  induction ts as [|t ts IH]; intros ts' H; simpl in H.
  - inversion H; subst. reflexivity.
  - destruct (scale_node k t) as [t1|] eqn:Et; [|discriminate].
    destruct (map_opt (scale_node k) ts) as [ts1|] eqn:Es; [|discriminate].
    inversion H; subst. simpl. rewrite (scale_node_skeleton k t t1 Et). f_equal. apply IH. reflexivity.
Qed.

Lemma scale_blocks_skeleton k : forall bs bs', scale_blocks k bs = Some bs' ->
  map (map ltree_of_node) bs' = map (map ltree_of_node) bs.
Proof.
  unfold scale_blocks.
  induction bs as [|b bs IH]; intros bs' H; simpl in H.
  - inversion H; subst. reflexivity.
  - destruct (map_opt (scale_node k) b) as [b1|] eqn:Eb; [|discriminate].
    destruct (map_opt (map_opt (scale_node k)) bs) as [bs1|] eqn:Es; [|discriminate].
    inversion H; subst. simpl. rewrite (map_opt_skeleton k b b1 Eb). f_equal. apply IH. reflexivity.
Qed.

Theorem scale_iter_skeleton : forall ks bs bs', scale_blocks_iter ks bs = Some bs' ->
  map (map ltree_of_node) bs' = map (map ltree_of_node) bs.
Proof.
  induction ks as [|k ks IH]; intros bs bs' H; simpl in H.
  - inversion H; subst. reflexivity.
  - destruct (scale_blocks k bs) as [bs1|] eqn:E; [|discriminate].
    rewrite (IH bs1 bs' H). exact (scale_blocks_skeleton k bs bs1 E).
Qed.

Lemma scale_iter_keeps_wf : forall ks bs bs', scale_blocks_iter ks bs = Some bs' ->
  (forall trees t, In trees bs -> In t trees -> wf (ltree_of_node t) = true) ->
  forall trees t, In trees bs' -> In t trees -> wf (ltree_of_node t) = true.
Proof.
  induction ks as [|k ks IH]; intros bs bs' H W; simpl in H.
  - inversion H; subst. exact W.
  - destruct (scale_blocks k bs) as [bs1|] eqn:E; [|discriminate].
    eapply IH; [exact H|]. eapply scale_blocks_wf; eauto.
Qed.

Theorem compiled_iter_scaled_trees_drawable convert tol lower p bs ks bs' :
  ast_steps_nonempty p = true ->
  compile_ast convert tol lower p = COk bs ->
  scale_blocks_iter ks bs = Some bs' ->
  forall trees' t', In trees' bs' -> In t' trees' ->
    wf (ltree_of_node t') = true /\ drawable (ltree_of_node t').
Proof.
  intros Hp H Hs trees' t' Hb Ht.
  assert (Hw : wf (ltree_of_node t') = true).
  { eapply scale_iter_keeps_wf; [exact Hs| |exact Hb|exact Ht]. eapply compile_output_wf; eauto. }
  split; [exact Hw|apply wf_drawable; exact Hw].
Qed.

Theorem src_iter_scaled_trees_drawable srcs bs ks bs' :
  compile_src srcs = SrcOk bs ->
  scale_blocks_iter ks bs = Some bs' ->
  forall trees' t', In trees' bs' -> In t' trees' ->
    wf (ltree_of_node t') = true /\ drawable (ltree_of_node t').
Proof.
  intros H Hs trees' t' Hb Ht.
  assert (Hw : wf (ltree_of_node t') = true).
  { eapply scale_iter_keeps_wf; [exact Hs| |exact Hb|exact Ht]. eapply compile_src_output_wf; eauto. }
  split; [exact Hw|apply wf_drawable; exact Hw].
Qed.

(** The table of every tree of the scaled recipe IS the table of the tree at
    the same position of the unscaled recipe. *)
Theorem src_iter_scaled_same_tables srcs bs ks bs' :
  compile_src srcs = SrcOk bs ->
  scale_blocks_iter ks bs = Some bs' ->
  map (map (fun t => recipe_tree_to_table (ltree_of_node t))) bs'
  = map (map (fun t => recipe_tree_to_table (ltree_of_node t))) bs.
Proof.
  intros _ Hs. pose proof (scale_iter_skeleton ks bs bs' Hs) as E.
  assert (G : forall (l : list (list node)),
    map (map (fun t => recipe_tree_to_table (ltree_of_node t))) l
    = map (map recipe_tree_to_table) (map (map ltree_of_node) l)).
  { intro l. rewrite map_map. apply map_ext. intro a. now rewrite map_map. }
  rewrite (G bs'), (G bs), E. reflexivity.
Qed.
