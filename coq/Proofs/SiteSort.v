(** * Python's [sorted(key=(title, name))] does not depend on the input order when the keys
      are pairwise distinct (C17); its result is ordered and a permutation (C15). *)
From Coq Require Import List NArith Bool Arith Lia Permutation Sorted.
From RG Require Import Base.Str Model.Site.
Import ListNotations.
Open Scope N_scope.

(** ** Code-point order on strings *)

Lemma str_leb_refl a : str_leb a a = true.
Proof. induction a as [|x a IH]; simpl; [reflexivity|]. rewrite N.ltb_irrefl. exact IH. Qed.

Lemma str_leb_total a b : str_leb a b = true \/ str_leb b a = true.
Proof.
  revert b. induction a as [|x a IH]; intros [|y b]; simpl; auto.
  destruct (x <? y) eqn:E1; [auto|]. destruct (y <? x) eqn:E2; [auto|]. apply IH.
Qed.

Lemma str_leb_antisym a b : str_leb a b = true -> str_leb b a = true -> a = b.
Proof.
  revert b. induction a as [|x a IH]; intros [|y b]; simpl; intros H1 H2; try discriminate; [reflexivity|].
  destruct (x <? y) eqn:E1; destruct (y <? x) eqn:E2; try discriminate.
  - apply N.ltb_lt in E1, E2. lia.
  - apply N.ltb_ge in E1, E2. assert (x = y) by lia. subst. f_equal. apply IH; assumption.
Qed.

Lemma str_leb_trans a b c : str_leb a b = true -> str_leb b c = true -> str_leb a c = true.
Proof.
  revert b c. induction a as [|x a IH]; intros [|y b] [|z c]; simpl; intros H1 H2; try discriminate; try reflexivity.
  destruct (x <? y) eqn:E1.
  - apply N.ltb_lt in E1. destruct (y <? z) eqn:E2.
    + apply N.ltb_lt in E2. replace (x <? z) with true; [reflexivity | symmetry; apply N.ltb_lt; lia].
    + destruct (z <? y) eqn:E3; [discriminate|]. apply N.ltb_ge in E2, E3.
      replace (x <? z) with true; [reflexivity | symmetry; apply N.ltb_lt; lia].
  - destruct (y <? x) eqn:E1'; [discriminate|]. apply N.ltb_ge in E1, E1'. assert (x = y) by lia. subst y.
    destruct (x <? z) eqn:E2; [reflexivity|]. destruct (z <? x) eqn:E3; [discriminate|].
    eapply IH; eassumption.
Qed.

(** ** The order on keys *)

Lemma key_leb_refl k : key_leb k k = true.
Proof. unfold key_leb. rewrite str_eqb_refl. apply str_leb_refl. Qed.

Lemma str_eqb_sym a b : str_eqb a b = str_eqb b a.
Proof.
  destruct (str_eqb a b) eqn:E1; destruct (str_eqb b a) eqn:E2; try reflexivity.
  - apply str_eqb_eq in E1. subst. rewrite str_eqb_refl in E2. discriminate.
  - apply str_eqb_eq in E2. subst. rewrite str_eqb_refl in E1. discriminate.
Qed.

Lemma key_leb_total k1 k2 : key_leb k1 k2 = true \/ key_leb k2 k1 = true.
Proof.
  unfold key_leb. rewrite (str_eqb_sym (fst k2)). destruct (str_eqb (fst k1) (fst k2)); apply str_leb_total.
Qed.

Lemma key_leb_antisym k1 k2 : key_leb k1 k2 = true -> key_leb k2 k1 = true -> k1 = k2.
Proof.
  unfold key_leb. rewrite (str_eqb_sym (fst k2)). destruct k1 as [t1 n1], k2 as [t2 n2]. simpl.
  destruct (str_eqb t1 t2) eqn:E; intros H1 H2.
  - apply str_eqb_eq in E. subst. f_equal. apply str_leb_antisym; assumption.
  - assert (t1 = t2) by (apply str_leb_antisym; assumption). subst. rewrite str_eqb_refl in E. discriminate.
Qed.

Lemma key_leb_trans k1 k2 k3 : key_leb k1 k2 = true -> key_leb k2 k3 = true -> key_leb k1 k3 = true.
Proof.
  unfold key_leb. destruct k1 as [t1 n1], k2 as [t2 n2], k3 as [t3 n3]. simpl.
  destruct (str_eqb t1 t2) eqn:E12; destruct (str_eqb t2 t3) eqn:E23; intros H1 H2.
  - apply str_eqb_eq in E12, E23. subst. rewrite str_eqb_refl. eapply str_leb_trans; eassumption.
  - apply str_eqb_eq in E12. subst. rewrite E23. exact H2.
  - apply str_eqb_eq in E23. subst. rewrite E12. exact H1.
  - destruct (str_eqb t1 t3) eqn:E13.
    + apply str_eqb_eq in E13. subst t3.
      assert (t1 = t2) by (apply str_leb_antisym; assumption). subst. rewrite str_eqb_refl in E12. discriminate.
    + eapply str_leb_trans; eassumption.
Qed.

(** ** Insertion sort *)

Section Sort.
Context {A : Type}.
Variable key : A -> str * str.

Lemma insert_by_perm x l : Permutation (x :: l) (insert_by key x l).
Proof.
  induction l as [|y l IH]; simpl; [apply Permutation_refl|].
  destruct (key_leb (key x) (key y)); [apply Permutation_refl|].
  eapply Permutation_trans; [apply perm_swap|]. apply perm_skip. exact IH.
Qed.

Lemma sort_by_perm l : Permutation l (sort_by key l).
Proof.
  induction l as [|x l IH]; simpl; [constructor|].
  eapply Permutation_trans; [apply perm_skip; exact IH|]. apply insert_by_perm.
Qed.

Definition key_le (a b : A) : Prop := key_leb (key a) (key b) = true.

Lemma insert_by_sorted x l : Sorted key_le l -> Sorted key_le (insert_by key x l).
Proof.
  induction l as [|y l IH]; intro Hs; simpl; [repeat constructor|].
  destruct (key_leb (key x) (key y)) eqn:E.
  - constructor; [exact Hs|]. constructor. exact E.
  - inversion Hs as [|? ? Hs' Hhd]; subst. constructor; [apply IH; exact Hs'|].
    destruct l as [|z l]; simpl.
    + constructor. destruct (key_leb_total (key x) (key y)) as [H|H]; [congruence | exact H].
    + destruct (key_leb (key x) (key z)).
      * constructor. destruct (key_leb_total (key x) (key y)) as [H|H]; [congruence | exact H].
      * inversion Hhd; subst. constructor. assumption.
Qed.

Theorem sort_by_sorted l : Sorted key_le (sort_by key l).
Proof. induction l as [|x l IH]; simpl; [constructor|]. apply insert_by_sorted. exact IH. Qed.

(** Two insertions commute when the keys differ. *)
Lemma insert_by_comm_lt x y l :
  key_leb (key x) (key y) = true -> key_leb (key y) (key x) = false ->
  insert_by key x (insert_by key y l) = insert_by key y (insert_by key x l).
Proof.
  intros Hxy Hyx. induction l as [|z l IH]; simpl.
  - rewrite Hxy, Hyx. reflexivity.
  - destruct (key_leb (key x) (key z)) eqn:Exz; destruct (key_leb (key y) (key z)) eqn:Eyz; simpl.
    + rewrite Hxy, Hyx. simpl. rewrite Eyz. reflexivity.
    + rewrite Exz, Hyx. simpl. rewrite Eyz. reflexivity.
    + exfalso. assert (key_leb (key x) (key z) = true) by (eapply key_leb_trans; eassumption). congruence.
    + rewrite Exz, Eyz. f_equal. exact IH.
Qed.

Lemma insert_by_comm x y l : key x <> key y ->
  insert_by key x (insert_by key y l) = insert_by key y (insert_by key x l).
Proof.
  intro Hne.
  destruct (key_leb (key x) (key y)) eqn:Exy; destruct (key_leb (key y) (key x)) eqn:Eyx.
  - exfalso. apply Hne. apply key_leb_antisym; assumption.
  - apply insert_by_comm_lt; assumption.
  - symmetry. apply insert_by_comm_lt; assumption.
  - destruct (key_leb_total (key x) (key y)); congruence.
Qed.

(** [sorted] of a list with pairwise distinct keys is the same for every listing order. *)
Theorem sort_by_permutation l l' :
  Permutation l l' -> NoDup (map key l) -> sort_by key l = sort_by key l'.
Proof.
  intro HP. induction HP as [|x l l' HP IH|x y l|l l' l'' HP1 IH1 HP2 IH2]; intro Hnd.
  - reflexivity.
  - simpl. inversion Hnd; subst. f_equal. apply IH. assumption.
  - simpl. apply insert_by_comm. simpl in Hnd. inversion Hnd as [|? ? Hni _]; subst.
    intro Heq. apply Hni. left. symmetry. exact Heq.
  - rewrite IH1 by exact Hnd. apply IH2.
    eapply Permutation_NoDup; [|exact Hnd]. apply Permutation_map. exact HP1.
Qed.

(** The titles of a sorted list are in non-decreasing order ("listed by title"). *)
Lemma key_le_title a b : key_le a b -> str_leb (fst (key a)) (fst (key b)) = true.
Proof.
  unfold key_le, key_leb. destruct (str_eqb (fst (key a)) (fst (key b))) eqn:E; intro H; [|exact H].
  apply str_eqb_eq in E. rewrite E. apply str_leb_refl.
Qed.

End Sort.
