(** * Symbolic compilation, part 1: induction on symbolic trees, embedding
    lemmas (shape, inferred name and quantity, occurrences). *)
From Coq Require Import List ZArith NArith Bool Lia.
From RG Require Import Base.Str Base.Num Model.Recipe Model.Compiler Spec.Valid Spec.CompileSpec Spec.CompileSym
  Proofs.RecipeInd Proofs.NodeEqv Proofs.RecipeValid Proofs.CompilerExpand
  Proofs.CompilerInvSize Proofs.CompilerInvNames Proofs.CompilerInvDefs Proofs.CompilerInvSub.
Import ListNotations.

Section SymInd.
  Variable P : sym -> Prop.
  Hypothesis HI : forall d q, P (YIng d q).
  Hypothesis HS : forall d ins, Forall P ins -> P (YStep d ins).
  Hypothesis HR : forall k i a, P (YRef k i a).
  Hypothesis HSub : forall b ns sh, P b -> P (YSub b ns sh).
  Fixpoint sym_ind' (t : sym) : P t :=
    match t with
    | YIng d q => HI d q
    | YStep d ins =>
        HS d ins ((fix go (l : list sym) : Forall P l :=
                     match l with [] => Forall_nil P | x :: r => Forall_cons x (sym_ind' x) (go r) end) ins)
    | YRef k i a => HR k i a
    | YSub b ns sh => HSub b ns sh (sym_ind' b)
    end.
End SymInd.

(** Occurrence of a reference in a symbolic tree (never through references:
    there is nothing behind a symbolic reference). *)
Inductive yocc (q : svs) (i : nat) (a : amount) : sym -> Prop :=
| yocc_here : yocc q i a (YRef q i a)
| yocc_step d ins y : In y ins -> yocc q i a y -> yocc q i a (YStep d ins)
| yocc_sub b ns sh : yocc q i a b -> yocc q i a (YSub b ns sh).

Definition ynames (t : sym) : list svs := match t with YSub _ ns _ => ns | _ => [] end.
Definition is_ysub (t : sym) : bool := match t with YSub _ _ _ => true | _ => false end.

Lemma y_embed_step en d ins :
  y_embed en (YStep d ins) =
  (Step d (map fst (map (y_embed en) ins)), forallb snd (map (y_embed en) ins)).
Proof. reflexivity. Qed.

Lemma y_embed_sub en b ns sh :
  y_embed en (YSub b ns sh) = (SubRecipe (fst (y_embed en b)) ns sh, snd (y_embed en b)).
Proof. reflexivity. Qed.

(** Successful embedding of a list of inputs, elementwise. *)
Lemma embed_list_ok en ins :
  forallb snd (map (y_embed en) ins) = true ->
  Forall2 (fun t x => y_embed en t = (x, true)) ins (map fst (map (y_embed en) ins)).
Proof.
  induction ins as [|t ins IH]; simpl; intro H; [constructor|].
  apply andb_true_iff in H. destruct H as [H1 H2]. constructor; [|auto].
  destruct (y_embed en t) as [x ok]. simpl in *. now subst.
Qed.

Lemma embed_shape en t x : y_embed en t = (x, true) ->
  is_subrecipe x = is_ysub t /\ names_of x = ynames t.
Proof.
  destruct t as [d q|d ins|k i a|b ns sh]; simpl.
  - intro H; inversion H; auto.
  - intro H; inversion H; auto.
  - destruct (eenv_lookup k en); intro H; inversion H; auto.
  - intro H; inversion H; auto.
Qed.

Lemma embed_infer_quantity en : forall t x, y_embed en t = (x, true) ->
  infer_quantity x = y_infer_quantity t.
Proof.
  induction t as [d q|d ins IH|k i a|b ns sh IH] using sym_ind'; intros x H.
  - inversion H; reflexivity.
  - rewrite y_embed_step in H. inversion H as [[Hx Hok]]. clear H.
    destruct ins as [|t1 [|t2 rest]]; try reflexivity.
    simpl in Hok |- *. inversion IH as [|? ? IH1 _]; subst. apply IH1.
    destruct (y_embed en t1) as [x1 ok1]. simpl in *. rewrite andb_true_r in Hok. now subst.
  - simpl in H. destruct (eenv_lookup k en); inversion H; reflexivity.
  - rewrite y_embed_sub in H. inversion H as [[Hx Hok]]. clear H.
    destruct ns as [|n1 [|n2 rest]]; try reflexivity. simpl. apply IH.
    destruct (y_embed en b) as [xb okb]. simpl in *. now subst.
Qed.

Lemma embed_infer_name en : forall t x, y_embed en t = (x, true) ->
  infer_output_name x = y_infer_name t.
Proof.
  induction t as [d q|d ins IH|k i a|b ns sh IH] using sym_ind'; intros x H.
  - inversion H; reflexivity.
  - rewrite y_embed_step in H. inversion H as [[Hx Hok]]. clear H.
    destruct ins as [|t1 [|t2 rest]]; try reflexivity.
    simpl in Hok |- *. inversion IH as [|? ? IH1 _]; subst. apply IH1.
    destruct (y_embed en t1) as [x1 ok1]. simpl in *. rewrite andb_true_r in Hok. now subst.
  - simpl in H. destruct (eenv_lookup k en); inversion H; reflexivity.
  - rewrite y_embed_sub in H. inversion H; reflexivity.
Qed.

(** An occurrence embeds to a reference to what the environment binds. *)
Lemma embed_occ en : forall t x q i a, y_embed en t = (x, true) -> yocc q i a t ->
  exists X, eenv_lookup q en = Some X /\ inside (Reference X i a) x.
Proof.
  induction t as [d q0|d ins IH|k i0 a0|b ns sh IH] using sym_ind'; intros x q i a H Ho.
  - inversion Ho.
  - rewrite y_embed_step in H. inversion H as [[Hx Hok]]. clear H.
    inversion Ho as [|d' ins' y Hy Hoy|]; subst.
    pose proof (embed_list_ok en ins Hok) as HF.
    rewrite Forall_forall in IH.
    assert (exists xy, In xy (map fst (map (y_embed en) ins)) /\ y_embed en y = (xy, true)) as (xy & Hxy & Hey).
    { clear -HF Hy. induction HF as [|t0 x0 l l' H0 _ IHF]; [contradiction|].
      destruct Hy as [->|Hy]; [exists x0; simpl; auto|].
      destruct (IHF Hy) as (xy & H1 & H2). exists xy. simpl; auto. }
    destruct (IH y Hy xy q i a Hey Hoy) as (X & HX & Hin). exists X. split; [exact HX|].
    eapply inside_step; eauto.
  - inversion Ho; subst. simpl in H. destruct (eenv_lookup k en) as [X|]; inversion H; subst.
    exists X. split; [reflexivity | apply inside_here].
  - rewrite y_embed_sub in H. inversion H as [[Hx Hok]]. clear H.
    inversion Ho as [| |b' ns' sh' Hob]; subst.
    destruct (y_embed en b) as [xb okb] eqn:Eb. simpl in *. subst okb.
    destruct (IH xb q i a eq_refl Hob) as (X & HX & Hin). exists X. split; [exact HX|].
    now apply inside_sub.
Qed.
