(** * The page hierarchy does not depend on the directory listing order (C17). *)
From Coq Require Import List NArith Bool Arith Lia String Permutation.
From RG Require Import Base.Str Base.Dec Model.Url Model.Href Model.Fs Model.Site Spec.SiteSpec
  Proofs.FsTree Proofs.SiteLinks Proofs.SiteHeap Proofs.SiteSort Proofs.SiteBuild Proofs.SitePages.
Import ListNotations.
Open Scope list_scope.
Open Scope N_scope.

(** ** The same tree under another listing order *)

Inductive stree_perm : stree -> stree -> Prop :=
| SP_file n d : stree_perm (SFile n d) (SFile n d)
| SP_broken n : stree_perm (SBroken n) (SBroken n)
| SP_dir n rn es mid es' :
    Forall2 stree_perm es mid -> Permutation mid es' -> stree_perm (SDir n rn es) (SDir n rn es').

Section SPInd.
Variable Q : stree -> stree -> Prop.
Hypothesis Hf : forall n d, Q (SFile n d) (SFile n d).
Hypothesis Hb : forall n, Q (SBroken n) (SBroken n).
Hypothesis Hd : forall n rn es mid es',
  Forall2 stree_perm es mid -> Forall2 Q es mid -> Permutation mid es' -> Q (SDir n rn es) (SDir n rn es').

Fixpoint stree_perm_ind' t t' (H : stree_perm t t') {struct H} : Q t t' :=
  match H in stree_perm t0 t0' return Q t0 t0' with
  | SP_file n d => Hf n d
  | SP_broken n => Hb n
  | SP_dir n rn es mid es' F P =>
      Hd n rn es mid es' F
        ((fix go (a b : list stree) (F0 : Forall2 stree_perm a b) {struct F0} : Forall2 Q a b :=
            match F0 in Forall2 _ a0 b0 return Forall2 Q a0 b0 with
            | Forall2_nil _ => Forall2_nil Q
            | Forall2_cons x y h tl => Forall2_cons x y (stree_perm_ind' x y h) (go _ _ tl)
            end) es mid F) P
  end.
End SPInd.

Lemma stree_perm_sname t t' : stree_perm t t' -> sname t = sname t' /\ is_sdir t = is_sdir t' /\ entry_data t = entry_data t'.
Proof. intro H. destruct H; repeat split. Qed.

(** ** Sequencing a partial function over a list *)

Fixpoint omap {A B} (f : A -> outcome B) (l : list A) : outcome (list B) :=
  match l with
  | [] => Ok []
  | x :: r => bind (f x) (fun y => bind (omap f r) (fun ys => Ok (y :: ys)))
  end.

Definition is_ok {A} (o : outcome A) : bool := match o with Ok _ => true | Err _ => false end.

Lemma omap_ok_iff {A B} (f : A -> outcome B) l : is_ok (omap f l) = forallb (fun x => is_ok (f x)) l.
Proof.
  induction l as [|x r IH]; [reflexivity|]. simpl. destruct (f x); simpl; [|reflexivity].
  rewrite <- IH. destruct (omap f r); reflexivity.
Qed.

Lemma omap_ok_map {A B} (f : A -> outcome B) (g : A -> B) l :
  (forall x, In x l -> f x = Ok (g x)) -> omap f l = Ok (map g l).
Proof.
  induction l as [|x r IH]; intro H; [reflexivity|]. simpl. rewrite (H x (or_introl eq_refl)). cbn [bind].
  rewrite IH; [reflexivity|]. intros y Hy. apply H. right. exact Hy.
Qed.

Lemma omap_perm {A B} (f : A -> outcome B) l l' : Permutation l l' ->
  match omap f l, omap f l' with
  | Ok r, Ok r' => Permutation r r'
  | Err _, Err _ => True
  | _, _ => False
  end.
Proof.
  intro HP.
  assert (Hok : is_ok (omap f l) = is_ok (omap f l')).
  { rewrite !omap_ok_iff. clear - HP. induction HP; simpl; try congruence.
    - destruct (is_ok (f x)), (is_ok (f y)); reflexivity. }
  destruct (omap f l) as [r|e] eqn:E1; destruct (omap f l') as [r'|e'] eqn:E2; simpl in Hok; try discriminate; auto.
  clear Hok. revert r r' E1 E2. induction HP as [|x l l' HP IH|x y l|l l' l'' HP1 IH1 HP2 IH2]; intros r r' E1 E2.
  - inversion E1; inversion E2; subst. constructor.
  - simpl in E1, E2. destruct (f x) as [y|e]; [|discriminate]. cbn [bind] in *.
    destruct (omap f l) as [r0|]; [|discriminate]. destruct (omap f l') as [r0'|]; [|discriminate].
    cbn [bind] in *. inversion E1; inversion E2; subst. constructor. apply IH; reflexivity.
  - simpl in E1, E2. destruct (f y) as [b|e]; [|discriminate]. destruct (f x) as [a|e]; [|discriminate].
    cbn [bind] in *. destruct (omap f l) as [r0|]; [|discriminate]. cbn [bind] in *.
    inversion E1; inversion E2; subst. apply perm_swap.
  - destruct (omap f l') as [rm|em] eqn:Em.
    + eapply Permutation_trans; [apply IH1 | apply IH2]; auto.
    + exfalso. assert (H : is_ok (omap f l) = is_ok (omap f l')).
      { rewrite !omap_ok_iff. clear - HP1. induction HP1; simpl; try congruence.
        destruct (is_ok (f x)), (is_ok (f y)); reflexivity. }
      rewrite E1, Em in H. discriminate.
Qed.

(** Element-wise related inputs with related results. *)
Lemma omap_rel {A B} (f g : A -> outcome B) (R : A -> A -> Prop) l l' :
  Forall2 R l l' ->
  (forall x y, In x l -> R x y -> match f x, g y with Ok a, Ok b => a = b | Err _, Err _ => True | _, _ => False end) ->
  match omap f l, omap g l' with Ok a, Ok b => a = b | Err _, Err _ => True | _, _ => False end.
Proof.
  intro HF. induction HF as [|x y l l' Hxy HF IH]; intro H; [reflexivity|]. simpl.
  pose proof (H x y (or_introl eq_refl) Hxy) as Hxy'.
  destruct (f x) as [a|e]; destruct (g y) as [b|e']; try contradiction; cbn [bind]; auto. subst b.
  assert (IH' := IH (fun x0 y0 Hin => H x0 y0 (or_intror Hin))).
  destruct (omap f l) as [ra|]; destruct (omap g l') as [rb|]; try contradiction; cbn [bind]; auto. subst. reflexivity.
Qed.

(** ** enumerate *)

Definition readmes (es : list stree) : list stree :=
  filter (fun e => negb (is_sdir e) && is_readme_name (sname e)) es.

Lemma scan_entries_spec : forall es rd acc,
  scan_entries es rd acc =
  match rd, readmes es with
  | _, [] => Ok (rd, rev acc ++ dir_recipes es)
  | None, [e] => Ok (Some (sname e, entry_data e), rev acc ++ dir_recipes es)
  | _, _ => Err EMultipleReadme
  end.
Proof.
  induction es as [|e es IH]; intros rd acc.
  - simpl. rewrite app_nil_r. destruct rd; reflexivity.
  - assert (Hfile : forall (e : stree), is_sdir e = false ->
              scan_entries (e :: es) rd acc =
              (if is_readme_name (sname e)
               then match rd with None => scan_entries es (Some (sname e, entry_data e)) acc | Some _ => Err EMultipleReadme end
               else if is_md_name (sname e) then scan_entries es rd ((sname e, entry_data e) :: acc)
               else scan_entries es rd acc)).
    { intros e0 Hd. destruct e0; try discriminate; reflexivity. }
    destruct (is_sdir e) eqn:Hd.
    + destruct e; try discriminate. cbn [scan_entries]. rewrite IH. unfold readmes. cbn [filter is_sdir negb andb dir_recipes].
      reflexivity.
    + rewrite (Hfile e Hd). unfold readmes. cbn [filter dir_recipes]. rewrite Hd. cbn [negb andb].
      destruct (is_readme_name (sname e)) eqn:Er.
      * fold (readmes es). destruct rd as [x|]; [reflexivity|].
        rewrite IH. destruct (readmes es) as [|e' [|e'' r']]; reflexivity.
      * fold (readmes es). destruct (is_md_name (sname e)).
        -- rewrite IH. cbn [rev]. destruct rd; destruct (readmes es) as [|e' [|e'' r']]; rewrite <- ?app_assoc; reflexivity.
        -- apply IH.
Qed.

Lemma filter_perm {A} (p : A -> bool) l l' : Permutation l l' -> Permutation (filter p l) (filter p l').
Proof.
  induction 1; simpl.
  - constructor.
  - destruct (p x); [constructor|]; assumption.
  - destruct (p x), (p y); try apply Permutation_refl. apply perm_swap.
  - eapply Permutation_trans; eassumption.
Qed.

Lemma dir_recipes_perm es es' : Permutation es es' -> Permutation (dir_recipes es) (dir_recipes es').
Proof.
  induction 1 as [|x l l' HP IH|x y l|l l' l'' HP1 IH1 HP2 IH2]; simpl.
  - constructor.
  - destruct (is_sdir x); [exact IH|]. destruct (is_readme_name (sname x)); [exact IH|].
    destruct (is_md_name (sname x)); [constructor; exact IH | exact IH].
  - destruct (is_sdir x), (is_sdir y); try apply Permutation_refl;
      destruct (is_readme_name (sname x)), (is_readme_name (sname y)); try apply Permutation_refl;
      destruct (is_md_name (sname x)), (is_md_name (sname y)); try apply Permutation_refl. apply perm_swap.
  - eapply Permutation_trans; eassumption.
Qed.

Lemma Forall2_perm_same_shape es mid :
  Forall2 stree_perm es mid ->
  map sname es = map sname mid /\ map is_sdir es = map is_sdir mid /\ map entry_data es = map entry_data mid.
Proof.
  induction 1 as [|x y l l' Hxy HF IH]; [repeat split|].
  destruct (stree_perm_sname _ _ Hxy) as (H1 & H2 & H3). destruct IH as (I1 & I2 & I3).
  simpl. repeat split; congruence.
Qed.

Lemma readmes_rel es mid : Forall2 stree_perm es mid ->
  map (fun e => (sname e, entry_data e)) (readmes es) = map (fun e => (sname e, entry_data e)) (readmes mid).
Proof.
  induction 1 as [|x y l l' Hxy HF IH]; [reflexivity|].
  destruct (stree_perm_sname _ _ Hxy) as (H1 & H2 & H3). unfold readmes in *. simpl. rewrite <- H1, <- H2.
  destruct (negb (is_sdir x) && is_readme_name (sname x)); simpl; congruence.
Qed.

Lemma dir_recipes_rel es mid : Forall2 stree_perm es mid -> dir_recipes es = dir_recipes mid.
Proof.
  induction 1 as [|x y l l' Hxy HF IH]; [reflexivity|].
  destruct (stree_perm_sname _ _ Hxy) as (H1 & H2 & H3). simpl. rewrite <- H1, <- H2, <- H3, IH. reflexivity.
Qed.

Section Order.
Variable E : env.

(** The listing of a directory: same title / description, recipes permuted - or an error in
    both orders. *)
Definition listing_equiv (a b : outcome listing) : Prop :=
  match a, b with
  | Ok l, Ok l' => l_title l = l_title l' /\ l_desc l = l_desc l' /\ l_desc_src l = l_desc_src l' /\
                   Permutation (l_recipes l) (l_recipes l')
  | Err _, Err _ => True
  | _, _ => False
  end.

Lemma enumerate_spec dp rn es :
  enumerate E dp rn es =
  match readmes es with
  | [] => Ok {| l_title := dirname_to_title rn; l_desc := None; l_desc_src := None; l_recipes := dir_recipes es |}
  | [e] => match entry_data e with
           | None => Err EOSError
           | Some d => bind (compile_readme E d) (fun '(title, links) =>
                       Ok {| l_title := title; l_desc := Some links; l_desc_src := Some (dp ++ [sname e]);
                             l_recipes := dir_recipes es |})
           end
  | _ => Err EMultipleReadme
  end.
Proof.
  unfold enumerate. rewrite scan_entries_spec. cbn [rev app].
  destruct (readmes es) as [|e [|e' r]]; reflexivity.
Qed.

Lemma enumerate_perm dp rn es mid es' :
  Forall2 stree_perm es mid -> Permutation mid es' ->
  listing_equiv (enumerate E dp rn es) (enumerate E dp rn es').
Proof.
  intros HF HP. rewrite !enumerate_spec.
  pose proof (readmes_rel _ _ HF) as Hr. pose proof (dir_recipes_rel _ _ HF) as Hd.
  pose proof (filter_perm (fun e => negb (is_sdir e) && is_readme_name (sname e)) _ _ HP) as Hrp.
  fold (readmes mid) in Hrp. fold (readmes es') in Hrp.
  pose proof (dir_recipes_perm _ _ HP) as Hdp. rewrite <- Hd in Hdp.
  destruct (readmes es) as [|e [|e2 r]].
  - destruct (readmes mid) as [|m rm]; [|discriminate]. apply Permutation_nil in Hrp. rewrite Hrp.
    unfold listing_equiv. cbn. auto.
  - destruct (readmes mid) as [|m [|m2 rm]]; try discriminate. apply Permutation_length_1_inv in Hrp. rewrite Hrp.
    simpl in Hr. inversion Hr as [[Hn Hdt]]. rewrite Hn, Hdt.
    destruct (entry_data m) as [d|]; [|exact I].
    destruct (compile_readme E d) as [[title links]|er]; [|exact I]. unfold listing_equiv. cbn. auto.
  - destruct (readmes mid) as [|m [|m2 rm]]; try discriminate.
    apply Permutation_length in Hrp. destruct (readmes es') as [|a [|b rr]]; simpl in Hrp; try discriminate. exact I.
Qed.

Definition out_equiv {A} (a b : outcome A) : Prop :=
  match a, b with Ok x, Ok y => x = y | Err _, Err _ => True | _, _ => False end.

Lemma out_equiv_refl {A} (a : outcome A) : out_equiv a a.
Proof. destruct a; simpl; auto. Qed.

(** *** the passes as [omap] *)

Definition scaled_step (j : nat) (dp : path) (mes : chains) (nd : str * option bytes) : outcome rref :=
  bind (from_recipe_source E (N.of_nat (S j)) (dp ++ [fst nd]) (snd nd) (mes (Some (N.of_nat (S j))))
          (or_nil (expected E mes (dp ++ [fst nd]) (snd nd) j))) (fun '(ref, _) => Ok ref).

Lemma pure_refs_scaled_omap j dp mes rs : pure_refs_scaled E j dp mes rs = omap (scaled_step j dp mes) rs.
Proof.
  induction rs as [|[name data] rs IH]; [reflexivity|]. cbn [pure_refs_scaled omap]. unfold scaled_step at 1.
  cbn [fst snd]. fold (or_nil (expected E mes (dp ++ [name]) data j)).
  destruct (from_recipe_source E _ _ data _ _) as [[ref o]|e]; cbn [bind]; [|reflexivity]. rewrite IH. reflexivity.
Qed.

Definition unscaled_step (j : nat) (dp : path) (mes : chains) (nd : str * option bytes) : outcome rref :=
  bind (unscaled_lookup (expected E mes (dp ++ [fst nd]) (snd nd) j))
       (fun '(_, native, p) => Ok (unscaled_ref (dp ++ [fst nd]) native p)).

Lemma pure_refs_unscaled_omap j dp mes rs : pure_refs_unscaled E j dp mes rs = omap (unscaled_step j dp mes) rs.
Proof.
  induction rs as [|[name data] rs IH]; [reflexivity|]. cbn [pure_refs_unscaled omap]. unfold unscaled_step at 1.
  cbn [fst snd]. destruct (unscaled_lookup _) as [[[m native] p]|e]; cbn [bind]; [|reflexivity]. rewrite IH. reflexivity.
Qed.

Lemma psubs_omap (f : stree -> path -> outcome cpage) dp es :
  psubs f dp es = omap (fun e => f e (dp ++ [sname e])) (filter is_sdir es).
Proof.
  induction es as [|e r IH]; [reflexivity|]. destruct e as [n d|n|n rn des]; cbn [psubs filter is_sdir omap sname]; try exact IH.
  destruct (f (SDir n rn des) (dp ++ [n])); cbn [bind]; [|reflexivity]. rewrite IH. reflexivity.
Qed.

Lemma omap_map_rel {A B C} (f : A -> outcome B) (g : B -> C) (h : A -> C) : forall l r,
  omap f l = Ok r -> (forall x y, In x l -> f x = Ok y -> g y = h x) -> map g r = map h l.
Proof.
  induction l as [|x l IH]; intros r H Hg; simpl in H.
  - inversion H. reflexivity.
  - destruct (f x) as [y|e] eqn:Ef; [|discriminate]. cbn [bind] in H.
    destruct (omap f l) as [r0|e] eqn:Er; [|discriminate]. cbn [bind] in H. inversion H; subst r. simpl.
    f_equal; [apply (Hg x y); [left; reflexivity | exact Ef]|]. apply IH; [reflexivity|].
    intros x0 y0 Hin. apply Hg. right. exact Hin.
Qed.

Lemma pure_dir_srcdir j sv t dp P is_root c : pure_dir E j sv t dp P is_root = Ok c -> cp_srcdir c = dp.
Proof.
  destruct t as [n d|n|n rn es]; try discriminate. rewrite pure_dir_eq.
  destruct (enumerate E dp rn es); [|discriminate]. cbn [bind]. cbv zeta.
  destruct (psubs _ dp es); [|discriminate]. cbn [bind]. destruct (pure_refs E sv j dp _ _); [|discriminate].
  cbn [bind]. intro H. inversion H. reflexivity.
Qed.

Lemma NoDup_map_snd {A B C} (f : A -> B * C) (l : list A) : NoDup (map (fun x => snd (f x)) l) -> NoDup (map f l).
Proof.
  induction l as [|x l IH]; simpl; intro H; [constructor|]. inversion H as [|? ? Hni Hnd]; subst.
  constructor; [|apply IH; exact Hnd]. intro Hin. apply Hni.
  apply in_map_iff in Hin as (y & Hy & Hin). apply in_map_iff. exists y. split; [rewrite Hy; reflexivity | exact Hin].
Qed.

Lemma filter_map_nodup {A B} (f : A -> B) (p : A -> bool) l : NoDup (map f l) -> NoDup (map f (filter p l)).
Proof.
  induction l as [|x l IH]; simpl; intro H; [constructor|]. inversion H as [|? ? Hni Hnd]; subst.
  destruct (p x); [|apply IH; exact Hnd]. simpl. constructor; [|apply IH; exact Hnd].
  intro Hin. apply Hni. apply in_map_iff in Hin as (y & Hy & Hin). apply filter_In in Hin as [Hin _].
  apply in_map_iff. exists y. auto.
Qed.

Lemma Forall2_filter (p : stree -> bool) es mid :
  Forall2 stree_perm es mid -> (forall x y, stree_perm x y -> p x = p y) ->
  Forall2 stree_perm (filter p es) (filter p mid).
Proof.
  intros HF Hp. induction HF as [|x y l l' Hxy HF IH]; [constructor|]. simpl. rewrite <- (Hp x y Hxy).
  destruct (p x); [constructor; assumption | exact IH].
Qed.

Lemma unscaled_step_name j dp mes nd r : unscaled_step j dp mes nd = Ok r -> rr_name r = fst nd.
Proof.
  unfold unscaled_step, unscaled_lookup, expected.
  destruct j; [discriminate|].
  destruct (compile_recipe E (snd nd) true false) as [doc|e]; [|discriminate].
  destruct (d_title doc) as [title|]; [|discriminate].
  destruct (d_servings doc) as [nv|].
  - destruct (nv =? 0); [discriminate|].
    rewrite (sc_get_pages_present _ 1) by (rewrite N_seq_in; lia). cbn [rp_native mk_page].
    destruct (N.leb nv (N.of_nat (S j))) eqn:Ele.
    + apply N.leb_le in Ele. destruct (N.eq_dec nv 0) as [->|Hnz].
      * rewrite (sc_get_pages_absent (fun i => i)) by (rewrite N_seq_in; lia). discriminate.
      * rewrite (sc_get_pages_present _ nv) by (rewrite N_seq_in; lia). cbn [bind].
        intro H. inversion H. unfold unscaled_ref, mk_page. cbn. apply last_snoc.
    + apply N.leb_gt in Ele. rewrite (sc_get_pages_absent (fun i => i)) by (rewrite N_seq_in; lia). discriminate.
  - cbn [sc_get opt_N_eqb option_eqb rp_native mk_page bind]. intro H. inversion H. unfold unscaled_ref, mk_page. cbn.
    apply last_snoc.
Qed.

Lemma scaled_step_name j dp mes nd r : scaled_step j dp mes nd = Ok r -> rr_name r = fst nd.
Proof.
  unfold scaled_step.
  destruct (from_recipe_source E _ _ (snd nd) _ _) as [[ref o]|e] eqn:Hf; [|discriminate]. cbn [bind].
  intro H. inversion H; subst r. apply scaled_ref_pure in Hf as (doc & title & _ & _ & Href). rewrite Href. cbn.
  apply last_snoc.
Qed.

Lemma omap_rel2 {A B} (f g : A -> outcome B) l l' :
  Forall2 (fun x y => out_equiv (f x) (g y)) l l' -> out_equiv (omap f l) (omap g l').
Proof.
  induction 1 as [|x y l l' Hxy HF IH]; [reflexivity|]. simpl.
  destruct (f x) as [a|e]; destruct (g y) as [b|e']; simpl in Hxy; try contradiction; cbn [bind]; auto. subst b.
  destruct (omap f l) as [ra|]; destruct (omap g l') as [rb|]; simpl in IH; try contradiction; cbn [bind]; simpl; auto.
  subst. reflexivity.
Qed.

Lemma Forall2_and {A B} (R S : A -> B -> Prop) l l' :
  Forall2 R l l' -> Forall2 S l l' -> Forall2 (fun x y => R x y /\ S x y) l l'.
Proof.
  intro H. induction H as [|x y l l' Hxy HF IH]; intro H2; [constructor|].
  inversion H2; subst. constructor; [split; assumption | apply IH; assumption].
Qed.

Lemma Forall2_filter_gen {A} (R : A -> A -> Prop) (p : A -> bool) l l' :
  Forall2 R l l' -> (forall x y, R x y -> p x = p y) -> Forall2 R (filter p l) (filter p l').
Proof.
  intros HF Hp. induction HF as [|x y l l' Hxy HF IH]; [constructor|]. simpl. rewrite <- (Hp x y Hxy).
  destruct (p x); [constructor; assumption | exact IH].
Qed.

Lemma Forall2_impl_left {A B} (R S : A -> B -> Prop) (P : A -> Prop) l l' :
  Forall P l -> Forall2 R l l' -> (forall x y, P x -> R x y -> S x y) -> Forall2 S l l'.
Proof.
  intros HP HF Himp. induction HF as [|x y l l' Hxy HF IH]; [constructor|].
  inversion HP; subst. constructor; [apply Himp; assumption | apply IH; assumption].
Qed.

Lemma Forall_filter {A} (P : A -> Prop) (p : A -> bool) l : Forall P l -> Forall P (filter p l).
Proof.
  induction 1; simpl; [constructor|]. destruct (p x); [constructor|]; assumption.
Qed.

(** *** a directory under another listing order *)

Definition dir_perm_prop (x y : stree) : Prop :=
  uniq_names x -> forall j sv dp P is_root, out_equiv (pure_dir E j sv x dp P is_root) (pure_dir E j sv y dp P is_root).

Theorem pure_dir_perm : forall t t', stree_perm t t' -> dir_perm_prop t t'.
Proof.
  intros t t' H. induction H as [n d|n|n rn es mid es' HF IH HP] using stree_perm_ind';
    unfold dir_perm_prop; intros Hu j sv dp P is_root; try apply out_equiv_refl.
  apply uniq_names_dir in Hu as [Hnd Hue].
  rewrite !pure_dir_eq.
  pose proof (enumerate_perm dp rn es mid es' HF HP) as Hen.
  destruct (enumerate E dp rn es) as [l|e] eqn:Hen1; destruct (enumerate E dp rn es') as [l'|e'] eqn:Hen2;
    try contradiction; [|exact I].
  destruct Hen as (Ht & Hdesc & Hsrc & Hrec). cbn [bind]. cbv zeta. rewrite <- Ht.
  set (mes := dir_mes P dp (l_title l) is_root).
  (* sub-directories: first the element-wise related list, then the permutation *)
  rewrite !psubs_omap.
  set (fsub := fun e => pure_dir E j sv e (dp ++ [sname e]) mes false).
  assert (Hsub1 : out_equiv (omap fsub (filter is_sdir es)) (omap fsub (filter is_sdir mid))).
  { apply omap_rel2.
    apply (Forall2_impl_left (fun x y => stree_perm x y /\ dir_perm_prop x y) _ uniq_names).
    - apply Forall_filter. exact Hue.
    - apply Forall2_filter_gen; [apply Forall2_and; assumption|].
      intros x y [Hxy _]. apply (stree_perm_sname _ _ Hxy).
    - intros x y Hux [Hxy Hq]. unfold fsub. destruct (stree_perm_sname _ _ Hxy) as (Hn & _ & _). rewrite <- Hn.
      apply Hq. exact Hux. }
  pose proof (omap_perm fsub _ _ (filter_perm is_sdir _ _ HP)) as Hsub2.
  destruct (omap fsub (filter is_sdir es)) as [cs|e1] eqn:Hcs; destruct (omap fsub (filter is_sdir mid)) as [csm|e2] eqn:Hcsm;
    simpl in Hsub1; try contradiction.
  2:{ destruct (omap fsub (filter is_sdir es')); [contradiction|]. exact I. }
  subst csm. destruct (omap fsub (filter is_sdir es')) as [cs'|e3] eqn:Hcs'; [|contradiction]. cbn [bind].
  (* recipes *)
  assert (Hrefs : match pure_refs E sv j dp mes (l_recipes l), pure_refs E sv j dp mes (l_recipes l') with
                  | Ok r, Ok r' => Permutation r r' /\ map rr_name r = map fst (l_recipes l)
                  | Err _, Err _ => True
                  | _, _ => False
                  end).
  { unfold pure_refs. destruct sv as [n0|].
    - rewrite !pure_refs_scaled_omap. pose proof (omap_perm (scaled_step j dp mes) _ _ Hrec) as Hp.
      destruct (omap (scaled_step j dp mes) (l_recipes l)) as [r|] eqn:Er; destruct (omap _ (l_recipes l')) as [r'|];
        try contradiction; [|exact I].
      split; [exact Hp|]. apply (omap_map_rel _ _ _ _ _ Er). intros x y _ Hxy. eapply scaled_step_name. exact Hxy.
    - rewrite !pure_refs_unscaled_omap. pose proof (omap_perm (unscaled_step j dp mes) _ _ Hrec) as Hp.
      destruct (omap (unscaled_step j dp mes) (l_recipes l)) as [r|] eqn:Er; destruct (omap _ (l_recipes l')) as [r'|];
        try contradiction; [|exact I].
      split; [exact Hp|]. apply (omap_map_rel _ _ _ _ _ Er). intros x y _ Hxy. eapply unscaled_step_name. exact Hxy. }
  destruct (pure_refs E sv j dp mes (l_recipes l)) as [refs|e4]; destruct (pure_refs E sv j dp mes (l_recipes l')) as [refs'|e5];
    try contradiction; [|exact I].
  destruct Hrefs as [Hrp Hrn]. cbn [bind]. simpl. unfold dir_page. rewrite <- Hdesc, <- Hsrc, <- Ht.
  f_equal.
  - (* sorted sub-categories *)
    apply sort_by_permutation; [exact Hsub2|].
    apply (NoDup_map_snd cpage_key).
    assert (Hk : map (fun x => snd (cpage_key x)) cs = map sname (filter is_sdir es)).
    { apply (omap_map_rel _ _ _ _ _ Hcs). intros x y _ Hxy. unfold fsub in Hxy. unfold cpage_key. cbn [snd].
      rewrite (pure_dir_srcdir _ _ _ _ _ _ _ Hxy). apply last_snoc. }
    rewrite Hk. apply filter_map_nodup. exact Hnd.
  - (* sorted recipes *)
    apply sort_by_permutation; [exact Hrp|].
    apply (NoDup_map_snd rref_key).
    replace (map (fun x => snd (rref_key x)) refs) with (map rr_name refs) by (apply map_ext; reflexivity).
    rewrite Hrn.
    rewrite (enumerate_recipes E _ _ _ _ Hen1). apply dir_recipes_nodup. exact Hnd.
Qed.

(** *** unique names and recipe sources under another listing order *)

Lemma uniq_names_perm : forall t t', stree_perm t t' -> uniq_names t -> uniq_names t'.
Proof.
  intros t t' H. induction H as [n d|n|n rn es mid es' HF IH HP] using stree_perm_ind'; intro Hu; try exact Hu.
  apply uniq_names_dir in Hu as [Hnd Hue]. apply uniq_names_dir. split.
  - destruct (Forall2_perm_same_shape _ _ HF) as (Hn & _ & _).
    eapply Permutation_NoDup; [apply Permutation_map; exact HP|]. rewrite <- Hn. exact Hnd.
  - assert (Hm : Forall uniq_names mid).
    { clear - IH Hue. induction IH as [|x y l l' Hxy HF IHl]; [constructor|]. inversion Hue; subst.
      constructor; [apply Hxy; assumption | apply IHl; assumption]. }
    rewrite Forall_forall in *. intros x Hx. apply Hm. eapply Permutation_in; [apply Permutation_sym; exact HP | exact Hx].
Qed.

Lemma asubs_flat_map {A} (f : stree -> path -> list A) dp es :
  asubs f dp es = flat_map (fun e => f e (dp ++ [sname e])) (filter is_sdir es).
Proof.
  induction es as [|e r IH]; [reflexivity|]. destruct e as [n d|n|n rn des]; cbn [asubs filter is_sdir flat_map sname]; try exact IH.
  rewrite IH. reflexivity.
Qed.

Lemma asources_perm : forall t t', stree_perm t t' ->
  forall dp P is_root x, In x (asources E t dp P is_root) <-> In x (asources E t' dp P is_root).
Proof.
  intros t t' H. induction H as [n d|n|n rn es mid es' HF IH HP] using stree_perm_ind';
    intros dp P is_root x; try reflexivity.
  rewrite !asources_eq.
  pose proof (enumerate_perm dp rn es mid es' HF HP) as Hen.
  destruct (enumerate E dp rn es) as [l|e]; destruct (enumerate E dp rn es') as [l'|e']; try contradiction; [|reflexivity].
  destruct Hen as (Ht & _ & _ & Hrec). cbv zeta. rewrite <- Ht.
  set (mes := dir_mes P dp (l_title l) is_root).
  rewrite !in_app_iff, !asubs_flat_map, !in_flat_map, !in_map_iff.
  assert (Hmid : (exists e, In e (filter is_sdir es) /\ In x (asources E e (dp ++ [sname e]) mes false)) <->
                 (exists e, In e (filter is_sdir mid) /\ In x (asources E e (dp ++ [sname e]) mes false))).
  { clear - HF IH. induction IH as [|a b l0 l0' Hab IHF IHl]; [reflexivity|].
    inversion HF as [|? ? ? ? Hsab HF']; subst. specialize (IHl HF').
    destruct (stree_perm_sname _ _ Hsab) as (Hn & Hd & _).
    cbn [filter]. rewrite <- Hd. destruct (is_sdir a).
    - split; intros (e & [Heq|Hin] & Hx).
      + subst e. exists b. split; [left; reflexivity|]. rewrite <- Hn. apply Hab. exact Hx.
      + destruct IHl as [IH1 _]. destruct IH1 as (e' & H1 & H2); [exists e; auto|]. exists e'. split; [right; exact H1 | exact H2].
      + subst e. exists a. split; [left; reflexivity|]. rewrite Hn. apply Hab. exact Hx.
      + destruct IHl as [_ IH2]. destruct IH2 as (e' & H1 & H2); [exists e; auto|]. exists e'. split; [right; exact H1 | exact H2].
    - exact IHl. }
  rewrite Hmid. split.
  - intros [(e & Hin & Hx)|(nd & Hnd & Hin)].
    + left. exists e. split; [|exact Hx]. eapply Permutation_in; [apply filter_perm; exact HP | exact Hin].
    + right. exists nd. split; [exact Hnd|]. eapply Permutation_in; [exact Hrec | exact Hin].
  - intros [(e & Hin & Hx)|(nd & Hnd & Hin)].
    + left. exists e. split; [|exact Hx]. eapply Permutation_in; [apply Permutation_sym; apply filter_perm; exact HP | exact Hin].
    + right. exists nd. split; [exact Hnd|]. eapply Permutation_in; [apply Permutation_sym; exact Hrec | exact Hin].
Qed.

(** *** the whole hierarchy *)

Lemma pure_scaled_perm t t' root P : stree_perm t t' -> uniq_names t -> forall count j,
  out_equiv (pure_scaled E t root P j count) (pure_scaled E t' root P j count).
Proof.
  intros HP Hu. induction count as [|k IH]; intro j; [reflexivity|]. cbn [pure_scaled].
  pose proof (pure_dir_perm t t' HP Hu j (Some (N.of_nat (S j))) root P true) as Hd.
  destruct (pure_dir E j _ t root P true) as [c|e]; destruct (pure_dir E j _ t' root P true) as [c'|e'];
    simpl in Hd; try contradiction; cbn [bind]; [|exact I]. subst c'.
  specialize (IH (S j)).
  destruct (pure_scaled E t root P (S j) k); destruct (pure_scaled E t' root P (S j) k); simpl in IH; try contradiction;
    cbn [bind]; simpl; auto. subst. reflexivity.
Qed.

Theorem pure_root_perm t t' root M : stree_perm t t' -> uniq_names t ->
  out_equiv (pure_root E t root M) (pure_root E t' root M).
Proof.
  intros HP Hu. pose proof HP as HP0. destruct HP as [n d|n|n rn es mid es' HF HPm]; try apply out_equiv_refl.
  unfold pure_root.
  pose proof (enumerate_perm root rn es mid es' HF HPm) as Hen.
  destruct (enumerate E root rn es) as [l|e]; destruct (enumerate E root rn es') as [l'|e']; try contradiction; [|exact I].
  destruct Hen as (Ht & Hdesc & Hsrc & _). cbn [bind]. rewrite <- Ht, <- Hdesc, <- Hsrc.
  set (P := fun _ : option N => [(l_title l, home_path)]).
  pose proof (pure_scaled_perm _ _ root P HP0 Hu (N.to_nat M) 0) as Hs.
  destruct (pure_scaled E _ root P 0 (N.to_nat M)) as [sc|e]; destruct (pure_scaled E (SDir n rn es') root P 0 (N.to_nat M)) as [sc'|e'];
    simpl in Hs; try contradiction; cbn [bind]; [|exact I]. subst sc'.
  pose proof (pure_dir_perm _ _ HP0 Hu (N.to_nat M) None root P true) as Hd.
  destruct (pure_dir E (N.to_nat M) None (SDir n rn es) root P true) as [un|e];
    destruct (pure_dir E (N.to_nat M) None (SDir n rn es') root P true) as [un'|e']; simpl in Hd; try contradiction;
    cbn [bind]; simpl; auto. subst. reflexivity.
Qed.

(** [HomePage.from_root_directory] on the same tree under two listing orders: the same page
    hierarchy, the same content of [recipe_pages] for every recipe source - or an error in
    both. *)
Theorem from_root_directory_perm t t' root M : stree_perm t t' -> uniq_names t ->
  match from_root_directory E t root M, from_root_directory E t' root M with
  | Ok (hm, h), Ok (hm', h') =>
      hm = hm' /\
      forall P src data mes, In (src, data, mes) (asources E t root P true) ->
        P = (fun _ : option N => [(h_title hm, home_path)]) -> heap_get src h = heap_get src h'
  | Err _, Err _ => True
  | _, _ => False
  end.
Proof.
  intros HP Hu. pose proof (uniq_names_perm _ _ HP Hu) as Hu'.
  pose proof (from_root_directory_pure E t root M Hu) as H1.
  pose proof (from_root_directory_pure E t' root M Hu') as H2.
  pose proof (pure_root_perm t t' root M HP Hu) as Hr.
  destruct (pure_root E t root M) as [hm|e] eqn:Hp1; destruct (pure_root E t' root M) as [hm'|e'] eqn:Hp2;
    simpl in Hr; try contradiction.
  - subst hm'. destruct H1 as (h & Hb & Hf). destruct H2 as (h' & Hb' & Hf'). rewrite Hb, Hb'. split; [reflexivity|].
    intros P src data mes Hin HPeq.
    unfold final_heap_ok in Hf, Hf'. unfold pure_root in Hp1, Hp2.
    destruct HP as [n d|n|n rn es mid es' HF HPm]; try discriminate.
    pose proof (enumerate_perm root rn es mid es' HF HPm) as Hen.
    destruct (enumerate E root rn es) as [l|e] eqn:Hen1; [|discriminate].
    destruct (enumerate E root rn es') as [l'|e'] eqn:Hen2; [|discriminate].
    destruct Hen as (Ht & _). cbn [bind] in Hp1, Hp2.
    assert (Htitle : h_title hm = l_title l).
    { destruct (pure_scaled E _ root _ 0 (N.to_nat M)); [|discriminate]. cbn [bind] in Hp1.
      destruct (pure_dir E (N.to_nat M) None _ root _ true); [|discriminate]. cbn [bind] in Hp1.
      inversion Hp1. reflexivity. }
    subst P. rewrite Htitle in Hin.
    rewrite (Hf src data mes Hin).
    rewrite <- Ht in Hf'. symmetry. apply Hf'.
    apply (asources_perm _ _ (SP_dir n rn es mid es' HF HPm)). exact Hin.
  - rewrite H1, H2. exact I.
Qed.

End Order.
