From Coq Require Import List NArith Bool Arith Lia String.
From RG Require Import Base.Str Base.Dec Model.Fs Model.Site Proofs.SiteLinks Proofs.SiteHeap.
Import ListNotations.
Open Scope list_scope.
Open Scope N_scope.

(** * A resolved path does not pass through any symbolic link (C16) *)

(** no prefix of [p] (including [p]) is a symbolic link in [fs] *)
Definition link_free (fs : node) (p : path) : Prop :=
  forall q r t, p = q ++ r -> phys fs q <> Some (NLink t).

Lemma link_free_nil fs : (forall t, fs <> NLink t) -> link_free fs [].
Proof.
  intros Hfs q r t Heq. destruct q; [|discriminate]. simpl. intro H. inversion H. eapply Hfs. eassumption.
Qed.

Lemma link_free_removelast fs p : link_free fs p -> link_free fs (removelast p).
Proof.
  intros H q r t Heq. destruct p as [|x p] using rev_ind.
  - simpl in Heq. apply (H q r t). exact Heq.
  - rewrite removelast_last in Heq. apply (H q (r ++ [x]) t). rewrite Heq, app_assoc. reflexivity.
Qed.

Lemma link_free_snoc fs p n : link_free fs p -> (forall t, phys fs (p ++ [n]) <> Some (NLink t)) -> link_free fs (p ++ [n]).
Proof.
  intros H Hn q r t Heq. destruct r as [|x r] using rev_ind.
  - rewrite app_nil_r in Heq. subst q. apply Hn.
  - rewrite app_assoc in Heq. apply app_inj_tail in Heq as [Heq _]. apply (H q r t). exact Heq.
Qed.

Lemma jrp_link_free fs (Hfs : forall t, fs <> NLink t) : forall fuel cur rest stack q,
  link_free fs cur -> jrp fuel fs cur rest stack = ROk q -> link_free fs q.
Proof.
  induction fuel as [|f IH]; intros cur rest stack q Hc H; [discriminate|]. cbn [jrp] in H.
  destruct rest as [|[n|] r].
  - inversion H; subst. exact Hc.
  - destruct (str_eqb n [] || str_eqb n fs_dot); [eapply IH; eassumption|].
    destruct (str_eqb n fs_dotdot); [eapply IH; [apply link_free_removelast; exact Hc | exact H]|].
    destruct (phys fs (cur ++ [n])) as [[d|es|t]|] eqn:Hp.
    + eapply IH; [|exact H]. apply link_free_snoc; [exact Hc|]. intros t. rewrite Hp. discriminate.
    + eapply IH; [|exact H]. apply link_free_snoc; [exact Hc|]. intros t. rewrite Hp. discriminate.
    + destruct (existsb (path_eqb (cur ++ [n])) stack); [discriminate|].
      eapply IH; [|exact H]. destruct (starts_with [c_slash] t); [apply link_free_nil; exact Hfs | exact Hc].
    + eapply IH; [|exact H]. apply link_free_snoc; [exact Hc|]. intros t. rewrite Hp. discriminate.
  - eapply IH; eassumption.
Qed.

Theorem realpath_link_free fs p q : (forall t, fs <> NLink t) -> realpath fs p = ROk q -> link_free fs q.
Proof.
  intros Hfs H. unfold realpath in H. destruct (existsb has_nul p); [discriminate|].
  eapply jrp_link_free; [exact Hfs | apply link_free_nil; exact Hfs | exact H].
Qed.
