(** * Facts about the binary64 rounding function [b64] of Base/Num.v.

    - [b64_indep]: [b64 n d] depends only on the rational [n / d], not on the
      representation (common factors do not matter);
    - [b64_nonzero]: a value of magnitude at least 2^-1074 does not round to zero;
    - [exp_spec]: the exponent chosen for a positive value [v] is the unique
      [e] with 2^52 <= floor (v / 2^e) < 2^53.

    Everything is over Z; [g n d e] = floor ((n / d) / 2^e). *)
From Coq Require Import List ZArith Bool Lia.
From RG Require Import Base.Num.
Import ListNotations.
Open Scope Z_scope.

(** ** floor ((n/d) / 2^e) *)
Definition g (n d e : Z) : Z := let (a, b) := scaled n d e in a / b.

Lemma pow2_pos e : 0 < 2 ^ e \/ e < 0.
Proof. destruct (Z_lt_le_dec e 0); [right; assumption | left; apply Z.pow_pos_nonneg; lia]. Qed.

Lemma pow2_pos' e : 0 <= e -> 0 < 2 ^ e.
Proof. intro. apply Z.pow_pos_nonneg; lia. Qed.

Lemma scaled_pos n d e : 0 < n -> 0 < d ->
  0 < fst (scaled n d e) /\ 0 < snd (scaled n d e).
Proof.
  intros Hn Hd. unfold scaled. destruct (0 <=? e) eqn:E; simpl.
  - apply Z.leb_le in E. pose proof (pow2_pos' e E). split; nia.
  - apply Z.leb_gt in E. assert (0 < 2 ^ (- e)) by (apply pow2_pos'; lia). split; nia.
Qed.

Lemma scaled_mul c n d e : scaled (c * n) (c * d) e = (c * fst (scaled n d e), c * snd (scaled n d e)).
Proof. unfold scaled. destruct (0 <=? e); simpl; f_equal; ring. Qed.

Lemma g_fst_snd n d e : g n d e = fst (scaled n d e) / snd (scaled n d e).
Proof. unfold g. destruct (scaled n d e); reflexivity. Qed.

Lemma g_mul c n d e : 0 < c -> 0 < n -> 0 < d -> g (c * n) (c * d) e = g n d e.
Proof.
  intros Hc Hn Hd. rewrite !g_fst_snd, scaled_mul. simpl.
  destruct (scaled_pos n d e Hn Hd) as [_ Hb].
  apply Z.div_mul_cancel_l; lia.
Qed.

Lemma g_nonneg n d e : 0 < n -> 0 < d -> 0 <= g n d e.
Proof.
  intros Hn Hd. rewrite g_fst_snd. destruct (scaled_pos n d e Hn Hd) as [Ha Hb].
  apply Z.div_pos; lia.
Qed.

Lemma g_succ n d e : 0 < n -> 0 < d -> g n d (e + 1) = g n d e / 2.
Proof.
  intros Hn Hd. unfold g, scaled.
  destruct (0 <=? e) eqn:E.
  - apply Z.leb_le in E. replace (0 <=? e + 1) with true by (symmetry; apply Z.leb_le; lia).
    rewrite Z.pow_add_r by lia. change (2 ^ 1) with 2.
    pose proof (pow2_pos' e E). rewrite Z.mul_assoc. rewrite Z.div_div by nia. reflexivity.
  - apply Z.leb_gt in E. destruct (Z.eq_dec e (-1)) as [->|Ne].
    + simpl. change (2 ^ 1) with 2. rewrite Z.mul_1_r.
      rewrite Z.div_div by lia. rewrite Z.div_mul_cancel_r by lia. reflexivity.
    + replace (0 <=? e + 1) with false by (symmetry; apply Z.leb_gt; lia).
      replace (- e) with (- (e + 1) + 1) by ring. rewrite Z.pow_add_r by lia. change (2 ^ 1) with 2.
      assert (0 < 2 ^ (- (e + 1))) by (apply pow2_pos'; lia).
      rewrite Z.mul_assoc. rewrite Z.div_div by lia. rewrite Z.div_mul_cancel_r by lia. reflexivity.
Qed.

Lemma g_antitone n d e j : 0 < n -> 0 < d -> 0 <= j -> g n d (e + j) <= g n d e.
Proof.
  intros Hn Hd Hj. revert e. pattern j. apply natlike_ind; [| |exact Hj].
  - intro e. rewrite Z.add_0_r. lia.
  - intros x Hx IH e. replace (e + Z.succ x) with ((e + x) + 1) by lia.
    rewrite g_succ by assumption. pose proof (g_nonneg n d (e + x) Hn Hd). specialize (IH e).
    assert (g n d (e + x) / 2 <= g n d (e + x)) by (apply Z.div_le_upper_bound; lia). lia.
Qed.

(** The window [2^52, 2^53) is hit by at most one exponent. *)
Lemma g_window_unique n d e e' : 0 < n -> 0 < d ->
  2 ^ 52 <= g n d e < 2 ^ 53 -> 2 ^ 52 <= g n d e' < 2 ^ 53 -> e = e'.
Proof.
  intros Hn Hd H1 H2.
  assert (K : forall a b, a < b -> 2 ^ 52 <= g n d a < 2 ^ 53 -> 2 ^ 52 <= g n d b < 2 ^ 53 -> False).
  { intros a b Hab Ha Hb.
    pose proof (g_antitone n d (a + 1) (b - (a + 1)) Hn Hd ltac:(lia)) as M.
    replace (a + 1 + (b - (a + 1))) with b in M by ring.
    rewrite g_succ in M by assumption.
    assert (g n d a / 2 < 2 ^ 52) by (apply Z.div_lt_upper_bound; lia). lia. }
  destruct (Z.lt_trichotomy e e') as [L|[E|L]]; [exfalso; eauto | exact E | exfalso; eauto].
Qed.

(** ** The exponent chosen by [b64_pos] *)
Definition e1_of (n d : Z) : Z :=
  let e0 := Z.log2 n - Z.log2 d - 52 in
  let m0 := g n d e0 in
  if 2 ^ 53 <=? m0 then e0 + 1 else if m0 <? 2 ^ 52 then e0 - 1 else e0.

Definition round_at (n d e : Z) : option (Z * Z) :=
  let (a, b) := scaled n d e in
  let m := rne_div a b in
  let (m', e') := if m =? 2 ^ 53 then (2 ^ 52, e + 1) else (m, e) in
  if 971 <? e' then None else Some (m', e').

Lemma b64_pos_eq n d : b64_pos n d = round_at n d (Z.max (e1_of n d) (-1074)).
Proof. reflexivity. Qed.

Lemma log2_bounds n : 0 < n -> 2 ^ Z.log2 n <= n < 2 * 2 ^ Z.log2 n.
Proof.
  intro H. pose proof (Z.log2_spec n H) as S. rewrite Z.pow_succ_r in S by apply Z.log2_nonneg. lia.
Qed.

Lemma g_e0_window n d : 0 < n -> 0 < d ->
  2 ^ 51 <= g n d (Z.log2 n - Z.log2 d - 52) < 2 ^ 53.
Proof.
  intros Hn Hd. set (ln := Z.log2 n). set (ld := Z.log2 d). set (e0 := ln - ld - 52).
  pose proof (log2_bounds n Hn) as Bn. pose proof (log2_bounds d Hd) as Bd. fold ln in Bn. fold ld in Bd.
  assert (Hln : 0 <= ln) by apply Z.log2_nonneg. assert (Hld : 0 <= ld) by apply Z.log2_nonneg.
  assert (P52 : 2 ^ 52 = 2 * 2 ^ 51) by reflexivity. assert (P53 : 2 ^ 53 = 4 * 2 ^ 51) by reflexivity.
  assert (P51 : 0 < 2 ^ 51) by reflexivity.
  unfold g, scaled. destruct (0 <=? e0) eqn:E.
  - apply Z.leb_le in E. pose proof (pow2_pos' e0 E) as He.
    assert (Eq : 2 ^ ln = 2 ^ ld * 2 ^ 52 * 2 ^ e0).
    { rewrite <- !Z.pow_add_r by lia. f_equal. unfold e0. ring. }
    assert (0 < 2 ^ ld) by (apply pow2_pos'; lia).
    split.
    + apply Z.div_le_lower_bound; [nia|]. nia.
    + apply Z.div_lt_upper_bound; [nia|]. nia.
  - apply Z.leb_gt in E. assert (Hj : 0 < 2 ^ (- e0)) by (apply pow2_pos'; lia).
    assert (Eq : 2 ^ ln * 2 ^ (- e0) = 2 ^ ld * 2 ^ 52).
    { rewrite <- !Z.pow_add_r by lia. f_equal. unfold e0. ring. }
    assert (0 < 2 ^ ld) by (apply pow2_pos'; lia).
    split.
    + apply Z.div_le_lower_bound; [lia|]. nia.
    + apply Z.div_lt_upper_bound; [lia|]. nia.
Qed.

Lemma exp_spec n d : 0 < n -> 0 < d -> 2 ^ 52 <= g n d (e1_of n d) < 2 ^ 53.
Proof.
  intros Hn Hd. unfold e1_of. set (e0 := Z.log2 n - Z.log2 d - 52).
  pose proof (g_e0_window n d Hn Hd) as W. fold e0 in W. cbv zeta.
  destruct (2 ^ 53 <=? g n d e0) eqn:A; [apply Z.leb_le in A; lia|].
  destruct (g n d e0 <? 2 ^ 52) eqn:B.
  - apply Z.ltb_lt in B.
    pose proof (g_succ n d (e0 - 1) Hn Hd) as S. replace (e0 - 1 + 1) with e0 in S by ring.
    pose proof (g_nonneg n d (e0 - 1) Hn Hd).
    pose proof (Z.div_mod (g n d (e0 - 1)) 2 ltac:(lia)) as DM.
    pose proof (Z.mod_pos_bound (g n d (e0 - 1)) 2 ltac:(lia)).
    assert (P52 : 2 ^ 52 = 2 * 2 ^ 51) by reflexivity. assert (P53 : 2 ^ 53 = 4 * 2 ^ 51) by reflexivity.
    lia.
  - apply Z.ltb_ge in B. lia.
Qed.

Lemma e1_of_mul c n d : 0 < c -> 0 < n -> 0 < d -> e1_of (c * n) (c * d) = e1_of n d.
Proof.
  intros Hc Hn Hd.
  apply (g_window_unique n d); try assumption.
  - rewrite <- (g_mul c n d) by assumption. apply exp_spec; nia.
  - now apply exp_spec.
Qed.

(** ** Round-half-even division *)
Lemma rne_div_mul c a b : 0 < c -> 0 < b -> rne_div (c * a) (c * b) = rne_div a b.
Proof.
  intros Hc Hb. unfold rne_div.
  rewrite Z.div_mul_cancel_l by lia.
  replace (2 * (c * a - a / b * (c * b))) with (c * (2 * (a - a / b * b))) by ring.
  rewrite <- (Zmult_compare_compat_l (2 * (a - a / b * b)) b c) by lia. reflexivity.
Qed.

Lemma rne_div_ge_floor a b : 0 < b -> a / b <= rne_div a b.
Proof.
  intro Hb. unfold rne_div. destruct (2 * (a - a / b * b) ?= b); [destruct (Z.even (a / b))|..]; lia.
Qed.

Lemma round_at_mul c n d e : 0 < c -> 0 < n -> 0 < d -> round_at (c * n) (c * d) e = round_at n d e.
Proof.
  intros Hc Hn Hd. unfold round_at. rewrite scaled_mul.
  destruct (scaled_pos n d e Hn Hd) as [_ Hb]. destruct (scaled n d e) as [a b]. cbn [fst snd] in *.
  now rewrite rne_div_mul.
Qed.

Lemma b64_pos_mul c n d : 0 < c -> 0 < n -> 0 < d -> b64_pos (c * n) (c * d) = b64_pos n d.
Proof.
  intros Hc Hn Hd. rewrite !b64_pos_eq, e1_of_mul by assumption. now apply round_at_mul.
Qed.

Lemma b64_pos_indep n d n' d' : 0 < n -> 0 < d -> 0 < n' -> 0 < d' ->
  n * d' = n' * d -> b64_pos n d = b64_pos n' d'.
Proof.
  intros Hn Hd Hn' Hd' E.
  rewrite <- (b64_pos_mul d' n d) by assumption.
  rewrite <- (b64_pos_mul d n' d') by assumption.
  f_equal; lia.
Qed.

(** [b64] is a function of the rational value. *)
Lemma b64_indep n d n' d' : n * Zpos d' = n' * Zpos d -> b64 n d = b64 n' d'.
Proof.
  intro E. destruct n as [|p|p], n' as [|p'|p']; try lia; try reflexivity.
  - unfold b64. rewrite (b64_pos_indep (Zpos p) (Zpos d) (Zpos p') (Zpos d')) by lia. reflexivity.
  - unfold b64. rewrite (b64_pos_indep (Zpos p) (Zpos d) (Zpos p') (Zpos d')) by lia. reflexivity.
Qed.

(** ** No underflow to zero above 2^-1074 *)
Lemma canon_pos_positive : forall q x, exists m' e', canon_pos q x = (Zpos m', e').
Proof. induction q as [q IH|q IH|]; intro x; simpl; eauto. Qed.

Lemma nfloat_nonzero m e : m <> 0 -> num_is_zero (NFloat m e) = false.
Proof.
  intro H. unfold num_is_zero, to_frac. destruct (0 <=? e) eqn:E.
  - apply Z.leb_le in E. pose proof (pow2_pos' e E). apply Z.eqb_neq. nia.
  - now apply Z.eqb_neq.
Qed.

Lemma canon_nonzero m e : m <> 0 -> num_is_zero (canon m e) = false.
Proof.
  intro H. unfold canon. destruct m as [|p|p]; [congruence|..].
  - destruct (canon_pos_positive p e) as (m' & e' & ->). apply nfloat_nonzero. lia.
  - destruct (canon_pos_positive p e) as (m' & e' & ->). apply nfloat_nonzero. lia.
Qed.

Lemma round_at_positive n d e m' e' : 0 < n -> 0 < d -> 1 <= g n d e ->
  round_at n d e = Some (m', e') -> 0 < m'.
Proof.
  intros Hn Hd Hg. unfold round_at. rewrite g_fst_snd in Hg.
  destruct (scaled_pos n d e Hn Hd) as [_ Hb]. destruct (scaled n d e) as [a b]. cbn [fst snd] in *.
  pose proof (rne_div_ge_floor a b Hb).
  destruct (rne_div a b =? 2 ^ 53) eqn:C.
  - destruct (971 <? e + 1); intro K; inversion K; subst. reflexivity.
  - destruct (971 <? e); intro K; inversion K; subst. lia.
Qed.

(** A positive value of at least 2^-1074 rounds to a positive float. *)
Lemma b64_pos_positive n d m' e' : 0 < n -> 0 < d -> d <= n * 2 ^ 1074 ->
  b64_pos n d = Some (m', e') -> 0 < m'.
Proof.
  intros Hn Hd Hbig. rewrite b64_pos_eq. apply round_at_positive; try assumption.
  destruct (Z.max_spec (e1_of n d) (-1074)) as [[_ ->]|[_ ->]].
  - unfold g, scaled. simpl. apply Z.div_le_lower_bound; lia.
  - pose proof (exp_spec n d Hn Hd). assert (1 <= 2 ^ 52) by (vm_compute; discriminate). lia.
Qed.

Lemma b64_nonzero n d f : n <> 0 -> Zpos d <= Z.abs n * 2 ^ 1074 -> b64 n d = Some f -> num_is_zero f = false.
Proof.
  intros Hn Hbig. unfold b64. destruct n as [|p|p]; [congruence|..].
  - destruct (b64_pos (Zpos p) (Zpos d)) as [[m e]|] eqn:E; [|discriminate].
    intro K; inversion K; subst. apply canon_nonzero.
    assert (0 < Zpos p) by lia. assert (0 < Zpos d) by lia.
    pose proof (b64_pos_positive (Zpos p) (Zpos d) m e H H0 Hbig E). lia.
  - destruct (b64_pos (Zpos p) (Zpos d)) as [[m e]|] eqn:E; [|discriminate].
    intro K; inversion K; subst. apply canon_nonzero.
    assert (0 < Zpos p) by lia. assert (0 < Zpos d) by lia.
    pose proof (b64_pos_positive (Zpos p) (Zpos d) m e H H0 Hbig E). lia.
Qed.
