(** * Induction principle for recipe trees and basic facts about [node_eqb].

    [node] is a nested inductive type ([Step] carries a [list node]); Coq's
    generated principle gives no hypothesis for the inputs of a step.
    [node_ind'] supplies [Forall P inputs].  Its statement is stable: other
    proof files rely on it.

    Also here: the list-recursion helpers that appear inside the nested
    fixpoints of Model/Recipe.v rewritten with standard combinators, the
    reflexivity of dataclass equality [node_eqb] (every value is equal to
    itself, numbers included), and the well-foundedness of "is a child of"
    (following references / descending always terminates). *)
From Coq Require Import List ZArith NArith Bool Lia Wf_nat.
From RG Require Import Base.Str Base.Num Model.Recipe.
Import ListNotations.

(** ** The induction principle *)
Section NodeInd.
  Variable P : node -> Prop.
  Hypothesis HI : forall d q, P (Ingredient d q).
  Hypothesis HS : forall d ins, Forall P ins -> P (Step d ins).
  Hypothesis HR : forall sr i a, P sr -> P (Reference sr i a).
  Hypothesis HSR : forall b ns sh, P b -> P (SubRecipe b ns sh).

  Fixpoint node_ind' (t : node) : P t :=
    match t with
    | Ingredient d q => HI d q
    | Step d ins =>
        HS d ins
          ((fix go (l : list node) : Forall P l :=
              match l with
              | [] => Forall_nil P
              | x :: r => Forall_cons x (node_ind' x) (go r)
              end) ins)
    | Reference sr i a => HR sr i a (node_ind' sr)
    | SubRecipe b ns sh => HSR b ns sh (node_ind' b)
    end.
End NodeInd.

(** ** The nested list recursions of the model, as standard combinators *)

Definition node_list_eqb_fix (f : node -> node -> bool) :=
  fix go (l : list node) (l' : list node) {struct l} : bool :=
    match l, l' with
    | [], [] => true
    | x :: t, y :: t' => f x y && go t t'
    | _, _ => false
    end.

Lemma node_list_eqb_fix_list_eqb f l l' : node_list_eqb_fix f l l' = list_eqb f l l'.
Proof.
  revert l'; induction l as [|x l IH]; destruct l' as [|y l']; simpl; try reflexivity.
  now rewrite IH.
Qed.

Lemma node_eqb_Step d ins d' ins' :
  node_eqb (Step d ins) (Step d' ins') = svs_eqb d d' && list_eqb node_eqb ins ins'.
Proof. simpl. now rewrite <- node_list_eqb_fix_list_eqb. Qed.

Lemma node_same_Step d ins d' ins' :
  node_same (Step d ins) (Step d' ins') = svs_same d d' && list_eqb node_same ins ins'.
Proof. simpl. now rewrite <- (node_list_eqb_fix_list_eqb node_same). Qed.

Lemma scale_node_Step k d ins :
  scale_node k (Step d ins) =
  match scale_svs k d, map_opt (scale_node k) ins with
  | Some d', Some ins' => Some (Step d' ins')
  | _, _ => None
  end.
Proof.
  simpl.
  replace ((fix go (l : list node) : option (list node) :=
              match l with
              | [] => Some []
              | x :: r => match scale_node k x, go r with
                          | Some y, Some r' => Some (y :: r')
                          | _, _ => None
                          end
              end) ins) with (map_opt (scale_node k) ins); [reflexivity|].
  induction ins as [|x r IH]; simpl; [reflexivity|]. now rewrite IH.
Qed.

(** [map_opt] succeeds exactly when it succeeds pointwise. *)
Lemma map_opt_Forall2 {A B} (f : A -> option B) l l' :
  map_opt f l = Some l' <-> Forall2 (fun x y => f x = Some y) l l'.
Proof.
  revert l'; induction l as [|x l IH]; intros l'; simpl.
  - split; intro H; [inversion H; constructor | inversion H; reflexivity].
  - destruct (f x) as [y|] eqn:Ex.
    + destruct (map_opt f l) as [r|] eqn:Er.
      * split; intro H.
        -- inversion H; subst. constructor; [exact Ex | now apply IH].
        -- inversion H as [|? y' ? r' Hy Hr]; subst. apply IH in Hr.
           rewrite Ex in Hy. congruence.
      * split; intro H; [discriminate|].
        inversion H as [|? y' ? r' Hy Hr]; subst. apply IH in Hr. discriminate.
    + split; intro H; [discriminate|].
      inversion H as [|? y' ? r' Hy Hr]; subst. congruence.
Qed.

Lemma map_opt_length {A B} (f : A -> option B) l l' :
  map_opt f l = Some l' -> length l' = length l.
Proof.
  intro H. apply map_opt_Forall2 in H.
  induction H as [|x y l l' _ _ IH]; simpl; [reflexivity | now rewrite IH].
Qed.

(** ** Reflexivity of Python [==] on the data model *)

Lemma num_eqb_refl a : num_eqb a a = true.
Proof. unfold num_eqb. destruct (to_frac a) as [n d]. apply Z.eqb_refl. Qed.

Lemma list_eqb_refl {A} (eqb : A -> A -> bool) l :
  Forall (fun x => eqb x x = true) l -> list_eqb eqb l l = true.
Proof. induction 1 as [|x l Hx _ IH]; simpl; [reflexivity|]. now rewrite Hx, IH. Qed.

Lemma list_eqb_refl_all {A} (eqb : A -> A -> bool) :
  (forall x, eqb x x = true) -> forall l, list_eqb eqb l l = true.
Proof. intros H l. apply list_eqb_refl. apply Forall_forall. intros; apply H. Qed.

Lemma part_eqb_refl p : part_eqb p p = true.
Proof. destruct p; simpl; [apply str_eqb_refl | apply num_eqb_refl]. Qed.

Lemma svs_eqb_refl d : svs_eqb d d = true.
Proof. apply list_eqb_refl_all, part_eqb_refl. Qed.

Lemma option_eqb_refl {A} (eqb : A -> A -> bool) :
  (forall x, eqb x x = true) -> forall o, option_eqb eqb o o = true.
Proof. intros H [x|]; simpl; auto. Qed.

Lemma quantity_eqb_refl q : quantity_eqb q q = true.
Proof.
  unfold quantity_eqb.
  now rewrite num_eqb_refl, (option_eqb_refl str_eqb str_eqb_refl), !str_eqb_refl.
Qed.

Lemma bool_eqb_refl b : Bool.eqb b b = true.
Proof. now destruct b. Qed.

Lemma proportion_eqb_refl p : proportion_eqb p p = true.
Proof.
  destruct p; simpl.
  - now rewrite num_eqb_refl, bool_eqb_refl, str_eqb_refl.
  - now rewrite !str_eqb_refl.
Qed.

Lemma amount_eqb_refl a : amount_eqb a a = true.
Proof. destruct a; simpl; [apply quantity_eqb_refl | apply proportion_eqb_refl]. Qed.

(** Every node is [==] to itself. *)
Lemma node_eqb_refl : forall t, node_eqb t t = true.
Proof.
  induction t as [d q | d ins IH | sr i a IH | b ns sh IH] using node_ind'.
  - simpl. now rewrite svs_eqb_refl, (option_eqb_refl quantity_eqb quantity_eqb_refl).
  - rewrite node_eqb_Step, svs_eqb_refl. simpl. now apply list_eqb_refl.
  - simpl. now rewrite IH, Nat.eqb_refl, amount_eqb_refl.
  - simpl. now rewrite IH, (list_eqb_refl_all svs_eqb svs_eqb_refl), bool_eqb_refl.
Qed.

Lemma existsb_node_eqb_In sr seen : In sr seen -> existsb (node_eqb sr) seen = true.
Proof. intro H. apply existsb_exists. exists sr. split; [exact H | apply node_eqb_refl]. Qed.

(** ** Children; descending terminates *)

(** [child x t]: [x] is yielded by [t.iter_children()] in the complete data
    model (inputs of a step, the embedded sub recipe of a reference, the body
    of a sub recipe). *)
Inductive child : node -> node -> Prop :=
| child_step d ins x : In x ins -> child x (Step d ins)
| child_ref sr i a : child sr (Reference sr i a)
| child_sub b ns sh : child b (SubRecipe b ns sh).

Lemma In_size_le x ins :
  In x ins -> (node_size x <= fold_right (fun y acc => node_size y + acc) 0 ins)%nat.
Proof.
  induction ins as [|y r IH]; simpl; [tauto|].
  intros [->|H]; [lia | specialize (IH H); lia].
Qed.

Lemma child_size x t : child x t -> (node_size x < node_size t)%nat.
Proof.
  destruct 1 as [d ins x H | |]; simpl; try lia.
  apply In_size_le in H. lia.
Qed.

(** No infinite descending chain of children: any walk that follows
    references, inputs and bodies terminates. *)
Lemma child_wf : well_founded child.
Proof.
  apply well_founded_lt_compat with (f := node_size).
  intros x y H. now apply child_size.
Qed.
