(** * Lemmas about decimal text (Base/Dec.v): [dec_N], [val_N],
    [digits_fixed], [rstrip0]. *)
From Coq Require Import List NArith ZArith Bool Lia.
From RG Require Import Base.Str Base.Dec.
Import ListNotations.
Open Scope N_scope.

(** ** [val_N] *)

Lemma val_acc_cons a c t : val_acc a (c :: t) = val_acc (a * 10 + (c - 48)) t.
Proof. reflexivity. Qed.

Lemma val_acc_app : forall x a y, val_acc a (x ++ y) = val_acc (val_acc a x) y.
Proof.
  induction x as [|c t IH]; intros a y.
  - reflexivity.
  - rewrite <- app_comm_cons, !val_acc_cons. apply IH.
Qed.

Lemma pow10_S k : 10 ^ N.of_nat (S k) = 10 * 10 ^ N.of_nat k.
Proof. rewrite Nat2N.inj_succ, N.pow_succ_r'. reflexivity. Qed.

Lemma pow10_pos k : 0 < 10 ^ N.of_nat k.
Proof. apply N.neq_0_lt_0, N.pow_nonzero. discriminate. Qed.

Lemma pow10_add a b : 10 ^ N.of_nat (a + b) = 10 ^ N.of_nat a * 10 ^ N.of_nat b.
Proof. rewrite Nat2N.inj_add, N.pow_add_r. reflexivity. Qed.

Lemma val_acc_shift : forall x a,
  val_acc a x = a * 10 ^ N.of_nat (length x) + val_N x.
Proof.
  induction x as [|c t IH]; intros a.
  - cbn [length val_N val_acc]. change (10 ^ N.of_nat 0) with 1. lia.
  - unfold val_N. rewrite !val_acc_cons.
    rewrite (IH (a * 10 + (c - 48))), (IH (0 * 10 + (c - 48))).
    cbn [length]. rewrite pow10_S. ring.
Qed.

Lemma val_N_app x y :
  val_N (x ++ y) = val_N x * 10 ^ N.of_nat (length y) + val_N y.
Proof. unfold val_N at 1. rewrite val_acc_app, val_acc_shift. reflexivity. Qed.

Lemma val_N_single c : val_N [c] = c - 48.
Proof. unfold val_N. rewrite val_acc_cons. cbn [val_acc]. lia. Qed.

Lemma val_N_snoc x c : val_N (x ++ [c]) = val_N x * 10 + (c - 48).
Proof.
  rewrite val_N_app, val_N_single. cbn [length].
  change (10 ^ N.of_nat 1) with 10. reflexivity.
Qed.

Lemma val_N_nil : val_N [] = 0.
Proof. reflexivity. Qed.

Lemma val_N_repeat0 k : val_N (repeat 48 k) = 0.
Proof.
  induction k as [|k IH].
  - reflexivity.
  - cbn [repeat]. unfold val_N in *. rewrite val_acc_cons.
    change (0 * 10 + (48 - 48)) with 0. exact IH.
Qed.

Lemma val_N_lt x : all_digits x = true -> val_N x < 10 ^ N.of_nat (length x).
Proof.
  induction x as [|c t IH] using rev_ind; intros H.
  - cbn. lia.
  - unfold all_digits in *. rewrite forallb_app in H.
    apply andb_true_iff in H as [Ht Hc]. cbn [forallb] in Hc.
    rewrite andb_true_r in Hc. unfold is_digit in Hc.
    apply andb_true_iff in Hc as [H1 H2].
    apply N.leb_le in H1, H2.
    rewrite val_N_snoc, app_length. cbn [length].
    rewrite Nat.add_comm. cbn [Nat.add]. rewrite pow10_S.
    specialize (IH Ht). lia.
Qed.

(** ** [digits_fuel] / [dec_N] *)

Lemma digits_fuel_S f n acc :
  digits_fuel (S f) n acc =
  if n / 10 =? 0 then (48 + n mod 10) :: acc
  else digits_fuel f (n / 10) ((48 + n mod 10) :: acc).
Proof. reflexivity. Qed.

Lemma digits_fuel_acc : forall f n acc,
  digits_fuel f n acc = digits_fuel f n [] ++ acc.
Proof.
  induction f as [|f IH]; intros n acc.
  - reflexivity.
  - rewrite !digits_fuel_S. destruct (n / 10 =? 0).
    + reflexivity.
    + rewrite IH. rewrite (IH _ [_]). rewrite <- app_assoc. reflexivity.
Qed.

Lemma div10_lt_pow2 n k : n < 2 * 2 ^ k -> n / 10 < 2 ^ k.
Proof. intros H. apply N.div_lt_upper_bound; lia. Qed.

(** Fuel sufficiency: any two positive fuels that bound [n] by [2^fuel]
    give the same digits. *)
Lemma digits_fuel_indep : forall f1 f2 n acc,
  n < 2 ^ N.of_nat f1 -> n < 2 ^ N.of_nat f2 ->
  (0 < f1)%nat -> (0 < f2)%nat ->
  digits_fuel f1 n acc = digits_fuel f2 n acc.
Proof.
  induction f1 as [|f1 IH]; intros f2 n acc H1 H2 P1 P2; [lia|].
  destruct f2 as [|f2]; [lia|].
  rewrite !digits_fuel_S. destruct (n / 10 =? 0) eqn:E; [reflexivity|].
  apply N.eqb_neq in E.
  rewrite Nat2N.inj_succ, N.pow_succ_r' in H1, H2.
  apply div10_lt_pow2 in H1, H2.
  apply IH; try assumption.
  - destruct f1; [|lia]. change (2 ^ N.of_nat 0) with 1 in H1. clear - H1 E. set (q := n / 10) in *. lia.
  - destruct f2; [|lia]. change (2 ^ N.of_nat 0) with 1 in H2. clear - H2 E. set (q := n / 10) in *. lia.
Qed.

Lemma lt_pow2_succ_log2 n : n < 2 ^ N.succ (N.log2 n).
Proof.
  destruct (N.eq_dec n 0) as [->|Hn].
  - cbn. lia.
  - apply N.log2_spec. lia.
Qed.

Lemma dec_N_fuel n :
  n < 2 ^ N.of_nat (S (N.to_nat (N.log2 n))).
Proof. rewrite Nat2N.inj_succ, N2Nat.id. apply lt_pow2_succ_log2. Qed.

(** Any larger fuel gives the same text: the fuel of [dec_N] is sufficient. *)
Lemma dec_N_fuel_sufficient n f :
  n < 2 ^ N.of_nat f -> (0 < f)%nat -> digits_fuel f n [] = dec_N n.
Proof.
  intros H P. unfold dec_N. apply digits_fuel_indep; try assumption; try lia.
  apply dec_N_fuel.
Qed.

Lemma dec_N_small n : n < 10 -> dec_N n = [48 + n].
Proof.
  intros H. unfold dec_N. rewrite digits_fuel_S.
  rewrite N.div_small by assumption. rewrite N.mod_small by assumption.
  reflexivity.
Qed.

Lemma dec_N_step n : 10 <= n -> dec_N n = dec_N (n / 10) ++ [48 + n mod 10].
Proof.
  intros H. unfold dec_N at 1. rewrite digits_fuel_S.
  assert (Hq : n / 10 <> 0).
  { intros E. apply N.div_small_iff in E; lia. }
  apply N.eqb_neq in Hq. rewrite Hq. apply N.eqb_neq in Hq.
  rewrite digits_fuel_acc. f_equal.
  apply dec_N_fuel_sufficient.
  - rewrite N2Nat.id. apply div10_lt_pow2.
    rewrite <- N.pow_succ_r'. apply lt_pow2_succ_log2.
  - assert (L : N.log2 8 <= N.log2 n) by (apply N.log2_le_mono; lia).
    change (N.log2 8) with 3 in L. lia.
Qed.

(** Induction principle following the decimal digits. *)
Lemma dec_ind (P : N -> Prop) :
  (forall n, n < 10 -> P n) ->
  (forall n, 10 <= n -> P (n / 10) -> P n) ->
  forall n, P n.
Proof.
  intros H1 H2 n.
  induction n as [n IH] using (well_founded_induction N.lt_wf_0).
  destruct (N.ltb_spec n 10) as [L|L].
  - apply H1; assumption.
  - apply H2; [assumption|]. apply IH. apply N.div_lt; lia.
Qed.

Lemma div_mod_10 n :
  exists q r, n / 10 = q /\ n mod 10 = r /\ n = 10 * q + r /\ r < 10.
Proof.
  exists (n / 10), (n mod 10). repeat split.
  - apply N.div_mod'.
  - apply N.mod_lt. discriminate.
Qed.

Lemma mod_10_lt n : n mod 10 < 10.
Proof. apply N.mod_lt. discriminate. Qed.

(** Reading back the decimal text of [n] gives [n] (Python [int(str(n)) == n]). *)
Lemma val_N_dec_N : forall n, val_N (dec_N n) = n.
Proof.
  apply dec_ind.
  - intros n H. rewrite dec_N_small by assumption. rewrite val_N_single. lia.
  - intros n H IH. rewrite dec_N_step by assumption.
    rewrite val_N_snoc, IH. destruct (div_mod_10 n) as (q & r & -> & -> & Hn & Hr). lia.
Qed.

Lemma is_digit_48_plus n : n < 10 -> is_digit (48 + n) = true.
Proof.
  intros H. unfold is_digit. apply andb_true_iff. split; apply N.leb_le; lia.
Qed.

Lemma all_digits_app x y : all_digits (x ++ y) = all_digits x && all_digits y.
Proof. apply forallb_app. Qed.

Lemma all_digits_dec_N : forall n, all_digits (dec_N n) = true.
Proof.
  apply dec_ind.
  - intros n H. rewrite dec_N_small by assumption.
    cbn [all_digits forallb]. rewrite is_digit_48_plus by assumption. reflexivity.
  - intros n H IH. rewrite dec_N_step by assumption.
    rewrite all_digits_app, IH. cbn [all_digits forallb].
    rewrite is_digit_48_plus by apply mod_10_lt. reflexivity.
Qed.

Lemma dec_N_nonempty : forall n, dec_N n <> [].
Proof.
  intros n. destruct (N.ltb_spec n 10) as [L|L].
  - rewrite dec_N_small by assumption. discriminate.
  - rewrite dec_N_step by assumption. intros E. apply app_eq_nil in E as [_ E].
    discriminate.
Qed.

Lemma hd_app_nonempty {A} (d : A) x y : x <> [] -> hd d (x ++ y) = hd d x.
Proof. destruct x; [congruence|reflexivity]. Qed.

(** No leading zero unless the number is zero. *)
Lemma dec_N_no_leading_zero : forall n, hd 0 (dec_N n) = 48 -> n = 0.
Proof.
  apply (dec_ind (fun n => hd 0 (dec_N n) = 48 -> n = 0)).
  - intros n H. rewrite dec_N_small by assumption. cbn [hd]. lia.
  - intros n H IH. rewrite dec_N_step by assumption.
    rewrite hd_app_nonempty by apply dec_N_nonempty.
    intros E. apply IH in E. apply N.div_small_iff in E; lia.
Qed.

Lemma dec_N_0 : dec_N 0 = [48].
Proof. reflexivity. Qed.

(** Number of digits: [10^(len-1) <= n < 10^len] for [n > 0]. *)
Lemma dec_N_length : forall n, n <> 0 ->
  exists k, length (dec_N n) = S k /\
            10 ^ N.of_nat k <= n /\ n < 10 ^ N.of_nat (S k).
Proof.
  apply (dec_ind (fun n => n <> 0 -> exists k, length (dec_N n) = S k /\
            10 ^ N.of_nat k <= n /\ n < 10 ^ N.of_nat (S k))).
  - intros n H Hn. exists 0%nat. rewrite dec_N_small by assumption.
    change (10 ^ N.of_nat 0) with 1. change (10 ^ N.of_nat 1) with 10.
    cbn [length]. lia.
  - intros n H IH Hn.
    assert (Hq : n / 10 <> 0).
    { intros E. apply N.div_small_iff in E; lia. }
    destruct (IH Hq) as (k & Hl & Lo & Hi).
    exists (S k). rewrite dec_N_step by assumption.
    rewrite app_length, Hl. cbn [length]. split; [lia|].
    rewrite (pow10_S (S k)), (pow10_S k) in *.
    destruct (div_mod_10 n) as (q & r & Eq & Er & Hn' & Hr). rewrite Eq in *.
    clear Eq Er IH Hq Hl. lia.
Qed.

(** ** [digits_fixed] *)

Lemma digits_fixed_length : forall k n, length (digits_fixed k n) = k.
Proof.
  induction k as [|k IH]; intros n.
  - reflexivity.
  - cbn [digits_fixed]. rewrite app_length, IH. cbn [length]. lia.
Qed.

Lemma all_digits_digits_fixed : forall k n, all_digits (digits_fixed k n) = true.
Proof.
  induction k as [|k IH]; intros n.
  - reflexivity.
  - cbn [digits_fixed]. rewrite all_digits_app, IH. cbn [all_digits forallb].
    rewrite is_digit_48_plus by apply mod_10_lt. reflexivity.
Qed.

Lemma val_N_digits_fixed : forall k n,
  val_N (digits_fixed k n) = n mod 10 ^ N.of_nat k.
Proof.
  induction k as [|k IH]; intros n.
  - cbn [digits_fixed]. change (10 ^ N.of_nat 0) with 1. rewrite N.mod_1_r.
    reflexivity.
  - cbn [digits_fixed]. rewrite val_N_snoc, IH, pow10_S.
    rewrite N.mod_mul_r; [|discriminate|apply N.pow_nonzero; discriminate].
    set (a := (n / 10) mod 10 ^ N.of_nat k). set (b := n mod 10). lia.
Qed.

Lemma val_N_digits_fixed_small k n :
  n < 10 ^ N.of_nat k -> val_N (digits_fixed k n) = n.
Proof. intros H. rewrite val_N_digits_fixed. apply N.mod_small. assumption. Qed.

(** ** [rstrip0] *)

Lemma rstrip0_cons c t :
  rstrip0 (c :: t) =
  match rstrip0 t with
  | [] => if c =? 48 then [] else [c]
  | t' => c :: t'
  end.
Proof. reflexivity. Qed.

(** [rstrip0] removes a block of zeros at the end, nothing else. *)
Lemma rstrip0_spec : forall x, exists k, x = rstrip0 x ++ repeat 48 k.
Proof.
  induction x as [|c t [k IH]].
  - exists 0%nat. reflexivity.
  - rewrite rstrip0_cons. destruct (rstrip0 t) as [|a t'] eqn:E.
    + destruct (N.eqb_spec c 48) as [->|Hc].
      * exists (S k). cbn [app repeat]. rewrite IH at 1. reflexivity.
      * exists k. cbn [app]. rewrite IH at 1. reflexivity.
    + exists k. rewrite IH at 1. reflexivity.
Qed.

(** The result never ends in '0'. *)
Lemma rstrip0_last : forall x, last (rstrip0 x) 0 <> 48.
Proof.
  induction x as [|c t IH].
  - cbn. discriminate.
  - rewrite rstrip0_cons. destruct (rstrip0 t) as [|a t'] eqn:E.
    + destruct (N.eqb_spec c 48) as [->|Hc].
      * cbn. discriminate.
      * cbn. assumption.
    + change (last (c :: a :: t') 0) with (last (a :: t') 0). assumption.
Qed.

Lemma rstrip0_all_digits x : all_digits x = true -> all_digits (rstrip0 x) = true.
Proof.
  intros H. destruct (rstrip0_spec x) as [k E]. rewrite E in H.
  rewrite all_digits_app in H. apply andb_true_iff in H as [H _]. exact H.
Qed.

Lemma rstrip0_length x : (length (rstrip0 x) <= length x)%nat.
Proof.
  destruct (rstrip0_spec x) as [k E]. rewrite E at 2. rewrite app_length. lia.
Qed.

(** The fractional value [val / 10^len] is preserved (cross-multiplied). *)
Lemma rstrip0_value x :
  val_N x * 10 ^ N.of_nat (length (rstrip0 x)) =
  val_N (rstrip0 x) * 10 ^ N.of_nat (length x).
Proof.
  destruct (rstrip0_spec x) as [k E].
  set (y := rstrip0 x) in *. rewrite E.
  rewrite val_N_app, val_N_repeat0, app_length, repeat_length, pow10_add. ring.
Qed.

(** Same fact with the number of stripped zeros made explicit. *)
Lemma rstrip0_value_k x :
  exists k, length x = (length (rstrip0 x) + k)%nat /\
            val_N x = val_N (rstrip0 x) * 10 ^ N.of_nat k.
Proof.
  destruct (rstrip0_spec x) as [k E]. exists k.
  set (y := rstrip0 x) in *. rewrite E.
  rewrite val_N_app, val_N_repeat0, app_length, repeat_length. split; lia.
Qed.

Lemma rstrip0_nil_value x : rstrip0 x = [] -> val_N x = 0.
Proof.
  intros H. destruct (rstrip0_value_k x) as (k & _ & E). rewrite E, H. reflexivity.
Qed.

Lemma val_N_zero_rstrip0 x : all_digits x = true -> val_N x = 0 -> rstrip0 x = [].
Proof.
  induction x as [|c t IH]; intros D V.
  - reflexivity.
  - cbn [all_digits forallb] in D. apply andb_true_iff in D as [Dc Dt].
    unfold is_digit in Dc. apply andb_true_iff in Dc as [D1 D2].
    apply N.leb_le in D1, D2.
    change (c :: t) with ([c] ++ t) in V. rewrite val_N_app, val_N_single in V.
    pose proof (pow10_pos (length t)) as P.
    apply N.eq_add_0 in V as [Vc Vt].
    apply N.eq_mul_0 in Vc as [Vc|Vc]; [|lia].
    rewrite rstrip0_cons, (IH Dt Vt).
    assert (c = 48) by lia. subst c. reflexivity.
Qed.
