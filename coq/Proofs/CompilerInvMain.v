(** * Compiler invariants, part 6: pass 2 as a whole and the two theorems:
    no structural crash, and a strictly valid result. *)
From Coq Require Import List ZArith NArith Bool Lia.
From RG Require Import Base.Str Base.Num Model.Recipe Model.Compiler Spec.Valid
  Proofs.RecipeInd Proofs.NodeEqv Proofs.RecipeValid Proofs.CompilerExpand
  Proofs.CompilerInvSize Proofs.CompilerInvNames Proofs.CompilerInvDefs Proofs.CompilerInvSub
  Proofs.CompilerInvPass1 Proofs.CompilerInvPass1U Proofs.CompilerInvPass2.
Import ListNotations.

Section Main.
  Variable convert : str -> str -> option num.
  Variable tol : Z * positive.
  Variable lower : str -> str.

  Lemma inv2_weaken i bs t : Inv2 lower i bs t -> Inv2 lower (S i) bs t.
  Proof.
    intro I. split; try apply I.
    - intros j e Hj Hle. apply (i2_KN _ _ _ _ I j e Hj). lia.
    - intros j e Hj Hle. apply (i2_T _ _ _ _ I j e Hj). lia.
    - intros j e Hj Hle. apply (i2_C _ _ _ _ I j e Hj). lia.
    - intros j e Hj Hle. apply (i2_U _ _ _ _ I j e Hj). lia.
    - intros x S0 Hx Hc HS k Hk. destruct (i2_NL _ _ _ _ I x S0 Hx Hc HS k Hk) as (j & e & Hj & Hkey & Hix & Hs).
      exists j, e. split; [exact Hj|]. split; [exact Hkey|]. split; [exact Hix|]. intro. apply Hs. lia.
  Qed.

  (** The extra invariants for name uniqueness. *)
  Definition Inv3 (i : nat) (bs : list (list node)) (t : table) : Prop :=
    (forall j ej, nth_error t j = Some ej -> (i <= j)%nat -> Single ej (concat bs)) /\
    Uniq lower (concat bs).

  Definition Inv23 i bs t : Prop := Inv2 lower i bs t /\ Inv3 i bs t.

  Lemma inv23_weaken i bs t : Inv23 i bs t -> Inv23 (S i) bs t.
  Proof.
    intros [I [HS HU]]. split; [now apply inv2_weaken|]. split; [|exact HU].
    intros j ej Hj Hle. apply (HS j ej Hj). lia.
  Qed.

  Lemma fold_step_inv2 i bs t : Inv23 i bs t ->
    match fold_step convert tol lower i bs t with
    | P2Ok bs' t' => Inv23 (S i) bs' t'
    | P2Crash c => c = NumericOverflow
    end.
  Proof.
    intro I23. pose proof I23 as [I [HS HU]]. unfold fold_step.
    destruct (nth_error t i) as [e|] eqn:Hi; [|now apply inv23_weaken].
    destruct (can_be_inlined convert tol lower e) as [[|]|] eqn:Ec;
      [|now apply inv23_weaken|reflexivity].
    destruct (can_be_inlined_shape _ _ _ e Ec) as (body & nm & sh & rs & ri & amt & blk & Hs & Hr).
    assert (Hrs : rs = SubRecipe body [nm] sh /\ ri = 0%nat).
    { destruct (i2_C _ _ _ _ I i e Hi (le_n _) (Reference rs ri amt) blk) as (a & Ha);
        [rewrite Hr; left; reflexivity|].
      inversion Ha; subst. split; [exact Hs|].
      destruct (i2_KN _ _ _ _ I i e Hi (le_n _)) as (b & ns & s0 & Hs' & Hlt & _).
      rewrite Hs in Hs'. inversion Hs'; subst. simpl in Hlt. lia. }
    destruct Hrs as [-> ->].
    set (new := if e_unwrap e then body else SubRecipe body [nm] sh).
    assert (Hnew : new = body \/ new = SubRecipe body [nm] sh).
    { unfold new. destruct (e_unwrap e); [left | right]; reflexivity. }
    destruct (remove_ok lower i bs t e body nm sh amt new Hnew I Hi Hs) as (pre & post & Hblk & Hup).
    assert (Hfin : Inv23 (S i)
              (map (map (substitute (Reference (SubRecipe body [nm] sh) 0 amt) new)) (bs1_of bs e pre post))
              (map (entry_substitute (Reference (SubRecipe body [nm] sh) 0 amt) new) t)).
    { split; [exact (step_inv2 lower i bs t e body nm sh amt blk new Hnew I Hi Hs Hr pre post Hblk)|].
      split.
      - exact (step_Single lower i bs t e body nm sh amt blk new Hnew I Hi Hs Hr pre post Hblk HS).
      - exact (step_Uniq lower i bs t e body nm sh amt blk new Hnew I Hi Hs Hr pre post Hblk HS HU). }
    destruct e as [k db sub idx refs uw]. simpl in *. subst sub refs.
    rewrite Hblk, Hup. exact Hfin.
  Qed.

  Lemma pass2_from_inv2 : forall n i bs t, Inv23 i bs t ->
    match pass2_from convert tol lower i n bs t with
    | P2Ok bs' t' => Inv23 (i + n) bs' t'
    | P2Crash c => c = NumericOverflow
    end.
  Proof.
    induction n as [|n IH]; intros i bs t I; simpl.
    - now rewrite Nat.add_0_r.
    - pose proof (fold_step_inv2 i bs t I) as H.
      destruct (fold_step convert tol lower i bs t) as [bs1 t1|c]; [|exact H].
      specialize (IH (S i) bs1 t1 H). rewrite Nat.add_succ_r. exact IH.
  Qed.

  Lemma pass1_inv23 p bs t : pass1 lower p = P1Ok bs t -> Inv23 0 bs t.
  Proof.
    intro H. split; [now apply (pass1_inv2 lower p)|].
    destruct (pass1_uniq lower p bs t H) as [HT HU]. split; [|exact HU].
    intros j ej Hj _. apply TopBound_Single, HT. eapply nth_error_In; eauto.
  Qed.

  (** What compilation ends with: either a compile error, or the explicit
      numeric overflow, or blocks satisfying the pass-2 invariants. *)
  Lemma compile_ast_cases p :
    match compile_ast convert tol lower p with
    | COk bs => exists t n, Inv23 n bs t
    | CErr _ _ _ => True
    | CCrash c => c = NumericOverflow
    end.
  Proof.
    unfold compile_ast.
    destruct (pass1 lower p) as [bs t|k b o|c] eqn:E1; [|exact Logic.I|exfalso; eapply pass1_no_crash; eauto].
    pose proof (pass2_from_inv2 (length t) 0 bs t (pass1_inv23 p bs t E1)) as H2.
    unfold pass2. destruct (pass2_from convert tol lower 0 (length t) bs t) as [bs' t'|c]; [|exact H2].
    rewrite (strict_implies_ok bs' (i2_V _ _ _ _ (proj1 H2))). eauto.
  Qed.

  Theorem compile_crash_only_overflow p c :
    compile_ast convert tol lower p = CCrash c -> c = NumericOverflow.
  Proof. intro H. pose proof (compile_ast_cases p) as Hc. rewrite H in Hc. exact Hc. Qed.

  Theorem compile_never_crashes_structurally p :
    compile_ast convert tol lower p <> CCrash AssertOutputs /\
    compile_ast convert tol lower p <> CCrash RemoveAbsent /\
    compile_ast convert tol lower p <> CCrash BadBlockIndex /\
    compile_ast convert tol lower p <> CCrash FinalInvalidReference.
  Proof.
    repeat split; intro H; apply compile_crash_only_overflow in H; discriminate.
  Qed.

  Theorem compile_strictly_valid p bs :
    compile_ast convert tol lower p = COk bs -> strictly_valid bs.
  Proof.
    intro H. pose proof (compile_ast_cases p) as Hc. rewrite H in Hc.
    destruct Hc as (t & n & I & _). apply I.
  Qed.

  (** The normalised output names of all sub recipe roots are pairwise
      different (up to [==]): names are unique ignoring case and outer blanks. *)
  Theorem compile_names_unique p bs :
    compile_ast convert tol lower p = COk bs -> kd (root_keys lower bs).
  Proof.
    intro H. pose proof (compile_ast_cases p) as Hc. rewrite H in Hc.
    destruct Hc as (t & n & I & _ & HU). eapply root_keys_kd; eauto.
  Qed.
End Main.
