(** * C12: the alternative-form list of [render_quantity] and
    [Quantity.has_equal_value_to]. *)
From Coq Require Import List ZArith NArith QArith Qabs Bool Lia.
From RG Require Import Base.Str Base.Num Gen.GenUnits Model.Recipe Model.Units Spec.UnitsRef
  Proofs.UnitsScan Proofs.UnitsTable.
Import ListNotations.

(** ** The sorted conversion list of every name (enumerated) *)
Fixpoint exact_first (l : list (num * str)) : bool :=
  match l with
  | [] => true
  | p :: t => (negb (is_float (fst p)) || forallb (fun q => is_float (fst q)) t) && exact_first t
  end.

Definition alt_ok (u : str) : bool :=
  match iter_conversions_from u with
  | (l, None) =>
      match sorted_conversions l with
      | (s0, n0) :: rest =>
          num_same s0 frac_one && option_eqb str_eqb (canon u) (Some n0)
          && forallb (fun p => negb (num_eqb (fst p) (NInt 1))) rest
          && nodup_b (n0 :: map snd rest)
          && incl_b (n0 :: map snd rest) (kind_units u) && incl_b (kind_units u) (n0 :: map snd rest)
          && forallb (fun p => res_same num_same (convert_between u (snd p)) (Ok (fst p))) ((s0, n0) :: rest)
          && exact_first rest
      | [] => false
      end
  | _ => false
  end.

Lemma table_alt_ok : forallb alt_ok all_names = true.
Proof. vm_cast_no_check (eq_refl true). Qed.

Theorem alt_list u : In u all_names ->
  exists l n0 rest,
    iter_conversions_from u = (l, None) /\
    sorted_conversions l = (frac_one, n0) :: rest /\
    canon u = Some n0 /\
    (forall p, In p rest -> num_eqb (fst p) (NInt 1) = false) /\
    NoDup (n0 :: map snd rest) /\
    (forall w, In w (n0 :: map snd rest) <-> In w (kind_units u)) /\
    (forall sc w, In (sc, w) ((frac_one, n0) :: rest) -> convert_between u w = Ok sc) /\
    exact_first rest = true.
Proof.
  intro Hu. pose proof table_alt_ok as H. rewrite forallb_forall in H. specialize (H u Hu).
  unfold alt_ok in H. destruct (iter_conversions_from u) as [l [e|]] eqn:Ei; [discriminate|].
  destruct (sorted_conversions l) as [|[s0 n0] rest] eqn:Es; [discriminate|].
  repeat (apply andb_true_iff in H as [H ?]).
  apply num_same_eq in H. subst s0.
  exists l, n0, rest. split; [reflexivity|]. split; [exact Es|]. repeat split.
  - destruct (canon u) as [c|]; cbn [option_eqb] in *; [|discriminate].
    f_equal. apply str_eqb_eq. assumption.
  - intros p Hp. match goal with Hf : forallb (fun p => negb _) rest = true |- _ =>
      rewrite forallb_forall in Hf; apply negb_true_iff; exact (Hf p Hp) end.
  - apply nodup_b_NoDup. assumption.
  - apply incl_b_spec. assumption.
  - apply incl_b_spec. assumption.
  - intros sc w Hin. match goal with Hf : forallb (fun p => res_same _ _ _) _ = true |- _ =>
      rewrite forallb_forall in Hf; specialize (Hf (sc, w) Hin); cbn [fst snd] in Hf;
      exact (res_same_eq num_same num_same_eq _ _ Hf) end.
  - assumption.
Qed.

(** ** The value part is parametric *)
(** the sanity assert: [value * Fraction(1) == value] *)
Definition value_ok (v : num) : Prop := exists v', nmul v frac_one = NOk v' /\ num_eqb v' v = true.

Lemma gcd_pos_pos n d : (0 < Z.gcd n (Zpos d))%Z.
Proof.
  pose proof (Z.gcd_nonneg n (Zpos d)).
  assert (Z.gcd n (Zpos d) <> 0)%Z; [|lia].
  intro E. apply Z.gcd_eq_0_r in E. discriminate.
Qed.

(** [mk_frac n d] has the value [n/d] and is in lowest terms. *)
Lemma mk_frac_spec n d :
  exists n' d', mk_frac n d = NFrac n' d' /\ (n' * Zpos d = n * Zpos d')%Z /\ Z.gcd n' (Zpos d') = 1%Z.
Proof.
  unfold mk_frac. pose proof (gcd_pos_pos n d) as Hg.
  destruct (Z.gcd_divide_l n (Zpos d)) as [n1 Hn]. destruct (Z.gcd_divide_r n (Zpos d)) as [d1 Hd].
  remember (Z.gcd n (Zpos d)) as g eqn:Eg.
  assert (Hd1 : (0 < d1)%Z) by nia.
  assert (Q1 : (n / g = n1)%Z) by (rewrite Hn; apply Z.div_mul; lia).
  assert (Q2 : (Zpos d / g = d1)%Z) by (rewrite Hd; apply Z.div_mul; lia).
  exists (n / g)%Z, (Z.to_pos (Zpos d / g)). split; [reflexivity|].
  rewrite Q1, Q2, Z2Pos.id by lia. split; [rewrite Hn, Hd; ring|].
  assert (E : (Z.gcd (g * n1) (g * d1) = g * Z.gcd n1 d1)%Z) by (apply Z.gcd_mul_mono_l_nonneg; lia).
  rewrite Hn, Hd in Eg. rewrite (Z.mul_comm n1 g), (Z.mul_comm d1 g), E in Eg.
  pose proof (Z.gcd_nonneg n1 d1). nia.
Qed.

Lemma value_ok_int z : value_ok (NInt z).
Proof.
  unfold value_ok, frac_one. cbn [nmul exact_mul to_frac].
  destruct (mk_frac_spec (z * 1) (1 * 1)) as [n' [d' [E [Hv _]]]]. rewrite E.
  eexists. split; [reflexivity|]. unfold num_eqb. cbn [to_frac].
  apply Z.eqb_eq. change (Z.pos (1 * 1)) with 1%Z in Hv. lia.
Qed.

Lemma value_ok_frac n d : value_ok (NFrac n d).
Proof.
  unfold value_ok, frac_one. cbn [nmul exact_mul to_frac].
  destruct (mk_frac_spec (n * 1) (d * 1)) as [n' [d' [E [Hv _]]]]. rewrite E.
  eexists. split; [reflexivity|]. unfold num_eqb. cbn [to_frac].
  apply Z.eqb_eq. rewrite Pos.mul_1_r, Z.mul_1_r in Hv. lia.
Qed.

Theorem alt_forms_value v uw u l n0 rest forms :
  py_lower uw = u -> iter_conversions_from u = (l, None) ->
  sorted_conversions l = (frac_one, n0) :: rest ->
  value_ok v -> scale_forms v rest = Ok forms ->
  alt_forms v uw = Ok ((v, uw) :: forms).
Proof.
  intros Hl Hi Hs [v' [Hm He]] Hf. unfold alt_forms. rewrite Hl, Hi, Hs.
  cbn [scale_forms]. rewrite Hm. cbn [of_nres]. rewrite Hf. rewrite He. reflexivity.
Qed.

(** [scale_forms] is the list of [value * factor]. *)
Lemma scale_forms_spec v rest : forall forms, scale_forms v rest = Ok forms ->
  Forall2 (fun f p => nmul v (fst p) = NOk (fst f) /\ snd f = snd p) forms rest.
Proof.
  induction rest as [|[sc n] rest IH]; intros forms H; cbn [scale_forms] in H.
  - inversion H. constructor.
  - destruct (nmul v sc) as [x| |] eqn:E; cbn [of_nres] in H; try discriminate.
    destruct (scale_forms v rest) as [r|]; [|discriminate]. inversion H; subst.
    constructor; [split; [exact E | reflexivity] | apply IH; reflexivity].
Qed.

(** ** has_equal_value_to, exact values *)
Lemma to_frac_exact v : exact_num v -> exists n d, to_frac v = (n, d) /\ Z.gcd n (Zpos d) = 1%Z.
Proof.
  destruct v as [z|n d|m e]; simpl; intro H; [|eauto|tauto].
  exists z, 1%positive. split; [reflexivity | apply Z.gcd_1_r].
Qed.

Lemma reduced_unique n1 d1 n2 d2 :
  Z.gcd n1 (Zpos d1) = 1%Z -> Z.gcd n2 (Zpos d2) = 1%Z -> (n1 * Zpos d2 = n2 * Zpos d1)%Z ->
  n1 = n2 /\ d1 = d2.
Proof.
  intros G1 G2 E.
  assert (D12 : (Zpos d1 | Zpos d2)%Z).
  { apply (Z.gauss (Zpos d1) n1 (Zpos d2)); [exists n2; lia | rewrite Z.gcd_comm; exact G1]. }
  assert (D21 : (Zpos d2 | Zpos d1)%Z).
  { apply (Z.gauss (Zpos d2) n2 (Zpos d1)); [exists n1; lia | rewrite Z.gcd_comm; exact G2]. }
  assert (Ed : Zpos d1 = Zpos d2) by (apply Z.divide_antisym_nonneg; lia || assumption).
  inversion Ed; subst d2. split; [|reflexivity]. nia.
Qed.

Lemma to_Q_frac v : to_Q v = (let (n, d) := to_frac v in Qmake n d).
Proof. reflexivity. Qed.

Lemma exact_same_frac a b : exact_num a -> exact_num b -> (to_Q a == to_Q b)%Q -> to_frac a = to_frac b.
Proof.
  intros Ha Hb E. destruct (to_frac_exact a Ha) as [n1 [d1 [E1 G1]]].
  destruct (to_frac_exact b Hb) as [n2 [d2 [E2 G2]]].
  rewrite !to_Q_frac, E1, E2 in E. unfold Qeq in E. cbn [Qnum Qden] in E.
  destruct (reduced_unique n1 d1 n2 d2 G1 G2 E) as [? ?]. subst. rewrite E1, E2. reflexivity.
Qed.

Lemma exact_not_float v : exact_num v -> is_float v = false.
Proof. destruct v; simpl; tauto. Qed.

Lemma nmul_exact a b : exact_num a -> exact_num b ->
  exists r, nmul a b = NOk r /\ exact_num r /\ (to_Q r == to_Q a * to_Q b)%Q.
Proof.
  intros Ha Hb.
  assert (Hgen : forall a b, is_float a = false -> is_float b = false ->
     exists r, (let (n, d) := exact_mul a b in NOk (mk_frac n d)) = NOk r /\ exact_num r /\
               (to_Q r == to_Q a * to_Q b)%Q).
  { clear. intros a b Fa Fb. unfold exact_mul. rewrite !to_Q_frac.
    destruct (to_frac a) as [n1 d1], (to_frac b) as [n2 d2].
    destruct (mk_frac_spec (n1 * n2) (d1 * d2)) as [n' [d' [E [Hv Hg]]]]. rewrite E.
    eexists. split; [reflexivity|]. split; [exact Hg|].
    unfold to_Q, Qeq, Qmult. cbn [to_frac Qnum Qden]. rewrite Pos2Z.inj_mul in *. lia. }
  destruct a as [x|n1 d1|]; [| |simpl in Ha; tauto]; (destruct b as [y|n2 d2|]; [| |simpl in Hb; tauto]).
  - exists (NInt (x * y)). split; [reflexivity|]. split; [exact I|].
    unfold to_Q, Qeq, Qmult. cbn [to_frac Qnum Qden]. lia.
  - apply (Hgen (NInt x) (NFrac n2 d2)); reflexivity.
  - apply (Hgen (NFrac n1 d1) (NInt y)); reflexivity.
  - apply (Hgen (NFrac n1 d1) (NFrac n2 d2)); reflexivity.
Qed.

Lemma isclose_same tn td a b fa :
  is_float a = false -> is_float b = false -> to_frac a = to_frac b -> to_float a = NOk fa ->
  isclose_with tn td a b = Some true.
Proof.
  intros Fa Fb E Hfa.
  assert (Hfb : to_float b = NOk fa).
  { destruct a, b; try discriminate; unfold to_float in *; rewrite <- E; exact Hfa. }
  unfold isclose_with. rewrite Hfa, Hfb. destruct (to_frac fa) as [n d].
  rewrite Z.eqb_refl. reflexivity.
Qed.

Theorem equal_amounts_exact a b ua ub f q :
  q_unit a = Some ua -> q_unit b = Some ub ->
  In (py_lower ua) all_names -> In (py_lower ub) all_names ->
  same_kind (py_lower ub) (py_lower ua) = true ->
  convert_between (py_lower ub) (py_lower ua) = Ok f -> is_float f = false ->
  exact_num (q_value a) -> exact_num (q_value b) ->
  (exists fa, to_float (q_value a) = NOk fa) ->
  ideal (py_lower ub) (py_lower ua) = Some q ->
  (to_Q (q_value a) == to_Q (q_value b) * q)%Q ->
  has_equal_value_to a b = Ok true.
Proof.
  intros Ua Ub Ia Ib Hk Hc Hf Ea Eb [fa Hfa] Hi Hv.
  destruct (factor_physical _ _ Ib Ia Hk) as [f' [q' [Hc' [Hi' [_ Hex]]]]].
  rewrite Hc in Hc'. inversion Hc'; subst f'. rewrite Hi in Hi'. inversion Hi'; subst q'.
  destruct (Hex Hf) as [Ef Hq].
  destruct (nmul_exact (q_value b) f Eb Ef) as [r [Hm [Er Hr]]].
  unfold has_equal_value_to. rewrite Ua, Ub, Hc. unfold close_scaled. rewrite Hm. cbn [of_nres].
  unfold isclose.
  rewrite (isclose_same _ _ (q_value a) r fa (exact_not_float _ Ea) (exact_not_float _ Er)); [reflexivity| |exact Hfa].
  apply exact_same_frac; [exact Ea | exact Er |]. rewrite Hr, Hv, Hq. reflexivity.
Qed.

(** Quantities in units of different kinds are never equal amounts. *)
Lemma name_has_kind x : In x all_names -> same_kind x x = true.
Proof.
  intro Hx. destruct (pair_facts x x Hx Hx) as [Hk _]. unfold kind_agrees, kind_name in Hk.
  unfold same_kind. destruct the_system; [|discriminate]. destruct (kind_of x); [|discriminate].
  apply Nat.eqb_refl.
Qed.

Theorem unequal_across_kinds a b ua ub :
  q_unit a = Some ua -> q_unit b = Some ub ->
  In (py_lower ua) all_names -> In (py_lower ub) all_names ->
  same_kind (py_lower ub) (py_lower ua) = false ->
  has_equal_value_to a b = Ok false.
Proof.
  intros Ua Ub Ia Ib Hk. unfold has_equal_value_to. rewrite Ua, Ub.
  rewrite (refused_across_kinds _ _ Ib Ia Hk).
  destruct (str_eqb (py_lower ua) (py_lower ub)) eqn:E; [|reflexivity].
  apply str_eqb_eq in E. rewrite E in Hk. rewrite (name_has_kind _ Ib) in Hk. discriminate.
Qed.

(** The sanity assert for float values: holds for every float that is a
    binary64 number (rounding its own exact value gives it back). *)
Definition representable (v : num) : Prop := let (n, d) := to_frac v in round_q n d = NOk v.

Lemma num_eqb_refl v : num_eqb v v = true.
Proof. unfold num_eqb. destruct (to_frac v). apply Z.eqb_refl. Qed.

Lemma value_ok_float m e : representable (NFloat m e) -> value_ok (NFloat m e).
Proof.
  unfold representable, value_ok, frac_one. intro H.
  assert (E1 : to_float (NFrac 1 1) = NOk (NFloat 1 0)) by (vm_compute; reflexivity).
  unfold nmul. rewrite E1. cbn [to_float]. unfold exact_mul.
  change (to_frac (NFloat 1 0)) with (1%Z, 1%positive).
  destruct (to_frac (NFloat m e)) as [n d]. rewrite Z.mul_1_r, Pos.mul_1_r, H.
  eexists. split; [reflexivity | apply num_eqb_refl].
Qed.

Theorem alt_forms_value_spec v uw u l n0 rest forms :
  py_lower uw = u -> iter_conversions_from u = (l, None) ->
  sorted_conversions l = (frac_one, n0) :: rest ->
  value_ok v -> scale_forms v rest = Ok forms ->
  alt_forms v uw = Ok ((v, uw) :: forms) /\
  Forall2 (fun f p => nmul v (fst p) = NOk (fst f) /\ snd f = snd p) forms rest.
Proof.
  intros H1 H2 H3 H4 H5.
  exact (conj (alt_forms_value v uw u l n0 rest forms H1 H2 H3 H4 H5) (scale_forms_spec v rest forms H5)).
Qed.
