(** * What [rewrite_link] / [embed_link] do with one URL (C16; also used by C14 site level). *)
From Coq Require Import List NArith Bool Arith Lia String.
From RG Require Import Base.Str Base.Dec Model.Url Model.Href Model.Fs Model.Site.
Import ListNotations.
Open Scope list_scope.
Open Scope N_scope.

(** ** Containment is a prefix relation on path components *)

Lemma path_eqb_eq a b : path_eqb a b = true <-> a = b.
Proof. apply list_eqb_spec. intros; apply str_eqb_eq. Qed.

Lemma path_eqb_refl a : path_eqb a a = true.
Proof. apply path_eqb_eq; reflexivity. Qed.

Lemma under_iff root p : under root p = true <-> exists rel, p = root ++ rel.
Proof.
  unfold under. rewrite path_eqb_eq. split.
  - intro H. exists (skipn (List.length root) p). rewrite <- H at 1. symmetry. apply firstn_skipn.
  - intros [rel ->]. rewrite firstn_app, Nat.sub_diag, firstn_all. simpl. apply app_nil_r.
Qed.

Lemma skipn_app_exact {A} (a b : list A) : skipn (List.length a) (a ++ b) = b.
Proof. induction a; simpl; auto. Qed.

(** A URL is "local" when [urlsplit] finds neither scheme nor netloc and a non-empty path. *)
Definition local_url (parts : urlparts) : Prop :=
  u_scheme parts = [] /\ u_netloc parts = [] /\ u_path parts <> [].

Lemma local_dec parts :
  {local_url parts} + {u_scheme parts <> [] \/ u_netloc parts <> [] \/ u_path parts = []}.
Proof.
  unfold local_url. destruct (u_scheme parts); [|right; left; discriminate].
  destruct (u_netloc parts); [|right; right; left; discriminate].
  destruct (u_path parts); [right; right; right; reflexivity | left; repeat split; discriminate].
Qed.

Section Links.
Variable E : env.
Variable fs : node.
Variables root source : path.
Variable from_path : str.
Variable lookup : list (path * (str * bool)).

Definition finish (parts : urlparts) (wp : str) : str :=
  urlunsplit_local (quote (href_relative from_path wp)) (u_query parts) (u_fragment parts).


Definition rewrite_local (parts : urlparts) : link_res :=
  match url_fspath fs root source (u_path parts) with
  | ROk fspath =>
      match lookup_last fspath lookup None with
      | Some (wp, scalable) =>
          let wparts := split_on c_slash wp in
          let wp' := if starts_with (s "/serves") from_path && scalable && (2 <? List.length wparts)%nat
                     then join [c_slash] (firstn 2 (split_on c_slash from_path) ++ skipn 2 wparts)
                     else wp in
          LPage (finish parts wp')
      | None =>
          match realpath fs root with
          | ROk rroot =>
              if negb (under rroot fspath) then LErr ELinkExternal
              else if negb (is_file fs fspath) then LErr ELinkNonExistent
              else
                let wp := assets_dir ++ [c_slash] ++ join [c_slash] (skipn (List.length rroot) fspath) in
                LAsset (finish parts wp) fspath wp
          | r => LErr (rres_err r)
          end
      end
  | r => LErr (rres_err r)
  end.

Lemma rewrite_link_local url parts :
  urlsplit (str_strip url) = USplit parts -> local_url parts ->
  rewrite_link fs root source from_path lookup url = rewrite_local parts.
Proof.
  intros Hs (E1 & E2 & E3). unfold rewrite_link, rewrite_local. rewrite Hs, E1, E2.
  destruct (u_path parts) as [|c pa]; [congruence|]. reflexivity.
Qed.

(** External URLs and in-page anchors are returned as they are (after lxml's strip). *)
Theorem rewrite_link_external url parts :
  urlsplit (str_strip url) = USplit parts ->
  (u_scheme parts <> [] \/ u_netloc parts <> [] \/ u_path parts = []) ->
  rewrite_link fs root source from_path lookup url = LKeep (str_strip url).
Proof.
  intros Hs H. unfold rewrite_link. rewrite Hs.
  destruct (u_scheme parts) as [|c sc]; [|reflexivity].
  destruct (u_netloc parts) as [|c nl]; [|reflexivity].
  destruct (u_path parts) as [|c pa]; [reflexivity|].
  destruct H as [H|[H|H]]; congruence.
Qed.

(** Everything that is known when a link is turned into an asset copy. *)
Theorem rewrite_link_asset url u src dst :
  rewrite_link fs root source from_path lookup url = LAsset u src dst ->
  exists parts rroot rel,
    urlsplit (str_strip url) = USplit parts /\ local_url parts /\
    url_fspath fs root source (u_path parts) = ROk src /\
    lookup_last src lookup None = None /\
    realpath fs root = ROk rroot /\
    src = rroot ++ rel /\
    is_file fs src = true /\
    dst = assets_dir ++ [c_slash] ++ join [c_slash] rel /\
    u = finish parts dst.
Proof.
  unfold rewrite_link. intro H.
  destruct (urlsplit (str_strip url)) as [parts| |] eqn:Hs; try discriminate.
  destruct (u_scheme parts) as [|c sc] eqn:E1; [|discriminate].
  destruct (u_netloc parts) as [|c nl] eqn:E2; [|discriminate].
  destruct (u_path parts) as [|c pa] eqn:E3; [discriminate|].
  rewrite <- E3 in H.
  destruct (url_fspath fs root source (u_path parts)) as [fspath| | |] eqn:Hf; try discriminate.
  destruct (lookup_last fspath lookup None) as [[wp sc]|] eqn:Hl; [discriminate|].
  destruct (realpath fs root) as [rroot| | |] eqn:Hr; try discriminate.
  destruct (under rroot fspath) eqn:Hu; [|discriminate]. cbn [negb] in H.
  destruct (is_file fs fspath) eqn:Hi; [|discriminate]. cbn [negb] in H.
  apply under_iff in Hu as [rel Hrel].
  inversion H; subst u src dst. clear H.
  exists parts, rroot, rel.
  repeat split; try assumption; try congruence.
  all: unfold finish; rewrite ?Hrel, ?skipn_app_exact; reflexivity.
Qed.

(** A local URL whose target is no page source and lies outside the resolved root aborts. *)
Theorem rewrite_link_outside url parts p rroot :
  urlsplit (str_strip url) = USplit parts -> local_url parts ->
  url_fspath fs root source (u_path parts) = ROk p ->
  lookup_last p lookup None = None ->
  realpath fs root = ROk rroot ->
  (forall rel, p <> rroot ++ rel) ->
  rewrite_link fs root source from_path lookup url = LErr ELinkExternal.
Proof.
  intros Hs Hloc Hf Hl Hr Hout. rewrite (rewrite_link_local _ _ Hs Hloc). unfold rewrite_local.
  rewrite Hf, Hl, Hr.
  destruct (under rroot p) eqn:Hu.
  - apply under_iff in Hu as [rel Hrel]. exfalso. exact (Hout rel Hrel).
  - reflexivity.
Qed.

(** ... and one inside the root that is not a regular file aborts too. *)
Theorem rewrite_link_missing url parts p rroot rel :
  urlsplit (str_strip url) = USplit parts -> local_url parts ->
  url_fspath fs root source (u_path parts) = ROk p ->
  lookup_last p lookup None = None ->
  realpath fs root = ROk rroot ->
  p = rroot ++ rel -> is_file fs p = false ->
  rewrite_link fs root source from_path lookup url = LErr ELinkNonExistent.
Proof.
  intros Hs Hloc Hf Hl Hr Hin Hnf. rewrite (rewrite_link_local _ _ Hs Hloc). unfold rewrite_local.
  rewrite Hf, Hl, Hr.
  assert (Hu : under rroot p = true) by (apply under_iff; eauto).
  rewrite Hu, Hnf. reflexivity.
Qed.

(** A path that cannot be resolved (symbolic-link loop, NUL) aborts with the builtin error. *)
Theorem rewrite_link_unresolvable url parts r :
  urlsplit (str_strip url) = USplit parts -> local_url parts ->
  url_fspath fs root source (u_path parts) = r -> (forall p, r <> ROk p) ->
  rewrite_link fs root source from_path lookup url = LErr (rres_err r).
Proof.
  intros Hs Hloc Hf Hn. rewrite (rewrite_link_local _ _ Hs Hloc). unfold rewrite_local.
  rewrite Hf.
  destruct r; try reflexivity. exfalso. eapply Hn. reflexivity.
Qed.

(** The rewrite to a page: the looked-up address, moved to the current serving count when the
    page is below /serves<N>, the target exists at every count and is not the home page. *)
Definition page_target (wp : str) (scalable : bool) : str :=
  let wparts := split_on c_slash wp in
  if starts_with (s "/serves") from_path && scalable && (2 <? List.length wparts)%nat
  then join [c_slash] (firstn 2 (split_on c_slash from_path) ++ skipn 2 wparts)
  else wp.

Theorem rewrite_link_page url parts p wp scalable :
  urlsplit (str_strip url) = USplit parts -> local_url parts ->
  url_fspath fs root source (u_path parts) = ROk p ->
  lookup_last p lookup None = Some (wp, scalable) ->
  rewrite_link fs root source from_path lookup url = LPage (finish parts (page_target wp scalable)).
Proof.
  intros Hs Hloc Hf Hl. rewrite (rewrite_link_local _ _ Hs Hloc). unfold rewrite_local.
  rewrite Hf, Hl. reflexivity.
Qed.

(** *** The stand-alone page's data URLs *)


Definition embed_local (parts : urlparts) : embed_res :=
  match url_fspath fs root source (u_path parts) with
  | ROk fspath =>
      match realpath fs root with
      | ROk rroot =>
          if negb (under rroot fspath) then BErr ELinkExternal
          else
            match read_file fs fspath with
            | None => BErr ELinkNonExistent
            | Some data =>
                let mime := match e_mime E (last fspath []) with Some m => m | None => octet_stream end in
                BData (s "data:" ++ mime ++ s ";base64," ++ b64_encode data) fspath data
            end
      | r => BErr (rres_err r)
      end
  | r => BErr (rres_err r)
  end.

Lemma embed_link_local url parts :
  urlsplit (str_strip url) = USplit parts -> local_url parts ->
  embed_link E fs root source url = embed_local parts.
Proof.
  intros Hs (E1 & E2 & E3). unfold embed_link, embed_local. rewrite Hs, E1, E2.
  destruct (u_path parts) as [|c pa]; [congruence|]. reflexivity.
Qed.

Theorem embed_link_external url parts :
  urlsplit (str_strip url) = USplit parts ->
  (u_scheme parts <> [] \/ u_netloc parts <> [] \/ u_path parts = []) ->
  embed_link E fs root source url = BKeep (str_strip url).
Proof.
  intros Hs H. unfold embed_link. rewrite Hs.
  destruct (u_scheme parts) as [|c sc]; [|reflexivity].
  destruct (u_netloc parts) as [|c nl]; [|reflexivity].
  destruct (u_path parts) as [|c pa]; [reflexivity|].
  destruct H as [H|[H|H]]; congruence.
Qed.

Theorem embed_link_data url u src data :
  embed_link E fs root source url = BData u src data ->
  exists parts rroot rel mime,
    urlsplit (str_strip url) = USplit parts /\ local_url parts /\
    url_fspath fs root source (u_path parts) = ROk src /\
    realpath fs root = ROk rroot /\ src = rroot ++ rel /\
    read_file fs src = Some data /\
    mime = match e_mime E (last src []) with Some m => m | None => octet_stream end /\
    u = s "data:" ++ mime ++ s ";base64," ++ b64_encode data.
Proof.
  unfold embed_link. intro H.
  destruct (urlsplit (str_strip url)) as [parts| |] eqn:Hs; try discriminate.
  destruct (u_scheme parts) as [|c sc] eqn:E1; [|discriminate].
  destruct (u_netloc parts) as [|c nl] eqn:E2; [|discriminate].
  destruct (u_path parts) as [|c pa] eqn:E3; [discriminate|].
  rewrite <- E3 in H.
  destruct (url_fspath fs root source (u_path parts)) as [fspath| | |] eqn:Hf; try discriminate.
  destruct (realpath fs root) as [rroot| | |] eqn:Hr; try discriminate.
  destruct (under rroot fspath) eqn:Hu; [|discriminate]. cbn [negb] in H.
  destruct (read_file fs fspath) as [d|] eqn:Hrd; [|discriminate].
  apply under_iff in Hu as [rel Hrel].
  inversion H; subst u src data. clear H.
  exists parts, rroot, rel, (match e_mime E (last fspath []) with Some m => m | None => octet_stream end).
  repeat split; try assumption; try congruence.
Qed.

Theorem embed_link_outside url parts p rroot :
  urlsplit (str_strip url) = USplit parts -> local_url parts ->
  url_fspath fs root source (u_path parts) = ROk p ->
  realpath fs root = ROk rroot -> (forall rel, p <> rroot ++ rel) ->
  embed_link E fs root source url = BErr ELinkExternal.
Proof.
  intros Hs Hloc Hf Hr Hout. rewrite (embed_link_local _ _ Hs Hloc). unfold embed_local.
  rewrite Hf, Hr.
  destruct (under rroot p) eqn:Hu.
  - apply under_iff in Hu as [rel Hrel]. exfalso. exact (Hout rel Hrel).
  - reflexivity.
Qed.

Theorem embed_link_missing url parts p rroot rel :
  urlsplit (str_strip url) = USplit parts -> local_url parts ->
  url_fspath fs root source (u_path parts) = ROk p ->
  realpath fs root = ROk rroot -> p = rroot ++ rel -> read_file fs p = None ->
  embed_link E fs root source url = BErr ELinkNonExistent.
Proof.
  intros Hs Hloc Hf Hr Hin Hnf. rewrite (embed_link_local _ _ Hs Hloc). unfold embed_local.
  rewrite Hf, Hr.
  assert (Hu : under rroot p = true) by (apply under_iff; eauto).
  rewrite Hu, Hnf. reflexivity.
Qed.

End Links.

(** [is_file] and [read_file] agree. *)
Lemma is_file_read fs p : is_file fs p = true <-> exists d, read_file fs p = Some d.
Proof.
  unfold is_file, read_file. destruct (stat_node fs p) as [[d|es|t]|]; split; intro H;
    try discriminate; try (destruct H; discriminate); eauto.
Qed.
