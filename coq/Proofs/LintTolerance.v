(** * The linter's 2% test decides as in exact arithmetic away from its
    boundaries (C20): [decisive s -> tolerance_agrees u]. *)
From Coq Require Import List ZArith QArith Qabs Bool Lia Lqa.
From RG Require Import Base.Str Base.Num Model.Recipe Model.Lint Spec.LintSpec
  Proofs.LintB64 Proofs.LintTol Proofs.LintProofs.
Import ListNotations.
Open Scope Q_scope.

Definition tau : Q := fst tol_2e2 # snd tol_2e2.      (* the float 0.02 *)
Definition e9 : Q := 1 # 1000000000.

(** Not within 1e-9 of the boundaries 0.98, 1 and 1/0.98 (but possibly 1
    itself), and of a sane magnitude. *)
Definition decisive (s : Q) : Prop :=
  (s == 0 \/ e9 <= s) /\ s <= 1000000 /\
  (s == 1 \/ e9 <= Qabs (s - 1)) /\
  e9 <= Qabs (s - (98 # 100)) /\ e9 <= Qabs (s - (100 # 98)).

(** One [diff <= fabs(rel_tol * x)] comparison of math.isclose. *)
Definition le_tol_fn (dn : Z) (dd : positive) (n : Z) (d : positive) : bool :=
  match round_q (fst tol_2e2 * n) (snd tol_2e2 * d)%positive with
  | NOk t => let (tn, td) := to_frac t in (dn * Zpos td <=? Z.abs tn * Zpos dd)%Z
  | _ => false
  end.

Lemma frac_abs_Q f : (Z.abs (fst (to_frac f)) # snd (to_frac f)) == Qabs (to_Q f).
Proof. unfold to_Q. destruct (to_frac f) as [n d]. reflexivity. Qed.

Lemma leb_Q a b c d : (a * Zpos d <=? c * Zpos b)%Z = Qle_bool (a # b) (c # d).
Proof. reflexivity. Qed.

Lemma tau_bounds : (2 # 100) <= tau /\ tau <= (2 # 100) + (1 # 1000000000000000000).
Proof. unfold tau, Qle; simpl; split; lia. Qed.

Lemma u53_small : 0 < u53 /\ u53 <= 1 # 1000000000000000.
Proof. unfold u53, Qlt, Qle; simpl; split; lia. Qed.

(** Range side conditions of the rounding lemmas, from bounds in Q. *)
Lemma range_low n d : e9 * e9 <= (n # d) -> (Zpos d <= Z.abs n * 2 ^ 1022)%Z.
Proof.
  unfold Qle, e9. simpl. intro H.
  assert (0 <= n)%Z by nia. rewrite Z.abs_eq by assumption.
  assert (1000000000000000000 <= 2 ^ 1022)%Z by (vm_compute; discriminate). nia.
Qed.

Lemma range_high n d : Qabs (n # d) <= 1000000000 -> (Z.abs n < Zpos d * 2 ^ 1000)%Z.
Proof.
  unfold Qle, Qabs. simpl. intro H. assert (1000000000 < 2 ^ 1000)%Z by (vm_compute; reflexivity). nia.
Qed.

Lemma Qmake_mul a b c d : (a * c # (b * d)) == (a # b) * (c # d).
Proof. reflexivity. Qed.

Lemma round_q_moderate n d :
  e9 * e9 <= (n # d) -> (n # d) <= 1000000000 ->
  exists f, round_q n d = NOk f /\ (n # d) * (1 - u53) <= to_Q f /\ to_Q f <= (n # d) * (1 + u53).
Proof.
  intros L H.
  assert (Pos : 0 < (n # d)) by (eapply Qlt_le_trans; [|exact L]; reflexivity).
  assert (Hn : n <> 0%Z) by (intro E; subst; unfold Qlt in Pos; simpl in Pos; lia).
  assert (A : Qabs (n # d) == (n # d)) by (apply Qabs_pos; now apply Qlt_le_weak).
  destruct (b64_some n d) as (f & B); [apply range_high; now rewrite A|].
  exists f. unfold round_q. rewrite B. split; [reflexivity|].
  pose proof (b64_rel_error n d f Hn (range_low n d L) B) as R. rewrite A in R.
  apply Qabs_le_iff in R. split; lra.
Qed.

Lemma le_tol_pos dn dd n d :
  e9 <= (n # d) -> (n # d) <= 1000000 ->
  exists t, le_tol_fn dn dd n d = Qle_bool (dn # dd) t /\
            tau * (n # d) * (1 - u53) <= t /\ t <= tau * (n # d) * (1 + u53).
Proof.
  intros L H. destruct tau_bounds as [T1 T2]. destruct u53_small as [U1 U2].
  assert (V : (fst tol_2e2 * n # (snd tol_2e2 * d)) == tau * (n # d)) by apply Qmake_mul.
  assert (Ve : e9 * e9 <= tau * (n # d)).
  { unfold e9 in *. assert (0 <= (n # d)) by (eapply Qle_trans; [|exact L]; discriminate). nra. }
  assert (Vh : tau * (n # d) <= 1000000000) by nra.
  destruct (round_q_moderate (fst tol_2e2 * n) (snd tol_2e2 * d)%positive) as (f & R & F1 & F2);
    [now rewrite V | now rewrite V|].
  rewrite V in F1, F2.
  exists (Qabs (to_Q f)). split.
  - unfold le_tol_fn. rewrite R. unfold to_Q. destruct (to_frac f) as [tn td]. reflexivity.
  - assert (0 <= to_Q f).
    { eapply Qle_trans; [|exact F1]. assert (0 <= tau * (n # d)) by (eapply Qle_trans; [|exact Ve]; discriminate).
      assert (0 <= 1 - u53) by lra. nra. }
    rewrite Qabs_pos by assumption. split; assumption.
Qed.

Lemma le_tol_zero dn dd d : (0 < dn)%Z -> le_tol_fn dn dd 0 d = false.
Proof.
  intro H. unfold le_tol_fn. rewrite Z.mul_0_r. unfold round_q, b64. simpl.
  apply Z.leb_gt. lia.
Qed.

Lemma Qle_bool_true a b : a <= b -> Qle_bool a b = true.
Proof. apply Qle_bool_iff. Qed.

Lemma Qle_bool_false a b : b < a -> Qle_bool a b = false.
Proof.
  intro H. destruct (Qle_bool a b) eqn:E; [|reflexivity]. apply Qle_bool_iff in E.
  exfalso. apply (Qlt_irrefl b). eapply Qlt_le_trans; eauto.
Qed.

Lemma tol_decide s x t1 t2 :
  0 <= s -> s <= 1000000 -> ~ s == 1 ->
  e9 <= Qabs (s - 1) -> e9 <= Qabs (s - (98 # 100)) -> e9 <= Qabs (s - (100 # 98)) ->
  Qabs (s - 1) * (1 - u53) <= x -> x <= Qabs (s - 1) * (1 + u53) ->
  tau * 1 * (1 - u53) <= t1 -> t1 <= tau * 1 * (1 + u53) ->
  tau * s * (1 - u53) <= t2 -> t2 <= tau * s * (1 + u53) ->
  Qle_bool x t1 || Qle_bool x t2 = within_2_percent s.
Proof.
  intros S0 Sh S1 D1 D98 D102 X1 X2 T1a T1b T2a T2b.
  change u53 with (1 # 9007199254740992) in *.
  change tau with (5764607523034235 # 288230376151711744) in *.
  unfold e9 in *. unfold within_2_percent.
  destruct (Qlt_le_dec s 1) as [Lt|Ge].
  - (* s < 1 *)
    assert (A1 : Qabs (s - 1) == 1 - s) by (rewrite Qabs_neg by lra; ring).
    rewrite A1 in *. rewrite (Qle_bool_false 1 s Lt).
    destruct (Qlt_le_dec s (98 # 100)) as [L98|G98].
    + assert (A98 : Qabs (s - (98 # 100)) == (98 # 100) - s) by (rewrite Qabs_neg by lra; ring).
      rewrite A98 in D98.
      rewrite (Qle_bool_false x t1) by lra. rewrite (Qle_bool_false x t2) by lra.
      symmetry. apply Qle_bool_false. lra.
    + assert (A98 : Qabs (s - (98 # 100)) == s - (98 # 100)) by (rewrite Qabs_pos by lra; reflexivity).
      rewrite A98 in D98.
      rewrite (Qle_bool_true x t1) by lra. simpl. symmetry. apply Qle_bool_true. lra.
  - (* 1 < s *)
    assert (Gt : 1 < s).
    { destruct (Qlt_le_dec 1 s) as [G|L]; [exact G|]. exfalso. apply S1. apply Qle_antisym; assumption. }
    assert (A1 : Qabs (s - 1) == s - 1) by (rewrite Qabs_pos by lra; reflexivity).
    rewrite A1 in *. rewrite (Qle_bool_true 1 s Ge).
    destruct (Qlt_le_dec s (100 # 98)) as [L102|G102].
    + assert (A102 : Qabs (s - (100 # 98)) == (100 # 98) - s) by (rewrite Qabs_neg by lra; ring).
      rewrite A102 in D102.
      rewrite (Qle_bool_true x t2) by lra. rewrite orb_true_r. symmetry. apply Qle_bool_true. lra.
    + assert (A102 : Qabs (s - (100 # 98)) == s - (100 # 98)) by (rewrite Qabs_pos by lra; reflexivity).
      rewrite A102 in D102.
      rewrite (Qle_bool_false x t1) by lra. rewrite (Qle_bool_false x t2) by lra.
      symmetry. apply Qle_bool_false. lra.
Qed.

Lemma round_q_signed n d :
  e9 * e9 <= Qabs (n # d) -> Qabs (n # d) <= 1000000000 ->
  exists f, round_q n d = NOk f /\ Qabs (n # d) * (1 - u53) <= Qabs (to_Q f) /\ Qabs (to_Q f) <= Qabs (n # d) * (1 + u53).
Proof.
  intros L H.
  assert (Pos : 0 < Qabs (n # d)) by (eapply Qlt_le_trans; [|exact L]; reflexivity).
  assert (Hn : n <> 0%Z) by (intro E; subst; unfold Qlt in Pos; simpl in Pos; lia).
  destruct (b64_some n d) as (f & B); [now apply range_high|].
  exists f. unfold round_q. rewrite B. split; [reflexivity|].
  assert (Rl : (Zpos d <= Z.abs n * 2 ^ 1022)%Z).
  { change (Qabs (n # d)) with (Z.abs n # d) in L. apply range_low in L. now rewrite Z.abs_involutive in L. }
  pose proof (b64_rel_error n d f Hn Rl B) as R.
  pose proof (Qabs_triangle_reverse (to_Q f) (n # d)) as T1.
  pose proof (Qabs_triangle_reverse (n # d) (to_Q f)) as T2.
  assert (S : Qabs ((n # d) - to_Q f) == Qabs (to_Q f - (n # d))).
  { setoid_replace ((n # d) - to_Q f) with (- (to_Q f - (n # d))) by ring. apply Qabs_opp. }
  rewrite S in T2. split; lra.
Qed.

Theorem decisive_tolerance u : is_float u = true -> decisive (to_Q u) -> tolerance_agrees u.
Proof.
  intros Hf D. unfold tolerance_agrees, isclose_with.
  rewrite (to_float_float u Hf). change (to_float f_one) with (NOk f_one).
  unfold to_Q in *. destruct (to_frac u) as [n1 d1].
  change (to_frac f_one) with (1%Z, 1%positive).
  cbv beta iota zeta.
  set (s := n1 # d1) in *.
  destruct D as (Dz & Dh & D1 & D98 & D102).
  destruct (n1 * 1 =? 1 * Z.pos d1)%Z eqn:E1.
  - apply Z.eqb_eq in E1. f_equal. symmetry.
    assert (S1 : s == 1) by (unfold s, Qeq; simpl; lia).
    rewrite (within_2_percent_eq s 1 S1). reflexivity.
  - apply Z.eqb_neq in E1.
    assert (S1 : ~ s == 1) by (unfold s, Qeq; simpl; lia).
    destruct D1 as [D1|D1]; [contradiction|].
    assert (S0 : 0 <= s) by (destruct Dz as [Z0|Z0]; [rewrite Z0; discriminate | eapply Qle_trans; [|exact Z0]; discriminate]).
    assert (V : (1 * Zpos d1 - n1 * 1 # (d1 * 1)) == 1 - s).
    { unfold s, Qeq, Qminus, Qplus, Qopp. cbn [Qnum Qden]. rewrite !Pos2Z.inj_mul. lia. }
    assert (Ab : Qabs (1 - s) == Qabs (s - 1)).
    { setoid_replace (1 - s) with (- (s - 1)) by ring. apply Qabs_opp. }
    destruct (round_q_signed (1 * Zpos d1 - n1 * 1) (d1 * 1)) as (df & Rd & X1 & X2).
    { rewrite V, Ab. eapply Qle_trans; [|exact D1]. discriminate. }
    { rewrite V, Ab. apply Qabs_le_iff. split; lra. }
    rewrite V, Ab in X1, X2. rewrite Rd.
    destruct (to_frac df) as [dn dd] eqn:Fd.
    assert (Hx : (Z.abs dn # dd) = Qabs (to_Q df)) by (unfold to_Q; rewrite Fd; reflexivity).
    change (Some (le_tol_fn (Z.abs dn) dd 1 1 || le_tol_fn (Z.abs dn) dd n1 d1) = Some (within_2_percent s)).
    f_equal.
    destruct (le_tol_pos (Z.abs dn) dd 1 1) as (t1 & L1 & T1a & T1b); [discriminate | discriminate|].
    rewrite L1, Hx. set (x := Qabs (to_Q df)) in *.
    assert (Xpos : 0 < x).
    { eapply Qlt_le_trans; [|exact X1]. unfold u53. apply Qmult_lt_0_compat; [|reflexivity].
      eapply Qlt_le_trans; [|exact D1]. reflexivity. }
    assert (Dn : (0 < Z.abs dn)%Z).
    { rewrite <- Hx in Xpos. unfold Qlt in Xpos. simpl in Xpos. lia. }
    destruct Dz as [Z0|Z0].
    + (* s == 0: the second comparison is against 0.0 *)
      assert (N0 : n1 = 0%Z) by (unfold s, Qeq in Z0; simpl in Z0; lia).
      subst n1. rewrite (le_tol_zero (Z.abs dn) dd d1 Dn).
      rewrite <- (Qle_bool_false x 0 Xpos).
      apply (tol_decide s x t1 0); try assumption; rewrite Z0; lra.
    + destruct (le_tol_pos (Z.abs dn) dd n1 d1 Z0 Dh) as (t2 & L2 & T2a & T2b).
      rewrite L2, Hx. now apply (tol_decide s x t1 t2).
Qed.

(** The accumulator is always a float. *)
Lemma ref_step_float name total st r st' :
  is_float (st_used st) = true -> ref_step name total st r = LOk st' -> is_float (st_used st') = true.
Proof.
  intros Hf. destruct r as [d q|d ins|sr i a|b ns sh]; simpl; try (intro E; inversion E; subst; exact Hf).
  destruct a as [q|[v pc pr|w pr]].
  - destruct total as [tq|]; [|intro E; inversion E; subst; exact Hf].
    destruct (num_eqb (q_value tq) (NInt 0)); [intro E; inversion E; subst; exact Hf|].
    destruct (conversion q tq) as [c|[e|]]; try discriminate; [|intro E; inversion E; subst; exact Hf].
    destruct (nmul (q_value q) c) as [qu| |]; simpl; try discriminate.
    destruct (ndiv qu (q_value tq)) as [f| |]; simpl; try discriminate.
    destruct (nadd (st_used st) f) as [u1| |] eqn:A; simpl; try discriminate.
    intro E; inversion E; subst. simpl. eapply nadd_is_float; eauto.
  - destruct (nadd (st_used st) v) as [u1| |] eqn:A; simpl; try discriminate.
    intro E; inversion E; subst. simpl. eapply nadd_is_float; eauto.
  - intro E; inversion E; subst. simpl.
    destruct (num_leb f_one (st_used st)); simpl; (destruct (num_ltb f_one (st_used st)); [exact Hf | reflexivity]).
Qed.

Lemma refs_fold_float name total : forall refs st st',
  is_float (st_used st) = true -> refs_fold name total st refs = LOk st' -> is_float (st_used st') = true.
Proof.
  induction refs as [|r rest IH]; intros st st' Hf; simpl.
  - intro E; inversion E; subst; exact Hf.
  - destruct (ref_step name total st r) as [st1|e] eqn:E1; [|discriminate].
    apply IH. eapply ref_step_float; eauto.
Qed.

(** The verdict on one output equals the documented verdict whenever the
    accumulation made no rounding error and the exact sum is decisive. *)
Theorem verdict_spec_decisive sr idx refs us l :
  output_lints sr idx refs = LOk l ->
  Forall2 (fun r u => use_of (total_quantity sr) r = Some u) refs us ->
  (forall name, run_exact name (total_quantity sr) (mkSt false f_zero []) refs) ->
  (forall name st, refs_fold name (total_quantity sr) (mkSt false f_zero []) refs = LOk st ->
     st_problem st = false -> decisive (to_Q (st_used st))) ->
  kinds l = verdict_spec us.
Proof.
  intros E F X Dc. apply (verdict_spec_exact_runs sr idx refs us l E F X).
  intros name st R P. apply decisive_tolerance; [|now apply (Dc name st R P)].
  eapply refs_fold_float; [|exact R]. reflexivity.
Qed.
