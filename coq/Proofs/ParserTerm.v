(** * C07: the default fuel always suffices - [parse] never answers [POutOfFuel].
    Every parser function only moves forward (the remaining input never gets
    longer), the functions that recurse move strictly forward before they do,
    and the fuel handed out by [fuel_for] exceeds the length of the input. *)
From Coq Require Import List ZArith NArith Bool Lia Arith String.
From RG Require Import Base.Str Base.Dec Base.Num Gen.GenUnits Model.Recipe Model.Compiler Model.Parser Model.Printer
  Proofs.ParserLex Proofs.ParserName Proofs.ParserSafe.
From RG Require Model.Units Spec.UnitsRef Proofs.UnitsScan Proofs.UnitsTable Proofs.UnitsTail.
Import ListNotations.
Open Scope string_scope.
Open Scope list_scope.
Open Scope nat_scope.

Local Notation L := (@List.length N).

Definition sz (s : st) : nat := L (rest s).
Definition shr {A} (s : st) (r : res A) : Prop := match r with Got _ s' => sz s' <= sz s | _ => True end.
Definition shr1 {A} (s : st) (r : res A) : Prop := match r with Got _ s' => sz s' < sz s | _ => True end.
Definition shro {A} (s : st) (r : option (A * st)) : Prop := match r with Some (_, s') => sz s' <= sz s | None => True end.

Ltac ll := cbn [List.length] in *; lia.

Lemma shr1_shr {A} s (r : res A) : shr1 s r -> shr s r.
Proof. destruct r; cbn; [lia | auto | auto]. Qed.

Lemma app_len (x w r : str) : x = w ++ r -> L x = L w + L r.
Proof. intros ->. apply app_length. Qed.

Lemma suffix_len (r x : str) : suffix r x -> L r <= L x.
Proof. intros [p ->]. rewrite app_length. lia. Qed.

Lemma sz_eat c s s' : eat c s = Some s' -> S (sz s') = sz s.
Proof.
  unfold eat, sz. destruct (rest s) as [|d t] eqn:E; [discriminate|]. destruct (N.eqb d c); [|discriminate].
  intro H. inversion H; subst. reflexivity.
Qed.

Lemma sz_skip_hsp s : sz (snd (skip_hsp s)) <= sz s.
Proof.
  unfold skip_hsp, sz. destruct (opt_hsp (rest s)) as [w r] eqn:E. cbn [snd adv rest].
  rewrite (app_len _ _ _ (opt_hsp_sound _ _ _ E)). lia.
Qed.

Lemma sz_skip_sp s : sz (skip_sp s) <= sz s.
Proof.
  unfold skip_sp, sz. destruct (opt_sp (rest s)) as [w r] eqn:E. cbn [adv rest].
  rewrite (app_len _ _ _ (proj1 (span_suffix _ _ _ _ E))). lia.
Qed.

(** ** Numbers consume at least one character *)
Lemma sc_digits_len (x d r : str) : sc_digits x = Some (d, r) -> L x = L d + L r /\ 1 <= L d.
Proof.
  intro H. pose proof (proj1 (sc_digits_sound _ _ _ H)) as X. split; [exact (app_len _ _ _ X)|].
  unfold sc_digits in H. destruct (span is_digit x) as [d' r']. destruct d' as [|c d'']; [discriminate|].
  inversion H; subst. cbn [List.length]. lia.
Qed.

Lemma sc_fraction_tail_len i k0 (x : str) v n r : sc_fraction_tail i k0 x = Some (v, n, r) -> L r < L x.
Proof.
  unfold sc_fraction_tail. destruct (sc_digits x) as [[nn r2]|] eqn:Ed; [|discriminate].
  destruct (sc_digits_len _ _ _ Ed) as [X0 Hn].
  destruct (opt_hsp r2) as [w1 r3] eqn:E1. pose proof (app_len _ _ _ (opt_hsp_sound _ _ _ E1)) as X1.
  destruct r3 as [|c r4]; [discriminate|].
  assert (G : c = 47%N \/ c <> 47%N) by (destruct (N.eq_dec c 47); auto). destruct G as [->|Hne].
  - destruct (opt_hsp r4) as [w2 r5] eqn:E2. pose proof (app_len _ _ _ (opt_hsp_sound _ _ _ E2)) as X2.
    destruct (sc_denominator r5) as [[d r6]|] eqn:E3; [|discriminate].
    pose proof (app_len _ _ _ (proj1 (sc_denominator_sound _ _ _ E3))) as X3.
    intro H. inversion H; subst. ll.
  - destruct c as [|p]; [discriminate|]. do 6 (destruct p as [p|p|]; try discriminate). contradiction Hne. reflexivity.
Qed.

Lemma sc_decimal_len (x : str) v n r : sc_decimal x = Some (v, n, r) -> L r < L x.
Proof.
  unfold sc_decimal. destruct (sc_digits x) as [[i r0]|] eqn:Ed; [|discriminate].
  destruct (sc_digits_len _ _ _ Ed) as [X0 Hi].
  destruct r0 as [|c r1].
  - intro H. inversion H; subst. ll.
  - destruct (N.eq_dec c 46) as [->|Hne].
    + destruct (span is_digit r1) as [f r2] eqn:Ef. pose proof (app_len _ _ _ (proj1 (span_suffix _ _ _ _ Ef))) as X1.
      intro H. inversion H; subst. ll.
    + assert (G : Some (int_of_float_text i, len i, c :: r1) = Some (v, n, r) -> L r < L x).
      { intro H. inversion H; subst. ll. }
      destruct c as [|p]; [exact G|]. do 6 (destruct p as [p|p|]; try exact G). contradiction Hne. reflexivity.
Qed.

Lemma sc_number_len (x : str) v n r : sc_number x = Some (v, n, r) -> L r < L x.
Proof.
  unfold sc_number. destruct (sc_fraction x) as [[[v' n'] r']|] eqn:Ef.
  - intro H. inversion H; subst. clear H. unfold sc_fraction in Ef.
    destruct (sc_digits x) as [[a r0]|] eqn:Ed.
    + destruct (sc_digits_len _ _ _ Ed) as [X0 Ha].
      destruct (sc_hsp r0) as [[w r1]|] eqn:Eh.
      * pose proof (app_len _ _ _ (sc_hsp_sound _ _ _ Eh)) as Xh.
        pose proof (sc_fraction_tail_len _ _ _ _ _ _ Ef). lia.
      * exact (sc_fraction_tail_len _ _ _ _ _ _ Ef).
    + exact (sc_fraction_tail_len _ _ _ _ _ _ Ef).
  - apply sc_decimal_len.
Qed.

Lemma p_number_len s v s' : p_number s = Some (v, s') -> sz s' < sz s.
Proof.
  unfold p_number. destruct (sc_number (rest s)) as [[[v0 n] r]|] eqn:E; [|discriminate].
  destruct v0 as [v0 b]. intro H. inversion H; subst. unfold sz. cbn [with_bad advn rest].
  exact (sc_number_len _ _ _ _ E).
Qed.

(** ** Brace groups *)
Lemma br_body_len : forall fuel (x : str) ps b n r, br_body fuel x = Some (Some (ps, b, n, r)) -> L r < L x.
Proof.
  induction fuel as [|f IH]; intros x ps b n r; cbn [br_body]; [discriminate|].
  destruct (sc_number x) as [[[[v bb] k] r0]|] eqn:En.
  - pose proof (sc_number_len _ _ _ _ En) as S0.
    destruct (br_body f r0) as [[[[[ps' b'] k'] r']|]|] eqn:E; try discriminate.
    intro H. inversion H; subst. pose proof (IH _ _ _ _ _ E). lia.
  - destruct x as [|c t]; [discriminate|]. destruct (N.eqb c 92).
    + destruct t as [|e t']; [discriminate|].
      destruct (br_body f t') as [[[[[ps' b'] k'] r']|]|] eqn:E; try discriminate.
      intro H. inversion H; subst. pose proof (IH _ _ _ _ _ E). ll.
    + destruct (N.eqb c 125); [intro H; inversion H; subst; ll|].
      destruct ((N.eqb c 123) || (N.eqb c 10) || (N.eqb c 13)); [discriminate|].
      destruct (br_body f t) as [[[[[ps' b'] k'] r']|]|] eqn:E; try discriminate.
      intro H. inversion H; subst. pose proof (IH _ _ _ _ _ E). ll.
Qed.

Lemma br_body_fuel : forall fuel (x : str), L x < fuel -> br_body fuel x <> None.
Proof.
  induction fuel as [|f IH]; intros x Hf; [lia|]. cbn [br_body].
  destruct (sc_number x) as [[[[v bb] k] r0]|] eqn:En.
  - pose proof (sc_number_len _ _ _ _ En) as S0.
    pose proof (IH r0 ltac:(lia)) as H0. destruct (br_body f r0) as [[[[[ps' b'] k'] r']|]|]; [discriminate | discriminate | contradiction].
  - destruct x as [|c t]; [discriminate|]. cbn [List.length] in Hf. destruct (N.eqb c 92).
    + destruct t as [|e t']; [discriminate|]. cbn [List.length] in Hf.
      pose proof (IH t' ltac:(lia)) as H0. destruct (br_body f t') as [[[[[ps' b'] k'] r']|]|]; [discriminate | discriminate | contradiction].
    + destruct (N.eqb c 125); [discriminate|].
      destruct ((N.eqb c 123) || (N.eqb c 10) || (N.eqb c 13)); [discriminate|].
      pose proof (IH t ltac:(lia)) as H0. destruct (br_body f t) as [[[[[ps' b'] k'] r']|]|]; [discriminate | discriminate | contradiction].
Qed.

(** ** Strings *)
Lemma p_segment_shr fuel braces s : shr1 s (p_segment fuel braces s).
Proof.
  unfold p_segment, sz. destruct (sc_naked (rest s)) as [[m r]|] eqn:En.
  - cbn [shr1 sz adv rest]. unfold sz. cbn [adv rest]. pose proof (app_len _ _ _ (sc_naked_sound _ _ _ En)) as X.
    assert (Hm : 1 <= L m).
    { revert En. unfold sc_naked. destruct (rest s) as [|c t]; [discriminate|]. destruct (naked_edge c); [|discriminate].
      destruct (naked_tail t) as [g r']. intro En. inversion En; subst. cbn [List.length]. lia. }
    lia.
  - destruct (rest s) as [|c t] eqn:Er; [exact I|].
    destruct ((N.eqb c 39) || (N.eqb c 34)).
    + destruct (q_body c t) as [[[v n] r]|] eqn:Eq; [|exact I]. cbn [shr1]. unfold sz. cbn [advn rest]. rewrite Er.
      pose proof (suffix_len _ _ (q_body_suffix _ _ _ _ _ Eq)). cbn [List.length]. lia.
    + destruct (braces && (N.eqb c 123)); [|exact I].
      destruct (br_body fuel t) as [[[[[ps b] n] r]|]|] eqn:Eb; try exact I.
      cbn [shr1]. unfold sz. cbn [with_bad advn rest]. rewrite Er. pose proof (br_body_len _ _ _ _ _ _ Eb). cbn [List.length]. lia.
Qed.

Lemma p_segment_fuel fuel braces s : sz s <= fuel -> p_segment fuel braces s <> Fuel.
Proof.
  intro Hf. unfold p_segment. destruct (sc_naked (rest s)) as [[m r]|]; [discriminate|].
  unfold sz in Hf. destruct (rest s) as [|c t]; [discriminate|]. cbn [List.length] in Hf.
  destruct ((N.eqb c 39) || (N.eqb c 34)).
  - destruct (q_body c t) as [[[v n] r]|]; discriminate.
  - destruct (braces && (N.eqb c 123)); [|discriminate].
    pose proof (br_body_fuel fuel t ltac:(lia)) as H0.
    destruct (br_body fuel t) as [[[[[ps b] n] r]|]|]; [discriminate | discriminate | contradiction].
Qed.

Lemma p_string_shr : forall fuel braces s, shr1 s (p_string fuel braces s).
Proof.
  induction fuel as [|f IH]; intros braces s; [exact I|]. rewrite p_string_unfold.
  pose proof (p_segment_shr f braces s) as H1. destruct (p_segment f braces s) as [[ps o] s1| |]; try exact I.
  cbn [shr1] in H1. pose proof (sz_skip_hsp s1) as H2.
  pose proof (IH braces (snd (skip_hsp s1))) as H3.
  destruct (p_string f braces (snd (skip_hsp s1))) as [[ps2 o2] s3| |]; cbn [shr1] in *; [lia | lia | exact I].
Qed.

Lemma p_string_fuel : forall fuel braces s, sz s < fuel -> p_string fuel braces s <> Fuel.
Proof.
  induction fuel as [|f IH]; intros braces s Hf; [lia|]. rewrite p_string_unfold.
  pose proof (p_segment_shr f braces s) as H1. pose proof (p_segment_fuel f braces s ltac:(lia)) as F1.
  destruct (p_segment f braces s) as [[ps o] s1| |]; [|discriminate|contradiction].
  cbn [shr1] in H1. pose proof (sz_skip_hsp s1) as H2.
  pose proof (IH braces (snd (skip_hsp s1)) ltac:(lia)) as F3.
  destruct (p_string f braces (snd (skip_hsp s1))) as [[ps2 o2] s3| |]; [discriminate | discriminate | contradiction].
Qed.

Lemma p_name_shr fuel s : shr1 s (p_name fuel s).
Proof. unfold p_name. pose proof (p_string_shr fuel true s) as H. destruct (p_string fuel true s) as [[ps o] s'| |]; exact H. Qed.
Lemma p_name_fuel fuel s : sz s < fuel -> p_name fuel s <> Fuel.
Proof.
  intro Hf. unfold p_name. pose proof (p_string_fuel fuel true s Hf) as H.
  destruct (p_string fuel true s) as [[ps o] s'| |]; [discriminate | discriminate | contradiction].
Qed.
Lemma p_static_shr fuel s : shr1 s (p_static fuel s).
Proof. unfold p_static. pose proof (p_string_shr fuel false s) as H. destruct (p_string fuel false s) as [[ps o] s'| |]; exact H. Qed.
Lemma p_static_fuel fuel s : sz s < fuel -> p_static fuel s <> Fuel.
Proof.
  intro Hf. unfold p_static. pose proof (p_string_fuel fuel false s Hf) as H.
  destruct (p_string fuel false s) as [[ps o] s'| |]; [discriminate | discriminate | contradiction].
Qed.

(** ** Amounts *)
Lemma sz_adv_prep s : sz (snd (adv_pair s (opt_hsp_prep (rest s)))) <= sz s.
Proof.
  unfold adv_pair, sz. destruct (opt_hsp_prep (rest s)) as [p r] eqn:E. cbn [fst snd adv rest].
  rewrite (app_len _ _ _ (opt_hsp_prep_sound _ _ _ E)). lia.
Qed.

Lemma p_proportion_shr s : shro s (p_proportion s).
Proof.
  unfold p_proportion. destruct (sc_remainder (rest s)) as [[m r]|] eqn:Er.
  - pose proof (sz_adv_prep (adv s m r)) as H2.
    destruct (adv_pair (adv s m r) (opt_hsp_prep (rest (adv s m r)))) as [pr s2]. cbn [shro snd] in *.
    assert (H1 : sz (adv s m r) <= sz s) by (unfold sz; cbn [adv rest]; rewrite (app_len _ _ _ (sc_remainder_sound _ _ _ Er)); lia).
    lia.
  - destruct (p_number s) as [[v s1]|] eqn:En; [|exact I]. pose proof (p_number_len _ _ _ En) as H1.
    assert (G : shro s (let (w, s2) := skip_hsp s1 in
              match eat 37 s2 with
              | Some s3 =>
                  let (pr, s4) := adv_pair s3 (opt_hsp_prep (rest s3)) in
                  let '(v', b) := match ndiv v (NInt 100) with NOk q => (q, None) | _ => (NInt 0, Some PercentRange) end in
                  Some (PropVal v' true (w ++ 37%N :: pr), with_bad s4 b)
              | None => match eat 42 s2 with Some s3 => Some (PropVal v false (w ++ [42%N]), s3) | None => None end
              end)).
    { pose proof (sz_skip_hsp s1) as H2. destruct (skip_hsp s1) as [w0 s2]. cbn [snd] in H2.
      destruct (eat 37 s2) as [s3|] eqn:E37.
      - pose proof (sz_eat _ _ _ E37) as H3. pose proof (sz_adv_prep s3) as H4.
        destruct (adv_pair s3 (opt_hsp_prep (rest s3))) as [pr s4]. cbn [snd] in H4.
        destruct (ndiv v (NInt 100)); cbn [shro]; unfold sz in *; cbn [with_bad rest]; lia.
      - destruct (eat 42 s2) as [s3|] eqn:E42; [|exact I]. pose proof (sz_eat _ _ _ E42) as H3. cbn [shro]. lia. }
    destruct (sc_hsp (rest s1)) as [[w r]|] eqn:Eh; [|exact G].
    destruct (Units.preposition r) as [[p r']|] eqn:Ep; [|exact G].
    cbn [shro]. unfold sz in *. cbn [adv rest].
    rewrite (app_len _ _ _ (sc_hsp_sound _ _ _ Eh)), (app_len _ _ _ (UnitsTail.preposition_sound _ _ _ Ep)) in H1. lia.
Qed.

Lemma p_explicit_shr fuel s : shr s (p_explicit fuel s).
Proof.
  unfold p_explicit. destruct (eat 123 s) as [s1|] eqn:E1; [|exact I]. pose proof (sz_eat _ _ _ E1) as H1.
  pose proof (sz_skip_hsp s1) as H2. destruct (skip_hsp s1) as [w0 s2]. cbn [snd] in H2.
  destruct (p_number s2) as [[v s3]|] eqn:En; [|exact I]. pose proof (p_number_len _ _ _ En) as H3.
  pose proof (sz_skip_hsp s3) as H4. destruct (skip_hsp s3) as [w s4]. cbn [snd] in H4.
  pose proof (p_static_shr fuel s4) as Hu.
  assert (G : forall (up : option str * str) s5, sz s5 <= sz s3 ->
            shr s (let (_, s6) := skip_hsp s5 in
                  match eat 125 s6 with
                  | None => Fail
                  | Some s7 => let (pr, s8) := adv_pair s7 (opt_hsp_prep (rest s7)) in Got (mkQ v (fst up) (snd up) pr) s8
                  end)).
  { intros up s5 H5. pose proof (sz_skip_hsp s5) as H6. destruct (skip_hsp s5) as [w6 s6]. cbn [snd] in H6.
    destruct (eat 125 s6) as [s7|] eqn:E7; [|exact I]. pose proof (sz_eat _ _ _ E7) as H7.
    pose proof (sz_adv_prep s7) as H8. destruct (adv_pair s7 (opt_hsp_prep (rest s7))) as [pr s8]. cbn [snd shr] in *. lia. }
  destruct (p_static fuel s4) as [u s5| |]; cbn [shr1] in Hu.
  - exact (G (Some u, w) s5 ltac:(lia)).
  - exact (G (None, []) s3 ltac:(lia)).
  - exact I.
Qed.

Lemma p_explicit_fuel fuel s : sz s < fuel -> p_explicit fuel s <> Fuel.
Proof.
  intro Hf. unfold p_explicit. destruct (eat 123 s) as [s1|] eqn:E1; [|discriminate]. pose proof (sz_eat _ _ _ E1) as H1.
  pose proof (sz_skip_hsp s1) as H2. destruct (skip_hsp s1) as [w0 s2]. cbn [snd] in H2.
  destruct (p_number s2) as [[v s3]|] eqn:En; [|discriminate]. pose proof (p_number_len _ _ _ En) as H3.
  pose proof (sz_skip_hsp s3) as H4. destruct (skip_hsp s3) as [w s4]. cbn [snd] in H4.
  pose proof (p_static_fuel fuel s4 ltac:(lia)) as Fu.
  destruct (p_static fuel s4) as [u s5| |]; [| |contradiction].
  - destruct (skip_hsp s5) as [w6 s6]. destruct (eat 125 s6) as [s7|]; [|discriminate].
    destruct (adv_pair s7 (opt_hsp_prep (rest s7))). discriminate.
  - destruct (skip_hsp s3) as [w6 s6]. destruct (eat 125 s6) as [s7|]; [|discriminate].
    destruct (adv_pair s7 (opt_hsp_prep (rest s7))). discriminate.
Qed.

Lemma p_implicit_shr s : shro s (p_implicit s).
Proof.
  unfold p_implicit. destruct (p_number s) as [[v s1]|] eqn:En; [|exact I]. pose proof (p_number_len _ _ _ En) as H1.
  destruct (Units.implicit_tail (rest s1)) as [[[[sp u] pr] r]|] eqn:Et; cbn [shro]; [|lia].
  pose proof (suffix_len _ _ (implicit_tail_suffix _ _ _ _ _ Et)). unfold sz in *. cbn [advn rest]. lia.
Qed.

Lemma p_amount_shr fuel s : shr s (p_amount fuel s).
Proof.
  unfold p_amount. pose proof (p_proportion_shr s) as H1. destruct (p_proportion s) as [[p s']|]; [exact H1|].
  pose proof (p_explicit_shr fuel s) as H2. destruct (p_explicit fuel s) as [q s'| |]; [exact H2| |exact I].
  pose proof (p_implicit_shr s) as H3. destruct (p_implicit s) as [[q s']|]; [exact H3 | exact I].
Qed.

Lemma p_amount_fuel fuel s : sz s < fuel -> p_amount fuel s <> Fuel.
Proof.
  intro Hf. unfold p_amount. destruct (p_proportion s) as [[p s']|]; [discriminate|].
  pose proof (p_explicit_fuel fuel s Hf) as H2. destruct (p_explicit fuel s) as [q s'| |]; [discriminate| |contradiction].
  destruct (p_implicit s) as [[q s']|]; discriminate.
Qed.

Lemma p_reference_shr fuel s : shr1 s (p_reference fuel s).
Proof.
  unfold p_reference. pose proof (p_amount_shr fuel s) as H1. destruct (p_amount fuel s) as [a s1| |]; [| |exact I].
  - cbn [shr] in H1. pose proof (sz_skip_hsp s1) as H2. destruct (skip_hsp s1) as [w s2]. cbn [snd] in H2.
    pose proof (p_name_shr fuel s2) as H3. destruct (p_name fuel s2) as [[nm o] s3| |]; try exact I. cbn [shr1] in *. lia.
  - pose proof (p_name_shr fuel s) as H3. destruct (p_name fuel s) as [[nm o] s3| |]; try exact I. exact H3.
Qed.

Lemma p_reference_fuel fuel s : sz s < fuel -> p_reference fuel s <> Fuel.
Proof.
  intro Hf. unfold p_reference. pose proof (p_amount_shr fuel s) as H1. pose proof (p_amount_fuel fuel s Hf) as F1.
  destruct (p_amount fuel s) as [a s1| |]; [| |contradiction].
  - cbn [shr] in H1. pose proof (sz_skip_hsp s1) as H2. destruct (skip_hsp s1) as [w s2]. cbn [snd] in H2.
    pose proof (p_name_fuel fuel s2 ltac:(lia)) as F3. destruct (p_name fuel s2) as [[nm o] s3| |]; [discriminate | discriminate | contradiction].
  - pose proof (p_name_fuel fuel s Hf) as F3. destruct (p_name fuel s) as [[nm o] s3| |]; [discriminate | discriminate | contradiction].
Qed.

(** ** Expressions *)
Section WithE.
  Variable E : st -> res aexpr.
  Hypothesis E_shr : forall s, shr1 s (E s).

  Lemma step_more_shr : forall k s, shr s (step_more E k s).
  Proof.
    induction k as [|k IH]; intros s; [exact I|]. cbn [step_more].
    pose proof (sz_skip_sp s) as H1.
    destruct (eat 44%N (skip_sp s)) as [s1|] eqn:E1; [|cbn [shr]; lia].
    pose proof (sz_eat _ _ _ E1) as H2. pose proof (sz_skip_sp s1) as H3.
    pose proof (E_shr (skip_sp s1)) as H4. destruct (E (skip_sp s1)) as [e s2| |]; [| cbn [shr]; lia | exact I].
    cbn [shr1] in H4. pose proof (IH s2) as H5. destruct (step_more E k s2) as [es s3| |]; try exact I.
    cbn [shr] in *. lia.
  Qed.

  Lemma step_more_fuel : forall k s, (forall s', sz s' < sz s -> E s' <> Fuel) -> sz s < k -> step_more E k s <> Fuel.
  Proof.
    induction k as [|k IH]; intros s HE Hk; [lia|]. cbn [step_more].
    pose proof (sz_skip_sp s) as H1.
    destruct (eat 44%N (skip_sp s)) as [s1|] eqn:E1; [|discriminate].
    pose proof (sz_eat _ _ _ E1) as H2. pose proof (sz_skip_sp s1) as H3.
    pose proof (E_shr (skip_sp s1)) as H4. pose proof (HE (skip_sp s1) ltac:(lia)) as F4.
    destruct (E (skip_sp s1)) as [e s2| |]; [| discriminate | contradiction].
    cbn [shr1] in H4. pose proof (IH s2 ltac:(intros s' Hs'; apply HE; lia) ltac:(lia)) as F5.
    destruct (step_more E k s2) as [es s3| |]; [discriminate | discriminate | contradiction].
  Qed.

  Lemma p_step_shr fuel s : shr1 s (p_step E fuel s).
  Proof.
    unfold p_step. pose proof (p_name_shr fuel s) as H1. destruct (p_name fuel s) as [[nm o] s1| |]; try exact I.
    cbn [shr1] in H1. pose proof (sz_skip_hsp s1) as H2. destruct (skip_hsp s1) as [w s2]. cbn [snd] in H2.
    destruct (eat 40%N s2) as [s3|] eqn:E3; [|exact I]. pose proof (sz_eat _ _ _ E3) as H3.
    pose proof (sz_skip_sp s3) as H4. pose proof (E_shr (skip_sp s3)) as H5.
    destruct (E (skip_sp s3)) as [e s4| |]; try exact I. cbn [shr1] in H5.
    pose proof (step_more_shr fuel s4) as H6. destruct (step_more E fuel s4) as [es s5| |]; try exact I. cbn [shr] in H6.
    assert (G : sz (match eat 44%N (skip_sp s5) with Some s' => s' | None => s5 end) <= sz s5).
    { pose proof (sz_skip_sp s5) as H7. destruct (eat 44%N (skip_sp s5)) as [s'|] eqn:E7; [|lia]. pose proof (sz_eat _ _ _ E7). lia. }
    set (s6 := match eat 44%N (skip_sp s5) with Some s' => s' | None => s5 end) in *.
    pose proof (sz_skip_sp s6) as H9.
    destruct (eat 41%N (skip_sp s6)) as [s7|] eqn:E9; [|exact I]. pose proof (sz_eat _ _ _ E9). cbn [shr1]. lia.
  Qed.

  Lemma p_step_fuel fuel s : (forall s', sz s' < sz s -> E s' <> Fuel) -> sz s < fuel -> p_step E fuel s <> Fuel.
  Proof.
    intros HE Hf. unfold p_step. pose proof (p_name_shr fuel s) as H1. pose proof (p_name_fuel fuel s Hf) as F1.
    destruct (p_name fuel s) as [[nm o] s1| |]; [|discriminate|contradiction].
    cbn [shr1] in H1. pose proof (sz_skip_hsp s1) as H2. destruct (skip_hsp s1) as [w s2]. cbn [snd] in H2.
    destruct (eat 40%N s2) as [s3|] eqn:E3; [|discriminate]. pose proof (sz_eat _ _ _ E3) as H3.
    pose proof (sz_skip_sp s3) as H4. pose proof (E_shr (skip_sp s3)) as H5. pose proof (HE (skip_sp s3) ltac:(lia)) as F5.
    destruct (E (skip_sp s3)) as [e s4| |]; [|discriminate|contradiction]. cbn [shr1] in H5.
    pose proof (step_more_fuel fuel s4 ltac:(intros s' Hs'; apply HE; lia) ltac:(lia)) as F6.
    destruct (step_more E fuel s4) as [es s5| |]; [|discriminate|contradiction].
    destruct (eat 41%N (skip_sp (match eat 44%N (skip_sp s5) with Some s' => s' | None => s5 end))); discriminate.
  Qed.
End WithE.

Lemma ltr_more_shr : forall k fuel acc s, shr s (ltr_more k fuel acc s).
Proof.
  induction k as [|k IH]; intros fuel acc s; [exact I|]. cbn [ltr_more].
  pose proof (sz_skip_hsp s) as H1.
  destruct (eat 44%N (snd (skip_hsp s))) as [s1|] eqn:E1; [|cbn [shr]; lia].
  pose proof (sz_eat _ _ _ E1) as H2. pose proof (sz_skip_hsp s1) as H3.
  pose proof (p_name_shr fuel (snd (skip_hsp s1))) as H4.
  destruct (p_name fuel (snd (skip_hsp s1))) as [[nm o] s2| |]; [| cbn [shr]; lia | exact I].
  cbn [shr1] in H4. pose proof (IH fuel (AStep nm [acc]) s2) as H5.
  destruct (ltr_more k fuel (AStep nm [acc]) s2) as [e s3| |]; try exact I. cbn [shr] in *. lia.
Qed.

Lemma ltr_more_fuel : forall k fuel acc s, sz s < k -> sz s <= fuel -> ltr_more k fuel acc s <> Fuel.
Proof.
  induction k as [|k IH]; intros fuel acc s Hk Hf; [lia|]. cbn [ltr_more].
  pose proof (sz_skip_hsp s) as H1.
  destruct (eat 44%N (snd (skip_hsp s))) as [s1|] eqn:E1; [|discriminate].
  pose proof (sz_eat _ _ _ E1) as H2. pose proof (sz_skip_hsp s1) as H3.
  pose proof (p_name_shr fuel (snd (skip_hsp s1))) as H4. pose proof (p_name_fuel fuel (snd (skip_hsp s1)) ltac:(lia)) as F4.
  destruct (p_name fuel (snd (skip_hsp s1))) as [[nm o] s2| |]; [| discriminate | contradiction].
  cbn [shr1] in H4. exact (IH fuel (AStep nm [acc]) s2 ltac:(lia) ltac:(lia)).
Qed.

Lemma p_ltr_with_shr E0 fuel s : (forall s, shr1 s (E0 s)) -> shr1 s (p_ltr_with E0 fuel s).
Proof.
  intros HE. unfold p_ltr_with. pose proof (HE s) as H1. destruct (E0 s) as [e s1| |]; try exact I.
  cbn [shr1] in H1. pose proof (ltr_more_shr fuel fuel e s1) as H2.
  destruct (ltr_more fuel fuel e s1) as [e' s2| |]; try exact I. cbn [shr shr1] in *. lia.
Qed.

Lemma p_ltr_with_fuel E0 fuel s : (forall s, shr1 s (E0 s)) -> E0 s <> Fuel -> sz s <= fuel -> p_ltr_with E0 fuel s <> Fuel.
Proof.
  intros HE F0 Hf. unfold p_ltr_with. pose proof (HE s) as H1. destruct (E0 s) as [e s1| |]; [|discriminate|contradiction].
  cbn [shr1] in H1. exact (ltr_more_fuel fuel fuel e s1 ltac:(lia) ltac:(lia)).
Qed.

Lemma p_expr_shr : forall fuel s, shr1 s (p_expr fuel s).
Proof.
  induction fuel as [|f IH]; intros s; [exact I|]. cbn [p_expr].
  pose proof (p_step_shr (p_expr f) IH f s) as H1. destruct (p_step (p_expr f) f s) as [e s'| |]; [exact H1| |exact I].
  pose proof (p_reference_shr f s) as H2. destruct (p_reference f s) as [e s'| |]; [exact H2| |exact I].
  destruct (eat 40%N s) as [s1|] eqn:E1; [|exact I]. pose proof (sz_eat _ _ _ E1) as S1.
  pose proof (sz_skip_sp s1) as S2.
  pose proof (p_ltr_with_shr (p_expr f) f (skip_sp s1) IH) as H3.
  destruct (p_ltr_with (p_expr f) f (skip_sp s1)) as [e s2| |]; try exact I. cbn [shr1] in H3.
  pose proof (sz_skip_sp s2) as S4. destruct (eat 41%N (skip_sp s2)) as [s3|] eqn:E4; [|exact I].
  pose proof (sz_eat _ _ _ E4). cbn [shr1]. lia.
Qed.

Lemma p_expr_fuel : forall fuel s, S (sz s) < fuel -> p_expr fuel s <> Fuel.
Proof.
  induction fuel as [|f IH]; intros s Hf; [lia|]. cbn [p_expr].
  pose proof (p_step_fuel (p_expr f) (p_expr_shr f) f s ltac:(intros s' Hs'; apply IH; lia) ltac:(lia)) as F1.
  destruct (p_step (p_expr f) f s) as [e s'| |]; [discriminate| |contradiction].
  pose proof (p_reference_fuel f s ltac:(lia)) as F2. destruct (p_reference f s) as [e s'| |]; [discriminate| |contradiction].
  destruct (eat 40%N s) as [s1|] eqn:E1; [|discriminate]. pose proof (sz_eat _ _ _ E1) as S1.
  pose proof (sz_skip_sp s1) as S2.
  pose proof (p_ltr_with_fuel (p_expr f) f (skip_sp s1) (p_expr_shr f) ltac:(apply IH; lia) ltac:(lia)) as F3.
  destruct (p_ltr_with (p_expr f) f (skip_sp s1)) as [e s2| |]; [|discriminate|contradiction].
  destruct (eat 41%N (skip_sp s2)); discriminate.
Qed.

(** ** Statements and recipes *)
Lemma outputs_more_shr : forall k fuel s, shr s (outputs_more k fuel s).
Proof.
  induction k as [|k IH]; intros fuel s; [exact I|]. cbn [outputs_more].
  pose proof (sz_skip_hsp s) as H1.
  destruct (eat 44%N (snd (skip_hsp s))) as [s1|] eqn:E1; [|cbn [shr]; lia].
  pose proof (sz_eat _ _ _ E1) as H2. pose proof (sz_skip_hsp s1) as H3.
  pose proof (p_name_shr fuel (snd (skip_hsp s1))) as H4.
  destruct (p_name fuel (snd (skip_hsp s1))) as [o s2| |]; [| cbn [shr]; lia | exact I].
  cbn [shr1] in H4. pose proof (IH fuel s2) as H5.
  destruct (outputs_more k fuel s2) as [os s3| |]; try exact I. cbn [shr] in *. lia.
Qed.

Lemma outputs_more_fuel : forall k fuel s, sz s < k -> sz s <= fuel -> outputs_more k fuel s <> Fuel.
Proof.
  induction k as [|k IH]; intros fuel s Hk Hf; [lia|]. cbn [outputs_more].
  pose proof (sz_skip_hsp s) as H1.
  destruct (eat 44%N (snd (skip_hsp s))) as [s1|] eqn:E1; [|discriminate].
  pose proof (sz_eat _ _ _ E1) as H2. pose proof (sz_skip_hsp s1) as H3.
  pose proof (p_name_shr fuel (snd (skip_hsp s1))) as H4. pose proof (p_name_fuel fuel (snd (skip_hsp s1)) ltac:(lia)) as F4.
  destruct (p_name fuel (snd (skip_hsp s1))) as [o s2| |]; [| discriminate | contradiction].
  cbn [shr1] in H4. pose proof (IH fuel s2 ltac:(lia) ltac:(lia)) as F5.
  destruct (outputs_more k fuel s2) as [os s3| |]; [discriminate | discriminate | contradiction].
Qed.

Lemma p_target_shr fuel s : shr s (p_target fuel s).
Proof.
  unfold p_target, p_output_list.
  pose proof (p_name_shr fuel s) as H1. destruct (p_name fuel s) as [o s1| |]; [| cbn [shr]; lia | exact I].
  cbn [shr1] in H1. pose proof (outputs_more_shr fuel fuel s1) as H2.
  destruct (outputs_more fuel fuel s1) as [os s2| |]; [| cbn [shr]; lia | exact I].
  cbn [shr] in H2. pose proof (sz_skip_hsp s2) as H3. destruct (skip_hsp s2) as [w s3]. cbn [snd] in H3.
  destruct (eat 58%N s3) as [s4|] eqn:E4.
  - pose proof (sz_eat _ _ _ E4) as H4. destruct (eat 61%N s4) as [s5|] eqn:E5; [|cbn [shr]; lia].
    pose proof (sz_eat _ _ _ E5) as H5. pose proof (sz_skip_hsp s5) as H6. cbn [shr]. lia.
  - destruct (eat 61%N s3) as [s5|] eqn:E5; [|cbn [shr]; lia].
    pose proof (sz_eat _ _ _ E5) as H5. pose proof (sz_skip_hsp s5) as H6. cbn [shr]. lia.
Qed.

Lemma p_target_fuel fuel s : sz s < fuel -> p_target fuel s <> Fuel.
Proof.
  intro Hf. unfold p_target, p_output_list.
  pose proof (p_name_shr fuel s) as H1. pose proof (p_name_fuel fuel s Hf) as F1.
  destruct (p_name fuel s) as [o s1| |]; [| discriminate | contradiction].
  cbn [shr1] in H1. pose proof (outputs_more_fuel fuel fuel s1 ltac:(lia) ltac:(lia)) as F2.
  destruct (outputs_more fuel fuel s1) as [os s2| |]; [| discriminate | contradiction].
  destruct (skip_hsp s2) as [w s3]. destruct (eat 58%N s3) as [s4|].
  - destruct (eat 61%N s4); discriminate.
  - destruct (eat 61%N s3); discriminate.
Qed.

Lemma p_stmt_shr fuel s : shr1 s (p_stmt fuel s).
Proof.
  unfold p_stmt. pose proof (p_target_shr fuel s) as H1. destruct (p_target fuel s) as [[os named] s1| |]; try exact I.
  cbn [shr] in H1. pose proof (p_ltr_with_shr (p_expr fuel) fuel s1 (p_expr_shr fuel)) as H2.
  unfold p_ltr. destruct (p_ltr_with (p_expr fuel) fuel s1) as [e s2| |]; try exact I. cbn [shr1] in H2.
  destruct (sc_eol (rest s2)) as [[m r]|] eqn:Ee; [|exact I]. cbn [shr1].
  assert (sz (adv s2 m r) <= sz s2) by (unfold sz; cbn [adv rest]; rewrite (app_len _ _ _ (sc_eol_sound _ _ _ Ee)); lia).
  lia.
Qed.

Lemma p_stmt_fuel fuel s : S (sz s) < fuel -> p_stmt fuel s <> Fuel.
Proof.
  intro Hf. unfold p_stmt. pose proof (p_target_shr fuel s) as H1. pose proof (p_target_fuel fuel s ltac:(lia)) as F1.
  destruct (p_target fuel s) as [[os named] s1| |]; [|discriminate|contradiction].
  cbn [shr] in H1.
  pose proof (p_ltr_with_fuel (p_expr fuel) fuel s1 (p_expr_shr fuel) ltac:(apply p_expr_fuel; lia) ltac:(lia)) as F2.
  unfold p_ltr. destruct (p_ltr_with (p_expr fuel) fuel s1) as [e s2| |]; [|discriminate|contradiction].
  destruct (sc_eol (rest s2)) as [[m r]|]; discriminate.
Qed.

Lemma stmts_more_fuel : forall k fuel s, sz s < k -> S (sz s) < fuel -> stmts_more k fuel s <> Fuel.
Proof.
  induction k as [|k IH]; intros fuel s Hk Hf; [lia|]. cbn [stmts_more].
  pose proof (p_stmt_shr fuel s) as H1. pose proof (p_stmt_fuel fuel s Hf) as F1.
  destruct (p_stmt fuel s) as [a s1| |]; [| discriminate | contradiction].
  cbn [shr1] in H1. pose proof (IH fuel s1 ltac:(lia) ltac:(lia)) as F2.
  destruct (stmts_more k fuel s1) as [l s2| |]; [discriminate | discriminate | contradiction].
Qed.

(** The fuel [fuel_for x] the model hands to the interpreter is always enough:
    "out of fuel" is not an outcome of [parse]. *)
Theorem fuel_suffices x : parse x <> POutOfFuel.
Proof.
  unfold parse, parse_with, p_recipe.
  pose proof (sz_skip_sp (mkSt x 0 None)) as H1.
  assert (H0 : sz (mkSt x 0 None) = L x) by reflexivity. rewrite H0 in H1.
  assert (Hf : S (sz (skip_sp (mkSt x 0 None))) < fuel_for x) by (change (fuel_for x) with (S (S (S (S (L x + L x))))); lia).
  assert (Hk : sz (skip_sp (mkSt x 0 None)) < fuel_for x) by (apply Nat.lt_trans with (2 := Hf); apply Nat.lt_succ_diag_r).
  pose proof (stmts_more_fuel (fuel_for x) (fuel_for x) _ Hk Hf) as F.
  destruct (stmts_more (fuel_for x) (fuel_for x) (skip_sp (mkSt x 0 None))) as [l s1| |]; [| discriminate | contradiction].
  destruct l; [discriminate|]. destruct (at_eof (rest s1)); [|discriminate]. destruct (bad s1); discriminate.
Qed.

Lemma parse_blocks_fuel : forall srcs i, parse_blocks i srcs <> inl SrcOutOfFuel.
Proof.
  induction srcs as [|x l IH]; intros i; cbn [parse_blocks]; [discriminate|].
  pose proof (fuel_suffices x) as Fx. destruct (parse x) as [a| |c|]; [|discriminate|discriminate|contradiction].
  specialize (IH (S i)). destruct (parse_blocks (S i) l) as [e|p]; [|discriminate].
  intro H. inversion H; subst. contradiction.
Qed.

(** ... hence not of [compile_src] either. *)
Theorem compile_src_fuel_suffices srcs : compile_src srcs <> SrcOutOfFuel.
Proof.
  unfold compile_src, compile_src_with. destruct (parse_blocks 0 srcs) as [e|p] eqn:Ep.
  - intro H. subst e. exact (parse_blocks_fuel _ _ Ep).
  - destruct (CompilerInst.compile_ast_inst p); discriminate.
Qed.
