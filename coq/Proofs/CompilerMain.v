(** * Compile-level consequences: errors, fold rule, conservation against the spec. *)
From Coq Require Import List ZArith NArith Bool Lia.
From RG Require Import Base.Str Base.Num Model.Recipe Model.Compiler Spec.CompileSpec
  Proofs.RecipeInd Proofs.NodeEqv Proofs.CompilerExpand Proofs.CompilerPass1.
Import ListNotations.

Section Main.
  Variable convert : str -> str -> option num.
  Variable tol : Z * positive.
  Variable lower : str -> str.

  Lemma compile_rejects_iff p k b o :
    compile_ast convert tol lower p = CErr k b o <-> resolve lower p = Rejected k b o.
  Proof.
    unfold compile_ast. pose proof (pass1_refines_resolve lower p) as H.
    destruct (pass1 lower p) as [bs t|k' b' o'|c0].
    - rewrite H. split; [|discriminate].
      destruct (pass2 convert tol lower bs t) as [bs' t'|c1]; [|discriminate].
      destruct (recipe_ok bs'); discriminate.
    - rewrite H. split; intros E; inversion E; reflexivity.
    - contradiction.
  Qed.

  Lemma compile_accepts_iff p :
    (exists bs, resolve lower p = Resolved bs) <->
    (exists bs, compile_ast convert tol lower p = COk bs) \/ (exists c, compile_ast convert tol lower p = CCrash c).
  Proof.
    unfold compile_ast. pose proof (pass1_refines_resolve lower p) as H.
    destruct (pass1 lower p) as [bs t|k' b' o'|c0].
    - split; [intros _|intros _; eauto].
      destruct (pass2 convert tol lower bs t) as [bs' t'|c1]; [|right; eauto].
      destruct (recipe_ok bs'); [left|right]; eauto.
    - rewrite H. split; [intros [bs E]; discriminate | intros [[bs E]|[c E]]; discriminate].
    - contradiction.
  Qed.

  Lemma compile_no_assert_crash p : compile_ast convert tol lower p <> CCrash AssertOutputs.
  Proof.
    unfold compile_ast. pose proof (pass1_refines_resolve lower p) as H.
    destruct (pass1 lower p) as [bs t|k' b' o'|c0]; [|discriminate|contradiction].
    destruct (pass2 convert tol lower bs t) as [bs' t'|c1] eqn:E2.
    - destruct (recipe_ok bs'); discriminate.
    - intros E; inversion E; subst. clear H E.
      (* pass 2 never produces AssertOutputs *)
      unfold pass2 in E2. revert E2. generalize 0%nat at 1. generalize (length t).
      intros n. revert bs t. induction n as [|n IH]; intros bs t i E2; simpl in E2; [discriminate|].
      destruct (fold_step convert tol lower i bs t) as [bs1 t1|c1] eqn:Ef.
      + eapply IH; eauto.
      + inversion E2; subst. unfold fold_step in Ef.
        destruct (nth_error t i) as [e|]; [|discriminate].
        destruct (can_be_inlined convert tol lower e) as [[|]|]; try discriminate.
        destruct (e_sub e); try discriminate. destruct (e_refs e) as [|[r b] l]; try discriminate.
        destruct (nth_error bs (e_def_block e)); [|discriminate].
        destruct (update_nth (e_def_block e) (remove_first (SubRecipe n0 names show)) bs); discriminate.
  Qed.

  (** Conservation stated against the specification of name resolution. *)
  Theorem compile_conserves_resolve p bs :
    compile_ast convert tol lower p = COk bs ->
    exists bs0, resolve lower p = Resolved bs0 /\ blocks_sub bs bs0.
  Proof.
    intros H. destruct (compile_conserves _ _ _ _ _ H) as (bs0 & t0 & H1 & H2).
    exists bs0. split; [|exact H2].
    pose proof (pass1_refines_resolve lower p) as HR. rewrite H1 in HR. exact HR.
  Qed.

  (** The fold rule, as the code evaluates it at an entry's turn. *)
  Definition whole_amount (amt : amount) (inferred : option quantity) : option bool :=
    match amt with
    | AProp (PropRem _ _) => Some true
    | AProp (PropVal v _ _) => Some (is_one v)
    | AQty q => match inferred with
                | None => Some false
                | Some iq => has_equal_value_to convert tol lower q iq
                end
    end.

  Lemma fold_rule e :
    can_be_inlined convert tol lower e = Some true <->
    exists body nm sh rs ri amt blk,
      e_sub e = SubRecipe body [nm] sh /\                      (* one output *)
      e_refs e = [(Reference rs ri amt, blk)] /\               (* one reference *)
      blk = e_def_block e /\                                   (* in the defining block *)
      whole_amount amt (infer_quantity (e_sub e)) = Some true. (* consuming the whole amount *)
  Proof.
    split.
    - intros H. destruct (can_be_inlined_shape _ _ _ _ H) as (body & nm & sh & rs & ri & amt & blk & Hs & Hr).
      exists body, nm, sh, rs, ri, amt, blk. split; [exact Hs|]. split; [exact Hr|].
      unfold can_be_inlined in H. rewrite Hs, Hr in H.
      destruct (Nat.eqb blk (e_def_block e)) eqn:Eb; simpl in H; [|discriminate].
      apply Nat.eqb_eq in Eb. split; [exact Eb|].
      unfold whole_amount. rewrite Hs. destruct amt as [q|[v pc pr|w pr]]; exact H.
    - intros (body & nm & sh & rs & ri & amt & blk & Hs & Hr & Hb & Hw).
      unfold can_be_inlined. rewrite Hs, Hr. subst blk. rewrite Nat.eqb_refl. simpl.
      unfold whole_amount in Hw. rewrite Hs in Hw. destruct amt as [q|[v pc pr|w pr]]; exact Hw.
  Qed.
End Main.
