(** * Correspondence checks for the recipe data model (suites "valid" of
    C08 and "scale" of C03): the implementation's outcome, serialised by the
    harness, is compared here with what the model computes.  Definitions only. *)
From Coq Require Import List ZArith NArith Bool.
From RG Require Import Base.Str Base.Num Model.Recipe.
Import ListNotations.

Definition blocks := list (list node).
Definition blocks_same : blocks -> blocks -> bool := list_eqb (list_eqb node_same).

Definition err_eqb (a b : invariant_error) : bool :=
  match a, b with
  | MultiOutputSubRecipeUsedAsNonRootNode, MultiOutputSubRecipeUsedAsNonRootNode
  | OutputIndexError, OutputIndexError
  | ZeroOutputSubRecipe, ZeroOutputSubRecipe
  | ReferenceToInvalidSubRecipe, ReferenceToInvalidSubRecipe => true
  | _, _ => false
  end.

(** ** Suite "valid" *)
Inductive vcase :=
| VScale (k : num) (bs : blocks)      (* a recipe the implementation built, and a factor *)
| VNode (t : node)                    (* attempted construction of one node from already built children *)
| VRecipe (bs : blocks).              (* attempted construction of a 'follows' chain of Recipe objects *)

Inductive vout :=
| OScaled (r : option blocks)         (* [r.scale(k) for r in recipes]; None: ReferenceToInvalidSubRecipeError *)
| OVerdict (e : option invariant_error).   (* None: constructed without error *)

Definition recipe_verdict (bs : blocks) : option invariant_error :=
  if recipe_ok bs then None else Some ReferenceToInvalidSubRecipe.

(** What the model computes (for replay output). *)
Definition show_valid (c : vcase) : vout :=
  match c with
  | VScale k bs =>
      match scale_blocks k bs with
      | Some m => if recipe_ok m then OScaled (Some m) else OScaled None
      | None => OVerdict None      (* numeric operation outside the model *)
      end
  | VNode t => OVerdict (node_post_init t)
  | VRecipe bs => OVerdict (recipe_verdict bs)
  end.

Definition check_valid (c : vcase) (o : vout) : bool :=
  match c, o with
  | VScale k bs, OScaled r =>
      (* the implementation built [bs], so its own check accepted it *)
      recipe_ok bs &&
      match scale_blocks k bs with
      | Some m =>
          match r with
          | Some impl => blocks_same m impl && recipe_ok m
          | None => negb (recipe_ok m)
          end
      | None => false
      end
  | VNode t, OVerdict e => option_eqb err_eqb (node_post_init t) e
  | VRecipe bs, OVerdict e => option_eqb err_eqb (recipe_verdict bs) e
  | _, _ => false
  end.

(** ** Suite "scale" (C03): one factor, or two factors applied in sequence. *)
Inductive scase :=
| SOne (k : num) (bs : blocks)
| STwo (a b : num) (bs : blocks).

Definition scale_two (a b : num) (bs : blocks) : option blocks :=
  match scale_blocks a bs with
  | Some m => scale_blocks b m
  | None => None
  end.

Definition show_scale (c : scase) : option blocks :=
  match c with
  | SOne k bs => scale_blocks k bs
  | STwo a b bs => scale_two a b bs
  end.

Definition check_scale (c : scase) (o : blocks) : bool :=
  match show_scale c with
  | Some m => blocks_same m o
  | None => false
  end.
