(** * Glue for C13: the Markdown theorems instantiated with the compiler model.

    The Markdown model (Model/Markdown.v) takes [compile : list str -> option
    (list (list node))] as an oracle ([None] = it raised) and the theorems of
    Props/C13.v assume [compile_len_ok compile]: one block of trees per source
    text.  Here [compile] is the real thing - [compile_model], i.e.
    [compile_src] of Model/Parser.v: parse every source with the parser model,
    compile with the compiler model and the generated unit system - and the
    hypothesis is proved for it. *)
From Coq Require Import List ZArith NArith Bool Lia.
From RG Require Import Base.Str Base.Num Model.Recipe Model.Compiler Model.CompilerInst Model.Parser
  Proofs.CompilerExpand Proofs.GlueValid.
Import ListNotations.

Definition compile_model (srcs : list str) : option (list (list node)) :=
  match compile_src srcs with SrcOk bs => Some bs | _ => None end.

Lemma parse_blocks_length : forall srcs i p, parse_blocks i srcs = inr p -> length p = length srcs.
Proof.
  induction srcs as [|x r IH]; intros i p H; simpl in H.
  - inversion H; reflexivity.
  - destruct (parse x); try discriminate. destruct (parse_blocks (S i) r) as [e|l] eqn:E; [discriminate|].
    inversion H; subst. simpl. f_equal. eapply IH; eauto.
Qed.

Lemma pass1_from_length lower : forall p blk t bs t',
  pass1_from lower blk p t = P1Ok bs t' -> length bs = length p.
Proof.
  induction p as [|b p IH]; intros blk t bs t' H; simpl in H.
  - inversion H; reflexivity.
  - destruct (compile_block lower blk b t) as [trs t1|k o|c0]; try discriminate.
    destruct (pass1_from lower (S blk) p t1) as [bs2 t2|k bl o|c0] eqn:E; try discriminate.
    inversion H; subst. simpl. f_equal. eapply IH; eauto.
Qed.

Lemma Forall2_len {A B} (R : A -> B -> Prop) l l' : Forall2 R l l' -> length l = length l'.
Proof. induction 1; simpl; congruence. Qed.

(** The compiler returns one block of trees per block of statements. *)
Theorem compile_ast_length convert tol lower p bs :
  compile_ast convert tol lower p = COk bs -> length bs = length p.
Proof.
  intro H. destruct (compile_conserves convert tol lower p bs H) as (bs0 & t0 & H1 & Hsub).
  unfold blocks_sub in Hsub. rewrite (Forall2_len _ _ _ Hsub).
  unfold pass1 in H1. eapply pass1_from_length; eauto.
Qed.

Theorem compile_src_length srcs bs : compile_src srcs = SrcOk bs -> length bs = length srcs.
Proof.
  intro H. destruct (compile_src_ok_inv _ _ H) as (p & Hp & Hc). unfold compile_ast_inst in Hc.
  rewrite (compile_ast_length _ _ _ _ _ Hc). eapply parse_blocks_length; eauto.
Qed.

Lemma compile_model_some srcs bs : compile_model srcs = Some bs <-> compile_src srcs = SrcOk bs.
Proof.
  unfold compile_model. destruct (compile_src srcs); split; intro H; try discriminate; inversion H; reflexivity.
Qed.

(** ** Markdown *)
From RG Require Import Model.Markdown Spec.MarkdownSpec Proofs.MarkdownText Proofs.MarkdownSubst
  Proofs.MarkdownCompile Proofs.MarkdownRender Proofs.GlueLinks.
From RG Require Proofs.HtmlLinks.

Theorem compile_model_len_ok : compile_len_ok compile_model.
Proof. intros srcs bs H. apply compile_model_some in H. now apply compile_src_length. Qed.

Theorem model_compile_per_group alt_escape d slugs m :
  NoDup slugs -> Forall (fun g => slug_ok g = true) slugs ->
  md_compile alt_escape compile_model d slugs = MOk m ->
  exists results,
    Forall2 (fun group r => compile_src (map (padded_source (d_text d)) group) = SrcOk r)
            (spec_groups (spec_blocks (d_items d))) results /\
    md_recipes m = results.
Proof.
  intros Hnd Hok H.
  destruct (compile_per_group alt_escape compile_model compile_model_len_ok d slugs m Hnd Hok H) as (rs & HF & Hm).
  exists rs. split; [|exact Hm]. clear Hm H.
  induction HF as [|g r gs rs' Hg _ IH]; constructor; [now apply compile_model_some|exact IH].
Qed.

Theorem model_render_spec alt_escape render_block k d slugs :
  Forall (fun g => slug_ok g = true) slugs ->
  Fresh alt_escape compile_model render_block k d slugs ->
  md_render alt_escape compile_model render_block k d slugs = spec_render alt_escape compile_model render_block k d.
Proof. apply render_spec. exact compile_model_len_ok. Qed.

(** [MarkdownRecipe.recipes] is a page of recipes compiled from text: every
    end-to-end statement about such pages and recipes applies
    (Props/C02e2e.v, C08e2e.v, C09e2e.v, C20e2e.v). *)
Theorem model_recipes_from_source alt_escape d slugs m :
  NoDup slugs -> Forall (fun g => slug_ok g = true) slugs ->
  md_compile alt_escape compile_model d slugs = MOk m ->
  Forall source_recipe (md_recipes m).
Proof.
  intros Hnd Hok H. destruct (model_compile_per_group alt_escape d slugs m Hnd Hok H) as (rs & HF & ->).
  induction HF as [|g r gs rs Hg _ IH]; constructor; [|exact IH].
  exists (map (padded_source (d_text d)) g), r, []. split; [exact Hg|reflexivity].
Qed.

Theorem model_recipes_page_valid alt_escape d slugs m :
  NoDup slugs -> Forall (fun g => slug_ok g = true) slugs ->
  md_compile alt_escape compile_model d slugs = MOk m ->
  HtmlLinks.page_valid (md_recipes m).
Proof. intros Hnd Hok H. apply source_page_valid. eapply model_recipes_from_source; eauto. Qed.
