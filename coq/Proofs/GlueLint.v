(** * Glue for C20: the numbers of a compiled recipe are numbers written in
    the program, and the linter is total on compiled recipes.

    [ast_numbers p]: every number the AST carries - numbers in braces of step
    descriptions, ingredient / reference names and output names, and the
    values of quantity amounts (proportion values are not scalable numbers and
    are not listed, as in [numbers], Proofs/RecipeScale.v).

    Structural invariant through both passes: for any predicate [Q] on
    numbers, if [Q] holds of every number of the program it holds of every
    scalable number of every compiled tree ([blocks_numbers], which also looks
    inside the sub recipes embedded in references): the compiler copies
    names and amounts, never computes a new one. *)
From Coq Require Import List ZArith NArith Bool Lia.
From RG Require Import Base.Str Base.Num Model.Recipe Model.Compiler Spec.Valid
  Proofs.RecipeInd Proofs.RecipeScale Proofs.CompilerExpand.
Import ListNotations.

Definition opt_amount_numbers (a : option amount) : list num :=
  match a with Some x => amount_numbers x | None => [] end.

Fixpoint expr_numbers (e : aexpr) : list num :=
  match e with
  | ARef name amt _ => svs_numbers name ++ opt_amount_numbers amt
  | AStep name ins => svs_numbers name ++ flat_map expr_numbers ins
  end.

Definition stmt_numbers (st : astmt) : list num :=
  flat_map (fun o => svs_numbers (fst o)) (st_outs st) ++ expr_numbers (st_expr st).

Definition ast_numbers (p : list (list astmt)) : list num := flat_map (flat_map stmt_numbers) p.

Section Q.
  Variable Q : num -> Prop.
  Definition node_Q (t : node) : Prop := Forall Q (numbers t).
  Definition block_Q (trees : list node) : Prop := Forall node_Q trees.
  Definition blocks_Q (bs : list (list node)) : Prop := Forall block_Q bs.
  Definition table_Q (t : table) : Prop := Forall (fun e => node_Q (e_sub e)) t.

  Lemma blocks_Q_numbers bs : blocks_Q bs <-> Forall Q (blocks_numbers bs).
  Proof.
    unfold blocks_Q, block_Q, node_Q, blocks_numbers. rewrite Forall_flat_map.
    split; intro H; eapply Forall_impl; try exact H; intros b Hb; now apply Forall_flat_map.
  Qed.

  Lemma node_Q_Step d ins : node_Q (Step d ins) <-> Forall Q (svs_numbers d) /\ Forall node_Q ins.
  Proof.
    unfold node_Q. change (numbers (Step d ins)) with (svs_numbers d ++ flat_map numbers ins).
    rewrite Forall_app, Forall_flat_map. reflexivity.
  Qed.

  Lemma node_Q_Ref sr i a : node_Q (Reference sr i a) <-> node_Q sr /\ Forall Q (amount_numbers a).
  Proof. unfold node_Q. simpl. now rewrite Forall_app. Qed.

  Lemma node_Q_Sub b ns sh : node_Q (SubRecipe b ns sh) <-> node_Q b /\ Forall Q (flat_map svs_numbers ns).
  Proof. unfold node_Q. simpl. now rewrite Forall_app. Qed.

  Lemma node_Q_Ing d q : node_Q (Ingredient d q) <-> Forall Q (svs_numbers d) /\ Forall Q (optq_numbers q).
  Proof. unfold node_Q. simpl. now rewrite Forall_app. Qed.

  Lemma substitute_Q old new : node_Q new -> forall t, node_Q t -> node_Q (substitute old new t).
  Proof.
    intros Hn.
    induction t as [d q|d ins IH|sr i am IH|bd ns sh IH] using node_ind'; intro Ht; rewrite substitute_unfold;
      match goal with |- context [node_eqb ?x old] => destruct (node_eqb x old) end; try exact Hn.
    - exact Ht.
    - apply node_Q_Step in Ht. destruct Ht as [Hd Hs]. apply node_Q_Step. split; [exact Hd|].
      apply Forall_map. rewrite Forall_forall in *. intros x Hx. apply IH; auto.
    - apply node_Q_Ref in Ht. destruct Ht as [H1 H2]. apply node_Q_Ref. split; auto.
    - apply node_Q_Sub in Ht. destruct Ht as [H1 H2]. apply node_Q_Sub. split; auto.
  Qed.

  Lemma remove_first_Q x : forall l l', remove_first x l = Some l' -> block_Q l -> block_Q l'.
  Proof.
    induction l as [|y l IH]; intros l' H Hl; simpl in H; [discriminate|].
    inversion Hl as [|? ? Hy Hr]; subst.
    destruct (node_eqb y x); [inversion H; subst; exact Hr|].
    destruct (remove_first x l) as [r|]; [|discriminate]. inversion H; subst.
    constructor; [exact Hy|]. now apply IH.
  Qed.

  Lemma update_nth_Q (f : list node -> option (list node)) :
    (forall l l', f l = Some l' -> block_Q l -> block_Q l') ->
    forall n bs bs', update_nth n f bs = Some bs' -> blocks_Q bs -> blocks_Q bs'.
  Proof.
    intros Hf. induction n as [|n IH]; intros bs bs' H Hb; destruct bs as [|b bs]; simpl in H; try discriminate;
      inversion Hb as [|? ? Hb1 Hb2]; subst.
    - destruct (f b) as [b'|] eqn:E; [|discriminate]. inversion H; subst. constructor; [eapply Hf; eauto|exact Hb2].
    - destruct (update_nth n f bs) as [r|] eqn:E; [|discriminate]. inversion H; subst.
      constructor; [exact Hb1|]. eapply IH; eauto.
  Qed.

  Lemma map_substitute_Q old new bs : node_Q new -> blocks_Q bs ->
    blocks_Q (map (map (substitute old new)) bs).
  Proof.
    intros Hn Hb. unfold blocks_Q, block_Q in *. apply Forall_map. eapply Forall_impl; [|exact Hb].
    intros b Hbb. apply Forall_map. eapply Forall_impl; [|exact Hbb].
    intros x Hx. now apply substitute_Q.
  Qed.

  Lemma infer_output_name_Q : forall t n, infer_output_name t = Some n -> node_Q t -> Forall Q (svs_numbers n).
  Proof.
    induction t as [d q|d ins IH|sr i am IH|bd ns sh IH] using node_ind'; intros n H Ht; simpl in H; try discriminate.
    - inversion H; subst. apply node_Q_Ing in Ht. apply Ht.
    - destruct ins as [|x [|y r]]; try discriminate. apply node_Q_Step in Ht. destruct Ht as [_ Hs].
      inversion IH as [|? ? Hx _]; subst. inversion Hs as [|? ? Hqx _]; subst. now apply Hx.
  Qed.
End Q.

Section Passes.
  Variable Q : num -> Prop.
  Variable convert : str -> str -> option num.
  Variable tol : Z * positive.
  Variable lower : str -> str.

  Lemma lookup_In_Q k : forall t o, lookup k t = Some o -> In o t.
  Proof.
    induction t as [|e t IH]; intros o H; simpl in H; [discriminate|].
    destruct (svs_eqb (e_key e) k); [inversion H; subst; now left|right; auto].
  Qed.

  Lemma add_ref_Q k r : forall t, table_Q Q t -> table_Q Q (add_ref k r t).
  Proof.
    induction t as [|e t IH]; intros Ht; simpl; [exact Ht|]. inversion Ht as [|? ? He Hr]; subst.
    destruct (svs_eqb (e_key e) k); constructor; simpl; try assumption. apply IH; exact Hr.
  Qed.

  Lemma compile_expr_Q blk : forall e t n t',
    Forall Q (expr_numbers e) -> table_Q Q t ->
    compile_expr lower blk e t = ROk n t' -> node_Q Q n /\ table_Q Q t'.
  Proof.
    induction e as [name amt off|name ins IH] using aexpr_ind'; intros t n t' He Ht H.
    - simpl in He. apply Forall_app in He. destruct He as [Hn Ha].
      simpl in H. destruct (lookup (normalise_output_name lower name) t) as [o|] eqn:El.
      + inversion H; subst. split; [|now apply add_ref_Q]. apply node_Q_Ref. split.
        * unfold table_Q in Ht. rewrite Forall_forall in Ht. apply Ht. eapply lookup_In_Q; eauto.
        * destruct amt as [a|]; [exact Ha|constructor].
      + destruct amt as [[q|pr]|]; inversion H; subst; (split; [|exact Ht]); apply node_Q_Ing; split; auto.
    - rewrite compile_expr_AStep in H.
      destruct (compile_list lower blk ins t) as [ns t1|k o] eqn:E; [|discriminate]. inversion H; subst; clear H.
      change (expr_numbers (AStep name ins)) with (svs_numbers name ++ flat_map expr_numbers ins) in He.
      apply Forall_app in He. destruct He as [Hn Hall]. apply Forall_flat_map in Hall.
      assert (Hl : Forall (node_Q Q) ns /\ table_Q Q t').
      { revert t ns t' Ht E Hall. induction IH as [|x l Hx Hl IHl]; intros t ns t' Ht E Hall; simpl in E.
        - inversion E; subst. split; [constructor|assumption].
        - inversion Hall as [|? ? Hax Hal]; subst.
          destruct (compile_expr lower blk x t) as [n1 t1|k o] eqn:E1; [|discriminate].
          destruct (compile_list lower blk l t1) as [ns2 t2|k o] eqn:E2; [|discriminate].
          inversion E; subst. destruct (Hx _ _ _ Hax Ht E1) as [Hn1 Ht1].
          destruct (IHl _ _ _ Ht1 E2 Hal) as [Hns Ht2]. split; [constructor|]; assumption. }
      destruct Hl as (H2 & H3). split; [|exact H3]. apply node_Q_Step. auto.
  Qed.

  Lemma register_Q blk sub unwrap : node_Q Q sub -> forall names offs idx t t',
    table_Q Q t -> register lower blk sub unwrap names offs idx t = inl (ROk tt t') -> table_Q Q t'.
  Proof.
    intros Hs. induction names as [|nm names IH]; intros offs idx t t' Ht H; simpl in H.
    - inversion H; subst; assumption.
    - destruct (lookup (normalise_output_name lower nm) t).
      + destruct offs as [|[o|] offs']; discriminate.
      + eapply IH; [|exact H]. apply Forall_app; split; [assumption|].
        constructor; [exact Hs|constructor].
  Qed.

  Lemma compile_stmt_Q blk st t tree t' :
    Forall Q (stmt_numbers st) -> table_Q Q t ->
    compile_stmt lower blk st t = SOk tree t' -> node_Q Q tree /\ table_Q Q t'.
  Proof.
    intros Hst Ht H. unfold stmt_numbers in Hst. apply Forall_app in Hst. destruct Hst as [Hout Hex].
    unfold compile_stmt in H.
    destruct (compile_expr lower blk (st_expr st) t) as [tr t1|k o] eqn:E; [|discriminate].
    destruct (compile_expr_Q _ _ _ _ _ Hex Ht E) as [Htr Ht1].
    assert (Hnames : Forall Q (flat_map svs_numbers (map fst (st_outs st)))).
    { rewrite flat_map_concat_map, map_map, <- flat_map_concat_map. exact Hout. }
    destruct (map fst (st_outs st)) as [|x xs] eqn:Em.
    - destruct (infer_output_name tr) as [nm|] eqn:Ei.
      + cbv iota beta in H.
        match type of H with context [register ?a ?b ?c ?d ?e ?f ?g ?h] =>
          destruct (register a b c d e f g h) as [[[] t2|k o]|c0] eqn:Er end; try discriminate.
        assert (Hsub : node_Q Q (SubRecipe tr [nm] (negb true))).
        { apply node_Q_Sub. split; [exact Htr|]. simpl. rewrite app_nil_r.
          eapply infer_output_name_Q; eauto. }
        inversion H; subst. split; [exact Hsub|]. eapply register_Q; [exact Hsub|exact Ht1|exact Er].
      + inversion H; subst; auto.
    - cbv iota beta in H.
      match type of H with context [register ?a ?b ?c ?d ?e ?f ?g ?h] =>
        destruct (register a b c d e f g h) as [[[] t2|k o]|c0] eqn:Er end; try discriminate.
      assert (Hsub : node_Q Q (SubRecipe tr (x :: xs) (negb false))).
      { apply node_Q_Sub. split; [exact Htr|exact Hnames]. }
      inversion H; subst. split; [exact Hsub|]. eapply register_Q; [exact Hsub|exact Ht1|exact Er].
  Qed.

  Lemma compile_block_Q blk : forall sts t trees t',
    Forall Q (flat_map stmt_numbers sts) -> table_Q Q t ->
    compile_block lower blk sts t = BOk trees t' -> block_Q Q trees /\ table_Q Q t'.
  Proof.
    induction sts as [|st sts IH]; intros t trees t' Hs Ht H; simpl in H.
    - inversion H; subst. split; [constructor|assumption].
    - simpl in Hs. apply Forall_app in Hs. destruct Hs as [Hs1 Hs2].
      destruct (compile_stmt lower blk st t) as [tr t1|k o|c0] eqn:E; try discriminate.
      destruct (compile_block lower blk sts t1) as [trs t2|k o|c0] eqn:E2; try discriminate.
      inversion H; subst. destruct (compile_stmt_Q _ _ _ _ _ Hs1 Ht E) as [Htr Ht1].
      destruct (IH _ _ _ Hs2 Ht1 E2) as [Htrs Ht2]. split; [constructor|]; assumption.
  Qed.

  Lemma pass1_from_Q : forall p blk t bs t',
    Forall Q (ast_numbers p) -> table_Q Q t ->
    pass1_from lower blk p t = P1Ok bs t' -> blocks_Q Q bs /\ table_Q Q t'.
  Proof.
    induction p as [|b p IH]; intros blk t bs t' Hp Ht H; simpl in H.
    - inversion H; subst. split; [constructor|assumption].
    - unfold ast_numbers in Hp. simpl in Hp. apply Forall_app in Hp. destruct Hp as [Hp1 Hp2].
      destruct (compile_block lower blk b t) as [trs t1|k o|c0] eqn:E; try discriminate.
      destruct (pass1_from lower (S blk) p t1) as [bs2 t2|k bl o|c0] eqn:E2; try discriminate.
      inversion H; subst. destruct (compile_block_Q _ _ _ _ _ Hp1 Ht E) as [Htrs Ht1].
      destruct (IH _ _ _ _ Hp2 Ht1 E2) as [Hbs Ht2]. split; [constructor|]; assumption.
  Qed.

  Lemma fold_step_Q i bs t bs' t' :
    blocks_Q Q bs -> table_Q Q t ->
    fold_step convert tol lower i bs t = P2Ok bs' t' -> blocks_Q Q bs' /\ table_Q Q t'.
  Proof.
    intros Hb Ht H. unfold fold_step in H.
    destruct (nth_error t i) as [e|] eqn:En; [|inversion H; subst; auto].
    destruct (can_be_inlined convert tol lower e) as [[|]|] eqn:Ec; try discriminate;
      [|inversion H; subst; auto].
    destruct (can_be_inlined_shape convert tol lower e Ec) as (body & nm & sh & rs & ri & amt & blk & Hs & Hr).
    rewrite Hs, Hr in H. rewrite <- Hs in H.
    destruct (nth_error bs (e_def_block e)); [|discriminate].
    destruct (update_nth (e_def_block e) (remove_first (e_sub e)) bs) as [bs1|] eqn:Eu; [|discriminate].
    inversion H; subst bs' t'. clear H.
    assert (He : node_Q Q (e_sub e)).
    { unfold table_Q in Ht. rewrite Forall_forall in Ht. apply Ht. eapply nth_error_In; eauto. }
    assert (Hnew : node_Q Q (if e_unwrap e then body else e_sub e)).
    { destruct (e_unwrap e); [|exact He]. rewrite Hs in He. apply node_Q_Sub in He. apply He. }
    split.
    - apply map_substitute_Q; [exact Hnew|].
      eapply update_nth_Q; [|exact Eu|exact Hb]. intros l0 l0'. apply remove_first_Q.
    - unfold table_Q. apply Forall_map. eapply Forall_impl; [|exact Ht].
      intros e0 He0. simpl. now apply substitute_Q.
  Qed.

  Lemma pass2_from_Q : forall n i bs t bs' t',
    blocks_Q Q bs -> table_Q Q t ->
    pass2_from convert tol lower i n bs t = P2Ok bs' t' -> blocks_Q Q bs' /\ table_Q Q t'.
  Proof.
    induction n as [|n IH]; intros i bs t bs' t' Hb Ht H; simpl in H.
    - inversion H; subst; auto.
    - destruct (fold_step convert tol lower i bs t) as [bs1 t1|c0] eqn:E; [|discriminate].
      destruct (fold_step_Q _ _ _ _ _ Hb Ht E) as [Hb1 Ht1].
      eapply IH; eauto.
  Qed.

  Theorem compile_numbers_Q p bs :
    Forall Q (ast_numbers p) ->
    compile_ast convert tol lower p = COk bs -> Forall Q (blocks_numbers bs).
  Proof.
    unfold compile_ast. intros Hp H.
    destruct (pass1 lower p) as [bs0 t0|k b o|c0] eqn:E1; try discriminate.
    destruct (pass2 convert tol lower bs0 t0) as [bs' t'|c0] eqn:E2; try discriminate.
    destruct (recipe_ok bs'); inversion H; subst.
    destruct (pass1_from_Q p 0 [] bs0 t0 Hp (Forall_nil _) E1) as [Hb Ht].
    unfold pass2 in E2. apply blocks_Q_numbers. exact (proj1 (pass2_from_Q _ _ _ _ _ _ Hb Ht E2)).
  Qed.
End Passes.

(** Every scalable number of a compiled recipe is written in the program. *)
Theorem compile_numbers_incl convert tol lower p bs :
  compile_ast convert tol lower p = COk bs -> incl (blocks_numbers bs) (ast_numbers p).
Proof.
  intros H v Hv.
  pose proof (compile_numbers_Q (fun x => In x (ast_numbers p)) convert tol lower p bs) as HQ.
  rewrite !Forall_forall in HQ. apply HQ; auto.
Qed.

(** ** The linter on compiled recipes *)
From RG Require Import Model.CompilerInst Model.Parser Model.Lint Proofs.RecipeValid Proofs.CompilerInvMain
  Proofs.LintProofs Proofs.LintTotal Proofs.GlueValid.

Definition lint_total (bs : list (list node)) : Prop :=
  (exists l, lint_check bs = LOk l) \/ lint_check bs = LErr LOverflow \/ lint_check bs = LErr LOutOfModel.

Section Lint.
  Variable convert : str -> str -> option num.
  Variable tol : Z * positive.
  Variable lower : str -> str.

  Theorem compiled_no_index_error p bs :
    compile_ast convert tol lower p = COk bs -> lint_check bs <> LErr LIndexError.
  Proof. intro H. apply no_index_error. eapply compile_strictly_valid; eauto. Qed.

  Theorem compiled_iter_scaled_no_index_error p bs ks bs' :
    compile_ast convert tol lower p = COk bs -> scale_blocks_iter ks bs = Some bs' ->
    lint_check bs' <> LErr LIndexError.
  Proof. intros H Hs. apply no_index_error. eapply compiled_iter_scaled_valid; eauto. Qed.

  Theorem compiled_lint_total p bs :
    compile_ast convert tol lower p = COk bs -> Forall not_tiny (blocks_numbers bs) -> lint_total bs.
  Proof. intros H T. apply only_range_errors; [eapply compile_strictly_valid; eauto|exact T]. Qed.

  (** The syntactic condition: no number written in the program is a
      non-zero int / Fraction below 2^-1074 in magnitude (floats, ints and
      zero never are). *)
  Theorem compiled_lint_total_syntactic p bs :
    Forall not_tiny (ast_numbers p) -> compile_ast convert tol lower p = COk bs -> lint_total bs.
  Proof.
    intros T H. eapply compiled_lint_total; [exact H|].
    eapply compile_numbers_Q; eauto.
  Qed.

  Theorem compiled_no_zero_division p bs :
    Forall not_tiny (ast_numbers p) -> compile_ast convert tol lower p = COk bs ->
    lint_check bs <> LErr LZeroDivision.
  Proof. intros T H. apply no_zero_division_not_tiny. eapply compile_numbers_Q; eauto. Qed.

  Theorem compiled_iter_scaled_lint_total p bs ks bs' :
    compile_ast convert tol lower p = COk bs -> scale_blocks_iter ks bs = Some bs' ->
    Forall not_tiny (blocks_numbers bs') -> lint_total bs'.
  Proof.
    intros H Hs T. apply only_range_errors; [|exact T]. eapply compiled_iter_scaled_valid; eauto.
  Qed.

  Theorem compiled_scaled_lint_total p bs k bs' :
    compile_ast convert tol lower p = COk bs -> scale_blocks k bs = Some bs' ->
    Forall not_tiny (blocks_numbers bs') -> lint_total bs'.
  Proof.
    intros H Hs T. apply only_range_errors; [|exact T]. eapply compiled_scaled_valid; eauto.
  Qed.
End Lint.

Theorem src_lint_total srcs p bs :
  parse_blocks 0 srcs = inr p -> Forall not_tiny (ast_numbers p) ->
  compile_src srcs = SrcOk bs -> lint_total bs /\ lint_check bs <> LErr LIndexError.
Proof.
  intros Hp T H. destruct (compile_src_ok_inv _ _ H) as (p' & Hp' & Hc).
  rewrite Hp in Hp'. inversion Hp'; subst p'. unfold compile_ast_inst in Hc. split.
  - eapply compiled_lint_total_syntactic; eauto.
  - eapply compiled_no_index_error; eauto.
Qed.

Theorem src_scaled_lint_total srcs bs ks bs' :
  compile_src srcs = SrcOk bs -> scale_blocks_iter ks bs = Some bs' ->
  lint_check bs' <> LErr LIndexError /\ (Forall not_tiny (blocks_numbers bs') -> lint_total bs').
Proof.
  intros H Hs. destruct (compile_src_ok_inv _ _ H) as (p & _ & Hc). unfold compile_ast_inst in Hc. split.
  - eapply compiled_iter_scaled_no_index_error; eauto.
  - intro T. eapply compiled_iter_scaled_lint_total; eauto.
Qed.
