(** * C10: the interpolation sinks of the site templates (generated list). *)
From Coq Require Import List NArith Bool String.
From RG Require Import Base.Str Gen.GenTemplates Model.Html.
Import ListNotations.

Definition is_safe_marked (k : sink) : bool := existsb (str_eqb (s "safe")) (sk_filters k).

(** the interpolations that are pre-rendered HTML (produced by the Markdown renderer / the recipe renderer) *)
Definition prerendered : list str := [s "body|safe"; s "description|safe"; s "welcome_message|safe"].

Definition sink_ok (k : sink) : bool :=
  (is_safe_marked k && existsb (str_eqb (sk_expr k)) prerendered) ||
  (sk_autoescape k
   && match sk_filters k with [] => true | _ => false end
   && match sk_ctx k with CtxText | CtxAttrDq => true | CtxOther => false end).

Lemma table_sinks_ok : forallb sink_ok template_sinks = true.
Proof. vm_compute. reflexivity. Qed.

Theorem template_sinks_ok k : In k template_sinks ->
  (In (s "safe") (sk_filters k) /\ In (sk_expr k) prerendered) \/
  (sk_autoescape k = true /\ sk_filters k = [] /\ (sk_ctx k = CtxText \/ sk_ctx k = CtxAttrDq)).
Proof.
  intro Hk. pose proof table_sinks_ok as H. rewrite forallb_forall in H. specialize (H k Hk).
  unfold sink_ok in H. apply orb_true_iff in H as [H | H].
  - left. apply andb_true_iff in H as [H H']. unfold is_safe_marked in H. apply existsb_exists in H as [f [Hf He]].
    apply str_eqb_eq in He. subst f. split; [exact Hf|].
    apply existsb_exists in H' as [e [He1 He2]]. apply str_eqb_eq in He2. rewrite He2. exact He1.
  - right. apply andb_true_iff in H as [H H3]. apply andb_true_iff in H as [H1 H2].
    repeat split; [exact H1 | destruct (sk_filters k); [reflexivity | discriminate] |].
    destruct (sk_ctx k); [left; reflexivity | right; reflexivity | discriminate].
Qed.

(** the model of markupsafe.escape reproduces what the installed markupsafe returned to the translator *)
Lemma markup_probe : markup_escape (s "&<>""'a") = markupsafe_probe.
Proof. vm_compute. reflexivity. Qed.
