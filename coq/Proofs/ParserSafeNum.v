(** * C07: evaluating a number literal never fails when no digit run is
    longer than 308 characters (numeric part). *)
From Coq Require Import List ZArith NArith Bool Lia Arith.
From RG Require Import Base.Str Base.Dec Base.Num Model.Recipe Model.Compiler Model.Parser Model.Printer
  Proofs.DecLemmas Proofs.ParserLex.
From RG Require Proofs.LintB64 Proofs.NumFmtProofs.
Import ListNotations.
Open Scope Z_scope.

(** ** [b64] does not overflow below 2^1023, and its results are at most 2^1024 *)
Lemma g_971_small n d : 0 < n -> 0 < d -> n < d * 2 ^ 1023 -> LintB64.g n d 971 < 2 ^ 52.
Proof.
  intros Hn Hd Hb. unfold LintB64.g, scaled. change (0 <=? 971) with true. cbv iota.
  apply Z.div_lt_upper_bound; [lia|]. change (2 ^ 1023) with (2 ^ 971 * 2 ^ 52) in Hb. lia.
Qed.

Lemma e1_small n d : 0 < n -> 0 < d -> n < d * 2 ^ 1023 -> LintB64.e1_of n d <= 970.
Proof.
  intros Hn Hd Hb. destruct (Z_le_gt_dec (LintB64.e1_of n d) 970) as [L|G]; [exact L|]. exfalso.
  pose proof (LintB64.exp_spec n d Hn Hd) as [S _].
  pose proof (LintB64.g_antitone n d 971 (LintB64.e1_of n d - 971) Hn Hd ltac:(lia)) as A.
  replace (971 + (LintB64.e1_of n d - 971)) with (LintB64.e1_of n d) in A by ring.
  pose proof (g_971_small n d Hn Hd Hb). lia.
Qed.

Lemma rne_le_floor_succ a b : 0 <= a -> 0 < b -> rne_div a b <= a / b + 1.
Proof.
  intros Ha Hb. apply NumFmtProofs.rne_div_le; [exact Hb|].
  pose proof (Z.mul_succ_div_gt a b Hb). nia.
Qed.

(** The rounded significand and exponent. *)
Lemma b64_pos_bounds n d : 0 < n -> 0 < d -> n < d * 2 ^ 1023 ->
  exists m e, b64_pos n d = Some (m, e) /\ 0 <= m <= 2 ^ 53 /\ e <= 971.
Proof.
  intros Hn Hd Hb. rewrite LintB64.b64_pos_eq. unfold LintB64.round_at.
  set (e := Z.max (LintB64.e1_of n d) (-1074)).
  assert (He : e <= 970) by (pose proof (e1_small n d Hn Hd Hb); unfold e; lia).
  assert (Hg : LintB64.g n d e < 2 ^ 53).
  { unfold e. destruct (Z.max_spec (LintB64.e1_of n d) (-1074)) as [[L ->]|[L ->]].
    - pose proof (LintB64.g_antitone n d (LintB64.e1_of n d) (-1074 - LintB64.e1_of n d) Hn Hd ltac:(lia)) as A.
      replace (LintB64.e1_of n d + (-1074 - LintB64.e1_of n d)) with (-1074) in A by ring.
      pose proof (LintB64.exp_spec n d Hn Hd). lia.
    - pose proof (LintB64.exp_spec n d Hn Hd). lia. }
  unfold LintB64.g in Hg. pose proof (LintB64.scaled_pos n d e Hn Hd) as Hp.
  destruct (scaled n d e) as [a b]. cbn [fst snd] in Hp. destruct Hp as [Ha Hb'].
  pose proof (rne_le_floor_succ a b ltac:(lia) Hb') as Hr.
  pose proof (NumFmtProofs.rne_div_nonneg a b ltac:(lia) Hb') as Hr0.
  destruct (rne_div a b =? 2 ^ 53) eqn:E.
  - assert (F : (971 <? e + 1) = false) by (apply Z.ltb_ge; lia). rewrite F.
    exists (2 ^ 52), (e + 1). split; [reflexivity|]. split; [split; [apply Z.pow_nonneg; lia | apply Z.pow_le_mono_r; lia] | lia].
  - assert (F : (971 <? e) = false) by (apply Z.ltb_ge; lia). rewrite F.
    exists (rne_div a b), e. split; [reflexivity|]. split; [lia | lia].
Qed.

(** The same up to the largest value that does not round to 2^1024. *)
Definition top : Z := 2 ^ 1024 - 2 ^ 970.

Lemma g_972_small n d : 0 < n -> 0 < d -> n < d * 2 ^ 1024 -> LintB64.g n d 972 < 2 ^ 52.
Proof.
  intros Hn Hd Hb. unfold LintB64.g, scaled. change (0 <=? 972) with true. cbv iota.
  apply Z.div_lt_upper_bound; [lia|]. change (2 ^ 1024) with (2 ^ 972 * 2 ^ 52) in Hb. lia.
Qed.

Lemma b64_pos_bounds_top n d : 0 < n -> 0 < d -> n < d * top ->
  exists m e, b64_pos n d = Some (m, e) /\ 0 <= m <= 2 ^ 53 /\ e <= 971.
Proof.
  intros Hn Hd Hb.
  destruct (Z_lt_ge_dec n (d * 2 ^ 1023)) as [Lo|Hi]; [exact (b64_pos_bounds n d Hn Hd Lo)|].
  assert (Hb' : n < d * 2 ^ 1024) by (unfold top in Hb; assert (0 < 2 ^ 970) by (apply Z.pow_pos_nonneg; lia); nia).
  assert (He1 : LintB64.e1_of n d = 971).
  { pose proof (LintB64.exp_spec n d Hn Hd) as [S1 S2].
    destruct (Z.lt_trichotomy (LintB64.e1_of n d) 971) as [L|[E|G]]; [exfalso | exact E | exfalso].
    - (* e1 <= 970: g at e1 >= g at 970... but n >= d 2^1023 makes g n d 970 >= 2^53 *)
      pose proof (LintB64.g_antitone n d (LintB64.e1_of n d) (970 - LintB64.e1_of n d) Hn Hd ltac:(lia)) as A.
      replace (LintB64.e1_of n d + (970 - LintB64.e1_of n d)) with 970 in A by ring.
      assert (G0 : 2 ^ 53 <= LintB64.g n d 970).
      { unfold LintB64.g, scaled. change (0 <=? 970) with true. cbv iota.
        apply Z.div_le_lower_bound; [lia|]. change (2 ^ 1023) with (2 ^ 970 * 2 ^ 53) in Hi. lia. }
      lia.
    - pose proof (LintB64.g_antitone n d 972 (LintB64.e1_of n d - 972) Hn Hd ltac:(lia)) as A.
      replace (972 + (LintB64.e1_of n d - 972)) with (LintB64.e1_of n d) in A by ring.
      pose proof (g_972_small n d Hn Hd Hb'). lia. }
  rewrite LintB64.b64_pos_eq. unfold LintB64.round_at. rewrite He1. change (Z.max 971 (-1074)) with 971.
  unfold scaled. change (0 <=? 971) with true. cbv iota.
  assert (Hb2 : 0 < d * 2 ^ 971) by (apply Z.mul_pos_pos; [lia | apply Z.pow_pos_nonneg; lia]).
  pose proof (NumFmtProofs.rne_div_spec n (d * 2 ^ 971) Hb2) as [[_ U] _].
  pose proof (NumFmtProofs.rne_div_nonneg n (d * 2 ^ 971) ltac:(lia) Hb2) as Hr0.
  assert (Hlt : rne_div n (d * 2 ^ 971) < 2 ^ 53).
  { unfold top in Hb. change (2 ^ 1024) with (2 ^ 971 * 2 ^ 53) in Hb. change (2 ^ 970) with (2 ^ 970 * 1) in Hb.
    change (2 ^ 971) with (2 ^ 970 * 2) in *. set (P := 2 ^ 970) in *. assert (0 < P) by (apply Z.pow_pos_nonneg; lia).
    set (q := rne_div n (d * (P * 2))) in *. clearbody q. nia. }
  assert (E : (rne_div n (d * 2 ^ 971) =? 2 ^ 53) = false) by (apply Z.eqb_neq; lia). rewrite E.
  change (971 <? 971) with false. cbv iota.
  exists (rne_div n (d * 2 ^ 971)), 971. split; [reflexivity|]. split; lia.
Qed.

(** [canon] keeps the value. *)
Lemma canon_pos_value : forall p e, let (m, e2) := canon_pos p e in e <= e2 /\ m * 2 ^ (e2 - e) = Zpos p /\ 0 < m.
Proof.
  induction p as [p IH|p IH|]; intro e; cbn [canon_pos].
  - split; [lia|]. rewrite Z.sub_diag. split; lia.
  - specialize (IH (e + 1)). destruct (canon_pos p (e + 1)) as [m e2]. destruct IH as [L [V P]].
    split; [lia|]. split; [|exact P]. replace (e2 - e) with (Z.succ (e2 - (e + 1))) by lia.
    rewrite Z.pow_succ_r by lia. lia.
  - split; [lia|]. rewrite Z.sub_diag. split; lia.
Qed.

(** The value of a float [canon m e] with [0 < m <= 2^53], [e <= 971], as a
    fraction [fn / fd]: at most 2^1024. *)
Lemma canon_frac_bound m e : 0 < m <= 2 ^ 53 -> e <= 971 ->
  let (fn, fd) := to_frac (canon m e) in 0 < fn /\ fn <= Zpos fd * 2 ^ 1024.
Proof.
  intros [Hm0 Hm] He. unfold canon. destruct m as [|p|p]; try lia.
  pose proof (canon_pos_value p e) as V. destruct (canon_pos p e) as [m2 e2]. destruct V as [L [V P]].
  cbn [to_frac]. destruct (0 <=? e2) eqn:E.
  - apply Z.leb_le in E. split; [apply Z.mul_pos_pos; [exact P | apply Z.pow_pos_nonneg; lia]|].
    change (Zpos 1 * 2 ^ 1024) with (2 ^ 1024).
    destruct (Z_le_gt_dec 0 e) as [E0|E0].
    + (* m2 * 2^e2 = p * 2^e *)
      assert (Q : m2 * 2 ^ e2 = Zpos p * 2 ^ e).
      { rewrite <- V. replace e2 with ((e2 - e) + e) at 1 by ring. rewrite Z.pow_add_r by lia. ring. }
      rewrite Q. change (2 ^ 1024) with (2 ^ 53 * 2 ^ 971).
      apply Z.mul_le_mono_nonneg; [lia | exact Hm | apply Z.pow_nonneg; lia | apply Z.pow_le_mono_r; lia].
    + (* e < 0 <= e2: m2 * 2^e2 <= p *)
      assert (Q : m2 * 2 ^ e2 * 2 ^ (- e) = Zpos p).
      { rewrite <- V. replace (e2 - e) with (e2 + - e) by ring. rewrite Z.pow_add_r by lia. ring. }
      assert (1 <= 2 ^ (- e)) by (pose proof (Z.pow_pos_nonneg 2 (- e) ltac:(lia) ltac:(lia)); lia).
      assert (0 <= m2 * 2 ^ e2) by (apply Z.mul_nonneg_nonneg; [lia | apply Z.pow_nonneg; lia]).
      assert (m2 * 2 ^ e2 <= Zpos p) by nia.
      assert (2 ^ 53 <= 2 ^ 1024) by (apply Z.pow_le_mono_r; lia). lia.
  - apply Z.leb_gt in E. split; [exact P|].
    assert (Hm2 : m2 <= Zpos p).
    { rewrite <- V. assert (1 <= 2 ^ (e2 - e)) by (pose proof (Z.pow_pos_nonneg 2 (e2 - e) ltac:(lia) ltac:(lia)); lia). nia. }
    assert (2 ^ 53 <= 2 ^ 1024) by (apply Z.pow_le_mono_r; lia).
    assert (1 <= Zpos (Z.to_pos (2 ^ (- e2)))) by lia. nia.
Qed.

(** Non-negative [n / d] below 2^1023: [b64] succeeds and the result is a
    float of value at most 2^1024 (or zero). *)
Lemma b64_safe n d : 0 <= n -> n < Zpos d * top ->
  exists f, b64 n d = Some f /\ let (fn, fd) := to_frac f in 0 <= fn /\ fn <= Zpos fd * 2 ^ 1024.
Proof.
  intros Hn Hb. unfold b64. destruct n as [|p|p]; [| |lia].
  - exists (NFloat 0 0). split; [reflexivity|]. cbn. split; lia.
  - destruct (b64_pos_bounds_top (Zpos p) (Zpos d) ltac:(lia) ltac:(lia) Hb) as [m [e [E [[Hm0 Hm] He]]]]. rewrite E.
    exists (canon m e). split; [reflexivity|].
    destruct (Z.eq_dec m 0) as [->|Hne].
    + cbn. split; lia.
    + pose proof (canon_frac_bound m e ltac:(lia) He) as B. destruct (to_frac (canon m e)) as [fn fd]. lia.
Qed.

(** ** Percentages never leave the number model *)
Definition pct_ok (v : num) : Prop := exists q, ndiv v (NInt 100) = NOk q.

Lemma pct_int z : 0 <= z <= 2 ^ 1024 -> pct_ok (NInt z).
Proof.
  intros [H0 H1]. unfold pct_ok, ndiv, exact_div. cbn [to_frac]. unfold round_q.
  destruct (b64_safe (z * 1) (1 * 100) ltac:(lia)) as [f [E _]].
  { change (Zpos (1 * 100)) with 100. unfold top. change (2 ^ 1024) with (2 ^ 970 * 2 ^ 54) in *. assert (0 < 2 ^ 970) by (apply Z.pow_pos_nonneg; lia). set (P := 2 ^ 970) in *. assert (2 ^ 54 = 18014398509481984) by reflexivity. nia. }
  rewrite E. eexists. reflexivity.
Qed.

Lemma pct_frac n d : pct_ok (NFrac n d).
Proof. unfold pct_ok, ndiv, exact_div. cbn [to_frac]. eexists. reflexivity. Qed.

Lemma to_float_100 : to_float (NInt 100) = NOk (NFloat 25 2).
Proof. vm_compute. reflexivity. Qed.

Lemma pct_float m e : (let (fn, fd) := to_frac (NFloat m e) in 0 <= fn /\ fn <= Zpos fd * 2 ^ 1024) ->
  pct_ok (NFloat m e).
Proof.
  intro B. unfold pct_ok, ndiv. rewrite to_float_100. cbn [to_float]. unfold exact_div.
  destruct (to_frac (NFloat m e)) as [fn fd]. destruct B as [B0 B1].
  change (to_frac (NFloat 25 2)) with (100, 1%positive). unfold round_q.
  destruct (b64_safe (fn * 1) (fd * 100) ltac:(lia)) as [f [E _]].
  { rewrite Pos2Z.inj_mul. unfold top. change (2 ^ 1024) with (2 ^ 970 * 2 ^ 54) in *. assert (0 < 2 ^ 970) by (apply Z.pow_pos_nonneg; lia). set (P := 2 ^ 970) in *. assert (2 ^ 54 = 18014398509481984) by reflexivity. nia. }
  rewrite E. eexists. reflexivity.
Qed.

(** ** Literals *)
Open Scope N_scope.

Lemma pow10_308 : (Z.of_N (10 ^ 308) < top)%Z.
Proof. vm_compute. reflexivity. Qed.

Lemma val_small (d : str) : forallb is_digit d = true -> (List.length d <= 308)%nat ->
  (0 <= Z.of_N (val_N d) < Z.of_N (10 ^ 308))%Z.
Proof.
  intros Hd Hl. pose proof (val_N_lt d Hd) as V. split; [lia|].
  assert (10 ^ N.of_nat (List.length d) <= 10 ^ 308) by (apply N.pow_le_mono_r; lia). lia.
Qed.

Lemma int_of_float_clean (d : str) : forallb is_digit d = true -> (List.length d <= 308)%nat ->
  exists z, int_of_float_text d = (NInt z, None) /\ pct_ok (NInt z).
Proof.
  intros Hd Hl. pose proof (val_small d Hd Hl) as [V0 V]. pose proof pow10_308 as P.
  unfold int_of_float_text. destruct (Z.of_N (val_N d) <? 2 ^ 53)%Z eqn:E.
  - eexists. split; [reflexivity|]. apply pct_int. apply Z.ltb_lt in E.
    assert (2 ^ 53 <= 2 ^ 1024)%Z by (apply Z.pow_le_mono_r; lia). lia.
  - destruct (b64_safe (Z.of_N (val_N d)) 1 V0) as [f [Ef B]]; [change (Zpos 1) with 1%Z; lia|].
    rewrite Ef. destruct (to_frac f) as [fn fd]. eexists. split; [reflexivity|]. apply pct_int.
    destruct B as [B0 B1]. split; [apply Z.div_pos; lia|].
    apply Z.div_le_upper_bound; lia.
Qed.

Lemma float_of_text_clean (i f : str) : forallb is_digit i = true -> (List.length i <= 308)%nat ->
  forallb is_digit f = true ->
  exists v, float_of_text i f = (v, None) /\ pct_ok v.
Proof.
  intros Hi Hl Hf. pose proof (val_small i Hi Hl) as [V0 V]. pose proof pow10_308 as P.
  pose proof (val_N_lt f Hf) as Vf. unfold float_of_text.
  set (k := N.of_nat (List.length f)) in *.
  assert (K : 0 < 10 ^ k) by (apply N.neq_0_lt_0, N.pow_nonzero; discriminate).
  assert (Hb : (Z.of_N (val_N i * 10 ^ k + val_N f) < Zpos (Z.to_pos (Z.of_N (10 ^ k))) * top)%Z).
  { rewrite Z2Pos.id by lia.
    assert ((Z.of_N (val_N i * 10 ^ k + val_N f) < (Z.of_N (val_N i) + 1) * Z.of_N (10 ^ k))%Z) by nia.
    nia. }
  destruct (b64_safe _ _ (N2Z.is_nonneg _) Hb) as [v [Ev B]]. rewrite Ev. exists v. split; [reflexivity|].
  unfold b64 in Ev. destruct (Z.of_N (val_N i * 10 ^ k + val_N f)) as [|p|p] eqn:Ez.
  - inversion Ev; subst. apply pct_float. cbn. split; lia.
  - destruct (b64_pos (Zpos p) _) as [[m e]|]; [|discriminate]. inversion Ev; subst.
    unfold canon in *. destruct m as [|q|q].
    + apply pct_float. cbn. split; lia.
    + destruct (canon_pos q e) as [m' e']. apply pct_float. exact B.
    + destruct (canon_pos q e) as [m' e']. apply pct_float. exact B.
  - lia.
Qed.

Lemma val_acc_pos : forall (x : str) a, 0 < a -> 0 < val_acc a x.
Proof. induction x as [|c t IH]; intros a Ha; cbn [val_acc]; [exact Ha | apply IH; lia]. Qed.

Lemma val_acc_nonzero : forall (d : str) a, forallb is_digit d = true ->
  (a <> 0 \/ forallb (fun c => c =? 48) d = false) -> val_acc a d <> 0.
Proof.
  induction d as [|c t IH]; intros a Hd Hz; cbn [val_acc].
  - destruct Hz as [Ha|Hz]; [exact Ha | discriminate Hz].
  - cbn [forallb] in Hd. apply andb_true_iff in Hd as [Hc Hd]. apply IH; [exact Hd|].
    unfold is_digit in Hc. apply andb_true_iff in Hc as [H1 H2]. apply N.leb_le in H1, H2.
    destruct Hz as [Ha|Hz]; [left; lia|]. cbn [forallb] in Hz.
    destruct (c =? 48) eqn:E; [right; exact Hz | left; apply N.eqb_neq in E; lia].
Qed.

Lemma val_nonzero (d : str) : forallb is_digit d = true -> forallb (fun c => c =? 48) d = false -> val_N d <> 0.
Proof. intros Hd Hz. apply val_acc_nonzero; [exact Hd | right; exact Hz]. Qed.

Lemma frac_value_clean (i : option str) (n d : str) :
  (List.length n <= 308)%nat -> (List.length d <= 308)%nat ->
  match i with Some a => (List.length a <= 308)%nat | None => True end ->
  forallb is_digit d = true -> forallb (fun c => c =? 48) d = false ->
  exists v, frac_value i n d = (v, None) /\ pct_ok v.
Proof.
  intros Hn Hd Hi Hdd Hz. unfold frac_value.
  assert (T : forall x : str, (List.length x <= 308)%nat -> too_long x = false).
  { intros x Hx. unfold too_long, int_max_str_digits. rewrite len_length. apply N.ltb_ge. lia. }
  rewrite (T n Hn), (T d Hd). cbn [orb]. destruct i as [a|]; [rewrite (T a Hi)|].
  - pose proof (val_nonzero d Hdd Hz). destruct (val_N d); [contradiction|].
    unfold mk_frac. eexists. split; [reflexivity | apply pct_frac].
  - pose proof (val_nonzero d Hdd Hz). destruct (val_N d); [contradiction|].
    unfold mk_frac. eexists. split; [reflexivity | apply pct_frac].
Qed.
