(** * Facts about the specification alone (C02): dimensions are positive, every placed cell
    and every region of a subtree lies in the subtree's rectangle. *)
From Coq Require Import List Arith NArith Bool Lia ZifyBool.
From RG Require Import Model.Table Model.Layout Spec.LayoutSpec Proofs.LayoutTiling Proofs.LayoutArith.
Import ListNotations.
Local Open Scope N_scope.

Definition r_row (g : rect) : N := fst (fst (fst g)).
Definition r_col (g : rect) : N := snd (fst (fst g)).
Definition r_h (g : rect) : N := snd (fst g).
Definition r_w (g : rect) : N := snd g.

(** [g] lies in the rectangle at (r, c) of size h x w. *)
Definition within (g : rect) (r c h w : N) : Prop :=
  r <= r_row g /\ r_row g + r_h g <= r + h /\ c <= r_col g /\ r_col g + r_w g <= c + w.
Definition positive (g : rect) : Prop := 1 <= r_h g /\ 1 <= r_w g.

Lemma list_max_le l m : (forall x, In x l -> x <= m) -> list_max l <= m.
Proof.
  induction l as [|y l IH]; simpl; intros H; [lia|].
  pose proof (H y (or_introl eq_refl)). specialize (IH (fun x Hx => H x (or_intror Hx))). lia.
Qed.

Lemma list_sum_app a b : list_sum (a ++ b) = list_sum a + list_sum b.
Proof. induction a as [|x a IH]; simpl; [reflexivity|]. rewrite IH. lia. Qed.

(** ** Positive dimensions *)
Lemma dims_pos : forall t b, wf_at b t = true -> 1 <= height t /\ 1 <= width t.
Proof.
  induction t as [ref|ins IH|body n show IH] using ltree_ind2; intros b Hwf.
  - cbn [height width]. lia.
  - simpl in Hwf. apply andb_true_iff in Hwf as [Hne Hwf]. cbn [height width]. split; [|lia].
    destruct ins as [|x ins]; [discriminate|]. simpl in Hwf. apply andb_true_iff in Hwf as [Hx _].
    inversion IH as [|? ? Hx' _]; subst. destruct (Hx' false Hx). cbn [map list_sum fold_right]. lia.
  - simpl in Hwf. apply andb_true_iff in Hwf as [_ Hwf]. destruct (IH false Hwf).
    cbn [height width]. destruct (Nat.eqb n 1); [destruct show|]; lia.
Qed.

(** ** Stacks *)
Lemma in_stack_i {A} (f : nat -> ltree -> N -> list A) hgt : forall l i r y,
  In y (stack_i f hgt i l r) ->
  exists pre x post, l = pre ++ x :: post
    /\ In y (f (i + length pre)%nat x (r + list_sum (map hgt pre))).
Proof.
  induction l as [|x l IH]; intros i r y Hy; [destruct Hy|].
  simpl in Hy. apply in_app_or in Hy as [Hy|Hy].
  - exists [], x, l. simpl. rewrite Nat.add_0_r, N.add_0_r. auto.
  - apply IH in Hy as (pre & x' & post & -> & Hy). exists (x :: pre), x', post. simpl.
    split; [reflexivity|].
    replace (i + S (length pre))%nat with (S i + length pre)%nat by lia.
    replace (r + (hgt x + list_sum (map hgt pre))) with (r + hgt x + list_sum (map hgt pre)) by lia.
    exact Hy.
Qed.

(** ** Cells and regions lie in their rectangle *)
Lemma place_within : forall t p r c w,
  wf_at false t = true -> width t <= w ->
  forall g, In g (place p t r c w) -> within (snd g) r c (height t) w /\ positive (snd g).
Proof.
  induction t as [ref|ins IH|body n show IH] using ltree_ind2; intros p r c w Hwf Hw g Hg.
  - simpl in Hg. destruct Hg as [<-|[]]. unfold within, positive, r_row, r_col, r_h, r_w; cbn [fst snd height width].
    simpl in Hw. lia.
  - simpl in Hwf. apply andb_true_iff in Hwf as [Hne Hwf]. simpl in Hw.
    cbn [place] in Hg. apply in_app_or in Hg as [Hg|[<-|[]]].
    + apply in_stack_i in Hg as (pre & x & post & -> & Hg).
      rewrite forallb_app in Hwf. apply andb_true_iff in Hwf as [_ Hwf].
      simpl in Hwf. apply andb_true_iff in Hwf as [Hx _].
      apply Forall_app in IH as [_ IH]. inversion IH as [|? ? IHx _]; subst.
      assert (Hwx : width x <= list_max (map width (pre ++ x :: post))).
      { apply list_max_ge. apply in_map. apply in_or_app. right. left. reflexivity. }
      destruct (IHx _ _ _ _ Hx Hwx g Hg) as [Hin Hpos]. split; [|exact Hpos].
      cbn [height]. rewrite map_app, list_sum_app. simpl.
      unfold within in *. lia.
    + assert (Hh : 1 <= list_sum (map height ins)).
      { destruct ins as [|x ins]; [discriminate|]. simpl in Hwf.
        apply andb_true_iff in Hwf as [Hx _]. destruct (dims_pos x false Hx). simpl. lia. }
      unfold within, positive, r_row, r_col, r_h, r_w; cbn [fst snd height width]. lia.
  - simpl in Hwf. apply andb_true_iff in Hwf as [Hn Hwf].
    assert (En : Nat.eqb n 1 = true) by (apply andb_true_iff in Hn as [_ Hn]; exact Hn).
    destruct (dims_pos body false Hwf) as [Hh Hww].
    cbn [place height width] in *. rewrite En in *. cbv iota in *. destruct show.
    + destruct Hg as [<-|Hg].
      * unfold within, positive, r_row, r_col, r_h, r_w; cbn [fst snd height width]. lia.
      * destruct (IH _ _ _ _ Hwf Hw g Hg) as [Hin Hpos]. split; [|exact Hpos].
        unfold within in *. lia.
    + exact (IH _ _ _ _ Hwf Hw g Hg).
Qed.

Lemma regions_within : forall t r c w,
  wf_at false t = true -> width t <= w ->
  forall g, In g (regions t r c w) -> within g r c (height t) w.
Proof.
  induction t as [ref|ins IH|body n show IH] using ltree_ind2; intros r c w Hwf Hw g Hg.
  - destruct Hg.
  - simpl in Hwf. apply andb_true_iff in Hwf as [Hne Hwf]. simpl in Hw.
    cbn [regions] in Hg.
    apply in_stack_i in Hg as (pre & x & post & -> & Hg).
    rewrite forallb_app in Hwf. apply andb_true_iff in Hwf as [_ Hwf].
    simpl in Hwf. apply andb_true_iff in Hwf as [Hx _].
    apply Forall_app in IH as [_ IH]. inversion IH as [|? ? IHx _]; subst.
    assert (Hwx : width x <= list_max (map width (pre ++ x :: post))).
    { apply list_max_ge. apply in_map. apply in_or_app. right. left. reflexivity. }
    pose proof (IHx _ _ _ Hx Hwx g Hg) as Hin.
    cbn [height]. rewrite map_app, list_sum_app. simpl.
    unfold within in *. lia.
  - simpl in Hwf. apply andb_true_iff in Hwf as [Hn Hwf].
    assert (En : Nat.eqb n 1 = true) by (apply andb_true_iff in Hn as [_ Hn]; exact Hn).
    cbn [regions height width] in *. rewrite En in *. cbv iota in *.
    destruct Hg as [<-|Hg].
    + unfold within, r_row, r_col, r_h, r_w; cbn [fst snd height width]. lia.
    + destruct show.
      * pose proof (IH _ _ _ Hwf Hw g Hg) as Hin. unfold within in *. lia.
      * exact (IH _ _ _ Hwf Hw g Hg).
Qed.

(** ** Dimensions of the arithmetic layout *)
Lemma apad_rows w t : t_rows (apad w t) = t_rows t.
Proof. unfold apad. destruct (w <=? t_cols t); reflexivity. Qed.

Lemma map_i_ext {A} (f : table -> A) (g : ltree -> A) p : forall ins i,
  Forall (fun x => forall q, f (alayout false q x) = g x) ins ->
  map f (map_i (fun i x => alayout false (p ++ [i]) x) i ins) = map g ins.
Proof.
  induction ins as [|x ins IH]; intros i H; [reflexivity|].
  inversion H as [|? ? Hx Hr]; subst. simpl. rewrite Hx, IH by assumption. reflexivity.
Qed.

Lemma alayout_dims : forall t b p,
  wf_at b t = true -> t_rows (alayout b p t) = height t /\ t_cols (alayout b p t) = width t.
Proof.
  induction t as [ref|ins IH|body n show IH] using ltree_ind2; intros b p Hwf.
  - simpl. destruct b; simpl; auto.
  - simpl in Hwf. apply andb_true_iff in Hwf as [_ Hwf].
    assert (IH' : Forall (fun x => forall q, t_rows (alayout false q x) = height x
                                            /\ t_cols (alayout false q x) = width x) ins).
    { rewrite Forall_forall in *. intros x Hx q. apply IH; [assumption|].
      rewrite forallb_forall in Hwf. auto. }
    assert (Hrows : t_rows (alayout false p (LStep ins)) = height (LStep ins)).
    { cbn [alayout ahjuxt avstack t_rows height]. rewrite map_map.
      erewrite (map_ext _ t_rows) by (intros; apply apad_rows).
      rewrite (map_i_ext t_rows height); [reflexivity|].
      eapply Forall_impl; [|exact IH']. intros x Hx q. apply Hx. }
    assert (Hcols : t_cols (alayout false p (LStep ins)) = width (LStep ins)).
    { cbn [alayout ahjuxt avstack asingle t_cols c_cols plain width].
      rewrite (map_i_ext t_cols width); [reflexivity|].
      eapply Forall_impl; [|exact IH']. intros x Hx q. apply Hx. }
    destruct b; [|split; assumption]. cbn [alayout] in *. unfold aborder; simpl t_rows; simpl t_cols.
    split; assumption.
  - simpl in Hwf. apply andb_true_iff in Hwf as [_ Hwf]. destruct (IH false (p ++ [0%nat]) Hwf) as [Hr Hc].
    cbn [alayout height width]. destruct (Nat.eqb n 1); [destruct show|];
      unfold aborder, avstack, ahjuxt, asingle;
      cbn [t_rows t_cols map list_sum fold_right c_rows c_cols plain]; rewrite ?Hr, ?Hc; split; lia.
Qed.
