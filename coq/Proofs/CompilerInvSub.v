(** * Compiler invariants, part 7: sub-lists (to speak about two different
    positions of a list of values that may contain equal values), the top
    chain under substitution, and the invariants used for the uniqueness of
    output names. *)
From Coq Require Import List ZArith NArith Bool Lia.
From RG Require Import Base.Str Base.Num Model.Recipe Model.Compiler Spec.Valid
  Proofs.RecipeInd Proofs.NodeEqv Proofs.RecipeValid Proofs.CompilerExpand
  Proofs.CompilerInvSize Proofs.CompilerInvNames Proofs.CompilerInvDefs.
Import ListNotations.

Inductive subl {A} : list A -> list A -> Prop :=
| subl_nil : subl [] []
| subl_keep x l1 l2 : subl l1 l2 -> subl (x :: l1) (x :: l2)
| subl_skip x l1 l2 : subl l1 l2 -> subl l1 (x :: l2).

Lemma subl_nil_l {A} (l : list A) : subl [] l.
Proof. induction l; constructor; auto. Qed.

Lemma subl_refl {A} (l : list A) : subl l l.
Proof. induction l; constructor; auto. Qed.

Lemma subl_In {A} (l' l : list A) x : subl l' l -> In x l' -> In x l.
Proof. induction 1; simpl; intros; tauto. Qed.

Lemma subl_one {A} (l : list A) x : In x l -> subl [x] l.
Proof.
  induction l as [|y l IH]; simpl; [tauto|]. intros [->|H].
  - apply subl_keep, subl_nil_l.
  - apply subl_skip, IH, H.
Qed.

Lemma subl_app_insert {A} (l' la lb : list A) z : subl l' (la ++ lb) -> subl l' (la ++ z :: lb).
Proof.
  revert l'. induction la as [|y la IH]; simpl; intros l' H.
  - now apply subl_skip.
  - inversion H; subst; [apply subl_keep | apply subl_skip]; auto.
Qed.

Lemma subl_pair_with {A} (la lb : list A) x z : In x (la ++ lb) ->
  subl [x; z] (la ++ z :: lb) \/ subl [z; x] (la ++ z :: lb).
Proof.
  induction la as [|y la IH]; simpl; intro H.
  - right. apply subl_keep. now apply subl_one.
  - destruct H as [->|H].
    + left. apply subl_keep. apply subl_one. apply in_elt.
    + destruct (IH H); [left | right]; now apply subl_skip.
Qed.

Lemma subl_map_inv {A B} (f : A -> B) : forall l l',
  subl l' (map f l) -> exists l0, l' = map f l0 /\ subl l0 l.
Proof.
  induction l as [|x l IH]; simpl; intros l' H.
  - inversion H; subst. exists []. split; [reflexivity | constructor].
  - inversion H as [|y l1 l2 Hs|y l1 l2 Hs]; subst.
    + destruct (IH _ Hs) as (l0 & -> & Hs0). exists (x :: l0). split; [reflexivity | now constructor].
    + destruct (IH _ Hs) as (l0 & -> & Hs0). exists l0. split; [reflexivity | now constructor].
Qed.

Lemma subl_snoc_inv {A} : forall (l l' : list A) x,
  subl l' (l ++ [x]) -> subl l' l \/ exists l'', l' = l'' ++ [x] /\ subl l'' l.
Proof.
  induction l as [|y l IH]; simpl; intros l' x H.
  - inversion H as [|z l1 l2 Hs|z l1 l2 Hs]; subst.
    + inversion Hs; subst. right. exists []. split; [reflexivity | constructor].
    + inversion Hs; subst. left. constructor.
  - inversion H as [|z l1 l2 Hs|z l1 l2 Hs]; subst.
    + destruct (IH _ _ Hs) as [Hs0|(l'' & -> & Hs0)].
      * left. now constructor.
      * right. exists (y :: l''). split; [reflexivity | now constructor].
    + destruct (IH _ _ Hs) as [Hs0|(l'' & -> & Hs0)].
      * left. now constructor.
      * right. exists l''. split; [reflexivity | now constructor].
Qed.

Lemma subl_length {A} (l' l : list A) : subl l' l -> (length l' <= length l)%nat.
Proof. induction 1; simpl; lia. Qed.

(** ** The top chain of a substituted tree *)
Lemma chain_substitute_sub osr oi oa new : forall t S,
  chain S (substitute (Reference osr oi oa) new t) -> is_subrecipe S = true ->
  (exists S0, chain S0 t /\ is_subrecipe S0 = true /\ S = substitute (Reference osr oi oa) new S0)
  \/ (chain S new /\ exists z, chain z t /\ node_eqb z (Reference osr oi oa) = true).
Proof.
  set (old := Reference osr oi oa).
  induction t as [d q|d ins IH|sr i a IH|bd ns sh IH] using node_ind'; intros S H HS;
    rewrite substitute_unfold in H;
    match type of H with context [node_eqb ?x old] => destruct (node_eqb x old) eqn:E end;
    try (right; split; [exact H|]; eexists; split; [apply chain_here | exact E]).
  - inversion H; subst; discriminate.
  - inversion H; subst; discriminate.
  - inversion H; subst; discriminate.
  - inversion H as [|b' ns' sh' Hc]; subst.
    + left. exists (SubRecipe bd ns sh). split; [apply chain_here|]. split; [reflexivity|].
      unfold old. now rewrite substitute_SubRecipe_ref.
    + destruct (IH S Hc HS) as [(S0 & Hc0 & Hs0 & ->)|(Hn & z & Hz & Hze)].
      * left. exists S0. split; [now apply chain_body|]. split; [exact Hs0 | reflexivity].
      * right. split; [exact Hn|]. exists z. split; [now apply chain_body | exact Hze].
Qed.

Lemma chain_substitute_ref osr oi oa new : forall t Y k a,
  chain (Reference Y k a) (substitute (Reference osr oi oa) new t) ->
  (exists X, chain (Reference X k a) t /\ Y = substitute (Reference osr oi oa) new X /\
             node_eqb (Reference X k a) (Reference osr oi oa) = false)
  \/ (chain (Reference Y k a) new /\ exists z, chain z t /\ node_eqb z (Reference osr oi oa) = true).
Proof.
  set (old := Reference osr oi oa).
  induction t as [d q|d ins IH|sr i0 a0 IH|bd ns sh IH] using node_ind'; intros Y k a H;
    rewrite substitute_unfold in H;
    match type of H with context [node_eqb ?x old] => destruct (node_eqb x old) eqn:E end;
    try (right; split; [exact H|]; eexists; split; [apply chain_here | exact E]).
  - inversion H.
  - inversion H.
  - inversion H; subst. left. exists sr. split; [apply chain_here|]. split; [reflexivity | exact E].
  - inversion H as [|b' ns' sh' Hc]; subst.
    destruct (IH Y k a Hc) as [(X & HcX & -> & Hne)|(Hn & z & Hz & Hze)].
    + left. exists X. split; [now apply chain_body|]. split; [reflexivity | exact Hne].
    + right. split; [exact Hn|]. exists z. split; [now apply chain_body | exact Hze].
Qed.

Lemma chain_ref_not_sub R x : chain R x -> is_subrecipe x = false -> R = x.
Proof. destruct 1; [reflexivity | discriminate]. Qed.

(** ** Invariants for name uniqueness *)
Definition top_ref (e : entry) (x : node) : Prop :=
  exists a, chain (Reference (e_sub e) (e_idx e) a) x.

(** No more roots end their top chain in a reference to [e] than uses recorded. *)
Definition TopBound (e : entry) (l : list node) : Prop :=
  forall l', subl l' l -> Forall (top_ref e) l' -> (length l' <= length (e_refs e))%nat.

Definition Single (e : entry) (l : list node) : Prop :=
  (length (e_refs e) <= 1)%nat ->
  forall x y, subl [x; y] l -> top_ref e x -> top_ref e y -> False.

Lemma TopBound_Single e l : TopBound e l -> Single e l.
Proof.
  intros H Hlen x y Hs Hx Hy. specialize (H [x; y] Hs). simpl in H.
  assert (2 <= length (e_refs e))%nat by (apply H; repeat constructor; assumption). lia.
Qed.

Section UniqDefs.
  Variable lower : str -> str.
  Notation norm := (normalise_output_name lower).

  (** Sub recipes on the top chains of two different roots share no name. *)
  Definition Uniq (l : list node) : Prop :=
    forall x y, subl [x; y] l -> forall S1 S2, chain S1 x -> chain S2 y ->
      is_subrecipe S1 = true -> is_subrecipe S2 = true ->
      forall n1 n2, In n1 (names_of S1) -> In n2 (names_of S2) -> svs_eqb (norm n1) (norm n2) = false.

  (** All output names of all roots, normalised, in order. *)
  Definition root_keys (bs : list (list node)) : list svs :=
    flat_map (fun x => map norm (names_of x)) (concat bs).

  Lemma kd_app a b : kd a -> kd b -> (forall k k', In k a -> In k' b -> svs_eqb k k' = false) -> kd (a ++ b).
  Proof.
    induction a as [|k a IH]; simpl; intros Ha Hb Hab; [exact Hb|].
    destruct Ha as [Hk Ha]. split.
    - intros k' Hk'. apply in_app_iff in Hk'. destruct Hk'; auto.
    - apply IH; auto.
  Qed.

  Lemma kd_nth_inj l : (forall k1 k2, (k1 < length l)%nat -> (k2 < length l)%nat ->
      svs_eqb (nth k1 l []) (nth k2 l []) = true -> k1 = k2) -> kd l.
  Proof.
    induction l as [|x l IH]; simpl; intro H; [exact I|]. split.
    - intros k' Hk'. destruct (In_nth _ _ [] Hk') as (n & Hn & <-).
      destruct (svs_eqb x (nth n l [])) eqn:E; [|reflexivity].
      specialize (H 0%nat (S n)). simpl in H. assert (0 = S n)%nat by (apply H; auto; lia). discriminate.
    - apply IH. intros k1 k2 H1 H2 He. specialize (H (S k1) (S k2)). simpl in H.
      assert (S k1 = S k2) by (apply H; auto; lia). lia.
  Qed.
End UniqDefs.

Section RootKeys.
  Variable lower : str -> str.
  Notation norm := (normalise_output_name lower).

  Lemma names_kd_of_named i t x : keys_distinct t -> named_in lower i t x ->
    kd (map norm (names_of x)).
  Proof.
    intros K Hn. apply kd_nth_inj. rewrite map_length. intros k1 k2 H1 H2 He.
    assert (Hnth : forall k, (k < length (names_of x))%nat ->
              nth k (map norm (names_of x)) [] = norm (nth k (names_of x) [])).
    { intros k Hk. rewrite (nth_indep (map norm (names_of x)) [] (norm [])) by (rewrite map_length; exact Hk).
      apply map_nth. }
    change (@nth (list part)) with (@nth svs) in He. rewrite (Hnth k1 H1), (Hnth k2 H2) in He.
    destruct (Hn k1 H1) as (j1 & e1 & Hj1 & Hk1 & Hi1 & _).
    destruct (Hn k2 H2) as (j2 & e2 & Hj2 & Hk2 & Hi2 & _).
    rewrite <- Hk1, <- Hk2 in He.
    assert (j1 = j2) by (eapply keys_distinct_nth; eauto). subst j2.
    rewrite Hj1 in Hj2. inversion Hj2; subst e2. congruence.
  Qed.

  Lemma flat_keys_kd : forall l,
    (forall x, In x l -> kd (map norm (names_of x))) -> Uniq lower l ->
    kd (flat_map (fun x => map norm (names_of x)) l).
  Proof.
    induction l as [|x l IH]; intros Hs Hu; simpl; [exact I|].
    apply kd_app.
    - apply Hs. left. reflexivity.
    - apply IH; [intros; apply Hs; right; assumption|].
      intros a b Hab. apply Hu. now apply subl_skip.
    - intros k k' Hk Hk'. apply in_map_iff in Hk. destruct Hk as (n1 & <- & Hn1).
      apply in_flat_map in Hk'. destruct Hk' as (y & Hy & Hk'). apply in_map_iff in Hk'.
      destruct Hk' as (n2 & <- & Hn2).
      assert (Hsx : is_subrecipe x = true) by (destruct x; simpl in Hn1; try contradiction; reflexivity).
      assert (Hsy : is_subrecipe y = true) by (destruct y; simpl in Hn2; try contradiction; reflexivity).
      apply (Hu x y (subl_keep x [y] l (subl_one l y Hy)) x y); auto using chain_here.
  Qed.

  Lemma root_keys_kd i bs t : Inv2 lower i bs t -> Uniq lower (concat bs) -> kd (root_keys lower bs).
  Proof.
    intros I Hu. unfold root_keys. apply flat_keys_kd; [|exact Hu].
    intros x Hx. destruct (is_subrecipe x) eqn:Es.
    - eapply names_kd_of_named; [apply I|]. eapply (i2_NL _ _ _ _ I x x); auto using chain_here.
    - destruct x; try discriminate; exact Logic.I.
  Qed.
End RootKeys.
