(** * C12: every well-formed binary64 value passes the sanity assert of
    [render_quantity] ([value * Fraction(1) == value]).  Uses the exactness of
    [b64] on well-formed floats (Proofs/RecipeB64.v). *)
From Coq Require Import List ZArith Bool.
From RG Require Import Base.Str Base.Num Model.Recipe Model.Units Proofs.RecipeB64 Proofs.UnitsAlt.
Import ListNotations.

Lemma wf_float_representable f : wf_float f -> representable f.
Proof.
  intro W. pose proof (b64_exact f W) as B. unfold representable, round_q.
  destruct (to_frac f) as [n d]. cbn [fst snd] in B. rewrite B. reflexivity.
Qed.

Theorem value_ok_wf_float m e : wf_float (NFloat m e) -> value_ok (NFloat m e).
Proof. intro W. apply value_ok_float, wf_float_representable, W. Qed.
