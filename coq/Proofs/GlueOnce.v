(** * Glue for C05: every written ingredient and step is drawn exactly once.

    Three facts are composed:
    - C05 (Props/C05sym.v, from the refinement [compile_ast = sym_compile]): the
      compiled recipe is the embedding of the folded symbolic forest [F'], whose
      ingredient / step nodes are a permutation of those of the forest as
      written [F];
    - C02 ([exactly_once]): the labels of the table of a tree are its drawn
      nodes, each once; [all_rows_perm]: the rows of [Cell]s in raster order
      list every cell of the table once;
    - C04e2e ([tree_rows], [rows_for]): the [<td>]s of the text are the cells in
      raster order, each holding the node its label points at.

    [odrawn t]: the nodes of [t] that are drawn, outside references (a
    reference is a drawn leaf; the copy it embeds is not drawn; an untitled
    single-output sub recipe draws no cell of its own).
    [td_values t]: the nodes of the [<td>]s of [render_recipe_tree t], in document order. *)
From Coq Require Import List ZArith NArith Bool Lia Permutation.
From RG Require Import Base.Str Base.Num Model.Recipe Model.Table Model.Layout Model.HtmlTable Model.Html
  Model.RenderTree Model.Compiler Spec.LayoutSpec Spec.CompileSpec Spec.CompileSym
  Proofs.RecipeInd Proofs.LayoutRefine Proofs.LayoutProps Proofs.HtmlTablePlace Proofs.HtmlTableMore
  Proofs.CompilerSymDefs Proofs.CompilerSymConserve Proofs.CompilerSymMain
  Proofs.PipelineWf Proofs.GlueRender.
Import ListNotations.

Inductive dnode :=
| DIng (d : svs) (q : option quantity)
| DStep (d : svs)
| DRef (sub : node) (idx : nat) (amt : amount)
| DSub (names : list svs) (show : bool).

Definition dnode_of (v : node) : dnode :=
  match v with
  | Ingredient d q => DIng d q
  | Step d _ => DStep d
  | Reference sr i a => DRef sr i a
  | SubRecipe _ ns sh => DSub ns sh
  end.

Definition sub_cell (ns : list svs) (sh : bool) : list dnode :=
  if Nat.eqb (length ns) 1 then (if sh then [DSub ns sh] else []) else [DSub ns sh].

Fixpoint odrawn (t : node) {struct t} : list dnode :=
  match t with
  | Ingredient d q => [DIng d q]
  | Step d ins => DStep d :: flat_map odrawn ins
  | Reference sr i a => [DRef sr i a]
  | SubRecipe b ns sh => sub_cell ns sh ++ odrawn b
  end.

(** The drawn node a label of the table of [T] stands for. *)
Definition lab_dnode (T : node) (l : Table.label) : list dnode :=
  match node_at T (snd l) with Some v => [dnode_of v] | None => [] end.

Lemma node_at_snoc T p0 t i : node_at T p0 = Some t -> node_at T (p0 ++ [i]) = node_at t [i].
Proof. intro H. now apply node_at_app. Qed.

Lemma drawn_odrawn T : forall t p0, node_at T p0 = Some t ->
  Permutation (flat_map (lab_dnode T) (drawn p0 (ltree_of_node t))) (odrawn t).
Proof.
  induction t as [d q|d ins IH|sr ix a|b ns sh IH] using node_ind'; intros p0 Hn.
  - simpl. unfold lab_dnode. simpl. rewrite Hn. simpl. apply Permutation_refl.
  - cbn [ltree_of_node drawn]. rewrite flat_map_app. simpl flat_map at 2. unfold lab_dnode at 2. cbn [snd].
    rewrite Hn. cbn [dnode_of app odrawn].
    eapply Permutation_trans; [apply Permutation_app_comm|]. cbn [app]. apply perm_skip.
    assert (G : forall l i,
              Forall (fun t => forall p0, node_at T p0 = Some t ->
                        Permutation (flat_map (lab_dnode T) (drawn p0 (ltree_of_node t))) (odrawn t)) l ->
              (forall j x, nth_error l j = Some x -> node_at T (p0 ++ [(i + j)%nat]) = Some x) ->
              Permutation (flat_map (lab_dnode T) (concat_i (fun i x => drawn (p0 ++ [i]) x) i (map ltree_of_node l)))
                          (flat_map odrawn l)).
    { induction l as [|x l IHl]; intros i HF Hnth; [apply Permutation_refl|].
      inversion HF as [|? ? Hx Hl]; subst. cbn [map concat_i flat_map]. rewrite flat_map_app.
      apply Permutation_app.
      - apply Hx. specialize (Hnth 0%nat x eq_refl). now rewrite Nat.add_0_r in Hnth.
      - apply IHl; [exact Hl|]. intros j y Hj. specialize (Hnth (S j) y Hj). now rewrite Nat.add_succ_r in Hnth. }
    apply G; [exact IH|]. intros j x Hj. rewrite (node_at_snoc T p0 _ _ Hn). simpl. now rewrite Hj.
  - simpl. unfold lab_dnode. simpl. rewrite Hn. simpl. apply Permutation_refl.
  - assert (Hb : Permutation (flat_map (lab_dnode T) (drawn (p0 ++ [0%nat]) (ltree_of_node b))) (odrawn b)).
    { apply IH. rewrite (node_at_snoc T p0 _ _ Hn). reflexivity. }
    cbn [ltree_of_node drawn odrawn]. unfold sub_cell.
    assert (Hself : lab_dnode T (KHeader, p0) = [DSub ns sh] /\ lab_dnode T (KOutputs, p0) = [DSub ns sh]).
    { unfold lab_dnode. cbn [snd]. rewrite Hn. split; reflexivity. }
    destruct Hself as [H1 H2].
    destruct (Nat.eqb (length ns) 1).
    + destruct sh; [|exact Hb]. cbn [flat_map]. rewrite H1. cbn [app]. now apply perm_skip.
    + rewrite flat_map_app. cbn [flat_map]. rewrite H2, app_nil_r.
      eapply Permutation_trans; [apply Permutation_app_comm|]. cbn [app]. now apply perm_skip.
Qed.

(** ** The [<td>]s, in document order *)
Local Open Scope N_scope.

Lemma row_cells_orow R C l r : row_cells (mkTable R C l) r = map e_cell (orow l r (nseq C)).
Proof.
  unfold row_cells, orow. simpl t_cols. induction (nseq C) as [|c cs IH]; [reflexivity|].
  simpl. rewrite map_app, IH. f_equal.
  unfold grid, origin_at; simpl. destruct (Table.lookup l r c) as [e|]; [|reflexivity].
  destruct ((e_row e =? r) && (e_col e =? c)); reflexivity.
Qed.

Definition raster_cells (tb : Table.table) : list cell := flat_map (row_cells tb) (nseq (t_rows tb)).

Lemma raster_perm tb : TilingT tb -> Permutation (map e_cell (t_cells tb)) (raster_cells tb).
Proof.
  destruct tb as [R C l]. intros (_ & _ & HT). simpl in HT. unfold raster_cells. cbn [t_rows t_cells].
  replace (flat_map (row_cells (mkTable R C l)) (nseq R)) with (map e_cell (all_rows C l (nseq R))).
  - apply Permutation_map. apply (all_rows_perm R C l HT).
  - unfold all_rows. rewrite map_flat_map. apply flat_map_ext. intros r. symmetry. apply row_cells_orow.
Qed.

Definition td_values (t : node) : list node :=
  match tree_rows t (spec_table (ltree_of_node t)) with
  | Some rows => map hc_value (List.concat rows)
  | None => []
  end.

Lemma rows_for_values t tb rows : rows_for t tb rows ->
  map dnode_of (map hc_value (List.concat rows)) = flat_map (lab_dnode t) (map c_label (raster_cells tb)).
Proof.
  unfold rows_for, raster_cells. generalize (nseq (t_rows tb)).
  induction 1 as [|r hs rs rows Hr _ IH]; [reflexivity|].
  cbn [List.concat flat_map]. rewrite !map_app, flat_map_app, IH. f_equal.
  clear IH. induction Hr as [|c hc cs hs Hc _ IHc]; [reflexivity|].
  assert (Hl : lab_dnode t (c_label c) = [dnode_of (hc_value hc)]).
  { destruct Hc as (Hn & _). unfold lab_dnode. now rewrite Hn. }
  cbn [map flat_map]. rewrite IHc, Hl. reflexivity.
Qed.

Theorem tds_once t : wf (ltree_of_node t) = true ->
  exists rows, tree_rows t (spec_table (ltree_of_node t)) = Some rows /\
               rows_for t (spec_table (ltree_of_node t)) rows /\
               td_values t = map hc_value (List.concat rows) /\
               Permutation (map dnode_of (td_values t)) (odrawn t).
Proof.
  intro Hwf. destruct (tree_rows_ok t Hwf) as (rows & Er & Hr). exists rows.
  split; [exact Er|]. split; [exact Hr|]. unfold td_values. rewrite Er. split; [reflexivity|].
  set (lt := ltree_of_node t) in *. set (tb := spec_table lt) in *.
  pose proof (layout_refines_spec lt Hwf) as E.
  rewrite (rows_for_values t tb rows Hr).
  assert (HT : TilingT tb).
  { destruct (html_realises_tree (fun _ => []) lt Hwf) as (tb' & E' & T & _). rewrite E in E'. inversion E'; subst. exact T. }
  eapply Permutation_trans.
  - apply Permutation_flat_map, Permutation_map, Permutation_sym, raster_perm. exact HT.
  - rewrite map_map. change (map (fun e => c_label (e_cell e)) (t_cells tb)) with (labels tb).
    rewrite (exactly_once lt tb Hwf E). apply (drawn_odrawn t t []). reflexivity.
Qed.

(** ** The compiled recipe against the description as written *)
Local Close Scope N_scope.

Definition written_of (l : list dnode) : list CompilerSymConserve.label :=
  flat_map (fun x => match x with DIng d q => [LIng d q] | DStep d => [CompilerSymConserve.LStep d] | _ => [] end) l.

Lemma written_of_app a b : written_of (a ++ b) = written_of a ++ written_of b.
Proof. apply flat_map_app. Qed.

Lemma written_sub_cell ns sh : written_of (sub_cell ns sh) = [].
Proof. unfold sub_cell. destruct (Nat.eqb (length ns) 1), sh; reflexivity. Qed.

Section Embed.
  Variable lower : str -> str.

  Lemma embed_written en : forall y, snd (y_embed en y) = true ->
    written_of (odrawn (fst (y_embed en y))) = ynodes y.
  Proof.
    induction y as [d q0|d ins IH|q i a|b ns sh IH] using sym_ind'; intro H.
    - reflexivity.
    - cbn [y_embed fst snd] in *. cbn [odrawn ynodes]. change (written_of (DStep d :: ?l)) with (CompilerSymConserve.LStep d :: written_of l).
      f_equal. rewrite map_map in *. rewrite forallb_forall in H.
      induction IH as [|x l Hx _ IHl]; [reflexivity|]. cbn [map flat_map]. rewrite written_of_app. f_equal.
      + apply Hx. apply (H (y_embed en x)). left; reflexivity.
      + apply IHl. intros z Hz. apply H. right; exact Hz.
    - cbn [y_embed] in *. destruct (eenv_lookup q en); [reflexivity|discriminate].
    - cbn [y_embed fst snd] in *. cbn [odrawn ynodes]. rewrite written_of_app, written_sub_cell. now apply IH.
  Qed.

  Lemma embed_roots_written : forall rs en xs en',
    embed_roots lower rs en = (xs, true, en') -> written_of (flat_map odrawn xs) = rnodes rs.
  Proof.
    induction rs as [|r rs IH]; intros en xs en' H; simpl in H.
    - inversion H; reflexivity.
    - destruct (y_embed en (r_tree r)) as [x ok] eqn:Ey.
      match type of H with context [embed_roots lower rs ?e] => destruct (embed_roots lower rs e) as [[xs' ok'] en2] eqn:Er end.
      inversion H; subst. apply andb_true_iff in H2. destruct H2 as [-> ->].
      cbn [flat_map]. rewrite written_of_app. unfold rnodes. cbn [flat_map]. f_equal.
      + pose proof (embed_written en (r_tree r)) as Hw. rewrite Ey in Hw. now apply Hw.
      + eapply IH; eauto.
  Qed.

  Lemma embed_from_written : forall f en bs,
    embed_from lower f en = (bs, true) -> written_of (flat_map (flat_map odrawn) bs) = fnodes f.
  Proof.
    induction f as [|rs f IH]; intros en bs H; simpl in H.
    - inversion H; reflexivity.
    - destruct (embed_roots lower rs en) as [[xs ok] en1] eqn:Er.
      destruct (embed_from lower f en1) as [bs' ok'] eqn:Ef. inversion H; subst.
      apply andb_true_iff in H2. destruct H2 as [-> ->].
      cbn [flat_map]. rewrite written_of_app. unfold fnodes. cbn [concat]. rewrite rnodes_app. f_equal.
      + eapply embed_roots_written; eauto.
      + eapply IH; eauto.
  Qed.
End Embed.

Lemma Permutation_flat_map_pointwise {A B} (f g : A -> list B) : forall l,
  (forall x, In x l -> Permutation (f x) (g x)) -> Permutation (flat_map f l) (flat_map g l).
Proof.
  induction l as [|x l IH]; intro H; [apply Permutation_refl|]. simpl.
  apply Permutation_app; [apply H; now left|apply IH; intros y Hy; apply H; now right].
Qed.

(** The drawn nodes of all [<td>]s of all root trees of all blocks. *)
Definition all_td_nodes (bs : list (list node)) : list dnode :=
  flat_map (flat_map (fun t => map dnode_of (td_values t))) bs.

Section Main.
  Variable convert : str -> str -> option num.
  Variable tol : Z * positive.
  Variable lower : str -> str.

  (** C05_nodes_exactly_once with the embedding's success flag kept, and the
      compiled blocks' own drawn nodes in place of the symbolic forest's. *)
  Theorem compiled_written_once p bs :
    compile_ast convert tol lower p = COk bs ->
    exists F keys F',
      sym_resolve lower p = SResolved F keys /\
      sym_fold convert tol lower keys F = Some F' /\
      sym_embed lower F' = (bs, true) /\
      written_of (flat_map (flat_map odrawn) bs) = fnodes F' /\
      Permutation (fnodes F') (fnodes F).
  Proof.
    intro H. rewrite compile_refines_sym in H. unfold sym_compile in H.
    destruct (sym_resolve lower p) as [F keys|k b o] eqn:ER; [|discriminate].
    destruct (sym_fold convert tol lower keys F) as [F'|] eqn:EF; [|discriminate].
    destruct (sym_embed lower F') as [bs' ok] eqn:EE. destruct ok; inversion H; subst.
    exists F, keys, F'. repeat split; try reflexivity; try assumption.
    - unfold sym_embed in EE. eapply embed_from_written; eauto.
    - eapply sym_fold_conserves_nodes; eauto.
  Qed.

  Theorem compiled_tds_once p bs :
    ast_steps_nonempty p = true -> compile_ast convert tol lower p = COk bs ->
    (forall trees t, In trees bs -> In t trees ->
       exists rows, tree_rows t (spec_table (ltree_of_node t)) = Some rows /\
                    rows_for t (spec_table (ltree_of_node t)) rows /\
                    td_values t = map hc_value (List.concat rows) /\
                    Permutation (map dnode_of (td_values t)) (odrawn t)) /\
    Permutation (all_td_nodes bs) (flat_map (flat_map odrawn) bs) /\
    exists F keys,
      sym_resolve lower p = SResolved F keys /\
      Permutation (written_of (all_td_nodes bs)) (fnodes F).
  Proof.
    intros Hp H.
    assert (Ht : forall trees t, In trees bs -> In t trees ->
       exists rows, tree_rows t (spec_table (ltree_of_node t)) = Some rows /\
                    rows_for t (spec_table (ltree_of_node t)) rows /\
                    td_values t = map hc_value (List.concat rows) /\
                    Permutation (map dnode_of (td_values t)) (odrawn t)).
    { intros trees t Hb Hin. apply tds_once. eapply compile_output_wf; eauto. }
    assert (Hall : Permutation (all_td_nodes bs) (flat_map (flat_map odrawn) bs)).
    { unfold all_td_nodes. apply Permutation_flat_map_pointwise. intros trees Hb.
      apply Permutation_flat_map_pointwise. intros t Hin.
      destruct (Ht trees t Hb Hin) as (_ & _ & _ & _ & Hperm). exact Hperm. }
    split; [exact Ht|]. split; [exact Hall|].
    destruct (compiled_written_once p bs H) as (F & keys & F' & HR & _ & _ & Hw & HP).
    exists F, keys. split; [exact HR|].
    eapply Permutation_trans; [|exact HP]. rewrite <- Hw.
    unfold written_of. apply Permutation_flat_map. exact Hall.
  Qed.
End Main.

(** [td_values t] are indeed the nodes of the [<td>]s of the text, in document order. *)
Theorem td_values_of_text t prefix h :
  wf (ltree_of_node t) = true -> render_recipe_tree_model t prefix = TOk h ->
  exists rows tds id,
    h = table_text tds id /\
    Forall2 (Forall2 (fun hc x => Html.render_cell hc prefix = Units.Ok x)) rows tds /\
    td_values t = map hc_value (List.concat rows).
Proof.
  intros Hwf H. destruct (render_structure t prefix h Hwf H) as (rows & tds & id & _ & Er & _ & _ & HF & Hh & _).
  exists rows, tds, id. split; [exact Hh|]. split; [exact HF|]. unfold td_values. now rewrite Er.
Qed.
