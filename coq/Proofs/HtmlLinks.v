(** * C09: anchors and links of a rendered document. *)
From Coq Require Import List ZArith NArith Bool Lia String.
From RG Require Import Base.Str Base.Dec Base.Num Model.Recipe Model.Units Model.Html Proofs.DecLemmas.
Import ListNotations.

(** ** Prefixes of independent recipes never clash *)
Lemma digits_then_dash da : forall db x y,
  all_digits da = true -> all_digits db = true -> da ++ 45%N :: x = db ++ 45%N :: y -> da = db.
Proof.
  induction da as [|c da IH]; intros [|d db] x y Ha Hb E; cbn [app] in E.
  - reflexivity.
  - inversion E; subst d. cbn in Hb. discriminate.
  - inversion E; subst c. cbn in Ha. discriminate.
  - inversion E; subst d. f_equal.
    unfold all_digits in *. cbn [forallb] in Ha, Hb.
    apply andb_true_iff in Ha as [_ Ha]. apply andb_true_iff in Hb as [_ Hb].
    exact (IH db x y Ha Hb H1).
Qed.

Lemma prefix_num_digits i : all_digits (prefix_num i) = true.
Proof. unfold prefix_num. destruct (Nat.leb i 1); [reflexivity | apply all_digits_dec_N]. Qed.

Lemma prefix_num_inj i j : (1 <= i)%nat -> (1 <= j)%nat -> prefix_num i = prefix_num j -> i = j.
Proof.
  unfold prefix_num. intros Hi Hj E.
  destruct (Nat.leb i 1) eqn:Li, (Nat.leb j 1) eqn:Lj.
  - apply Nat.leb_le in Li, Lj. lia.
  - symmetry in E. apply dec_N_nonempty in E. contradiction.
  - apply dec_N_nonempty in E. contradiction.
  - apply (f_equal val_N) in E. rewrite !val_N_dec_N in E. apply Nat2N.inj. exact E.
Qed.

Theorem prefix_free i j x y : (1 <= i)%nat -> (1 <= j)%nat -> i <> j -> prefix_of i ++ x <> prefix_of j ++ y.
Proof.
  intros Hi Hj Hne E. unfold prefix_of in E. rewrite <- !app_assoc in E.
  apply app_inv_head in E. change (s "-") with [45%N] in E. cbn [app] in E.
  apply Hne, prefix_num_inj; try assumption.
  exact (digits_then_dash _ _ _ _ (prefix_num_digits i) (prefix_num_digits j) E).
Qed.

(** ** Validity of the trees of one recipe: every drawn reference embeds a
    root tree that comes earlier, with the output index in range (what
    [Recipe.__post_init__] checks and compile / scale preserve). *)
Definition ref_valid (earlier : list node) (r : node * nat) : Prop :=
  In (fst r) earlier /\ exists b names sh, fst r = SubRecipe b names sh /\ (snd r < List.length names)%nat.

Fixpoint trees_valid (earlier trees : list node) : Prop :=
  match trees with
  | [] => True
  | t :: rest => Forall (ref_valid earlier) (refs_in t) /\ trees_valid (earlier ++ [t]) rest
  end.

Definition page_valid (p : page) : Prop := Forall (fun blocks => trees_valid [] (List.concat blocks)) p.

Lemma ref_valid_mono e e' r : incl e e' -> ref_valid e r -> ref_valid e' r.
Proof. intros Hi [H1 H2]. split; [apply Hi; exact H1 | exact H2]. Qed.

Lemma trees_valid_refs trees : forall earlier, trees_valid earlier trees ->
  forall r, In r (flat_map refs_in trees) -> ref_valid (earlier ++ trees) r.
Proof.
  induction trees as [|t rest IH]; intros earlier Hv r Hin; [destruct Hin|].
  destruct Hv as [Ht Hrest]. cbn [flat_map] in Hin. apply in_app_or in Hin as [Hin | Hin].
  - rewrite Forall_forall in Ht. apply (ref_valid_mono earlier); [apply incl_appl, incl_refl | exact (Ht r Hin)].
  - specialize (IH _ Hrest r Hin). rewrite <- app_assoc in IH. exact IH.
Qed.

(** ** The ids a root sub recipe writes *)
Definition defining_anchor (k : nat) (names : list svs) (idx : nat) : anchor :=
  match names with [_] => ATable k | _ => ALi k idx end.

Lemma li_ids_spec rest : forall all k out prefix l,
  li_ids rest all k out prefix = Ok l ->
  forall j tg, (j < List.length rest)%nat -> generate_subrecipe_output_id all (out + j) prefix = Ok tg ->
  In (tg, ALi k (out + j)) l.
Proof.
  induction rest as [|nm rest IH]; intros all k out prefix l H j tg Hj Hg; [cbn in Hj; lia|].
  cbn [li_ids] in H.
  destruct (generate_subrecipe_output_id all out prefix) as [i|] eqn:E1; [|discriminate].
  destruct (li_ids rest all k (S out) prefix) as [r|] eqn:E2; [|discriminate].
  inversion H; subst l. destruct j as [|j].
  - rewrite Nat.add_0_r in *. rewrite E1 in Hg. inversion Hg; subst. left. reflexivity.
  - right. replace (out + S j)%nat with (S out + j)%nat in * by lia.
    apply (IH all k (S out) prefix r E2 j tg); [cbn in Hj; lia | exact Hg].
Qed.

Lemma gen_id_single nm idx prefix tg :
  generate_subrecipe_output_id [nm] idx prefix = Ok tg -> idx = 0%nat.
Proof.
  unfold generate_subrecipe_output_id. destruct idx as [|[|idx]]; cbn [nth_error]; [reflexivity | discriminate..].
Qed.

Lemma tree_ids_defines prefix k b names sh idx tg a :
  tree_ids prefix k (SubRecipe b names sh) = Ok a ->
  (idx < List.length names)%nat -> generate_subrecipe_output_id names idx prefix = Ok tg ->
  In (tg, defining_anchor k names idx) a.
Proof.
  intros H Hi Hg. destruct names as [|nm [|nm2 rest]]; cbn [tree_ids defining_anchor] in *.
  - cbn in Hi. lia.
  - pose proof (gen_id_single _ _ _ _ Hg). subst idx. rewrite Hg in H. inversion H. left. reflexivity.
  - apply (li_ids_spec _ _ _ 0%nat _ _ H idx tg Hi Hg).
Qed.

Lemma ids_from_In prefix trees : forall k0 ids k t a,
  ids_from prefix k0 trees = Ok ids -> nth_error trees k = Some t -> tree_ids prefix (k0 + k) t = Ok a ->
  incl a ids.
Proof.
  induction trees as [|t0 rest IH]; intros k0 ids k t a H Hn Ha; [destruct k; discriminate|].
  cbn [ids_from] in H. destruct (tree_ids prefix k0 t0) as [a0|] eqn:E1; [|discriminate].
  destruct (ids_from prefix (S k0) rest) as [b0|] eqn:E2; [|discriminate]. inversion H; subst ids.
  destruct k as [|k]; cbn [nth_error] in Hn.
  - inversion Hn; subst t0. rewrite Nat.add_0_r in Ha. rewrite E1 in Ha. inversion Ha; subst. apply incl_appl, incl_refl.
  - apply incl_appr. apply (IH (S k0) b0 k t a E2 Hn). replace (S k0 + k)%nat with (k0 + S k)%nat by lia. exact Ha.
Qed.

Lemma ids_from_tree_ok prefix trees : forall k0 ids k t,
  ids_from prefix k0 trees = Ok ids -> nth_error trees k = Some t -> exists a, tree_ids prefix (k0 + k) t = Ok a.
Proof.
  induction trees as [|t0 rest IH]; intros k0 ids k t H Hn; [destruct k; discriminate|].
  cbn [ids_from] in H. destruct (tree_ids prefix k0 t0) as [a0|] eqn:E1; [|discriminate].
  destruct (ids_from prefix (S k0) rest) as [b0|] eqn:E2; [|discriminate].
  destruct k as [|k]; cbn [nth_error] in Hn.
  - inversion Hn; subst. rewrite Nat.add_0_r. eauto.
  - destruct (IH (S k0) b0 k t E2 Hn) as [a Ha]. exists a. replace (k0 + S k)%nat with (S k0 + k)%nat by lia. exact Ha.
Qed.

Lemma map_res_In {A B} (f : A -> res B) l : forall ys y,
  map_res f l = Ok ys -> In y ys -> exists x, In x l /\ f x = Ok y.
Proof.
  induction l as [|x l IH]; intros ys y H Hin; cbn [map_res] in H.
  - inversion H; subst. destruct Hin.
  - destruct (f x) as [y0|] eqn:E1; [|discriminate]. destruct (map_res f l) as [ys0|] eqn:E2; [|discriminate].
    inversion H; subst ys. destruct Hin as [<- | Hin].
    + exists x. split; [left; reflexivity | exact E1].
    + destruct (IH ys0 y eq_refl Hin) as [x' [Hx Hf]]. exists x'. split; [right; exact Hx | exact Hf].
Qed.

(** Every link target of a valid recipe is the id written on the element that
    defines the referenced output: the [<table>] of the (earlier) root tree
    that the reference embeds when it has one output, its [idx]-th [<li>]
    otherwise. *)
Theorem target_exists prefix trees ids targets :
  trees_valid [] trees ->
  recipe_ids prefix trees = Ok ids -> recipe_targets prefix trees = Ok targets ->
  forall tg, In tg targets ->
  exists k b names sh idx,
    nth_error trees k = Some (SubRecipe b names sh) /\ (idx < List.length names)%nat /\
    In (SubRecipe b names sh, idx) (flat_map refs_in trees) /\
    generate_subrecipe_output_id names idx prefix = Ok tg /\
    In (tg, defining_anchor k names idx) ids.
Proof.
  intros Hv Hids Htg tg Hin.
  destruct (map_res_In _ _ _ _ Htg Hin) as [[sub idx] [Hr Hf]].
  pose proof (trees_valid_refs trees [] Hv _ Hr) as [Hsub [b [names [sh [Es Hi]]]]].
  cbn [fst snd app] in *. subst sub.
  apply In_nth_error in Hsub as [k Hk].
  unfold ref_target in Hf. cbn [fst snd] in Hf.
  destruct (ids_from_tree_ok prefix trees 0 ids k _ Hids Hk) as [a Ha].
  exists k, b, names, sh, idx. repeat split; try assumption.
  apply (ids_from_In prefix trees 0 ids k _ a Hids Hk Ha).
  exact (tree_ids_defines prefix k b names sh idx tg a Ha Hi Hf).
Qed.

(** ** Uniqueness, when the names of a recipe sanitise injectively *)
Lemma gen_id_prefix names idx prefix :
  generate_subrecipe_output_id names idx prefix
  = match generate_subrecipe_output_id names idx [] with Ok x => Ok (prefix ++ x) | Err e => Err e end.
Proof.
  unfold generate_subrecipe_output_id. destruct (nth_error names idx) as [nm|]; [|reflexivity].
  destruct (id_name nm); reflexivity.
Qed.

Definition add_prefix (prefix : str) (l : list (str * anchor)) : list (str * anchor) :=
  map (fun x => (prefix ++ fst x, snd x)) l.

Lemma li_ids_prefix rest : forall all k out prefix,
  li_ids rest all k out prefix
  = match li_ids rest all k out [] with Ok l => Ok (add_prefix prefix l) | Err e => Err e end.
Proof.
  induction rest as [|nm rest IH]; intros all k out prefix; [reflexivity|].
  cbn [li_ids]. rewrite gen_id_prefix, (IH all k (S out) prefix).
  destruct (generate_subrecipe_output_id all out []) as [i|]; [|reflexivity].
  destruct (li_ids rest all k (S out) []) as [r|]; reflexivity.
Qed.

Lemma tree_ids_prefix prefix k t :
  tree_ids prefix k t = match tree_ids [] k t with Ok l => Ok (add_prefix prefix l) | Err e => Err e end.
Proof.
  destruct t as [d q|d ins|sub idx amt|b names sh]; try reflexivity.
  destruct names as [|nm [|nm2 rest]]; cbn [tree_ids].
  - reflexivity.
  - rewrite gen_id_prefix. destruct (generate_subrecipe_output_id [nm] 0 []); reflexivity.
  - apply li_ids_prefix.
Qed.

Lemma ids_from_prefix prefix trees : forall k0,
  ids_from prefix k0 trees
  = match ids_from [] k0 trees with Ok l => Ok (add_prefix prefix l) | Err e => Err e end.
Proof.
  induction trees as [|t rest IH]; intro k0; [reflexivity|].
  cbn [ids_from]. rewrite tree_ids_prefix, (IH (S k0)).
  destruct (tree_ids [] k0 t) as [a|]; [|reflexivity].
  destruct (ids_from [] (S k0) rest) as [b|]; [|reflexivity].
  unfold add_prefix. rewrite map_app. reflexivity.
Qed.

(** the un-prefixed ids of a recipe *)
Definition recipe_id_names (trees : list node) : res (list str) :=
  match recipe_ids [] trees with Ok l => Ok (map fst l) | Err e => Err e end.

Lemma recipe_ids_names prefix trees ids :
  recipe_ids prefix trees = Ok ids ->
  exists names, recipe_id_names trees = Ok names /\ map fst ids = map (app prefix) names.
Proof.
  unfold recipe_id_names, recipe_ids. rewrite ids_from_prefix.
  destruct (ids_from [] 0 trees) as [l|]; [|discriminate]. intro H. inversion H; subst ids.
  exists (map fst l). split; [reflexivity|]. unfold add_prefix. rewrite !map_map. reflexivity.
Qed.

Lemma NoDup_map_app_prefix prefix (l : list str) : NoDup l -> NoDup (map (app prefix) l).
Proof.
  induction 1 as [|x l Hx Hl IH]; [constructor|]. cbn [map]. constructor; [|exact IH].
  intro Hin. apply in_map_iff in Hin as [y [E Hy]]. apply app_inv_head in E. subst y. contradiction.
Qed.

Theorem recipe_unique_if_injective prefix trees ids names :
  recipe_ids prefix trees = Ok ids -> recipe_id_names trees = Ok names -> NoDup names -> NoDup (map fst ids).
Proof.
  intros Hi Hn Hnd. destruct (recipe_ids_names prefix trees ids Hi) as [names' [Hn' E]].
  rewrite Hn in Hn'. inversion Hn'; subst names'. rewrite E. apply NoDup_map_app_prefix, Hnd.
Qed.

Lemma NoDup_app_intro {A} (a b : list A) :
  NoDup a -> NoDup b -> (forall x, In x a -> In x b -> False) -> NoDup (a ++ b).
Proof.
  induction 1 as [|x a Hx Ha IH]; intros Hb Hd; [exact Hb|]. cbn [app]. constructor.
  - intro Hin. apply in_app_or in Hin as [Hin | Hin]; [contradiction | exact (Hd x (or_introl eq_refl) Hin)].
  - apply IH; [exact Hb | intros y Hy; apply Hd; right; exact Hy].
Qed.

(** page level: distinct independent recipes use distinct prefixes *)
Definition names_injective (blocks : list (list node)) : Prop :=
  exists names, recipe_id_names (List.concat blocks) = Ok names /\ NoDup names.

Lemma page_ids_from_shape p : forall i l,
  page_ids_from i p = Ok l ->
  forall x, In x (map fst l) -> exists j y, (i <= j)%nat /\ x = prefix_of j ++ y.
Proof.
  induction p as [|blocks rest IH]; intros i l H x Hin; cbn [page_ids_from] in H.
  - inversion H; subst. destruct Hin.
  - destruct (recipe_ids (prefix_of i) (List.concat blocks)) as [a|] eqn:E1; [|discriminate].
    destruct (page_ids_from (S i) rest) as [b|] eqn:E2; [|discriminate]. inversion H; subst l.
    rewrite map_app, map_map in Hin. cbn [fst] in Hin. apply in_app_or in Hin as [Hin | Hin].
    + destruct (recipe_ids_names _ _ _ E1) as [names [_ En]]. change (map (fun x => fst x) a) with (map fst a) in Hin.
      rewrite En in Hin. apply in_map_iff in Hin as [y [Ey _]]. exists i, y. split; [lia | symmetry; exact Ey].
    + destruct (IH (S i) b E2 x Hin) as [j [y [Hj Ey]]]. exists j, y. split; [lia | exact Ey].
Qed.

Theorem page_unique_if_injective p : forall i l, (1 <= i)%nat ->
  page_ids_from i p = Ok l -> Forall names_injective p -> NoDup (map fst l).
Proof.
  induction p as [|blocks rest IH]; intros i l Hi H Hinj; cbn [page_ids_from] in H.
  - inversion H; subst. constructor.
  - destruct (recipe_ids (prefix_of i) (List.concat blocks)) as [a|] eqn:E1; [|discriminate].
    destruct (page_ids_from (S i) rest) as [b|] eqn:E2; [|discriminate]. inversion H; subst l.
    inversion Hinj as [|? ? [names [Hn Hnd]] Hrest]; subst.
    rewrite map_app, map_map. cbn [fst]. change (map (fun x => fst x) a) with (map fst a).
    apply NoDup_app_intro.
    + exact (recipe_unique_if_injective _ _ _ _ E1 Hn Hnd).
    + apply (IH (S i) b); [lia | exact E2 | exact Hrest].
    + intros x Ha Hb.
      destruct (recipe_ids_names _ _ _ E1) as [names' [_ En]]. rewrite En in Ha.
      apply in_map_iff in Ha as [y [Ey _]].
      destruct (page_ids_from_shape rest (S i) b E2 x Hb) as [j [z [Hj Ez]]].
      apply (prefix_free i j y z); [lia | lia | lia | congruence].
Qed.

(** ** Page level existence *)
Theorem page_target_exists p : forall i l hs,
  page_valid p -> page_ids_from i p = Ok l -> page_hrefs_from i p = Ok hs ->
  forall h, In h hs ->
  exists tg j blocks k b names sh idx,
    h = 35%N :: tg /\
    nth_error p (j - i) = Some blocks /\ (i <= j)%nat /\
    nth_error (List.concat blocks) k = Some (SubRecipe b names sh) /\ (idx < List.length names)%nat /\
    In (SubRecipe b names sh, idx) (flat_map refs_in (List.concat blocks)) /\
    generate_subrecipe_output_id names idx (prefix_of j) = Ok tg /\
    In (tg, (j, defining_anchor k names idx)) l.
Proof.
  induction p as [|blocks rest IH]; intros i l hs Hv Hl Hh h Hin; cbn [page_ids_from page_hrefs_from] in *.
  - inversion Hh; subst. destruct Hin.
  - destruct (recipe_ids (prefix_of i) (List.concat blocks)) as [a|] eqn:E1; [|discriminate].
    destruct (page_ids_from (S i) rest) as [b0|] eqn:E2; [|discriminate]. inversion Hl; subst l.
    destruct (recipe_targets (prefix_of i) (List.concat blocks)) as [ts|] eqn:E3; [|discriminate].
    destruct (page_hrefs_from (S i) rest) as [hs0|] eqn:E4; [|discriminate]. inversion Hh; subst hs.
    inversion Hv as [|? ? Hv1 Hv2]; subst.
    apply in_app_or in Hin as [Hin | Hin].
    + apply in_map_iff in Hin as [tg [Eh Htg]].
      destruct (target_exists _ _ _ _ Hv1 E1 E3 tg Htg) as [k [b [names [sh [idx [Hk [Hi [Hr [Hg Hid]]]]]]]]].
      exists tg, i, blocks, k, b, names, sh, idx. rewrite Nat.sub_diag. cbn [nth_error].
      repeat split; try assumption; [symmetry; exact Eh | lia |].
      apply in_or_app. left. apply in_map_iff. exists (tg, defining_anchor k names idx). split; [reflexivity | exact Hid].
    + destruct (IH (S i) b0 hs0 Hv2 E2 E4 h Hin) as [tg [j [bl [k [b [names [sh [idx [Eh [Hn [Hj [Hk [Hi [Hr [Hg Hid]]]]]]]]]]]]]]].
      exists tg, j, bl, k, b, names, sh, idx. repeat split; try assumption; [|lia | apply in_or_app; right; exact Hid].
      replace (j - i)%nat with (S (j - S i))%nat by lia. exact Hn.
Qed.

(** ** Unconditional uniqueness is false: the witness of finding F8 *)
Definition f8_sub1 : node := SubRecipe (Ingredient [PStr (s "x"%string)] None) [[PStr (s "a b"%string)]] false.
Definition f8_sub2 : node := SubRecipe (Ingredient [PStr (s "y"%string)] None) [[PStr (s "a-b"%string)]] false.
Definition f8_page : page :=
  [[[f8_sub1; f8_sub2;
     Step [PStr (s "mix"%string)] [Reference f8_sub1 0 (AProp prop_all); Reference f8_sub2 0 (AProp prop_all)]]]].

Theorem unique_refuted :
  exists p l hs, Forall (fun blocks => recipe_ok blocks = true) p /\ page_valid p /\
                 page_ids p = Ok l /\ page_hrefs p = Ok hs /\ ~ NoDup (map fst l) /\
                 hs = [s "#recipe-a-b"%string; s "#recipe-a-b"%string].
Proof.
  exists f8_page. eexists. eexists. split; [|split; [|split; [|split; [|split]]]].
  - repeat constructor.
  - repeat constructor; cbn; try (left; reflexivity); try (right; left; reflexivity);
      eexists; eexists; eexists; (split; [reflexivity | cbn; Lia.lia]).
  - vm_compute. reflexivity.
  - vm_compute. reflexivity.
  - intro H. inversion H as [|x l' Hx _]; subst. apply Hx. left. reflexivity.
  - reflexivity.
Qed.
